/-
  Props/C08 — an idle rollapp's proposer is slashed on schedule; an active one never.

  Part 1: arithmetic clauses about the function regenerated from `NextSlashHeight`.
  Part 2: the liveness-event queue in every reachable state (one event per rollapp, events and
          records agree, events on the grid and — with consecutive blocks — in the future).
  Part 3: the slash itself (no proposer: nothing; real proposer: exact amount and dishonor).
  Part 4: an accepted update restarts the clock and honours the proposer; a proposer change restarts
          the clock; a fork resets it and removes the event.
  Part 5: the schedule: which block ends slash, one block, any number of idle blocks; an active
          rollapp is never slashed.

  Hypotheses that appear below and why:
  * `1 ≤ p.lsInterval` — enforced by parameter validation (with interval 0 the Go function divides by 0).
  * `BlocksOk ops` / `ops.foldl phaseStep (some false) = some false` — hub heights are consecutive
    (assumption A-height): the model's `run` accepts arbitrary op lists, including two `begin_` without
    an `end_`, which would skip a block end; `event_in_future_needs_consecutive_blocks` shows the
    hypothesis is needed.  The second form says in addition that the state is between blocks.
  No other hypotheses: that the proposer of a rollapp proposes for no other rollapp (needed so that
  another rollapp's event in the same block end cannot touch the same bond) is itself proved for all
  reachable states (`proposer_is_own_sequencer`, `proposes_for_one_rollapp`).
-/
import DymVerif.Lemmas.CoreLiveness
import DymVerif.Lemmas.GenEqArith
import DymVerif.Lemmas.CoreLevFork
import DymVerif.Lemmas.CorePunish
namespace DymVerif.C08
open DymVerif DymVerif.Core DymVerif.Core.LevNs

/-- a rejected message leaves the state untouched -/
theorem reject_unchanged (s : St) (o : Op) (e : Err) (h : (step s o).2 = some e) : (step s o).1 = s := by
  unfold step at *
  cases h' : apply s o with
  | ok s' => simp [h'] at h
  | error e' => simp [h']

-- ================================================================ Part 1: NextSlashHeight

/-- the scheduled liveness event always lies strictly in the future — for every
    `LivenessSlashBlocks` N ≥ 0 and `LivenessSlashInterval` I ≥ 1 (including 1), about the function
    the source currently has -/
theorem next_slash_future (N I hub last : Nat) (hI : 1 ≤ I) (hl : last ≤ hub) :
    hub < Gen.Arith.nextSlashHeight N I hub last := by
  rw [GenEq.nextSlashHeight_eq]; exact nextSlashHeight_future N I hub last hI hl

/-- it lies on the grid `last + N + k·I` … -/
theorem next_slash_on_grid (N I hub last : Nat) :
    ∃ k, Gen.Arith.nextSlashHeight N I hub last = last + N + k * I := by
  rw [GenEq.nextSlashHeight_eq]; exact nextSlashHeight_grid N I hub last

/-- … and is the least grid point after the current height: no slash opportunity is skipped -/
theorem next_slash_least (N I hub last k : Nat) (hI : 1 ≤ I) (hl : last ≤ hub)
    (hk : hub < last + N + k * I) : Gen.Arith.nextSlashHeight N I hub last ≤ last + N + k * I := by
  rw [GenEq.nextSlashHeight_eq]; exact nextSlashHeight_least N I hub last k hI hl hk

/-- inside the first window the event is exactly N blocks after the last update -/
theorem first_event_after_N (N I hub last : Nat) (h : hub < last + N) (hl : last ≤ hub) :
    Gen.Arith.nextSlashHeight N I hub last = last + N := by
  rw [GenEq.nextSlashHeight_eq]; exact nextSlashHeight_first N I hub last h hl

/-- when an event fires at `last + N + j·I` and the rollapp stays idle, the next one is scheduled
    exactly one interval later: "again every LivenessSlashInterval blocks" -/
theorem next_event_one_interval_later (N I last j : Nat) (hI : 1 ≤ I) :
    Gen.Arith.nextSlashHeight N I (last + N + j * I) last = last + N + (j + 1) * I := by
  rw [GenEq.nextSlashHeight_eq]; exact nextSlashHeight_step N I last j hI

/-- the slash amount `min(bond, max(abs, ⌊mul·bond⌋))` never exceeds the bond -/
theorem slash_amount_le_bond (tokens abs tm : Nat) : min tokens (max abs tm) ≤ tokens := Nat.min_le_left _ _

-- non-vacuity: N = I = 1 (the smallest accepted parameters), idle for 3 blocks
example : Gen.Arith.nextSlashHeight 1 1 10 7 = 11 := by decide

-- ================================================================ Part 2: the event queue, every reachable state

/-- every queued liveness event belongs to an existing rollapp whose record carries that height -/
theorem event_belongs_to_rollapp (p : Params) (ops : List Op) :
    ∀ e ∈ (run p ops).lev, ∃ r, getRa (run p ops) e.2 = some r ∧ r.evH = e.1 := (run_lev p ops).ev_ra

/-- **at most one liveness event is scheduled per rollapp** — for all parameters and op sequences -/
theorem one_event_per_rollapp (p : Params) (ops : List Op) : ((run p ops).lev.map (·.2)).Nodup :=
  (run_lev p ops).one

/-- the event height recorded in a rollapp is either "none" (0) or exactly its queued event -/
theorem recorded_event_is_queued (p : Params) (ops : List Op) :
    ∀ r ∈ (run p ops).ras, r.evH = 0 ∨ (r.evH, r.id) ∈ (run p ops).lev := (run_lev p ops).ra_ev

/-- one record per rollapp id (so `∀ r ∈ ras` and `getRa` speak about the same records) -/
theorem one_record_per_rollapp (p : Params) (ops : List Op) : ((run p ops).ras.map (·.id)).Nodup :=
  run_ids p ops

theorem record_lookup (p : Params) (ops : List Op) (r : Rollapp) (hr : r ∈ (run p ops).ras) :
    getRa (run p ops) r.id = some r := (run_ids p ops).getRa_of_mem hr

/-- a scheduled event is never earlier than `LivenessSlashBlocks` after the countdown start
    (last accepted update, proposer change or fork), and the hub height is positive -/
theorem event_not_before_window (p : Params) (ops : List Op) :
    1 ≤ (run p ops).h ∧ ∀ r ∈ (run p ops).ras, r.evH = 0 ∨ r.cdStart + p.lsBlocks ≤ r.evH := by
  have := run_grid p ops
  have hp := run_p p ops
  exact ⟨this.hpos, fun r hr => by have := this.ev r hr; rw [hp] at this; exact this⟩

/-- **the scheduled event always lies in the future**: with consecutive blocks, in every reachable
    state no event lies in the past and every countdown start does … -/
theorem event_never_in_past (p : Params) (hI : 1 ≤ p.lsInterval) (ops : List Op) (hb : BlocksOk ops) :
    ∀ r ∈ (run p ops).ras, r.cdStart ≤ (run p ops).h ∧ (r.evH = 0 ∨ (run p ops).h ≤ r.evH) := by
  intro r hr
  have := run_fut p hI ops hb
  exact ⟨this.cd r hr, (this.ev r hr).imp id (fun h => by omega)⟩

/-- … and after every block end every scheduled event lies strictly in the future -/
theorem event_in_future_after_end (p : Params) (hI : 1 ≤ p.lsInterval) (ops : List Op) (hb : BlocksOk ops)
    (f : List (Nat × Nat)) :
    ∀ r ∈ (step (run p ops) (.end_ f)).1.ras, r.evH = 0 ∨ (step (run p ops) (.end_ f)).1.h < r.evH := by
  have h := run_lcf p hI ops
  have hf : Fut 0 (endBlock (run p ops) f) := by
    unfold BlocksOk at hb
    cases hph : ops.foldl phaseStep (some false) with
    | none => rw [hph] at hb; cases hb
    | some b =>
      have hfut := h.fut
      rw [hph] at hfut
      cases b with
      | true => exact endBlock_fut (Nat.le_refl 1) h.lev h.cust hfut
      | false => exact endBlock_fut (Nat.zero_le 1) h.lev h.cust hfut
  intro r hr
  show r.evH = 0 ∨ (endBlock (run p ops) f).h < r.evH
  exact (hf.ev r hr).imp id (fun h => by omega)

/-- between blocks (with consecutive blocks) every scheduled event sits *exactly* at the next slash
    height of its rollapp: the least `cdStart + N + k·I` above the current height -/
theorem event_exactly_at_next_slash_height (p : Params) (hI : 1 ≤ p.lsInterval) (ops : List Op)
    (hph : ops.foldl phaseStep (some false) = some false) :
    ∀ r ∈ (run p ops).ras, r.evH = 0 ∨ r.evH = nextSlashHeight p.lsBlocks p.lsInterval (run p ops).h r.cdStart :=
  run_exact_between p hI ops hph

/-- proposer and successor of every rollapp are sequencers of that very rollapp (and sequencer
    addresses are unique) … -/
theorem proposer_is_own_sequencer (p : Params) (ops : List Op) (id : Nat) (r : Rollapp) (a : Addr)
    (hg : getRa (run p ops) id = some r) (ha : r.proposer = some a ∨ r.successor = some a) :
    ∃ q, getSeq (run p ops) a = some q ∧ q.rollapp = id := (run_own p ops).own id r a hg ha

/-- … hence an address proposes for at most one rollapp -/
theorem proposes_for_one_rollapp (p : Params) (ops : List Op) (id id' : Nat) (r r' : Rollapp) (a : Addr)
    (hg : getRa (run p ops) id = some r) (hp : r.proposer = some a)
    (hg' : getRa (run p ops) id' = some r') (hp' : r'.proposer = some a) : id' = id :=
  run_uniq p ops hg hp id' r' hg' hp'

-- ================================================================ Part 3: the slash

/-- **a rollapp with no proposer is not slashed**: `SlashLiveness` is the identity … -/
theorem no_proposer_no_slash (s : St) (r : Rollapp) (h : r.proposer = none) : slashLiveness s r = .ok s := by
  unfold slashLiveness; rw [h]

/-- … and its liveness event changes no sequencer record and moves no money (it only reschedules) -/
theorem no_proposer_event_moves_nothing (s : St) (ra : Nat) (r : Rollapp) (hg : getRa s ra = some r)
    (h : r.proposer = none) :
    (handleLivenessEvent s ra).seqs = s.seqs ∧ (handleLivenessEvent s ra).modBal = s.modBal ∧
    (handleLivenessEvent s ra).burned = s.burned ∧ (handleLivenessEvent s ra).bal = s.bal := by
  rw [handleLivenessEvent_eq hg (no_proposer_no_slash s r h)]
  exact ⟨rfl, rfl, rfl, rfl⟩

/-- **each time losing min(bond, max(absolute minimum, bond × multiplier)) and gaining dishonor**:
    a liveness event of a rollapp with a real proposer (record `q`), in any state where bonds are
    backed (every reachable state: `C06.custody_inv`), takes exactly that amount from the bond,
    burns it from the module account, and adds `DishonorLiveness` -/
theorem slash_amount_exact (s : St) (ra : Nat) (r : Rollapp) (a : Addr) (q : Seq) (hc : Cust s)
    (hg : getRa s ra = some r) (hp : r.proposer = some a) (hq : getSeq s a = some q) :
    getSeq (handleLivenessEvent s ra) a =
      some { q with tokens := q.tokens - min q.tokens (max s.sqp.lsAbs ((s.sqp.lsMul.mulInt q.tokens).truncateInt).toNat),
                    dishonor := q.dishonor + s.sqp.dishonorL } ∧
    (handleLivenessEvent s ra).modBal + min q.tokens (max s.sqp.lsAbs ((s.sqp.lsMul.mulInt q.tokens).truncateInt).toNat) = s.modBal ∧
    (handleLivenessEvent s ra).burned = s.burned + min q.tokens (max s.sqp.lsAbs ((s.sqp.lsMul.mulInt q.tokens).truncateInt).toNat) := by
  have := handleLivenessEvent_self hc hg hp hq
  exact ⟨this.2.1, this.2.2.1, this.2.2.2⟩

/-- in reachable states the slash never fails (so the event is always consumed and rescheduled) -/
theorem slash_never_fails (p : Params) (ops : List Op) (r : Rollapp) :
    ∃ s1, slashLiveness (run p ops) r = .ok s1 := slashLiveness_ok (run_cust p ops) r

/-- `slashOnce` is that record transformation -/
theorem slashOnce_fields (p : SeqParams) (q : Seq) :
    (slashOnce p q).tokens = q.tokens - min q.tokens (max p.lsAbs ((p.lsMul.mulInt q.tokens).truncateInt).toNat) ∧
    (slashOnce p q).dishonor = q.dishonor + p.dishonorL ∧ (slashOnce p q).addr = q.addr ∧
    (slashOnce p q).rollapp = q.rollapp ∧ (slashOnce p q).bonded = q.bonded ∧ (slashOnce p q).optedIn = q.optedIn ∧
    (slashOnce p q).notice = q.notice := ⟨rfl, rfl, rfl, rfl, rfl, rfl, rfl⟩

-- ================================================================ Part 4: accepted updates

/-- **counted from its last accepted update**: every accepted update (also the proposer's last
    one) sets the countdown start to the current height and schedules the rollapp's event at the
    next slash height from there -/
theorem update_resets_clock (s s' : St) (m : UpdMsg) (h : updateState s m = .ok s') :
    ∃ r', getRa s' m.ra = some r' ∧ r'.cdStart = s.h ∧
      r'.evH = nextSlashHeight s.p.lsBlocks s.p.lsInterval s.h s.h ∧ (r'.evH, m.ra) ∈ s'.lev :=
  updateState_clock h

/-- **each accepted update reduces its dishonor**: an accepted update that is not the proposer's
    last block restarts the clock, keeps the proposer, and lowers the proposer's dishonor by
    `min(DishonorStateUpdate, dishonor)` (nothing else of the sequencer record changes) -/
theorem update_resets_clock_and_honors (s s' : St) (m : UpdMsg) (r : Rollapp) (q : Seq)
    (hr : getRa s m.ra = some r) (hq : getSeq s m.sender = some q) (hl : m.last = false)
    (h : updateState s m = .ok s') :
    (∃ r', getRa s' m.ra = some r' ∧ r'.cdStart = s.h ∧
      r'.evH = nextSlashHeight s.p.lsBlocks s.p.lsInterval s.h s.h ∧ r'.proposer = r.proposer ∧
      (r'.evH, m.ra) ∈ s'.lev) ∧
    getSeq s' m.sender = some { q with dishonor := q.dishonor - min s.sqp.dishonorSU q.dishonor } := by
  have := updateState_nonlast hr hq hl h
  exact ⟨⟨_, this.1, rfl, rfl, rfl, this.2.2⟩, this.2.1⟩

/-- every accepted update in a reachable state — also the proposer's last one, which hands the
    rollapp over or forks it — lowers the sender's dishonor by `min(DishonorStateUpdate, dishonor)` -/
theorem update_honors_proposer (p : Params) (ops : List Op) (m : UpdMsg) (s' : St) (q : Seq)
    (hq : getSeq (run p ops) m.sender = some q) (h : updateState (run p ops) m = .ok s') :
    (getSeq s' m.sender).map (·.dishonor) = some (q.dishonor - min (run p ops).sqp.dishonorSU q.dishonor) :=
  updateState_honors (run_lev p ops) hq h

/-- **… proposer change …**: a rollapp that gets a real proposer (leaving the sentinel state) starts
    a fresh countdown at the current height with its event at the next slash height (the hand-over to
    a successor happens inside an accepted last update and is covered by `update_resets_clock`) -/
theorem proposer_change_resets_clock (s s' : St) (ra : Nat) (h : recoverFromSentinel s ra = .ok s') :
    ∃ r' a, getRa s' ra = some r' ∧ r'.proposer = some a ∧ r'.cdStart = s.h ∧
      r'.evH = nextSlashHeight s.p.lsBlocks s.p.lsInterval s.h s.h ∧ (r'.evH, ra) ∈ s'.lev :=
  recoverFromSentinel_clock h

/-- **… or fork**: a hard fork of a rollapp in a reachable state sets its countdown start to the
    current height and leaves it without any liveness event (the next proposer change schedules one) -/
theorem fork_resets_clock (p : Params) (ops : List Op) (ra lv : Nat) (s' : St) (h : hardFork (run p ops) ra lv = .ok s') :
    (∃ r', getRa s' ra = some r' ∧ r'.evH = 0 ∧ r'.cdStart = (run p ops).h) ∧ ∀ hh, (hh, ra) ∉ s'.lev := by
  have := hardFork_clock (run_lev p ops) h
  exact ⟨this.1, this.2.1⟩

/-- the event scheduled by an update at height `h` is at `h + LivenessSlashBlocks` (N ≥ 1) … -/
theorem first_event_height (N I h : Nat) (hN : 1 ≤ N) : nextSlashHeight N I h h = h + N :=
  nextSlashHeight_fresh N I h hN

/-- … and in the edge case N = 0 (not excluded by the function itself) one interval after it -/
theorem first_event_height_N0 (I h : Nat) (hI : 1 ≤ I) : nextSlashHeight 0 I h h = h + I :=
  nextSlashHeight_fresh_zero I h hI

-- ================================================================ Part 5: the schedule

/-- the liveness event of a rollapp fires at a block end iff the record carries the current height -/
theorem event_fires_iff (p : Params) (ops : List Op) (ra : Nat) (r : Rollapp) (hg : getRa (run p ops) ra = some r) :
    ((run p ops).h, ra) ∈ (run p ops).lev ↔ r.evH = (run p ops).h :=
  due_iff (run_lev p ops) (run_grid p ops).hpos hg

/-- a block end at a height other than the rollapp's event height does not touch its clock, event
    or proposer, and leaves its proposer's record (bond, dishonor, …) exactly as it was -/
theorem end_before_event_height_does_not (p : Params) (ops : List Op) (f : List (Nat × Nat)) (ra : Nat) (r : Rollapp)
    (hg : getRa (run p ops) ra = some r) (hne : r.evH ≠ (run p ops).h) :
    (∃ r', getRa (step (run p ops) (.end_ f)).1 ra = some r' ∧ r'.evH = r.evH ∧ r'.cdStart = r.cdStart ∧
      r'.proposer = r.proposer) ∧
    (∀ a, r.proposer = some a → getSeq (step (run p ops) (.end_ f)).1 a = getSeq (run p ops) a) := by
  have := endBlock_not_due (f := f) (run_lev p ops) hg hne
  exact ⟨this.1, fun a hp => this.2 a (run_uniq p ops hg hp)⟩

/-- the block end at the rollapp's event height reschedules the event to the next slash height
    computed from the current height (whatever else is due in the same block end) … -/
theorem event_rescheduled (p : Params) (ops : List Op) (f : List (Nat × Nat)) (ra : Nat) (r : Rollapp)
    (hg : getRa (run p ops) ra = some r) (hev : r.evH = (run p ops).h) :
    ∃ r', getRa (step (run p ops) (.end_ f)).1 ra = some r' ∧
      r'.evH = nextSlashHeight p.lsBlocks p.lsInterval (run p ops).h r.cdStart ∧ r'.cdStart = r.cdStart ∧
      r'.proposer = r.proposer := by
  have hm := (event_fires_iff p ops ra r hg).2 hev
  have := (endBlock_due (f := f) (run_lev p ops) (run_cust p ops) hg hm).1
  rw [run_p] at this
  exact this

/-- … which for an event on the grid `cdStart + N + j·I` is exactly one interval later -/
theorem event_rescheduled_one_interval_later (p : Params) (hI : 1 ≤ p.lsInterval) (ops : List Op) (f : List (Nat × Nat))
    (ra : Nat) (r : Rollapp) (j : Nat) (hg : getRa (run p ops) ra = some r)
    (hev : r.evH = (run p ops).h) (hgrid : r.evH = r.cdStart + p.lsBlocks + j * p.lsInterval) :
    ∃ r', getRa (step (run p ops) (.end_ f)).1 ra = some r' ∧ r'.evH = r.evH + p.lsInterval := by
  obtain ⟨r', h1, h2, _⟩ := event_rescheduled p ops f ra r hg hev
  refine ⟨r', h1, ?_⟩
  rw [h2, ← hev, hgrid, nextSlashHeight_step _ _ _ _ hI, Nat.add_mul]
  omega

/-- … and slashes the real proposer exactly once: across the whole block end (finalization and all
    liveness events of that height) its record changes by exactly one `slashOnce` -/
theorem end_at_event_height_slashes (p : Params) (ops : List Op) (f : List (Nat × Nat)) (ra : Nat) (r : Rollapp)
    (a : Addr) (q : Seq) (hg : getRa (run p ops) ra = some r) (hev : r.evH = (run p ops).h)
    (hp : r.proposer = some a) (hq : getSeq (run p ops) a = some q) :
    getSeq (step (run p ops) (.end_ f)).1 a = some (slashOnce (run p ops).sqp q) := by
  have hm := (event_fires_iff p ops ra r hg).2 hev
  exact (endBlock_due (f := f) (run_lev p ops) (run_cust p ops) hg hm).2 a q (run_uniq p ops hg hp) hp hq

/-- the proposer's record after an idle block that starts between blocks at height `H`: slashed
    iff `H + 1` is a grid point `c + N + j·I` … -/
theorem idle_block_on_grid (p : Params) (sp : SeqParams) (c H : Nat) (q : Seq) (hI : 1 ≤ p.lsInterval) (hc : c ≤ H)
    (hg : ∃ j, H + 1 = c + p.lsBlocks + j * p.lsInterval) : idleBlock p sp c H q = slashOnce sp q := by
  unfold idleBlock; rw [if_pos ((nextSlashHeight_eq_succ_iff _ _ _ _ hI hc).2 hg)]

/-- … and untouched otherwise -/
theorem idle_block_off_grid (p : Params) (sp : SeqParams) (c H : Nat) (q : Seq) (hI : 1 ≤ p.lsInterval) (hc : c ≤ H)
    (hg : ¬ ∃ j, H + 1 = c + p.lsBlocks + j * p.lsInterval) : idleBlock p sp c H q = q := by
  unfold idleBlock; rw [if_neg (fun h => hg ((nextSlashHeight_eq_succ_iff _ _ _ _ hI hc).1 h))]

theorem idle_seq_zero (p : Params) (sp : SeqParams) (c H : Nat) (q : Seq) : idleSeq p sp c H 0 q = q := rfl
theorem idle_seq_succ (p : Params) (sp : SeqParams) (c H k : Nat) (q : Seq) :
    idleSeq p sp c H (k + 1) q = idleSeq p sp c (H + 1) k (idleBlock p sp c H q) := rfl

/-- **an idle rollapp's proposer is slashed on schedule**: take any reachable state between blocks
    in which rollapp `ra` has a real proposer `a` (record `q`) and an event scheduled; let any number
    of blocks pass (`begin_ dt`, `end_ f` with arbitrary time steps and finalization failures)
    without a message.  Then the hub height advanced by that many blocks, the countdown start and
    the proposer are unchanged, the event is again at the next slash height, and the proposer's
    record is `idleSeq` under the x/sequencer parameters IN FORCE when the idle stretch begins
    (`(run p ops).sqp` — no message, hence no `MsgUpdateParams`, occurs inside it): slashed (bond and
    dishonor, `slashOnce`) at the end of exactly the blocks
    whose height is a grid point `cdStart + N + j·I`, and untouched by every other block
    (`idle_block_on_grid/off_grid`). -/
theorem idle_slashed_on_schedule (p : Params) (hI : 1 ≤ p.lsInterval) (ops : List Op)
    (hph : ops.foldl phaseStep (some false) = some false)
    (ra : Nat) (r : Rollapp) (a : Addr) (q : Seq)
    (hg : getRa (run p ops) ra = some r) (hp : r.proposer = some a) (hq : getSeq (run p ops) a = some q)
    (hev : r.evH ≠ 0) (bs : List (Nat × List (Nat × Nat))) :
    (run p (ops ++ blockOps bs)).h = (run p ops).h + bs.length ∧
    (∃ r', getRa (run p (ops ++ blockOps bs)) ra = some r' ∧ r'.cdStart = r.cdStart ∧ r'.proposer = some a ∧
      r'.evH = nextSlashHeight p.lsBlocks p.lsInterval ((run p ops).h + bs.length) r.cdStart) ∧
    getSeq (run p (ops ++ blockOps bs)) a =
      some (idleSeq p (run p ops).sqp r.cdStart (run p ops).h bs.length q) := by
  obtain ⟨hl, hc, hf⟩ := run_between_blocks p hI ops hph
  have hev' : r.evH = nextSlashHeight p.lsBlocks p.lsInterval (run p ops).h r.cdStart := by
    rcases run_exact_between p hI ops hph r (getRa_mem hg) with h1 | h1
    · exact absurd h1 hev
    · exact h1
  have hinv : IdleInv a ra r.cdStart q (run p ops) := by
    refine ⟨hl, hc, hf, run_uniq p ops hg hp, ?_, hq⟩
    rw [hg, run_p]
    show some (r.evH, r.cdStart, r.proposer) = _
    rw [hev', hp]
  obtain ⟨h1, h2, h3⟩ := blocks_idle bs _ _ hinv
  rw [run_append, runBlocks_eq_steps]
  rw [run_p] at h1
  obtain ⟨r', hr', he', hcd', hp'⟩ := map_liv_some h1.ra
  refine ⟨h2, ⟨r', hr', hcd', hp', ?_⟩, h1.seq⟩
  rw [he']
  show nextSlashHeight (runBlocks (run p ops) bs).p.lsBlocks (runBlocks (run p ops) bs).p.lsInterval
    (runBlocks (run p ops) bs).h r.cdStart = _
  rw [pp_p h3, h2, run_p]

/-- **an active one never**: in every reachable state, a block end inside the window
    `[cdStart, cdStart + LivenessSlashBlocks)` of a rollapp — i.e. whenever an update was accepted
    (or the proposer changed) less than `LivenessSlashBlocks` blocks ago — neither fires its
    liveness event nor touches its proposer's bond or dishonor.  A proposer that posts an update in
    every window therefore never meets a block end that slashes it for liveness. -/
theorem active_never_slashed (p : Params) (ops : List Op) (f : List (Nat × Nat)) (ra : Nat) (r : Rollapp)
    (hg : getRa (run p ops) ra = some r) (hw : (run p ops).h < r.cdStart + p.lsBlocks) :
    ((run p ops).h, ra) ∉ (run p ops).lev ∧
    (∃ r', getRa (step (run p ops) (.end_ f)).1 ra = some r' ∧ r'.evH = r.evH ∧ r'.cdStart = r.cdStart ∧
      r'.proposer = r.proposer) ∧
    (∀ a, r.proposer = some a → getSeq (step (run p ops) (.end_ f)).1 a = getSeq (run p ops) a) := by
  have hne : r.evH ≠ (run p ops).h := (run_grid p ops).not_due hg (by rw [run_p]; exact hw)
  have := end_before_event_height_does_not p ops f ra r hg hne
  exact ⟨fun hm => hne ((event_fires_iff p ops ra r hg).1 hm), this.1, this.2⟩

-- ================================================================ non-vacuity and boundary witnesses

/-- **a zero-bond proposer is never slashed, only dishonored** — the proposer of a rollapp whose bond is
    0 (a standalone `PunishSequencerProposal` leaves the punished proposer in place with bond 0, see
    `C07.punish_keeps_roles`): the liveness slash never fails on it, moves no money at all (balances,
    module account and burn counter unchanged) and only adds the liveness dishonor to its record; every
    other record is unchanged.  So an idle zero-bond proposer collects dishonor on the ordinary
    schedule until it can be kicked. -/
theorem zero_bond_proposer_only_dishonored (s : St) (r : Rollapp) (a : Addr) (q : Seq) (hp : r.proposer = some a)
    (hg : getSeq s a = some q) (hz : q.tokens = 0) :
    ∃ s1, slashLiveness s r = .ok s1 ∧ s1.ras = s.ras ∧ s1.bal = s.bal ∧ s1.modBal = s.modBal ∧
      s1.burned = s.burned ∧
      s1.seqs = s.seqs.map (fun x => if x.addr == a then { q with dishonor := q.dishonor + s.sqp.dishonorL } else x) :=
  slashLiveness_zero_bond s r a q hp hg hz

def exParams : Params where
  dispute := 2
  lsBlocks := 2
  lsInterval := 1
  lsMul := ⟨500000000000000000⟩      -- 0.5
  lsAbs := 3
  dishonorSU := 1
  dishonorL := 2
  kickThr := 100
  noticePeriod := 10

def exBds (start n : Nat) : List BD :=
  (List.range n).map fun i => { height := start + i, hasTs := true, drs := 1, rootOk := true }
def exUpd (start n : Nat) (last : Bool) : Op :=
  .update { ra := 0, sender := 1, start := start, num := n, rev := 0, last := last, bds := exBds start n }

/-- rollapp 0 with proposer 1 (bond 40) posts one update at height 1, the block ends -/
def exPre : List Op := [.createRollapp 0 9 10, .fund 1 100, .createSeq 1 0 40 true, exUpd 1 3 false, .end_ []]

-- the update scheduled the single event at 1 + N = 3; we are between blocks
example : (run exParams exPre).lev = [(3, 0)] ∧ exPre.foldl phaseStep (some false) = some false := by decide

-- idle for four blocks (heights 2..5): slashed at 3, 4, 5 (N = 2, I = 1): 40 → 20 → 10 → 5,
-- dishonor 3·2, everything burned, next event at 6
example : let s := run exParams (exPre ++ blockOps [(5, []), (5, []), (5, []), (5, [])])
    s.h = 5 ∧ s.lev = [(6, 0)] ∧ s.seqs.map (fun q => (q.tokens, q.dishonor)) = [(5, 6)] ∧ s.burned = 35 ∧ s.modBal = 5 := by
  decide

-- the same through the closed form
example : let q : Seq := { addr := 1, rollapp := 0, bonded := true, optedIn := true, tokens := 40, dishonor := 0, notice := none }
    ((idleSeq exParams exParams.seq 1 1 4 q).tokens, (idleSeq exParams exParams.seq 1 1 4 q).dishonor) = (5, 6) := by decide

-- an active proposer: an update in every block, never slashed, dishonor stays 0
example : let s := run exParams (exPre ++ [.begin_ 5, exUpd 4 1 false, .end_ [], .begin_ 5, exUpd 5 1 false, .end_ [],
      .begin_ 5, exUpd 6 1 false, .end_ []])
    s.h = 4 ∧ s.lev = [(6, 0)] ∧ s.seqs.map (fun q => (q.tokens, q.dishonor)) = [(40, 0)] ∧ s.burned = 0 := by decide

/-- the consecutive-blocks hypothesis of `event_in_future_after_end` is needed: the model accepts an
    op list with three `begin_` in a row, after which the event (height 3) lies in the past (height 4)
    even after the block end -/
theorem event_in_future_needs_consecutive_blocks :
    let s := (step (run exParams (exPre ++ [.begin_ 1, .begin_ 1, .begin_ 1])) (.end_ [])).1
    s.h = 4 ∧ s.ras.map (·.evH) = [3] ∧ ¬ BlocksOk (exPre ++ [.begin_ 1, .begin_ 1, .begin_ 1]) := by decide

/-- "every rollapp with an event has a real proposer" is *not* an invariant: the proposer's last
    update (notice period elapsed, no successor) forks the rollapp to the sentinel proposer and then
    `IndicateLiveness` schedules an event all the same; that event later fires without slashing
    (`no_proposer_no_slash`) and is rescheduled -/
theorem event_without_proposer_possible :
    let s := run exParams [.createRollapp 0 9 10, .fund 1 100, .createSeq 1 0 40 true, exUpd 1 3 false, .bridge 0 1,
      .unbond 1, .end_ [], .begin_ 20, exUpd 4 1 true]
    s.ras.map (fun r => (r.evH, r.proposer)) = [(4, none)] ∧ s.lev = [(4, 0)] := by decide

end DymVerif.C08
