/-
  Props/C06LC — C06's light-client clause, over M-LC (Model/LC.lean: x/lightclient layered on M-Core):

    "A sequencer cannot withdraw anything … while a header it signed for the canonical client is still
     unverified."

  1. `optimistic_header_recorded`        an accepted header for a height no state info covers leaves the record
                                         (sequencer, client, height) — on canonical and not-yet-canonical clients
  2. `signer_record_removed_only_by`     a record disappears only through a successful state update of the rollapp
                                         the client is canonical for that reaches its height (validated without
                                         error), or through the rollback of that client by a fork at or below it
  3. `withdraw_refused_while_recorded`   while a record of `a` for the canonical client of its rollapp exists,
                                         `MsgDecreaseBond` / `MsgUnbond` of `a` move no money
     `withdraw_ok_no_record`             conversely
  4. `withdraw_refused_until_verified_or_rolled_back`   the trace corollary
-/
import DymVerif.Lemmas.LCSigners
namespace DymVerif.C06LC
open DymVerif DymVerif.LC
open DymVerif.Core (Addr)

-- ================================================================================================
-- 1. optimistic_header_recorded
-- ================================================================================================

/-- **optimistic_header_recorded** — if `HandleMsgUpdateClient` lets a header through, the proposer it names is a
    sequencer `q`, and no state info of `q`'s rollapp covers the header's height (the header is optimistic),
    then the record (q, client, height) is in the signer set afterwards — whether or not the client is
    canonical (there is no hypothesis on the designation maps). -/
theorem optimistic_header_recorded {s s1 : St} {c : Nat} {hd : Hdr} {q : Core.Seq} {r : Core.Rollapp}
    (h : handleUpdate s c hd = (s1, none)) (hq : Core.getSeq s.core hd.propData = some q)
    (hr : Core.getRa s.core q.rollapp = some r) (hf : Core.findByHeight r hd.h = none) :
    (q.addr, c, hd.h) ∈ s1.signerSet := by
  unfold handleUpdate at h
  simp only [hq, hr, hf] at h
  split at h
  · simp at h
  · split at h
    · simp at h
    · split at h
      · simp at h
      · split at h
        · simp at h
        · split at h
          · simp at h
          · split at h
            · simp at h
            · simp only [Prod.mk.injEq, and_true] at h
              subst h
              exact mem_saveSigner s c hd.h q.addr

/-- … and the record survives the rest of the transaction: the ante handler's writes are kept whether the
    IBC message then succeeds (`.ok`) or fails (`.msg`). -/
theorem optimistic_header_recorded_tx {s : St} {c : Nat} {hd : Hdr} {ibc : Bool} {q : Core.Seq} {r : Core.Rollapp}
    (hacc : ∀ e, (updateClient s c .top hd ibc).2 ≠ .ante e) (hq : Core.getSeq s.core hd.propData = some q)
    (hr : Core.getRa s.core q.rollapp = some r) (hf : Core.findByHeight r hd.h = none) :
    (q.addr, c, hd.h) ∈ (updateClient s c .top hd ibc).1.signerSet := by
  cases hh : handleUpdate s c hd with
  | mk s1 oe =>
    cases oe with
    | some e =>
      exfalso
      apply hacc e
      simp [updateClient, hh]
    | none =>
      have hm := optimistic_header_recorded hh hq hr hf
      unfold updateClient
      simp only [hh]
      cases getClient s c with
      | none => exact hm
      | some cl =>
        simp only
        split
        · exact hm
        · exact hm

-- ================================================================================================
-- 2. signer_record_removed_only_by
-- ================================================================================================

/-- the ops that can release a record of client `c` at height `h`, executed from `s`:
    a Core op that succeeded, hooks included, and
    (i)  is a state update of the rollapp `c` is canonical for, whose stored state info (the rollapp's latest
         after the op) ends at or above `h`, and which the `AfterUpdateState` hook validated against the
         client's consensus states without error (`validateStateInfo`, in the hook's state `s3`); or
    (ii) forked a rollapp `c` is canonical for with `lastValid - 1 < h` (`RollbackCanonicalClient` deletes the
         consensus states above `lastValid` and prunes the signer records above `lastValid - 1`, as the Go code
         does: a record *at* `lastValid` is released although its consensus state stays). -/
def Releases (s : St) (op : Op) (c h : Nat) : Prop :=
  ∃ o ds, op = .core o ds ∧ (step s op).2 = .ok ∧
    ((∃ m r st, o = .update m ∧ lookup s.r2c m.ra = some c ∧ Core.getRa (step s op).1.core m.ra = some r ∧
        r.states.getLast? = some st ∧ h ≤ st.last ∧
        ∃ s3 cl, s3.core = (step s op).1.core ∧ getClient s3 c = some cl ∧ (validateStateInfo s3 cl m.ra st).2 = none) ∨
     (∃ ra lv, (ra, lv) ∈ newForks s.core (step s op).1.core ∧ lookup s.r2c ra = some c ∧ lv - 1 < h))

/-- **signer_record_removed_only_by** — for every state and op: a record that is there before the op and gone after
    it was released by an op of kind (i) or (ii). -/
theorem signer_record_removed_only_by (s : St) (op : Op) (a : Addr) (c h : Nat)
    (hin : (a, c, h) ∈ s.signerSet) (hout : (a, c, h) ∉ (step s op).1.signerSet) : Releases s op c h := by
  cases op with
  | core o ds =>
    obtain ⟨hok, hk⟩ := coreOp_removed (o := o) (ds := ds) hin hout
    exact ⟨o, ds, rfl, hok, hk⟩
  | createClient chain p ht cs => exact absurd hin hout
  | setCanonical c' =>
    exfalso; apply hout
    simp only [step]
    split
    · rename_i s1 hs
      have := setCanonical_signerSet s c'
      rw [hs] at this
      rw [this]; exact hin
    · exact hin
  | updateClient c' w hd ibc => exact absurd (updateClient_sub s c' w hd ibc _ hin) hout
  | misbehaviour c' k ibc => exfalso; apply hout; simp only [step]; rw [misbehaviour_signerSet]; exact hin
  | chanInit c' => exfalso; apply hout; simp only [step]; rw [chanInit_signerSet]; exact hin
  | chanAck ch w ibc => exfalso; apply hout; simp only [step]; rw [chanAck_signerSet]; exact hin

-- ================================================================================================
-- 3. withdraw_refused_while_recorded
-- ================================================================================================

/-- the light-client blocker fires for a non-proposer with a record on its rollapp's canonical client -/
theorem blocked_of_record {s : St} {a : Addr} {c h : Nat} {q : Core.Seq} (hin : (a, c, h) ∈ s.signerSet)
    (hq : Core.getSeq s.core a = some q) (hc : lookup s.r2c q.rollapp = some c) (hp : Core.isProposer s.core q = false) :
    unbondBlocked s a = true := by
  unfold unbondBlocked
  simp only [hq, hp, hc]
  exact List.any_eq_true.2 ⟨(a, c, h), hin, by simp⟩

/-- **withdraw_refused_while_recorded** — let `a` be a sequencer whose rollapp's canonical client is `c`, with a record
    (a, c, h) in the signer set.  Then
    * `MsgDecreaseBond` of `a` is refused, whatever the amount, and nothing changes (x/sequencer refuses the proposer,
      the light-client blocker everybody else);
    * `MsgUnbond` of `a` is refused and nothing changes — unless `a` is the proposer, whose `MsgUnbond` never
      reaches `TryUnbond`: if accepted it only starts the notice period, the bond and all balances stay. -/
theorem withdraw_refused_while_recorded {s : St} {a : Addr} {c h : Nat} {q : Core.Seq} (hin : (a, c, h) ∈ s.signerSet)
    (hq : Core.getSeq s.core a = some q) (hc : lookup s.r2c q.rollapp = some c) (ds : List (Nat × Option Nat)) :
    (∀ amt, (coreOp s (.bondDec a amt) ds).2 ≠ .ok ∧ (coreOp s (.bondDec a amt) ds).1 = s) ∧
    (((coreOp s (.unbond a) ds).2 ≠ .ok ∧ (coreOp s (.unbond a) ds).1 = s) ∨
     (Core.isProposer s.core q = true ∧
      (coreOp s (.unbond a) ds).1.core.bal = s.core.bal ∧ (coreOp s (.unbond a) ds).1.core.modBal = s.core.modBal ∧
      (coreOp s (.unbond a) ds).1.core.burned = s.core.burned ∧
      ∃ q', Core.getSeq (coreOp s (.unbond a) ds).1.core a = some q' ∧ q'.tokens = q.tokens)) := by
  constructor
  · intro amt
    rcases coreOp_cases s (.bondDec a amt) ds with ⟨e, hne⟩ | ⟨core1, _, _, hstep, hb, _⟩
    · exact ⟨hne, e⟩
    · exfalso
      -- the Core step succeeded, so `a` is not the proposer; then the blocker fires
      have hap : Core.decreaseBond s.core a amt = .ok core1 := by
        unfold Core.step at hstep
        cases h1 : Core.apply s.core (.bondDec a amt) with
        | ok x => rw [h1] at hstep; simp only [Prod.mk.injEq, and_true] at hstep; subst hstep; exact h1
        | error x => rw [h1] at hstep; simp at hstep
      have hp := decreaseBond_not_proposer hap hq
      have := blocked_of_record hin hq hc hp
      simp only [coreBlocked] at hb
      rw [this] at hb; cases hb
  · by_cases hp : Core.isProposer s.core q = true
    · rcases coreOp_cases s (.unbond a) ds with ⟨e, hne⟩ | ⟨core1, _, _, hstep, _, _⟩
      · exact Or.inl ⟨hne, e⟩
      · right
        have hap : Core.unbond s.core a = .ok core1 := by
          unfold Core.step at hstep
          cases h1 : Core.apply s.core (.unbond a) with
          | ok x => rw [h1] at hstep; simp only [Prod.mk.injEq, and_true] at hstep; subst hstep; exact h1
          | error x => rw [h1] at hstep; simp at hstep
        obtain ⟨e1, e2, e3, q', hq', ht, _⟩ := unbond_proposer hap hq hp
        refine ⟨hp, ?_⟩
        rcases coreOp_core s (.unbond a) ds with e | e
        · rw [e]; exact ⟨rfl, rfl, rfl, q, hq, rfl⟩
        · rw [e, hstep]; exact ⟨e1, e2, e3, q', hq', ht⟩
    · left
      have hp' : Core.isProposer s.core q = false := by simpa using hp
      rcases coreOp_cases s (.unbond a) ds with ⟨e, hne⟩ | ⟨_, _, _, _, hb, _⟩
      · exact ⟨hne, e⟩
      · exfalso
        have := blocked_of_record hin hq hc hp'
        simp only [coreBlocked] at hb
        rw [this] at hb; cases hb

/-- for a sequencer that is not the proposer both messages are plainly refused -/
theorem withdraw_refused_while_recorded_nonproposer {s : St} {a : Addr} {c h : Nat} {q : Core.Seq}
    (hin : (a, c, h) ∈ s.signerSet) (hq : Core.getSeq s.core a = some q) (hc : lookup s.r2c q.rollapp = some c)
    (hp : Core.isProposer s.core q = false) (ds : List (Nat × Option Nat)) :
    (coreOp s (.unbond a) ds).2 ≠ .ok ∧ (coreOp s (.unbond a) ds).1 = s ∧
    ∀ amt, (coreOp s (.bondDec a amt) ds).2 ≠ .ok ∧ (coreOp s (.bondDec a amt) ds).1 = s := by
  obtain ⟨h1, h2⟩ := withdraw_refused_while_recorded hin hq hc ds
  rcases h2 with h2 | ⟨hp', _⟩
  · exact ⟨h2.1, h2.2, h1⟩
  · rw [hp] at hp'; cases hp'

/-- **withdraw_ok_no_record** — conversely: if `MsgDecreaseBond` of `a` is accepted, or `MsgUnbond` of a non-proposer
    `a` is accepted, then the canonical client of `a`'s rollapp holds no record of `a` at any height. -/
theorem withdraw_ok_no_record {s : St} {a : Addr} {c : Nat} {q : Core.Seq} (hq : Core.getSeq s.core a = some q)
    (hc : lookup s.r2c q.rollapp = some c) (ds : List (Nat × Option Nat))
    (hok : (∃ amt, (coreOp s (.bondDec a amt) ds).2 = .ok) ∨
           ((coreOp s (.unbond a) ds).2 = .ok ∧ Core.isProposer s.core q = false)) :
    ∀ h, (a, c, h) ∉ s.signerSet := by
  intro h hin
  obtain ⟨h1, h2⟩ := withdraw_refused_while_recorded hin hq hc ds
  rcases hok with ⟨amt, hok⟩ | ⟨hok, hp⟩
  · exact (h1 amt).1 hok
  · rcases h2 with h2 | ⟨hp', _⟩
    · exact h2.1 hok
    · rw [hp] at hp'; cases hp'

-- ================================================================================================
-- 4. the trace corollary
-- ================================================================================================

/-- no op of the run `ops`, executed in sequence from `s`, releases (c, h) -/
def Quiet : St → List Op → Nat → Nat → Prop
  | _, [], _, _ => True
  | s, op :: ops, c, h => ¬ Releases s op c h ∧ Quiet (step s op).1 ops c h

theorem run_r2c_stable : ∀ (ops : List Op) (s : St) (r c : Nat), lookup s.r2c r = some c → lookup (run s ops).r2c r = some c
  | [], _, _, _, h => h
  | op :: ops, s, r, c, h => by
    simp only [run, List.foldl_cons]
    exact run_r2c_stable ops (step s op).1 r c (step_r2c_stable s op r c h)

/-- the record stays as long as nothing releases it -/
theorem record_kept_while_quiet : ∀ (ops : List Op) (s : St) (a : Addr) (c h : Nat),
    (a, c, h) ∈ s.signerSet → Quiet s ops c h → (a, c, h) ∈ (run s ops).signerSet
  | [], _, _, _, _, hin, _ => hin
  | op :: ops, s, a, c, h, hin, hq => by
    simp only [run, List.foldl_cons]
    apply record_kept_while_quiet ops (step s op).1 a c h ?_ hq.2
    apply Classical.byContradiction
    intro hout
    exact hq.1 (signer_record_removed_only_by s op a c h hin hout)

/-- **withdraw_refused_until_verified_or_rolled_back** — for every state `s` and op list `ops`: if `a` has a record
    for client `c` at height `h` and no op of the run verifies the height by a validated state update of the
    rollapp `c` is canonical for, or rolls the client back at or below it (`Quiet`), then after the run the record
    is still there; and if then `c` is the canonical client of the rollapp `ra` of the sequencer `a` (a designation
    made at any point of the run, or before it, is still there: `run_r2c_stable`; sequencer records never change
    their rollapp: Lemmas/CoreLevOwn `RolMono`, for reachable states), a withdrawal of `a` is refused:
    `MsgDecreaseBond` always, `MsgUnbond` unless `a` is the proposer (whose `MsgUnbond` moves no money). -/
theorem withdraw_refused_until_verified_or_rolled_back (s : St) (ops : List Op) (a : Addr) (c h : Nat) (q' : Core.Seq)
    (hin : (a, c, h) ∈ s.signerSet) (hquiet : Quiet s ops c h)
    (hq' : Core.getSeq (run s ops).core a = some q') (hc : lookup (run s ops).r2c q'.rollapp = some c)
    (ds : List (Nat × Option Nat)) :
    (a, c, h) ∈ (run s ops).signerSet ∧
    (∀ amt, (coreOp (run s ops) (.bondDec a amt) ds).2 ≠ .ok ∧ (coreOp (run s ops) (.bondDec a amt) ds).1 = run s ops) ∧
    (Core.isProposer (run s ops).core q' = false →
      (coreOp (run s ops) (.unbond a) ds).2 ≠ .ok ∧ (coreOp (run s ops) (.unbond a) ds).1 = run s ops) := by
  have hkept := record_kept_while_quiet ops s a c h hin hquiet
  refine ⟨hkept, (withdraw_refused_while_recorded hkept hq' hc ds).1, ?_⟩
  intro hp
  have := withdraw_refused_while_recorded_nonproposer hkept hq' hc hp ds
  exact ⟨this.1, this.2.1⟩

/-- the same with the designation made before the run -/
theorem withdraw_refused_until_verified_or_rolled_back_designated (s : St) (ops : List Op) (a : Addr) (c h ra : Nat) (q' : Core.Seq)
    (hin : (a, c, h) ∈ s.signerSet) (hc : lookup s.r2c ra = some c) (hquiet : Quiet s ops c h)
    (hq' : Core.getSeq (run s ops).core a = some q') (hra : q'.rollapp = ra) (ds : List (Nat × Option Nat)) :
    (∀ amt, (coreOp (run s ops) (.bondDec a amt) ds).2 ≠ .ok) ∧
    (Core.isProposer (run s ops).core q' = false → (coreOp (run s ops) (.unbond a) ds).2 ≠ .ok) := by
  have hc' : lookup (run s ops).r2c q'.rollapp = some c := by rw [hra]; exact run_r2c_stable ops s ra c hc
  obtain ⟨_, h1, h2⟩ := withdraw_refused_until_verified_or_rolled_back s ops a c h q' hin hquiet hq' hc' ds
  exact ⟨fun amt => (h1 amt).1, fun hp => (h2 hp).1⟩

-- ================================================================================================
-- non-vacuity: a concrete M-LC history
-- ================================================================================================

def P0 : Core.Params where
  dispute := 6
  lsBlocks := 1000000
  lsInterval := 1000000
  lsMul := ⟨10000000000000000⟩
  lsAbs := 1
  dishonorSU := 1
  dishonorL := 1
  kickThr := 1000000
  noticePeriod := 2000000000

def bds (start n : Nat) : List Core.BD := (List.range n).map fun i => { height := start + i, hasTs := true, drs := 1, rootOk := true }
/-- an honest update of rollapp `ra` by `a`: root of height h is h+1, timestamp 10·h -/
def upd (ra a start n : Nat) : Op :=
  .core (.update { ra := ra, sender := a, start := start, num := n, rev := 0, last := false, bds := bds start n })
    ((List.range n).map fun i => (start + i + 1, some (10 * (start + i))))

/-- the optimistic header: height 5 (heights 1..3 are posted), naming the bonded non-proposer a1 as proposer,
    validator set {a0, a1} (not a1 alone: only a not-yet-canonical client takes it) -/
def hdr5 : Hdr := { h := 5, cons := ⟨6, 50, 1⟩, propSig := 1, propData := 1, rev := 0, sole := false }

/-- rollapp 0 with the bonded sequencers a0 (proposer) and a1; heights 1..3 posted; a client of rollapp 0 is
    created and takes `hdr5` BEFORE it is designated canonical -/
def before : List Op := [.core (.createRollapp 0 99999 1) [], .core (.fund 0 100000) [], .core (.createSeq 0 0 3000 true) [],
  .core (.fund 1 100000) [], .core (.createSeq 1 0 2000 true) [], upd 0 0 1 3,
  .createClient 0 expParams 2 ⟨3, 20, 1⟩, .updateClient 0 .top hdr5 true]
def sBefore : St := run (init P0) before
def sCanon : St := run sBefore [.setCanonical 0]

/-- the header was accepted on the not-yet-canonical client and left the record (a1, c0, 5) -/
example : lookup sBefore.r2c 0 = none ∧ sBefore.signerSet = [(1, 0, 5)] := by decide
/-- while the client is not canonical the record blocks nothing … -/
example : (step sBefore (.core (.unbond 1) [])).2 = .ok := by decide
/-- … after the designation a1 can neither unbond nor decrease its bond -/
example : lookup sCanon.r2c 0 = some 0 ∧ (step sCanon (.core (.unbond 1) [])) = (sCanon, .msg .unbondBlocked) := by
  refine ⟨by decide, Prod.ext rfl (by decide)⟩
example : (step sCanon (.core (.bondDec 1 100) [])).2 = .msg .unbondBlocked := by decide
/-- the designation releases nothing: the trace theorem applies to the run `[setCanonical]` from `sBefore` -/
example : (1, 0, 5) ∈ sBefore.signerSet ∧ Quiet sBefore [.setCanonical 0] 0 5 :=
  ⟨by decide, ⟨(by rintro ⟨o, ds, h, _⟩; cases h), trivial⟩⟩
/-- a later (c, h)-quiet run keeps it that way: the proposer posts height 4 only -/
example : (step (run sCanon [upd 0 0 4 1, .core (.begin_ 1) [], .core (.end_ []) []]) (.core (.unbond 1) [])).2 = .msg .unbondBlocked := by decide
/-- the state update that reaches height 5 verifies the header, the record goes (kind (i)) and a1 may leave -/
example : (run sCanon [upd 0 0 4 1, upd 0 0 5 2]).signerSet = [] ∧
    (step (run sCanon [upd 0 0 4 1, upd 0 0 5 2]) (.core (.unbond 1) [])).2 = .ok := by decide
/-- the hypotheses of `optimistic_header_recorded` hold for `hdr5` on the state before it -/
example : ∃ q r, Core.getSeq (run (init P0) (before.take 7)).core hdr5.propData = some q ∧
    Core.getRa (run (init P0) (before.take 7)).core q.rollapp = some r ∧ Core.findByHeight r hdr5.h = none ∧
    (handleUpdate (run (init P0) (before.take 7)) 0 hdr5).2 = none :=
  ⟨_, _, rfl, rfl, by decide, by decide⟩

end DymVerif.C06LC
