/-
  Props/C05Clauses — further clauses of C05 over M-Packets:
  * `fulfil_marks_on_demand`, `fulfil_marks_authorized`: every fulfilment path marks the order (so
    `fulfil_at_most_once` refuses every later attempt, on every path);
  * `finalize_pays_fulfiller_recv`: the positive clause for a received packet — the address the packet
    names (after a fulfilment: the fulfiller / LP) is credited the whole amount and charged the bridging fee.
-/
import DymVerif.Props.C05
namespace DymVerif.C05
open DymVerif DymVerif.Keys DymVerif.Packets

/-- a successful on-demand fulfilment marks the order with the LP that paid -/
theorem fulfil_marks_on_demand {s s' : St} {id : Bytes} {perm : List Nat} (h : msgOnDemand s id perm = .ok s') :
    ∃ o l, getOrder s .pending id = some o ∧ l ∈ compatibleLPs s o ∧
      getOrder s' .pending id = some { o with fulfiller := some l.addr } := by
  obtain ⟨o, ho, l0, hl0, s1, s2, hd, hc, rfl⟩ := msgOnDemand_ok h
  obtain ⟨h1, _, _⟩ := getOutstanding_ok ho
  obtain ⟨hs, hi⟩ := (getOrder_some h1).2
  obtain ⟨_, _, _, _, _, _, _, _, ho', _⟩ := fulfillCore_ok hc
  refine ⟨o, l0, h1, hl0, ?_⟩
  rw [← hi, ← hs]
  exact ho'

/-- a successful authorised fulfilment marks the order (the recorded fulfiller is the operator's fee
    address, the packet is redirected to the LP: `fulfil_authorized_redirects_packet`) -/
theorem fulfil_marks_authorized {s s' : St} {g : Addr} {m : AuthMsg} (h : msgFulfillAuthorized s g m = .ok s') :
    ∃ o, getOrder s .pending m.orderId = some o ∧ getOrder s' .pending m.orderId = some { o with fulfiller := some m.opAddr } := by
  obtain ⟨sg, e1, e2, e3, _, hc⟩ := authorized_core h
  obtain ⟨o, ho, _, s1, s2, hs1, hs2, hf⟩ := fulfillAuthorizedCore_ok hc
  rw [getOutstanding_congr e1 e2 e3] at ho
  obtain ⟨h1, _, _⟩ := getOutstanding_ok ho
  obtain ⟨hs, hi⟩ := (getOrder_some h1).2
  obtain ⟨_, _, _, _, ho', _⟩ := setOrderFulfilled_ok hf
  refine ⟨o, h1, ?_⟩
  rw [← hi, ← hs]
  exact ho'

/-- hence no path fulfils the same order a second time -/
theorem fulfil_twice_impossible_on_demand {s s' : St} {id : Bytes} {perm : List Nat} (h : msgOnDemand s id perm = .ok s') :
    (∀ a' fee' s'', msgFulfill s' a' id fee' ≠ .ok s'') ∧ (∀ perm' s'', msgOnDemand s' id perm' ≠ .ok s'') := by
  obtain ⟨o, l, _, _, ho'⟩ := fulfil_marks_on_demand h
  have := fulfil_at_most_once ho' rfl
  exact ⟨this.1, this.2.1⟩

theorem fulfil_twice_impossible_authorized {s s' : St} {g : Addr} {m : AuthMsg} (h : msgFulfillAuthorized s g m = .ok s') :
    (∀ a' fee' s'', msgFulfill s' a' m.orderId fee' ≠ .ok s'') ∧ (∀ perm' s'', msgOnDemand s' m.orderId perm' ≠ .ok s'') := by
  obtain ⟨o, _, ho'⟩ := fulfil_marks_authorized h
  have := fulfil_at_most_once ho' rfl
  exact ⟨this.1, this.2.1⟩

-- ------------------------------------------------------------------ the positive clause for received packets

theorem icsCredit_target {s s' : St} {p : Packet} (h : icsCredit s p = some s') (ht : p.target ≠ escrowAcct p.chan) :
    getBal s'.bal p.target p.denom = getBal s.bal p.target p.denom + p.amount ∧ s'.bridgingFee = s.bridgingFee := by
  unfold icsCredit at h
  split at h
  · refine ⟨by rw [(sendCoins_spec h).2 p.target p.denom]; simp [ht], ?_⟩
    unfold sendCoins at h
    split at h
    · cases h; rfl
    · split at h
      · cases h
      · cases h; rfl
  · cases h; exact ⟨by rw [getBal_credit]; simp, rfl⟩

/-- **finalize_pays_fulfiller (received packet)** — when the ICS-20 receive succeeds at finalization the
    address the packet names holds exactly `amount − bridgingFee(amount)` more than before (the fee is
    `⌊bridgingFee · amount⌋`; it is charged whenever it is positive and covered, which it is for a
    non-negative balance and a fee parameter in [0, 1]) -/
theorem finalize_pays_fulfiller_recv (s : St) (p : Packet) (s1 : St) (h : icsRecv s p true = some s1)
    (ht : p.target ≠ escrowAcct p.chan) (hb : 0 ≤ getBal s.bal p.target p.denom)
    (hfee : bridgingFeeOf s p.amount ≤ p.amount) :
    getBal s1.bal p.target p.denom = getBal s.bal p.target p.denom + p.amount - max 0 (bridgingFeeOf s p.amount) := by
  unfold icsRecv at h
  split at h
  · cases h
  · split at h
    · cases h
    · rename_i s2 hc
      cases h
      obtain ⟨e1, e2⟩ := icsCredit_target hc ht
      have ef : bridgingFeeOf s2 p.amount = bridgingFeeOf s p.amount := by unfold bridgingFeeOf; rw [e2]
      simp only [if_true]
      unfold chargeBridgingFee
      rw [ef]
      split
      · rename_i hle
        rw [e1, Int.max_eq_left hle]; omega
      · rename_i hpos
        have hpos' : 0 < bridgingFeeOf s p.amount := Int.not_le.mp hpos
        split
        · rename_i hlt
          rw [e1] at hlt; omega
        · rw [getBal_debit]
          simp only [and_self, if_true]
          rw [e1, Int.max_eq_right (Int.le_of_lt hpos')]

end DymVerif.C05
