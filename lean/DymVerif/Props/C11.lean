/-
  Props/C11 — block processing never fails, whatever users have put on chain.

  Full statement (given): for every state reachable through user and governance messages, the hub's
  begin-block and end-block processing completes without returning an error and without panicking,
  so no single rollapp, sequencer, gauge, stream, lock, name or account can stop the chain from
  producing blocks; a failure while processing one item (finalizing one state, slashing one
  sequencer, paying one recipient, unlocking one lock) is confined to that item.

  What is proved here, per blocker (all for EVERY history of the respective model, no bounds):
    x/sequencer BeginBlock .......... `begin_block_never_fails`   (error channel: Model/CoreBlocks)
    x/rollapp EndBlock .............. `block_never_fails` (any per-item failure oracle),
                                      `finalization_failure_confined`, `finalization_of_others_completes`,
                                      `liveness_slash_never_fails`, `liveness_failure_confined`
    x/lockup EndBlock ............... `lockup_end_block_never_fails`
    x/streamer + x/incentives ....... Props/C11Incent (epoch-end distribution, per-gauge isolation)
  Blockers / epoch hooks whose logic is not modelled as a block-level theorem (dymns, sponsorship and
  delayedack epoch hooks run inside the epochs module's panic/error-isolating wrapper) are covered by
  the correspondence side only: every package harness reports any error or panic of
  `BeginBlocker` / `EndBlocker` / an epoch hook as a `C11/…` violation (see harness/c11_test.go).
-/
import DymVerif.Lemmas.CoreBlocks
import DymVerif.Props.C02
import DymVerif.Props.C08
import DymVerif.Props.C14
import DymVerif.Lemmas.CoreOwners
namespace DymVerif.C11
open DymVerif DymVerif.Core DymVerif.Core.Roles

/-- **x/sequencer BeginBlock never returns an error**: in every reachable state of M-Core (any
    parameters with a positive notice period — `Params.ValidateBasic` — any operation sequence: user
    messages, governance fraud proposals, blocks) and for every block time step. The only error path
    of the Go code ("sequencer in notice queue but missing sequencer object") is excluded by the
    roles invariant: every queue entry is written together with its sequencer's notice time, and
    sequencer records are never deleted. -/
theorem begin_block_never_fails (p : Params) (hp : 0 < p.noticePeriod) (ops : List Op) (dt : Nat) :
    beginBlockE (run p ops) dt = .ok (beginBlock (run p ops) dt) := by
  apply beginBlockE_ok
  intro t a h
  obtain ⟨q, _, hq, _⟩ := (run_roles p hp ops).core.nq t a h
  exact ⟨q, hq⟩

/-- the hypothesis is needed: a queue entry without a record makes the real BeginBlock fail -/
theorem begin_block_fails_on_dangling_entry : ∃ s : St, ∃ dt, beginBlockE s dt = .error .internal :=
  beginBlockE_fails_without_record

/-- **a whole block never fails**, whichever items fail inside it: for every reachable state, every
    time step and EVERY failure oracle of the finalization loop (any set of (rollapp, index) pairs
    whose `finalizePendingState` errors or panics), begin + end complete. -/
theorem block_never_fails (p : Params) (hp : 0 < p.noticePeriod) (ops : List Op) (dt : Nat) (fails : List (Nat × Nat)) :
    blockE (run p ops) dt fails = .ok (endBlock (beginBlock (run p ops) dt) fails) := by
  apply blockE_ok
  intro t a h
  obtain ⟨q, _, hq, _⟩ := (run_roles p hp ops).core.nq t a h
  exact ⟨q, hq⟩

/-- **a finalization failure is confined to its rollapp** (C02 `failure_isolated`): a rollapp none of
    whose due indices fails ends the block with exactly the record it has when nothing fails -/
theorem finalization_failure_confined (p : Params) (ops : List Op) (fails : List (Nat × Nat)) (id : Nat)
    (hno : ∀ e ∈ (run p ops).queue, e.ra = id → e.ch + p.dispute ≤ (run p ops).h → ∀ j ∈ e.idx, (id, j) ∉ fails) :
    getRa (run p (ops ++ [.end_ fails])) id = getRa (run p (ops ++ [.end_ []])) id :=
  C02.failure_isolated p ops fails id hno

/-- … and the others are really processed (C02 `finalize_complete`): every due pending state of a
    rollapp whose own earlier indices do not fail is finalized in this block -/
theorem finalization_of_others_completes (p : Params) (ops : List Op) (fails : List (Nat × Nat))
    (r : Rollapp) (hr : r ∈ (run p ops).ras) (i : Nat) (st : SInfo) (hst : r.states[i]? = some st)
    (hnf : st.finalized = false) (hdue : st.creationHeight + p.dispute ≤ (run p ops).h)
    (hok : ∀ j, r.lastFin < j → j ≤ i + 1 → (r.id, j) ∉ fails) :
    ∃ r', getRa (run p (ops ++ [.end_ fails])) r.id = some r' ∧
      r'.states[i]? = some { st with finalized := true, finalizedAt := (run p ops).h } :=
  C02.finalize_complete p ops fails r hr i st hst hnf hdue hok

/-- the liveness slash of a due event never fails in a reachable state (C08) -/
theorem liveness_slash_never_fails (p : Params) (ops : List Op) (r : Rollapp) :
    ∃ s1, slashLiveness (run p ops) r = .ok s1 := C08.slash_never_fails p ops r

/-- … and if it did, the failure would be confined to that event: the state is left exactly as it
    was (the event stays queued), and `checkLiveness` goes on with the next event -/
theorem liveness_failure_confined (s : St) (ra : Nat) (r : Rollapp) (e : Err)
    (hg : getRa s ra = some r) (hf : slashLiveness s r = .error e) : handleLivenessEvent s ra = s := by
  unfold handleLivenessEvent; rw [hg]; dsimp only; rw [hf]

/-- **x/lockup EndBlock never fails** (C14): every matured lock can be paid out of the module account
    in every state satisfying the lockup invariant, which every reachable state does -/
theorem lockup_end_block_never_fails (p : Lockup.Params) (bal : Lockup.Actor → Lockup.Denom → Nat) (now height : Nat)
    (ops : List Lockup.Op) :
    (Lockup.step p (Lockup.run p (Lockup.init bal now height) ops) .endBlock).2 = .ok 0 :=
  C14.endBlock_never_panics p (C14.reachable_inv p bal now height ops)

-- ---------------------------------------------------------------- rollapp owners (payout recipients)

/-- **transfer_only_by_owner** (C20-style): an accepted `MsgTransferOwnership` was signed by the rollapp's
    current owner, names a different and non-blocked new owner, and changes nothing but the `owner` field
    of that one rollapp record; any other signer is refused with `unauthorized` and nothing changes. -/
theorem transfer_only_by_owner (s s' : St) (sg : Addr) (ra : Nat) (no : Addr)
    (h : apply s (.transferOwner sg ra no) = .ok s') :
    ∃ r, getRa s ra = some r ∧ r.owner = sg ∧ r.owner ≠ no ∧ blockedAddr no = false ∧
      s' = setRa s { r with owner := no } :=
  transferOwner_ok (show transferOwner s sg ra no = .ok s' from h)

theorem transfer_by_non_owner_refused (s : St) (sg : Addr) (ra : Nat) (no : Addr) (r : Rollapp)
    (hg : getRa s ra = some r) (hne : r.owner ≠ sg) :
    (step s (.transferOwner sg ra no)).2 = some .unauthorized ∧ (step s (.transferOwner sg ra no)).1 = s := by
  have : apply s (.transferOwner sg ra no) = .error .unauthorized := by
    show transferOwner s sg ra no = _
    unfold transferOwner
    rw [hg]
    simp [hne]
  unfold step; rw [this]; exact ⟨rfl, rfl⟩

/-- a transfer to an address the bank refuses as a recipient is refused, whoever signs (fix 64b101c36) -/
theorem transfer_to_blocked_refused (s : St) (sg : Addr) (ra : Nat) (no : Addr) (hb : blockedAddr no = true) :
    ∃ e, (step s (.transferOwner sg ra no)).2 = some e ∧ (step s (.transferOwner sg ra no)).1 = s := by
  have : ∃ e, apply s (.transferOwner sg ra no) = .error e := by
    show ∃ e, transferOwner s sg ra no = .error e
    unfold transferOwner
    cases getRa s ra with
    | none => exact ⟨_, rfl⟩
    | some r =>
      dsimp only
      by_cases h1 : (r.owner != sg) = true
      · exact ⟨_, by rw [if_pos h1]⟩
      · by_cases h2 : (r.owner == no) = true
        · exact ⟨_, by rw [if_neg h1, if_pos h2]⟩
        · exact ⟨_, by rw [if_neg h1, if_neg h2, if_pos hb]⟩
  obtain ⟨e, he⟩ := this
  exact ⟨e, by unfold step; rw [he], by unfold step; rw [he]⟩

/-- **owners_not_blocked** — in every reachable state of M-Core (any parameters, any op sequence with
    ownership transfers, rollapps created by non-module accounts) no rollapp owner is an address the bank
    refuses to credit: the payout of a rollapp gauge to the owner (x/incentives, at epoch end inside the
    streamer's EndBlock) cannot fail for that reason — see `Props/C11Incent.streamer_end_block_never_fails`. -/
theorem owners_not_blocked (p : Params) (ops : List Op) (hc : ∀ o ∈ ops, Owners.creatorOk o) (r : Rollapp)
    (hr : r ∈ (run p ops).ras) : blockedAddr r.owner = false :=
  Owners.run_owners p ops hc r hr

/-- the hypothesis on creators is needed (and is all that is needed): a rollapp "created by" a blocked
    address would be owned by it -/
example : ((run (C02.exParams 2) [.createRollapp 0 900 1]).ras.map fun r => blockedAddr r.owner) = [true] := by decide

/-- ownership moves, the old owner cannot move it back, a blocked address is refused -/
example : ((run (C02.exParams 2) [.createRollapp 0 9 1, .transferOwner 9 0 5]).ras.map (·.owner)) = [5] ∧
    (step (run (C02.exParams 2) [.createRollapp 0 9 1, .transferOwner 9 0 5]) (.transferOwner 9 0 9)).2 = some .unauthorized ∧
    (step (run (C02.exParams 2) [.createRollapp 0 9 1]) (.transferOwner 9 0 900)).2 = some .invalid ∧
    (step (run (C02.exParams 2) [.createRollapp 0 9 1]) (.transferOwner 9 0 9)).2 = some .invalid ∧
    (step (run (C02.exParams 2) [.createRollapp 0 9 1]) (.transferOwner 9 1 5)).2 = some .unknownRollapp := by decide

-- ---------------------------------------------------------------- non-vacuity
/-- a reachable state with a due notice-queue entry: the sequencer's record is there and the block runs -/
example : ∃ p : Params, 0 < p.noticePeriod ∧ ∃ ops : List Op, (run p ops).nq ≠ [] ∧
    blockE (run p ops) 100 [] = .ok (endBlock (beginBlock (run p ops) 100) []) := by
  refine ⟨C02.exParams 2, by decide, [.createRollapp 0 9 1, .fund 1 100, .fund 2 100,
    .createSeq 1 0 10 true, .createSeq 2 0 10 true, C02.upd 0 1 1 3, .bridge 0 1, .unbond 1], ?_, ?_⟩
  · decide
  · exact block_never_fails _ (by decide) _ _ _

end DymVerif.C11
