/-
  Props/C05X — eIBC orders, the strengthened order/packet link over all histories.
  `order_packet_bijection` (Props/C05) ties an order to a packet by key only; here the order's ghost
  fields are tied to the packet's contents, for every PENDING order of every reachable state:
  amount, kind (received: bridging fee), recipient = the packet's original transfer target,
  fulfilled ⇔ the packet has been redirected.  Hypotheses: the invariants of C04 / C05 on the
  initial state and uint64 heights / sequences (`BoundedOp`), exactly those of
  `C04.pending_retrievable_by_address` (a key collision of a new acknowledgement / timeout packet
  with a stored one is excluded through `IdxInv`).
  FINALIZED orders are not covered (see Lemmas/PacketsLinkX).
-/
import DymVerif.Props.C05
import DymVerif.Lemmas.PacketsLinkX
import DymVerif.Lemmas.PacketsFulX
import DymVerif.Lemmas.PacketsTgtX
import DymVerif.Props.C04Persist
namespace DymVerif.C05X
open DymVerif DymVerif.Keys DymVerif.Packets

/-- the initial state of a run satisfies all four invariants when its channel table is well formed -/
theorem init_ok (n : Nat) (fund : Int) (a b c : Dec) (r0 r1 : Bytes) (ch : List Chan)
    (hc : CfgOk (initSt n fund a b c r0 r1 ch)) : InvAll (initSt n fund a b c r0 r1 ch) where
  i4 := (inv_init_both n fund a b c r0 r1 ch).1
  i5 := (inv_init_both n fund a b c r0 r1 ch).2
  idx := { cfg := hc, pk := (by intro q hq; cases hq), fwd := (by intro q hq; cases hq), bwd := (by intro e he; cases he) }
  x := by intro o ho; cases ho

/-- **order_linked_x** — in every reachable state every pending demand order refers to the stored
    packet under its tracking key, which is pending, whose key is the order's id, and
    * the order's (ghost) amount is the packet's amount,
    * the order's (ghost) `withBf` says whether the packet is a received one,
    * the order's recipient is the packet's original transfer target (`orig`, or `target` while the
      packet has not been redirected),
    * the order carries a fulfiller iff the packet has been redirected,
    * the packet is not one the packet-forward middleware sent (`fwd = none`): the history-level form of
      `forwarded_gets_no_order`, which removes the `p.fwd = none` proviso of `finalize_pays_fulfiller`. -/
theorem order_linked_x (s0 : St) (h0 : InvAll s0) (ops : List Op) (hb : ∀ o ∈ ops, BoundedOp o) :
    ∀ o ∈ (run s0 ops).orders, o.status = .pending →
      ∃ p, getPacket (run s0 ops) o.trackingKey = some p ∧ p.status = o.status ∧ pendKeyOf p = o.id ∧
        o.amount = p.amount ∧ o.withBf = (p.ptype == .onRecv) ∧ o.recipient = p.orig.getD p.target ∧
        (o.fulfiller.isSome ↔ p.orig.isSome) ∧ p.fwd = none := by
  intro o ho hs
  have h := invAll_run ops hb h0
  obtain ⟨p, hp, hl⟩ := h.x o ho hs
  refine ⟨p, hl.key ▸ getPacket_of_mem (InvF.keys h.i4) hp, hl.pend.trans hs.symm, ?_, hl.amount, hl.withBf,
    hl.recipient, hl.fulfiller, hl.nofwd⟩
  rw [pendKeyOf_of_pending hl.pend]; exact hl.id

/-- **price_identity_real_amount** — in every reachable state, for every pending order:
    price + fee + ⌊bridging fee · amount⌋ = amount where `amount` is the transfer amount of the PACKET
    the order tracks (the bridging fee only when that packet is a received one); price > 0, fee ≥ 0 -/
theorem price_identity_real_amount (s0 : St) (h0 : InvAll s0) (ops : List Op) (hb : ∀ o ∈ ops, BoundedOp o) :
    ∀ o ∈ (run s0 ops).orders, o.status = .pending →
      ∃ p, getPacket (run s0 ops) o.trackingKey = some p ∧ 0 < o.price ∧ 0 ≤ o.fee ∧
        o.price + o.fee + (if p.ptype == .onRecv then bridgingFeeOf (run s0 ops) p.amount else 0) = p.amount := by
  intro o ho hs
  have h := invAll_run ops hb h0
  obtain ⟨p, hp, hl⟩ := h.x o ho hs
  obtain ⟨h1, h2, h3⟩ := h.i5.price o ho
  refine ⟨p, hl.key ▸ getPacket_of_mem (InvF.keys h.i4) hp, h1, h2, ?_⟩
  rw [hl.withBf, hl.amount] at h3
  exact h3

/-- the order `id` of a reachable state and the packet it tracks -/
theorem order_packet (s0 : St) (h0 : InvAll s0) (ops : List Op) (hb : ∀ o ∈ ops, BoundedOp o) {id : Bytes} {o : Order}
    (ho : getOrder (run s0 ops) .pending id = some o) :
    ∃ p, getPacket (run s0 ops) id = some p ∧ LinkP p o := by
  have h := invAll_run ops hb h0
  obtain ⟨hm, hs, hi⟩ := getOrder_some ho
  obtain ⟨p, hp, hl⟩ := h.x o hm hs
  refine ⟨p, ?_, hl⟩
  rw [← hi, ← hl.id]
  exact getPacket_of_mem (InvF.keys h.i4) hp

/-- **fulfil_at_most_once_run** — in every reachable state: a pending order carries a fulfiller exactly
    when its packet has been redirected away from the order's recipient (the packet remembers the
    recipient as its original target), and then every fulfilment path and the fee update refuse it;
    an order without a fulfiller has a packet that still names the recipient. -/
theorem fulfil_at_most_once_run (s0 : St) (h0 : InvAll s0) (ops : List Op) (hb : ∀ o ∈ ops, BoundedOp o) {id : Bytes} {o : Order}
    (ho : getOrder (run s0 ops) .pending id = some o) :
    ∃ p, getPacket (run s0 ops) id = some p ∧
      (o.fulfiller.isSome = true →
        p.orig = some o.recipient ∧
        (∀ a fee s', msgFulfill (run s0 ops) a id fee ≠ .ok s') ∧ (∀ perm s', msgOnDemand (run s0 ops) id perm ≠ .ok s') ∧
        (∀ g m s', m.orderId = id → msgFulfillAuthorized (run s0 ops) g m ≠ .ok s') ∧
        (∀ a fee s', msgUpdateFee (run s0 ops) a id fee ≠ .ok s')) ∧
      (o.fulfiller = none → p.orig = none ∧ p.target = o.recipient) := by
  obtain ⟨p, hp, hl⟩ := order_packet s0 h0 ops hb ho
  refine ⟨p, hp, ?_, ?_⟩
  · intro hf
    refine ⟨?_, C05.fulfil_at_most_once ho hf⟩
    have h1 := hl.fulfiller.mp hf
    have h2 := hl.recipient
    cases hh : p.orig with
    | none => rw [hh] at h1; simp at h1
    | some x => rw [hh] at h2; rw [h2]; rfl
  · intro hf
    have h1 := hl.fulfiller
    have h2 := hl.recipient
    rw [hf] at h1
    cases hh : p.orig with
    | none => rw [hh] at h2; exact ⟨rfl, h2.symm⟩
    | some x => rw [hh] at h1; simp at h1

/-- **finalize_pays_fulfiller_run** — finalization of the packet of a fulfilled order in a reachable
    state: the packet names the party the fulfilment redirected it to and remembers the order's
    recipient as its original target; what is released is the packet's whole amount, which is the
    order's price + fee (+ bridging fee for a received packet); the packet is not a packet-forward
    (proved, no longer a proviso); and no balance other than that target's and the channel escrow's
    changes — in particular the order's recipient, paid at fulfilment, receives nothing more. -/
theorem finalize_pays_fulfiller_run (s0 : St) (h0 : InvAll s0) (ops : List Op) (hb : ∀ o ∈ ops, BoundedOp o)
    {k : Bytes} {o : Order} {s' : St}
    (ho : getOrder (run s0 ops) .pending k = some o) (hf : o.fulfiller.isSome = true)
    (hfin : finalizePacket (run s0 ops) k = .ok s') :
    ∃ p, getPacket (run s0 ops) k = some p ∧ p.orig = some o.recipient ∧
      o.price + o.fee + (if p.ptype == .onRecv then bridgingFeeOf (run s0 ops) p.amount else 0) = p.amount ∧
      p.fwd = none ∧
      (∀ a' d', a' ≠ p.target → a' ≠ escrowAcct p.chan →
        getBal s'.bal a' d' = getBal (run s0 ops).bal a' d') := by
  obtain ⟨p, hp, hfu, _⟩ := fulfil_at_most_once_run s0 h0 ops hb ho
  obtain ⟨hm, hs, _⟩ := getOrder_some ho
  obtain ⟨p1, hp1, _, _, hpr⟩ := price_identity_real_amount s0 h0 ops hb o hm hs
  obtain ⟨p2, hp2, hl⟩ := order_packet s0 h0 ops hb ho
  obtain ⟨p3, hp3, hbal⟩ := C05.finalize_pays_fulfiller hfin
  have e2 : p2 = p := Option.some.inj (hp2.symm.trans hp)
  have e3 : p3 = p := Option.some.inj (hp3.symm.trans hp)
  have hk : o.trackingKey = k := hl.key.symm.trans (hl.id.trans (getOrder_some ho).2.2)
  rw [hk] at hp1
  have e1 : p1 = p := Option.some.inj (hp1.symm.trans hp)
  rw [e1] at hpr
  rw [e3] at hbal
  have hfw : p.fwd = none := e2 ▸ hl.nofwd
  refine ⟨p, hp, (hfu hf).1, hpr, hfw, ?_⟩
  intro a' d' h1 h2
  exact hbal a' d' h1 h2 (fun r hr => by rw [hfw] at hr; cases hr)

-- ================================================================== a fulfilled order is frozen

/-- **fulfiller_persists (one operation)** — a pending order that carries a fulfiller and is still
    pending (under its id) after an operation is the very same record: same fulfiller, and also the same
    price, fee and recipient.  (It can only leave the pending orders: finalization of its packet turns it
    FINALIZED, epoch clean-up / hard fork delete it.) -/
theorem fulfiller_persists_step (s : St) (op : Op) (hb : BoundedOp op) (h : InvAll s) {o o' : Order}
    (ho : o ∈ s.orders) (hs : o.status = .pending) (hf : o.fulfiller.isSome = true)
    (ho' : o' ∈ (step s op).1.orders) (hs' : o'.status = .pending) (hid : o'.id = o.id) : o' = o :=
  fulfilled_frozen_step op hb h ho hs hf ho' hs' hid

/-- the order id `id` is the id of a pending order after every operation of the history -/
def StaysPending (id : Bytes) : St → List Op → Prop
  | _, [] => True
  | s, op :: rest => (∃ o' ∈ (step s op).1.orders, o'.status = .pending ∧ o'.id = id) ∧ StaysPending id (step s op).1 rest

/-- **fulfiller_persists** — through any history during which the order stays pending, a fulfilled
    order is unchanged: in the final state it is still there with the same fulfiller (so, by
    `fulfil_at_most_once_run`, it was never fulfilled a second time and its packet still remembers the
    recipient as its original target) -/
theorem fulfiller_persists : ∀ (ops : List Op) (s : St), (∀ o ∈ ops, BoundedOp o) → InvAll s →
    ∀ o ∈ s.orders, o.status = .pending → o.fulfiller.isSome = true → StaysPending o.id s ops →
    o ∈ (run s ops).orders
  | [], _, _, _, _, ho, _, _, _ => ho
  | op :: rest, s, hb, h, o, ho, hs, hf, hst => by
    have hbo := hb op (List.mem_cons_self ..)
    obtain ⟨⟨o', ho', hs', hid⟩, hrest⟩ := hst
    have e : o' = o := fulfilled_frozen_step op hbo h ho hs hf ho' hs' hid
    rw [e] at ho'
    exact fulfiller_persists rest (step s op).1 (fun x hx => hb x (List.mem_cons_of_mem _ hx)) (invAll_step op hbo h)
      o ho' hs hf hrest

-- ================================================================== the redirected packet is frozen

/-- **beneficiary_persists (one operation)** — a pending packet that a fulfilment has redirected
    (`orig` set: `target` is the fulfiller / the LP) is, after any operation, still stored as the very
    same record — same target, same original target, same amount — unless the operation is its own
    accepted finalization or a hard fork whose range contains it.  So the packet names the party the
    fulfilment redirected it to until it is finalized or reverted. -/
theorem beneficiary_persists_step (s : St) (op : Op) (hb : BoundedOp op) (h : InvAll s) (p : Packet)
    (hp : p ∈ s.packets) (hs : p.status = .pending) (ho : p.orig.isSome = true) :
    p ∈ (step s op).1.packets ∨ C04.FinalizesKey s op (pkey p) ∨ C04.ForksKey op (pkey p) := by
  rcases C04.pending_persists s op hb h.i4 h.idx p hp hs with h1 | h1 | h1
  · obtain ⟨p', hp', hk, hs', _⟩ := h1
    have e : p' = p := redirected_frozen_step op hb h hp ho hp' hs' hk
    exact Or.inl (e ▸ hp')
  · exact Or.inr (Or.inl h1)
  · exact Or.inr (Or.inr h1)

/-- **beneficiary_persists** — through any history that neither finalizes the packet nor forks its
    rollapp below its proof height, a redirected pending packet is unchanged: in the final state it still
    names the same target -/
theorem beneficiary_persists : ∀ (ops : List Op) (s : St), (∀ o ∈ ops, BoundedOp o) → InvAll s →
    ∀ p ∈ s.packets, p.status = .pending → p.orig.isSome = true →
    (∀ (pre : List Op) (o : Op) (post : List Op), ops = pre ++ o :: post →
        ¬ C04.FinalizesKey (run s pre) o (pkey p) ∧ ¬ C04.ForksKey o (pkey p)) →
    p ∈ (run s ops).packets
  | [], _, _, _, _, hp, _, _, _ => hp
  | o :: rest, s, hb, h, p, hp, hs, ho, hno => by
    have hbo := hb o (List.mem_cons_self ..)
    obtain ⟨n1, n2⟩ := hno [] o rest rfl
    rcases beneficiary_persists_step s o hbo h p hp hs ho with h1 | h1 | h1
    · exact beneficiary_persists rest (step s o).1 (fun x hx => hb x (List.mem_cons_of_mem _ hx)) (invAll_step o hbo h)
        p h1 hs ho (by
          intro pre o' post e
          exact hno (o :: pre) o' post (by rw [e]; rfl))
    · exact absurd h1 n1
    · exact absurd h1 n2

-- ================================================================== non-vacuity

/-- after the direct fulfilment of the first demo order by account 2: its packet is redirected to 2 and
    remembers the recipient 0; the second order is untouched -/
example : ((step (run C05.f6Init C05.demoOps) (.fulfill 2 C05.f6Key 1)).1.packets.map (fun p => (p.target, p.orig, p.amount))) =
    [(2, some 0, 1000), (0, none, 500)] := by decide
example : ((step (run C05.f6Init C05.demoOps) (.fulfill 2 C05.f6Key 1)).1.orders.map
    (fun o => (o.recipient, o.fulfiller, o.amount))) = [(0, some 2, 1000), (0, none, 500)] := by decide

/-- the fulfilled order stays as it is through a later accepted operation on the other order -/
example : ((step (step (run C05.f6Init C05.demoOps) (.fulfill 2 C05.f6Key 1)).1 (.updateFee 0 C05.demoKey2 10)).1.orders.map
    (fun o => (o.id == C05.f6Key, o.status, o.fulfiller, o.fee))) = [(true, .pending, some 2, 1), (false, .pending, none, 10)] := by decide

end DymVerif.C05X
