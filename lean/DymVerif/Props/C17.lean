/-
  Props/C17 — DymNS: one owner per name, consistent lookups, escrow fully backed.
  Property theorems only.  All statements are for every parameter value, every start time and every
  list of operations (`Op`: register / renew / take-over, transfer, set-controller, update-resolve,
  update-details, place / cancel / complete sell order, purchase, place / raise / cancel / accept buy
  order, RollApp creation, alias registration and trading, time advance, trading switches, reserved
  aliases, RollApp ownership transfer of x/rollapp, and the governance paths: chain-id migration,
  alias update, parameter update), or for every single accepted operation on any state that satisfies
  the invariant.
-/
import DymVerif.Lemmas.DymNSLit
import DymVerif.Lemmas.DymNSBoIdx
import DymVerif.Lemmas.GenEqDymNS
namespace DymVerif.C17
open DymVerif DymVerif.DymNS

/-- every state reachable from an empty store satisfies the invariant -/
theorem reachable_inv (p : Params) (t : Nat) (ops : List Op) : Inv (run (State.start p t) ops) := by
  apply run_inv
  have h := init_inv
  exact { wfN := h.wfN, wfA := h.wfA, wfB := h.wfB, esc := h.esc, idx := h.idx, ali := h.ali, so := h.so, boK := h.boK }

/-! ## escrow_inv — the module account holds exactly the open bids plus the open offers -/

/-- **escrow_inv**: module balance = Σ highest bids of open sell orders (names and aliases) +
    Σ offers of open buy orders, in every reachable state -/
theorem escrow_inv (p : Params) (t : Nat) (ops : List Op) :
    (run (State.start p t) ops).modBal =
      sumBids (run (State.start p t) ops).nameSO + sumBids (run (State.start p t) ops).aliasSO +
        sumOffers (run (State.start p t) ops).bos :=
  (reachable_inv p t ops).esc

/-- the same as a one-step statement: no accepted or rejected operation breaks it -/
theorem escrow_inv_step (s : State) (op : Op) (h : Inv s) : (step s op).modBal = escrowed (step s op) :=
  (step_inv op h).esc

/-! ## indexes_consistent — the reverse indexes are exactly the image of the records -/

/-- **indexes_consistent** (owned-by): owned-by(a) lists n ⇔ the record of n has owner a -/
theorem indexes_consistent_owned (p : Params) (t : Nat) (ops : List Op) (a : Acct) (n : Name) :
    n ∈ (run (State.start p t) ops).ns.ownIdx.lookup a ↔
      ∃ d, getName (run (State.start p t) ops) n = some d ∧ d.owner = a :=
  (reachable_inv p t ops).idx.own a n

/-- **indexes_consistent** (configured address): the index lists n under address x ⇔ x is the value
    of one of n's address records (the owner's own address counts as the default record when the
    name has no explicit default) -/
theorem indexes_consistent_configured (p : Params) (t : Nat) (ops : List Op) (x : Addr) (n : Name) :
    n ∈ (run (State.start p t) ops).ns.cfgIdx.lookup x ↔
      ∃ d, getName (run (State.start p t) ops) n = some d ∧ x ∈ d.cfgAddrs :=
  (reachable_inv p t ops).idx.cfg x n

/-- **indexes_consistent** (fallback address) -/
theorem indexes_consistent_fallback (p : Params) (t : Nat) (ops : List Op) (b : Nat) (n : Name) :
    n ∈ (run (State.start p t) ops).ns.fbIdx.lookup b ↔
      ∃ d, getName (run (State.start p t) ops) n = some d ∧ b ∈ d.fbAddrs :=
  (reachable_inv p t ops).idx.fb b n

/-- the owned-by *query* returns exactly the live names of that owner -/
theorem owned_by_query_exact (p : Params) (t : Nat) (ops : List Op) (a : Acct) (n : Name) :
    n ∈ ownedBy (run (State.start p t) ops) a ↔
      ∃ d, getNameLive (run (State.start p t) ops) n = some d ∧ d.owner = a := by
  have h := (reachable_inv p t ops).idx.own a n
  unfold ownedBy
  simp only [List.mem_filter]
  constructor
  · rintro ⟨_, hf⟩
    cases hl : getNameLive (run (State.start p t) ops) n with
    | none => simp [hl] at hf
    | some d => exact ⟨d, rfl, by simpa [hl] using hf⟩
  · rintro ⟨d, hl, ho⟩
    refine ⟨h.mpr ⟨d, (getNameLive_some hl).1, ho⟩, by simp [hl, ho]⟩

/-- **one owner per name**: a name is never listed under two accounts -/
theorem owner_unique (p : Params) (t : Nat) (ops : List Op) (a b : Acct) (n : Name)
    (ha : n ∈ (run (State.start p t) ops).ns.ownIdx.lookup a)
    (hb : n ∈ (run (State.start p t) ops).ns.ownIdx.lookup b) : a = b := by
  obtain ⟨d, hd, rfl⟩ := (indexes_consistent_owned p t ops a n).mp ha
  obtain ⟨d', hd', rfl⟩ := (indexes_consistent_owned p t ops b n).mp hb
  rw [hd] at hd'; injection hd' with hd'; subst hd'; rfl

/-- **indexes_consistent (buy orders)**: orders-by-buyer, orders-by-name and orders-by-alias list
    exactly the open buy orders of that buyer / on that name / on that alias -/
theorem indexes_consistent_buy_orders (p : Params) (t : Nat) (ops : List Op) : BoIdxOK (run (State.start p t) ops) := by
  have h := init_inv
  refine run_boIdxOK ops (s := State.start p t)
    { wfN := h.wfN, wfA := h.wfA, wfB := h.wfB, esc := h.esc, idx := h.idx, ali := h.ali, so := h.so, boK := h.boK } ?_
  refine ⟨fun a id => ?_, fun n id => ?_, fun l id => ?_⟩ <;> simp [State.start, State.init, Idx.lookup]

/-! ## owner_unique_authorised — who can change a record -/

/-- **owner_unique_authorised**: in a reachable state, an accepted operation leaves the record of a
    name untouched or rewrites it in one of the ways of `NameChange`, each of which carries its
    authorisation: the owner (extend, renew, transfer, set-controller, accept a buy order), the
    controller and only while unexpired (address records, contact), a bid on / completion of the
    owner's own sell order while the name is unexpired, or — for somebody else's expired name — a
    registration after expiry + grace period.  A record is never deleted. -/
theorem owner_unique_authorised (p : Params) (t : Nat) (ops : List Op) (op : Op) (s' : State)
    (h : exec (run (State.start p t) ops) op = .ok s') (n : Name) (d : DymName)
    (hd : getName (run (State.start p t) ops) n = some d) :
    ∃ d', getName s' n = some d' ∧ (d' = d ∨ NameChange (run (State.start p t) ops) n d op d') :=
  name_change (reachable_inv p t ops) h hd

/-- corollary: the owner of an unexpired name changes only by the owner's transfer, the owner's
    acceptance of a buy order, or a sale through the open sell order that this same owner placed
    (`seller` is a ghost field of the model recording who placed the order); the owner of an
    expired name only by a registration after the grace period -/
theorem owner_change_authorised {s s' : State} {op : Op} (hI : Inv s) (h : exec s op = .ok s') {n : Name}
    {d d' : DymName} (hd : getName s n = some d) (hd' : getName s' n = some d') (hne : d'.owner ≠ d.owner) :
    (d.expired s.now = false ∧
        (op.actor = d.owner ∨ ∃ so, AMap.get s.nameSO n = some so ∧ so.seller = d.owner)) ∨
    (d.expired s.now = true ∧ d.expireAt + s.p.grace ≤ s.now ∧ op.actor = d'.owner) := by
  obtain ⟨d'', hd'', hc⟩ := name_change hI h hd
  rw [hd'] at hd''; injection hd'' with hd''; subst hd''
  rcases hc with rfl | hc
  · exact absurd rfl hne
  · cases hc with
    | extend dur pay c he => exact absurd rfl hne
    | renew dur pay c he => exact absurd rfl hne
    | takeOver a dur pay c hna he hg => exact Or.inr ⟨he, hg, rfl⟩
    | transfer b he hso hb => exact Or.inl ⟨he, Or.inl rfl⟩
    | setController c he => exact absurd rfl hne
    | updateResolve ch e p v cfgs he hcf => exact absurd rfl hne
    | updateDetails c cl cfgs contact he hcf => exact absurd rfl hne
    | purchase a offer so hso hsel hse he hna => exact Or.inl ⟨he, Or.inr ⟨so, hso, hsel⟩⟩
    | complete a so b hso hsel hb he ha => exact Or.inl ⟨he, Or.inr ⟨so, hso, hsel⟩⟩
    | accept pfx id m bo hg hna hn he hso hb => exact Or.inl ⟨he, Or.inl rfl⟩
    | migrate m he hnd => exact absurd rfl hne

/-- corollary: **nobody but the previous owner re-registers a name during the grace period** -/
theorem no_takeover_in_grace {s s' : State} {op : Op} (hI : Inv s) (h : exec s op = .ok s') {n : Name}
    {d d' : DymName} (hd : getName s n = some d) (hd' : getName s' n = some d') (hne : d'.owner ≠ d.owner)
    (hexp : d.expired s.now = true) : d.expireAt + s.p.grace ≤ s.now := by
  rcases owner_change_authorised hI h hd hd' hne with ⟨he, _⟩ | ⟨_, hg, _⟩
  · rw [hexp] at he; cases he
  · exact hg

/-- corollary: while the owner stays the same, the address records of an unexpired name change
    only on the controller's signature — or by the governance chain-id migration, which rewrites
    chain-ids only (`migration_changes_only_chain_ids`).  (A completed sell order always changes the
    owner: the invariant records that the highest bidder of an open order is never the owner —
    `MsgPurchaseOrder` refuses the owner's bid and the owner cannot change while the order is open.) -/
theorem address_records_by_controller {s s' : State} {op : Op} (hI : Inv s) (h : exec s op = .ok s') {n : Name}
    {d d' : DymName} (hd : getName s n = some d) (hd' : getName s' n = some d') (ho : d'.owner = d.owner)
    (hc : d'.configs ≠ d.configs) (hexp : d.expired s.now = false) :
    op.actor = d.controller ∨ ∃ m, op = .migrateChainIds m := by
  obtain ⟨d'', hd'', hch⟩ := name_change hI h hd
  rw [hd'] at hd''; injection hd'' with hd''; subst hd''
  rcases hch with rfl | hch
  · exact absurd rfl hc
  · cases hch with
    | extend dur pay c he => exact absurd rfl hc
    | renew dur pay c he => rw [hexp] at he; cases he
    | takeOver a dur pay c hna he hg => rw [hexp] at he; cases he
    | transfer b he hso hb => exact absurd ho hb
    | setController c he => exact absurd rfl hc
    | updateResolve ch e p v cfgs he hcf => exact Or.inl rfl
    | updateDetails c cl cfgs contact he hcf => exact Or.inl rfl
    | purchase a offer so hso hsel hse he hna => exact absurd ho hna
    | complete a so b hso hsel hb he ha =>
      exfalso
      simp only [cleared] at ho
      obtain ⟨d1, hd1, _, _, hbid⟩ := hI.so n so hso
      have : d1 = d := by
        have hd0 : s.ns.get n = some d := hd
        rw [hd0] at hd1; exact (Option.some.inj hd1).symm
      subst this
      exact hbid b hb ho
    | accept pfx id m bo hg hna hn he hso hb => exact absurd ho hb
    | migrate m he hnd => exact Or.inr ⟨m, rfl⟩

/-- in every reachable state the highest bidder of an open Dym-Name sell order is not the owner of
    the name, the order was placed by the owner and ends before the name does -/
theorem open_order_of_the_owner (p : Params) (t : Nat) (ops : List Op) (n : Name) (so : SellOrder)
    (h : AMap.get (run (State.start p t) ops).nameSO n = some so) :
    ∃ d, getName (run (State.start p t) ops) n = some d ∧ so.expireAt < d.expireAt ∧ so.seller = d.owner ∧
      ∀ b, so.bid = some b → b.bidder ≠ d.owner :=
  (reachable_inv p t ops).so n so h

/-! ## alias_bijection -/

/-- **alias_bijection**: alias ↦ RollApp and RollApp ↦ aliases are inverse of each other -/
theorem alias_bijection (p : Params) (t : Nat) (ops : List Op) (l : AliasId) (c : Chain) :
    AMap.get (run (State.start p t) ops).al.aliasTo l = some c ↔ l ∈ aliasesOf (run (State.start p t) ops) c :=
  (reachable_inv p t ops).ali.iff l c

/-- each alias is listed under at most one RollApp, and that one is a registered RollApp -/
theorem alias_at_most_one_rollapp (p : Params) (t : Nat) (ops : List Op) (l : AliasId) (c c' : Chain)
    (h : l ∈ aliasesOf (run (State.start p t) ops) c) (h' : l ∈ aliasesOf (run (State.start p t) ops) c') :
    c = c' ∧ isRollapp (run (State.start p t) ops) c = true := by
  have e := (alias_bijection p t ops l c).mpr h
  have e' := (alias_bijection p t ops l c').mpr h'
  rw [e] at e'; injection e' with e'
  exact ⟨e', (reachable_inv p t ops).ali.roll l c e⟩

/-! ## refund_full and sale_exact — exact balance equations of every market message -/

/-- **refund_full (outbid) / sale_exact (sell price reached)**: see `purchaseName_ledger` -/
theorem refund_full_outbid {s s' : State} {a : Acct} {n : Name} {offer : Nat} {d : DymName} {so : SellOrder}
    (h : purchaseName s a n offer = .ok s') (hd : getName s n = some d) (hso : AMap.get s.nameSO n = some so) :
    (∀ x, balOf s' x + (if x = a then offer else 0) =
        balOf s x + refundTo so.bid x +
          (if ({ so with bid := some ⟨a, offer, 0⟩ } : SellOrder).finished s.now = true ∧ x = d.owner then offer else 0)) ∧
    (if ({ so with bid := some ⟨a, offer, 0⟩ } : SellOrder).finished s.now = true
     then getName s' n = some (cleared a d.expireAt) ∧ AMap.get s'.nameSO n = none
     else getName s' n = some d ∧ AMap.get s'.nameSO n = some { so with bid := some ⟨a, offer, 0⟩ }) :=
  purchaseName_ledger h hd hso

/-- **refund_full (cancelled offer)** -/
theorem refund_full_cancelled_offer {s s' : State} {a : Acct} {pfx : Bool} {id : Nat} (h : cancelBO s a pfx id = .ok s') :
    ∃ bo, AMap.get s.bos id = some bo ∧ bo.buyer = a ∧ AMap.get s'.bos id = none ∧
      ∀ x, balOf s' x = balOf s x + (if x = a then bo.offer else 0) :=
  cancelBO_ledger h

/-- **refund_full (expired name / trading disabled) and sale_exact (completion after expiry of the
    order)** -/
theorem sale_exact_complete {s s' : State} {a : Acct} {n : Name} (h : completeNameSOMsg s a n = .ok s') :
    ∃ d so b, getName s n = some d ∧ AMap.get s.nameSO n = some so ∧ so.bid = some b ∧ so.finished s.now = true ∧
      AMap.get s'.nameSO n = none ∧
      (if (!s.p.tradeName || d.expired s.now) = true
       then getName s' n = some d ∧ ∀ x, balOf s' x = balOf s x + refundTo (some b) x
       else getName s' n = some (cleared b.bidder d.expireAt) ∧
            ∀ x, balOf s' x = balOf s x + (if x = d.owner then b.price else 0)) :=
  completeNameSOMsg_ledger h

/-- **refund_full (pruned)**: a registration that prunes the previous record refunds the bid of
    the pruned sell order in full -/
theorem refund_full_pruned {s s' : State} {a : Acct} {n : Name} {dur pay c : Nat}
    (h : registerName s a n dur pay c = .ok s') (hp : (regPlan s a n dur c).prune = true) :
    AMap.get s'.nameSO n = none ∧
    ∀ x, balOf s' x + (if x = a then pay else 0) = balOf s x + refundTo (nameBid s n) x :=
  registerName_prune_ledger h hp

/-- **deposit only the difference when raising an offer** -/
theorem deposit_exact {s s' : State} {a : Acct} {n : Name} {offer : Nat} {cont : Option (Bool × Nat)}
    (h : placeNameBO s a n offer cont = .ok s') :
    (∀ x, x ≠ a → balOf s' x = balOf s x) ∧
    (match cont with
     | none => balOf s' a + offer = balOf s a ∧
               AMap.get s'.bos (s.boCount + 1) = some ⟨false, n, 0, a, offer, 0⟩
     | some (_, id) => ∃ bo, AMap.get s.bos id = some bo ∧ bo.buyer = a ∧ bo.offer < offer ∧
               balOf s' a + (offer - bo.offer) = balOf s a ∧ AMap.get s'.bos id = some { bo with offer := offer }) :=
  placeNameBO_ledger h

/-- **deposit only the difference when raising an offer on an alias**: a new offer escrows exactly
    the offer, a raise exactly `offer - previous offer`; nobody else's balance moves; the buyer is the
    owner of the destination RollApp, which differs from the alias' RollApp -/
theorem deposit_exact_alias {s s' : State} {a : Acct} {l : AliasId} {offer : Nat} {cont : Option (Bool × Nat)} {dst : Chain}
    (h : placeAliasBO s a l offer cont dst = .ok s') :
    isCreator s dst a = true ∧ AMap.get s.al.aliasTo l ≠ some dst ∧ s.p.minOffer ≤ offer ∧
    (∀ x, x ≠ a → balOf s' x = balOf s x) ∧
    (match cont with
     | none => balOf s' a + offer = balOf s a ∧
               AMap.get s'.bos (s.boCount + 1) = some ⟨true, l, dst, a, offer, 0⟩
     | some (_, id) => ∃ bo, AMap.get s.bos id = some bo ∧ bo.buyer = a ∧ bo.isAlias = true ∧ bo.asset = l ∧ bo.offer < offer ∧
               balOf s' a + (offer - bo.offer) = balOf s a ∧ AMap.get s'.bos id = some { bo with offer := offer }) :=
  placeAliasBO_ledger h

/-- **sale_exact (accepted buy order)** -/
theorem sale_exact_accept {s s' : State} {a : Acct} {pfx : Bool} {id : Nat} {bo : BuyOrder}
    (hg : AMap.get s.bos id = some bo) (hna : bo.isAlias = false) (h : acceptBO s a pfx id bo.offer = .ok s') :
    ∃ d, getName s bo.asset = some d ∧ d.owner = a ∧ d.expired s.now = false ∧
      getName s' bo.asset = some (cleared bo.buyer d.expireAt) ∧ AMap.get s'.bos id = none ∧
      ∀ x, balOf s' x = balOf s x + (if x = a then bo.offer else 0) :=
  acceptNameBO_ledger hg hna h

/-- **refund_full / sale_exact for aliases (completion)** -/
theorem sale_exact_complete_alias {s s' : State} {a : Acct} {l : AliasId} (h : completeAliasSOMsg s a l = .ok s') :
    ∃ so b, AMap.get s.aliasSO l = some so ∧ so.bid = some b ∧ so.finished s.now = true ∧ AMap.get s'.aliasSO l = none ∧
      (if (reserved s.p l || !s.p.tradeAlias) = true
       then s'.al = s.al ∧ ∀ x, balOf s' x = balOf s x + refundTo (some b) x
       else ∃ src r, AMap.get s.al.aliasTo l = some src ∧ AMap.get s.al.rollapps src = some r ∧
            AMap.get s'.al.aliasTo l = some b.dst ∧
            ∀ x, balOf s' x = balOf s x + (if x = r.owner then b.price else 0)) :=
  completeAliasSOMsg_ledger h

/-- **refund_full (outbid) / sale_exact (sell price reached) for aliases** -/
theorem refund_full_outbid_alias {s s' : State} {a : Acct} {l : AliasId} {offer : Nat} {dst : Chain} {so : SellOrder}
    (h : purchaseAlias s a l offer dst = .ok s') (hso : AMap.get s.aliasSO l = some so) :
    if ({ so with bid := some ⟨a, offer, dst⟩ } : SellOrder).finished s.now = true
    then ∃ src r, AMap.get s.al.aliasTo l = some src ∧ AMap.get s.al.rollapps src = some r ∧
          AMap.get s'.al.aliasTo l = some dst ∧ AMap.get s'.aliasSO l = none ∧
          ∀ x, balOf s' x + (if x = a then offer else 0) =
            balOf s x + refundTo so.bid x + (if x = r.owner then offer else 0)
    else s'.al = s.al ∧ AMap.get s'.aliasSO l = some { so with bid := some ⟨a, offer, dst⟩ } ∧
          ∀ x, balOf s' x + (if x = a then offer else 0) = balOf s x + refundTo so.bid x :=
  purchaseAlias_ledger h hso

/-- **sale_exact (accepted buy order on an alias)** -/
theorem sale_exact_accept_alias {s s' : State} {a : Acct} {pfx : Bool} {id : Nat} {bo : BuyOrder}
    (hg : AMap.get s.bos id = some bo) (hal : bo.isAlias = true) (h : acceptBO s a pfx id bo.offer = .ok s') :
    ∃ src r, AMap.get s.al.aliasTo bo.asset = some src ∧ AMap.get s.al.rollapps src = some r ∧ r.owner = a ∧
      AMap.get s'.al.aliasTo bo.asset = some bo.dst ∧ AMap.get s'.bos id = none ∧
      ∀ x, balOf s' x = balOf s x + (if x = a then bo.offer else 0) :=
  acceptAliasBO_ledger hg hal h

/-! ## resolve_agree

  Full statement (reverse resolution is sound and complete w.r.t. forward resolution):
    for every reachable `s`, address `x` in the own format of working chain `wc`, and candidate
    `(path, n, h) ∈ reverse s x wc`:  `resolve s path n h = some x`;  and every stored record
    `path.n@chain -> x` of a live name is among `reverse s x chain`.
  The completeness half holds (`resolve_agree_complete`).  The soundness half does NOT hold for the
  code as it is: the fallback stage of reverse resolution lists `n@rollapp` for the account of `n`'s
  default record even when `n` has an explicit record for that RollApp (which forward resolution
  returns instead), and even when the RollApp declares no bech32 prefix (then forward resolution
  finds nothing).  Both are shown below by concrete reachable states.
-/

/-- **resolve_agree (complete half)**: every stored record of a live name is found by reverse
    resolution of its value on its chain -/
theorem resolve_agree_complete (p : Params) (t : Nat) (ops : List Op) (n : Name) (d : DymName) (c : Config)
    (hl : getNameLive (run (State.start p t) ops) n = some d) (hc : c ∈ d.configs) :
    (c.path, n, prettyChain (run (State.start p t) ops) (cfgText c.chain)) ∈
      reverse (run (State.start p t) ops) c.value (cfgText c.chain) :=
  reverse_complete (reachable_inv p t ops).idx hl hc

/-- every reachable state also keeps the (chain, path) identities of each name's records distinct and
    host-chain records in host format -/
theorem reachable_cfgOK (p : Params) (t : Nat) (ops : List Op) : CfgOK (run (State.start p t) ops) := by
  have h := init_inv
  refine (run_inv_cfgOK ops (s := State.start p t)
    { wfN := h.wfN, wfA := h.wfA, wfB := h.wfB, esc := h.esc, idx := h.idx, ali := h.ali, so := h.so, boK := h.boK } ?_).2
  intro n d hd
  simp [getName, State.start, State.init, NameStore.get] at hd

/-- **resolve_agree_partial (sound half)**: in every reachable state whose params list no alias
    under two chain-ids, every candidate `(path, n)` of a reverse resolution of `addr` on working
    chain `wc` resolves forward — through the pretty handle reverse resolution prints — to exactly
    `addr`, *provided* that, if the fallback stage produced it (`hFb`), either the working chain is
    the host chain and `addr` is in host format, or it is a RollApp with a declared bech32 prefix,
    `addr` carries that prefix, and the name has no explicit record for that RollApp.  The two
    counterexamples below violate the last and the second-to-last proviso. -/
theorem resolve_agree_partial (p : Params) (t : Nat) (ops : List Op)
    (hPW : ParamsWF (run (State.start p t) ops).p) (addr : Addr) (wc : Chain) (path : Path) (n : Name)
    (hm : (path, n) ∈ reverseRaw (run (State.start p t) ops) addr wc)
    (hNL : NoLitName (run (State.start p t) ops) n)
    (hFb : (revByConfig (run (State.start p t) ops) addr wc).isEmpty = true →
      (wc = 0 ∧ addr.hrp = 0) ∨
      (wc ≠ 0 ∧ rollappHrp (run (State.start p t) ops) wc ≠ 0 ∧ addr.hrp = rollappHrp (run (State.start p t) ops) wc ∧
        ∀ d, getNameLive (run (State.start p t) ops) n = some d → findConfig d wc 0 = none)) :
    resolve (run (State.start p t) ops) path n (prettyChain (run (State.start p t) ops) wc) = some addr := by
  have hI := reachable_inv p t ops
  have hC := reachable_cfgOK p t ops
  have hW : ∀ d, getNameLive (run (State.start p t) ops) n = some d → CfgWF d.configs :=
    fun d hl => hC n d (getNameLive_some hl).1
  have hU : ∀ d, getNameLive (run (State.start p t) ops) n = some d → CfgUniq d :=
    fun d hl => cfgUniq_of_nodup (hW d hl).1
  have hH := handle_roundtrip wc hPW hI.ali
  have hP : ∀ c, prettyChain (run (State.start p t) ops) wc = .chain c → c = wc := fun c h => prettyChain_chain h
  unfold reverseRaw at hm
  by_cases he : (revByConfig (run (State.start p t) ops) addr wc).isEmpty = true
  · simp only [he, Bool.not_true, Bool.false_eq_true, if_false] at hm
    rcases hFb he with ⟨rfl, hfmt⟩ | ⟨hwc, hpre, hfmt, hNo⟩
    · simp only [ne_eq, not_true_eq_false, false_and, if_false] at hm
      exact revByFallback_host_sound hW hH hP hfmt hm
    · split at hm
      · cases hm
      · rename_i hr
        have hR : isRollapp (run (State.start p t) ops) wc = true := by
          cases hx : isRollapp (run (State.start p t) ops) wc with
          | true => rfl
          | false => exact absurd ⟨hwc, by simp [hx]⟩ hr
        exact revByFallback_sound_partial hU hH hP hwc hR hpre hfmt hNo hm
  · have : (!(revByConfig (run (State.start p t) ops) addr wc).isEmpty) = true := by simpa using he
    simp only [this, if_true] at hm
    exact revByConfig_sound hU hNL hH hP hm

def cxParams : Params :=
  { tradeName := true, tradeAlias := true, grace := 100, soDur := 10, minOffer := 1, bidInc := 0,
    priceExtends := 1, nameSteps := [5, 4, 3, 2, 1], aliasSteps := [5, 4, 3, 2, 1], chainAliases := [] }

/-- a1 creates RollApp 1 (bech32 prefix 1, alias 0); a0 registers name 0 and points `n0@rollapp1`
    to a1's RollApp address -/
def cxOverride : State := run (State.start cxParams 1000)
  [.fund 0 100, .fund 1 100, .createRollapp 1 1 1 0, .register 0 0 1 5 0, .updateResolve 0 0 1 false 0 (some ⟨1, 1⟩)]

/-- **resolve_agree_counterexample (explicit record ignored by the reverse fallback)**: reverse
    resolution of a0's RollApp address lists `n0@alias0`, which resolves to a1's address -/
theorem resolve_agree_counterexample_override :
    (0, 0, Handle.alias 0) ∈ reverse cxOverride ⟨1, 0⟩ 1 ∧ resolve cxOverride 0 0 (.alias 0) = some ⟨1, 1⟩ := by
  decide

/-- the same with a RollApp that declares no bech32 prefix -/
def cxNoPrefix : State := run (State.start cxParams 1000)
  [.fund 0 100, .fund 1 100, .createRollapp 1 1 0 0, .register 0 0 1 5 0]

/-- **resolve_agree_counterexample (RollApp without bech32 prefix)**: reverse resolution lists
    `n0@alias0`, which does not resolve at all -/
theorem resolve_agree_counterexample_noprefix :
    (0, 0, Handle.alias 0) ∈ reverse cxNoPrefix ⟨0, 0⟩ 1 ∧ resolve cxNoPrefix 0 0 (.alias 0) = none := by
  decide

/-! ## non-vacuity -/

/-- a0 registers n1, lists it (min 2, sell price 9); a1 bids 3, a2 outbids with 4; a1 offers 5 on n1 -/
def exMarket : State := run (State.start cxParams 1000)
  [.fund 0 100, .fund 1 100, .fund 2 100, .register 0 1 2 5 0, .sellName 0 1 2 9, .buyName 1 1 3, .buyName 2 1 4,
   .offerName 1 1 5 none]

example : exMarket.modBal = 9 ∧ escrowed exMarket = 9 ∧ balOf exMarket 1 = 95 ∧ balOf exMarket 2 = 96 := by decide
example : exMarket.ns.ownIdx.lookup 0 = [1] ∧ exMarket.ns.cfgIdx.lookup ⟨0, 0⟩ = [1] ∧ exMarket.ns.fbIdx.lookup 0 = [1] := by
  decide
/-- the outbid of a1 by a2 is an instance of `refund_full_outbid` (hypotheses satisfiable) -/
example : ∃ s s' d so, purchaseName s 2 1 4 = .ok s' ∧ getName s 1 = some d ∧ AMap.get s.nameSO 1 = some so ∧
    so.bid = some ⟨1, 3, 0⟩ :=
  ⟨run (State.start cxParams 1000) [.fund 0 100, .fund 1 100, .fund 2 100, .register 0 1 2 5 0, .sellName 0 1 2 9, .buyName 1 1 3],
   _, _, _, rfl, rfl, rfl, rfl⟩
/-- a bid at the sell price completes the sale: an instance of the `purchase` constructor -/
example : getName (step exMarket (.buyName 1 1 9)) 1 = some (cleared 1 63073000) ∧
    balOf (step exMarket (.buyName 1 1 9)) 0 = 104 ∧ balOf (step exMarket (.buyName 1 1 9)) 2 = 100 := by decide
/-- take-over: rejected one second before the end of the grace period, accepted at its end -/
example : getName (run exMarket [.advance (63072000 + 99), .register 2 1 1 4 0]) 1 = getName exMarket 1 ∧
    (getName (run exMarket [.advance (63072000 + 100), .register 2 1 1 4 0]) 1).map (·.owner) = some 2 := by decide
example : exMarket.boBuyer.lookup 1 = [1] ∧ exMarket.boName.lookup 1 = [1] ∧ (AMap.get exMarket.bos 1).map (·.offer) = some 5 := by
  decide
example : aliasesOf cxOverride 1 = [0] ∧ AMap.get cxOverride.al.aliasTo 0 = some 1 := by decide
example : resolve cxOverride 0 0 (.chain 0) = some ⟨0, 0⟩ ∧ reverse cxOverride ⟨0, 0⟩ 0 = [(0, 0, .chain 0)] := by decide

end DymVerif.C17
