/-
  Props/C17 — DymNS: one owner per name, consistent lookups, escrow fully backed.
-/
import DymVerif.Model.DymNS
namespace DymVerif.C17
open DymVerif DymVerif.DymNS

theorem placeholder : True := trivial

end DymVerif.C17
