/-
  Props/C04 — Bridged funds are released only after finality, and exactly once.
  Theorems over M-Packets (Model/Packets.lean), for all operation sequences.

  The ghost log `St.log` gets one entry per *real* (not dry-run) execution of the ICS-20 callback —
  on the pass-through path of the middleware and in `finalizeRollappPacket` — recording the packet's
  identity, its proof height, the registered rollapp of its channel and that rollapp's latest
  finalized height at that moment.  Bank balances and acknowledgements are only touched by those
  executions (`delayed_only_recorded`, `rejected_unchanged`).
-/
import DymVerif.Lemmas.PacketsOnceOps
import DymVerif.Lemmas.PacketsIndex
import DymVerif.Lemmas.PacketsFork
import DymVerif.Lemmas.Base64
namespace DymVerif.C04
open DymVerif DymVerif.Keys DymVerif.Packets

/-- **release_only_final** — every release of a packet of a registered rollapp, in every history,
    happened when the proof height was at or below that rollapp's latest finalized height. -/
theorem release_only_final (s0 : St) (h0 : Inv04 s0) (ops : List Op) :
    ∀ e ∈ (run s0 ops).log, ∀ r, e.delayedRa = some r → ∃ f, e.finAt = some f ∧ e.proofHeight ≤ f :=
  fun e he => InvF.final (inv_run ops h0) e he

/-- **release_at_most_once** — no packet identity (received / sent, hub channel, sequence) is released twice. -/
theorem release_at_most_once (s0 : St) (h0 : Inv04 s0) (ops : List Op) :
    ((run s0 ops).log.map LogE.uid).Nodup :=
  InvF.nodup (inv_run ops h0)

/-- a packet that is still pending has not been released, and nothing released is pending -/
theorem pending_not_released (s0 : St) (h0 : Inv04 s0) (ops : List Op) :
    ∀ p ∈ (run s0 ops).packets, p.status = .pending → p.uid ∉ (run s0 ops).log.map LogE.uid :=
  fun p hp hs hl => InvF.excl (inv_run ops h0) p.uid hl ⟨p, hp, hs, rfl⟩

/-- redelivery is impossible while a packet is pending or after its release: the receipt (received
    packets) is there, the commitment (sent packets) is gone -/
theorem redelivery_guarded (s0 : St) (h0 : Inv04 s0) (ops : List Op) :
    (∀ c q, (true, c, q) ∈ (run s0 ops).log.map LogE.uid → (c, q) ∈ (run s0 ops).receipts) ∧
    (∀ c q, (false, c, q) ∈ (run s0 ops).log.map LogE.uid → (c, q) ∉ (run s0 ops).commits) :=
  ⟨fun c q hl => InvF.rcv (inv_run ops h0) c q (Or.inl hl), fun c q hl => (InvF.snt (inv_run ops h0) c q (Or.inl hl)).1⟩

/-- the invariants hold from the initial state of every run the harness starts -/
theorem init_ok (n : Nat) (fund : Int) (a b c : Dec) (r0 r1 : Bytes) (ch : List Chan) : Inv04 (initSt n fund a b c r0 r1 ch) :=
  inv_init n fund a b c r0 r1 ch

/-- **pending_retrievable (by key)** — every stored packet, in particular every pending one, is
    returned by `GetRollappPacket` under its own key. -/
theorem pending_retrievable_by_key (s0 : St) (h0 : Inv04 s0) (ops : List Op) :
    ∀ p ∈ (run s0 ops).packets, getPacket (run s0 ops) (pkey p) = some p :=
  fun _ hp => getPacket_of_mem (InvF.keys (inv_run ops h0)) hp

-- ------------------------------------------------------------------ "only recorded as pending"

theorem eibcOnRecv_ok {s s2 : St} {p : Packet} {m : Memo} (h : eibcOnRecv s p m = .ok s2) : ∃ o, s2 = setOrder s o := by
  unfold eibcOnRecv at h
  split at h
  · cases h
  · split at h
    · cases h
    · split at h
      · cases h
      · cases h; exact ⟨_, rfl⟩

theorem recvDelay_async {s0 : St} {c seq : Nat} {p : Packet} {memo : Memo} (h : (recvDelay s0 c seq p memo).2 = .async) :
    (recvDelay s0 c seq p memo).1.bal = s0.bal ∧ (recvDelay s0 c seq p memo).1.acks = s0.acks ∧
    (recvDelay s0 c seq p memo).1.log = s0.log := by
  cases hi : icsRecv s0 p true with
  | none => simp [recvDelay, hi, recvFail] at h
  | some sx =>
    cases he : eibcOnRecv (setPacket (addByAddr s0 p.target (pkey p)) p) p memo with
    | error e => simp [recvDelay, hi, he, recvFail] at h
    | ok s2 =>
      obtain ⟨o, rfl⟩ := eibcOnRecv_ok he
      simp only [recvDelay, hi, he]
      exact ⟨rfl, rfl, rfl⟩

theorem recvPass_not_async (s0 : St) (c seq : Nat) (p : Packet) (ra : Option Bytes) : (recvPass s0 c seq p ra).2 ≠ .async := by
  unfold recvPass
  split <;> simp [recvFail]

theorem recvAuth_async {s0 : St} {c seq ph : Nat} {d : RecvData} (h : (recvAuth s0 c seq ph d).2 = .async) :
    (recvAuth s0 c seq ph d).1.bal = s0.bal ∧ (recvAuth s0 c seq ph d).1.acks = s0.acks ∧
    (recvAuth s0 c seq ph d).1.log = s0.log := by
  unfold recvAuth at h ⊢
  cases hc : chanRollapp s0 c with
  | error e => simp [hc, recvFail] at h
  | ok ra =>
    simp only [hc] at h ⊢
    by_cases ha : d.amount ≤ 0
    · simp [ha, recvFail] at h
    · simp only [ha, if_false] at h ⊢
      cases ht : d.target with
      | none => simp [ht, recvFail] at h
      | some tgt =>
        simp only [ht] at h ⊢
        by_cases hp : (ra.isNone || isFinalizedFor s0 ra ph) = true
        · simp only [hp, if_true] at h
          exact absurd h (recvPass_not_async _ _ _ _ _)
        · simp only [hp] at h ⊢
          exact recvDelay_async h

theorem recvForward_not_async (s0 : St) (c seq ph : Nat) (d : RecvData) (k : Nat) : (recvForward s0 c seq ph d k).2 ≠ .async := by
  unfold recvForward
  split
  · split <;> simp [recvFail]
  · simp [recvFail]

/-- an immediate success comes from the pass-through path: the packet store is untouched -/
theorem recvAuth_ackOk_packets {s0 s1 : St} {c seq ph : Nat} {d : RecvData} (h : recvAuth s0 c seq ph d = (s1, .ackOk)) :
    s1.packets = s0.packets := by
  unfold recvAuth at h
  split at h
  · simp [recvFail] at h
  · split at h
    · simp [recvFail] at h
    · split at h
      · simp [recvFail] at h
      · split at h
        · unfold recvPass at h
          split at h
          · simp [recvFail] at h
          · rename_i sx hi
            simp only [Prod.mk.injEq, and_true] at h
            subst h
            exact (frame_icsRecv hi).packets
        · unfold recvDelay at h
          split at h
          · simp [recvFail] at h
          · split at h <;> simp [recvFail] at h

theorem recvForward_packets (s0 : St) (c seq ph : Nat) (d : RecvData) (k : Nat) :
    (recvForward s0 c seq ph d k).1.packets = s0.packets := by
  unfold recvForward
  split
  · rename_i s1 hr
    split
    · rename_i s2 hs
      show s2.packets = s0.packets
      rw [(frame_sendOpen (sendTransfer_ok hs)).1]
      exact (recvAuth_ackOk_packets hr : s1.packets = s0.packets)
    · rfl
  · rfl

/-- **delayed_only_recorded** — a delayed receive moves no coin, writes no acknowledgement and
    releases nothing: the packet is only recorded. -/
theorem delayed_only_recorded (s : St) (c seq ph : Nat) (d : RecvData)
    (h : (recvPacket s c seq ph d).2 = .async) :
    (recvPacket s c seq ph d).1.bal = s.bal ∧ (recvPacket s c seq ph d).1.acks = s.acks ∧
    (recvPacket s c seq ph d).1.log = s.log := by
  rcases recvPacket_cases s c seq ph d with e | e
  · rw [e] at h; cases h
  · rw [e] at h ⊢
    unfold recvOpen at h ⊢
    by_cases hc : s.receipts.contains (c, seq) = true
    · rw [if_pos hc] at h
      exact absurd h (by simp)
    · rw [if_neg hc] at h ⊢
      split at h
      · exact absurd h (recvForward_not_async _ _ _ _ _ _)
      · exact recvAuth_async h

/-- a rejected message leaves the whole state untouched -/
theorem rejected_unchanged (s : St) (o : Op) (e : Err) (h : (step s o).2 = .err e) : (step s o).1 = s := by
  cases o <;> simp only [step] at h ⊢
  case ack c seq ph isErr => split at h <;> first | rfl | cases h
  case timeout c seq ph => split at h <;> first | rfl | cases h
  all_goals first
    | (unfold ofM at h ⊢; split at h <;> first | rfl | cases h)
    | cases h

-- ------------------------------------------------------------------ permissionless release

/-- **release_permissionless** — the sender of a finalize message has no influence on its outcome -/
theorem release_permissionless (s : St) (a a' : Addr) (rid : Bytes) (ph : Nat) (t : PType) (src : Bytes) (seq : Nat) :
    step s (.finalize a rid ph t src seq) = step s (.finalize a' rid ph t src seq) := rfl

theorem release_permissionless_by_key (s : St) (a a' : Addr) (b : Bytes) :
    step s (.finalizeByKey a b) = step s (.finalizeByKey a' b) := rfl

/-- once the proof height is final, a finalize request naming the pending packet succeeds, whoever sends it -/
theorem finalizable_succeeds (s : St) (hk : KeysNodup s.packets) (p : Packet) (hp : p ∈ s.packets) (hs : p.status = .pending)
    (f : Nat) (hf : finHeight s p.rollappId = some f) (hph : p.proofHeight ≤ f)
    (hr : p.rollappId ≠ []) (hc : p.srcChan ≠ []) (a : Addr) :
    ∃ s', msgFinalize s a p.rollappId p.proofHeight p.ptype p.srcChan p.seq = .ok s' := by
  unfold msgFinalize
  have e1 : (p.rollappId.isEmpty || p.srcChan.isEmpty) = false := by
    cases h1 : p.rollappId with
    | nil => exact absurd h1 hr
    | cons _ _ => cases h2 : p.srcChan with
      | nil => exact absurd h2 hc
      | cons _ _ => rfl
  simp only [e1, Bool.false_eq_true, if_false]
  have hkey : rollappPacketKey .pending p.rollappId p.proofHeight p.ptype p.srcChan p.seq = pkey p := by
    unfold pkey; rw [hs]
  rw [hkey]
  unfold finalizePacket
  rw [getPacket_of_mem hk hp]
  have hv : verifyHeightFinalized s p.rollappId p.proofHeight = .ok () := by
    unfold verifyHeightFinalized
    rw [hf]
    simp [Nat.not_lt.mpr hph]
  simp only [hv]
  unfold updateAfterFinalization
  have : ((finalizedRecord p (releaseEffect s p).2).status != Status.pending) = false := by
    rw [finalizedRecord_status, hs]; rfl
  simp only [this, Bool.false_eq_true, if_false]
  exact ⟨_, rfl⟩

-- ------------------------------------------------------------------ plain chains are never delayed

theorem chanRollapp_congr {s s0 : St} (c : Nat) (h1 : s0.chans = s.chans) (h2 : s0.ras = s.ras) :
    chanRollapp s0 c = chanRollapp s c := by
  unfold chanRollapp; rw [h1, h2]

/-- **non_rollapp_never_delayed** — on a channel whose client is not the canonical client of a
    registered rollapp a received packet is never delayed and never stored -/
theorem non_rollapp_never_delayed_recv (s : St) (c seq ph : Nat) (d : RecvData)
    (hc : chanRollapp s c = .ok none) :
    (recvPacket s c seq ph d).2 ≠ .async ∧ (recvPacket s c seq ph d).1.packets = s.packets := by
  rcases recvPacket_cases s c seq ph d with e | e <;> rw [e]
  · exact ⟨by simp, rfl⟩
  unfold recvOpen
  split
  · exact ⟨by simp, rfl⟩
  split
  · exact ⟨recvForward_not_async _ _ _ _ _ _, recvForward_packets _ _ _ _ _ _⟩
  · unfold recvAuth
    have hc' : chanRollapp { s with receipts := s.receipts ++ [(c, seq)] } c = .ok none := by
      rw [chanRollapp_congr c rfl rfl]; exact hc
    rw [hc']
    simp only [Option.isNone_none, Bool.true_or, if_true, Option.getD_none]
    split
    · exact ⟨by simp [recvFail], rfl⟩
    · split
      · exact ⟨by simp [recvFail], rfl⟩
      · refine ⟨recvPass_not_async _ _ _ _ _, ?_⟩
        unfold recvPass
        split
        · rfl
        · rename_i s1 hi
          have := (frame_icsRecv hi).packets
          simpa [writeAck, logRelease] using this

theorem non_rollapp_never_delayed_ack (s s' : St) (c seq ph : Nat) (isTimeout isErr : Bool)
    (hc : chanRollapp s c = .ok none)
    (h0 : ackPacket s c seq ph isTimeout isErr = .ok (some s')) : s'.packets = s.packets := by
  have h := ackPacket_ok h0
  unfold ackOpen at h
  split at h
  · cases h
  · split at h
    · cases h
    · rename_i x hx
      obtain ⟨rfl, rfl⟩ := getSent_some hx
      unfold ackAuth at h
      have hc' : chanRollapp { s with commits := s.commits.filter (· != (x.chan, x.seq)) } x.chan = .ok none := by
        rw [chanRollapp_congr x.chan rfl rfl]; exact hc
      rw [hc'] at h
      simp only [Option.isNone_none, Bool.true_or, if_true] at h
      unfold ackPass at h
      split at h
      · split at h
        · cases h
        · rename_i s1 hi
          cases h
          have := (frame_icsRefund hi).packets
          simpa [logRelease] using this
      · cases h; rfl

-- ------------------------------------------------------------------ finalize by key

theorem b64enc_ne_nil : ∀ (k : Bytes), k ≠ [] → b64enc k ≠ []
  | [], h => absurd rfl h
  | [_], _ => by simp [b64enc]
  | [_, _], _ => by simp [b64enc]
  | _ :: _ :: _ :: _, _ => by simp [b64enc]

/-- **finalize_by_key_roundtrip** — the base64 text of a packet key, as `EncodePacketKey` prints it,
    addresses exactly that packet (uses C19's base64 round trip; true of `DecodePacketKey` since the
    fix that stopped trimming zero bytes). -/
theorem finalize_by_key_roundtrip (s : St) (a : Addr) (k : Bytes) (hw : Bytes.WF k) (hne : k ≠ []) :
    msgFinalizeByKey s a (encodePacketKey k) = finalizePacket s k := by
  unfold msgFinalizeByKey
  have : (encodePacketKey k).isEmpty = false := by
    unfold encodePacketKey
    cases h : b64enc k with
    | nil => exact absurd h (b64enc_ne_nil k hne)
    | cons _ _ => rfl
  simp only [this, Bool.false_eq_true, if_false]
  unfold decodePacketKeyExact encodePacketKey
  rw [b64dec_enc k hw]

-- ------------------------------------------------------------------ pending packets by beneficiary address

/-- the by-address index is exact: it lists every pending packet under its current beneficiary and
    nothing else -/
def IdxOk (s : St) : Prop :=
  (∀ p ∈ s.packets, p.status = .pending → (p.target, pkey p) ∈ s.byAddr) ∧
  (∀ e ∈ s.byAddr, ∃ p ∈ s.packets, pkey p = e.2 ∧ p.status = .pending ∧ p.target = e.1)

/- **pending_retrievable (by beneficiary address)** — was false before the fix of
   `RestoreOriginalTransferTarget` (it rewrote the transfer data through the shared `*Packet` pointer, so
   `UpdateRollappPacketAfterFinalization` / `DeleteRollappPacket` removed the ORIGINAL recipient's index
   entry and left the fulfiller's behind, pointing to a deleted key).  The former counterexample is kept
   below as an `example` of the repaired behaviour. -/

def cexChans : List Chan := [{ hubId := [99, 48], cpId := [99, 55], rollapp := some 0, canonical := true }]
def cexInit : St := initSt 3 1000 ⟨0⟩ ⟨0⟩ ⟨0⟩ [114] [115] cexChans
def cexRecv (a : Addr) : RecvData := { dref := .foreign, amount := 100, target := some a, memo := .none }
/-- two transfers arrive (to a1 and to a2), a2 fulfils a1's order, the height becomes final and
    anyone finalizes the first packet -/
def cexOps : List Op :=
  [ .recv 0 1 5 (cexRecv 1), .recv 0 2 6 (cexRecv 2), .fulfill 2 (rollappPacketKey .pending [114] 5 .onRecv [99, 55] 1) 0,
    .addState [114] 10, .finalizeState [114], .finalize 0 [114] 5 .onRecv [99, 55] 1 ]

/-- the history that used to leave a dangling entry for the fulfiller a2: its other pending packet is
    still returned by the by-address query, and the finalized packet keeps naming the fulfiller -/
example : pendingByAddr (run cexInit cexOps) 2 = some ((run cexInit cexOps).packets.filter (·.status == .pending)) ∧
    ((run cexInit cexOps).packets.map (fun p => (p.status, p.target, p.orig))) = [(.pending, 2, none), (.finalized, 2, some 1)] ∧
    (run cexInit cexOps).byAddr.length = 1 := by decide

/-- `List.mapM` in `Option`: succeeds when every element does, and returns exactly the images -/
theorem mapM_option {α β : Type} (f : α → Option β) : ∀ (l : List α), (∀ x ∈ l, ∃ y, f x = some y) →
    ∃ r, l.mapM f = some r ∧ ∀ y, y ∈ r ↔ ∃ x ∈ l, f x = some y
  | [], _ => ⟨[], by simp, by simp⟩
  | a :: t, h => by
    obtain ⟨b, hb⟩ := h a List.mem_cons_self
    obtain ⟨r, hr, hm⟩ := mapM_option f t (fun x hx => h x (List.mem_cons_of_mem _ hx))
    refine ⟨b :: r, by simp [List.mapM_cons, hb, hr], ?_⟩
    intro y
    simp only [List.mem_cons, hm]
    constructor
    · rintro (rfl | ⟨x, hx, hy⟩)
      · exact ⟨a, Or.inl rfl, hb⟩
      · exact ⟨x, Or.inr hx, hy⟩
    · rintro ⟨x, (rfl | hx), hy⟩
      · left; rw [hb] at hy; exact (Option.some.inj hy).symm
      · exact Or.inr ⟨x, hx, hy⟩

/-- with an exact index the by-address query returns exactly the address's pending packets -/
theorem pendingByAddr_exact {s : St} (hk : KeysNodup s.packets) (h : IdxOk s) (a : Addr) :
    ∃ l, pendingByAddr s a = some l ∧ ∀ p, p ∈ l ↔ (p ∈ s.packets ∧ p.status = .pending ∧ p.target = a) := by
  obtain ⟨fwd, bwd⟩ := h
  unfold pendingByAddr
  obtain ⟨r, hr, hm⟩ := mapM_option (fun e => getPacket s e.2) (s.byAddr.filter (·.1 == a)) (by
    intro e he
    obtain ⟨q, hq, h1, _, _⟩ := bwd e (List.mem_filter.mp he).1
    exact ⟨q, h1 ▸ getPacket_of_mem hk hq⟩)
  refine ⟨r, hr, fun p => ?_⟩
  rw [hm]
  constructor
  · rintro ⟨e, he, hp⟩
    obtain ⟨he1, he2⟩ := List.mem_filter.mp he
    obtain ⟨q, hq, h1, h2, h3⟩ := bwd e he1
    have : getPacket s e.2 = some q := h1 ▸ getPacket_of_mem hk hq
    rw [this] at hp
    cases hp
    exact ⟨hq, h2, by rw [h3]; simpa using he2⟩
  · rintro ⟨hp, hs, ht⟩
    exact ⟨(p.target, pkey p), List.mem_filter.mpr ⟨fwd p hp hs, by simp [ht]⟩, getPacket_of_mem hk hp⟩

/-- **pending_retrievable (by beneficiary address)** — in every history (uint64 heights and
    sequences; channel table well formed, ids without '/': the hypotheses of C19's key injectivity)
    the index is exact and the by-address query returns exactly the address's pending packets, where
    the beneficiary of a fulfilled packet is the fulfiller / LP. -/
theorem pending_retrievable_by_address (s0 : St) (h4 : Inv04 s0) (hi : IdxInv s0) (ops : List Op)
    (hp : ∀ o ∈ ops, BoundedOp o) :
    IdxOk (run s0 ops) ∧
    ∀ a, ∃ l, pendingByAddr (run s0 ops) a = some l ∧
      ∀ p, p ∈ l ↔ (p ∈ (run s0 ops).packets ∧ p.status = .pending ∧ p.target = a) := by
  have h := idx_run ops hp h4 hi
  have hk := InvF.keys (inv_run ops h4)
  exact ⟨⟨h.fwd, h.bwd⟩, fun a => pendingByAddr_exact hk ⟨h.fwd, h.bwd⟩ a⟩

/-- the initial state of a run satisfies the index invariant when its channel table is well formed -/
theorem idx_init (n : Nat) (fund : Int) (a b c : Dec) (r0 r1 : Bytes) (ch : List Chan)
    (hc : CfgOk (initSt n fund a b c r0 r1 ch)) : IdxInv (initSt n fund a b c r0 r1 ch) where
  cfg := hc
  pk := by intro q hq; cases hq
  fwd := by intro q hq; cases hq
  bwd := by intro e he; cases he

/-- finalizing a packet removes exactly the index entry of its current beneficiary -/
theorem finalize_removes_own_index_entry (s s' : St) (k : Bytes) (p : Packet)
    (hp : getPacket s k = some p) (hf : finalizePacket s k = .ok s') :
    s'.byAddr = s.byAddr.filter (fun e => !(e.1 == p.target && e.2 == pkey p)) := by
  unfold finalizePacket at hf
  rw [hp] at hf
  simp only at hf
  split at hf
  · cases hf
  · unfold updateAfterFinalization at hf
    split at hf
    · cases hf
    · cases hf
      rw [(frame_afterPacketStatusUpdated _ _ _ _).byAddr]
      show (delByAddr (logRelease (releaseEffect s p).1 p (some p.rollappId) true) p.target (pkey p)).byAddr = _
      simp only [delByAddr, logRelease]
      rw [(frame_releaseEffect s p).byAddr]

-- ================================================================== finalization when the ack cannot be written

theorem closed_sendCoins {s s' : St} {a b d v} (h : sendCoins s a b d v = some s') : s'.closed = s.closed ∧ s'.acks = s.acks := by
  unfold sendCoins at h
  split at h
  · cases h; exact ⟨rfl, rfl⟩
  · split at h
    · cases h
    · cases h; exact ⟨rfl, rfl⟩

theorem closed_recvRelease (s : St) (p : Packet) : (recvRelease s p).1.closed = s.closed ∧ (recvRelease s p).1.acks = s.acks := by
  unfold recvRelease
  split
  · rename_i s1 hi
    unfold icsRecv at hi
    split at hi
    · cases hi
    · split at hi
      · cases hi
      · rename_i s2 hc
        cases hi
        have h2 : s2.closed = s.closed ∧ s2.acks = s.acks := by
          unfold icsCredit at hc
          split at hc
          · exact closed_sendCoins hc
          · cases hc; exact ⟨rfl, rfl⟩
        simp only [if_true]
        unfold chargeBridgingFee
        split
        · exact h2
        · split
          · exact h2
          · exact h2
  · exact ⟨rfl, rfl⟩

/-- **finalize_when_ack_cannot_be_written** — what `finalizeRollappPacket` does for a received packet
    whose channel end is CLOSED (`WriteAcknowledgement` fails although the capability resolves):
    `ibc.OnRecvPacket` has already run for real, so the funds are released exactly as in the normal
    case (credit minus bridging fee if the transfer succeeds, nothing if it fails); NO acknowledgement
    is written; the failure is recorded in the packet's `Error`; and the packet is finalized all the
    same — status FINALIZED under its finalized key, its index entry removed, its release logged, so it
    can never be finalized (and acknowledged) later. -/
theorem finalize_when_ack_cannot_be_written (s s' : St) (k : Bytes) (p : Packet)
    (hp : getPacket s k = some p) (ht : p.ptype = .onRecv) (hc : isClosed s p.chan = true)
    (hf : finalizePacket s k = .ok s') :
    s'.acks = s.acks ∧ s'.bal = (recvRelease s p).1.bal ∧
    getPacket s' (pkey (flipped p)) = some (flipped { p with perr := some .ackClosed }) ∧
    s'.byAddr = s.byAddr.filter (fun e => !(e.1 == p.target && e.2 == pkey p)) ∧
    s'.log = s.log ++ [logEntry (recvRelease s p).1 p (some p.rollappId) true] := by
  have hidx := finalize_removes_own_index_entry s s' k p hp hf
  have hre : releaseEffect s p = ((recvRelease s p).1, some PErr.ackClosed) := by
    unfold releaseEffect
    rw [ht]
    simp only
    unfold writeRecvAck isClosed
    rw [(closed_recvRelease s p).1]
    unfold isClosed at hc
    rw [hc]; rfl
  unfold finalizePacket at hf
  rw [hp] at hf
  simp only at hf
  split at hf
  · cases hf
  · unfold updateAfterFinalization at hf
    split at hf
    · cases hf
    · cases hf
      rw [hre] at hidx ⊢
      refine ⟨?_, ?_, ?_, hidx, ?_⟩
      · rw [show ∀ x a b st, (afterPacketStatusUpdated x a b st).acks = x.acks from fun x a b st => by
          unfold afterPacketStatusUpdated; split <;> rfl]
        exact (closed_recvRelease s p).2
      · rw [show ∀ x a b st, (afterPacketStatusUpdated x a b st).bal = x.bal from fun x a b st => by
          unfold afterPacketStatusUpdated; split <;> rfl]
        rfl
      · have e : ∀ (x y : St) (kk : Bytes), y.packets = x.packets → getPacket y kk = getPacket x kk := by
          intro x y kk hxy; unfold getPacket; rw [hxy]
        rw [e _ _ _ (frame_afterPacketStatusUpdated _ _ _ _).packets]
        exact getPacket_setPacket_self _ (flipped (finalizedRecord p (some PErr.ackClosed)))
      · rw [(frame_afterPacketStatusUpdated _ _ _ _).log]
        show (recvRelease s p).1.log ++ [logEntry (recvRelease s p).1 p (some p.rollappId) true] = _
        rw [(frame_recvRelease s p).log]

-- ================================================================== C03 over M-Packets: the hard-fork hook
-- (delayedack `OnHardFork(rollapp, lastValid)` = `onHardFork s rid lv`; the clauses of C03 that concern packets)

/-- the fork range in terms of the packet's fields (C19's `range_from_height_exact`): pending, this
    rollapp, proof height in `[lv+1, 2^64-1)` — the single height 2^64-1 is out of the range's reach -/
theorem forkRange_fields (rid : Bytes) (lv : Nat) (p : Packet) (hr : sep ∉ rid) (hr' : sep ∉ p.rollappId)
    (hlv : lv + 1 < 2 ^ 64) (hph : p.proofHeight < 2 ^ 64) :
    forkRange rid lv (pkey p) = true ↔
      p.status = .pending ∧ p.rollappId = rid ∧ lv + 1 ≤ p.proofHeight ∧ p.proofHeight < 2 ^ 64 - 1 := by
  unfold forkRange pkey
  rw [Nat.mod_eq_of_lt hlv]
  exact C19.range_from_height_exact p.status rid p.rollappId (lv + 1) p.proofHeight p.ptype p.srcChan p.seq hr hr' hlv hph

/-- **fork_removes_above** — after the hook no stored packet lies in the fork range … -/
theorem fork_removes_range (s : St) (rid : Bytes) (lv : Nat) :
    ∀ p ∈ (onHardFork s rid lv).packets, forkRange rid lv (pkey p) = false := by
  intro p hp
  rw [onHardFork_eq, foldl_revert_packets] at hp
  obtain ⟨hmem, hall⟩ := List.mem_filter.mp hp
  cases hf : forkRange rid lv (pkey p) with
  | false => rfl
  | true =>
    have hv : p ∈ forkVictims s rid lv := List.mem_filter.mpr ⟨hmem, hf⟩
    have := List.all_eq_true.mp hall p hv
    simp at this

/-- … i.e. no pending packet of that rollapp with a proof height above `lv` (up to the documented
    edge 2^64-1) is left -/
theorem fork_removes_above_height (s : St) (rid : Bytes) (lv : Nat) (hr : sep ∉ rid) (hlv : lv + 1 < 2 ^ 64) :
    ∀ p ∈ (onHardFork s rid lv).packets, sep ∉ p.rollappId → p.proofHeight < 2 ^ 64 →
      ¬ (p.status = .pending ∧ p.rollappId = rid ∧ lv < p.proofHeight ∧ p.proofHeight < 2 ^ 64 - 1) := by
  intro p hp hs hph hcon
  have := fork_removes_range s rid lv p hp
  rw [(forkRange_fields rid lv p hr hs hlv hph).mpr ⟨hcon.1, hcon.2.1, hcon.2.2.1, hcon.2.2.2⟩] at this
  cases this

/-- **fork_keeps_others** — packets outside the range (finalized, other rollapps, proof height at or
    below `lv`) are untouched -/
theorem fork_keeps_others (s : St) (rid : Bytes) (lv : Nat) :
    ∀ q ∈ s.packets, forkRange rid lv (pkey q) = false → q ∈ (onHardFork s rid lv).packets := by
  intro q hq hf
  rw [onHardFork_eq, foldl_revert_packets]
  refine List.mem_filter.mpr ⟨hq, List.all_eq_true.mpr ?_⟩
  intro p hp
  have hpf := (List.mem_filter.mp hp).2
  simp only [bne_iff_ne, ne_eq]
  intro hk
  rw [hk, hpf] at hf
  cases hf

theorem fork_keeps_at_or_below (s : St) (rid : Bytes) (lv : Nat) (hr : sep ∉ rid) (hlv : lv + 1 < 2 ^ 64) :
    ∀ q ∈ s.packets, sep ∉ q.rollappId → q.proofHeight < 2 ^ 64 →
      (q.status = .finalized ∨ q.rollappId ≠ rid ∨ q.proofHeight ≤ lv) → q ∈ (onHardFork s rid lv).packets := by
  intro q hq hs hph hc
  apply fork_keeps_others s rid lv q hq
  cases hf : forkRange rid lv (pkey q) with
  | false => rfl
  | true =>
    obtain ⟨h1, h2, h3, _⟩ := (forkRange_fields rid lv q hr hs hlv hph).mp hf
    rcases hc with h | h | h
    · rw [h1] at h; cases h
    · exact absurd h2 h
    · omega

/-- **fork_clears_receipts** — every reverted received packet has no receipt afterwards (it can be delivered again) -/
theorem fork_clears_receipts (s : St) (rid : Bytes) (lv : Nat) :
    ∀ p ∈ forkVictims s rid lv, (p.ptype == .onRecv) = true → (p.chan, p.seq) ∉ (onHardFork s rid lv).receipts := by
  intro p hp hr hm
  rw [onHardFork_eq, foldl_revert_receipts] at hm
  have := List.all_eq_true.mp (List.mem_filter.mp hm).2 p hp
  simp [hr] at this

/-- **fork_restores_commitments** — every reverted acknowledgement / timeout packet has its commitment
    back, and it is the commitment of the packet with the ORIGINAL transfer target (the fulfiller, if
    any, is not what the rollapp will acknowledge) -/
theorem fork_restores_commitments (s : St) (rid : Bytes) (lv : Nat) :
    ∀ p ∈ forkVictims s rid lv, (p.ptype == .onRecv) = false →
      (p.chan, p.seq) ∈ (onHardFork s rid lv).commits ∧
      ((p.chan, p.seq), p.orig.getD p.target) ∈ (onHardFork s rid lv).restored := by
  intro p hp hr
  have := foldl_revert_restores (forkVictims s rid lv) s p hp hr
  rw [onHardFork_eq]
  refine ⟨this.1, ?_⟩
  have e : (restoreTarget p).target = p.orig.getD p.target := by
    unfold restoreTarget; cases p.orig <;> rfl
  rw [← e]; exact this.2

/-- **fork_removes_orders** — the demand orders of the reverted packets go with them, all others stay -/
theorem fork_removes_orders (s : St) (rid : Bytes) (lv : Nat) :
    (∀ p ∈ forkVictims s rid lv, ∀ o ∈ (onHardFork s rid lv).orders, o.id ≠ pendKeyOf p) ∧
    (∀ o ∈ s.orders, (∀ p ∈ forkVictims s rid lv, o.id ≠ pendKeyOf p) → o ∈ (onHardFork s rid lv).orders) :=
  ⟨fun p hp o ho => foldl_revert_orders_gone _ s p hp o ho, fun o ho hn => foldl_revert_orders_keep _ s o ho hn⟩

/-- **fork_no_order_without_packet** — the hook preserves both invariants: afterwards every order
    still refers to a stored packet of its status, the index is exact, nothing reverted counts as released -/
theorem fork_preserves_invariants (s : St) (rid : Bytes) (lv : Nat) (h : Inv s) (hi : IdxInv s) :
    Inv (onHardFork s rid lv) ∧ IdxInv (onHardFork s rid lv) := by
  have hv : ∀ p ∈ forkVictims s rid lv, p ∈ s.packets ∧ p.status = .pending := by
    intro p hp
    have := List.mem_filter.mp hp
    exact ⟨this.1, forkRange_pending this.2⟩
  have hpw : (forkVictims s rid lv).Pairwise (fun a b => pkey a ≠ pkey b) := List.Pairwise.filter _ (InvF.keys h.1)
  exact ⟨⟨inv_onHardFork rid lv h.1, inv05_foldl_revertPacket _ h.2⟩, idx_foldl_revert _ h.1 hi hv hpw⟩

-- ------------------------------------------------------------------ non-vacuity

/-- a history with a delayed packet, a premature and a valid finalization, and an immediate release -/
def demoOps : List Op :=
  [ .addState [114] 4, .finalizeState [114],
    .recv 0 1 3 (cexRecv 1),                          -- proof height 3 <= 4: released at once
    .recv 0 2 7 (cexRecv 2),                          -- delayed
    .finalize 9 [114] 7 .onRecv [99, 55] 2,           -- premature: rejected
    .addState [114] 6, .finalizeState [114],
    .finalize 9 [114] 7 .onRecv [99, 55] 2,           -- released
    .finalize 9 [114] 7 .onRecv [99, 55] 2 ]          -- repeated: rejected

example : (run cexInit demoOps).log.map LogE.uid = [(true, 0, 1), (true, 0, 2)] := by decide
example : (run cexInit demoOps).log.map (fun e => (e.proofHeight, e.finAt)) = [(3, some 4), (7, some 10)] := by decide
example : (step (run cexInit (demoOps.take 4)) (.finalize 9 [114] 7 .onRecv [99, 55] 2)).2 = .err .notFinal := by decide
example : (step (run cexInit (demoOps.take 8)) (.finalize 9 [114] 7 .onRecv [99, 55] 2)).2 = .err .notFound := by decide
example : (recvPacket (run cexInit (demoOps.take 3)) 0 2 7 (cexRecv 2)).2 = .async := by decide
example : getBal (run cexInit demoOps).bal 2 1 = 1100 := by decide
example : ((run cexInit (demoOps.take 4)).packets.map (fun p => (p.status, p.target))) = [(.pending, 2)] := by decide
example : pendingByAddr (run cexInit (demoOps.take 4)) 2 = some (run cexInit (demoOps.take 4)).packets := by decide
example : ∀ o ∈ demoOps, BoundedOp o := by
  intro o ho
  simp only [demoOps, List.mem_cons, List.mem_nil_iff, or_false] at ho
  rcases ho with rfl | rfl | rfl | rfl | rfl | rfl | rfl | rfl | rfl <;> simp [BoundedOp]
example : ∀ o ∈ cexOps, BoundedOp o := by
  intro o ho
  simp only [cexOps, List.mem_cons, List.mem_nil_iff, or_false] at ho
  rcases ho with rfl | rfl | rfl | rfl | rfl | rfl <;> simp [BoundedOp]
/-- the demo's channel table is well formed, so the theorem applies to its histories -/
example : CfgOk cexInit where
  raSep := by decide
  chSep := by decide
  raNe := by decide
  chNe := by decide
  canon := by
    intro i j rid hi hj
    have one : ∀ k rid, chanRollapp cexInit k = .ok (some rid) → k = 0 := by
      intro k rid hk
      cases k with
      | zero => rfl
      | succ n =>
        have : cexInit.chans[n + 1]? = none := by simp [cexInit, initSt, cexChans]
        simp [chanRollapp, this] at hk
    rw [one i rid hi, one j rid hj]
example : (match chanRollapp { cexInit with chans := cexChans ++ [{ hubId := [1], cpId := [2], rollapp := none, canonical := false }] } 1 with
    | .ok none => true | _ => false) = true := by decide
example : (step (run cexInit (demoOps.take 7)) (.finalizeByKey 9 (encodePacketKey (rollappPacketKey .pending [114] 7 .onRecv [99, 55] 2)))).2 = .ok ∧
    (step (run cexInit (demoOps.take 7)) (.finalizeByKey 9 (encodePacketKey (rollappPacketKey .pending [114] 7 .onRecv [99, 55] 2)))).1.log.length = 2 := by decide

/-- a fork history: two delayed receives (heights 3 and 7) and a sent packet timing out at height 8;
    a2 fulfils the timeout order; fork at 5 reverts the two packets above 5 -/
def forkInit : St := initSt 3 1000 ⟨0⟩ ⟨100000000000000000⟩ ⟨0⟩ [114] [115] cexChans
def forkOps : List Op :=
  [ .addState [114] 10,
    .recv 0 1 3 (cexRecv 1), .recv 0 2 7 (cexRecv 2),
    .send 1 0 0 500, .timeout 0 1 8,
    .fulfill 2 (rollappPacketKey .pending [114] 8 .onTimeout [99, 48] 1) 50 ]

example : ((run forkInit forkOps).packets.map (fun p => (p.proofHeight, p.target, p.orig))) = [(3, 1, none), (7, 2, none), (8, 2, some 1)] := by decide
example : ((onHardFork (run forkInit forkOps) [114] 5).packets.map (·.proofHeight)) = [3] := by decide
example : (onHardFork (run forkInit forkOps) [114] 5).receipts = [(0, 1)] ∧ (onHardFork (run forkInit forkOps) [114] 5).commits = [(0, 1)] := by decide
/-- the restored commitment is the one of the original sender a1, not of the fulfiller a2 -/
example : (onHardFork (run forkInit forkOps) [114] 5).restored = [((0, 1), 1)] := by decide
example : (onHardFork (run forkInit forkOps) [114] 5).byAddr.map (·.1) = [1] ∧ (onHardFork (run forkInit forkOps) [114] 5).orders.length = 1 := by decide
example : (step (run forkInit forkOps) (.fork [114] 5)).2 = .ok := by decide

/-- the closed-channel history: a delayed transfer becomes final, the channel end is closed, anyone
    finalizes — the receiver is paid, no acknowledgement exists, the packet records the failure; opening
    the channel again does not bring the acknowledgement back -/
def closeOps : List Op :=
  [ .recv 0 1 5 (cexRecv 1), .addState [114] 10, .finalizeState [114], .chanClose 0,
    .finalize 2 [114] 5 .onRecv [99, 55] 1, .chanOpen 0, .finalize 2 [114] 5 .onRecv [99, 55] 1 ]

example : getBal (run cexInit closeOps).bal 1 1 = 1100 ∧ (run cexInit closeOps).acks = [] ∧
    ((run cexInit closeOps).packets.map (fun p => (p.status, p.perr))) = [(.finalized, some .ackClosed)] ∧
    (run cexInit closeOps).byAddr = [] ∧ (run cexInit closeOps).log.length = 1 := by decide
example : (step (run cexInit (closeOps.take 6)) (.finalize 2 [114] 5 .onRecv [99, 55] 1)).2 = .err .notFound := by decide
example : (step (run cexInit (closeOps.take 4)) (.recv 0 2 6 (cexRecv 1))).2 = .recv .closed ∧
    (step (run cexInit (closeOps.take 4)) (.send 1 0 0 5)).2 = .err .chanClosed ∧
    (step (run cexInit (closeOps.take 4)) (.ack 0 1 3 true)).2 = .err .chanClosed ∧
    (step (run cexInit (closeOps.take 4)) (.timeout 0 1 3)).2 = .replay := by decide

end DymVerif.C04
