/-
  Props/C02X — C02 (finalization only after the dispute period, in order, irreversible, unstarved):
  the frame of the rollapp `EndBlock`, exported as a property theorem.  An `end_` op — with any
  failure oracle — changes nothing of a rollapp but the finalization flags of its states (with the
  ghost finalization height), the latest finalized index and the liveness event height.
  Theorems over M-Core for every parameter value and every operation sequence (`run p ops`).
-/
import DymVerif.Props.C02
import DymVerif.Lemmas.CoreXFrame
namespace DymVerif.C02X
open DymVerif DymVerif.Core DymVerif.Core.XUpd

/-- **`EndBlock` frame.**  For every reachable state `run p ops` and every failure oracle `f`, after
    `end_ f`:
      * the rollapp ids are the same, in the same order (no rollapp created or removed);
      * every rollapp record `r` survives as a record `r'` with the same number of states;
      * every state of `r'` is either identical to the state at the same position of `r` — all
        fields, `next` included — or that state was unfinalized and the new one is
        `{ st with finalized := true, finalizedAt := block height }`: nothing else of a state changes;
      * the latest finalized index does not decrease and stays within the states;
      * owner, minimum bond, launched flag, revisions, `TransferProofHeight`, liveness countdown start,
        proposer and successor are unchanged (`EndBlock` — finalization and the liveness slashing —
        never replaces a proposer and never forks; of the record it writes only the states'
        finalization data, `lastFin` and the liveness event height `evH`). -/
theorem end_block_frame (p : Params) (ops : List Op) (f : List (Nat × Nat)) :
    (run p (ops ++ [.end_ f])).ras.map (·.id) = (run p ops).ras.map (·.id) ∧
    ∀ id r, getRa (run p ops) id = some r →
      ∃ r', getRa (run p (ops ++ [.end_ f])) id = some r' ∧
        r'.states.length = r.states.length ∧
        (∀ (i : Nat) (st : SInfo), r.states[i]? = some st → ∃ st', r'.states[i]? = some st' ∧
          (st' = st ∨ (st.finalized = false ∧ st' = { st with finalized := true, finalizedAt := (run p ops).h }))) ∧
        r.lastFin ≤ r'.lastFin ∧ r'.lastFin ≤ r'.states.length ∧
        r'.owner = r.owner ∧ r'.minBond = r.minBond ∧ r'.launched = r.launched ∧ r'.revs = r.revs ∧
        r'.tph = r.tph ∧ r'.cdStart = r.cdStart ∧ r'.proposer = r.proposer ∧ r'.successor = r.successor := by
  have hrun : run p (ops ++ [.end_ f]) = endBlock (run p ops) f := by
    rw [run_append]; rfl
  rw [hrun]
  constructor
  · exact endBlock_ids_eq f (run_chain p ops) (run_fin p ops)
  · intro id r hg
    obtain ⟨r', h1, h2, h3, h4, h5, h6⟩ := endBlock_rec f (run_fin p ops) hg
    obtain ⟨_, k2, k3, k4, k5, k6, k7, k8, k9⟩ := endKey_fields h6
    exact ⟨r', h1, h2, h3, h4, h5, k2, k3, k4, k5, k6, k7, k8, k9⟩

/-- corollary, backward reading: no state appears, disappears or moves at an `end_` op, and a state
    that is unfinalized afterwards is bit-for-bit the state before -/
theorem end_block_pending_untouched (p : Params) (ops : List Op) (f : List (Nat × Nat)) (id : Nat) (r r' : Rollapp)
    (hg : getRa (run p ops) id = some r) (hg' : getRa (run p (ops ++ [.end_ f])) id = some r')
    (i : Nat) (st' : SInfo) (hst' : r'.states[i]? = some st') (hnf : st'.finalized = false) :
    r.states[i]? = some st' := by
  obtain ⟨r2, h1, hlen, hst, _⟩ := (end_block_frame p ops f).2 id r hg
  rw [hg'] at h1; injection h1 with h1; subst h1
  have hlt : i < r.states.length := by rw [← hlen]; exact getElem?_lt hst'
  obtain ⟨st2, h2, hc⟩ := hst i r.states[i] (List.getElem?_eq_getElem hlt)
  rw [hst'] at h2; injection h2 with h2; subst h2
  rcases hc with hc | ⟨_, hc⟩
  · rw [hc]; exact List.getElem?_eq_getElem hlt
  · rw [hc] at hnf; cases hnf

-- ---------------------------------------------------------------- non-vacuity: concrete histories

/-- the records without the states, `lastFin` and `evH` -/
def recView (s : St) := s.ras.map fun r => (r.id, r.proposer, r.successor, r.tph, r.cdStart)
def revsView (s : St) := s.ras.map fun r => r.revs
/-- the states without their finalization data -/
def stView (s : St) := s.ras.map fun r => r.states.map fun st => (st.start, st.num, st.next)

-- the history of Props/C02 (two rollapps, three + one pending states, dispute period 2, block 3):
-- an `end_` with an injected failure finalizes part of the states and changes nothing of the frame
example : recView (run (C02.exParams 2) (C02.exOps ++ [.end_ [(0, 2)]])) = recView (run (C02.exParams 2) C02.exOps) := by decide
example : revsView (run (C02.exParams 2) (C02.exOps ++ [.end_ [(0, 2)]])) = revsView (run (C02.exParams 2) C02.exOps) := by decide
example : stView (run (C02.exParams 2) (C02.exOps ++ [.end_ [(0, 2)]])) = stView (run (C02.exParams 2) C02.exOps) := by decide
example : C02.view (run (C02.exParams 2) (C02.exOps ++ [.end_ [(0, 2)]])) ≠ C02.view (run (C02.exParams 2) C02.exOps) := by decide
-- the same through a liveness slash in the same `EndBlock` (LivenessSlashBlocks = 1: the event is due at block 3)
def exParamsL : Params := { C02.exParams 2 with lsBlocks := 1, lsInterval := 1, lsAbs := 1 }
example : recView (run exParamsL (C02.exOps ++ [.end_ []])) = recView (run exParamsL C02.exOps) := by decide
example : stView (run exParamsL (C02.exOps ++ [.end_ []])) = stView (run exParamsL C02.exOps) := by decide
example : ((run exParamsL (C02.exOps ++ [.end_ []])).seqs.map (·.tokens)) ≠ ((run exParamsL C02.exOps).seqs.map (·.tokens)) := by decide

end DymVerif.C02X
