/-
  Props/C14Chain — C14 over the whole life of a chain: histories that contain, besides the messages
  and blocks of Props/C14, **restarts** (ExportGenesis → InitGenesis → InitializeAllLocks on a fresh
  application) and **parameter changes** (MinLockDuration, LockCreationFee,
  ForceUnlockAllowedAddresses set through the params subspace).  Property theorems only; every
  statement is for all parameter values, all initial balances and all sequences of `COp`s.

  `CInv` (Lemmas/LockupChain) = `Inv` of Props/C14 + "the lock table is in id order"; `reachable_cinv`
  shows every state reachable from a fresh chain satisfies it, so `(h : CInv c)` reads "in every
  reachable state of a chain that may have been restarted and re-parameterised any number of times".
-/
import DymVerif.Props.C14
import DymVerif.Lemmas.LockupChain
import DymVerif.Lemmas.LockupChainEmbed
namespace DymVerif.C14
open DymVerif DymVerif.Lockup

/-! ## every reachable state, with restarts and parameter changes -/

theorem reachable_cinv (p : Params) (bal : Actor → Denom → Nat) (now height : Nat) (ops : List COp) :
    CInv (crun (cinit p bal now height) ops) :=
  crun_cinv ops (cinit_cinv p bal now height)

/-- `reachable_inv` of Props/C14 for histories with restarts and parameter changes -/
theorem reachable_inv_chain (p : Params) (bal : Actor → Denom → Nat) (now height : Nat) (ops : List COp) :
    Inv (crun (cinit p bal now height) ops).s :=
  (reachable_cinv p bal now height ops).inv

/-- **custody** across restarts: the module account holds, per denom, exactly the sum of the coins
    of all existing locks -/
theorem custody_inv_chain (p : Params) (bal : Actor → Denom → Nat) (now height : Nat) (ops : List COp) (d : Denom) :
    (crun (cinit p bal now height) ops).s.modBal d = lockedDenom (crun (cinit p bal now height) ops).s.locks d :=
  (reachable_inv_chain p bal now height ops).custody d

/-- **accumulation** across restarts: for every denom and every duration `k` the accumulation store —
    including the one `InitializeAllLocks` rebuilt — answers with the sum of the coins of the locks
    of that denom whose duration is at least `k` -/
theorem accumulation_inv_chain (p : Params) (bal : Actor → Denom → Nat) (now height : Nat) (ops : List COp)
    (d : Denom) (k : Nat) :
    accQuery (crun (cinit p bal now height) ops).s.acc d k =
      (lockedLonger (crun (cinit p bal now height) ops).s.locks d k : Int) :=
  (reachable_inv_chain p bal now height ops).accum d k

/-- the lock table of every reachable state is in id order (= the order of the store's lock section) -/
theorem lock_table_in_id_order (p : Params) (bal : Actor → Denom → Nat) (now height : Nat) (ops : List COp) :
    IdSorted (crun (cinit p bal now height) ops).s.locks :=
  (reachable_cinv p bal now height ops).sorted

/-- the EndBlocker cannot fail, whatever restarts and parameter changes came before -/
theorem endBlock_never_panics_chain {c : Chain} (h : CInv c) : (cstep c (.msg .endBlock)).2 = .ok 0 :=
  endBlock_never_panics c.p h.inv

/-! ## what a restart does -/

/-- **the accumulation store `InitializeAllLocks` builds** from ANY list of locks (any order, any
    number of locks sharing one (denom, duration) entry): every query = the sum over the listed locks -/
theorem initializeAllLocks_accumulates_every_lock (ls : List Lock) (d : Denom) (k : Nat) :
    accQuery (initializeAllLocks ls).2 d k = (lockedLonger ls d k : Int) :=
  initializeAllLocks_acc ls d k

/-- **a restart preserves the locks**: the lock table (ids, owners, durations, end times, coins — and
    its order), the id counter, every account's balance, the module account's balance, the clock and
    every accumulation total are unchanged by export → import -/
theorem restart_preserves_locks {c : Chain} (h : CInv c) :
    (restart c).s.locks = c.s.locks ∧ (restart c).s.lastId = c.s.lastId ∧
    (∀ a d, (restart c).s.bal a d = c.s.bal a d) ∧ (∀ d, (restart c).s.modBal d = c.s.modBal d) ∧
    (restart c).s.now = c.s.now ∧ (restart c).s.height = c.s.height ∧
    (∀ d k, accQuery (restart c).s.acc d k = accQuery c.s.acc d k) := by
  obtain ⟨h1, h2, h3, h4, h5, h6⟩ := restart_frame h
  refine ⟨h1, h2, fun a d => by rw [h3], fun d => by rw [h4], h5, h6, fun d k => ?_⟩
  rw [h.inv.accum d k]
  exact restart_acc c.s d k

/-- the exported list holds every lock exactly once; the import does not depend on its order -/
theorem restart_any_export_order {c : Chain} (h : CInv c) {l : List Lock} (hp : l.Perm c.s.locks) :
    (initializeAllLocks l).1 = c.s.locks ∧
    ∀ d k, accQuery (initializeAllLocks l).2 d k = accQuery c.s.acc d k := by
  refine ⟨storeLocks_perm h.sorted hp, fun d k => ?_⟩
  rw [initializeAllLocks_acc, h.inv.accum d k]
  exact congrArg Int.ofNat (total_perm _ hp)

/-- **this restart is C18's `importLockup ∘ exportLockup`** (Model/Genesis, Props/C18Modules): for every
    state, C18's genesis round trip of the encoded state (`embState`, any params code) yields the
    encoded lock section and the last id of `restart`, and the default params — the two models of
    x/lockup's ExportGenesis / InitGenesis are the same functions on what both represent -/
theorem restart_is_c18_import_export (params : Nat) (c : Chain) :
    (Genesis.importLockup (Genesis.exportLockup (embState params c.s))).lastLockId = (restart c).s.lastId ∧
    Genesis.exportVals (Genesis.importLockup (Genesis.exportLockup (embState params c.s))).locks =
      (restart c).s.locks.map embLock ∧
    (Genesis.importLockup (Genesis.exportLockup (embState params c.s))).params = Genesis.lockupDefaultParams := by
  have h2 := (embed_export params c.s).2
  simp only [Genesis.exportLockup] at h2 ⊢
  rw [h2]
  exact embed_import (exportGenesis c.s)

/-- the module writes `DefaultParams()` at import: minimum duration 0, the default creation fee, an
    empty force-unlock allow-list -/
theorem restart_resets_params (c : Chain) : (restart c).p = defaultParams c.p.feeDenom := rfl

/- **restart_preserves_params** (full statement — FALSE on the current code, recorded known finding
   `C18/queries/params.lockup-differs`):
     ∀ c, (restart c).p.minDur = c.p.minDur ∧ (restart c).p.fee = c.p.fee ∧ (restart c).p.allowed = c.p.allowed -/

theorem restart_preserves_params_partial (c : Chain) (hm : c.p.minDur = 0) (hf : c.p.fee = defaultLockFee)
    (ha : c.p.allowed = []) :
    (restart c).p.minDur = c.p.minDur ∧ (restart c).p.fee = c.p.fee ∧ (restart c).p.allowed = c.p.allowed := by
  rw [hm, hf, ha]; exact ⟨rfl, rfl, rfl⟩

/-- after a restart nobody can force-unlock (until the allow-list is set again) -/
theorem after_restart_nobody_force_unlocks (c : Chain) (a id : Nat) (co : Option (Denom × Nat)) :
    (cstep (restart c) (.msg (.force a id co))).1.s = (restart c).s ∧
    ∃ e, (cstep (restart c) (.msg (.force a id co))).2 = .err e :=
  force_unlock_needs_authorisation (restart c).p (restart c).s a id co (by simp [restart, defaultParams])

/-! ## one step of a chain's life: the clauses of Props/C14 -/

/-- a rejected operation changes nothing (restarts and parameter changes are never rejected) -/
theorem rejected_leaves_state_untouched_chain (c : Chain) (cop : COp) (e : Err)
    (hr : (cstep c cop).2 = .err e) : (cstep c cop).1.s = c.s ∧ (cstep c cop).1.p = c.p := by
  cases cop with
  | msg op => exact ⟨rejected_leaves_state_untouched c.p c.s op e hr, rfl⟩
  | restart => cases hr
  | setParams m f al => cases hr

/-- **coins never change hands**, restarts and parameter changes included: over any step the free
    balance plus the locked total of every account, per denom, is unchanged — except that an accepted
    `MsgLockTokens` costs its signer the lock fee *in force at that moment* -/
theorem owner_total_conserved_chain {c : Chain} (h : CInv c) (cop : COp) (a d : Nat) :
    (cstep c cop).1.s.bal a d + lockedOwner (cstep c cop).1.s.locks a d =
        c.s.bal a d + lockedOwner c.s.locks a d ∨
    (∃ d0 amt dur id, cop = .msg (.lock a d0 amt dur) ∧ (cstep c cop).2 = .ok id ∧ d = c.p.feeDenom ∧
      (cstep c cop).1.s.bal a d + lockedOwner (cstep c cop).1.s.locks a d + c.p.fee =
        c.s.bal a d + lockedOwner c.s.locks a d) := by
  cases cop with
  | msg op =>
    rcases owner_total_conserved c.p h.inv op a d with h1 | ⟨d0, amt, dur, id, rfl, h2, h3, h4⟩
    · exact Or.inl h1
    · exact Or.inr ⟨d0, amt, dur, id, rfl, h2, h3, h4⟩
  | restart =>
    obtain ⟨hl, _, hb, _⟩ := cstep_nonmsg_frame h (op := .restart) (fun o => by simp)
    left; rw [hl, hb]
  | setParams m f al => exact Or.inl rfl

/-- **exit only to the owner after the period**, restarts and parameter changes included: whatever
    one step does to an existing lock `l`, (1) its coins stay in it, or (2) its owner's partial
    begin-unlock split them, or (3) its owner, on the allow-list *in force at that moment*,
    force-unlocked it, or (4) the EndBlocker paid it out after `startedAt + duration = endTime <= now`.
    A restart and a parameter change are case (1): they do not touch any lock. -/
theorem exit_only_to_owner_after_period_chain {c : Chain} (h : CInv c) (cop : COp) {l : Lock}
    (hl : l ∈ c.s.locks) :
    (∃ l' ∈ (cstep c cop).1.s.locks, l'.id = l.id ∧ l'.owner = l.owner ∧ l'.denom = l.denom ∧
        l.amount ≤ l'.amount) ∨
    (∃ x l' n, cop = .msg (.unlock l.owner l.id (some (l.denom, x))) ∧ l' ∈ (cstep c cop).1.s.locks ∧
        n ∈ (cstep c cop).1.s.locks ∧ l'.id = l.id ∧ n.id = c.s.lastId + 1 ∧ l'.owner = l.owner ∧
        n.owner = l.owner ∧ l'.denom = l.denom ∧ n.denom = l.denom ∧ l'.amount + n.amount = l.amount) ∨
    (∃ co, cop = .msg (.force l.owner l.id co) ∧ l.owner ∈ c.p.allowed) ∨
    (cop = .msg .endBlock ∧ minHeightAutoWithdraw ≤ c.s.height ∧
      (∀ l' ∈ (cstep c cop).1.s.locks, l'.id ≠ l.id) ∧
      ∃ t0 e, l.startedAt = some t0 ∧ l.endTime = some e ∧ e = t0 + l.duration ∧ e ≤ c.s.now) := by
  cases cop with
  | msg op =>
    rcases exit_only_to_owner_after_period c.p h.inv op hl with h1 | ⟨x, l', n, rfl, h2⟩ | ⟨co, rfl, h3⟩ |
      ⟨rfl, h4⟩
    · exact Or.inl h1
    · exact Or.inr (Or.inl ⟨x, l', n, rfl, h2⟩)
    · exact Or.inr (Or.inr (Or.inl ⟨co, rfl, h3⟩))
    · exact Or.inr (Or.inr (Or.inr ⟨rfl, h4⟩))
  | restart =>
    obtain ⟨hlk, _⟩ := cstep_nonmsg_frame h (op := .restart) (fun o => by simp)
    exact Or.inl ⟨l, by rw [hlk]; exact hl, rfl, rfl, rfl, Nat.le_refl _⟩
  | setParams m f al => exact Or.inl ⟨l, hl, rfl, rfl, rfl, Nat.le_refl _⟩

/-- locks appear only through their owner; a restart and a parameter change create none -/
theorem locks_appear_only_by_owner_chain {c : Chain} (h : CInv c) (cop : COp) {l' : Lock}
    (hl' : l' ∈ (cstep c cop).1.s.locks) :
    (∃ l ∈ c.s.locks, l.id = l'.id) ∨
    (l'.id = c.s.lastId + 1 ∧
      ((∃ amt, cop = .msg (.lock l'.owner l'.denom amt l'.duration) ∧ l'.endTime = none ∧
          l'.startedAt = none ∧ l'.amount = amt) ∨
       (∃ id x, cop = .msg (.unlock l'.owner id (some (l'.denom, x))) ∧
          l'.endTime = some (c.s.now + l'.duration) ∧ l'.startedAt = some c.s.now ∧ l'.amount = x))) := by
  cases cop with
  | msg op =>
    rcases locks_appear_only_by_owner c.p h.inv op hl' with h1 | ⟨hid, hc⟩
    · exact Or.inl h1
    · refine Or.inr ⟨hid, ?_⟩
      rcases hc with ⟨amt, rfl, a1, a2, a3, _⟩ | ⟨id, x, rfl, b1, b2, b3, _⟩
      · exact Or.inl ⟨amt, rfl, a1, a2, a3⟩
      · exact Or.inr ⟨id, x, rfl, b1, b2, b3⟩
  | restart =>
    obtain ⟨hlk, _⟩ := cstep_nonmsg_frame h (op := .restart) (fun o => by simp)
    rw [hlk] at hl'
    exact Or.inl ⟨l', hl', rfl⟩
  | setParams m f al => exact Or.inl ⟨l', hl', rfl⟩

/-- the unlock clock is started only by the owner — never by a restart or a parameter change: a lock
    whose unlocking started at `t0` either already carried that start time, or `t0` is the current
    block time and the step is a begin-unlock signed by the lock's owner (end time = now + duration) -/
theorem unlock_started_only_by_owner_chain {c : Chain} (h : CInv c) (cop : COp) {l' : Lock}
    (hl' : l' ∈ (cstep c cop).1.s.locks) {t0 : Nat} (hs : l'.startedAt = some t0) :
    (∃ l ∈ c.s.locks, l.id = l'.id ∧ l.startedAt = some t0) ∨
    (t0 = c.s.now ∧ l'.endTime = some (c.s.now + l'.duration) ∧ ∃ id co, cop = .msg (.unlock l'.owner id co)) := by
  cases cop with
  | msg op =>
    rcases unlock_started_only_by_owner c.p h.inv op hl' hs with h1 | ⟨h2, h3, id, co, rfl⟩
    · exact Or.inl h1
    · exact Or.inr ⟨h2, h3, id, co, rfl⟩
  | restart =>
    obtain ⟨hlk, _⟩ := cstep_nonmsg_frame h (op := .restart) (fun o => by simp)
    rw [hlk] at hl'
    exact Or.inl ⟨l', hl', rfl, hs⟩
  | setParams m f al => exact Or.inl ⟨l', hl', rfl, hs⟩

/-- **durations only grow** (one step of a chain's life): a lock keeps its owner and denom, its
    duration never shrinks and changes only by its owner's `MsgExtendLockup`; an unlocking lock's end
    time and duration are frozen — across restarts, and whatever the minimum duration is changed to -/
theorem duration_monotone_chain {c : Chain} (h : CInv c) (cop : COp) {l l' : Lock}
    (hl : l ∈ c.s.locks) (hl' : l' ∈ (cstep c cop).1.s.locks) (hid : l'.id = l.id) :
    l'.owner = l.owner ∧ l'.denom = l.denom ∧ l.duration ≤ l'.duration ∧
    (l.duration < l'.duration → cop = .msg (.extend l.owner l.id l'.duration) ∧ l.endTime = none) ∧
    (∀ e, l.endTime = some e → l'.endTime = some e ∧ l'.duration = l.duration) := by
  have same : l' ∈ c.s.locks →
      l'.owner = l.owner ∧ l'.denom = l.denom ∧ l.duration ≤ l'.duration ∧
      (l.duration < l'.duration → cop = .msg (.extend l.owner l.id l'.duration) ∧ l.endTime = none) ∧
      (∀ e, l.endTime = some e → l'.endTime = some e ∧ l'.duration = l.duration) := fun hm => by
    have := eq_of_id_eq h.inv.nodup hm hl hid
    subst this
    exact ⟨rfl, rfl, Nat.le_refl _, fun hh => absurd hh (Nat.lt_irrefl _), fun e he => ⟨he, rfl⟩⟩
  cases cop with
  | msg op =>
    obtain ⟨a1, a2, a3, a4, a5⟩ := duration_monotone c.p h.inv op hl hl' hid
    exact ⟨a1, a2, a3, fun hh => ⟨by rw [(a4 hh).1], (a4 hh).2⟩, a5⟩
  | restart =>
    obtain ⟨hlk, _⟩ := cstep_nonmsg_frame h (op := .restart) (fun o => by simp)
    rw [hlk] at hl'
    exact same hl'
  | setParams m f al => exact same hl'

theorem lastId_mono_chain {c : Chain} (h : CInv c) (cop : COp) : c.s.lastId ≤ (cstep c cop).1.s.lastId := by
  cases cop with
  | msg op => exact lastId_mono c.p h.inv op
  | restart => exact Nat.le_refl _
  | setParams m f al => exact Nat.le_refl _

/-- ids are never reused, not even after a restart: an id at or below the counter that names no
    lock stays unused -/
theorem id_stays_gone_chain : ∀ (ops : List COp) {c : Chain}, CInv c → ∀ id, id ≤ c.s.lastId →
    (∀ x ∈ c.s.locks, x.id ≠ id) → ∀ x ∈ (crun c ops).s.locks, x.id ≠ id
  | [], _, _, _, _, hgone => hgone
  | op :: ops, c, h, id, hle, hgone => by
    apply id_stays_gone_chain ops (cstep_cinv h op) id (Nat.le_trans hle (lastId_mono_chain h op))
    intro x hx hxid
    rcases locks_appear_only_by_owner_chain h op hx with ⟨l, hl, hlid⟩ | ⟨hnew, _⟩
    · exact hgone l hl (by rw [hlid, hxid])
    · omega

/-- **durations only grow** (any history with restarts and parameter changes): a lock that still
    exists has its original owner and denom and a duration at least as long as before -/
theorem duration_monotone_crun : ∀ (ops : List COp) {c : Chain}, CInv c → ∀ {l l' : Lock},
    l ∈ c.s.locks → l' ∈ (crun c ops).s.locks → l'.id = l.id →
    l'.owner = l.owner ∧ l'.denom = l.denom ∧ l.duration ≤ l'.duration
  | [], c, h, l, l', hl, hl', hid => by
    have := eq_of_id_eq h.inv.nodup hl' hl hid
    subst this
    exact ⟨rfl, rfl, Nat.le_refl _⟩
  | op :: ops, c, h, l, l', hl, hl', hid => by
    have hinv1 := cstep_cinv h op
    by_cases hex : ∃ l1 ∈ (cstep c op).1.s.locks, l1.id = l.id
    · obtain ⟨l1, hl1, hid1⟩ := hex
      obtain ⟨a1, a2, a3, _⟩ := duration_monotone_chain h op hl hl1 hid1
      obtain ⟨b1, b2, b3⟩ := duration_monotone_crun ops hinv1 hl1 hl' (by rw [hid, hid1])
      exact ⟨by rw [b1, a1], by rw [b2, a2], Nat.le_trans a3 b3⟩
    · have hgone : ∀ x ∈ (cstep c op).1.s.locks, x.id ≠ l.id := fun x hx hxid => hex ⟨x, hx, hxid⟩
      have hle := Nat.le_trans (h.inv.idle l hl).2 (lastId_mono_chain h op)
      exact absurd hid (id_stays_gone_chain ops hinv1 l.id hle hgone l' hl')

/-- **until then no operation by anyone moves them**: an account's locked total of a denom goes down
    only at an EndBlocker or by that account's own force-unlock while it is on the allow-list in force;
    never by a restart or a parameter change -/
theorem locked_total_decreases_only_when_due_or_forced_chain {c : Chain} (h : CInv c) (cop : COp)
    (a d : Nat) (hdec : lockedOwner (cstep c cop).1.s.locks a d < lockedOwner c.s.locks a d) :
    cop = .msg .endBlock ∨ ∃ id co, cop = .msg (.force a id co) ∧ a ∈ c.p.allowed := by
  cases cop with
  | msg op =>
    rcases locked_total_decreases_only_when_due_or_forced c.p h.inv op a d hdec with rfl | ⟨id, co, rfl, ha⟩
    · exact Or.inl rfl
    · exact Or.inr ⟨id, co, rfl, ha⟩
  | restart =>
    obtain ⟨hlk, _⟩ := cstep_nonmsg_frame h (op := .restart) (fun o => by simp)
    rw [hlk] at hdec
    exact absurd hdec (Nat.lt_irrefl _)
  | setParams m f al => exact absurd hdec (Nat.lt_irrefl _)

/-! ## parameter changes mid-history -/

/-- a parameter change touches no lock, no balance, no accumulation entry -/
theorem setParams_leaves_state_untouched (c : Chain) (m f : Nat) (al : List Actor) :
    (cstep c (.setParams m f al)).1.s = c.s := rfl

/-- the allow-list in force decides: whoever is not on it cannot force-unlock, own lock or not -/
theorem force_unlock_needs_authorisation_chain (c : Chain) (a id : Nat) (co : Option (Denom × Nat))
    (hna : a ∉ c.p.allowed) :
    (cstep c (.msg (.force a id co))).1.s = c.s ∧ ∃ e, (cstep c (.msg (.force a id co))).2 = .err e :=
  force_unlock_needs_authorisation c.p c.s a id co hna

/-- **an owner removed from the allow-list can no longer force-unlock**: after a parameter change
    whose allow-list does not contain `a`, every `MsgForceUnlock` of `a` is rejected, state unchanged -/
theorem removed_from_allow_list_cannot_force_unlock (c : Chain) (m f : Nat) (al : List Actor) (a id : Nat)
    (co : Option (Denom × Nat)) (hna : a ∉ al) :
    (cstep (cstep c (.setParams m f al)).1 (.msg (.force a id co))).1.s = c.s ∧
    ∃ e, (cstep (cstep c (.setParams m f al)).1 (.msg (.force a id co))).2 = .err e :=
  force_unlock_needs_authorisation_chain (cstep c (.setParams m f al)).1 a id co hna

/-- the minimum in force decides: a new lock below it is refused -/
theorem min_duration_enforced_chain (c : Chain) (a d amt dur : Nat) (hlt : dur < c.p.minDur) :
    (cstep c (.msg (.lock a d amt dur))).1.s = c.s ∧ ∃ e, (cstep c (.msg (.lock a d amt dur))).2 = .err e :=
  min_duration_enforced c.p c.s a d amt dur hlt

/-- **existing locks shorter than a raised minimum stay valid and still unlock** (1): whatever the
    parameters are changed to, an existing not-unlocking lock is still there and its owner's
    begin-unlock is accepted; the lock then matures after its own (old, short) duration -/
theorem short_lock_survives_raised_minimum {c : Chain} (h : CInv c) {l : Lock} (hl : l ∈ c.s.locks)
    (hn : l.endTime = none) (m f : Nat) (al : List Actor) :
    l ∈ (cstep c (.setParams m f al)).1.s.locks ∧
    (cstep (cstep c (.setParams m f al)).1 (.msg (.unlock l.owner l.id none))).2 = .ok l.id ∧
    { l with endTime := some (c.s.now + l.duration), startedAt := some c.s.now } ∈
      (cstep (cstep c (.setParams m f al)).1 (.msg (.unlock l.owner l.id none))).1.s.locks := by
  have hid : ¬ (l.id = 0 ∨ coinsInvalid none = true) := by
    have := (h.inv.idle l hl).1
    simp [coinsInvalid]; omega
  have hf := findLock_of_mem h.inv.nodup hl
  have hu : l.isUnlocking = false := isUnlocking_false.mpr hn
  have key : beginUnlocking c.s l.owner l.id none = (startUnlock c.s l, .ok l.id) := by
    unfold beginUnlocking
    simp only [hid, if_false, hf, ne_eq, not_true_eq_false, exceeds, isPartial, hu]
    simp
  refine ⟨hl, ?_, ?_⟩
  · show (beginUnlocking c.s l.owner l.id none).2 = .ok l.id
    rw [key]
  · show _ ∈ (beginUnlocking c.s l.owner l.id none).1.locks
    rw [key]
    exact mem_setLock_new hl rfl

/-- **… and still unlock** (2): whatever the parameters have become, an unlocking lock whose end time
    has come is removed by the next EndBlocker (height >= 6) and its coins are in its owner's balance -/
theorem unlocking_lock_is_paid_out_when_due {c : Chain} (h : CInv c) {l : Lock} (hl : l ∈ c.s.locks)
    {e : Nat} (he : l.endTime = some e) (hdue : e ≤ c.s.now) (hh : minHeightAutoWithdraw ≤ c.s.height) :
    (∀ x ∈ (cstep c (.msg .endBlock)).1.s.locks, x.id ≠ l.id) ∧
    c.s.bal l.owner l.denom + l.amount ≤ (cstep c (.msg .endBlock)).1.s.bal l.owner l.denom := by
  obtain ⟨hlocks, hbal⟩ := (endBlock_returns_exactly_the_matured c.p h.inv).1 hh
  have hm : matured c.s.now l = true := (matured_iff c.s.now l).mpr ⟨e, he, hdue⟩
  constructor
  · intro x hx hxid
    have hx' : x ∈ (step c.p c.s .endBlock).1.locks := hx
    rw [hlocks, List.mem_filter] at hx'
    have := eq_of_id_eq h.inv.nodup hx'.1 hl hxid
    subst this
    simp [hm] at hx'
  · show _ ≤ (step c.p c.s .endBlock).1.bal l.owner l.denom
    rw [hbal l.owner l.denom]
    have := le_total_of_mem (fun x => matured c.s.now x && (x.owner == l.owner && x.denom == l.denom)) c.s.locks l hl
    simp only [w, hm, beq_self_eq_true, Bool.and_self, if_true] at this
    omega

/-! ## non-vacuity and counterexamples

  `pBig`: minimum duration 5, fee 7, actor 1 on the allow-list, fee denom 0; everybody owns 10^18 of
  every denom (the default fee of 5·10^16 written by a restart must be payable); height 6, time 0. -/

def pBig : Params := ⟨5, 7, [1], 0⟩
def cBig : Chain := cinit pBig (fun _ _ => 1000000000000000000) 0 6

/-- two locks of the same denom AND the same duration (different owners), a third of another duration,
    a split (partial begin-unlock): then a restart -/
def opsBig : List COp :=
  [.msg (.lock 0 0 100 10), .msg (.lock 1 0 50 10), .msg (.lock 0 0 30 20), .msg (.unlock 0 1 (some (0, 40))),
   .restart]

example : CInv cBig := cinit_cinv _ _ _ _
example : ((crun cBig opsBig).s.locks.map (fun l => (l.id, l.owner, l.duration, l.endTime, l.denom, l.amount)))
    = [(1, 0, 10, none, 0, 60), (2, 1, 10, none, 0, 50), (3, 0, 20, none, 0, 30), (4, 0, 10, some 10, 0, 40)] := by decide
-- the export is in reference order (not-unlocking by (duration, id), then unlocking), not in id order
example : ((exportGenesis (crun cBig (opsBig.dropLast)).s).locks.map (·.id)) = [1, 2, 3, 4] := by decide
example : ((exportGenesis (crun cBig [.msg (.lock 0 0 100 20), .msg (.lock 1 0 50 10), .msg (.unlock 0 1 none),
    .msg (.lock 0 0 7 30)]).s).locks.map (·.id)) = [2, 3, 1] := by decide
-- the rebuilt accumulation store: three locks share (denom 0, duration 10): 60 + 50 + 40
example : (accQuery (crun cBig opsBig).s.acc 0 10, accQuery (crun cBig opsBig).s.acc 0 11,
           accQuery (crun cBig opsBig).s.acc 0 20, accQuery (crun cBig opsBig).s.acc 0 21) = (180, 30, 30, 0) := by decide
example : (crun cBig opsBig).s.acc = [⟨0, 10, 150⟩, ⟨0, 20, 30⟩] := by decide
example : (crun cBig opsBig).s.modBal 0 = 180 ∧ (crun cBig opsBig).s.lastId = 4 := by decide
-- … and the chain goes on: top-up of lock 1, extend, maturity of the split lock 4 at its old end time
example : ((crun cBig (opsBig ++ [.setParams 5 7 [1], .msg (.lock 0 0 5 10), .msg (.extend 1 2 15), .msg (.beginBlock 10),
    .msg .endBlock])).s.locks.map (fun l => (l.id, l.duration, l.amount))) = [(1, 10, 65), (2, 15, 50), (3, 20, 30)] := by decide
example : (accQuery (crun cBig (opsBig ++ [.setParams 5 7 [1], .msg (.lock 0 0 5 10), .msg (.extend 1 2 15), .msg (.beginBlock 10),
    .msg .endBlock])).s.acc 0 10, accQuery (crun cBig (opsBig ++ [.setParams 5 7 [1], .msg (.lock 0 0 5 10), .msg (.extend 1 2 15),
    .msg (.beginBlock 10), .msg .endBlock])).s.acc 0 11) = (145, 80) := by decide

/-- the params do not survive a restart: minimum duration, fee and allow-list all change -/
theorem restart_preserves_params_counterexample :
    ∃ c, CInv c ∧ (restart c).p.minDur ≠ c.p.minDur ∧ (restart c).p.fee ≠ c.p.fee ∧
      (restart c).p.allowed ≠ c.p.allowed :=
  ⟨cBig, cinit_cinv _ _ _ _, by decide, by decide, by decide⟩

/-- consequences on the same chain: before the restart a lock of duration 4 < 5 is refused and the
    allow-listed actor 1 can force-unlock its lock 2; after the restart the short lock is accepted (at
    the default fee) and actor 1's force-unlock is refused -/
theorem restart_forgets_minimum_and_allow_list_counterexample :
    (cstep (crun cBig opsBig.dropLast) (.msg (.lock 0 0 100 4))).2 = .err .belowMin ∧
    (cstep (crun cBig opsBig) (.msg (.lock 0 0 100 4))).2 = .ok 5 ∧
    (cstep (crun cBig opsBig.dropLast) (.msg (.force 1 2 none))).2 = .ok 0 ∧
    (cstep (crun cBig opsBig) (.msg (.force 1 2 none))).2 = .err .notAllowed ∧
    (cstep (crun cBig opsBig) (.msg (.lock 0 0 100 4))).1.s.bal 0 0 + 50000000000000000 + 100 =
      (crun cBig opsBig).s.bal 0 0 := by decide

-- parameter changes mid-history: actor 1 is taken off the allow-list, the minimum is raised to 100
example : (cstep (crun cBig (opsBig.dropLast ++ [.setParams 100 7 []])) (.msg (.force 1 2 none))).2 = .err .notAllowed := by decide
example : (cstep (crun cBig (opsBig.dropLast ++ [.setParams 100 7 [0]])) (.msg (.force 0 1 none))).2 = .ok 0 := by decide
-- lock 2 (duration 10 < 100) is still there, cannot be topped up or copied, but unlocks and is paid out
example : (cstep (crun cBig (opsBig.dropLast ++ [.setParams 100 7 []])) (.msg (.lock 1 0 5 10))).2 = .err .belowMin := by decide
example : ((crun cBig (opsBig.dropLast ++ [.setParams 100 7 [], .msg (.unlock 1 2 none), .msg (.beginBlock 10), .msg .endBlock])).s.locks.map (·.id))
    = [1, 3] := by decide
example : (crun cBig (opsBig.dropLast ++ [.setParams 100 7 [], .msg (.unlock 1 2 none), .msg (.beginBlock 10), .msg .endBlock])).s.bal 1 0
    = 1000000000000000000 - 7 := by decide
-- a fee change applies to the next lock only
example : (crun cBig [.msg (.lock 0 1 10 10), .setParams 5 1000 [], .msg (.lock 0 1 10 10)]).s.bal 0 0
    = 1000000000000000000 - 7 - 1000 := by decide

end DymVerif.C14
