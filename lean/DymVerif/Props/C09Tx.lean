/-
  Props/C09Tx — C09 for histories of TRANSACTIONS (`Model/LCTx.lean`: a transaction is a list of messages; the
  whole ante chain runs over all messages before any message executes), for the light-client decorator AS PATCHED
  (`checkedMsgsTravelWithIBCOnly`: a transaction that carries a message the decorator checks — ibc MsgUpdateClient,
  MsgSubmitMisbehaviour, MsgChannelOpenAck — must consist of ibc core messages only).

  The property text: "no sequence of client updates and state updates, in either order" makes the canonical client
  disagree with a block descriptor.  With the patch the statement holds at full strength for every history of
  transactions of any number of messages (`agreement_inv_tx`).  Before the patch it was false (the ante handler checked
  a header before the MsgUpdateState / MsgSetCanonicalClient travelling in the same transaction had executed; replays
  corpus/C09/tx_*.ops, finding `C09/later_conflict_rejected/conflicting-items-accepted-in-one-transaction`); the former
  counterexamples are kept below as refusals.

  Transaction shapes that remain possible (`accepted_tx_shape`): a transaction that gets past the ante chain either
  carries none of the three checked message types (any mix of rollapp / sequencer / lightclient messages, wrappers
  included, and unchecked ibc messages), or consists of ibc core messages only (client updates with packets /
  handshake messages / client creation — nothing that posts rollapp state or designates a client).
-/
import DymVerif.Lemmas.LCTxGood
import DymVerif.Props.C09
namespace DymVerif.Props.C09
open DymVerif DymVerif.LC

/-- **tx_single_is_step** — one message per transaction: the transaction is exactly the op of `Props/C09.lean`
    (ante part and message part of `updateClient` / `misbehaviour` / `chanAck` compose back; a single message is
    never refused as mixed) -/
theorem tx_single_is_step (s : St) (op : Op) : txStep s [op] = step s op := txStep_single s op

/-- **agreement_inv_tx** — FULL STRENGTH: for every history of transactions, each of any number of messages, in the
    state reached every consensus state of a canonical client agrees (root, timestamp) with the descriptor of its
    height.  (`SafeRunTx`: the side condition of `agreement_inv` — at each designation the descriptor table of M-LC is
    covered by the state infos of M-Core — through the message phases.) -/
theorem agreement_inv_tx (p : Core.Params) (txs : List (List Op)) (hs : SafeRunTx (init p) txs) :
    AgreeInv (runTx (init p) txs) :=
  (runTx_good txs (init p) (init_good p) hs).agree

/-- the designation maps stay mutually inverse through every transaction history -/
theorem designation_tx (p : Core.Params) (txs : List (List Op)) (hs : SafeRunTx (init p) txs) :
    MapsInv (runTx (init p) txs) :=
  (runTx_good txs (init p) (init_good p) hs).maps

/-- **agreement_inv_tx_partial** — the statement for single-message transactions in terms of `SafeRun` (kept: it is
    what held before the patch) -/
theorem agreement_inv_tx_partial (p : Core.Params) (txs : List (List Op)) (h1 : SingleMsg txs)
    (hs : SafeRun (init p) txs.flatten) : AgreeInv (runTx (init p) txs) := by
  rw [runTx_single txs (init p) h1]
  exact agreement_inv p txs.flatten hs

/-- **accepted_tx_shape** — a transaction the ante chain lets through either carries no checked message or consists of
    ibc core messages only -/
theorem accepted_tx_shape (s : St) (ms : List Op) (h : ∀ e, (txStep s ms).2 ≠ .ante e) :
    (∀ m ∈ ms, isChecked m = false) ∨ (∀ m ∈ ms, isIbcCore m = true) := by
  apply mixed_false
  cases hm : mixedRefusal ms with
  | false => rfl
  | true =>
    exfalso
    unfold txStep at h
    split at h
    · rename_i e _; exact h e rfl
    split at h
    · rename_i e _; exact h e rfl
    simp only [hm, if_true] at h
    exact h .mixedTx rfl

/-- **agreement_inv_checked** — `agreement_inv` with the side condition in its executable form: if the coverage check
    `coveredB` (every descriptor of M-LC lies in a state info of M-Core) holds in every state along the run — the driver
    evaluates it after every op of every correspondence trace — then the agreement invariant holds at the end. -/
theorem agreement_inv_checked (p : Core.Params) (ops : List Op) (hc : CoveredRun (init p) ops) : AgreeInv (run (init p) ops) :=
  agreement_inv p ops (safeRun_of_covered ops (init p) hc)

example : coveredB sA = true := by decide

/-- the designation theorems carry over to single-message transaction histories in the same way -/
theorem designation_tx_partial (p : Core.Params) (txs : List (List Op)) (h1 : SingleMsg txs) :
    MapsInv (runTx (init p) txs) := by
  rw [runTx_single txs (init p) h1]
  exact (designation_unique_stable p txs.flatten).1

/-- a mixed transaction changes nothing -/
theorem mixed_tx_refused (s : St) (ms : List Op) (hn : ms.findSome? (nestedRefusal s) = none)
    (hsg : ms.findSome? (signerRefusal s) = none) (hm : mixedRefusal ms = true) : txStep s ms = (s, .ante .mixedTx) := by
  simp [txStep, hn, hsg, hm]

-- ------------------------------------------------------------------------------------------------ the former counterexamples

/-- the header of the former counterexample: height 5, state root 99 (the descriptor will say 6), signed by a0 -/
def hdrTx : Hdr := { h := 5, cons := ⟨99, 50, 1⟩, propSig := 0, propData := 0, rev := 0, sole := true }

/-- ONE transaction: the state update for heights 4..5 (honest: root of 5 is 6) and the conflicting header for 5 -/
def txBad : List Op := [upd 0 0 4 2, .updateClient 0 .top hdrTx true]

/-- it is refused as a whole, in either order of its messages, and for a height inside the batch -/
example : txStep sA txBad = (sA, .ante .mixedTx) := by
  refine Prod.ext ?_ ?_
  · rfl
  · decide
example : (txStep sA [.updateClient 0 .top hdrTx true, upd 0 0 4 2]).2 = .ante .mixedTx := by decide
example : (txStep sA [upd 0 0 4 2, .updateClient 0 .top { hdrTx with h := 4, cons := ⟨99, 40, 1⟩ } true]).2 = .ante .mixedTx := by decide

/-- the same two messages in two transactions: the header is refused by the ante handler (root mismatch) -/
example : (txStep (txStep sA [upd 0 0 4 2]).1 [.updateClient 0 .top hdrTx true]).2 = .ante .root := by decide

/-- an honest header travelling with another header (ibc core messages only) is still accepted -/
example : (txStep sA [.updateClient 0 .top { hdrTx with h := 4, cons := ⟨5, 40, 1⟩ } true,
    .updateClient 0 .top { hdrTx with cons := ⟨6, 50, 1⟩ } true]).2 = .ok := by decide

/-- rollapp 0 with heights 1..3 posted and a client (not canonical) whose consensus state at height 1 agrees -/
def opsE : List Op := mkRa 0 0 ++ [upd 0 0 1 3, .createClient 0 expParams 1 ⟨2, 10, 1⟩]
def sE : St := run (init P0) opsE

/-- a header for the posted height 3 with root 99 (descriptor: 4) naming the unregistered key 1001 as proposer -/
def hdrUnattr : Hdr := { h := 3, cons := ⟨99, 30, 1⟩, propSig := 1001, propData := 1001, rev := 0, sole := false }

/-- designation first, then the header / the evidence, in one transaction: refused (before the patch: accepted) -/
example : (txStep sE [.setCanonical 0, .updateClient 0 .top hdrUnattr true]).2 = .ante .mixedTx ∧
    (txStep sE [.setCanonical 0, .misbehaviour 0 .submit true]).2 = .ante .mixedTx ∧
    (step (step sE (.setCanonical 0)).1 (.updateClient 0 .top hdrUnattr true)).2 = .ante .nonSequencer ∧
    (step (step sE (.updateClient 0 .top hdrUnattr true)).1 (.setCanonical 0)).2 = .msg .root := by decide

end DymVerif.Props.C09
