/-
  Props/C09Tx — C09 for histories of TRANSACTIONS (`Model/LCTx.lean`: a transaction is a list of messages; the
  whole ante chain runs over all messages before any message executes).

  The property text: "no sequence of client updates and state updates, in either order" makes the canonical
  client disagree with a block descriptor.  Full statement, for every history of transactions:

      theorem agreement_inv_tx (p : Core.Params) (txs : List (List Op)) : AgreeInv (runTx (init p) txs)

  It is FALSE of the current code (`agreement_inv_tx_counterexample`, reproduced on the real application by the
  monitor `C09/later_conflict_rejected/conflicting-items-accepted-in-one-transaction`): the hub-side check of a
  MsgUpdateClient is made by the ante handler, before the MsgUpdateState travelling in the same transaction has
  executed, and is not repeated when the client update executes.  What the code does guarantee is the statement
  for transactions of one message (`agreement_inv_tx_partial`) — the theorems of `Props/C09.lean` are about those.
-/
import DymVerif.Lemmas.LCTx
import DymVerif.Props.C09
namespace DymVerif.Props.C09
open DymVerif DymVerif.LC

/-- **tx_single_is_step** — one message per transaction: the transaction is exactly the op of `Props/C09.lean`
    (ante part and message part of `updateClient` / `misbehaviour` / `chanAck` compose back) -/
theorem tx_single_is_step (s : St) (op : Op) : txStep s [op] = step s op := txStep_single s op

/-- **agreement_inv_tx_partial** — for every history of transactions that carry at most one message each, in the
    state reached every consensus state of a canonical client agrees (root, timestamp) with the descriptor of its
    height.  (`SafeRun`: see `agreement_inv`.) -/
theorem agreement_inv_tx_partial (p : Core.Params) (txs : List (List Op)) (h1 : SingleMsg txs)
    (hs : SafeRun (init p) txs.flatten) : AgreeInv (runTx (init p) txs) := by
  rw [runTx_single txs (init p) h1]
  exact agreement_inv p txs.flatten hs

/-- **agreement_inv_checked** — `agreement_inv` with the side condition in its executable form: if the coverage check
    `coveredB` (every descriptor of M-LC lies in a state info of M-Core) holds in every state along the run — the driver
    evaluates it after every op of every correspondence trace — then the agreement invariant holds at the end. -/
theorem agreement_inv_checked (p : Core.Params) (ops : List Op) (hc : CoveredRun (init p) ops) : AgreeInv (run (init p) ops) :=
  agreement_inv p ops (safeRun_of_covered ops (init p) hc)

example : coveredB sA = true := by decide

/-- the designation theorems carry over to single-message transaction histories in the same way -/
theorem designation_tx_partial (p : Core.Params) (txs : List (List Op)) (h1 : SingleMsg txs) :
    MapsInv (runTx (init p) txs) := by
  rw [runTx_single txs (init p) h1]
  exact (designation_unique_stable p txs.flatten).1

-- ------------------------------------------------------------------------------------------------ the counterexample

/-- the header of the counterexample: height 5, state root 99 (the descriptor will say 6), signed by a0 -/
def hdrTx : Hdr := { h := 5, cons := ⟨99, 50, 1⟩, propSig := 0, propData := 0, rev := 0, sole := true }

/-- ONE transaction: the state update for heights 4..5 (honest: root of 5 is 6) and the conflicting header for 5 -/
def txBad : List Op := [upd 0 0 4 2, .updateClient 0 .top hdrTx true]

/-- the history: `opsA` one message per transaction (rollapp 0 with heights 1..3, honest canonical client), then `txBad` -/
def txsBad : List (List Op) := opsA.map (fun o => [o]) ++ [txBad]

def sBad : St := runTx (init P0) txsBad

/-- the transaction goes through -/
example : (txStep sA txBad).2 = .ok := by decide

/-- **agreement_inv_tx_counterexample** (monitor `C09/later_conflict_rejected/conflicting-items-accepted-in-one-transaction`)
    — after the history `txsBad` the canonical client 0 of rollapp 0 has the consensus state (root 99) at height 5
    and the descriptor of height 5 has root 6: `AgreeInv` fails.  The signer record the ante handler saved for the
    header has been pruned by the state update of the same transaction, so nothing keeps the sequencer bonded. -/
theorem agreement_inv_tx_counterexample : ¬ AgreeInv sBad ∧ sBad.signerSet = [] := by
  refine ⟨?_, by decide⟩
  intro h
  have hcl : (getClient sBad 0).isSome = true := by decide
  cases hg : getClient sBad 0 with
  | none => simp [hg] at hcl
  | some cl =>
    have hcons : getCons cl 5 = some ⟨99, 50, 1⟩ := by
      have : (getClient sBad 0).bind (fun cl => getCons cl 5) = some ⟨99, 50, 1⟩ := by decide
      simpa [hg] using this
    have hdesc : getDesc sBad 0 5 = some ⟨0, 5, 6, some 50⟩ := by decide
    have hr : lookup sBad.r2c 0 = some 0 := by decide
    have := (h 0 0 cl 5 _ _ hr hg hcons hdesc).1
    exact absurd this (by decide)

/-- the same two messages in two transactions: the header is refused by the ante handler (root mismatch) -/
example : (txStep (txStep sA [upd 0 0 4 2]).1 [.updateClient 0 .top hdrTx true]).2 = .ante .root := by decide

/-- mirrored order in one transaction: the header first.  The hook of the state update finds the consensus state the
    header wrote and refuses; the transaction is atomic, only the ante write (the signer record) is kept. -/
example : (txStep sA [.updateClient 0 .top hdrTx true, upd 0 0 4 2]).2 = .msg .root ∧
    (txStep sA [.updateClient 0 .top hdrTx true, upd 0 0 4 2]).1.signerSet = [(0, 0, 5)] ∧
    ((getClient (txStep sA [.updateClient 0 .top hdrTx true, upd 0 0 4 2]).1 0).map (·.cons.length)) = some 1 := by decide

/-- the header for a height inside the batch (4 of 4..5) gets in the same way -/
example : (txStep sA [upd 0 0 4 2, .updateClient 0 .top { hdrTx with h := 4, cons := ⟨99, 40, 1⟩ } true]).2 = .ok := by decide

/-- nothing later repairs it: the next state update is accepted, the disagreeing pair stays -/
example : (step sBad (upd 0 0 6 1)).2 = .ok ∧
    ((getClient (step sBad (upd 0 0 6 1)).1 0).bind fun cl => getCons cl 5) = some ⟨99, 50, 1⟩ := by decide

-- ------------------------------------------------------------------------------------------------ designation first

/-- rollapp 0 with heights 1..3 posted and a client (not canonical) whose consensus state at height 1 agrees -/
def opsE : List Op := mkRa 0 0 ++ [upd 0 0 1 3, .createClient 0 expParams 1 ⟨2, 10, 1⟩]
def sE : St := run (init P0) opsE

/-- a header for the posted height 3 with root 99 (descriptor: 4) naming the unregistered key 1001 as proposer -/
def hdrUnattr : Hdr := { h := 3, cons := ⟨99, 30, 1⟩, propSig := 1001, propData := 1001, rev := 0, sole := false }

/-- second shape of **agreement_inv_tx_counterexample**: ONE transaction [designation, header].  The ante handler sees a
    client that is not canonical and a proposer that is no sequencer; alone, either order of the two messages in two
    transactions is refused. -/
theorem agreement_inv_tx_counterexample_designation :
    (txStep sE [.setCanonical 0, .updateClient 0 .top hdrUnattr true]).2 = .ok ∧
    lookup (txStep sE [.setCanonical 0, .updateClient 0 .top hdrUnattr true]).1.r2c 0 = some 0 ∧
    ((getClient (txStep sE [.setCanonical 0, .updateClient 0 .top hdrUnattr true]).1 0).bind fun cl => (getCons cl 3).map (·.root)) = some 99 ∧
    ((getDesc (txStep sE [.setCanonical 0, .updateClient 0 .top hdrUnattr true]).1 0 3).map (·.root)) = some 4 ∧
    (step (step sE (.setCanonical 0)).1 (.updateClient 0 .top hdrUnattr true)).2 = .ante .nonSequencer ∧
    (step (step sE (.updateClient 0 .top hdrUnattr true)).1 (.setCanonical 0)).2 = .msg .root := by decide

/-- **misbehaviour_rejected_tx_counterexample** (monitor `C09/misbehaviour_rejected/client-designated-and-frozen-in-one-transaction`):
    ONE transaction [designation, verifying evidence] leaves the canonical client frozen; `misbehaviour_rejected`
    (Props/C09.lean) is the statement for single-message transactions. -/
theorem misbehaviour_rejected_tx_counterexample :
    (txStep sE [.setCanonical 0, .misbehaviour 0 .submit true]).2 = .ok ∧
    lookup (txStep sE [.setCanonical 0, .misbehaviour 0 .submit true]).1.c2r 0 = some 0 ∧
    ((getClient (txStep sE [.setCanonical 0, .misbehaviour 0 .submit true]).1 0).map (·.frozen)) = some true := by decide

end DymVerif.Props.C09
