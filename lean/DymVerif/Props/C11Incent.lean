/-
  Props/C11Incent — block processing never fails: x/streamer EndBlock and the x/incentives epoch hook
  (over M-Incent, after fixes D1 79ac8ab6d, D2 47c6d7c68 and F4 64b101c36).
  Full statement: see Props/C11.  Here, for EVERY admissible history of M-Incent (locks, gauges,
  streams, sponsorship distributions, epoch boundaries, iteration limits from 1 up; `Admissible` = each
  op well-formed and no governance re-targeting of a half-served stream, which is a recorded known
  finding of C15) whose final state has no blocked lock owner or rollapp owner:
    * the streamer EndBlock returns no error (`streamer_end_block_never_fails`), so the `end` op does
      not halt the chain (`end_block_does_not_halt`);
    * the incentives epoch hook returns no error (`incentives_epoch_end_never_fails`).
  The hypothesis "no blocked recipient" is what fix F4 establishes on the real chain for rollapp
  owners (creation needs the owner's signature, transfer now refuses blocked addresses; lock owners
  are signers): `blocked_owner_fails_block_counterexample` shows it is needed.

  Second pass — REACHABLE-STATE WRAPPERS (`…_reachable`, `incentives_epoch_hook_never_fails_in_block`): `GInv`, `RollOK`
  and `NoBlocked` are no longer hypotheses about the final state but follow from the history: `NoBlocked` from the
  well-formedness of the two inputs of M-Incent,
    `Op.lockOwnersOK`            (`.locks ls`: no blocked lock owner — discharged in M-Lockup: a lock is created by its
                                  owner's own message and module accounts do not sign), and
    `Op.rollappOwnerNotBlocked`  (`.rollapp r o l`: o not blocked — THE NAMED OPEN HYPOTHESIS, discharged in M-Core:
                                  owners sign the creation and, since fix F4 64b101c36, ownership transfer refuses
                                  blocked addresses).
  "A failure while paying ONE RECIPIENT is confined to that recipient" is FALSE of the code at both call sites of
  x/incentives `Distribute` (no per-recipient isolation: `one_blocked_recipient_fails_whole_payout`, for every
  tracker and bank):
    * streamer EndBlock: the whole EndBlock fails, the block fails, the chain halts and the good recipient of the
      same pass is not paid (`endblock_one_bad_recipient_halts_counterexample`; recorded as
      C11/block/streamer-endblock-fails/blocked-rollapp-owner, fixed at the source by F4 64b101c36 — the bad recipient
      can no longer be created — not by isolating recipients);
    * epoch hooks (incentives `AfterEpochEnd`, streamer `AfterEpochEnd` flush): the epochs module's wrapper confines
      the failure to the HOOK (`epoch_hook_failure_confined_to_hook`, `begin_never_halts`): the block completes, but
      the hook's whole epoch distribution is rolled back — the good recipients of that epoch are not paid either
      (`epoch_hook_one_bad_recipient_starves_all_counterexample`).
  Discharge of the rollapp-owner half from M-Core (`streamer_end_block_never_fails_from_core`): the rollapp table of
  M-Incent (its `.rollapp r owner launched` inputs) is a projection of an M-Core state (`RollappsFromCore`), and M-Core
  proves `OwnersNotBlocked` for every reachable state — ownership transfers included (`Lemmas/CoreOwners.run_owners`,
  through `Core.transferOwner`'s refusal of a blocked new owner = /repo fix 64b101c36).  Reverting that fix breaks
  `transferOwnership_skeleton` (tie) and `run_owners` (proof).
-/
import DymVerif.Lemmas.IncentBlocks
import DymVerif.Lemmas.IncentOwners
import DymVerif.Lemmas.CoreOwners
namespace DymVerif.C11
open DymVerif DymVerif.Incent

theorem streamer_end_block_never_fails (now mi : Nat) (ops : List Op)
    (hw : ∀ op ∈ ops, op.wf ∧ op.wfS ∧ op.noRetarget)
    (hlen : (run (init now mi) ops).streams.length < maxU64) (hnb : NoBlocked (run (init now mi) ops)) :
    ∃ s', streamerEndBlock (run (init now mi) ops) = .ok s' :=
  streamer_endBlock_ok_reachable now mi ops hw hlen hnb

theorem end_block_does_not_halt (now mi : Nat) (ops : List Op)
    (hw : ∀ op ∈ ops, op.wf ∧ op.wfS ∧ op.noRetarget)
    (hlen : (run (init now mi) ops).streams.length < maxU64) (hnb : NoBlocked (run (init now mi) ops))
    (hh : (run (init now mi) ops).halted = false) :
    (step (run (init now mi) ops) .end_).1 = .ok :=
  end_does_not_halt now mi ops hw hlen hnb hh

theorem incentives_epoch_end_never_fails (s : State) (e : Nat) (hg : GInv s) (hroll : RollOK s) (hnb : NoBlocked s) :
    ∃ s', incAfterEpochEnd s e = .ok s' :=
  incentives_epochEnd_ok s e hg hroll hnb

/-- a blocked rollapp owner (possible before fix F4 through `MsgTransferOwnership`) makes the streamer
    EndBlock return an error: the block fails and the chain halts -/
theorem blocked_owner_fails_block_counterexample :
    (match streamerEndBlock (run (init 100 500) blockedOwnerHistory) with | .error .err => true | _ => false) = true ∧
    (step (run (init 100 500) blockedOwnerHistory) .end_).2.halted = true ∧
    (∀ op ∈ blockedOwnerHistory, op.wf ∧ op.wfS ∧ op.noRetarget) ∧
    ¬ NoBlocked (run (init 100 500) blockedOwnerHistory) :=
  endblock_blocked_owner_counterexample

/-! ## second pass: reachable-state wrappers -/

/-- **after every admissible history whose lock-table and rollapp inputs are well-formed** the streamer EndBlock
    returns no error — nothing is assumed about the final state -/
theorem streamer_end_block_never_fails_reachable (now mi : Nat) (ops : List Op)
    (hw : ∀ op ∈ ops, op.wf ∧ op.wfS ∧ op.noRetarget) (hlocks : ∀ op ∈ ops, op.lockOwnersOK)
    (hRollappOwnersNotBlocked : ∀ op ∈ ops, op.rollappOwnerNotBlocked)
    (hlen : (run (init now mi) ops).streams.length < maxU64) :
    ∃ s', streamerEndBlock (run (init now mi) ops) = .ok s' :=
  streamer_endBlock_ok_reachable now mi ops hw hlen
    (run_noblocked ops _ (init_ginv now mi) (init_noblocked now mi) (fun o ho => ⟨(hw o ho).1, hlocks o ho, hRollappOwnersNotBlocked o ho⟩))

theorem end_block_does_not_halt_reachable (now mi : Nat) (ops : List Op)
    (hw : ∀ op ∈ ops, op.wf ∧ op.wfS ∧ op.noRetarget) (hlocks : ∀ op ∈ ops, op.lockOwnersOK)
    (hRollappOwnersNotBlocked : ∀ op ∈ ops, op.rollappOwnerNotBlocked)
    (hlen : (run (init now mi) ops).streams.length < maxU64) (hh : (run (init now mi) ops).halted = false) :
    (step (run (init now mi) ops) .end_).1 = .ok :=
  end_does_not_halt now mi ops hw hlen
    (run_noblocked ops _ (init_ginv now mi) (init_noblocked now mi) (fun o ho => ⟨(hw o ho).1, hlocks o ho, hRollappOwnersNotBlocked o ho⟩)) hh

/-- the incentives epoch hook on the state at a block boundary, after every history (re-targeting allowed: the
    gauge side does not depend on it) -/
theorem incentives_epoch_end_never_fails_reachable (now mi : Nat) (ops : List Op)
    (hw : ∀ op ∈ ops, op.wf) (hlocks : ∀ op ∈ ops, op.lockOwnersOK)
    (hRollappOwnersNotBlocked : ∀ op ∈ ops, op.rollappOwnerNotBlocked) (e : Nat) :
    ∃ s', incAfterEpochEnd (run (init now mi) ops) e = .ok s' :=
  let g := run_good now mi ops (fun o ho => ⟨hw o ho, hlocks o ho, hRollappOwnersNotBlocked o ho⟩)
  incentives_epochEnd_ok _ e g.ginv g.roll g.nb

/-- **where the hook really runs**: inside the epochs BeginBlocker of ANY next block (`begin dt`), for each of the
    three epoch infos in the order day, hour, week, on the state the streamer's own epoch-end hook leaves — the
    incentives epoch hook returns no error -/
theorem incentives_epoch_hook_never_fails_in_block (now mi : Nat) (ops : List Op)
    (hw : ∀ op ∈ ops, op.wf) (hlocks : ∀ op ∈ ops, op.lockOwnersOK)
    (hRollappOwnersNotBlocked : ∀ op ∈ ops, op.rollappOwnerNotBlocked) (dt : Nat) :
    let s0 : State := { run (init now mi) ops with now := (run (init now mi) ops).now + dt }
    let s1 := epochTick s0 0
    let s2 := epochTick s1 1
    (∃ s', incAfterEpochEnd (applyHook (fun x => streamerAfterEpochEnd x 0) s0) 0 = .ok s') ∧
    (∃ s', incAfterEpochEnd (applyHook (fun x => streamerAfterEpochEnd x 1) s1) 1 = .ok s') ∧
    (∃ s', incAfterEpochEnd (applyHook (fun x => streamerAfterEpochEnd x 2) s2) 2 = .ok s') := by
  intro s0 s1 s2
  have g := run_good now mi ops (fun o ho => ⟨hw o ho, hlocks o ho, hRollappOwnersNotBlocked o ho⟩)
  have g0 : Good s0 := now_good _ dt g
  have g1 : Good s1 := epochTick_good s0 0 g0
  have g2 : Good s2 := epochTick_good s1 1 g1
  have k := fun (s : State) (e : Nat) (h : Good s) =>
    let h' := sae_hook_good s e h
    incentives_epochEnd_ok _ e h'.ginv h'.roll h'.nb
  exact ⟨k s0 0 g0, k s1 1 g1, k s2 2 g2⟩

/-- non-vacuity: a history with locks, rollapps, gauges and a stream satisfies the two input conditions -/
example : ∀ op ∈ ([.begin 1, .end_, .rollapp 0 3 true, .rollappGauge 0, .locks [⟨1, 0, 100, 3600⟩],
    .createGauge 0 true 0 1 true [] 101 1, .begin 3601, .end_] : List Op), op.wf ∧ op.lockOwnersOK ∧ op.rollappOwnerNotBlocked := by decide

/-! ## "paying one recipient is confined to that recipient": what the code does -/

/-- **no per-recipient isolation** (`distributeTrackedRewards` returns on the first failing transfer): for EVERY
    tracker containing one blocked recipient and EVERY bank the whole payout fails -/
theorem one_blocked_recipient_fails_whole_payout (tr : Tracker) (b : Bank) (h : ∃ p ∈ tr, blocked p.1 = true) :
    payAll tr b = none :=
  payAll_blocked_fails tr b h

/-- **epoch-hook path: the failure is confined to the HOOK** — a failing hook leaves the state exactly as it was
    (the epochs wrapper discards the cache context) … -/
theorem epoch_hook_failure_confined_to_hook (s : State) (e : Nat) (x : Out) :
    (incAfterEpochEnd s e = .error x → applyHook (fun y => incAfterEpochEnd y e) s = s) ∧
    (streamerAfterEpochEnd s e = .error x → applyHook (fun y => streamerAfterEpochEnd y e) s = s) :=
  ⟨fun h => applyHook_error _ s x h, fun h => applyHook_error _ s x h⟩

/-- … and the `begin` step has no failing outcome at all: whatever the hooks do, the block goes on -/
theorem begin_never_halts (s : State) (dt : Nat) (h : s.halted = false) : (step s (.begin dt)).1 = .ok :=
  begin_step_ok s dt h

/-- two launched rollapps with a gauge each, both fed by one stream; the second owner is `o2` -/
def twoOwnersHistory (o2 : Nat) : List Op :=
  [.begin 1, .end_, .rollapp 0 3 true, .rollapp 1 o2 true, .rollappGauge 0, .rollappGauge 1, .fund streamerAddr [9000],
   .createStream false [9000] [⟨1, 1⟩, ⟨2, 1⟩] 101 1 3, .begin 3601, .end_, .begin 7201]

/-- **streamer EndBlock: one failing recipient is NOT confined** — with the second owner blocked (102) the whole
    EndBlock returns an error, the chain halts and the GOOD owner (3) of the other gauge is not paid; with a good
    second owner (4) the very same history pays 2250 to each.  (The history violates `Op.rollappOwnerNotBlocked`:
    since fix F4 64b101c36 the real chain cannot produce it through messages.) -/
theorem endblock_one_bad_recipient_halts_counterexample :
    (match streamerEndBlock (run (init 100 500) (twoOwnersHistory 102)) with | .error .err => true | _ => false) = true ∧
    (step (run (init 100 500) (twoOwnersHistory 102)) .end_).2.halted = true ∧
    (step (run (init 100 500) (twoOwnersHistory 102)) .end_).2.bank.get 3 = [] ∧
    (step (run (init 100 500) (twoOwnersHistory 4)) .end_).1 = .ok ∧
    (step (run (init 100 500) (twoOwnersHistory 4)) .end_).2.bank.get 3 = [2250] ∧
    (step (run (init 100 500) (twoOwnersHistory 4)) .end_).2.bank.get 4 = [2250] ∧
    ¬ (∀ op ∈ twoOwnersHistory 102, op.rollappOwnerNotBlocked) := by
  refine ⟨by decide, by decide, by decide, by decide, by decide, by decide, by decide⟩

/-- two launched rollapps with a gauge each, funded directly (no stream: the streamer EndBlock never touches them);
    the `week` epoch ends in the last block -/
def hookOwnersHistory (o2 : Nat) : List Op :=
  [.begin 1, .end_, .rollapp 0 3 true, .rollapp 1 o2 true, .rollappGauge 0, .rollappGauge 1, .fund 0 [2000],
   .addToGauge 0 1 [1000], .addToGauge 0 2 [1000], .begin 10, .end_, .begin 604800]

/-- **epoch-hook path: confined to the hook, not to the recipient** — with the second owner blocked the incentives
    epoch hook of the `week` epoch fails as a whole and is rolled back: the chain goes on (no halt, the next EndBlock
    succeeds), but the GOOD owner (3) is not paid and no gauge has distributed anything; with a good second owner the
    same history pays 1000 to each -/
theorem epoch_hook_one_bad_recipient_starves_all_counterexample :
    (run (init 100 500) (hookOwnersHistory 102)).halted = false ∧
    (step (run (init 100 500) (hookOwnersHistory 102)) .end_).1 = .ok ∧
    (run (init 100 500) (hookOwnersHistory 102)).bank.get 3 = [] ∧
    (run (init 100 500) (hookOwnersHistory 102)).gauges.map (·.distributed) = [[], []] ∧
    (run (init 100 500) (hookOwnersHistory 4)).bank.get 3 = [1000] ∧
    (run (init 100 500) (hookOwnersHistory 4)).bank.get 4 = [1000] ∧
    (run (init 100 500) (hookOwnersHistory 4)).gauges.map (·.distributed) = [[1000], [1000]] := by
  refine ⟨by decide, by decide, by decide, by decide, by decide, by decide, by decide⟩

-- ---------------------------------------------------------------- the rollapp-owner half, from M-Core

/-- the rollapp table M-Incent was given is a projection of the M-Core state `cs` under the address
    translation `ι`: every entry is the padding placeholder or carries the owner of a rollapp record of `cs` -/
def RollappsFromCore (ι : Core.Addr → Nat) (cs : Core.St) (s : State) : Prop :=
  ∀ ra ∈ s.rollapps, ra = ⟨false, 0, false⟩ ∨ ∃ r ∈ cs.ras, ra.owner = ι r.owner

/-- **projection lemma**: rollapp owners taken from an M-Core state satisfying `OwnersNotBlocked`, under an
    address translation that agrees with the bank's blocked list on both sides, are not blocked in M-Incent -/
theorem rollapp_owners_not_blocked_of_core (ι : Core.Addr → Nat) (hι : ∀ a, blocked (ι a) = Core.blockedAddr a)
    (cs : Core.St) (hc : Core.OwnersNotBlocked cs) (s : State) (hp : RollappsFromCore ι cs s) :
    ∀ ra ∈ s.rollapps, blocked ra.owner = false := by
  intro ra hra
  rcases hp ra hra with h | ⟨r, hr, ho⟩
  · subst h; decide
  · rw [ho, hι]; exact hc r hr

/-- **streamer_end_block_never_fails_from_core** — for every admissible history of M-Incent whose lock owners are
    not blocked (lock owners are signers) and whose rollapp table is a projection of ANY reachable M-Core
    state (any parameters, any op sequence — `MsgTransferOwnership` included — with rollapps created by
    non-module accounts), the streamer EndBlock returns no error.  The rollapp-owner half of `NoBlocked`
    is discharged from M-Core's `OwnersNotBlocked`. -/
theorem streamer_end_block_never_fails_from_core (now mi : Nat) (ops : List Op)
    (hw : ∀ op ∈ ops, op.wf ∧ op.wfS ∧ op.noRetarget)
    (hlen : (run (init now mi) ops).streams.length < maxU64)
    (hlocks : ∀ l ∈ (run (init now mi) ops).locks, blocked l.owner = false)
    (ι : Core.Addr → Nat) (hι : ∀ a, blocked (ι a) = Core.blockedAddr a)
    (cp : Core.Params) (cops : List Core.Op) (hcre : ∀ o ∈ cops, Core.Owners.creatorOk o)
    (hproj : RollappsFromCore ι (Core.run cp cops) (run (init now mi) ops)) :
    ∃ s', streamerEndBlock (run (init now mi) ops) = .ok s' :=
  streamer_endBlock_ok_reachable now mi ops hw hlen
    ⟨hlocks, rollapp_owners_not_blocked_of_core ι hι _ (Core.Owners.run_owners cp cops hcre) _ hproj⟩

/-- non-vacuity of the projection: an address translation agreeing with both blocked lists exists
    (M-Core's blocked module accounts 900.. ↦ M-Incent's blocked lockup module account 102, everything
    else ↦ an ordinary address), and a transferred owner is projected -/
example : ∃ ι : Core.Addr → Nat, (∀ a, blocked (ι a) = Core.blockedAddr a) ∧ ι 5 = 1005 :=
  ⟨fun a => if Core.blockedAddr a then 102 else a + 1000, by
    intro a
    show blocked (if Core.blockedAddr a = true then 102 else a + 1000) = Core.blockedAddr a
    cases h : Core.blockedAddr a with
    | true => simp [blocked]
    | false => simp [blocked, incAddr], by decide⟩

end DymVerif.C11
