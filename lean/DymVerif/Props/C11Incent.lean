/-
  Props/C11Incent — block processing never fails: x/streamer EndBlock and the x/incentives epoch hook
  (over M-Incent, after fixes D1 79ac8ab6d, D2 47c6d7c68 and F4 64b101c36).
  Full statement: see Props/C11.  Here, for EVERY admissible history of M-Incent (locks, gauges,
  streams, sponsorship distributions, epoch boundaries, iteration limits from 1 up; `Admissible` = each
  op well-formed and no governance re-targeting of a half-served stream, which is a recorded known
  finding of C15) whose final state has no blocked lock owner or rollapp owner:
    * the streamer EndBlock returns no error (`streamer_end_block_never_fails`), so the `end` op does
      not halt the chain (`end_block_does_not_halt`);
    * the incentives epoch hook returns no error (`incentives_epoch_end_never_fails`).
  The hypothesis "no blocked recipient" is what fix F4 establishes on the real chain for rollapp
  owners (creation needs the owner's signature, transfer now refuses blocked addresses; lock owners
  are signers): `blocked_owner_fails_block_counterexample` shows it is needed.
  The ROLLAPP-OWNER half of that hypothesis is not assumed: the rollapp table of M-Incent (its
  `.rollapp r owner launched` inputs) is a projection of an M-Core state (`RollappsFromCore`), and M-Core
  proves `OwnersNotBlocked` for every reachable state — ownership transfers included
  (`Lemmas/CoreOwners.run_owners`, through `Core.transferOwner`'s refusal of a blocked new owner = /repo
  fix 64b101c36).  Reverting that fix breaks `transferOwnership_skeleton` (tie) and `run_owners` (proof).
-/
import DymVerif.Lemmas.IncentBlocks
import DymVerif.Lemmas.CoreOwners
namespace DymVerif.C11
open DymVerif DymVerif.Incent

/-- general form, for any state without blocked recipients -/
theorem streamer_end_block_never_fails_of_noBlocked (now mi : Nat) (ops : List Op)
    (hw : ∀ op ∈ ops, op.wf ∧ op.wfS ∧ op.noRetarget)
    (hlen : (run (init now mi) ops).streams.length < maxU64) (hnb : NoBlocked (run (init now mi) ops)) :
    ∃ s', streamerEndBlock (run (init now mi) ops) = .ok s' :=
  streamer_endBlock_ok_reachable now mi ops hw hlen hnb

/-- the rollapp table M-Incent was given is a projection of the M-Core state `cs` under the address
    translation `ι`: every entry is the padding placeholder or carries the owner of a rollapp record of `cs` -/
def RollappsFromCore (ι : Core.Addr → Nat) (cs : Core.St) (s : State) : Prop :=
  ∀ ra ∈ s.rollapps, ra = ⟨false, 0, false⟩ ∨ ∃ r ∈ cs.ras, ra.owner = ι r.owner

/-- **projection lemma**: rollapp owners taken from an M-Core state satisfying `OwnersNotBlocked`, under an
    address translation that agrees with the bank's blocked list on both sides, are not blocked in M-Incent -/
theorem rollapp_owners_not_blocked_of_core (ι : Core.Addr → Nat) (hι : ∀ a, blocked (ι a) = Core.blockedAddr a)
    (cs : Core.St) (hc : Core.OwnersNotBlocked cs) (s : State) (hp : RollappsFromCore ι cs s) :
    ∀ ra ∈ s.rollapps, blocked ra.owner = false := by
  intro ra hra
  rcases hp ra hra with h | ⟨r, hr, ho⟩
  · subst h; decide
  · rw [ho, hι]; exact hc r hr

/-- **streamer_end_block_never_fails** — for every admissible history of M-Incent whose lock owners are
    not blocked (lock owners are signers) and whose rollapp table is a projection of ANY reachable M-Core
    state (any parameters, any op sequence — `MsgTransferOwnership` included — with rollapps created by
    non-module accounts), the streamer EndBlock returns no error.  The rollapp-owner half of `NoBlocked`
    is discharged from M-Core's `OwnersNotBlocked`. -/
theorem streamer_end_block_never_fails (now mi : Nat) (ops : List Op)
    (hw : ∀ op ∈ ops, op.wf ∧ op.wfS ∧ op.noRetarget)
    (hlen : (run (init now mi) ops).streams.length < maxU64)
    (hlocks : ∀ l ∈ (run (init now mi) ops).locks, blocked l.owner = false)
    (ι : Core.Addr → Nat) (hι : ∀ a, blocked (ι a) = Core.blockedAddr a)
    (cp : Core.Params) (cops : List Core.Op) (hcre : ∀ o ∈ cops, Core.Owners.creatorOk o)
    (hproj : RollappsFromCore ι (Core.run cp cops) (run (init now mi) ops)) :
    ∃ s', streamerEndBlock (run (init now mi) ops) = .ok s' :=
  streamer_endBlock_ok_reachable now mi ops hw hlen
    ⟨hlocks, rollapp_owners_not_blocked_of_core ι hι _ (Core.Owners.run_owners cp cops hcre) _ hproj⟩

/-- non-vacuity of the projection: an address translation agreeing with both blocked lists exists
    (M-Core's blocked module accounts 900.. ↦ M-Incent's blocked lockup module account 102, everything
    else ↦ an ordinary address), and a transferred owner is projected -/
example : ∃ ι : Core.Addr → Nat, (∀ a, blocked (ι a) = Core.blockedAddr a) ∧ ι 5 = 1005 :=
  ⟨fun a => if Core.blockedAddr a then 102 else a + 1000, by
    intro a
    show blocked (if Core.blockedAddr a = true then 102 else a + 1000) = Core.blockedAddr a
    cases h : Core.blockedAddr a with
    | true => simp [blocked]
    | false => simp [blocked, incAddr], by decide⟩
