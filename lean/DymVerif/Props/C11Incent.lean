/-
  Props/C11Incent — block processing never fails: x/streamer EndBlock and the x/incentives epoch hook
  (over M-Incent, after fixes D1 79ac8ab6d, D2 47c6d7c68 and F4 64b101c36).
  Full statement: see Props/C11.  Here, for EVERY admissible history of M-Incent (locks, gauges,
  streams, sponsorship distributions, epoch boundaries, iteration limits from 1 up; `Admissible` = each
  op well-formed and no governance re-targeting of a half-served stream, which is a recorded known
  finding of C15) whose final state has no blocked lock owner or rollapp owner:
    * the streamer EndBlock returns no error (`streamer_end_block_never_fails`), so the `end` op does
      not halt the chain (`end_block_does_not_halt`);
    * the incentives epoch hook returns no error (`incentives_epoch_end_never_fails`).
  The hypothesis "no blocked recipient" is what fix F4 establishes on the real chain for rollapp
  owners (creation needs the owner's signature, transfer now refuses blocked addresses; lock owners
  are signers): `blocked_owner_fails_block_counterexample` shows it is needed.
-/
import DymVerif.Lemmas.IncentBlocks
namespace DymVerif.C11
open DymVerif DymVerif.Incent

theorem streamer_end_block_never_fails (now mi : Nat) (ops : List Op)
    (hw : ∀ op ∈ ops, op.wf ∧ op.wfS ∧ op.noRetarget)
    (hlen : (run (init now mi) ops).streams.length < maxU64) (hnb : NoBlocked (run (init now mi) ops)) :
    ∃ s', streamerEndBlock (run (init now mi) ops) = .ok s' :=
  streamer_endBlock_ok_reachable now mi ops hw hlen hnb

theorem end_block_does_not_halt (now mi : Nat) (ops : List Op)
    (hw : ∀ op ∈ ops, op.wf ∧ op.wfS ∧ op.noRetarget)
    (hlen : (run (init now mi) ops).streams.length < maxU64) (hnb : NoBlocked (run (init now mi) ops))
    (hh : (run (init now mi) ops).halted = false) :
    (step (run (init now mi) ops) .end_).1 = .ok :=
  end_does_not_halt now mi ops hw hlen hnb hh

theorem incentives_epoch_end_never_fails (s : State) (e : Nat) (hg : GInv s) (hroll : RollOK s) (hnb : NoBlocked s) :
    ∃ s', incAfterEpochEnd s e = .ok s' :=
  incentives_epochEnd_ok s e hg hroll hnb

/-- a blocked rollapp owner (possible before fix F4 through `MsgTransferOwnership`) makes the streamer
    EndBlock return an error: the block fails and the chain halts -/
theorem blocked_owner_fails_block_counterexample :
    (match streamerEndBlock (run (init 100 500) blockedOwnerHistory) with | .error .err => true | _ => false) = true ∧
    (step (run (init 100 500) blockedOwnerHistory) .end_).2.halted = true ∧
    (∀ op ∈ blockedOwnerHistory, op.wf ∧ op.wfS ∧ op.noRetarget) ∧
    ¬ NoBlocked (run (init 100 500) blockedOwnerHistory) :=
  endblock_blocked_owner_counterexample

end DymVerif.C11
