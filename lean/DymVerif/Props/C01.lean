/-
  Props/C01 — rollapp state updates form one gap-free chain posted only by the proposer.
  Property theorems over M-Core, for every parameter value and every operation sequence.
-/
import DymVerif.Lemmas.CoreChainInv2
import DymVerif.Lemmas.CoreSearch
namespace DymVerif.C01
open DymVerif DymVerif.Core

/-- a rejected message leaves every component of the state untouched (the model returns its input
    state on error, mirroring baseapp's per-message cache context; that the real code does so is
    checked by the harness: full observation equality after every rejected op) -/
theorem reject_unchanged (s : St) (o : Op) (e : Err) (h : (step s o).2 = some e) : (step s o).1 = s := by
  unfold step at *
  cases h' : apply s o with
  | ok s' => simp [h'] at h
  | error e' => simp [h']

/-- **Gap-free chain, every reachable state.**  For every parameter set and every sequence of
    operations (create / bond / rotate / kick / update / fraud-fork / obsolete / blocks with arbitrary
    injected finalization failures), the recorded states of every rollapp are numbered 1..n by
    position, each is well formed (≥ 1 block, descriptors exactly its heights in order) and each
    starts exactly one block after the previous one ends — forks included, because a fork truncates
    the kept state to a positive number of blocks or keeps its predecessor. -/
theorem chain_inv (p : Params) (ops : List Op) (r : Rollapp) (hr : r ∈ (run p ops).ras) :
    Chain r.states := run_chain p ops r hr

/-- what an accepted update satisfied at the moment it was accepted -/
theorem update_accept_spec (s s' : St) (m : UpdMsg) (h : apply s (.update m) = .ok s') :
    ∃ r, getRa s m.ra = some r ∧
      r.proposer = some m.sender ∧                       -- sent by the proposer of that moment
      latestRev r = m.rev ∧                              -- carries the current revision
      (∀ a, r.states.getLast? = some a → m.start = a.start + a.num) ∧   -- starts right after the last state
      1 ≤ m.num ∧ m.bds.length = m.num ∧ 1 ≤ m.start ∧
      (∀ i b, m.bds[i]? = some b → b.height = m.start + i ∧ b.rootOk = true) ∧  -- consistent descriptors
      s.obsolete.contains ((m.bds.getLast?.map (·.drs)).getD 0) = false ∧      -- DRS version not obsolete
      (m.last = true → awaitingLast s r = true) := by                           -- 'last' only in a rotation
  simp only [apply] at h
  unfold updateState at h
  split at h
  · cases h
  · rename_i hvb
    split at h
    · cases h
    · rename_i r hg
      split at h
      · cases h
      · rename_i hprop
        split at h
        · cases h
        · rename_i hlast
          split at h
          · cases h
          · rename_i hrev
            split at h
            · cases h
            · rename_i hpre
              split at h
              · cases h
              · rename_i hobs
                have hw := updValidateBasic_wf hvb s NextP.empty
                refine ⟨r, hg, by simpa using hprop, by simpa using hrev, updPre_start hpre, hw.num_pos, hw.bds_len,
                  hw.start_pos, ?_, by simpa using hobs, ?_⟩
                · intro i b hb
                  refine ⟨hw.bds_seq i b hb, ?_⟩
                  -- the root flag: from validateBDs
                  have : ∀ (bds : List BD) (k : Nat), validateBDs m.start k bds = .ok () → ∀ (i : Nat) (b : BD), bds[i]? = some b → b.rootOk = true := by
                    intro bds
                    induction bds with
                    | nil => intro k _ i b hb; simp at hb
                    | cons x xs ih =>
                      intro k hv i b hb
                      unfold validateBDs at hv
                      split at hv
                      · cases hv
                      · split at hv
                        · cases hv
                        · rename_i _ hroot
                          cases i with
                          | zero => simp at hb; subst hb; simpa using hroot
                          | succ j => simp at hb; exact ih (k + 1) hv j b hb
                  unfold updValidateBasic at hvb
                  split at hvb
                  · cases hvb
                  · split at hvb
                    · cases hvb
                    · split at hvb
                      · cases hvb
                      · split at hvb
                        · cases hvb
                        · exact this m.bds 0 hvb i b hb
                · intro hl
                  rw [hl] at hlast
                  simpa using hlast

/-- looking a height up returns only a state that contains it -/
theorem lookup_sound (r : Rollapp) (h i : Nat) (e : findByHeight r h = some i) :
    ∃ st, r.states[i - 1]? = some st ∧ st.contains h = true := findByHeight_sound r h i e

/-- **Lookup is exact in every reachable state**: a height contained in the state with (1-based)
    index k is found, and it is that index (uniqueness: the search returns a container, and the
    container it must return is k). -/
theorem lookup_complete (p : Params) (ops : List Op) (r : Rollapp) (hr : r ∈ (run p ops).ras)
    (h k : Nat) (st : SInfo) (hk : r.states[k]? = some st) (h1 : st.start ≤ h) (h2 : h ≤ st.start + st.num - 1) :
    findByHeight r h = some (k + 1) := by
  have hc := chain_inv p ops r hr
  have hwst := hc.wf st (List.mem_of_getElem? hk)
  have hklt : k < r.states.length := by
    rcases Nat.lt_or_ge k r.states.length with h3 | h3
    · exact h3
    · rw [List.getElem?_eq_none h3] at hk; cases hk
  unfold findByHeight
  rw [if_neg (by have := hwst.start_pos; omega)]
  cases hl : r.states.getLast? with
  | none =>
    have : r.states = [] := by simpa using hl
    rw [this] at hklt; simp at hklt
  | some l =>
    dsimp only
    have hwl := hc.wf l (List.mem_of_getLast? hl)
    have hll : r.states[r.states.length - 1]? = some l := by rw [← List.getLast?_eq_getElem?]; exact hl
    have hle : st.start + st.num ≤ l.start + l.num := by
      rcases Nat.lt_or_ge k (r.states.length - 1) with h3 | h3
      · have := hc.mono' k (r.states.length - 1) st l h3 hk hll
        have := hwl.num_pos; omega
      · have : k = r.states.length - 1 := by omega
        rw [this, hll] at hk; injection hk with hk; subst hk; exact Nat.le_refl _
    have hlast : l.last = l.start + l.num - 1 := by
      unfold SInfo.last; rw [if_pos (by have := hwl.num_pos; omega)]
    rw [if_neg (by rw [hlast]; have := hwst.num_pos; omega)]
    exact findByHeightAux_complete r.states hc h _ 1 r.states.length (k + 1) st (by simpa using hk)
      ((contains_iff st h hwst).2 ⟨h1, h2⟩) (Nat.le_refl _) (by omega) (by omega) (Nat.le_refl _) (by omega)

/-- nothing is returned for height 0 and for heights above the latest one -/
theorem lookup_none_beyond (r : Rollapp) (h : Nat)
    (hb : h = 0 ∨ ∀ l, r.states.getLast? = some l → l.last < h) : findByHeight r h = none := by
  unfold findByHeight
  rcases hb with h0 | hb
  · rw [if_pos h0]
  · split
    · rfl
    · split
      · rfl
      · rename_i l hl
        rw [if_pos (hb l hl)]

/-- every height between the first state's start and the latest height has exactly one container,
    and the lookup returns it (so "for every height up to the latest, exactly the one update that
    contains it") -/
theorem lookup_total (p : Params) (ops : List Op) (r : Rollapp) (hr : r ∈ (run p ops).ras)
    (first last : SInfo) (hf : r.states[0]? = some first) (hl : r.states.getLast? = some last)
    (h : Nat) (h1 : first.start ≤ h) (h2 : h ≤ last.start + last.num - 1) :
    ∃ k st, r.states[k]? = some st ∧ st.start ≤ h ∧ h ≤ st.start + st.num - 1 ∧ findByHeight r h = some (k + 1) := by
  have hc := chain_inv p ops r hr
  have hll : r.states[r.states.length - 1]? = some last := by rw [← List.getLast?_eq_getElem?]; exact hl
  obtain ⟨k, st, _, hk, hs1, hs2⟩ := hc.container first hf h h1 (r.states.length - 1) last hll h2
  exact ⟨k, st, hk, hs1, hs2, lookup_complete p ops r hr h k st hk hs1 hs2⟩

-- non-vacuity: a concrete history (two updates, the second one by the same proposer) is accepted
-- and yields a two-element chain
def exParams : Params where
  dispute := 2
  lsBlocks := 5
  lsInterval := 2
  lsMul := ⟨0⟩
  lsAbs := 0
  dishonorSU := 1
  dishonorL := 1
  kickThr := 2
  noticePeriod := 10
def exBds (start n : Nat) : List BD := (List.range n).map fun i => { height := start + i, hasTs := true, drs := 1, rootOk := true }
def exOps : List Op := [.createRollapp 0 9 10, .fund 1 100, .createSeq 1 0 10 true,
  .update { ra := 0, sender := 1, start := 1, num := 3, rev := 0, last := false, bds := exBds 1 3 },
  .update { ra := 0, sender := 1, start := 4, num := 2, rev := 0, last := false, bds := exBds 4 2 }]
example : ((run exParams exOps).ras.map fun r => r.states.map fun s => (s.start, s.num)) = [[(1, 3), (4, 2)]] := by decide

end DymVerif.C01
