/-
  Props/C06X — sequencer bonds leave only by refund, slash or reward: the op-level statements.

  Props/C06 states the withdrawal rules for the helper `tryUnbond` and classifies every bond decrease
  by the kind of op.  This file states them for the MESSAGES themselves and ties the third kind
  (block end) to the liveness schedule of C08:

    (a) an accepted `MsgDecreaseBond` / a paying `MsgUnbond` REQUIRES that the sender is neither
        proposer nor successor of its rollapp, has no unfinalized rollapp height on record, and leaves
        it with a bond that is zero (then unbonded) or at least the rollapp's minimum bond — with the
        exact accounting; an accepted `MsgUnbond` of the proposer pays nothing (it only starts the
        notice period).  Run-level corollary: while a sequencer is liable for an unfinalized height
        (has a sequencer-height record), its decrease / unbond is refused.
    (b) in every reachable state, a bond lowered by a block end belongs to the proposer of a rollapp
        whose liveness event is due at that very height, and is lowered by exactly one liveness slash.
-/
import DymVerif.Props.C06
import DymVerif.Props.C03
import DymVerif.Lemmas.CoreXEndSlash
import DymVerif.Lemmas.CoreXLiable
namespace DymVerif.C06X
open DymVerif DymVerif.Core DymVerif.Core.LevNs DymVerif.Core.LevNs.XEnd DymVerif.Core.XLiable

-- ================================================================================================
-- (a) what an accepted withdrawal requires
-- ================================================================================================

/-- the pre-conditions and the accounting of a withdrawal of `amt` by `a` in the step `s → s'`:
    `a`'s record `q` (before) / `q'` (after) and its rollapp `r` (before) -/
structure Paid (s s' : St) (a : Addr) (amt : Nat) (q q' : Seq) (r : Rollapp) : Prop where
  seq : getSeq s a = some q
  seq' : getSeq s' a = some q'
  ra : getRa s q.rollapp = some r
  /-- `a` is not the proposer of its rollapp -/
  notProposer : r.proposer ≠ some a
  /-- … nor the successor -/
  notSuccessor : r.successor ≠ some a
  /-- no rollapp height posted by `a` is still unfinalized -/
  notLiable : s.seqH.any (·.1 == a) = false
  /-- the bond went down by exactly `amt` -/
  bond : q'.tokens + amt = q.tokens
  /-- … `a`'s own bank balance up by exactly `amt` -/
  bal : getBal s'.bal a = getBal s.bal a + amt
  /-- … the module account down by exactly `amt`, nothing burned, nobody else's balance or record moved -/
  modBal : s'.modBal + amt = s.modBal
  burned : s'.burned = s.burned
  otherBal : ∀ b, b ≠ a → getBal s'.bal b = getBal s.bal b
  others : ∀ b, b ≠ a → getSeq s' b = getSeq s b
  /-- the remaining bond is zero or at least the rollapp's minimum bond -/
  minBond : q'.tokens = 0 ∨ r.minBond ≤ q'.tokens
  /-- a sequencer left with nothing is unbonded -/
  zeroUnbonded : q'.tokens = 0 → q'.bonded = false
  /-- the record stays with its address and rollapp -/
  same : q'.addr = a ∧ q'.rollapp = q.rollapp

/-- the common core: a successful `tryUnbond` on (a copy of) `a`'s record, written back -/
theorem paid_of_tryUnbond {s s1 : St} {q0 q q1 : Seq} {a : Addr} {amt : Nat} (hg : getSeq s a = some q0)
    (hqa : q.addr = a) (hqt : q.tokens = q0.tokens) (hqr : q.rollapp = q0.rollapp)
    (e : tryUnbond s q amt = .ok (s1, q1)) : ∃ r, Paid s (setSeq s1 q1) a amt q0 q1 r := by
  have e0 := e
  unfold tryUnbond at e0
  split at e0
  · cases e0
  · split at e0
    · cases e0
    · split at e0
      · cases e0
      · rename_i r hr
        clear e0
        have hb := C06.withdraw_blocked s s1 q q1 amt e
        have hx := C06.withdraw_exact_and_min_bond s s1 q q1 amt r hr e
        have hq := tryUnbond_q e
        have w := withdrawn_of_tryUnbond hg hqa hqt e
        have hq1a : q1.addr = a := hq.2.2.1.trans hqa
        have hrec' : getSeq (setSeq s1 q1) a = some q1 := by
          have : getSeq s1 q1.addr = some q0 := by rw [getSeq_congr hq.2.1, hq1a]; exact hg
          rw [← hq1a]; exact getSeq_setSeq_self this
        have hnp : r.proposer ≠ some a := by
          have := hb.1
          unfold isProposer at this
          rw [hr, hqa] at this
          simpa using this
        have hns : r.successor ≠ some a := by
          have := hb.2.1
          unfold isSuccessor at this
          rw [hr, hqa] at this
          simpa using this
        refine ⟨r, hg, hrec', by rw [← hqr]; exact hr, hnp, hns, by rw [← hqa]; exact hb.2.2,
          by rw [← hqt]; exact hx.1, ?_, hx.2.2.1, w.burned, w.otherBal, w.others, ?_, hx.2.2.2.1,
          hq1a, hq.2.2.2.trans hqr⟩
        · show getBal s1.bal a = _
          rw [← hqa]; exact hx.2.1
        · by_cases h0 : q1.tokens = 0
          · exact Or.inl h0
          · exact Or.inr (hx.2.2.2.2 h0)

/-- **withdraw_requires (MsgDecreaseBond)** — in ANY state: if `MsgDecreaseBond(a, amt)` is accepted
    then `amt > 0`, `a` is a sequencer that is neither the proposer nor the successor of its rollapp,
    no sequencer-height record of `a` exists (none of the rollapp heights it posted is unfinalized),
    the bond goes down by exactly `amt`, which is paid to `a`'s own address out of the module account
    (nothing burned, nobody else touched), and the remaining bond is either zero — then the sequencer
    is unbonded — or at least the rollapp's minimum bond. -/
theorem bondDec_requires (s s' : St) (a : Addr) (amt : Nat) (h : apply s (.bondDec a amt) = .ok s') :
    0 < amt ∧ ∃ q q' r, Paid s s' a amt q q' r := by
  simp only [apply] at h
  unfold decreaseBond at h
  split at h
  · cases h
  · rename_i q hg
    split at h
    · cases h
    · rename_i hamt
      split at h
      · cases h
      · rename_i s1 q1 hs
        injection h with h; subst h
        obtain ⟨r, pd⟩ := paid_of_tryUnbond hg (getSeq_addr hg) rfl rfl hs
        exact ⟨Nat.pos_of_ne_zero hamt, q, q1, r, pd⟩

/-- **withdraw_requires (MsgUnbond)** — in ANY state, an accepted `MsgUnbond(a)` is one of two things:

    * `a` IS the proposer of its rollapp: nothing is paid — no balance, bond, module-account or burn
      change; the message only opts `a` out and starts its notice period (queued at `now + noticePeriod`);
      this requires that no rotation is already in progress and that the rollapp may be forked;
    * `a` is NOT the proposer: the whole bond `q.tokens` is paid to `a`'s own address under the
      conditions of `Paid` (not the successor either, no unfinalized height on record), and the
      record is left with zero tokens, unbonded and opted out. -/
theorem unbond_requires (s s' : St) (a : Addr) (h : apply s (.unbond a) = .ok s') :
    ∃ q r, getSeq s a = some q ∧ getRa s q.rollapp = some r ∧
      ((r.proposer = some a ∧
          getSeq s' a = some { q with optedIn := false, notice := some (s.t + s.sqp.noticePeriod) } ∧
          s'.nq = insertSorted ltPair (s.t + s.sqp.noticePeriod, a) s.nq ∧
          s'.bal = s.bal ∧ s'.modBal = s.modBal ∧ s'.burned = s.burned ∧ s'.ras = s.ras ∧ s'.seqH = s.seqH ∧
          (∀ b, b ≠ a → getSeq s' b = getSeq s b) ∧
          forkLatestAllowed r = true ∧ noticeInProgress q s.t = false ∧ awaitingLast s r = false) ∨
       (r.proposer ≠ some a ∧ ∃ q', Paid s s' a q.tokens q q' r ∧
          q'.tokens = 0 ∧ q'.bonded = false ∧ q'.optedIn = false)) := by
  simp only [apply] at h
  unfold unbond at h
  split at h
  · cases h
  · rename_i q hg
    have hqa : q.addr = a := getSeq_addr hg
    split at h
    · cases h
    · rename_i r hr
      refine ⟨q, r, hg, hr, ?_⟩
      split at h
      · cases h
      · rename_i haw
        have hisP : isProposer s q = (r.proposer == some a) := by
          unfold isProposer; rw [hr, hqa]
        split at h
        · rename_i hp
          have hpa : r.proposer = some a := by rw [hisP] at hp; simpa using hp
          split at h
          · cases h
          · rename_i hfl
            split at h
            · cases h
            · rename_i hnip
              injection h with h; subst h
              left
              have hg0 : getSeq { s with nq := insertSorted ltPair (s.t + s.sqp.noticePeriod, a) s.nq } q.addr = some q := by
                rw [hqa]; exact hg
              refine ⟨hpa, ?_, rfl, rfl, rfl, rfl, rfl, rfl, ?_, by simpa using hfl, by simpa using hnip, ?_⟩
              · rw [← hqa]
                exact getSeq_setSeq_self (q := { q with optedIn := false, notice := some (s.t + s.sqp.noticePeriod) }) hg0
              · intro b hb
                rw [getSeq_setSeq_other (show ({ q with optedIn := false, notice := some (s.t + s.sqp.noticePeriod) } : Seq).addr ≠ b by
                  show q.addr ≠ b; rw [hqa]; exact Ne.symm hb)]
                rfl
              · have : ¬ (awaitingLast s r = true ∧ (isProposer s q = true ∨ isSuccessor s q = true)) := by
                  simpa using haw
                cases hx : awaitingLast s r with
                | false => rfl
                | true => exact absurd ⟨hx, Or.inl hp⟩ this
        · rename_i hp
          have hpa : r.proposer ≠ some a := by rw [hisP] at hp; simpa using hp
          split at h
          · cases h
          · rename_i s1 q1 hs
            injection h with h; subst h
            right
            obtain ⟨r', pd⟩ := paid_of_tryUnbond (q := { q with optedIn := false }) hg hqa rfl rfl hs
            have : r' = r := by
              have := pd.ra; rw [hr] at this; injection this with this; exact this.symm
            subst this
            have ht : q1.tokens = 0 := by have := pd.bond; omega
            refine ⟨hpa, q1, pd, ht, pd.zeroUnbonded ht, ?_⟩
            -- `tryUnbond` returns the record it was given up to tokens / bonded
            unfold tryUnbond at hs
            split at hs
            · cases hs
            · split at hs
              · cases hs
              · split at hs
                · cases hs
                · dsimp only at hs
                  split at hs
                  · cases hs
                  · split at hs
                    · cases hs
                    · rename_i s0 q0 h0
                      injection hs with hs; injection hs with _ e2; subst e2
                      have : q0.optedIn = false := by
                        unfold sendFromModule at h0
                        split at h0
                        · cases h0
                        · split at h0
                          · cases h0
                          · split at h0
                            · cases h0
                            · injection h0 with h0; injection h0 with _ e2; subst e2; rfl
                      split <;> exact this

/-- **withdraw_requires** — the two messages together, in the shape of kind 1 of
    `C06.bond_decreases_only_by`: in ANY state, if `MsgUnbond(a)` or `MsgDecreaseBond(a, ·)` is accepted
    and `a`'s bond is strictly smaller afterwards, then the decrease `d` was a withdrawal satisfying
    `Paid`: `a` was neither proposer nor successor of its rollapp, had no unfinalized height on record,
    `d` went to `a`'s own address out of the module account, and the remaining bond is zero (unbonded)
    or at least the rollapp's minimum bond. -/
theorem withdraw_requires (s s' : St) (a : Addr) (o : Op) (ho : o = .unbond a ∨ ∃ amt, o = .bondDec a amt)
    (h : apply s o = .ok s') (q q' : Seq) (hq : getSeq s a = some q) (hq' : getSeq s' a = some q')
    (hlt : q'.tokens < q.tokens) : ∃ r, Paid s s' a (q.tokens - q'.tokens) q q' r := by
  rcases ho with ho | ⟨amt, ho⟩
  · subst ho
    obtain ⟨q0, r, hq0, hr, hc⟩ := unbond_requires s s' a h
    have e1 : q0 = q := by rw [hq] at hq0; injection hq0 with hq0; exact hq0.symm
    subst e1
    rcases hc with ⟨_, hrec, _⟩ | ⟨_, q1, pd, ht, _⟩
    · exfalso
      rw [hq'] at hrec; injection hrec with hrec
      rw [hrec] at hlt
      exact Nat.lt_irrefl _ hlt
    · have e2 : q1 = q' := by have := pd.seq'; rw [hq'] at this; injection this with this; exact this.symm
      subst e2
      refine ⟨r, ?_⟩
      rw [ht, Nat.sub_zero]; exact pd
  · subst ho
    obtain ⟨_, q0, q1, r, pd⟩ := bondDec_requires s s' a amt h
    have e1 : q0 = q := by have := pd.seq; rw [hq] at this; injection this with this; exact this.symm
    subst e1
    have e2 : q1 = q' := by have := pd.seq'; rw [hq'] at this; injection this with this; exact this.symm
    subst e2
    have : q0.tokens - q1.tokens = amt := by have := pd.bond; omega
    exact ⟨r, by rw [this]; exact pd⟩

/-- **withdraw_blocked (messages)** — in ANY state, while `a` is the proposer or the successor of its
    rollapp, or has a sequencer-height record (an unfinalized rollapp height it posted), its
    `MsgDecreaseBond` is refused whatever the amount, and its `MsgUnbond` pays nothing: it is refused,
    or — for the proposer — only starts the notice period. -/
theorem withdraw_refused_when_blocked (s : St) (a : Addr) (q : Seq) (r : Rollapp)
    (hq : getSeq s a = some q) (hr : getRa s q.rollapp = some r)
    (hb : r.proposer = some a ∨ r.successor = some a ∨ s.seqH.any (·.1 == a) = true) :
    (∀ amt, ∃ e, apply s (.bondDec a amt) = .error e) ∧
    (∀ s', apply s (.unbond a) = .ok s' → r.proposer = some a ∧ s'.bal = s.bal ∧ s'.modBal = s.modBal ∧
      ∃ q', getSeq s' a = some q' ∧ q'.tokens = q.tokens ∧ q'.bonded = q.bonded) := by
  constructor
  · intro amt
    cases h : apply s (.bondDec a amt) with
    | error e => exact ⟨e, rfl⟩
    | ok s' =>
      exfalso
      obtain ⟨_, q0, q', r0, pd⟩ := bondDec_requires s s' a amt h
      have e1 : q0 = q := by have := pd.seq; rw [hq] at this; injection this with this; exact this.symm
      subst e1
      have e2 : r0 = r := by have := pd.ra; rw [hr] at this; injection this with this; exact this.symm
      subst e2
      rcases hb with h1 | h1 | h1
      · exact pd.notProposer h1
      · exact pd.notSuccessor h1
      · rw [pd.notLiable] at h1; cases h1
  · intro s' h
    obtain ⟨q0, r0, hq0, hr0, hc⟩ := unbond_requires s s' a h
    have e1 : q0 = q := by rw [hq] at hq0; injection hq0 with hq0; exact hq0.symm
    subst e1
    have e2 : r0 = r := by rw [hr] at hr0; injection hr0 with hr0; exact hr0.symm
    subst e2
    rcases hc with ⟨hp, hrec, _, hbal, hmod, _⟩ | ⟨hnp, q', pd, _⟩
    · exact ⟨hp, hbal, hmod, _, hrec, rfl, rfl⟩
    · exfalso
      rcases hb with h1 | h1 | h1
      · exact hnp h1
      · exact pd.notSuccessor h1
      · rw [pd.notLiable] at h1; cases h1

/-- **liable ⇒ no withdrawal** — in ANY state: while some (a, height) liability is on record, `a`'s
    `MsgDecreaseBond` is refused whatever the amount, and an accepted `MsgUnbond` of `a` can only be the
    proposer's notice (no balance, module-account or bond change). -/
theorem liable_blocks (s : St) (a : Addr) (hl : s.seqH.any (·.1 == a) = true) :
    (∀ amt, ∃ e, apply s (.bondDec a amt) = .error e) ∧
    (∀ s', apply s (.unbond a) = .ok s' → ∃ q r, getSeq s a = some q ∧ getRa s q.rollapp = some r ∧
      r.proposer = some a ∧ s'.bal = s.bal ∧ s'.modBal = s.modBal ∧
      getSeq s' a = some { q with optedIn := false, notice := some (s.t + s.sqp.noticePeriod) }) := by
  constructor
  · intro amt
    cases h : apply s (.bondDec a amt) with
    | error e => exact ⟨e, rfl⟩
    | ok s' =>
      exfalso
      obtain ⟨_, q0, q', r0, pd⟩ := bondDec_requires s s' a amt h
      rw [pd.notLiable] at hl; cases hl
  · intro s' h
    obtain ⟨q, r, hq, hr, hc⟩ := unbond_requires s s' a h
    rcases hc with ⟨hp, hrec, _, hbal, hmod, _⟩ | ⟨_, q', pd, _⟩
    · exact ⟨q, r, hq, hr, hp, hbal, hmod, hrec⟩
    · exfalso; rw [pd.notLiable] at hl; cases hl

/-- **update_makes_liable** — in ANY state: an accepted `MsgUpdateState` leaves a (sender, height)
    liability for every block descriptor it carries (at least one), so from that moment — until the
    heights are finalized or pruned by a fork — the sender's `MsgDecreaseBond` is refused. -/
theorem update_makes_liable (s s' : St) (m : UpdMsg) (h : apply s (.update m) = .ok s') :
    (∀ b ∈ m.bds, (m.sender, b.height) ∈ s'.seqH) ∧ s'.seqH.any (·.1 == m.sender) = true ∧
    ∀ amt, ∃ e, apply s' (.bondDec m.sender amt) = .error e := by
  simp only [apply] at h
  obtain ⟨hne, hall⟩ := updateState_liable h
  have hany : s'.seqH.any (·.1 == m.sender) = true := by
    cases hb : m.bds with
    | nil => exact absurd hb hne
    | cons b bs =>
      exact List.any_eq_true.2 ⟨(m.sender, b.height), hall b (by rw [hb]; exact List.mem_cons_self), by simp⟩
  exact ⟨hall, hany, (liable_blocks s' m.sender hany).1⟩

/-- **withdraw_blocked_while_liable** (run level) — in every reachable state: while a liability
    `(a, h)` is on record — by the liability invariant (`C03.liability_inv`) it refers to an UNFINALIZED
    height `h` of a state of `a`'s own rollapp that `a` itself created — `a`'s `MsgDecreaseBond` is
    refused and its `MsgUnbond` pays nothing.

    Direction of the invariant: what is proved for every reachable state is "every liability record
    refers to an unfinalized state created by that sequencer" (`Fork.Liab`).  The converse inclusion
    (Appendix A6: every height of every unfinalized state has a liability record) is established by
    the step that creates the state (`update_makes_liable`) but is not proved as an invariant of all
    runs, so the hypothesis here is the record, not the state. -/
theorem withdraw_blocked_while_liable (p : Params) (ops : List Op) (a : Addr) (h : Nat)
    (hm : (a, h) ∈ (run p ops).seqH) :
    (∃ (q : Seq) (r : Rollapp) (i : Nat) (st : SInfo), getSeq (run p ops) a = some q ∧
      getRa (run p ops) q.rollapp = some r ∧ r.states[i]? = some st ∧ st.creator = a ∧ st.finalized = false ∧
      st.start ≤ h ∧ h ≤ st.last) ∧
    (∀ amt, ∃ e, (step (run p ops) (.bondDec a amt)).2 = some e) ∧
    (∀ s', apply (run p ops) (.unbond a) = .ok s' → s'.bal = (run p ops).bal ∧ s'.modBal = (run p ops).modBal ∧
      ∃ q q', getSeq (run p ops) a = some q ∧ getSeq s' a = some q' ∧ q'.tokens = q.tokens ∧ q'.bonded = q.bonded) := by
  have hany : (run p ops).seqH.any (·.1 == a) = true := List.any_eq_true.2 ⟨(a, h), hm, by simp⟩
  have hb := liable_blocks (run p ops) a hany
  refine ⟨C03.liability_inv p ops (a, h) hm, ?_, ?_⟩
  · intro amt
    obtain ⟨e, he⟩ := hb.1 amt
    exact ⟨e, by unfold step; rw [he]⟩
  · intro s' hs'
    obtain ⟨q, r, hq, _, _, hbal, hmod, hrec⟩ := hb.2 s' hs'
    exact ⟨hbal, hmod, q, _, hq, hrec, rfl, rfl⟩

-- ================================================================================================
-- (b) a bond lowered by a block end was lowered by a due liveness slash of the rollapp's proposer
-- ================================================================================================

/-- **end_changes_only_due_proposers** — along every run, for every block end (with whatever injected
    finalization failures): a sequencer record that is different afterwards belongs to the PROPOSER of
    a rollapp whose liveness event height equals the current hub height, and the new record is the
    old one after exactly one liveness slash (`slashOnce`: bond minus `livSlashAmt`, dishonor plus the
    liveness penalty, both with the x/sequencer parameters in force `(run p ops).sqp`).  Sequencers that propose for no rollapp, proposers of rollapps whose event is
    not due, and everything finalization does, leave every other record untouched. -/
theorem end_changes_only_due_proposers (p : Params) (ops : List Op) (f : List (Nat × Nat)) (a : Addr) (q q' : Seq)
    (hq : getSeq (run p ops) a = some q) (hq' : getSeq (step (run p ops) (.end_ f)).1 a = some q')
    (hne : q' ≠ q) :
    ∃ ra r, getRa (run p ops) ra = some r ∧ r.proposer = some a ∧ r.evH = (run p ops).h ∧
      q' = slashOnce (run p ops).sqp q :=
  endBlock_changed_record (f := f) (run_lev p ops) (run_cust p ops) (run_own p ops)
    (run_grid p ops).hpos hq hq' hne

/-- **end_decrease_is_liveness_slash** — the `end_` kind of `C06.bond_decreases_only_by`, tied to the
    liveness schedule (C08): along every run, a bond that is lower after a block end than before it
    belongs to the proposer of a rollapp whose liveness event was due at that height
    (`r.evH = hub height`, equivalently `(height, rollapp)` is queued — `C08.event_fires_iff`), the
    record is the old one after one `slashOnce`, and the decrease is exactly
    `livSlashAmt sp q.tokens = min(bond, max(LivenessSlashMinAbsolute, ⌊LivenessSlashMinMultiplier · bond⌋))`
    for `sp = (run p ops).sqp`, the x/sequencer parameters IN FORCE at that block end (the history may
    contain any number of `MsgUpdateParams`).
    Conversely `C08.end_at_event_height_slashes` / `C08.end_before_event_height_does_not` say that
    such a proposer IS slashed and no other proposer is. -/
theorem end_decrease_is_liveness_slash (p : Params) (ops : List Op) (f : List (Nat × Nat)) (a : Addr) (q q' : Seq)
    (hq : getSeq (run p ops) a = some q) (hq' : getSeq (step (run p ops) (.end_ f)).1 a = some q')
    (hlt : q'.tokens < q.tokens) :
    ∃ ra r, getRa (run p ops) ra = some r ∧ r.proposer = some a ∧ r.evH = (run p ops).h ∧
      q' = slashOnce (run p ops).sqp q ∧ q.tokens - q'.tokens = livSlashAmt (run p ops).sqp q.tokens := by
  obtain ⟨ra, r, hg, hp, hev, hs⟩ := end_changes_only_due_proposers p ops f a q q' hq hq'
    (by intro e; rw [e] at hlt; omega)
  refine ⟨ra, r, hg, hp, hev, hs, ?_⟩
  have hle := livSlashAmt_le (run p ops).sqp q.tokens
  rw [hs]
  show q.tokens - (q.tokens - livSlashAmt (run p ops).sqp q.tokens) = livSlashAmt (run p ops).sqp q.tokens
  omega

/-- **bond_decrease_conditions_run** — the conditions behind the kinds of `C06.bond_decreases_only_by_run`,
    along every run: if `a`'s bond is lower after the next op `o` than before it, then

    * if `o` is `a`'s own `MsgUnbond` / `MsgDecreaseBond` (kind 1), the withdrawal satisfied `Paid`: not
      proposer, not successor, no unfinalized height on record, refunded to its own address, remainder
      zero-and-unbonded or at least the minimum bond;
    * if `o` is a block end (kind 3), `a` is the proposer of a rollapp whose liveness event height is the
      current hub height, and the decrease is exactly one liveness slash `livSlashAmt (run p ops).sqp q.tokens`
      (parameters in force).

    (`C06.bond_decreases_only_by_run` says that `o` IS of one of the listed kinds — the remaining kind,
    a punishment naming `a`, has no pre-condition on `a` at all — and gives the money flow of each.) -/
theorem bond_decrease_conditions_run (p : Params) (ops : List Op) (o : Op) (a : Addr) (q q' : Seq)
    (hq : getSeq (run p ops) a = some q) (hq' : getSeq (run p (ops ++ [o])) a = some q') (hlt : q'.tokens < q.tokens) :
    ((o = .unbond a ∨ ∃ amt, o = .bondDec a amt) →
      ∃ r, Paid (run p ops) (run p (ops ++ [o])) a (q.tokens - q'.tokens) q q' r) ∧
    (∀ f, o = .end_ f → ∃ ra r, getRa (run p ops) ra = some r ∧ r.proposer = some a ∧ r.evH = (run p ops).h ∧
      q' = slashOnce (run p ops).sqp q ∧ q.tokens - q'.tokens = livSlashAmt (run p ops).sqp q.tokens) := by
  have hr : run p (ops ++ [o]) = (step (run p ops) o).1 := by
    unfold run; rw [List.foldl_append]; rfl
  constructor
  · intro ho
    have hap : apply (run p ops) o = .ok (run p (ops ++ [o])) := by
      rw [hr] at hq' ⊢
      unfold step at hq' ⊢
      cases h : apply (run p ops) o with
      | ok s' => rfl
      | error e =>
        exfalso
        rw [h] at hq'
        simp only at hq'
        rw [hq] at hq'; injection hq' with hq'; rw [hq'] at hlt; exact Nat.lt_irrefl _ hlt
    exact withdraw_requires _ _ a o ho hap q q' hq hq' hlt
  · intro f ho
    subst ho
    rw [hr] at hq'
    exact end_decrease_is_liveness_slash p ops f a q q' hq hq' hlt

-- ================================================================================================
-- non-vacuity
-- ================================================================================================
open DymVerif.C06 in
/-- (a) the non-proposer a2 (bond 15, minimum 10) may take out 5 but not 6; the proposer a1 nothing -/
example : (step (run exLive exPre) (.bondDec 2 5)).2 = none ∧
    (step (run exLive exPre) (.bondDec 2 6)).2 = some .unbondNotAllowed ∧
    (step (run exLive exPre) (.bondDec 1 1)).2 = some .proposerOrSuccessor := by decide

/-- a rotated-out proposer: a1 serves notice, a2 becomes successor, a1's last update hands over.  a1 is
    then neither proposer nor successor, but heights 1–3 it posted are unfinalized -/
def exRot : List Op := C06.exPre ++ [C06.exUpd, .bridge 0 1, .unbond 1, .begin_ 10,
  .update { ra := 0, sender := 1, start := 3, num := 1, rev := 0, last := true, bds := [C06.exBD 3] }]

example : ((run C06.exParams exRot).ras.map fun r => (r.proposer, r.successor)) = [(some 2, none)] ∧
    (run C06.exParams exRot).seqH = [(1, 1), (1, 2), (1, 3)] := by decide
/-- … so both withdrawals of a1 are refused by the liability blocker … -/
example : (step (run C06.exParams exRot) (.unbond 1)).2 = some .unbondNotAllowed ∧
    (step (run C06.exParams exRot) (.bondDec 1 1)).2 = some .unbondNotAllowed := by decide
/-- … until the dispute period (2 blocks) is over and the states are finalized: then the whole bond is
    refunded and a1 is unbonded -/
example : (let s := run C06.exParams (exRot ++ [.end_ [], .begin_ 1, .end_ [], .begin_ 1, .end_ [], .unbond 1])
    (s.seqH, (getSeq s 1).map fun q => (q.tokens, q.bonded), getBal s.bal 1, s.modBal)) =
    ([], some (0, false), 100, 15) := by decide
/-- the proposer's `MsgUnbond` pays nothing: bond, balance and module account as before, notice started -/
def exProp : St := run C06.exParams (C06.exPre ++ [C06.exUpd, .bridge 0 1])
def exProp' : St := (step exProp (.unbond 1)).1
example : ((getSeq exProp 1).map (·.tokens), (getSeq exProp' 1).map (·.tokens), (getSeq exProp' 1).map (·.bonded),
      (getSeq exProp' 1).map (·.optedIn), (getSeq exProp' 1).map (·.notice)) =
    (some 10, some 10, some true, some false, some (some 10)) := by decide
example : (getBal exProp.bal 1, getBal exProp'.bal 1, exProp.modBal, exProp'.modBal) = (90, 90, 25, 25) := by decide

/-- (b) block end at the event height of rollapp 0 (event due at hub height 2): the proposer a1 is
    slashed by `livSlashAmt = max(3, 0) = 3`, the non-proposer a2 is untouched -/
def exDue : St := run C06.exLive (C06.exPre ++ [.begin_ 1])
def exDue' : St := (step exDue (.end_ [])).1
example : ((getRa exDue 0).map (·.evH), exDue.h, (getSeq exDue 1).map (·.tokens), (getSeq exDue' 1).map (·.tokens),
      (getSeq exDue' 2) == (getSeq exDue 2), livSlashAmt C06.exLive.seq 10) = (some 2, 2, some 10, some 7, true, 3) := by decide

end DymVerif.C06X
