import DymVerif.Driver.C19
open DymVerif.Driver

def main (args : List String) : IO UInt32 := do
  match args with
  | ["C19"] => run C19.drv; return 0
  | _ => IO.eprintln "usage: Main <property-id>  (ops on stdin, observations on stdout)"; return 2
