import DymVerif.Base.Bytes
import DymVerif.Base.Base64
import DymVerif.Model.Keys
