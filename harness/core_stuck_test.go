package harness

// --- w-coreb: generator branch "stuck finalization" of TestCore (properties C02, C03, C01) ---
//
// The ordinary failure injection of an `end` op re-draws the failing (rollapp, index) pair for every
// block.  This branch picks ONE pending (rollapp, index) and fails the SAME pair for k consecutive
// `end` ops (k in 2..5); while the pair is still stuck it issues a fraud proposal against that rollapp
// at a height inside / just above / just below the stuck state (bridging the rollapp first when forks
// are not allowed yet), keeps failing the pair — which by then may be truncated, removed, or re-used
// by a later update — and finally lets finalization resume with failure-free `end` ops.
// Only op lines of the existing protocol are produced (`end fail=…`, `fraud …`, `bridge …`); the
// hooks in coreGen.next are two calls.

import (
	"fmt"
	"strings"
)

type coreStuck struct {
	ra      int    // rollapp of the stuck pair, -1 = idle
	idx     uint64 // state index of the stuck pair
	k       int    // planned number of consecutive failing `end` ops
	done    int    // failing `end` ops issued so far
	forked  bool   // the fork op was issued
	variant string // which fork position was chosen
	revs    int    // revisions of the rollapp when the fork op was issued
	seen    bool   // the outcome of the fork op was observed
	calm    int    // failure-free `end` ops still to come after the stuck phase
	wRa     int    // after the release: rollapp / index whose finalization is awaited, -1 = none
	wIdx    uint64
	// --- w-corem: the op kinds added by agent-corea, issued against the stuck rollapp while its pair is stuck
	extra  []string // kinds issued in this stuck phase ("punish", "xferowner", "set_seq_params"), each at most once
	xKind  string   // kind issued by the previous op, "" = none: its outcome is observed next
	xFin   uint64   // LastFin / Latest / #revisions of the stuck rollapp when that op was issued
	xLat   uint64
	xRevs  int
	wExtra []string // after the release: kinds that were issued in the stuck phase
}

func (c *coreGen) stuckState() *coreStuck {
	if c.stuck == nil {
		c.stuck = &coreStuck{ra: -1, wRa: -1}
	}
	return c.stuck
}

// stuckObserve looks at the state the previous op produced: was the fork of the stuck rollapp
// accepted, did finalization resume after the release.
func (c *coreGen) stuckObserve(s *coreSnap) {
	st := c.stuckState()
	if st.ra >= 0 && st.forked && !st.seen && st.ra < len(s.Ras) {
		st.seen = true
		if len(s.Ras[st.ra].Revs) > st.revs {
			c.r.Hit("fork-of-stuck-rollapp-accepted")
			c.r.Hit("fork-" + st.variant + "-stuck-state/accepted")
			r := s.Ras[st.ra]
			if st.idx > r.Latest {
				c.r.Hit("stuck-state-removed-by-fork")
			}
		} else {
			c.r.Hit("fork-of-stuck-rollapp-refused")
		}
	}
	// --- w-corem: none of the three new op kinds finalizes, reverts or appends anything
	if st.xKind != "" && st.ra >= 0 && st.ra < len(s.Ras) {
		if r := s.Ras[st.ra]; r.LastFin == st.xFin && r.Latest == st.xLat && len(r.Revs) == st.xRevs {
			c.r.Hit("stuck/" + st.xKind + "-leaves-stuck-state-in-place")
		} else {
			// the monitor C03/frame/other-rollapp-record-changed reports it when the op was ACCEPTED; a refused
			// op that changes a record is a correspondence disagreement
			c.r.Hit("stuck/" + st.xKind + "-moved-the-stuck-rollapp")
		}
	}
	st.xKind = ""
	// --- w-corem: end
	if st.wRa >= 0 && st.wRa < len(s.Ras) {
		r := s.Ras[st.wRa]
		switch {
		case r.LastFin >= st.wIdx:
			c.r.Hit("finalization-resumes-after-stuck")
			for _, k := range st.wExtra { // w-corem
				c.r.Hit("finalization-resumes-after-stuck/after-" + k)
			}
			st.wRa = -1
		case st.wIdx > r.Latest:
			st.wRa = -1 // the stuck state is gone (fork): nothing to wait for
		}
	}
}

// stuckOp: while a pair is stuck (at least one failing `end` issued, at least one more to come),
// fork the rollapp around the stuck state.  "" = nothing to do now.
func (c *coreGen) stuckOp(s *coreSnap) string {
	st, g := c.stuckState(), c.g
	if st.ra < 0 || st.done < 1 || st.done >= st.k || st.ra >= len(s.Ras) {
		return ""
	}
	r := s.Ras[st.ra]
	if l := c.stuckExtraOp(s, st, r); l != "" { // --- w-corem (before and after the fork)
		return l
	}
	if st.forked {
		return ""
	}
	if !r.Exists || st.idx == 0 || int(st.idx) > len(r.States) || !g.Chance(45) {
		return ""
	}
	if r.Tph == 0 {
		// forks are refused before the genesis bridge is complete: bridge at the lowest recorded height
		c.r.Hit("stuck/bridge-to-allow-fork")
		return fmt.Sprintf("bridge r%d h=%d", st.ra, r.States[0].Start)
	}
	x := r.States[st.idx-1]
	type fv struct {
		name string
		h    uint64
	}
	var vs []fv
	add := func(name string, h uint64) {
		if h >= 1 && h-1 >= r.Tph { // a fork below TransferProofHeight is refused
			vs = append(vs, fv{name, h})
		}
	}
	if x.Num > 1 {
		add("inside", x.Start+1+uint64(g.Intn(int(x.Num-1)))) // truncates the stuck state
	}
	add("just-above", x.Start+x.Num) // first height after it: the stuck state is kept whole
	add("just-below", x.Start)       // its first height: the stuck state is removed
	if len(vs) == 0 {
		c.r.Hit("stuck/no-admissible-fork-height")
		st.forked, st.seen = true, true
		return ""
	}
	v := vs[g.Intn(len(vs))]
	if last := vs[len(vs)-1]; last.name == "just-below" && g.Chance(40) {
		v = last // rarely admissible (needs a predecessor above TransferProofHeight): take it when it is
	}
	rev := uint64(0)
	for _, rv := range r.Revs {
		if rv[1] <= v.h {
			rev = rv[0]
		}
	}
	st.forked, st.variant, st.revs = true, v.name, len(r.Revs)
	c.r.Hit("fork-" + v.name + "-stuck-state")
	return fmt.Sprintf("fraud r%d h=%d rev=%d punish=- rewardee=- auth=gov", st.ra, v.h, rev)
}

// stuckEnd: the failure list of the `end` op being generated (`fail` = the independently drawn one).
func (c *coreGen) stuckEnd(s *coreSnap, fail string) string {
	st, g := c.stuckState(), c.g
	if st.ra < 0 {
		if st.calm > 0 {
			st.calm--
			c.r.Hit("end-without-failure-after-stuck")
			return "-"
		}
		if !g.Chance(map[string]int{"C02": 26, "C03": 12, "C01": 10, "C11": 10}[c.focus] + 4) {
			return fail
		}
		type cand struct {
			ri int
			ix uint64
		}
		var due, all []cand
		d := c.h.p.Dispute
		for ri, r := range s.Ras {
			if !r.Exists {
				continue
			}
			for ix := r.LastFin + 1; ix <= r.Latest && int(ix) <= len(r.States); ix++ {
				all = append(all, cand{ri, ix})
				// due at this block or the next one
				if hh := uint64(s.H) + 1; d <= hh && r.States[ix-1].CH <= hh-d {
					due = append(due, cand{ri, ix})
				}
			}
		}
		pick := due
		if len(pick) == 0 && !g.Chance(25) {
			return fail // nothing due yet: mostly wait for a pair whose failure really blocks a finalization
		}
		if len(pick) == 0 || g.Chance(10) {
			pick = all
		}
		if len(pick) == 0 {
			return fail
		}
		cd := pick[g.Intn(len(pick))]
		if g.Chance(60) { // mostly the first pending index of that rollapp: it blocks everything behind it
			cd.ix = s.Ras[cd.ri].LastFin + 1
		}
		*st = coreStuck{ra: cd.ri, idx: cd.ix, k: 2 + g.Intn(4), wRa: -1}
		c.r.Hit("stuck-finalization-start")
	}
	st.done++
	pair := fmt.Sprintf("r%d:%d", st.ra, st.idx)
	if st.ra < len(s.Ras) {
		r := s.Ras[st.ra]
		switch {
		case st.idx > r.LastFin && st.idx <= r.Latest && int(st.idx) <= len(r.States):
			if d, hh := c.h.p.Dispute, uint64(s.H); d <= hh && r.States[st.idx-1].CH <= hh-d {
				c.r.Hit("stuck-pair-due-and-failed")
				if st.done >= 2 {
					c.r.Hit("stuck-pair-due-and-failed-again")
				}
			} else {
				c.r.Hit("stuck-pair-failed-before-due")
			}
			if st.forked && st.seen {
				c.r.Hit("stuck-pair-still-failed-after-fork")
			}
		case st.idx > r.Latest:
			c.r.Hit("stuck-pair-names-removed-index")
		default:
			c.r.Hit("stuck-pair-already-finalized")
		}
	}
	out := []string{pair}
	if fail != "-" {
		for _, x := range strings.Split(fail, ",") {
			if !strings.HasPrefix(x, fmt.Sprintf("r%d:", st.ra)) {
				out = append(out, x)
			}
		}
	}
	if st.done >= st.k {
		c.r.Hit("stuck-finalization-k-blocks")
		c.r.Hit(fmt.Sprintf("stuck-finalization-k=%d", st.k))
		if st.forked {
			c.r.Hit("stuck-finalization-k-blocks-with-fork")
		}
		// release: the next `end` ops carry no failure, finalization must resume
		*st = coreStuck{ra: -1, calm: 2, wRa: st.ra, wIdx: st.idx, wExtra: st.extra}
	}
	return strings.Join(out, ",")
}

// --- w-corem: stuckExtraOp — while a pair is stuck, one op of each kind added by agent-corea, aimed at the
// stuck rollapp: the standalone punish proposal against the creator of the stuck state (mostly; else the
// rollapp's proposer), a transfer of the stuck rollapp's ownership by its owner, a valid x/sequencer
// parameter update.  None of them may finalize, revert or append a state (C03 frame monitor), and
// finalization must resume after the release as without them.
func (c *coreGen) stuckExtraOp(s *coreSnap, st *coreStuck, r coreRa) string {
	g := c.g
	if !r.Exists || st.idx == 0 || len(st.extra) >= 3 || !g.Chance(22) {
		return ""
	}
	var kinds []string
	for _, k := range []string{"punish", "xferowner", "set_seq_params"} {
		used := false
		for _, x := range st.extra {
			used = used || x == k
		}
		if !used {
			kinds = append(kinds, k)
		}
	}
	k := kinds[g.Intn(len(kinds))]
	line := ""
	switch k {
	case "punish":
		tgt := -1
		if int(st.idx) <= len(r.States) && g.Chance(70) {
			tgt = r.States[st.idx-1].Creator
		}
		if _, ok := s.Seqs[tgt]; !ok {
			tgt = r.Prop
		}
		if _, ok := s.Seqs[tgt]; !ok {
			return ""
		}
		if int(st.idx) <= len(r.States) && tgt == r.States[st.idx-1].Creator {
			c.r.Hit("stuck/punish-creator-of-stuck-state")
		} else {
			c.r.Hit("stuck/punish-proposer-of-stuck-rollapp")
		}
		rewardee := "-"
		if g.Chance(50) {
			rewardee = fmt.Sprintf("a%d", c.pickActor())
		}
		line = fmt.Sprintf("punish a%d rewardee=%s auth=gov", tgt, rewardee)
	case "xferowner":
		c.r.Hit("stuck/transfer-owner-of-stuck-rollapp")
		line = fmt.Sprintf("xferowner r%d by=%s to=a%d uc=0", st.ra, r.Owner, c.pickActor())
	default:
		c.r.Hit("stuck/seq-params-changed-while-stuck")
		line = fmt.Sprintf("set_seq_params notice=%d kick=%d mul=%s abs=%d dsu=%d dl=%d auth=gov",
			[]int64{1000000000, 5000000000}[g.Intn(2)], []uint64{1, 2, 4}[g.Intn(3)],
			[]string{"0", "500000000000000000", "1000000000000000000"}[g.Intn(3)], []uint64{0, 7, 1000}[g.Intn(3)],
			[]uint64{0, 1, 2}[g.Intn(3)], []uint64{0, 1, 3}[g.Intn(3)])
	}
	st.extra = append(st.extra, k)
	st.xKind, st.xFin, st.xLat, st.xRevs = k, r.LastFin, r.Latest, len(r.Revs)
	return line
}

// --- w-corem: end
