package harness

import (
	"fmt"
	"math/big"
	"strings"
	"testing"

	"cosmossdk.io/math"
)

// TestDec validates Base/Dec.lean (the LegacyDec model) against cosmossdk.io/math on raw big.Int values.

func decFromRaw(s string) math.LegacyDec {
	b, _ := new(big.Int).SetString(s, 10)
	return math.LegacyNewDecFromBigIntWithPrec(b, 18)
}

func decExec(line string) (out string) {
	defer func() {
		if e := recover(); e != nil {
			out = "panic"
		}
	}()
	f := strings.Fields(line)
	x := decFromRaw(f[1])
	raw := func(d math.LegacyDec) string { return d.BigInt().String() }
	if len(f) == 3 {
		y := decFromRaw(f[2])
		yi, _ := math.NewIntFromString(f[2])
		switch f[0] {
		case "mul":
			return raw(x.Mul(y))
		case "multrunc":
			return raw(x.MulTruncate(y))
		case "mulroundup":
			return raw(x.MulRoundUp(y))
		case "mulint":
			return raw(x.MulInt(yi))
		case "quo":
			return raw(x.Quo(y))
		case "quotrunc":
			return raw(x.QuoTruncate(y))
		case "quoroundup":
			return raw(x.QuoRoundUp(y))
		case "quoint":
			return raw(x.QuoInt(yi))
		}
	}
	switch f[0] {
	case "truncint":
		return x.TruncateInt().String()
	case "roundint":
		return x.RoundInt().String()
	case "ceil":
		return raw(x.Ceil())
	}
	return "bad-op"
}

func decOperand(g *Rng) string {
	p18 := new(big.Int).Exp(big.NewInt(10), big.NewInt(18), nil)
	var v *big.Int
	switch g.Intn(9) {
	case 0:
		v = big.NewInt(int64(g.Intn(5)))
	case 1: // exact multiples and half-way points
		v = new(big.Int).Mul(big.NewInt(int64(g.Intn(7))), p18)
		v.Add(v, new(big.Int).Div(p18, big.NewInt(2)))
	case 2:
		v = new(big.Int).Mul(big.NewInt(int64(g.Intn(1000))), p18)
	case 3:
		v = new(big.Int).SetUint64(g.U64())
	case 4:
		v = new(big.Int).Mul(new(big.Int).SetUint64(g.U64()), new(big.Int).SetUint64(g.U64()>>uint(g.Intn(64))))
	case 5:
		v = new(big.Int).Add(new(big.Int).Div(p18, big.NewInt(2)), big.NewInt(int64(g.Intn(3)-1)))
	case 6:
		v = new(big.Int).Exp(big.NewInt(10), big.NewInt(int64(g.Intn(40))), nil)
		v.Add(v, big.NewInt(int64(g.Intn(3)-1)))
	case 7:
		v = big.NewInt(int64(g.Intn(1000000)))
	default:
		v = new(big.Int).Mul(new(big.Int).SetUint64(g.U64()), p18)
		v.Rsh(v, uint(g.Intn(70)))
	}
	if g.Chance(25) {
		v.Neg(v)
	}
	return v.String()
}

func TestDec(t *testing.T) {
	r := NewRun(t, "Dec")
	r.AutoClass = true
	defer r.Close()
	if lines := ReplayLines(); lines != nil {
		for _, l := range lines {
			r.Emit(l, decExec(l))
		}
		return
	}
	g := r.Rng
	bin := []string{"mul", "multrunc", "mulroundup", "mulint", "quo", "quotrunc", "quoroundup", "quoint"}
	un := []string{"truncint", "roundint", "ceil"}
	n := r.N(6000, 60000)
	for i := 0; i < n; i++ {
		var line string
		if g.Chance(80) {
			op := bin[g.Intn(len(bin))]
			line = fmt.Sprintf("%s %s %s", op, decOperand(g), decOperand(g))
			r.Hit(op)
		} else {
			op := un[g.Intn(len(un))]
			line = fmt.Sprintf("%s %s", op, decOperand(g))
			r.Hit(op)
		}
		r.Emit(line, decExec(line))
	}
	r.Trace()
}
