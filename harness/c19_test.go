package harness

import (
	"bytes"
	"encoding/hex"
	"fmt"
	"strconv"
	"strings"
	"testing"

	commontypes "github.com/dymensionxyz/dymension/v3/x/common/types"
	datypes "github.com/dymensionxyz/dymension/v3/x/delayedack/types"
	eibctypes "github.com/dymensionxyz/dymension/v3/x/eibc/types"
	rollapptypes "github.com/dymensionxyz/dymension/v3/x/rollapp/types"
	seqtypes "github.com/dymensionxyz/dymension/v3/x/sequencer/types"
)

// C19 — identifiers and store keys.  Every op is independent (pure functions).

func unhex(s string) []byte {
	if s == "-" {
		return nil
	}
	b, err := hex.DecodeString(s)
	if err != nil {
		panic(err)
	}
	return b
}

var c19Status = []commontypes.Status{commontypes.Status_PENDING, commontypes.Status_FINALIZED}
var c19Types = []commontypes.RollappPacket_Type{commontypes.RollappPacket_ON_RECV, commontypes.RollappPacket_ON_ACK, commontypes.RollappPacket_ON_TIMEOUT, commontypes.RollappPacket_UNDEFINED}

func c19cmp(a, b []byte) string { return strconv.Itoa(bytes.Compare(a, b)) }

// c19Exec executes one op line on the real code and returns its canonical observation.
func c19Exec(r *Run, line string) string {
	f := strings.Fields(line)
	u := func(i int) uint64 { v, _ := strconv.ParseUint(f[i], 10, 64); return v }
	pkey := func(o int) []byte {
		return commontypes.RollappPacketKey(c19Status[u(o)], string(unhex(f[o+1])), u(o+2), c19Types[u(o+3)], string(unhex(f[o+4])), u(o+5))
	}
	switch f[0] {
	case "be64":
		k := commontypes.RollappPacketByStatusByRollappIDByProofHeightPrefix("", commontypes.Status_PENDING, u(1))
		return Hex(k[len(k)-8:])
	case "lex":
		return c19cmp(unhex(f[1]), unhex(f[2]))
	case "b64enc":
		return Hex([]byte(commontypes.EncodePacketKey(unhex(f[1]))))
	case "b64dec":
		out, err := commontypes.DecodePacketKey(string(unhex(f[1])))
		if err != nil {
			return "err"
		}
		return "ok " + Hex(out)
	case "pkey":
		return Hex(pkey(1))
	case "rt":
		k := pkey(1)
		enc := commontypes.EncodePacketKey(k)
		dec, err := commontypes.DecodePacketKey(enc)
		if err != nil {
			r.Violate("C19/packet_key_roundtrip/decode-error", "DecodePacketKey(EncodePacketKey(k)) errors: "+err.Error(), line)
			return "err"
		}
		if !bytes.Equal(dec, k) {
			tz := 0
			for i := len(k) - 1; i >= 0 && k[i] == 0; i-- {
				tz++
			}
			sig := "C19/packet_key_roundtrip/other"
			if tz > 0 && bytes.Equal(dec, k[:len(k)-tz]) {
				sig = "C19/packet_key_roundtrip/trailing-zero-bytes-trimmed"
			}
			r.Violate(sig, fmt.Sprintf("DecodePacketKey(EncodePacketKey(k)) = %x, k = %x", dec, k), line)
		}
		return "ok " + Hex(dec)
	case "rmax", "rfrom":
		var flt datypes.RollappPacketListFilter
		if f[0] == "rmax" {
			flt = datypes.PendingByRollappIDByMaxHeight(string(unhex(f[1])), u(2))
		} else {
			flt = datypes.PendingByRollappIDFromHeight(string(unhex(f[1])), u(2))
		}
		k := pkey(3)
		p := flt.Prefixes[0]
		in := bytes.Compare(p.Start, k) <= 0 && bytes.Compare(k, p.End) < 0
		// monitor (model independent): in range  <=>  same rollapp, pending, height condition
		want := c19Status[u(3)] == commontypes.Status_PENDING && f[4] == f[1]
		if f[0] == "rmax" {
			want = want && u(5) <= u(2) && u(2) != 1<<64-1
		} else {
			want = want && u(5) >= u(2) && u(5) != 1<<64-1
		}
		if in != want {
			r.Violate("C19/range_scan/"+f[0], fmt.Sprintf("range membership %v, expected %v", in, want), line)
		}
		return strconv.FormatBool(in)
	case "scan":
		p := commontypes.RollappPacketByStatusByRollappIDPrefix(c19Status[u(1)], string(unhex(f[2])))
		k := pkey(3)
		in := bytes.HasPrefix(k, p)
		want := u(1) == u(3) && f[2] == f[4]
		if in != want {
			r.Violate("C19/prefix_scan/by-status-rollapp", fmt.Sprintf("prefix match %v, expected %v", in, want), line)
		}
		return strconv.FormatBool(in)
	case "dokey":
		k, err := eibctypes.GetDemandOrderKey(c19Status[u(1)], string(unhex(f[2])))
		if err != nil {
			return "err"
		}
		return Hex(k)
	case "livkey":
		return Hex(rollapptypes.LivenessEventQueueKey(rollapptypes.LivenessEvent{HubHeight: int64(u(1)), RollappId: string(unhex(f[2]))}))
	case "livrt":
		e := rollapptypes.LivenessEvent{HubHeight: int64(u(1)), RollappId: string(unhex(f[2]))}
		d := rollapptypes.LivenessEventQueueKeyToEvent(rollapptypes.LivenessEventQueueKey(e))
		if d.HubHeight != e.HubHeight || d.RollappId != e.RollappId {
			r.Violate("C19/liveness_key_roundtrip", fmt.Sprintf("%v -> %v", e, d), line)
		}
		return fmt.Sprintf("%d %s", uint64(d.HubHeight), Hex([]byte(d.RollappId)))
	case "seqkey":
		st := seqtypes.Unbonded
		if u(3) == 1 {
			st = seqtypes.Bonded
		}
		return Hex(seqtypes.SequencerByRollappByStatusKey(string(unhex(f[1])), string(unhex(f[2])), st))
	case "seqscan":
		st := seqtypes.Unbonded
		if u(4) == 1 {
			st = seqtypes.Bonded
		}
		p := seqtypes.SequencersByRollappKey(string(unhex(f[1])))
		k := seqtypes.SequencerByRollappByStatusKey(string(unhex(f[2])), string(unhex(f[3])), st)
		in := bytes.HasPrefix(k, p)
		if in != (f[1] == f[2]) {
			r.Violate("C19/prefix_scan/sequencers-by-rollapp", fmt.Sprintf("scan for %q returns key of %q", unhex(f[1]), unhex(f[2])), line)
		}
		return strconv.FormatBool(in)
	}
	return "bad-op"
}

var c19Names = []string{"a", "ab", "abc", "rollapp", "rollappx", "x", "dym", "dymension", "z"}

// c19RollappID draws a valid rollapp id; every length from the minimum up to the 50-character
// maximum occurs (key builders append onto shared slices: capacity effects depend on the length)
func c19RollappID(g *Rng) string {
	name := c19Names[g.Intn(len(c19Names))]
	if g.Chance(60) {
		n := 1 + g.Intn(42)
		b := make([]byte, n)
		for i := range b {
			b[i] = byte('a' + g.Intn(26))
		}
		name = string(b)
	}
	id := fmt.Sprintf("%s_%d-%d", name, 1+g.Intn(3000), 1+g.Intn(12))
	if len(id) > 50 {
		id = id[len(id)-50:]
		if id[0] < 'a' || id[0] > 'z' {
			id = "a" + id[1:]
		}
	}
	return id
}

func c19Bytes(g *Rng) []byte {
	n := g.Intn(14)
	if g.Chance(10) {
		n = g.Intn(70)
	}
	b := make([]byte, n)
	for i := range b {
		switch g.Intn(6) {
		case 0:
			b[i] = 0
		case 1:
			b[i] = 0xff
		case 2:
			b[i] = '/'
		default:
			b[i] = byte(g.U64())
		}
	}
	return b
}

func TestC19(t *testing.T) {
	r := NewRun(t, "C19")
	r.AutoClass = true
	defer r.Close()
	if lines := ReplayLines(); lines != nil {
		for _, l := range lines {
			r.Emit(l, c19Exec(r, l))
		}
		return
	}
	g := r.Rng
	emit := func(kind, line string) {
		obs := c19Exec(r, line)
		r.Emit(line, obs)
		r.Hit(kind)
	}
	pk := func() string {
		ch := fmt.Sprintf("channel-%d", g.Intn(300))
		return fmt.Sprintf("%d %s %d %d %s %d", g.Intn(2), Hex([]byte(c19RollappID(g))), g.BoundaryU64(), g.Intn(4), Hex([]byte(ch)), g.BoundaryU64())
	}
	n := r.N(4000, 60000)
	for i := 0; i < n; i++ {
		switch g.Intn(13) {
		case 0:
			emit("be64", fmt.Sprintf("be64 %d", g.BoundaryU64()))
		case 1:
			emit("lex", fmt.Sprintf("lex %s %s", Hex(c19Bytes(g)), Hex(c19Bytes(g))))
		case 2:
			b := c19Bytes(g)
			if g.Chance(40) { // trailing zero bytes
				b = append(b, make([]byte, 1+g.Intn(3))...)
			}
			emit("b64enc", "b64enc "+Hex(b))
		case 3:
			// mostly-valid base64 strings, then perturbed
			s := []byte(commontypes.EncodePacketKey(c19Bytes(g)))
			if g.Chance(40) && len(s) > 0 {
				switch g.Intn(5) {
				case 0:
					s[g.Intn(len(s))] = "=\n\r !-_"[g.Intn(7)]
				case 1:
					s = s[:g.Intn(len(s))]
				case 2:
					s = append(s, "=A\n"[g.Intn(3)])
				case 3:
					i := g.Intn(len(s))
					s = append(s[:i:i], append([]byte{'\n'}, s[i:]...)...)
				case 4:
					s = append(s, s...)
				}
				r.Hit("b64dec-perturbed")
			}
			emit("b64dec", "b64dec "+Hex(s))
		case 4:
			emit("pkey", "pkey "+pk())
		case 5, 6:
			emit("rt", "rt "+pk())
		case 7:
			ra := Hex([]byte(c19RollappID(g)))
			k := pk()
			if g.Chance(60) {
				f := strings.Fields(k)
				f[1] = ra
				k = strings.Join(f, " ")
			}
			kind := []string{"rmax", "rfrom"}[g.Intn(2)]
			emit(kind, fmt.Sprintf("%s %s %d %s", kind, ra, g.BoundaryU64(), k))
		case 8:
			ra := Hex([]byte(c19RollappID(g)))
			k := pk()
			if g.Chance(60) {
				f := strings.Fields(k)
				f[1] = ra
				k = strings.Join(f, " ")
			}
			emit("scan", fmt.Sprintf("scan %d %s %s", g.Intn(2), ra, k))
		case 9:
			emit("dokey", fmt.Sprintf("dokey %d %s", g.Intn(2), Hex(c19Bytes(g))))
		case 10:
			emit("livkey", fmt.Sprintf("livkey %d %s", g.BoundaryU64(), Hex([]byte(c19RollappID(g)))))
			emit("livrt", fmt.Sprintf("livrt %d %s", g.BoundaryU64(), Hex([]byte(c19RollappID(g)))))
		case 11:
			emit("seqkey", fmt.Sprintf("seqkey %s %s %d", Hex([]byte(c19RollappID(g))), Hex(c19Bytes(g)), g.Intn(2)))
		case 12:
			a := c19RollappID(g)
			b := c19RollappID(g)
			if g.Chance(30) {
				b = a
			}
			// distinct registered ids have distinct names: skip pairs with equal names but different ids
			if a != b && strings.Split(a, "_")[0] == strings.Split(b, "_")[0] {
				continue
			}
			emit("seqscan", fmt.Sprintf("seqscan %s %s %s %d", Hex([]byte(a)), Hex([]byte(b)), Hex(c19Bytes(g)), g.Intn(2)))
		}
	}
	r.Trace()
}
