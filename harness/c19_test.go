package harness

import (
	"bytes"
	"encoding/hex"
	"fmt"
	"strconv"
	"strings"
	"testing"
	"time"

	"cosmossdk.io/math"
	storetypes "cosmossdk.io/store/types"
	sdk "github.com/cosmos/cosmos-sdk/types"

	commontypes "github.com/dymensionxyz/dymension/v3/x/common/types"
	datypes "github.com/dymensionxyz/dymension/v3/x/delayedack/types"
	eibctypes "github.com/dymensionxyz/dymension/v3/x/eibc/types"
	rollapptypes "github.com/dymensionxyz/dymension/v3/x/rollapp/types"
	dymnstypes "github.com/dymensionxyz/dymension/v3/x/dymns/types"
	irotypes "github.com/dymensionxyz/dymension/v3/x/iro/types"
	lockuptypes "github.com/dymensionxyz/dymension/v3/x/lockup/types"
	seqtypes "github.com/dymensionxyz/dymension/v3/x/sequencer/types"
)

// C19 — identifiers and store keys.  Every op is independent (pure functions).

func unhex(s string) []byte {
	if s == "-" {
		return nil
	}
	b, err := hex.DecodeString(s)
	if err != nil {
		panic(err)
	}
	return b
}

var c19Status = []commontypes.Status{commontypes.Status_PENDING, commontypes.Status_FINALIZED}
var c19Types = []commontypes.RollappPacket_Type{commontypes.RollappPacket_ON_RECV, commontypes.RollappPacket_ON_ACK, commontypes.RollappPacket_ON_TIMEOUT, commontypes.RollappPacket_UNDEFINED}

func c19cmp(a, b []byte) string { return strconv.Itoa(bytes.Compare(a, b)) }

// c19Exec executes one op line on the real code and returns its canonical observation.
func c19Exec(r *Run, line string) string {
	f := strings.Fields(line)
	u := func(i int) uint64 { v, _ := strconv.ParseUint(f[i], 10, 64); return v }
	pkey := func(o int) []byte {
		return commontypes.RollappPacketKey(c19Status[u(o)], string(unhex(f[o+1])), u(o+2), c19Types[u(o+3)], string(unhex(f[o+4])), u(o+5))
	}
	switch f[0] {
	case "be64":
		k := commontypes.RollappPacketByStatusByRollappIDByProofHeightPrefix("", commontypes.Status_PENDING, u(1))
		return Hex(k[len(k)-8:])
	case "lex":
		return c19cmp(unhex(f[1]), unhex(f[2]))
	case "b64enc":
		return Hex([]byte(commontypes.EncodePacketKey(unhex(f[1]))))
	case "b64dec":
		out, err := commontypes.DecodePacketKey(string(unhex(f[1])))
		if err != nil {
			return "err"
		}
		return "ok " + Hex(out)
	case "pkey":
		return Hex(pkey(1))
	case "rt":
		k := pkey(1)
		enc := commontypes.EncodePacketKey(k)
		dec, err := commontypes.DecodePacketKey(enc)
		if err != nil {
			r.Violate("C19/packet_key_roundtrip/decode-error", "DecodePacketKey(EncodePacketKey(k)) errors: "+err.Error(), line)
			return "err"
		}
		if !bytes.Equal(dec, k) {
			tz := 0
			for i := len(k) - 1; i >= 0 && k[i] == 0; i-- {
				tz++
			}
			sig := "C19/packet_key_roundtrip/other"
			if tz > 0 && bytes.Equal(dec, k[:len(k)-tz]) {
				sig = "C19/packet_key_roundtrip/trailing-zero-bytes-trimmed"
			}
			r.Violate(sig, fmt.Sprintf("DecodePacketKey(EncodePacketKey(k)) = %x, k = %x", dec, k), line)
		}
		return "ok " + Hex(dec)
	case "evrt":
		// the packet key as the hub hands it out in EventDemandOrderCreated (what a fulfiller / relayer
		// copies into MsgFinalizePacketByPacketKey) must decode back to exactly the packet's key
		k := pkey(1)
		o := eibctypes.DemandOrder{TrackingPacketKey: string(k)}
		ev := o.GetCreatedEvent(0, "0").PacketKey
		dec, err := commontypes.DecodePacketKey(ev)
		if err != nil {
			r.Violate("C19/packet_key_roundtrip/event-key-does-not-decode", fmt.Sprintf("packet key %q of EventDemandOrderCreated for key %x: DecodePacketKey errors: %v", ev, k, err), line)
			return "err " + Hex([]byte(ev))
		}
		if !bytes.Equal(dec, k) {
			r.Violate("C19/packet_key_roundtrip/event-key-decodes-to-another-key", fmt.Sprintf("packet key %q of EventDemandOrderCreated decodes to %x, the packet's key is %x", ev, dec, k), line)
		}
		if vb := (&datypes.MsgFinalizePacketByPacketKey{Sender: "dym1g8sf7w4cz5gtupa6y62h3q6a4gjv37pgefnpt5", PacketKey: ev}).ValidateBasic(); vb != nil {
			r.Violate("C19/packet_key_roundtrip/event-key-refused-by-finalize-message", fmt.Sprintf("MsgFinalizePacketByPacketKey refuses the event's packet key %q: %v", ev, vb), line)
		}
		return "ok " + Hex([]byte(ev)) + " " + Hex(dec)
	case "rmax", "rfrom":
		var flt datypes.RollappPacketListFilter
		if f[0] == "rmax" {
			flt = datypes.PendingByRollappIDByMaxHeight(string(unhex(f[1])), u(2))
		} else {
			flt = datypes.PendingByRollappIDFromHeight(string(unhex(f[1])), u(2))
		}
		k := pkey(3)
		p := flt.Prefixes[0]
		in := bytes.Compare(p.Start, k) <= 0 && bytes.Compare(k, p.End) < 0
		// monitor (model independent): in range  <=>  same rollapp, pending, height condition
		want := c19Status[u(3)] == commontypes.Status_PENDING && f[4] == f[1]
		if f[0] == "rmax" {
			want = want && u(5) <= u(2) && u(2) != 1<<64-1
		} else {
			want = want && u(5) >= u(2) && u(5) != 1<<64-1
		}
		if in != want {
			r.Violate("C19/range_scan/"+f[0], fmt.Sprintf("range membership %v, expected %v", in, want), line)
		}
		return strconv.FormatBool(in)
	case "scan":
		p := commontypes.RollappPacketByStatusByRollappIDPrefix(c19Status[u(1)], string(unhex(f[2])))
		k := pkey(3)
		in := bytes.HasPrefix(k, p)
		want := u(1) == u(3) && f[2] == f[4]
		if in != want {
			r.Violate("C19/prefix_scan/by-status-rollapp", fmt.Sprintf("prefix match %v, expected %v", in, want), line)
		}
		return strconv.FormatBool(in)
	case "dokey":
		k, err := eibctypes.GetDemandOrderKey(c19Status[u(1)], string(unhex(f[2])))
		if err != nil {
			return "err"
		}
		return Hex(k)
	case "livkey":
		return Hex(rollapptypes.LivenessEventQueueKey(rollapptypes.LivenessEvent{HubHeight: int64(u(1)), RollappId: string(unhex(f[2]))}))
	case "livrt":
		e := rollapptypes.LivenessEvent{HubHeight: int64(u(1)), RollappId: string(unhex(f[2]))}
		d := rollapptypes.LivenessEventQueueKeyToEvent(rollapptypes.LivenessEventQueueKey(e))
		if d.HubHeight != e.HubHeight || d.RollappId != e.RollappId {
			r.Violate("C19/liveness_key_roundtrip", fmt.Sprintf("%v -> %v", e, d), line)
		}
		return fmt.Sprintf("%d %s", uint64(d.HubHeight), Hex([]byte(d.RollappId)))
	case "seqkey":
		st := seqtypes.Unbonded
		if u(3) == 1 {
			st = seqtypes.Bonded
		}
		return Hex(seqtypes.SequencerByRollappByStatusKey(string(unhex(f[1])), string(unhex(f[2])), st))
	case "seqscan":
		st := seqtypes.Unbonded
		if u(4) == 1 {
			st = seqtypes.Bonded
		}
		p := seqtypes.SequencersByRollappKey(string(unhex(f[1])))
		k := seqtypes.SequencerByRollappByStatusKey(string(unhex(f[2])), string(unhex(f[3])), st)
		in := bytes.HasPrefix(k, p)
		if in != (f[1] == f[2]) {
			// the scan prefix carries no trailing separator.  Two ids that share their name (abc_1-1 is a
			// byte prefix of abc_1-12) cannot both be registered (CheckIfRollappExists refuses the second
			// name), so that case is a note (theorem sequencers_by_rollapp_scan_exact_counterexample);
			// for ids with different names it is a violation.
			// (the name is what precedes the first '_'; an id that NewChainID refuses — e.g. longer than 50
			// bytes — cannot be registered at all)
			na := strings.SplitN(string(unhex(f[1])), "_", 2)[0]
			nb := strings.SplitN(string(unhex(f[2])), "_", 2)[0]
			if na == nb {
				r.Hit("seqscan-same-name-ids-scan-not-exact(unregistrable pair)")
			} else {
				r.Violate("C19/prefix_scan/sequencers-by-rollapp", fmt.Sprintf("scan for %q returns key of %q", unhex(f[1]), unhex(f[2])), line)
			}
		}
		return strconv.FormatBool(in)
	}
	if obs, ok := c19ExecColl(r, line, f); ok {
		return obs
	}
	if obs, ok := c19ExecX(r, line, f); ok {
		return obs
	}
	if obs, ok := c19ExecAddr(r, line, f); ok {
		return obs
	}
	if obs, ok := c19ExecLock(r, line, f); ok {
		return obs
	}
	return c19Exec2(r, line, f)
}

var c19Names = []string{"a", "ab", "abc", "rollapp", "rollappx", "x", "dym", "dymension", "z"}

// c19RollappID draws a valid rollapp id; every length from the minimum up to the 50-character
// maximum occurs (key builders append onto shared slices: capacity effects depend on the length)
func c19RollappID(g *Rng) string {
	name := c19Names[g.Intn(len(c19Names))]
	if g.Chance(60) {
		n := 1 + g.Intn(42)
		b := make([]byte, n)
		for i := range b {
			b[i] = byte('a' + g.Intn(26))
		}
		name = string(b)
	}
	id := fmt.Sprintf("%s_%d-%d", name, 1+g.Intn(3000), 1+g.Intn(12))
	if len(id) > 50 {
		id = id[len(id)-50:]
		if id[0] < 'a' || id[0] > 'z' {
			id = "a" + id[1:]
		}
	}
	return id
}

func c19Bytes(g *Rng) []byte {
	n := g.Intn(14)
	if g.Chance(10) {
		n = g.Intn(70)
	}
	b := make([]byte, n)
	for i := range b {
		switch g.Intn(6) {
		case 0:
			b[i] = 0
		case 1:
			b[i] = 0xff
		case 2:
			b[i] = '/'
		default:
			b[i] = byte(g.U64())
		}
	}
	return b
}

// ---- time-sorted keys ---------------------------------------------------------------------------

// c19Time builds the time from seven calendar-field tokens starting at f[o]; ok=false when the tuple
// is not a calendar date (time.Date would normalise it) or the year is negative.
func c19Time(f []string, o int) (time.Time, bool) {
	v := make([]int, 7)
	for i := range v {
		x, err := strconv.ParseUint(f[o+i], 10, 40)
		if err != nil {
			return time.Time{}, false
		}
		v[i] = int(x)
	}
	t := time.Date(v[0], time.Month(v[1]), v[2], v[3], v[4], v[5], v[6], time.UTC)
	y, mo, d := t.Date()
	h, mi, s := t.Clock()
	if y != v[0] || int(mo) != v[1] || d != v[2] || h != v[3] || mi != v[4] || s != v[5] || t.Nanosecond() != v[6] {
		return t, false
	}
	return t, true
}

func c19TimeFields(t time.Time) string {
	t = t.UTC()
	return fmt.Sprintf("%d %d %d %d %d %d %d", t.Year(), int(t.Month()), t.Day(), t.Hour(), t.Minute(), t.Second(), t.Nanosecond())
}

var c19Years = []int{0, 1, 9, 10, 99, 100, 999, 1000, 1969, 1970, 1999, 2000, 2024, 2025, 2038, 2100, 2262, 2263, 9998, 9999}
var c19Nanos = []int{0, 1, 9, 10, 99, 999, 1000, 999999, 1000000, 99999999, 100000000, 500000000, 999999990, 999999998, 999999999}

// c19GenTime draws a valid UTC calendar time: boundary pools for every field, leap days, ends of
// months; `wide` additionally allows years beyond 9999 (outside the width hypothesis).
func c19GenTime(g *Rng, wide bool) time.Time {
	y := c19Years[g.Intn(len(c19Years))]
	if g.Chance(30) {
		y = g.Intn(10000)
	}
	if wide && g.Chance(50) {
		y = []int{10000, 10001, 12345, 99999, 100000, 20000}[g.Intn(6)]
	}
	mo := 1 + g.Intn(12)
	if g.Chance(40) {
		mo = []int{1, 2, 9, 10, 12}[g.Intn(5)]
	}
	// last day of that month via normalisation of day 0 of the next month
	last := time.Date(y, time.Month(mo)+1, 0, 0, 0, 0, 0, time.UTC).Day()
	d := 1 + g.Intn(last)
	if g.Chance(50) {
		d = []int{1, 9, 10, last, last - 1, 2}[g.Intn(6)]
	}
	h, mi, s := g.Intn(24), g.Intn(60), g.Intn(60)
	if g.Chance(50) {
		h = []int{0, 9, 10, 23}[g.Intn(4)]
		mi = []int{0, 9, 10, 59}[g.Intn(4)]
		s = []int{0, 9, 10, 59}[g.Intn(4)]
	}
	ns := c19Nanos[g.Intn(len(c19Nanos))]
	if g.Chance(30) {
		ns = g.Intn(1000000000)
	}
	return time.Date(y, time.Month(mo), d, h, mi, s, ns, time.UTC)
}

// c19Near perturbs a time by one unit of one field (so that pairs differ in exactly one place)
func c19Near(g *Rng, t time.Time) time.Time {
	switch g.Intn(8) {
	case 0:
		return t
	case 1:
		return t.Add(time.Nanosecond)
	case 2:
		return t.Add(-time.Nanosecond)
	case 3:
		return t.Add(time.Second)
	case 4:
		return t.Add(-time.Minute)
	case 5:
		return t.AddDate(0, 0, 1)
	case 6:
		return t.AddDate(0, 1, 0)
	}
	return t.AddDate(-1, 0, 0)
}

func c19Sign(x int) int {
	if x < 0 {
		return -1
	}
	if x > 0 {
		return 1
	}
	return 0
}

// c19Exec2: ops on time-sorted keys, identifiers with decimal numbers, denoms, lockup and dymns keys.
func c19Exec2(r *Run, line string, f []string) string {
	switch f[0] {
	case "tfmt":
		// tfmt <zone offset seconds> Y M D h m s ns — the time is handed over in a non-UTC location
		t, ok := c19Time(f, 2)
		if !ok {
			return "invalid-date"
		}
		off, _ := strconv.Atoi(f[1])
		bz := sdk.FormatTimeBytes(t.In(time.FixedZone("z", off)))
		// monitor: the sortable format parses back to the same instant
		back, err := sdk.ParseTimeBytes(bz)
		if t.Year() <= 9999 && (err != nil || !back.Equal(t)) {
			r.Violate("C19/time_format/roundtrip", fmt.Sprintf("ParseTimeBytes(FormatTimeBytes(%v)) = %v, %v", t, back, err), line)
		}
		if t.Year() <= 9999 && len(bz) != 29 {
			r.Violate("C19/time_format/width", fmt.Sprintf("len %d", len(bz)), line)
		}
		return Hex(bz)
	case "tcmp":
		a, ok1 := c19Time(f, 1)
		b, ok2 := c19Time(f, 8)
		if !ok1 || !ok2 {
			return "invalid-date"
		}
		kc := bytes.Compare(seqtypes.NoticeQueueByTimeKey(a), seqtypes.NoticeQueueByTimeKey(b))
		tc := a.Compare(b)
		if kc != tc {
			if a.Year() <= 9999 && b.Year() <= 9999 {
				r.Violate("C19/time_key_order/byte-order-differs-from-chronological", fmt.Sprintf("keys compare %d, times compare %d", kc, tc), line)
			} else {
				r.Hit("tcmp-year-beyond-9999-order-breaks")
			}
		}
		// second number: order of the field tuples = chronological order (Go's calendar)
		return fmt.Sprintf("%d %d", kc, tc)
	case "nqkey":
		t, ok := c19Time(f, 2)
		if !ok {
			return "invalid-date"
		}
		return Hex(seqtypes.NoticeQueueBySeqTimeKey(string(unhex(f[1])), t))
	case "nqscan", "nqother":
		T, ok := c19Time(f, 1)
		if !ok {
			return "invalid-date"
		}
		start, end := seqtypes.NoticePeriodQueueKey, storetypes.PrefixEndBytes(seqtypes.NoticeQueueByTimeKey(T))
		var k []byte
		if f[0] == "nqscan" {
			t, ok := c19Time(f, 9)
			if !ok {
				return "invalid-date"
			}
			k = seqtypes.NoticeQueueBySeqTimeKey(string(unhex(f[8])), t)
			in := bytes.Compare(start, k) <= 0 && (end == nil || bytes.Compare(k, end) < 0)
			// monitor: the elapsed-notice scan returns the entry iff its time is not after T
			if want := !t.After(T); in != want && T.Year() <= 9999 && t.Year() <= 9999 {
				r.Violate("C19/notice_queue_scan/membership", fmt.Sprintf("entry at %v, scan up to %v: returned %v", t, T, in), line)
			}
			return strconv.FormatBool(in)
		}
		k = unhex(f[8])
		in := bytes.Compare(start, k) <= 0 && (end == nil || bytes.Compare(k, end) < 0)
		if in && !bytes.HasPrefix(k, seqtypes.NoticePeriodQueueKey) && T.Year() <= 9999 {
			r.Violate("C19/notice_queue_scan/foreign-key-in-range", fmt.Sprintf("%x", k), line)
		}
		return strconv.FormatBool(in)
	case "pend":
		e := storetypes.PrefixEndBytes(unhex(f[1]))
		if e == nil {
			return "nil"
		}
		return Hex(e)
	case "sqkeys":
		a := string(unhex(f[1]))
		return Hex(seqtypes.SequencerKey(a)) + " " + Hex(seqtypes.ProposerByRollappKey(a)) + " " + Hex(seqtypes.SuccessorByRollappKey(a))
	}
	return c19Exec3(r, line, f)
}

// ---- decimal identifiers, IRO denoms ----------------------------------------------------------------

var c19AssetTypes = map[string]dymnstypes.AssetType{"1": dymnstypes.TypeName, "2": dymnstypes.TypeAlias}

// c19BoClass: which check of BuyOrder.Validate an id stops at, for an order of the given asset type
func c19BoClass(id string, at dymnstypes.AssetType) string {
	bo := dymnstypes.BuyOrder{Id: id, AssetType: at, AssetId: "abc"}
	err := bo.Validate()
	if err == nil {
		return "pass"
	}
	m := err.Error()
	switch {
	case strings.Contains(m, "ID of offer"):
		return "invalid"
	case strings.Contains(m, "mismatch type of Buy-Order ID prefix"):
		return "mismatch"
	}
	return "pass" // the id checks passed; a later field of the (deliberately incomplete) order fails
}

var c19CreatedIds = map[string]string{}

func c19Exec3(r *Run, line string, f []string) string {
	u := func(i int) uint64 { v, _ := strconv.ParseUint(f[i], 10, 64); return v }
	switch f[0] {
	case "dec":
		return Hex([]byte(strconv.FormatUint(u(1), 10)))
	case "pu64":
		v, err := strconv.ParseUint(string(unhex(f[1])), 10, 64)
		if err != nil {
			return "err"
		}
		return fmt.Sprintf("ok %d", v)
	case "boid":
		at := c19AssetTypes[f[1]]
		n := u(2)
		id, panicked := "", false
		func() {
			defer func() {
				if recover() != nil {
					panicked = true
				}
			}()
			id = dymnstypes.CreateBuyOrderId(at, n)
		}()
		if panicked {
			if n != 0 {
				r.Violate("C19/buy_order_id/create-panics-on-positive-number", fmt.Sprintf("type %v n %d", at, n), line)
			}
			return "panic"
		}
		// monitors (model independent): valid; decomposes back to (type, n); one id names one (type, n)
		if !dymnstypes.IsValidBuyOrderId(id) {
			r.Violate("C19/buy_order_id/created-id-invalid", id, line)
		}
		pfx := map[string]dymnstypes.AssetType{dymnstypes.BuyOrderIdTypeDymNamePrefix: dymnstypes.TypeName, dymnstypes.BuyOrderIdTypeAliasPrefix: dymnstypes.TypeAlias}
		back, err := strconv.ParseUint(id[2:], 10, 64)
		if t2, ok := pfx[id[:2]]; !ok || t2 != at || err != nil || back != n {
			r.Violate("C19/buy_order_id/roundtrip", fmt.Sprintf("id %q does not give back (%v, %d)", id, at, n), line)
		}
		if c19BoClass(id, at) != "pass" {
			r.Violate("C19/buy_order_id/own-type-rejected", id, line)
		}
		for _, other := range c19AssetTypes {
			if other != at && c19BoClass(id, other) != "mismatch" {
				r.Violate("C19/buy_order_id/other-type-accepted", id, line)
			}
		}
		key := fmt.Sprintf("%d/%d", at, n)
		if prev, ok := c19CreatedIds[id]; ok && prev != key {
			r.Violate("C19/buy_order_id/collision", fmt.Sprintf("%q names %s and %s", id, prev, key), line)
		}
		c19CreatedIds[id] = key
		return Hex([]byte(id))
	case "bovalid":
		id := string(unhex(f[1]))
		// monitor: a valid id without a leading zero in its number is the id the constructor hands out
		if dymnstypes.IsValidBuyOrderId(id) && id[2] != '0' {
			n, _ := strconv.ParseUint(id[2:], 10, 64)
			at := dymnstypes.TypeName
			if id[:2] == dymnstypes.BuyOrderIdTypeAliasPrefix {
				at = dymnstypes.TypeAlias
			}
			if got := dymnstypes.CreateBuyOrderId(at, n); got != id {
				r.Violate("C19/buy_order_id/canonical-valid-id-not-created", fmt.Sprintf("%q vs %q", id, got), line)
			}
			r.Hit("bovalid-canonical")
		} else if dymnstypes.IsValidBuyOrderId(id) {
			r.Hit("bovalid-valid-with-leading-zero(non-canonical, accepted by the validator)")
		}
		return fmt.Sprintf("%v %s %s", dymnstypes.IsValidBuyOrderId(id), c19BoClass(id, dymnstypes.TypeName), c19BoClass(id, dymnstypes.TypeAlias))
	case "irodenom":
		ra := string(unhex(f[1]))
		d := irotypes.IRODenom(ra)
		back, ok := irotypes.RollappIDFromIRODenom(d)
		if !ok || back != ra {
			r.Violate("C19/iro_denom/roundtrip", fmt.Sprintf("%q -> %q -> %q,%v", ra, d, back, ok), line)
		}
		return Hex([]byte(d))
	case "irofrom":
		d := string(unhex(f[1]))
		ra, ok := irotypes.RollappIDFromIRODenom(d)
		if !ok {
			return "nil"
		}
		// monitor: a denom that decodes is exactly the denom of what it decodes to
		if irotypes.IRODenom(ra) != d {
			r.Violate("C19/iro_denom/decode-not-inverse", fmt.Sprintf("%q -> %q", d, ra), line)
		}
		return Hex([]byte(ra))
	case "plankey":
		return Hex(irotypes.PlanKey(fmt.Sprintf("%d", u(1))))
	case "planrkey":
		return Hex(irotypes.PlansByRollappKey(string(unhex(f[1]))))
	}
	return c19Exec4(r, line, f)
}

// ---- lockup reference keys and iterator bounds --------------------------------------------------------
// The key builders are the real (unexported) functions of x/lockup/keeper, reached by symbol name in
// c19_link_test.go; the iterator bounds are composed from them exactly as iterator.go does (its
// statement listing is pinned in Lemmas/GenEqKeys.lean).

func c19Lock(owner []byte, dur int64, end time.Time, denoms [][]byte, id uint64) lockuptypes.PeriodLock {
	var coins sdk.Coins
	for _, d := range denoms {
		coins = append(coins, sdk.Coin{Denom: string(d), Amount: math.NewInt(1)})
	}
	return lockuptypes.PeriodLock{ID: id, Owner: sdk.AccAddress(owner).String(), Duration: time.Duration(dur), EndTime: end, Coins: coins}
}

// c19StoredRefs: the store keys addLockRefs/addLockRefByKey write for the lock
func c19StoredRefs(l lockuptypes.PeriodLock, unlocking bool) ([][]byte, error) {
	var refs [][]byte
	var err error
	if unlocking {
		refs, err = lockupLockRefKeys(l)
	} else {
		refs, err = lockupDurationLockRefKeys(l)
	}
	if err != nil {
		return nil, err
	}
	var out [][]byte
	for _, k := range refs {
		out = append(out, lockupCombineKeys(lockupCombineKeys(lockupUnlockingPrefix(unlocking), k), sdk.Uint64ToBigEndian(l.ID)))
	}
	return out, nil
}

func c19In(start, end, k []byte) bool {
	return bytes.Compare(start, k) <= 0 && (end == nil || bytes.Compare(k, end) < 0)
}

func c19HexList(s string) [][]byte {
	if s == "-" {
		return nil
	}
	var out [][]byte
	for _, x := range strings.Split(s, ",") {
		out = append(out, unhex(x))
	}
	return out
}

func c19Exec4(r *Run, line string, f []string) string {
	u := func(i int) uint64 { v, _ := strconv.ParseUint(f[i], 10, 64); return v }
	i64 := func(i int) int64 { v, _ := strconv.ParseInt(f[i], 10, 64); return v }
	switch f[0] {
	case "lkcomb":
		var parts [][]byte
		for _, x := range f[1:] {
			parts = append(parts, unhex(x))
		}
		return Hex(lockupCombineKeys(parts...))
	case "lktime":
		t, ok := c19Time(f, 1)
		if !ok {
			return "invalid-date"
		}
		return Hex(lockupGetTimeKey(t))
	case "lkdur":
		return Hex(lockupGetDurationKey(time.Duration(i64(1))))
	case "lkrefs":
		t, ok := c19Time(f, 4)
		if !ok {
			return "invalid-date"
		}
		ks, err := c19StoredRefs(c19Lock(unhex(f[2]), i64(3), t, c19HexList(f[11]), u(12)), f[1] == "1")
		if err != nil {
			return "err"
		}
		// monitor: the reference keys of one lock are pairwise distinct
		seen := map[string]bool{}
		var hx []string
		for _, k := range ks {
			if seen[string(k)] && len(c19HexList(f[11])) == len(uniqBytes(c19HexList(f[11]))) {
				r.Violate("C19/lockup_ref_keys/duplicate-key-for-one-lock", Hex(k), line)
			}
			seen[string(k)] = true
			hx = append(hx, Hex(k))
		}
		return strings.Join(hx, ",")
	case "lkscan":
		return c19LkScan(r, line, f)
	case "dnkey":
		return Hex(c19DnKey(f[1], unhex(f[2])))
	case "dncmp":
		ka, kb := c19DnKey(f[1], unhex(f[2])), c19DnKey(f[3], unhex(f[4]))
		eq := bytes.Equal(ka, kb)
		scan := bytes.HasPrefix(kb, c19DnPrefix[f[1]])
		// monitors: equal keys only for the same (family, component); family scan stays inside the family
		same := f[1] == f[3] && (f[2] == f[4] || f[1] == "6")
		if eq != same {
			r.Violate("C19/dymns_keys/collision", fmt.Sprintf("families %s,%s keys %x %x", f[1], f[3], ka, kb), line)
		}
		if scan != (f[1] == f[3]) {
			r.Violate("C19/dymns_keys/family-scan-returns-other-family", fmt.Sprintf("prefix of family %s matches key %x of family %s", f[1], kb, f[3]), line)
		}
		return fmt.Sprintf("%v %v", eq, scan)
	}
	return "bad-op"
}

var c19DnPrefix = map[string][]byte{
	"0": dymnstypes.KeyPrefixDymName, "1": dymnstypes.KeyPrefixRvlDymNamesOwnedByAccount,
	"2": dymnstypes.KeyPrefixRvlConfiguredAddressToDymNamesInclude, "3": dymnstypes.KeyPrefixRvlFallbackAddressToDymNamesInclude,
	"4": dymnstypes.KeyPrefixDymNameSellOrder, "5": dymnstypes.KeyPrefixAliasSellOrder, "6": dymnstypes.KeyCountBuyOrders,
	"7": dymnstypes.KeyPrefixBuyOrder, "8": dymnstypes.KeyPrefixRvlBuyerToBuyOrderIds, "9": dymnstypes.KeyPrefixRvlDymNameToBuyOrderIds,
	"10": dymnstypes.KeyPrefixRvlAliasToBuyOrderIds, "11": dymnstypes.KeyPrefixRollAppIdToAliases, "12": dymnstypes.KeyPrefixRvlAliasToRollAppId,
}

// c19DnKey: the real x/dymns key builder of a family
func c19DnKey(fam string, c []byte) []byte {
	switch fam {
	case "0":
		return dymnstypes.DymNameKey(string(c))
	case "1":
		return dymnstypes.DymNamesOwnedByAccountRvlKey(sdk.AccAddress(c))
	case "2":
		return dymnstypes.ConfiguredAddressToDymNamesIncludeRvlKey(string(c))
	case "3":
		return dymnstypes.FallbackAddressToDymNamesIncludeRvlKey(dymnstypes.FallbackAddress(c))
	case "4":
		return dymnstypes.SellOrderKey(string(c), dymnstypes.TypeName)
	case "5":
		return dymnstypes.SellOrderKey(string(c), dymnstypes.TypeAlias)
	case "6":
		return dymnstypes.KeyCountBuyOrders
	case "7":
		return dymnstypes.BuyOrderKey(string(c))
	case "8":
		return dymnstypes.BuyerToOrderIdsRvlKey(c)
	case "9":
		return dymnstypes.DymNameToBuyOrderIdsRvlKey(string(c))
	case "10":
		return dymnstypes.AliasToBuyOrderIdsRvlKey(string(c))
	case "11":
		return dymnstypes.RollAppIdToAliasesKey(string(c))
	}
	return dymnstypes.AliasToRollAppIdRvlKey(string(c))
}

// c19DnComp: components that could confuse families: names/aliases that are prefixes of each other,
// components starting with another family's prefix byte or asset-type byte, empty, created buy-order ids
func c19DnComp(g *Rng) []byte {
	switch g.Intn(7) {
	case 0:
		return []byte(c19Names[g.Intn(len(c19Names))])
	case 1:
		return append([]byte{byte(g.Intn(14))}, []byte(c19Names[g.Intn(len(c19Names))])...)
	case 2:
		return append([]byte{byte(g.Intn(2))}, []byte(c19Names[g.Intn(len(c19Names))])...)
	case 3:
		return nil
	case 4:
		return []byte(dymnstypes.CreateBuyOrderId([]dymnstypes.AssetType{dymnstypes.TypeName, dymnstypes.TypeAlias}[g.Intn(2)], 1+c19Num(g)%1000))
	case 5:
		return c19Owner(g)
	}
	return c19Bytes(g)
}

func uniqBytes(xs [][]byte) [][]byte {
	seen := map[string]bool{}
	var out [][]byte
	for _, x := range xs {
		if !seen[string(x)] {
			seen[string(x)] = true
			out = append(out, x)
		}
	}
	return out
}

// c19LkScan: lkscan <kind> <scan arguments> | <entry arguments>
func c19LkScan(r *Run, line string, f []string) string {
	kind := f[1]
	bar := 0
	for i, x := range f {
		if x == "|" {
			bar = i
		}
	}
	if bar == 0 {
		return "bad-op"
	}
	a, e := f[2:bar], f[bar+1:]
	pu := func(s string) uint64 { v, _ := strconv.ParseUint(s, 10, 64); return v }
	pi := func(s string) int64 { v, _ := strconv.ParseInt(s, 10, 64); return v }
	up := lockupUnlockingPrefix
	// entry: index of the wanted family in the real lockRefKeys output of a one-denom lock
	entry := func(unlocking bool, owner, denom []byte, dur int64, end time.Time, id uint64, idx int) []byte {
		ks, err := c19StoredRefs(c19Lock(owner, dur, end, [][]byte{denom}, id), unlocking)
		if err != nil || idx >= len(ks) {
			return nil
		}
		return ks[idx]
	}
	someOwner, someDenom := bytes.Repeat([]byte{7}, 20), []byte("adym")
	epoch := time.Unix(0, 0).UTC()
	var start, end, k []byte
	var want, hyp bool // expected membership per the property; hyp=false: outside the stated hypothesis
	hyp = true
	switch kind {
	case "matured", "accbefore", "denafter":
		o := 0
		var comp []byte
		if kind != "matured" {
			comp, o = unhex(a[0]), 1
		}
		T, ok := c19Time(a, o)
		if !ok {
			return "invalid-date"
		}
		eo := 0
		var ecomp []byte
		if kind != "matured" {
			ecomp, eo = unhex(e[0]), 1
		}
		t, ok := c19Time(e, eo)
		if !ok {
			return "invalid-date"
		}
		id := pu(e[eo+7])
		tk := lockupGetTimeKey(T)
		switch kind {
		case "matured":
			pfx := lockupCombineKeys(up(true), lockuptypes.KeyPrefixLockTimestamp)
			start, end = pfx, storetypes.PrefixEndBytes(lockupCombineKeys(pfx, tk))
			k = entry(true, someOwner, someDenom, 1, t, id, 4)
			want = !t.After(T)
		case "accbefore":
			pfx := lockupCombineKeys(up(true), lockuptypes.KeyPrefixAccountLockTimestamp, comp)
			start, end = pfx, storetypes.PrefixEndBytes(lockupCombineKeys(pfx, tk))
			k = entry(true, ecomp, someDenom, 1, t, id, 5)
			want = bytes.Equal(comp, ecomp) && !t.After(T)
			hyp = len(comp) == len(ecomp)
		case "denafter":
			pfx := lockupCombineKeys(up(true), lockuptypes.KeyPrefixDenomLockTimestamp, comp)
			start, end = storetypes.PrefixEndBytes(lockupCombineKeys(pfx, tk)), storetypes.PrefixEndBytes(pfx)
			k = entry(true, someOwner, ecomp, 1, t, id, 6)
			want = bytes.Equal(comp, ecomp) && t.After(T)
			hyp = !bytes.Contains(comp, []byte{0xff}) && !bytes.Contains(ecomp, []byte{0xff}) && len(comp) > 0
		}
		hyp = hyp && T.Year() <= 9999 && t.Year() <= 9999
	case "denlonger", "accall", "accdur", "accshorter", "denall":
		unl := a[0] == "1"
		comp := unhex(a[1])
		ecomp := unhex(e[0])
		d2, id := pi(e[1]), pu(e[2])
		var d1 int64
		if len(a) > 2 {
			d1 = pi(a[2])
		}
		c0 := func(x int64) int64 {
			if x < 0 {
				return 0
			}
			return x
		}
		switch kind {
		case "denlonger":
			pfx := lockupCombineKeys(up(unl), lockuptypes.KeyPrefixDenomLockDuration, comp)
			start, end = lockupCombineKeys(pfx, lockupGetDurationKey(time.Duration(d1))), storetypes.PrefixEndBytes(pfx)
			k = entry(unl, someOwner, ecomp, d2, epoch, id, 2)
			want = bytes.Equal(comp, ecomp) && c0(d1) <= c0(d2)
			hyp = !bytes.Contains(comp, []byte{0xff}) && !bytes.Contains(ecomp, []byte{0xff}) && len(comp) > 0
		case "accall":
			pfx := lockupCombineKeys(up(unl), lockuptypes.KeyPrefixAccountLockDuration, comp)
			start, end = pfx, storetypes.PrefixEndBytes(pfx)
			k = entry(unl, ecomp, someDenom, d2, epoch, id, 1)
			want = bytes.Equal(comp, ecomp)
			hyp = len(comp) == len(ecomp)
		case "accdur":
			pfx := lockupCombineKeys(lockupCombineKeys(up(unl), lockuptypes.KeyPrefixAccountLockDuration, comp), lockupGetDurationKey(time.Duration(d1)))
			start, end = pfx, storetypes.PrefixEndBytes(pfx)
			k = entry(unl, ecomp, someDenom, d2, epoch, id, 1)
			want = bytes.Equal(comp, ecomp) && c0(d1) == c0(d2)
			hyp = len(comp) == len(ecomp)
		case "accshorter":
			pfx := lockupCombineKeys(up(unl), lockuptypes.KeyPrefixAccountLockDuration, comp)
			start, end = pfx, lockupCombineKeys(pfx, lockupGetDurationKey(time.Duration(d1)))
			k = entry(unl, ecomp, someDenom, d2, epoch, id, 1)
			want = bytes.Equal(comp, ecomp) && c0(d2) < c0(d1)
			hyp = len(comp) == len(ecomp)
		case "denall":
			// LockIteratorDenom: exported, no callers in the hub (latent)
			pfx := lockupCombineKeys(up(unl), lockuptypes.KeyPrefixDenomLockDuration, comp)
			start, end = pfx, storetypes.PrefixEndBytes(pfx)
			k = entry(unl, someOwner, ecomp, d2, epoch, id, 2)
			want = bytes.Equal(comp, ecomp)
			hyp = false
		}
	default:
		return "bad-op"
	}
	if k == nil {
		return "err"
	}
	in := c19In(start, end, k)
	if in != want {
		switch {
		case hyp:
			r.Violate("C19/lockup_scan/"+kind+"/membership", fmt.Sprintf("scan returned %v, expected %v", in, want), line)
		case kind == "denall":
			r.Hit("lockup-denom-prefix-scan-returns-extension-denom(latent: LockIteratorDenom has no callers)")
		default:
			r.Hit("lockup-scan-outside-hypothesis-differs/" + kind)
		}
	}
	return strconv.FormatBool(in)
}

var c19Nums = []uint64{0, 1, 2, 9, 10, 11, 99, 100, 101, 999, 1000, 1001, 65535, 1 << 32, 1<<63 - 1, 1 << 63, 1<<64 - 2, 1<<64 - 1,
	9999999999999999999, 10000000000000000000, 1844674407370955161, 18446744073709551609, 18446744073709551610}

func c19Num(g *Rng) uint64 {
	if g.Chance(60) {
		return c19Nums[g.Intn(len(c19Nums))]
	}
	return g.BoundaryU64()
}

// c19IdString: candidate buy-order ids — created ones and near misses of the validator
func c19IdString(g *Rng) string {
	p := []string{"10", "20", "30", "1", "", "01", "00", "1o", "10 "}[g.Intn(9)]
	if g.Chance(70) {
		p = []string{"10", "20"}[g.Intn(2)]
	}
	n := strconv.FormatUint(c19Num(g), 10)
	switch g.Intn(12) {
	case 0:
		n = "0" + n
	case 1:
		n = "000" + n
	case 2:
		n = n + "0" // may overflow uint64
	case 3:
		n = "18446744073709551616"
	case 4:
		n = "99999999999999999999999"
	case 5:
		n = []string{"", "+1", "-1", "1_0", "0x1", "1e3", " 1", "1 ", "١", "１", "1.0", "a"}[g.Intn(12)]
	case 6:
		n = "0"
	case 7:
		n = "00"
	}
	return p + n
}

func c19Gen3(r *Run, g *Rng, emit func(kind, line string)) {
	switch g.Intn(9) {
	case 0:
		emit("dec", fmt.Sprintf("dec %d", c19Num(g)))
	case 1:
		s := c19IdString(g)
		if len(s) >= 2 && g.Chance(80) {
			s = s[2:]
		}
		emit("pu64", "pu64 "+Hex([]byte(s)))
	case 2, 3:
		emit("boid", fmt.Sprintf("boid %d %d", 1+g.Intn(2), c19Num(g)))
	case 4, 5:
		emit("bovalid", "bovalid "+Hex([]byte(c19IdString(g))))
	case 6:
		ra := c19RollappID(g)
		if g.Chance(20) {
			ra = []string{"", "IRO/", "/", "IRO/x_1-1", "a/b"}[g.Intn(5)]
		}
		emit("irodenom", "irodenom "+Hex([]byte(ra)))
	case 7:
		d := irotypes.IRODenom(c19RollappID(g))
		switch g.Intn(8) {
		case 0:
			d = d[1:]
		case 1:
			d = "iro/" + d[4:]
		case 2:
			d = d[:g.Intn(5)]
		case 3:
			d = "IRO" + d[4:]
		case 4:
			d = "IRO/" + d
		case 5:
			d = "future/" + d[4:]
		}
		emit("irofrom", "irofrom "+Hex([]byte(d)))
	case 8:
		emit("plankey", fmt.Sprintf("plankey %d", c19Num(g)))
		emit("planrkey", "planrkey "+Hex([]byte(c19RollappID(g))))
	}
}

var c19Denoms = []string{"adym", "adymx", "adym/", "gamm/pool/1", "gamm/pool/10", "gamm/pool/11", "gamm/pool/2", "ibc/27394FB092D2ECCD56123C74F36E4C1F926001CEADA9CA97EA622B25F41E5EB2", "ibc/27394FB092D2ECCD56123C74F36E4C1F926001CEADA9CA97EA622B25F41E5EB", "a", "ab", "zz~", "zz~~"}
var c19Durs = []int64{-1 << 63, -1, 0, 1, 255, 256, 1000000000, 3600000000000, 86400000000000, 14 * 86400000000000, 1<<63 - 1, 1 << 32, 65535, 65536}

// c19Owner: address bytes of length 20 or 32 (what the hub's address verifier accepts; rarely another
// length, which the real builders refuse), pairs sharing long prefixes, bytes 0x00/0xff included
func c19Owner(g *Rng) []byte {
	n := []int{20, 20, 20, 20, 32, 32, 32, 20, 32, 20, 32, 20, 32, 1, 21}[g.Intn(15)]
	b := make([]byte, n)
	fill := []byte{0x00, 0xff, 0x11, 0xfe}[g.Intn(4)]
	for i := range b {
		b[i] = fill
	}
	if g.Chance(60) {
		b[n-1] = byte(g.Intn(4))
	}
	if g.Chance(20) {
		b[g.Intn(n)] = 0xff
	}
	return b
}

func c19Gen4(r *Run, g *Rng, emit func(kind, line string)) {
	dn := func() string { return Hex([]byte(c19Denoms[g.Intn(len(c19Denoms))])) }
	dur := func() int64 { return c19Durs[g.Intn(len(c19Durs))] }
	tm := func() time.Time { return c19GenTime(g, false) }
	id := func() uint64 { return c19Num(g) }
	switch g.Intn(17) {
	case 0:
		n := 1 + g.Intn(4)
		var parts []string
		for i := 0; i < n; i++ {
			parts = append(parts, Hex(c19Bytes(g)))
		}
		emit("lkcomb", "lkcomb "+strings.Join(parts, " "))
	case 1:
		emit("lktime", "lktime "+c19TimeFields(c19GenTime(g, g.Chance(10))))
	case 2:
		d := dur()
		if g.Chance(30) {
			d = int64(g.U64())
		}
		emit("lkdur", fmt.Sprintf("lkdur %d", d))
	case 3:
		n := g.Intn(4)
		var ds []string
		for i := 0; i < n; i++ {
			ds = append(ds, dn())
		}
		dl := "-"
		if n > 0 {
			dl = strings.Join(ds, ",")
		}
		emit("lkrefs", fmt.Sprintf("lkrefs %d %s %d %s %s %d", g.Intn(2), Hex(c19Owner(g)), dur(), c19TimeFields(tm()), dl, id()))
	case 4:
		T := tm()
		t := c19Near(g, T)
		if g.Chance(30) || t.Year() < 0 || t.Year() > 9999 {
			t = tm()
		}
		emit("lkscan-matured", fmt.Sprintf("lkscan matured %s | %s %d", c19TimeFields(T), c19TimeFields(t), id()))
	case 5, 6:
		T := tm()
		t := c19Near(g, T)
		if g.Chance(30) || t.Year() < 0 || t.Year() > 9999 {
			t = tm()
		}
		if g.Bool() {
			a, b := c19Owner(g), c19Owner(g)
			if g.Chance(40) {
				b = a
			}
			emit("lkscan-accbefore", fmt.Sprintf("lkscan accbefore %s %s | %s %s %d", Hex(a), c19TimeFields(T), Hex(b), c19TimeFields(t), id()))
		} else {
			a, b := dn(), dn()
			if g.Chance(40) {
				b = a
			}
			emit("lkscan-denafter", fmt.Sprintf("lkscan denafter %s %s | %s %s %d", a, c19TimeFields(T), b, c19TimeFields(t), id()))
		}
	case 7, 8:
		a, b := dn(), dn()
		if g.Chance(40) {
			b = a
		}
		emit("lkscan-denlonger", fmt.Sprintf("lkscan denlonger %d %s %d | %s %d %d", g.Intn(2), a, dur(), b, dur(), id()))
	case 9, 10:
		a, b := c19Owner(g), c19Owner(g)
		if g.Chance(40) {
			b = a
		}
		if g.Chance(15) && len(a) < 32 { // b extends a (different address lengths)
			b = append(append([]byte{}, a...), make([]byte, 32-len(a))...)
		}
		switch g.Intn(3) {
		case 0:
			emit("lkscan-accall", fmt.Sprintf("lkscan accall %d %s | %s %d %d", g.Intn(2), Hex(a), Hex(b), dur(), id()))
		case 1:
			emit("lkscan-accdur", fmt.Sprintf("lkscan accdur %d %s %d | %s %d %d", g.Intn(2), Hex(a), dur(), Hex(b), dur(), id()))
		case 2:
			emit("lkscan-accshorter", fmt.Sprintf("lkscan accshorter %d %s %d | %s %d %d", g.Intn(2), Hex(a), dur(), Hex(b), dur(), id()))
		}
	case 11:
		a, b := dn(), dn()
		if g.Chance(30) {
			b = a
		}
		emit("lkscan-denall", fmt.Sprintf("lkscan denall %d %s | %s %d %d", g.Intn(2), a, b, dur(), id()))
	case 12, 13:
		emit("dnkey", fmt.Sprintf("dnkey %d %s", g.Intn(13), Hex(c19DnComp(g))))
	case 14, 15, 16:
		fa, fb := g.Intn(13), g.Intn(13)
		if g.Chance(40) {
			fb = fa
		}
		if g.Chance(30) { // the two-byte-prefix neighbours
			p := [][2]int{{4, 5}, {9, 10}, {4, 9}, {5, 10}}[g.Intn(4)]
			fa, fb = p[0], p[1]
		}
		ca, cb := c19DnComp(g), c19DnComp(g)
		if g.Chance(40) {
			cb = ca
		}
		emit("dncmp", fmt.Sprintf("dncmp %d %s %d %s", fa, Hex(ca), fb, Hex(cb)))
	}
}

// c19Gen2 emits one op of the second group.
func c19Gen2(r *Run, g *Rng, emit func(kind, line string)) {
	addr := func() string {
		// bech32-looking sequencer addresses that share long prefixes
		base := "dym1" + strings.Repeat("q", 3+g.Intn(3))
		return Hex([]byte(base + []string{"", "a", "ab", "/", "z9"}[g.Intn(5)]))
	}
	switch g.Intn(7) {
	case 0:
		off := []int{0, 3600, -3600, 19800, 50400, -43200}[g.Intn(6)]
		emit("tfmt", fmt.Sprintf("tfmt %d %s", off, c19TimeFields(c19GenTime(g, true))))
	case 1:
		wide := g.Chance(15)
		a := c19GenTime(g, wide)
		b := c19GenTime(g, wide)
		if g.Chance(60) {
			b = c19Near(g, a)
			if b.Year() < 0 {
				b = a
			}
		}
		emit("tcmp", fmt.Sprintf("tcmp %s %s", c19TimeFields(a), c19TimeFields(b)))
	case 2:
		emit("nqkey", fmt.Sprintf("nqkey %s %s", addr(), c19TimeFields(c19GenTime(g, g.Chance(10)))))
	case 3:
		T := c19GenTime(g, false)
		t := c19GenTime(g, false)
		if g.Chance(70) {
			t = c19Near(g, T)
			if t.Year() < 0 || t.Year() > 9999 {
				t = T
			}
		}
		emit("nqscan", fmt.Sprintf("nqscan %s %s %s", c19TimeFields(T), addr(), c19TimeFields(t)))
	case 4:
		// keys of the other families of the sequencer store, and raw neighbours of the bounds
		T := c19GenTime(g, false)
		var k []byte
		switch g.Intn(6) {
		case 0:
			k = seqtypes.SequencerKey("dym1qqq")
		case 1:
			k = seqtypes.ProposerByRollappKey(c19RollappID(g))
		case 2:
			k = seqtypes.SequencerByRollappByStatusKey(c19RollappID(g), "dym1qqq", seqtypes.Bonded)
		case 3:
			k = []byte{0x43, 0x01}
		case 4:
			k = []byte{0x41, 0xff}
		case 5:
			k = append([]byte{0x42}, c19Bytes(g)...)
		}
		emit("nqother", fmt.Sprintf("nqother %s %s", c19TimeFields(T), Hex(k)))
	case 5:
		b := c19Bytes(g)
		if g.Chance(50) {
			b = append(b, bytes.Repeat([]byte{0xff}, g.Intn(4))...)
		}
		if g.Chance(10) {
			b = bytes.Repeat([]byte{0xff}, g.Intn(4))
		}
		emit("pend", "pend "+Hex(b))
	case 6:
		emit("sqkeys", "sqkeys "+Hex([]byte(c19RollappID(g))))
	}
}

func TestC19(t *testing.T) {
	r := NewRun(t, "C19")
	r.AutoClass = true
	defer r.Close()
	if lines := ReplayLines(); lines != nil {
		for _, l := range lines {
			r.Emit(l, c19Exec(r, l))
		}
		return
	}
	g := r.Rng
	emit := func(kind, line string) {
		obs := c19Exec(r, line)
		r.Emit(line, obs)
		r.Hit(kind)
	}
	pk := func() string {
		ch := fmt.Sprintf("channel-%d", g.Intn(300))
		return fmt.Sprintf("%d %s %d %d %s %d", g.Intn(2), Hex([]byte(c19RollappID(g))), g.BoundaryU64(), g.Intn(4), Hex([]byte(ch)), g.BoundaryU64())
	}
	n := r.N(16000, 220000)
	c19AddrDirected(emit)
	for i := 0; i < n; i++ {
		if g.Chance(12) {
			c19GenAddr(r, g, emit)
			continue
		}
		if g.Chance(8) {
			c19GenLock(r, g, emit)
			continue
		}
		if g.Chance(30) {
			if g.Chance(60) {
				c19GenColl(r, g, emit)
			} else {
				c19GenX(r, g, emit)
			}
			continue
		}
		if g.Chance(70) {
			switch g.Intn(3) {
			case 0:
				c19Gen2(r, g, emit)
			case 1:
				c19Gen3(r, g, emit)
			case 2:
				c19Gen4(r, g, emit)
			}
			continue
		}
		switch g.Intn(13) {
		case 0:
			emit("be64", fmt.Sprintf("be64 %d", g.BoundaryU64()))
		case 1:
			emit("lex", fmt.Sprintf("lex %s %s", Hex(c19Bytes(g)), Hex(c19Bytes(g))))
		case 2:
			b := c19Bytes(g)
			if g.Chance(40) { // trailing zero bytes
				b = append(b, make([]byte, 1+g.Intn(3))...)
			}
			emit("b64enc", "b64enc "+Hex(b))
		case 3:
			// mostly-valid base64 strings, then perturbed
			s := []byte(commontypes.EncodePacketKey(c19Bytes(g)))
			if g.Chance(40) && len(s) > 0 {
				switch g.Intn(5) {
				case 0:
					s[g.Intn(len(s))] = "=\n\r !-_"[g.Intn(7)]
				case 1:
					s = s[:g.Intn(len(s))]
				case 2:
					s = append(s, "=A\n"[g.Intn(3)])
				case 3:
					i := g.Intn(len(s))
					s = append(s[:i:i], append([]byte{'\n'}, s[i:]...)...)
				case 4:
					s = append(s, s...)
				}
				r.Hit("b64dec-perturbed")
			}
			emit("b64dec", "b64dec "+Hex(s))
		case 4:
			emit("pkey", "pkey "+pk())
		case 5, 6:
			emit("rt", "rt "+pk())
			emit("evrt", "evrt "+pk())
		case 7:
			ra := Hex([]byte(c19RollappID(g)))
			k := pk()
			if g.Chance(60) {
				f := strings.Fields(k)
				f[1] = ra
				k = strings.Join(f, " ")
			}
			kind := []string{"rmax", "rfrom"}[g.Intn(2)]
			emit(kind, fmt.Sprintf("%s %s %d %s", kind, ra, g.BoundaryU64(), k))
		case 8:
			ra := Hex([]byte(c19RollappID(g)))
			k := pk()
			if g.Chance(60) {
				f := strings.Fields(k)
				f[1] = ra
				k = strings.Join(f, " ")
			}
			emit("scan", fmt.Sprintf("scan %d %s %s", g.Intn(2), ra, k))
		case 9:
			emit("dokey", fmt.Sprintf("dokey %d %s", g.Intn(2), Hex(c19Bytes(g))))
		case 10:
			emit("livkey", fmt.Sprintf("livkey %d %s", g.BoundaryU64(), Hex([]byte(c19RollappID(g)))))
			emit("livrt", fmt.Sprintf("livrt %d %s", g.BoundaryU64(), Hex([]byte(c19RollappID(g)))))
		case 11:
			emit("seqkey", fmt.Sprintf("seqkey %s %s %d", Hex([]byte(c19RollappID(g))), Hex(c19Bytes(g)), g.Intn(2)))
		case 12:
			a := c19RollappID(g)
			b := c19RollappID(g)
			if g.Chance(30) {
				b = a
			}
			if g.Chance(15) {
				b = a + strconv.Itoa(g.Intn(10)) // same name, one id a byte prefix of the other: the monitor decides
			}
			emit("seqscan", fmt.Sprintf("seqscan %s %s %s %d", Hex([]byte(a)), Hex([]byte(b)), Hex(c19Bytes(g)), g.Intn(2)))
		}
	}
	r.Trace()
}
