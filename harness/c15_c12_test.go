package harness

// TestC15Upd — a small package harness for C12 only (one of `c12Pkgs`): histories in which
// UpdateStreamDistributionProposal runs with three or more records in the merged record map, so that
// the map range of x/streamer Keeper.UpdateDistrRecords is non-trivially permutable.  The C15
// generator has no such op (its Lean model has no `update`); here the ops run on the C15 world (the
// full application) and the observation is the op's class, the stored records of every stream and
// the C15 state line, so that the replicas of TestC12 compare results, store digests and gas of the
// real message path across OS processes.  The loop shape itself is tied to the Lean model by the
// `shape distr` lines of TestC12 (c12_shapes_test.go).
//
//	reset <time> <maxIter> <nd> <na>     as TestC15
//	update <stream> <g:w,…>              HandleUpdateStreamDistributionProposal
//	every other line                     c15World.apply

import (
	"fmt"
	"sort"
	"strings"
	"testing"

	sdk "github.com/cosmos/cosmos-sdk/types"

	"github.com/dymensionxyz/dymension/v3/x/streamer"
	streamertypes "github.com/dymensionxyz/dymension/v3/x/streamer/types"
)

type c15Upd struct {
	r *Run
	w *c15World
}

func (h *c15Upd) records() string {
	var xs []string
	for _, s := range h.w.f.App.StreamerKeeper.GetStreams(h.w.f.Ctx) {
		var rs []string
		for _, r := range s.DistributeTo.Records {
			rs = append(rs, fmt.Sprintf("%d:%s", r.GaugeId, r.Weight))
		}
		xs = append(xs, fmt.Sprintf("%d=[%s]/%s", s.Id, strings.Join(rs, ","), s.DistributeTo.TotalWeight))
	}
	return strings.Join(xs, " ")
}

func (h *c15Upd) exec(line string) string {
	fl := strings.Fields(line)
	if len(fl) == 0 {
		return "bad-op"
	}
	if fl[0] == "reset" {
		var mi uint64
		fmt.Sscanf(fl[2], "%d", &mi)
		h.w = c15NewWorld(h.r.T, mi)
		return "ok | R=" + h.records() + " | " + h.w.obs()
	}
	if h.w == nil {
		return "bad-op"
	}
	class := ""
	func() {
		defer func() {
			if e := recover(); e != nil {
				class = "panic"
			}
		}()
		if fl[0] == "update" && len(fl) == 3 {
			var id uint64
			fmt.Sscanf(fl[1], "%d", &id)
			p := &streamertypes.UpdateStreamDistributionProposal{Title: "t", Description: "d", StreamId: id, Records: c15Recs(fl[2])}
			if err := p.ValidateBasic(); err != nil {
				class = "invalid"
				return
			}
			class = c15Class(h.w.f.Try(func(ctx sdk.Context) error {
				return streamer.HandleUpdateStreamDistributionProposal(ctx, h.w.f.App.StreamerKeeper, p)
			}))
			return
		}
		class, _ = h.w.apply(fl, false)
	}()
	return class + " | R=" + h.records() + " | " + h.w.obs()
}

func TestC15Upd(t *testing.T) {
	r := NewRun(t, "C15Upd")
	defer r.Close()
	h := &c15Upd{r: r}
	if lines := ReplayLines(); lines != nil {
		for _, tr := range SplitTraces(lines) {
			for _, l := range tr {
				r.Emit(l, h.exec(l))
			}
			r.Trace()
		}
		return
	}
	g := r.Rng
	do := func(line string) string {
		o := h.exec(line)
		r.Emit(line, o)
		return o
	}
	recs := func(minN, zeroPct int) string {
		n := minN + g.Intn(c12NGauges-minN+1)
		seen := map[int]bool{}
		var ks []int
		for len(ks) < n {
			k := 1 + g.Intn(c12NGauges)
			if !seen[k] {
				seen[k] = true
				ks = append(ks, k)
			}
		}
		sort.Ints(ks)
		var xs []string
		for _, k := range ks {
			w := 1 + g.Intn(40)
			if g.Chance(zeroPct) {
				w = 0
			}
			xs = append(xs, fmt.Sprintf("%d:%d", k, w))
		}
		return strings.Join(xs, ",")
	}
	for tr, n := 0, r.N(40, 400); tr < n; tr++ {
		do(fmt.Sprintf("reset %d %d %d %d", c15T0+6, []int{1, 3, 1000}[g.Intn(3)], c15ND, c15NA))
		for i := 0; i < c12NGauges; i++ {
			do(fmt.Sprintf("rollapp %d %d 1", i, g.Intn(c15NA)))
			do(fmt.Sprintf("rgauge %d", i))
		}
		do("fund 100 600000,300000")
		do(fmt.Sprintf("mkstream 600000,300000 %s %d 1 %d", recs(3, 0), c15Time(h.w.f)+1, 2+g.Intn(3)))
		accepted := false
		for i, m := 0, 3+g.Intn(5); i < m; i++ {
			switch g.Intn(4) {
			case 0, 1: // update with three or more records, some of them deletions
				o := do(fmt.Sprintf("update 1 %s", recs(3, 30)))
				if strings.HasPrefix(o, "ok") {
					accepted = true
					r.Hit("update/three-or-more-records/ok")
				} else {
					r.Hit("update/three-or-more-records/rejected")
				}
			case 2: // an hour passes: the epoch ends, the stream pays the gauges of its records
				do("begin 3601")
				do("end")
			case 3:
				do(fmt.Sprintf("replace 1 %s", recs(1, 0)))
			}
		}
		do("begin 3601")
		do("end")
		r.Class(fmt.Sprintf("t%d", tr), accepted)
		r.Trace()
	}
}
