package harness

// C18, continue-after-import for every package harness (parent side; child side: c18_fork.go).
//
// For one package generator:
//   1. generation child (VERIF_C18=1): the package's own generator; every trace ends in the export ->
//      import comparison (c18_generic.go) and a final record (query dumps, invariants, supply);
//   2. the op lines of that run, with one `c18-fork` marker per (sampled) trace at a random op
//      boundary in its middle, are replayed by a second child (VERIF_C18=fork): at the marker the
//      chain is exported, imported into a fresh application and the package harness goes on executing
//      the rest of the trace on the imported chain B;
//   3. the observation line of every op after the marker (it carries the op's result class), the final
//      record of the trace and the package's own monitors are compared with chain A (the generation
//      run; when anything differs, a marker-free replay of the same lines is the reference instead, so
//      that a difference between generating and replaying is not mistaken for one between A and B).
//
// A difference is `C18/continue/<module>-<what>-differs` unless the comparison at the fork point
// already reported a LISTED finding (known_findings.json) of a module the difference belongs to: then
// it is a consequence of that finding and carries its signature + `/after-continue`.

import (
	"bufio"
	"encoding/json"
	"fmt"
	"os"
	"path/filepath"
	"regexp"
	"sort"
	"strconv"
	"strings"
	"sync"
	"testing"
)

// modules a package's observations are about
var c18PkgModules = map[string][]string{
	"TestC13":     {"iro"},
	"TestC14":     {"lockup"},
	"TestPackets": {"delayedack", "eibc"},
	"TestC10":     {"rollapp", "delayedack"},
	"TestC09":     {"lightclient", "sequencer", "rollapp"},
	"TestC15":     {"incentives", "streamer"},
	"TestC16":     {"sponsorship", "incentives"},
	"TestC17":     {"dymns"},
	"TestC20":     {"rollapp", "sequencer", "dymns", "eibc", "incentives", "streamer", "sponsorship", "lockup", "iro", "delayedack", "lightclient"},
}

// c18Related: a listed loss in module `taint` explains a later difference in module `m`
func c18Related(taint, m string) bool {
	if taint == m {
		return true
	}
	switch taint + ">" + m {
	case "dymns>bank", // refunds are minted
		"incentives>bank", "streamer>bank", "streamer>incentives", "incentives>streamer",
		"sponsorship>incentives", "sponsorship>streamer":
		return true
	}
	return false
}

var reC18SigQuery = regexp.MustCompile(`^C18/queries/([a-z]+)\.([A-Za-z]+)`)
var reC18SigQueryKey = regexp.MustCompile(`^C18/queries/([A-Za-z.]+)-(?:differs|missing-after-import)$`)
var reC18SigReexp = regexp.MustCompile(`^C18/reexport/([a-z]+)-genesis-differs`)

// c18SigModule: the module a signature of the fork-point comparison is about
func c18SigModule(sig string) string {
	if m := reC18SigQuery.FindStringSubmatch(sig); m != nil {
		if m[1] == "params" {
			return m[2]
		}
		return m[1]
	}
	if m := reC18SigReexp.FindStringSubmatch(sig); m != nil {
		return m[1]
	}
	switch {
	case strings.HasPrefix(sig, "C18/dymns/"), strings.HasPrefix(sig, "C18/dymns-"):
		return "dymns"
	case strings.HasPrefix(sig, "C18/bank/"):
		return "bank"
	case strings.Contains(sig, "vfbc-"):
		return "denommetadata"
	}
	return "?"
}

func c18DumpKeyModule(k string) string {
	a, b, _ := strings.Cut(k, ".")
	if a == "params" {
		return b
	}
	return a
}

func c18KnownSigs() map[string]bool {
	out := map[string]bool{}
	root := envOr("VERIF_ROOT", "..")
	b, err := os.ReadFile(filepath.Join(root, "known_findings.json"))
	if err != nil {
		return out
	}
	var k struct {
		Findings []struct{ Status, Signature string }
	}
	_ = json.Unmarshal(b, &k)
	for _, f := range k.Findings {
		if f.Status == "known" {
			out[f.Signature] = true
		}
	}
	return out
}

// c18Attribute: the signature a continue-difference in modules `mods` is reported under.
func c18Attribute(taint []string, known map[string]bool, mods []string, sig string) (string, bool) {
	var cands []string
	for _, t := range taint {
		t = strings.TrimSuffix(t, "/after-continue")
		if strings.HasSuffix(t, "-by-design") {
			// documented behaviour of the module's genesis (not a finding): explains differences in its module
			for _, m := range mods {
				if c18Related(c18SigModule(t), m) {
					return "", true
				}
			}
			continue
		}
		if !known[t] {
			continue
		}
		for _, m := range mods {
			if c18Related(c18SigModule(t), m) {
				cands = append(cands, t)
				break
			}
		}
	}
	if len(cands) == 0 {
		return sig, false
	}
	sort.Strings(cands)
	return cands[0] + "/after-continue", true
}

// ---- child runs ------------------------------------------------------------------------------

type c18Out struct {
	dir    string
	ops    []string
	obs    []string
	events []c18Event
	marks  map[int]bool // replay file: marker after line i
	viol   []Violation
	hits   map[string]int
	nOps   int
	traces int
	err    error
}

func readLines(p string) []string {
	f, err := os.Open(p)
	if err != nil {
		return nil
	}
	defer f.Close()
	var out []string
	sc := bufio.NewScanner(f)
	sc.Buffer(make([]byte, 1<<20), 1<<28)
	for sc.Scan() {
		out = append(out, sc.Text())
	}
	return out
}

func c18RunChild(r *Run, test, tag string, seed uint64, mode string, replay []string, env []string) *c18Out {
	o := &c18Out{dir: filepath.Join(r.OutDir, "c18-"+test+"-"+tag)}
	os.RemoveAll(o.dir)
	_ = os.MkdirAll(o.dir, 0o755)
	rp := ""
	o.marks = map[int]bool{}
	k := 0
	for _, l := range replay {
		if l == c18ForkMarker {
			o.marks[k] = true
		} else {
			k++
		}
	}
	if replay != nil {
		rp = o.dir + ".replay"
		_ = os.WriteFile(rp, []byte(strings.Join(replay, "\n")+"\n"), 0o644)
		defer os.Remove(rp)
	}
	extra := append([]string{"VERIF_C18=" + mode}, env...)
	o.err = c12Child(r.T, test, o.dir, seed, rp, 16, extra)
	o.ops = readLines(filepath.Join(o.dir, "ops.txt"))
	o.obs = readLines(filepath.Join(o.dir, "impl.obs"))
	for _, l := range readLines(filepath.Join(o.dir, "c18final.jsonl")) {
		var e c18Event
		if json.Unmarshal([]byte(l), &e) == nil {
			o.events = append(o.events, e)
		}
	}
	var st struct {
		Ops, Traces int
		Branches    map[string]int
		Violations  []Violation
	}
	b, _ := os.ReadFile(filepath.Join(o.dir, "stats.json"))
	_ = json.Unmarshal(b, &st)
	o.viol, o.hits, o.nOps, o.traces = st.Violations, st.Branches, st.Ops, st.Traces
	return o
}

// ---- one package ------------------------------------------------------------------------------

type c18PkgRes struct {
	test      string
	line, res string
	viol      []Violation
	hits      map[string]int
	info      map[string]int
}

func (p *c18PkgRes) violate(sig, detail string, replay []string) {
	for i, v := range p.viol {
		if v.Signature == sig {
			if len(replay) < len(v.Replay) {
				p.viol[i] = Violation{sig, detail, replay}
			}
			return
		}
	}
	p.viol = append(p.viol, Violation{sig, detail, replay})
}

func c18ScaledEnv(r *Run, pk c12Pkg) []string {
	var extra []string
	for _, e := range pk.Env {
		if (r.Thorough() || os.Getenv("VERIF_SEARCH") != "") && strings.HasPrefix(e, "VERIF_SCALE=") {
			f, _ := strconv.ParseFloat(strings.TrimPrefix(e, "VERIF_SCALE="), 64)
			k := 6.0
			if !r.Thorough() { // search branch of a quick check: wider than the quick run, still minutes not hours
				k = 3
			}
			e = fmt.Sprintf("VERIF_SCALE=%g", f*k)
		}
		extra = append(extra, e)
	}
	return extra
}

// c18Package runs the whole pipeline for one package generator (or one replay); it does not touch r
// (several run concurrently) except for reading its configuration.
func c18Package(r *Run, test string, replay []string, seed uint64) *c18PkgRes {
	p := &c18PkgRes{test: test, line: fmt.Sprintf("pkg %s seed=%d", test, seed), res: "ok", hits: map[string]int{}, info: map[string]int{}}
	var pk c12Pkg
	for _, x := range c18Pkgs {
		if x.Test == test {
			pk = x
		}
	}
	known := c18KnownSigs()
	adopt := func(o *c18Out) {
		for _, v := range o.viol {
			if strings.HasPrefix(v.Signature, "C18/") {
				p.info["violations"]++
				p.violate(v.Signature, test+": "+v.Detail, append([]string{"pkg " + test}, v.Replay...))
			}
		}
		for k, v := range o.hits {
			if strings.HasPrefix(k, "c18/") {
				p.info[k] += v
			}
		}
	}
	fail := func(o *c18Out, what string) {
		p.violate("C18/child/package-run-failed", trunc200(test+" ("+what+"): "+o.err.Error()), []string{p.line})
		p.res = "failed"
	}
	hasMarker := false
	for _, l := range replay {
		hasMarker = hasMarker || l == c18ForkMarker
	}
	var a, b *c18Out
	switch {
	case replay != nil && !hasMarker:
		// replay of a violation of the trace-end comparison
		a = c18RunChild(r, test, "gen", seed, "1", replay, nil)
		if a.err != nil {
			fail(a, "replay")
			return p
		}
		adopt(a)
		p.info["ops"], p.info["traces"] = a.nOps, a.traces
		c18Cleanup(a.dir)
		return p
	case replay != nil:
		// replay of a continue-after-import violation: reference = the same lines without the markers
		var plain []string
		for _, l := range replay {
			if l != c18ForkMarker {
				plain = append(plain, l)
			}
		}
		var wg sync.WaitGroup
		wg.Add(2)
		go func() { defer wg.Done(); a = c18RunChild(r, test, "ref", seed, "final", plain, nil) }()
		go func() { defer wg.Done(); b = c18RunChild(r, test, "fork", seed, "fork", replay, nil) }()
		wg.Wait()
		defer c18Cleanup(a.dir)
		defer c18Cleanup(b.dir)
		if a.err != nil {
			fail(a, "reference replay")
			return p
		}
		c18ContinueCompare(p, test, a, b, known)
		adopt(b)
		return p
	}
	env := c18ScaledEnv(r, pk)
	gen := c18RunChild(r, test, "gen", seed, "1", nil, env)
	defer c18Cleanup(gen.dir)
	if gen.err != nil {
		fail(gen, "generation")
		return p
	}
	adopt(gen)
	p.info["ops"], p.info["traces"] = gen.nOps, gen.traces
	// markers: one per trace of the generated history, at a random op boundary of its middle half
	g := NewRng(seed*0x9E3779B1 + 0xC18)
	marks := map[int]bool{} // marker after op line k (1-based)
	for _, e := range gen.events {
		if e.Kind != "end" {
			continue
		}
		n := e.At - e.Start + 1
		if n < 3 || e.At > len(gen.ops) {
			continue
		}
		lo, hi := e.Start+n/4, e.Start+(3*n)/4
		if hi > e.At-1 {
			hi = e.At - 1
		}
		if hi < lo {
			continue
		}
		marks[lo+g.Intn(hi-lo+1)] = true
	}
	// chain A: the history replayed as it is; chain B: the same file with the markers.  When the forked
	// run dies (a package harness that cannot go on after a listed loss calls t.Fatal), the comparison is
	// resumed at the next trace of the history.
	offset := 0 // op lines of gen.ops before the part being replayed
	for round := 0; round < 10 && offset < len(gen.ops); round++ {
		var plain, withMarks []string
		for i := offset; i < len(gen.ops); i++ {
			plain = append(plain, gen.ops[i])
			withMarks = append(withMarks, gen.ops[i])
			if marks[i+1] {
				withMarks = append(withMarks, c18ForkMarker)
			}
		}
		tag := fmt.Sprintf("%d", round)
		var wg sync.WaitGroup
		wg.Add(2)
		go func() { defer wg.Done(); a = c18RunChild(r, test, "ref"+tag, seed, "final", plain, env) }()
		go func() { defer wg.Done(); b = c18RunChild(r, test, "fork"+tag, seed, "fork", withMarks, env) }()
		wg.Wait()
		defer c18Cleanup(a.dir)
		defer c18Cleanup(b.dir)
		if a.err != nil {
			fail(a, "reference replay")
			return p
		}
		a.viol = append(a.viol, gen.viol...) // monitors that run only while generating
		c18ContinueCompare(p, test, a, b, known)
		adopt(b)
		if b.err == nil {
			break
		}
		p.hits["c18/continue/"+test+"/forked-run-died-resumed-at-next-trace"]++
		died := offset + len(b.ops) // last op line of the history the forked run wrote
		next := -1
		for _, e := range gen.events {
			if e.Kind == "end" && e.Start > died+1 {
				next = e.Start
				break
			}
		}
		if next < 0 {
			break
		}
		offset = next - 1
	}
	return p
}

// c18ContinueCompare compares chain A (run a) with chain B (run b: the same lines, forked at the
// markers), epoch by epoch.  It reports into p and returns whether anything differed.
func c18ContinueCompare(p *c18PkgRes, test string, a, b *c18Out, known map[string]bool) (differs bool) {
	mods := c18PkgModules[test]
	if len(mods) == 0 {
		mods = []string{"?"}
	}
	m0 := mods[0]
	pkgLine := "pkg " + test
	hit := func(k string, n int) { p.hits["c18/continue/"+test+"/"+k] += n }
	n := len(b.ops)
	if len(b.obs) < n {
		n = len(b.obs)
	}
	if len(a.ops) < n {
		n = len(a.ops)
	}
	if len(a.obs) < n {
		n = len(a.obs)
	}
	// events of B by kind; trace ends of A by position
	var starts []int
	var forks, ends []c18Event
	endA := map[int]c18Event{}
	markAfter := map[int]bool{}
	for _, e := range b.events {
		switch e.Kind {
		case "epoch":
			starts = append(starts, e.At)
		case "fork":
			forks = append(forks, e)
			markAfter[e.At] = true
		case "end":
			ends = append(ends, e)
		}
	}
	for _, e := range a.events {
		if e.Kind == "end" {
			endA[e.At] = e
		}
	}
	if len(starts) == 0 || starts[0] > 1 {
		starts = append([]int{1}, starts...)
	}
	replayOf := func(s, upTo int) []string {
		out := []string{pkgLine}
		for i := s; i <= upTo && i <= len(a.ops); i++ {
			out = append(out, a.ops[i-1])
			if markAfter[i] && i < upTo {
				out = append(out, c18ForkMarker)
			}
		}
		return out
	}
	for ei, s := range starts {
		e := n
		if ei+1 < len(starts) {
			e = starts[ei+1] - 1
		}
		if e > n {
			e = n
		}
		// forks of this epoch
		var fk []c18Event
		for _, f := range forks {
			if f.At >= s && f.At < e {
				if f.OK {
					fk = append(fk, f)
				} else {
					hit("fork-point-not-importable", 1)
				}
			}
		}
		if len(fk) == 0 {
			continue
		}
		hit("epochs-forked", 1)
		for _, f := range fk {
			hit("imports-continued", 1)
			for _, x := range f.Repair {
				hit("carried-over/"+x, 1)
			}
			kt := 0
			for _, t := range f.Taint {
				if known[t] && func() bool {
					for _, m := range mods {
						if c18Related(c18SigModule(t), m) {
							return true
						}
					}
					return false
				}() {
					kt++
				}
			}
			if kt > 0 {
				hit("imports-with-listed-loss-in-the-package's-modules", 1)
			} else {
				hit("imports-compared-strictly", 1)
			}
		}
		F := fk[0].At
		hit("ops-after-import", e-F)
		taintUpTo := func(i int) (t []string) {
			for _, f := range fk {
				if f.At < i {
					t = append(t, f.Taint...)
				}
			}
			return
		}
		report := func(dmods []string, sig, detail string, upTo int) {
			differs = true
			// attributed only along a causal path (c18Related) from the module of a listed loss reported by an
			// import of this epoch to the module the difference is in
			sg, attributed := c18Attribute(taintUpTo(upTo), known, dmods, sig)
			if attributed {
				hit("difference-attributed-to-listed-finding", 1)
				hit("attributed/"+strings.TrimPrefix(sig, "C18/continue/")+"=>"+strings.TrimPrefix(sg, "C18/"), 1)
				if os.Getenv("C18_DEBUG") != "" {
					fmt.Printf("ATTR %s => %s | %s | replay %d lines: %s\n", sig, sg, detail, len(replayOf(s, upTo)), strings.Join(replayOf(s, upTo), " ;; "))
				}
			} else {
				hit("difference-unexplained", 1)
			}
			if sg == "" {
				hit("difference-explained-by-documented-genesis-behaviour", 1)
				return
			}
			p.violate(sg, trunc200(test+": "+detail), replayOf(s, upTo))
		}
		aligned := true
		for i := s; i <= F; i++ {
			if a.ops[i-1] != b.ops[i-1] || a.obs[i-1] != b.obs[i-1] {
				aligned = false // the two replays differ before any import of this epoch: nothing to say about A and B
				break
			}
		}
		if !aligned {
			differs = true
			hit("runs-differ-before-fork", 1)
			continue
		}
		first := 0
		for i := F + 1; i <= e; i++ {
			if a.obs[i-1] != b.obs[i-1] || a.ops[i-1] != b.ops[i-1] {
				first = i
				break
			}
		}
		if first > 0 {
			kind := strings.Fields(a.ops[first-1] + " ?")[0]
			what, det := c18ObsDiff(a.obs[first-1], b.obs[first-1])
			if a.ops[first-1] != b.ops[first-1] {
				// the emitted op line carries values the harness read from the chain
				what, det = c18ObsDiff(a.ops[first-1], b.ops[first-1])
				what = "op-annotation-" + what
			}
			report(mods, "C18/continue/"+m0+"-"+kind+"-"+what+"-differs",
				fmt.Sprintf("op %d of the history (`%s`, %d ops after the first import): %s", first-s+1, trunc(a.ops[first-1]), first-F, det), first)
		}
		// final records of the traces that ended on the imported chain with equal observations so far
		for _, eb := range ends {
			if eb.At <= F || eb.At > e || (first > 0 && eb.At >= first) {
				continue
			}
			ea, ok := endA[eb.At]
			if !ok {
				differs = true
				hit("trace-end-not-aligned", 1)
				continue
			}
			hit("trace-ends-compared", 1)
			if ea.Inv != eb.Inv {
				im := "invariants"
				if mm := reInvBroken.FindStringSubmatch(eb.Inv + " " + ea.Inv); mm != nil {
					im = mm[1]
				}
				report([]string{im}, "C18/continue/"+im+"-final-invariants-differ", fmt.Sprintf("registered invariants at the end of the trace: original `%s` imported `%s`", ea.Inv, eb.Inv), eb.At)
			}
			var ks []string
			for k := range ea.Supply {
				ks = append(ks, k)
			}
			for k := range eb.Supply {
				if _, ok := ea.Supply[k]; !ok {
					ks = append(ks, k)
				}
			}
			sort.Strings(ks)
			for _, k := range ks {
				if ea.Supply[k] != eb.Supply[k] {
					report([]string{"bank"}, "C18/continue/bank-final-supply-differs", fmt.Sprintf("supply of %s at the end of the trace: original %s imported %s", k, ea.Supply[k], eb.Supply[k]), eb.At)
					break
				}
			}
			ks = nil
			for k := range ea.Dump {
				ks = append(ks, k)
			}
			sort.Strings(ks)
			listed := map[string]bool{} // dump keys whose difference is itself a listed finding reported at an import of this epoch
			for _, t := range taintUpTo(eb.At + 1) {
				if m := reC18SigQueryKey.FindStringSubmatch(t); m != nil && known[t] {
					listed[m[1]] = true
				}
			}
			for _, k := range ks {
				if ea.Dump[k] != eb.Dump[k] && listed[k] {
					hit("final-difference-is-the-listed-loss-itself", 1)
					continue
				}
				if ea.Dump[k] != eb.Dump[k] {
					report([]string{c18DumpKeyModule(k)}, "C18/continue/"+c18DumpKeyModule(k)+"-final-"+k+"-differs",
						fmt.Sprintf("query dump at the end of the trace: original `%s` imported `%s`", ea.Dump[k], eb.Dump[k]), eb.At)
				}
			}
		}
	}
	if b.err != nil {
		// the forked run died (a harness assertion or an unrecovered panic) after its last written op: the
		// epoch it was in, up to the next op of the reference run
		differs = true
		s := 1
		for _, x := range starts {
			if x <= n+1 {
				s = x
			}
		}
		up := n + 1
		if up > len(a.ops) {
			up = len(a.ops)
		}
		for _, x := range forks {
			markAfter[x.At] = true
		}
		var taint []string
		for _, f := range forks {
			if f.At >= s {
				taint = append(taint, f.Taint...)
			}
		}
		sg, _ := c18Attribute(taint, known, mods, "C18/continue/"+m0+"-package-run-fails-after-import")
		if sg == "" {
			sg = "C18/continue/" + m0 + "-package-run-fails-after-import"
		}
		rep := []string{pkgLine}
		for i := s; i <= up; i++ {
			rep = append(rep, a.ops[i-1])
			if c18MarkInFile(b, i) {
				rep = append(rep, c18ForkMarker)
			}
		}
		p.violate(sg, trunc200(test+": "+b.err.Error()), rep)
	}
	// the package's own monitors: one that fires on the forked run only
	seen := map[string]bool{}
	for _, v := range a.viol {
		seen[v.Signature] = true
	}
	for _, v := range b.viol {
		if strings.HasPrefix(v.Signature, "C18/") || seen[v.Signature] {
			continue
		}
		differs = true
		var taint []string
		for _, f := range forks {
			taint = append(taint, f.Taint...)
		}
		sg, _ := c18Attribute(taint, known, mods, "C18/continue/"+m0+"-monitor-fires-only-after-import/"+v.Signature)
		if sg == "" {
			continue
		}
		p.violate(sg, trunc200(test+": "+v.Signature+": "+v.Detail), append([]string{pkgLine}, v.Replay...))
	}
	return differs
}

// c18MarkInFile: whether the replay file of run b had a marker after line i
func c18MarkInFile(b *c18Out, i int) bool { return b.marks[i] }

// c18ObsDiff names the first differing token of two observation lines: "outcome" for the leading
// result class, the key of a `key=value` token, else the token's position.
func c18ObsDiff(x, y string) (what, detail string) {
	xs, ys := strings.Fields(x), strings.Fields(y)
	for i := 0; i < len(xs) || i < len(ys); i++ {
		var u, v string
		if i < len(xs) {
			u = xs[i]
		}
		if i < len(ys) {
			v = ys[i]
		}
		if u == v {
			continue
		}
		what = fmt.Sprintf("field%d", i)
		if k, _, ok := strings.Cut(u, "="); ok && k != "" && reObsKey.MatchString(k) {
			what = k
		} else if i == 0 {
			what = "outcome"
		}
		return what, fmt.Sprintf("original `%s` imported `%s`", trunc(u), trunc(v))
	}
	return "observation", "lines differ in spacing only"
}

var reObsKey = regexp.MustCompile(`^[A-Za-z][A-Za-z0-9_.]*$`)

// c18RunPackages runs the pipelines of all package generators concurrently and reports in order.
func c18RunPackages(r *Run) {
	res := make([]*c18PkgRes, len(c18Pkgs))
	sem := make(chan struct{}, 6)
	var wg sync.WaitGroup
	for i, pk := range c18Pkgs {
		wg.Add(1)
		go func(i int, test string) {
			defer wg.Done()
			sem <- struct{}{}
			defer func() { <-sem }()
			res[i] = c18Package(r, test, nil, r.Seed*31+uint64(i))
		}(i, pk.Test)
	}
	wg.Wait()
	for _, p := range res {
		c18Apply(r, p)
	}
}

func c18Apply(r *Run, p *c18PkgRes) {
	for _, v := range p.viol {
		r.Violate(v.Signature, v.Detail, v.Replay...)
	}
	r.Emit(p.line, p.res)
	r.Hit(fmt.Sprintf("c18child/%s/ran", p.test))
	for k, v := range p.hits {
		r.hits[k] += v
	}
	r.Set("c18-"+p.test, p.info)
}

// TestC18Pkg (development aid, not registered): the pipeline of the single package named by
// C18_PKG, results printed.  C18_KEEP=1 keeps the children's output directories.
func TestC18Pkg(t *testing.T) {
	test := os.Getenv("C18_PKG")
	if test == "" {
		t.Skip("C18_PKG not set")
	}
	r := NewRun(t, "C18")
	defer r.Close()
	var replay []string
	if lines := ReplayLines(); len(lines) > 0 {
		replay = c18WithMarkers(lines)
		if strings.HasPrefix(lines[0], "pkg ") {
			replay = replay[1:]
		}
	}
	p := c18Package(r, test, replay, r.Seed)
	c18Apply(r, p)
	for _, v := range p.viol {
		fmt.Printf("VIOL %s -- %s (%d replay lines)\n", v.Signature, v.Detail, len(v.Replay))
	}
	var ks []string
	for k := range p.hits {
		ks = append(ks, k)
	}
	sort.Strings(ks)
	for _, k := range ks {
		fmt.Printf("HIT %s %d\n", k, p.hits[k])
	}
	fmt.Printf("INFO %v\n", p.info)
}

// c18Cleanup removes a child's output directory unless C18_KEEP is set (development aid)
func c18Cleanup(dir string) {
	if os.Getenv("C18_KEEP") == "" {
		os.RemoveAll(dir)
	}
}
