package harness

// C18, continue-after-import for every package harness (child-process side).
//
// The trace-end comparison of c18_generic.go never executes a message AFTER an import.  Here a replay
// file carries `c18-fork` marker lines (written by the parent, see c18_continue_test.go).
// ReplayLines strips the markers and remembers after how many lines each one stands; when Run.Emit has
// written that many ops the application of the running fixture is exported, imported into a fresh
// application through the production InitChainer (with the full comparison of c18Compare at that
// point) and the fixture is re-pointed at the imported application (Fix.SwapTo): the package harness
// — its parser, its shadow bookkeeping, its monitors — executes the REST of the history on chain B
// without knowing.  Chain A is the same file replayed without markers (another process); the parent
// compares observation lines (they carry the result class of each op), final query dumps, invariants,
// supplies and the package's own monitors.
//
// Modes (VERIF_C18): "1" trace-end comparison (as before); "fork" markers; "final" neither (reference
// replay).  All three write the event file c18final.jsonl: `epoch` (a new chain starts with this op),
// `fork` (import attempted after this op) and `end` (a trace ended: invariants, supply, dumps).

import (
	"encoding/json"
	"os"
	"path/filepath"
	"sort"

	sdk "github.com/cosmos/cosmos-sdk/types"

	sponsorshiptypes "github.com/dymensionxyz/dymension/v3/x/sponsorship/types"
)

const c18ForkMarker = "c18-fork"

var c18Mode = os.Getenv("VERIF_C18")

// c18ForkAt: number of lines of the replay file preceding a marker (= Run.nOps after the op the marker
// follows, for every harness that emits one op per replayed line)
var c18ForkAt = map[int]bool{}

// c18WithMarkers puts the markers ReplayLines took out back into the lines it returned (the parent of a
// replay hands the file on to its children: without them a continue-after-import replay would silently
// degrade to a trace-end comparison).
func c18WithMarkers(lines []string) []string {
	var out []string
	for i, l := range lines {
		out = append(out, l)
		if c18ForkAt[i+1] {
			out = append(out, c18ForkMarker)
		}
	}
	return out
}

// c18Event is one line of c18final.jsonl.
type c18Event struct {
	Kind string `json:"kind"` // epoch | fork | end
	At   int    `json:"at"`   // global op number (1-based): epoch = first op of the new chain; fork = op after which; end = last op of the trace
	// fork
	OK     bool     `json:"ok,omitempty"`     // the chain was replaced by its imported copy
	Taint  []string `json:"taint,omitempty"`  // what the comparison at the fork point reported (after carry-over)
	Repair []string `json:"repair,omitempty"` // listed losses carried over by hand before continuing
	// end
	Start  int               `json:"start,omitempty"` // first op of the trace
	Inv    string            `json:"inv,omitempty"`   // first broken registered invariant ("" none)
	Supply map[string]string `json:"supply,omitempty"`
	Dump   map[string]string `json:"dump,omitempty"`
}

var c18fs struct {
	lastFork int // op number after which the chain was last replaced
	epoch    int
	lines    []string // op lines of the running epoch, fork markers included (the replay of whatever is found in it)
	out      *os.File
}

func c18WriteEvent(r *Run, e c18Event) {
	if c18fs.out == nil {
		fo, err := os.Create(filepath.Join(r.OutDir, "c18final.jsonl"))
		if err != nil {
			r.T.Fatal(err)
		}
		c18fs.out = fo
	}
	b, _ := json.Marshal(e)
	c18fs.out.Write(append(b, '\n'))
}

func c18AfterEmit(r *Run) {
	if fixEpoch != c18fs.epoch {
		c18fs.epoch = fixEpoch
		c18fs.lines = nil
		c18WriteEvent(r, c18Event{Kind: "epoch", At: r.nOps})
	}
	if n := len(r.curTrace); n > 0 {
		c18fs.lines = append(c18fs.lines, r.curTrace[n-1])
	}
	if c18ForkAt[r.nOps] {
		c18fs.lines = append(c18fs.lines, c18ForkMarker)
		c18Fork(r)
	}
}

func c18Fork(r *Run) {
	f := lastFix
	ev := c18Event{Kind: "fork", At: r.nOps}
	defer func() { c18WriteEvent(r, ev) }()
	if f == nil || f.App == nil {
		r.Hit("c18/fork/no-fixture")
		return
	}
	res := c18Compare(r, f, append([]string(nil), c18fs.lines...))
	if res.F2 == nil {
		// not importable here (reported by c18Compare unless the state already broke an invariant): the
		// history goes on on the original chain
		r.Hit("c18/fork/not-imported")
		ev.Taint = res.Sigs
		return
	}
	ev.Repair = c18CarryOver(r, f, res.F2, &res)
	// the blocks of the continuing chain have the proposer the package harness put into its header
	// (InitChain itself has none)
	if pa := f.Ctx.BlockHeader().ProposerAddress; len(pa) > 0 {
		hd := res.F2.Ctx.BlockHeader()
		hd.ProposerAddress = pa
		res.F2.Ctx = res.F2.Ctx.WithBlockHeader(hd)
	}
	f.SwapTo(res.F2)
	for _, co := range f.Co {
		// a chain the package runs next to this one goes through the same export / import (what it reports
		// is what the primary reported: same signatures, deduplicated by Violate)
		if co == nil || co.App == nil {
			continue
		}
		rc := c18Compare(r, co, append([]string(nil), c18fs.lines...))
		if rc.F2 == nil {
			r.Hit("c18/fork/co-fixture-not-imported")
			continue
		}
		c18CarryOver(r, co, rc.F2, &rc)
		if pa := co.Ctx.BlockHeader().ProposerAddress; len(pa) > 0 {
			hd := rc.F2.Ctx.BlockHeader()
			hd.ProposerAddress = pa
			rc.F2.Ctx = rc.F2.Ctx.WithBlockHeader(hd)
		}
		co.SwapTo(rc.F2)
		r.Hit("c18/fork/co-fixture-imported")
	}
	sort.Strings(res.Sigs)
	ev.OK, ev.Taint = true, res.Sigs
	c18fs.lastFork = r.nOps
	r.Hit("c18/fork/continued-on-imported-chain")
}

// c18TraceEnd runs at Run.Trace under VERIF_C18.
func c18TraceEnd(r *Run, f *Fix, trace []string) {
	if c18Mode == "1" {
		c18Generic(r, f, append([]string(nil), c18fs.lines...))
	}
	ev := c18Event{Kind: "end", At: r.nOps, Start: r.nOps - len(trace) + 1, Supply: map[string]string{}}
	if f.App != nil {
		ev.Inv = trunc200(f.Invariants())
		ev.Dump = c18Dump(f)
		f.App.BankKeeper.IterateTotalSupply(f.Ctx, func(c sdk.Coin) bool {
			ev.Supply[c.Denom] = c.Amount.String()
			return false
		})
	}
	c18WriteEvent(r, ev)
}

// c18CarryOver: losses of the export that are LISTED findings and that can be carried over by hand
// without touching anything else are written into the imported chain before the history continues, so
// that the continuation compares everything else strictly.  The finding itself was reported by the
// comparison at the fork point; its signature is taken out of the taint set only when the query dump
// of that piece is equal afterwards.
func c18CarryOver(r *Run, a, b *Fix, res *c18Result) (done []string) {
	has := func(sig string) bool {
		for _, s := range res.Sigs {
			if s == sig {
				return true
			}
		}
		return false
	}
	drop := func(sig string) {
		var out []string
		for _, s := range res.Sigs {
			if s != sig {
				out = append(out, s)
			}
		}
		res.Sigs = out
	}
	type rep struct{ sig, key, name string }
	var tried []rep
	if sig := "C18/queries/params.lockup-differs"; has(sig) {
		// lockup params are reset to the defaults by InitGenesis (listed): copy them
		b.App.LockupKeeper.SetParams(b.Ctx, a.App.LockupKeeper.GetParams(a.Ctx))
		tried = append(tried, rep{sig, "params.lockup", "lockup-params"})
	}
	if sig := "C18/queries/sponsorship.endorsements-missing-after-import"; has(sig) {
		// endorsement records are not part of the sponsorship genesis (listed): copy them
		if es, err := a.App.SponsorshipKeeper.GetAllEndorsements(a.Ctx); err == nil {
			for _, e := range es {
				_ = b.App.SponsorshipKeeper.SaveEndorsement(b.Ctx, e)
			}
			tried = append(tried, rep{sig, "sponsorship.endorsements", "sponsorship-endorsements"})
		}
	}
	if sig := "C18/queries/sponsorship.canClaim-differs"; has(sig) {
		// nor is the claim blacklist (listed): blacklist on B every voter who cannot claim on A
		_ = a.App.SponsorshipKeeper.IterateVotes(a.Ctx, func(voter sdk.AccAddress, _ sponsorshiptypes.Vote) (bool, error) {
			if can, err := a.App.SponsorshipKeeper.CanClaim(a.Ctx, voter); err == nil && !can {
				_ = b.App.SponsorshipKeeper.BlacklistClaim(b.Ctx, voter)
			}
			return false, nil
		})
		tried = append(tried, rep{sig, "sponsorship.canClaim", "sponsorship-claim-blacklist"})
	}
	if sig := "C18/queries/dymns.buyOrderCount-differs"; has(sig) {
		// the all-time buy-order counter is not part of the dymns genesis (listed): copy it, so that the
		// ids of the orders placed after the import are compared as well
		b.App.DymNSKeeper.SetCountBuyOrders(b.Ctx, a.App.DymNSKeeper.GetCountBuyOrders(a.Ctx))
		tried = append(tried, rep{sig, "dymns.buyOrderCount", "dymns-buy-order-count"})
	}
	if sig := "C18/queries/sponsorship.distributionZeroPowerEntries-differs"; has(sig) && !has("C18/queries/sponsorship.distribution-differs") {
		// the stored entry list of the distribution differs in zero-power entries only (listed): copy it
		if d, err := a.App.SponsorshipKeeper.GetDistribution(a.Ctx); err == nil {
			_ = b.App.SponsorshipKeeper.SaveDistribution(b.Ctx, d)
			tried = append(tried, rep{sig, "sponsorship.distributionZeroPowerEntries", "sponsorship-zero-power-entries"})
		}
	}
	if len(tried) > 0 {
		da, db := c18Dump(a), c18Dump(b)
		for _, t := range tried {
			if da[t.key] == db[t.key] {
				drop(t.sig)
				done = append(done, t.name)
				r.Hit("c18/fork/carried-over/" + t.name)
			}
		}
	}
	return done
}

// c18ForkReplay: the replay of a package monitor that fires on the forked run is the running epoch WITH its
// markers (the package's own replay lines do not know about the import); the op being executed is
// appended when the monitor fires before it is emitted.
func c18ForkReplay(r *Run, sig string, replay []string) []string {
	if c18Mode != "fork" || len(sig) > 4 && sig[:4] == "C18/" {
		return replay
	}
	forked, last := false, ""
	for _, l := range c18fs.lines {
		if l == c18ForkMarker {
			forked = true
		} else {
			last = l
		}
	}
	if !forked {
		return replay
	}
	out := append([]string(nil), c18fs.lines...)
	if n := len(replay); n > 0 && replay[n-1] != last {
		out = append(out, replay[n-1])
	}
	return out
}

// c18Straddles: a package monitor that fires while the op at the fork point or the one after it is
// being processed compares a snapshot the harness cached on chain A with chain B (raw store digests,
// gas, addresses of the two applications differ by construction); such a report says nothing about
// the property and is dropped (counted).
func c18Straddles(r *Run, sig string) bool {
	if c18Mode != "fork" || c18fs.lastFork == 0 || len(sig) > 4 && sig[:4] == "C18/" {
		return false
	}
	if r.nOps <= c18fs.lastFork+1 {
		r.Hit("c18/fork/package-monitor-straddling-the-import-dropped")
		return true
	}
	return false
}
