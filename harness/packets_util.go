package harness

// M-Packets harness (delayedack + eibc + bridgingfee): fixture, op executor, canonical observation.
// Used by TestPackets (properties C04 C05).  See packets_ibc.go for the IBC stand-in.

import (
	"bytes"
	"crypto/sha256"
	"encoding/hex"
	"errors"
	"fmt"
	"math/rand"
	"os"

	banktypes "github.com/cosmos/cosmos-sdk/x/bank/types"
	"regexp"
	"sort"
	"strconv"
	"strings"
	"testing"
	"time"

	errorsmod "cosmossdk.io/errors"
	"cosmossdk.io/math"
	abci "github.com/cometbft/cometbft/abci/types"
	sdk "github.com/cosmos/cosmos-sdk/types"
	sdkerrors "github.com/cosmos/cosmos-sdk/types/errors"
	authtypes "github.com/cosmos/cosmos-sdk/x/auth/types"
	"github.com/cosmos/cosmos-sdk/x/authz"
	"github.com/cosmos/ibc-apps/middleware/packet-forward-middleware/v8/packetforward"
	transfertypes "github.com/cosmos/ibc-go/v8/modules/apps/transfer/types"
	clienttypes "github.com/cosmos/ibc-go/v8/modules/core/02-client/types"
	channeltypes "github.com/cosmos/ibc-go/v8/modules/core/04-channel/types"
	"github.com/dymensionxyz/gerr-cosmos/gerrc"

	"github.com/dymensionxyz/dymension/v3/app/apptesting"
	denomutils "github.com/dymensionxyz/dymension/v3/utils/denom"
	commontypes "github.com/dymensionxyz/dymension/v3/x/common/types"
	dacktypes "github.com/dymensionxyz/dymension/v3/x/delayedack/types"
	eibctypes "github.com/dymensionxyz/dymension/v3/x/eibc/types"
	rollapptypes "github.com/dymensionxyz/dymension/v3/x/rollapp/types"
)

type pkParams struct {
	NActors    int
	Fund       int64
	BF, TF, EF int64 // fees as raw 10^-18 units
}

func (p pkParams) line() string {
	return fmt.Sprintf("reset actors=%d fund=%d bf=%d tf=%d ef=%d", p.NActors, p.Fund, p.BF, p.TF, p.EF)
}

func parsePkParams(line string) pkParams {
	m := parseKV(strings.Fields(line))
	return pkParams{NActors: int(atoi(m["actors"])), Fund: atoi(m["fund"]), BF: atoi(m["bf"]), TF: atoi(m["tf"]), EF: atoi(m["ef"])}
}

func rawDec(raw int64) math.LegacyDec {
	return math.LegacyNewDecFromBigIntWithPrec(math.NewInt(raw).BigInt(), 18)
}
func rawDecS(s string) math.LegacyDec {
	i, ok := math.NewIntFromString(s)
	if !ok {
		i = math.ZeroInt()
	}
	return math.LegacyNewDecFromBigIntWithPrec(i.BigInt(), 18)
}

var pkRollappIDs = []string{"raa_1001-1", "rbb_1002-1"}

const pkUnknownRollapp = "rxx_9009-1"

// sender named in the data of every packet the counterparties send to the hub
const pkCpSender = "rollapp-side-sender"

type pkH struct {
	t        *testing.T
	f        *Fix
	p        pkParams
	actors   []sdk.AccAddress // sorted by bech32 string; index NActors is an address without an account
	actorIdx map[string]int
	blocked  sdk.AccAddress
	pfm      []sdk.AccAddress // packet-forward-middleware's intermediate receiver per inbound hub channel (model address 2000+c)
	relayer  sdk.AccAddress
	chans    []pkChan
	denoms   []string // index -> hub denom string
	denomIdx map[string]int
	sentPkts map[[2]uint64]channeltypes.Packet
	fwdOf    map[[2]uint64][2]uint64 // forwarded packet (hub channel, sequence) -> the inbound packet (hub channel, sequence) it forwards
	recvSeen [][2]uint64
	sentSeen [][2]uint64
	nStates  []uint64 // number of state infos per rollapp
	nFin     []uint64
	lastH    []uint64 // latest height per rollapp
	heights  [][]uint64
	lastErr  error
}

func newPkH(t *testing.T, p pkParams) *pkH {
	h := &pkH{t: t, f: NewFix(t), p: p, actorIdx: map[string]int{}, denomIdx: map[string]int{}, sentPkts: map[[2]uint64]channeltypes.Packet{}, fwdOf: map[[2]uint64][2]uint64{}}
	f, app := h.f, h.f.App
	var as []sdk.AccAddress
	for i := 0; i <= p.NActors; i++ {
		as = append(as, Actor(200+i))
	}
	sort.Slice(as, func(i, j int) bool { return as[i].String() < as[j].String() })
	h.actors = as
	for i, a := range as {
		h.actorIdx[a.String()] = i
	}
	h.blocked = authtypes.NewModuleAddress("distribution")
	if !app.BankKeeper.BlockedAddr(h.blocked) {
		t.Fatal("expected the distribution module account to be blocked")
	}
	h.actorIdx[h.blocked.String()] = 900
	h.relayer = Actor(98)
	// params
	dp := app.DelayedAckKeeper.GetParams(f.Ctx)
	dp.BridgingFee = rawDec(p.BF)
	// the fixture's clock makes the epochs module end an epoch in every block; the clean-up hook is
	// driven by the `epoch` op instead, under an identifier no real epoch has
	dp.EpochIdentifier = "verif-manual"
	app.DelayedAckKeeper.SetParams(f.Ctx, dp)
	ep := app.EIBCKeeper.GetParams(f.Ctx)
	ep.TimeoutFee = rawDec(p.TF)
	ep.ErrackFee = rawDec(p.EF)
	app.EIBCKeeper.SetParams(f.Ctx, ep)
	rp := app.RollappKeeper.GetParams(f.Ctx)
	rp.MinSequencerBondGlobal = sdk.NewCoin("adym", math.NewInt(1))
	app.RollappKeeper.SetParams(f.Ctx, rp)
	// chain configuration the test genesis lacks: bank metadata of the native denom (every real hub genesis has it).
	// With it the denommetadata middleware attaches the metadata memo to the first transfers of adym to a rollapp
	// (SendPacket re-marshals the packet data), which the commitment restored by a fork has to reproduce.
	if _, ok := app.BankKeeper.GetDenomMetaData(f.Ctx, "adym"); !ok && os.Getenv("PK_NO_ADYM_METADATA") == "" {
		app.BankKeeper.SetDenomMetaData(f.Ctx, banktypes.Metadata{Base: "adym", Display: "dym", Name: "dym", Symbol: "DYM",
			DenomUnits: []*banktypes.DenomUnit{{Denom: "adym", Exponent: 0}, {Denom: "dym", Exponent: 18}}})
	}
	// rollapps
	owner := Actor(99)
	var clients []string
	for ri, id := range pkRollappIDs {
		msg := rollapptypes.MsgCreateRollapp{
			Creator: owner.String(), RollappId: id, InitialSequencer: "*",
			MinSequencerBond: sdk.NewCoin("adym", math.NewInt(1)),
			Alias:            fmt.Sprintf("alias%c", 'a'+ri), VmType: rollapptypes.Rollapp_WASM,
			GenesisInfo: &rollapptypes.GenesisInfo{Bech32Prefix: fmt.Sprintf("pf%c", 'a'+ri), GenesisChecksum: "1234567890abcdefg",
				InitialSupply: math.NewInt(1000), NativeDenom: rollapptypes.DenomMetadata{Display: "DEN", Base: "aden", Exponent: 18}},
			Metadata: &rollapptypes.RollappMetadata{Website: "https://dymension.xyz", Description: "d", LogoUrl: "https://dymension.xyz/logo.png",
				Telegram: "https://t.me/rolly", X: "https://x.dymension.xyz"},
		}
		apptesting.FundForAliasRegistration(app, f.Ctx, msg.Alias, msg.Creator)
		if _, err := f.Deliver(&msg); err != nil {
			t.Fatal(err)
		}
		clients = append(clients, f.mkClient(id))
	}
	clients = append(clients, f.mkClient("plain-1"))
	h.chans = []pkChan{
		{Hub: "channel-0", Cp: "channel-0", ClientID: clients[0], Rollapp: 0, Canon: true},
		{Hub: "channel-1", Cp: "channel-0", ClientID: clients[1], Rollapp: 1, Canon: true},
		{Hub: "channel-2", Cp: "channel-5", ClientID: clients[2], Rollapp: -1},
		{Hub: "channel-3", Cp: "channel-0", ClientID: clients[0], Rollapp: 0},
	}
	for i, c := range h.chans {
		f.mkChannel(i, c.ClientID, c.Hub, c.Cp)
		is, err := packetforward.GetReceiver(c.Hub, pkCpSender)
		if err != nil {
			t.Fatal(err)
		}
		ia := sdk.MustAccAddressFromBech32(is)
		h.pfm = append(h.pfm, ia)
		h.actorIdx[is] = 2000 + i
	}
	for ri, id := range pkRollappIDs {
		app.LightClientKeeper.SetCanonicalClient(f.Ctx, id, clients[ri])
		ra := app.RollappKeeper.MustGetRollapp(f.Ctx, id)
		ra.ChannelId = h.chans[ri].Hub
		ra.GenesisState.TransferProofHeight = 1
		app.RollappKeeper.SetRollapp(f.Ctx, ra)
	}
	h.denoms = []string{"adym"}
	for _, c := range h.chans {
		h.denoms = append(h.denoms, transfertypes.ParseDenomTrace(fmt.Sprintf("%s/%s/arax", pkPort, c.Hub)).IBCDenom())
	}
	for i, d := range h.denoms {
		h.denomIdx[d] = i
	}
	// every funded actor starts with the same amount of every denom (vouchers included, with their traces)
	for _, c := range h.chans {
		app.TransferKeeper.SetDenomTrace(f.Ctx, transfertypes.ParseDenomTrace(fmt.Sprintf("%s/%s/arax", pkPort, c.Hub)))
	}
	for i, a := range h.actors {
		if i < p.NActors {
			for _, d := range h.denoms {
				f.Fund(a, sdk.NewCoin(d, math.NewInt(p.Fund)))
			}
		}
	}
	h.nStates, h.nFin, h.lastH, h.heights = make([]uint64, 2), make([]uint64, 2), make([]uint64, 2), make([][]uint64, 2)
	return h
}

// ---- token helpers ---------------------------------------------------------------------------

func (h *pkH) addr(tok string) (sdk.AccAddress, string) {
	if tok == "blk" {
		return h.blocked, h.blocked.String()
	}
	if strings.HasPrefix(tok, "A") {
		// the same account, its bech32 address spelled in UPPER CASE (valid bech32; a different string)
		a, str := h.addr("a" + tok[1:])
		if a == nil {
			return a, str
		}
		return a, strings.ToUpper(str)
	}
	if strings.HasPrefix(tok, "a") {
		i, err := strconv.Atoi(tok[1:])
		if err == nil {
			if i >= 0 && i < len(h.actors) {
				return h.actors[i], h.actors[i].String()
			}
			if i >= 2000 && i < 2000+len(h.pfm) {
				return h.pfm[i-2000], h.pfm[i-2000].String()
			}
			a := Actor(5000 + i)
			h.actorIdx[a.String()] = i
			return a, a.String()
		}
	}
	return nil, "not-an-address"
}

func (h *pkH) aname(addr string) string {
	if addr == strings.ToUpper(addr) {
		addr = strings.ToLower(addr)
	}
	if i, ok := h.actorIdx[addr]; ok {
		return "a" + strconv.Itoa(i)
	}
	return "a?"
}

func (h *pkH) rid(tok string) string {
	switch tok {
	case "r0":
		return pkRollappIDs[0]
	case "r1":
		return pkRollappIDs[1]
	case "-":
		return ""
	}
	return pkUnknownRollapp
}

func (h *pkH) rname(id string) string {
	for i, r := range pkRollappIDs {
		if r == id {
			return "r" + strconv.Itoa(i)
		}
	}
	return "rx"
}

func idxTok(tok string) int { i, _ := strconv.Atoi(tok[1:]); return i }

func (h *pkH) dname(denom string) string {
	if i, ok := h.denomIdx[denom]; ok {
		return "d" + strconv.Itoa(i)
	}
	return "d?"
}

func (h *pkH) denomTok(tok string) string {
	i := idxTok(tok)
	if i >= 0 && i < len(h.denoms) {
		return h.denoms[i]
	}
	return "unknowndenom"
}

// full trace path of a hub denom as written in packet data
func (h *pkH) tracePath(d int) string {
	if d == 0 {
		return "adym"
	}
	if d-1 < len(h.chans) {
		return fmt.Sprintf("%s/%s/arax", pkPort, h.chans[d-1].Hub)
	}
	return "unknowndenom"
}

func ptypeTok(tok string) commontypes.RollappPacket_Type {
	switch tok {
	case "R":
		return commontypes.RollappPacket_ON_RECV
	case "A":
		return commontypes.RollappPacket_ON_ACK
	case "T":
		return commontypes.RollappPacket_ON_TIMEOUT
	}
	return commontypes.RollappPacket_UNDEFINED
}

func ptypeCh(t commontypes.RollappPacket_Type) string {
	switch t {
	case commontypes.RollappPacket_ON_RECV:
		return "R"
	case commontypes.RollappPacket_ON_ACK:
		return "A"
	case commontypes.RollappPacket_ON_TIMEOUT:
		return "T"
	}
	return "U"
}

// pending packet key of a name r<ra>.<ph>.<T>.c<chan>.<seq>
func (h *pkH) keyOfName(name string) []byte {
	p := strings.Split(name, ".")
	if len(p) != 5 {
		return nil
	}
	ci := idxTok(p[3])
	ty := ptypeTok(p[2])
	src := "channel-99"
	if ci >= 0 && ci < len(h.chans) {
		if ty == commontypes.RollappPacket_ON_RECV {
			src = h.chans[ci].Cp
		} else {
			src = h.chans[ci].Hub
		}
	}
	return commontypes.RollappPacketKey(commontypes.Status_PENDING, h.rid(p[0]), atou(p[1]), ty, src, atou(p[4]))
}

func (h *pkH) orderID(name string) string {
	return eibctypes.BuildDemandIDFromPacketKey(string(h.keyOfName(name)))
}

func (h *pkH) hubChanIdx(p *commontypes.RollappPacket) int {
	id := p.Packet.SourceChannel
	if p.Type == commontypes.RollappPacket_ON_RECV {
		id = p.Packet.DestinationChannel
	}
	for i, c := range h.chans {
		if c.Hub == id {
			return i
		}
	}
	return 99
}

func (h *pkH) pktName(p *commontypes.RollappPacket) string {
	return fmt.Sprintf("%s.%d.%s.c%d.%d", h.rname(p.RollappId), p.ProofHeight, ptypeCh(p.Type), h.hubChanIdx(p), p.Packet.Sequence)
}

// "d1*989+d0*5" | "-"
func (h *pkH) coinsTok(tok string) sdk.Coins {
	if tok == "-" || tok == "" {
		return sdk.Coins{}
	}
	var cs []sdk.Coin
	for _, c := range strings.Split(tok, "+") {
		p := strings.Split(c, "*")
		amt, _ := math.NewIntFromString(p[1])
		cs = append(cs, sdk.Coin{Denom: h.denomTok(p[0]), Amount: amt})
	}
	out := sdk.Coins(cs)
	sort.Sort(out)
	return out
}

func (h *pkH) renderCoins(cs sdk.Coins) string {
	type dv struct {
		d int
		v string
	}
	var xs []dv
	for _, c := range cs {
		xs = append(xs, dv{h.denomIdx[c.Denom], c.Amount.String()})
	}
	sort.Slice(xs, func(i, j int) bool { return xs[i].d < xs[j].d })
	var out []string
	for _, x := range xs {
		out = append(out, fmt.Sprintf("d%d*%s", x.d, x.v))
	}
	if len(out) == 0 {
		return "-"
	}
	return strings.Join(out, "+")
}

// ---- error classes ---------------------------------------------------------------------------

func hasText(err error, e error) bool { return strings.Contains(err.Error(), errText2(e)) }

// registered errors print as "<message>"; wrapped text keeps that message
func errText2(e error) string { return e.Error() }

func pkClass(err error) string {
	if err == nil {
		return "ok"
	}
	if IsPanic(err) {
		return "panic"
	}
	if os.Getenv("PK_DEBUG") != "" {
		fmt.Fprintln(os.Stderr, "DEBUG err:", err)
	}
	s := err.Error()
	switch {
	case hasText(err, eibctypes.ErrRollappIdMismatch):
		return "rollappMismatch"
	case hasText(err, eibctypes.ErrPriceMismatch):
		return "priceMismatch"
	case hasText(err, eibctypes.ErrOrderNotSettlementValidated):
		return "notValidated"
	case hasText(err, eibctypes.ErrRollappStateInfoNotFound):
		return "noState"
	case hasText(err, eibctypes.ErrExpectedFeeNotMet):
		return "feeMismatch"
	case hasText(err, eibctypes.ErrDemandOrderDoesNotExist), hasText(err, dacktypes.ErrRollappPacketDoesNotExist):
		return "notFound"
	case hasText(err, dacktypes.ErrCanOnlyUpdatePendingPacket):
		return "notPending"
	case hasText(err, eibctypes.ErrDemandOrderInactive):
		return "inactive"
	case hasText(err, eibctypes.ErrDemandAlreadyFulfilled):
		return "fulfilled"
	case hasText(err, eibctypes.ErrFulfillerAddressDoesNotExist), hasText(err, eibctypes.ErrLPAccountDoesNotExist), hasText(err, eibctypes.ErrOperatorFeeAccountDoesNotExist):
		return "noAccount"
	case hasText(err, eibctypes.ErrFeeTooHigh):
		return "feeTooHigh"
	case errors.Is(err, authz.ErrNoAuthorizationFound):
		return "noGrant"
	case errors.Is(err, sdkerrors.ErrInsufficientFunds) || strings.Contains(s, "insufficient funds"):
		return "insufficient"
	case strings.Contains(s, "not on canonical channel"):
		return "badChannel"
	case strings.Contains(s, "not finalized yet"):
		return "notFinal"
	case strings.Contains(s, "no compatible lp"):
		return "noLp"
	case errors.Is(err, gerrc.ErrPermissionDenied):
		return "notOwner"
	case errors.Is(err, gerrc.ErrNotFound):
		return "noFinalState"
	case errors.Is(err, sdkerrors.ErrUnauthorized) || strings.Contains(s, "unauthorized"):
		return "unauthorized"
	}
	return "invalid"
}

// ---- executor --------------------------------------------------------------------------------

func (h *pkH) memoTok(tok string) string {
	switch {
	case tok == "-":
		return ""
	case tok == "nj":
		return "not json"
	case tok == "ne":
		return `{"note":"hello"}`
	case tok == "eb":
		return `{"eibc":{"fee":"abc"}}`
	case strings.HasPrefix(tok, "e:"):
		return fmt.Sprintf(`{"eibc":{"fee":"%s"}}`, tok[2:])
	case strings.HasPrefix(tok, "fw:"):
		// packet-forward-middleware: forward the received funds over hub channel c<k>
		ch := "channel-99"
		if k := idxTok(tok[3:]); k >= 0 && k < len(h.chans) {
			ch = h.chans[k].Hub
		}
		return fmt.Sprintf(`{"forward":{"receiver":"rollapp-side-receiver","port":"%s","channel":"%s"}}`, pkPort, ch)
	}
	return ""
}

func (h *pkH) exec(line string) string {
	f := strings.Fields(line)
	m := parseKV(f)
	app, fx := h.f.App, h.f
	h.lastErr = nil
	switch f[0] {
	case "recv":
		ci := idxTok(f[1])
		c := h.chans[ci]
		var denom string
		if m["den"] == "f" {
			denom = "arax"
		} else {
			denom = fmt.Sprintf("%s/%s/%s", pkPort, c.Cp, h.tracePath(idxTok(m["den"])))
		}
		_, to := h.addr(m["to"])
		data := transfertypes.NewFungibleTokenPacketData(denom, m["amt"], pkCpSender, to, h.memoTok(m["memo"]))
		seq := atou(m["seq"])
		pkt := channeltypes.NewPacket(data.GetBytes(), seq, pkPort, c.Cp, pkPort, c.Hub, clienttypes.NewHeight(1, 1000000), 0)
		h.noteRecv(uint64(ci), seq)
		res := fx.ibcRecv(pkt, atou(m["ph"]), h.relayer)
		h.lastErr = pkLastRecvErr
		if strings.HasPrefix(m["memo"], "fw:") && res == "async" {
			// the forwarded packet left the hub from inside the callback
			if fp, ok := packetFromEvents(pkLastRecvEvents); ok {
				for k, c2 := range h.chans {
					if c2.Hub == fp.SourceChannel {
						h.sentPkts[[2]uint64{uint64(k), fp.Sequence}] = fp
						h.sentSeen = append(h.sentSeen, [2]uint64{uint64(k), fp.Sequence})
						h.fwdOf[[2]uint64{uint64(k), fp.Sequence}] = [2]uint64{uint64(ci), seq}
					}
				}
			} else {
				h.t.Fatalf("recv with forward memo returned a nil acknowledgement but no packet was sent")
			}
		}
		return res
	case "send", "sendblk":
		a, _ := h.addr(f[1])
		ci := idxTok(f[2])
		c := h.chans[ci]
		amt, _ := math.NewIntFromString(m["amt"])
		rcv := "rollapp-side-receiver"
		if f[0] == "sendblk" {
			rcv = h.blocked.String() // the counterparty-side receiver happens to be the bech32 of a blocked hub account
		}
		msg := transfertypes.NewMsgTransfer(pkPort, c.Hub, sdk.Coin{Denom: h.denomTok(m["den"]), Amount: amt}, a.String(), rcv, clienttypes.NewHeight(1, 1000000), 0, "")
		res, err := fx.Deliver(msg)
		if err != nil {
			return "err"
		}
		pkt, ok := packetFromEvents(res.GetEvents().ToABCIEvents())
		if !ok {
			h.t.Fatalf("send: no send_packet event")
		}
		h.sentPkts[[2]uint64{uint64(ci), pkt.Sequence}] = pkt
		h.sentSeen = append(h.sentSeen, [2]uint64{uint64(ci), pkt.Sequence})
		return "ok"
	case "chanclose", "chanopen":
		ci := idxTok(f[1])
		if ci < 0 || ci >= len(h.chans) {
			return "invalid"
		}
		st := channeltypes.CLOSED
		if f[0] == "chanopen" {
			st = channeltypes.OPEN
		}
		fx.setChanState(pkPort, h.chans[ci].Hub, st)
		return "ok"
	case "ack", "timeout":
		ci := idxTok(f[1])
		seq := atou(m["seq"])
		if f[0] == "ack" && !fx.chanAccepts(pkPort, h.chans[ci].Hub) {
			return "chanClosed"
		}
		pkt, ok := h.sentPkts[[2]uint64{uint64(ci), seq}]
		if !ok {
			return "replay" // never sent: no commitment
		}
		var r string
		if f[0] == "ack" {
			ack := channeltypes.NewResultAcknowledgement([]byte{1})
			if m["res"] == "err" {
				ack = channeltypes.NewErrorAcknowledgement(fmt.Errorf("rejected by the rollapp"))
			}
			r = fx.ibcAckCls(pkt, ack.Acknowledgement(), atou(m["ph"]), h.relayer)
		} else {
			r = fx.ibcTimeoutCls(pkt, atou(m["ph"]), h.relayer)
		}
		h.lastErr = pkLastRecvErr
		return r
	case "timeoutclose":
		// MsgTimeoutOnClose for a packet the hub sent (the counterparty's channel end is closed)
		ci := idxTok(f[1])
		pkt, ok := h.sentPkts[[2]uint64{uint64(ci), atou(m["seq"])}]
		if !ok {
			return "replay"
		}
		return fx.ibcTimeoutOnCloseCls(pkt, h.relayer)
	case "fin":
		_, a := h.addr(f[1])
		src := m["src"]
		if src == "-" {
			src = ""
		}
		_, err := fx.Deliver(&dacktypes.MsgFinalizePacket{Sender: a, RollappId: h.rid(f[2]), PacketProofHeight: atou(m["ph"]),
			PacketType: ptypeTok(m["t"]), PacketSrcChannel: src, PacketSequence: atou(m["seq"])})
		h.lastErr = err
		return pkClass(err)
	case "finkey":
		_, a := h.addr(f[1])
		k := m["k"]
		if k == "-" {
			k = ""
		}
		_, err := fx.Deliver(&dacktypes.MsgFinalizePacketByPacketKey{Sender: a, PacketKey: k})
		h.lastErr = err
		return pkClass(err)
	case "fulfill":
		_, a := h.addr(f[1])
		_, err := fx.Deliver(&eibctypes.MsgFulfillOrder{FulfillerAddress: a, OrderId: h.orderID(m["o"]), ExpectedFee: m["fee"]})
		h.lastErr = err
		return pkClass(err)
	case "updfee":
		_, a := h.addr(f[1])
		_, err := fx.Deliver(&eibctypes.MsgUpdateDemandOrder{OwnerAddress: a, OrderId: h.orderID(m["o"]), NewFee: m["fee"]})
		h.lastErr = err
		return pkClass(err)
	case "fauth":
		grantee, _ := h.addr(m["g"])
		_, lp := h.addr(m["lp"])
		_, op := h.addr(m["op"])
		amt, _ := math.NewIntFromString(m["amt"])
		inner := &eibctypes.MsgFulfillOrderAuthorized{OrderId: h.orderID(m["o"]), RollappId: h.rid(m["ra"]), Price: h.coinsTok(m["price"]),
			Amount: amt, LpAddress: lp, OperatorFeeAddress: op, ExpectedFee: m["fee"], OperatorFeeShare: rawDecS(m["share"]), SettlementValidated: m["sv"] == "1"}
		var err error
		if lp == grantee.String() {
			_, err = fx.Deliver(inner)
		} else {
			ex := authz.NewMsgExec(grantee, []sdk.Msg{inner})
			_, err = fx.Deliver(&ex)
		}
		h.lastErr = err
		return pkClass(err)
	case "ondemand":
		_, a := h.addr(f[1])
		_, err := fx.Deliver(&eibctypes.MsgTryFulfillOnDemand{Signer: a, OrderId: h.orderID(m["o"]), Rng: atoi(m["rng"])})
		h.lastErr = err
		return pkClass(err)
	case "lpcreate":
		_, a := h.addr(f[1])
		mp, _ := math.NewIntFromString(m["maxp"])
		mf, _ := math.NewIntFromString(m["minfee"])
		sl, _ := math.NewIntFromString(m["limit"])
		den := h.denomTok(m["den"])
		ra := h.rid(m["ra"])
		if m["ok"] != "1" {
			ra = "not a chain id"
		}
		_, err := fx.Deliver(&eibctypes.MsgCreateOnDemandLP{Lp: &eibctypes.OnDemandLP{FundsAddr: a, Rollapp: ra, Denom: den, MaxPrice: mp, MinFee: mf, SpendLimit: sl, OrderMinAgeBlocks: atou(m["age"])}})
		h.lastErr = err
		if err != nil {
			return "invalid"
		}
		return "ok"
	case "lpdel":
		_, a := h.addr(f[1])
		var ids []uint64
		if m["ids"] != "-" {
			for _, x := range strings.Split(m["ids"], ",") {
				ids = append(ids, atou(x))
			}
		}
		_, err := fx.Deliver(&eibctypes.MsgDeleteOnDemandLP{Signer: a, Ids: ids})
		h.lastErr = err
		return pkClass(err)
	case "grant":
		lp, _ := h.addr(m["lp"])
		op, _ := h.addr(m["op"])
		var cs []*eibctypes.RollappCriteria
		if m["crit"] != "-" {
			for _, c := range strings.Split(m["crit"], ";") {
				p := strings.Split(c, "/")
				var ds []string
				if p[1] != "*" {
					for _, d := range strings.Split(p[1], "+") {
						ds = append(ds, h.denomTok(d))
					}
				}
				cs = append(cs, eibctypes.NewRollappCriteria(h.rid(p[0]), ds, rawDecS(p[2]), h.coinsTok(p[3]), h.coinsTok(p[4]), rawDecS(p[5]), p[6] == "1"))
			}
		}
		msg, err := authz.NewMsgGrant(lp, op, eibctypes.NewFulfillOrderAuthorization(cs), nil)
		if err == nil {
			_, err = fx.Deliver(msg)
		}
		h.lastErr = err
		if err != nil {
			return "invalid"
		}
		return "ok"
	case "state":
		ri := idxTok(f[1])
		n := atou(m["n"])
		if ri > 1 {
			return "notFound"
		}
		if n == 0 {
			return "invalid"
		}
		h.writeState(ri, h.nStates[ri]+1, h.lastH[ri]+1, n, false)
		h.nStates[ri]++
		h.lastH[ri] += n
		h.heights[ri] = append(h.heights[ri], h.lastH[ri])
		app.RollappKeeper.SetLatestStateInfoIndex(fx.Ctx, rollapptypes.StateInfoIndex{RollappId: pkRollappIDs[ri], Index: h.nStates[ri]})
		return "ok"
	case "finstate":
		ri := idxTok(f[1])
		if ri > 1 {
			return "notFound"
		}
		if h.nFin[ri] >= h.nStates[ri] {
			return "invalid"
		}
		h.nFin[ri]++
		id := pkRollappIDs[ri]
		si, _ := app.RollappKeeper.GetStateInfo(fx.Ctx, id, h.nFin[ri])
		si.Status = commontypes.Status_FINALIZED
		app.RollappKeeper.SetStateInfo(fx.Ctx, si)
		app.RollappKeeper.SetLatestFinalizedStateIndex(fx.Ctx, si.StateInfoIndex)
		return "ok"
	case "fork":
		ri := idxTok(f[1])
		if ri > 1 {
			return "notFound"
		}
		lv := atou(m["h"])
		fin := uint64(0)
		if h.nFin[ri] > 0 {
			fin = h.heights[ri][h.nFin[ri]-1]
		}
		if lv == 0 || fin > lv || h.nStates[ri] == 0 || h.lastH[ri] <= lv {
			return "invalid"
		}
		id := pkRollappIDs[ri]
		var kept []uint64
		for _, x := range h.heights[ri] {
			if x <= lv {
				kept = append(kept, x)
			}
		}
		start := uint64(1)
		if len(kept) > 0 {
			start = kept[len(kept)-1] + 1
		}
		for i := uint64(len(kept)) + 1; i <= h.nStates[ri]; i++ {
			app.RollappKeeper.RemoveStateInfo(fx.Ctx, id, i)
		}
		if len(kept) == 0 || kept[len(kept)-1] != lv {
			h.writeState(ri, uint64(len(kept))+1, start, lv-start+1, false)
			kept = append(kept, lv)
		}
		h.heights[ri], h.nStates[ri], h.lastH[ri] = kept, uint64(len(kept)), lv
		app.RollappKeeper.SetLatestStateInfoIndex(fx.Ctx, rollapptypes.StateInfoIndex{RollappId: id, Index: h.nStates[ri]})
		err := fx.Try(func(ctx sdk.Context) error { return app.DelayedAckKeeper.OnHardFork(ctx, id, lv) })
		if err != nil {
			h.lastErr = err
			return "hookfail"
		}
		return "ok"
	case "epoch":
		ident := app.DelayedAckKeeper.GetParams(fx.Ctx).EpochIdentifier
		err := fx.Try(func(ctx sdk.Context) error { return app.DelayedAckKeeper.GetEpochHooks().AfterEpochEnd(ctx, ident, 1) })
		if err != nil {
			h.lastErr = err
			return "hookfail"
		}
		return "ok"
	case "block":
		if err := fx.End(); err != nil {
			h.lastErr = err
			return "blockfail"
		}
		if err := fx.Begin(time.Second); err != nil {
			h.lastErr = err
			return "blockfail"
		}
		return "ok"
	}
	return "bad-op"
}

func (h *pkH) writeState(ri int, index, start, n uint64, final bool) {
	si := rollapptypes.NewStateInfo(pkRollappIDs[ri], index, Actor(99).String(), start, n, "", uint64(h.f.Height),
		rollapptypes.BlockDescriptors{BD: make([]rollapptypes.BlockDescriptor, n)}, h.f.Time, "")
	if final {
		si.Status = commontypes.Status_FINALIZED
	}
	h.f.App.RollappKeeper.SetStateInfo(h.f.Ctx, *si)
}

func (h *pkH) noteRecv(c, seq uint64) {
	for _, x := range h.recvSeen {
		if x == [2]uint64{c, seq} {
			return
		}
	}
	h.recvSeen = append(h.recvSeen, [2]uint64{c, seq})
}

func packetFromEvents(evs []abci.Event) (channeltypes.Packet, bool) {
	for _, e := range evs {
		if e.Type != "send_packet" {
			continue
		}
		a := map[string]string{}
		for _, x := range e.Attributes {
			a[x.Key] = x.Value
		}
		th, _ := clienttypes.ParseHeight(a["packet_timeout_height"])
		return channeltypes.NewPacket(mustHex(a["packet_data_hex"]), atou(a["packet_sequence"]), a["packet_src_port"], a["packet_src_channel"],
			a["packet_dst_port"], a["packet_dst_channel"], th, atou(a["packet_timeout_timestamp"])), true
	}
	return channeltypes.Packet{}, false
}

// error classes of the acknowledgement / timeout stand-ins
func (f *Fix) ibcAckCls(pkt channeltypes.Packet, ack []byte, ph uint64, relayer sdk.AccAddress) string {
	ck := f.App.IBCKeeper.ChannelKeeper
	// core AcknowledgePacket checks the channel state first (timeouts are accepted on closed channels)
	if !f.chanAccepts(pkt.SourcePort, pkt.SourceChannel) {
		return "chanClosed"
	}
	if len(ck.GetPacketCommitment(f.Ctx, pkt.SourcePort, pkt.SourceChannel, pkt.Sequence)) == 0 {
		return "replay"
	}
	err := f.Try(func(ctx sdk.Context) error {
		f.deleteCommitment(ctx, pkt)
		ctx = f.proofCtx(ctx, commontypes.RollappPacket_ON_ACK, pkt, ph)
		return f.App.TransferStack.OnAcknowledgementPacket(ctx, pkt, ack, relayer)
	})
	pkLastRecvErr = err
	return pkClass(err)
}

func (f *Fix) ibcTimeoutCls(pkt channeltypes.Packet, ph uint64, relayer sdk.AccAddress) string {
	ck := f.App.IBCKeeper.ChannelKeeper
	if len(ck.GetPacketCommitment(f.Ctx, pkt.SourcePort, pkt.SourceChannel, pkt.Sequence)) == 0 {
		return "replay"
	}
	err := f.Try(func(ctx sdk.Context) error {
		f.deleteCommitment(ctx, pkt)
		ctx = f.proofCtx(ctx, commontypes.RollappPacket_ON_TIMEOUT, pkt, ph)
		return f.App.TransferStack.OnTimeoutPacket(ctx, pkt, relayer)
	})
	pkLastRecvErr = err
	return pkClass(err)
}

// ibcTimeoutOnCloseCls stands for ibc-go core's MsgTimeoutOnClose handler (keeper.TimeoutOnClose + the
// callback OnTimeoutPacket; a callback error fails the message).  The context comes from the real
// IBCProofHeightDecorator over a transaction holding the MsgTimeoutOnClose (and a MsgRecvPacket for the same
// port / channel / sequence: its proof height must not be picked up).
func (f *Fix) ibcTimeoutOnCloseCls(pkt channeltypes.Packet, relayer sdk.AccAddress) string {
	ck := f.App.IBCKeeper.ChannelKeeper
	if len(ck.GetPacketCommitment(f.Ctx, pkt.SourcePort, pkt.SourceChannel, pkt.Sequence)) == 0 {
		return "replay"
	}
	err := f.Try(func(ctx sdk.Context) error {
		f.deleteCommitment(ctx, pkt)
		decoy := pkt
		decoy.DestinationPort, decoy.DestinationChannel = pkt.SourcePort, pkt.SourceChannel
		msgs := []sdk.Msg{
			&channeltypes.MsgRecvPacket{Packet: decoy, ProofHeight: clienttypes.NewHeight(1, 1), Signer: Actor(1).String()},
			&channeltypes.MsgTimeoutOnClose{Packet: pkt, ProofHeight: clienttypes.NewHeight(1, 1), Signer: Actor(1).String()},
		}
		out, err := commontypes.NewIBCProofHeightDecorator().AnteHandle(ctx, pkTx{msgs}, false,
			func(c sdk.Context, _ sdk.Tx, _ bool) (sdk.Context, error) { return c, nil })
		if err != nil {
			return err
		}
		return f.App.TransferStack.OnTimeoutPacket(out, pkt, relayer)
	})
	if err != nil && errors.Is(err, gerrc.ErrInternal) && strings.Contains(err.Error(), "get proof height from context") {
		return "internal"
	}
	return pkClass(err)
}

func mustHex(s string) []byte { b, _ := hex.DecodeString(s); return b }

// shufflePerm is the permutation FulfillByOnDemandLP's rand.Shuffle produces for (rng, n)
func shufflePerm(rng int64, n int) []int {
	idx := make([]int, n)
	for i := range idx {
		idx[i] = i
	}
	r := rand.New(rand.NewSource(rng))
	r.Shuffle(n, func(i, j int) { idx[i], idx[j] = idx[j], idx[i] })
	return idx
}

// ---- snapshot --------------------------------------------------------------------------------

type pkPacket struct {
	Name, Key        string
	PendKey          string
	Pending          bool
	Ra               int
	PH               uint64
	Type             string
	Chan             int
	Seq              uint64
	Target, Orig     string // actor names
	Amount           math.Int
	Denom            int
	Unescrow, AckErr bool
	Failed           bool
	ErrText          string // canonical class of RollappPacket.Error ("0" when empty, x<digest> when unknown)
	TargetAddr       string
}

type pkOrder struct {
	ID, Name, PendKey string
	Pending           bool
	Price, Fee        math.Int
	Denom             int
	Recipient         string
	RecipientAddr     string
	Fulfiller         string
	FulfillerAddr     string
	Creation          uint64
	Track             string // P | F | ?
	RollappID         string
	TrackingKey       string
	Type              string
}

type pkLP struct {
	ID                        uint64
	Addr, Ra                  string
	AddrS                     string
	RollappID                 string
	Denom                     int
	Max, MinFee, Limit, Spent math.Int
	Age                       uint64
}

type pkCrit struct {
	Ra         string // r0 | r1 | rx
	Denoms     []int
	MinFeePct  math.LegacyDec
	Max, Limit map[int]math.Int
	Share      math.LegacyDec
	SV         bool
}

type pkGrant struct {
	Lp, Op int
	Crit   []pkCrit
}

type pkSnap struct {
	Closed  []string
	GrantsS []pkGrant
	H       int64
	Latest  []string
	Fin     []string
	FinH    []int64 // -1 = none
	Packets []pkPacket
	Index   map[int][]string // actor -> names (or ["ERR"])
	IndexOK map[int]bool
	Orders  []pkOrder
	LPs     []pkLP
	Grants  []string
	Bal     map[string][]math.Int
	Rc, Cm  []string
	Ak      []string
	Ns      []uint64
}

func (h *pkH) snapshot() *pkSnap {
	app, ctx := h.f.App, h.f.Ctx
	s := &pkSnap{H: h.f.Height, Index: map[int][]string{}, IndexOK: map[int]bool{}, Bal: map[string][]math.Int{}}
	for _, id := range pkRollappIDs {
		l, f := "-", "-"
		fh := int64(-1)
		if si, ok := app.RollappKeeper.GetLatestStateInfo(ctx, id); ok {
			l = strconv.FormatUint(si.GetLatestHeight(), 10)
		}
		if idx, ok := app.RollappKeeper.GetLatestFinalizedStateIndex(ctx, id); ok {
			si := app.RollappKeeper.MustGetStateInfo(ctx, id, idx.Index)
			f = strconv.FormatUint(si.GetLatestHeight(), 10)
			fh = int64(si.GetLatestHeight())
		}
		s.Latest, s.Fin, s.FinH = append(s.Latest, l), append(s.Fin, f), append(s.FinH, fh)
	}
	byPend := map[string]string{}
	for _, p := range app.DelayedAckKeeper.GetAllRollappPackets(ctx) {
		p := p
		data := p.MustGetTransferPacketData()
		q := pkPacket{Name: h.pktName(&p), Key: string(p.RollappPacketKey()), Pending: p.Status == commontypes.Status_PENDING, PH: p.ProofHeight,
			Type: ptypeCh(p.Type), Chan: h.hubChanIdx(&p), Seq: p.Packet.Sequence, Failed: p.Error != "", Orig: "-", ErrText: h.errClassOf(p.Error)}
		q.Ra = -1
		for i, r := range pkRollappIDs {
			if r == p.RollappId {
				q.Ra = i
			}
		}
		pp := p
		pp.Status = commontypes.Status_PENDING
		q.PendKey = string(pp.RollappPacketKey())
		q.Amount, _ = math.NewIntFromString(data.Amount)
		if p.Type == commontypes.RollappPacket_ON_RECV {
			q.TargetAddr = data.Receiver
			q.Denom = h.denomIdxOf(denomutils.GetIncomingTransferDenom(*p.Packet, data))
			q.Unescrow = transfertypes.ReceiverChainIsSource(p.Packet.SourcePort, p.Packet.SourceChannel, data.Denom)
		} else {
			q.TargetAddr = data.Sender
			q.Denom = h.denomIdxOf(transfertypes.ParseDenomTrace(data.Denom).IBCDenom())
			q.Unescrow = transfertypes.SenderChainIsSource(p.Packet.SourcePort, p.Packet.SourceChannel, data.Denom)
		}
		q.Target = h.aname(q.TargetAddr)
		if p.OriginalTransferTarget != "" {
			q.Orig = h.aname(p.OriginalTransferTarget)
		}
		if p.Type == commontypes.RollappPacket_ON_ACK {
			if ack, err := p.GetAck(); err == nil {
				_, q.AckErr = ack.Response.(*channeltypes.Acknowledgement_Error)
			}
		}
		s.Packets = append(s.Packets, q)
		byPend[q.PendKey] = q.Name
	}
	for i := range h.actors {
		// the index is keyed by the address STRING as the packet data spells it: both spellings of the account
		ps, err := app.DelayedAckKeeper.GetPendingPacketsByAddress(ctx, h.actors[i].String())
		ps2, err2 := app.DelayedAckKeeper.GetPendingPacketsByAddress(ctx, strings.ToUpper(h.actors[i].String()))
		if err != nil || err2 != nil {
			s.Index[i], s.IndexOK[i] = []string{"ERR"}, false
			continue
		}
		s.IndexOK[i] = true
		ps = append(ps, ps2...)
		sort.SliceStable(ps, func(a, b int) bool { return bytes.Compare(ps[a].RollappPacketKey(), ps[b].RollappPacketKey()) < 0 })
		for _, p := range ps {
			p := p
			s.Index[i] = append(s.Index[i], h.pktName(&p))
		}
	}
	os_, _ := app.EIBCKeeper.ListAllDemandOrders(ctx)
	pendKeyOfID := map[string]string{}
	for pk := range byPend {
		pendKeyOfID[eibctypes.BuildDemandIDFromPacketKey(pk)] = pk
	}
	for _, o := range os_ {
		q := pkOrder{ID: o.Id, Pending: o.TrackingPacketStatus == commontypes.Status_PENDING, Price: o.PriceAmount(), Fee: o.GetFeeAmount(),
			Denom: h.denomIdxOf(o.Denom()), Recipient: h.aname(o.Recipient), RecipientAddr: o.Recipient, Fulfiller: "-", FulfillerAddr: o.FulfillerAddress,
			Creation: o.CreationHeight, Track: "?", RollappID: o.RollappId, TrackingKey: o.TrackingPacketKey, Type: ptypeCh(o.Type)}
		if pk, ok := pendKeyOfID[o.Id]; ok {
			q.PendKey, q.Name = pk, byPend[pk]
		} else {
			q.PendKey, q.Name = "~"+o.Id, "?"
		}
		if o.FulfillerAddress != "" {
			q.Fulfiller = h.aname(o.FulfillerAddress)
		}
		if p, err := app.DelayedAckKeeper.GetRollappPacket(ctx, o.TrackingPacketKey); err == nil {
			if p.Status == commontypes.Status_PENDING {
				q.Track = "P"
			} else {
				q.Track = "F"
			}
		}
		s.Orders = append(s.Orders, q)
	}
	sort.Slice(s.Orders, func(i, j int) bool {
		a, b := s.Orders[i], s.Orders[j]
		if a.Pending != b.Pending {
			return a.Pending
		}
		return bytes.Compare([]byte(a.PendKey), []byte(b.PendKey)) < 0
	})
	lps, _ := app.EIBCKeeper.LPs.GetAll(ctx)
	for _, l := range lps {
		s.LPs = append(s.LPs, pkLP{ID: l.Id, Addr: h.aname(l.Lp.FundsAddr), AddrS: l.Lp.FundsAddr, Ra: h.rname(l.Lp.Rollapp), RollappID: l.Lp.Rollapp, Denom: h.denomIdxOf(l.Lp.Denom),
			Max: l.Lp.MaxPrice, MinFee: l.Lp.MinFee, Limit: l.Lp.SpendLimit, Spent: l.Spent, Age: l.Lp.OrderMinAgeBlocks})
	}
	sort.Slice(s.LPs, func(i, j int) bool { return s.LPs[i].ID < s.LPs[j].ID })
	for gi := range h.actors {
		for ei := range h.actors {
			if gi == ei {
				continue
			}
			auths, err := app.AuthzKeeper.GetAuthorizations(ctx, h.actors[ei], h.actors[gi])
			if err != nil {
				continue
			}
			for _, a := range auths {
				fa, ok := a.(*eibctypes.FulfillOrderAuthorization)
				if !ok {
					continue
				}
				var cs []string
				gs := pkGrant{Lp: gi, Op: ei}
				for _, c := range fa.Rollapps {
					pc := pkCrit{Ra: h.rname(c.RollappId), MinFeePct: c.MinFeePercentage, Share: c.OperatorFeeShare, SV: c.SettlementValidated, Max: map[int]math.Int{}, Limit: map[int]math.Int{}}
					for _, d := range c.Denoms {
						pc.Denoms = append(pc.Denoms, h.denomIdxOf(d))
					}
					for _, x := range c.MaxPrice {
						pc.Max[h.denomIdxOf(x.Denom)] = x.Amount
					}
					for _, x := range c.SpendLimit {
						pc.Limit[h.denomIdxOf(x.Denom)] = x.Amount
					}
					gs.Crit = append(gs.Crit, pc)
					ds := "*"
					if len(c.Denoms) > 0 {
						var x []string
						for _, d := range c.Denoms {
							x = append(x, h.dname(d))
						}
						ds = strings.Join(x, "+")
					}
					cs = append(cs, fmt.Sprintf("%s/%s/%s/%s/%s/%s/%s", h.rname(c.RollappId), ds, c.MinFeePercentage.BigInt().String(),
						h.renderCoins(c.MaxPrice), h.renderCoins(c.SpendLimit), c.OperatorFeeShare.BigInt().String(), b2s(c.SettlementValidated)))
				}
				s.Grants = append(s.Grants, fmt.Sprintf("a%d>a%d:%s", gi, ei, strings.Join(cs, "|")))
				s.GrantsS = append(s.GrantsS, gs)
			}
		}
	}
	accts := map[string]sdk.AccAddress{}
	for i, a := range h.actors {
		accts["a"+strconv.Itoa(i)] = a
	}
	for i, c := range h.chans {
		accts["e"+strconv.Itoa(i)] = transfertypes.GetEscrowAddress(pkPort, c.Hub)
		accts["a"+strconv.Itoa(2000+i)] = h.pfm[i]
	}
	for n, a := range accts {
		for _, d := range h.denoms {
			s.Bal[n] = append(s.Bal[n], app.BankKeeper.GetBalance(ctx, a, d).Amount)
		}
	}
	ck := app.IBCKeeper.ChannelKeeper
	okAck := channeltypes.CommitAcknowledgement(channeltypes.NewResultAcknowledgement([]byte{1}).Acknowledgement())
	rs := append([][2]uint64(nil), h.recvSeen...)
	sort.Slice(rs, func(i, j int) bool { return rs[i][0] < rs[j][0] || (rs[i][0] == rs[j][0] && rs[i][1] < rs[j][1]) })
	for _, x := range rs {
		hub := h.chans[x[0]].Hub
		if _, ok := ck.GetPacketReceipt(ctx, pkPort, hub, x[1]); ok {
			s.Rc = append(s.Rc, fmt.Sprintf("c%d.%d", x[0], x[1]))
		}
		if a, ok := ck.GetPacketAcknowledgement(ctx, pkPort, hub, x[1]); ok {
			s.Ak = append(s.Ak, fmt.Sprintf("c%d.%d.%s", x[0], x[1], b2s(bytes.Equal(a, okAck))))
		}
	}
	ss := append([][2]uint64(nil), h.sentSeen...)
	sort.Slice(ss, func(i, j int) bool { return ss[i][0] < ss[j][0] || (ss[i][0] == ss[j][0] && ss[i][1] < ss[j][1]) })
	for _, x := range ss {
		if len(ck.GetPacketCommitment(ctx, pkPort, h.chans[x[0]].Hub, x[1])) > 0 {
			s.Cm = append(s.Cm, fmt.Sprintf("c%d.%d", x[0], x[1]))
		}
	}
	for i, c := range h.chans {
		n, _ := ck.GetNextSequenceSend(ctx, pkPort, c.Hub)
		s.Ns = append(s.Ns, n)
		if !h.f.chanAccepts(pkPort, c.Hub) {
			s.Closed = append(s.Closed, "c"+strconv.Itoa(i))
		}
	}
	return s
}

var pkRefundErrRe = regexp.MustCompile(`^unable to unescrow tokens, this may be caused by a malicious counterparty module or a bug: please open an issue on counterparty module: spendable balance (\d+)(\S+) is smaller than (\d+)(\S+): insufficient funds$`)

// packet-forward-middleware WriteAcknowledgementForForwardedPacket: the two ways the refund of a forward can fail
// (fmt.Errorf("...: %w") over a registered sdk error prints that error's source location: module path and line of
// the bank keeper, the same in every process of one binary)
var pkFwdMoveErrRe = regexp.MustCompile(`^failed to send coins from escrow account to refund escrow account: spendable balance (\d+)(\S+) is smaller than (\d+)(\S+): insufficient funds(?: \[[^\]]+\])?$`)
var pkFwdBurnErrRe = regexp.MustCompile(`^failed to send coins from escrow to module account for burn: spendable balance (\d+)(\S+) is smaller than (\d+)(\S+): insufficient funds(?: \[[^\]]+\])?$`)

// errClassOf canonicalises RollappPacket.Error: the texts the unchanged code produces are recognised
// EXACTLY and named; anything else (e.g. a text carrying process-local data) shows as x<digest>
func (h *pkH) errClassOf(e string) string {
	if e == "" {
		return "0"
	}
	if os.Getenv("PK_DEBUG") != "" {
		fmt.Fprintln(os.Stderr, "DEBUG packet error:", e)
	}
	closed := errorsmod.Wrapf(channeltypes.ErrInvalidChannelState, "expected one of [%s, %s, %s], got %s",
		channeltypes.OPEN, channeltypes.FLUSHING, channeltypes.FLUSHCOMPLETE, channeltypes.CLOSED).Error()
	switch e {
	case closed:
		return "ackClosed"
	case channeltypes.ErrAcknowledgementExists.Error():
		return "ackExists"
	}
	if m := pkRefundErrRe.FindStringSubmatch(e); m != nil && m[2] == m[4] {
		if i, ok := h.denomIdx[m[2]]; ok {
			return fmt.Sprintf("refund:%s:%s:d%d", m[1], m[3], i)
		}
	}
	for _, x := range []struct {
		re  *regexp.Regexp
		cls string
	}{{pkFwdMoveErrRe, "fwdMove"}, {pkFwdBurnErrRe, "fwdBurn"}} {
		if m := x.re.FindStringSubmatch(e); m != nil && m[2] == m[4] {
			if i, ok := h.denomIdx[m[2]]; ok {
				return fmt.Sprintf("%s:%s:%s:d%d", x.cls, m[1], m[3], i)
			}
		}
	}
	d := sha256.Sum256([]byte(e))
	return fmt.Sprintf("x%x", d[:6])
}

func (h *pkH) denomIdxOf(d string) int {
	if i, ok := h.denomIdx[d]; ok {
		return i
	}
	return 99
}

func dashJoin(xs []string, sep string) string {
	if len(xs) == 0 {
		return "-"
	}
	return strings.Join(xs, sep)
}

func (s *pkSnap) render(h *pkH, res string) string {
	var ras, pk, ix, ord, lp, bal, ns []string
	for i := range s.Latest {
		ras = append(ras, s.Latest[i]+"/"+s.Fin[i])
	}
	for _, p := range s.Packets {
		st := "F"
		if p.Pending {
			st = "P"
		}
		pk = append(pk, fmt.Sprintf("%s/%s/%s/%s/%s/d%d/%s/%s/%s", p.Name, st, p.Target, p.Orig, p.Amount, p.Denom, b2s(p.Unescrow), b2s(p.AckErr), p.ErrText))
	}
	for i := range h.actors {
		if len(s.Index[i]) > 0 {
			ix = append(ix, fmt.Sprintf("a%d:%s", i, strings.Join(s.Index[i], "+")))
		}
	}
	for _, o := range s.Orders {
		st := "F"
		if o.Pending {
			st = "P"
		}
		ord = append(ord, fmt.Sprintf("%s/%s/%s/%s/d%d/%s/%s/%d/%s", o.Name, st, o.Price, o.Fee, o.Denom, o.Recipient, o.Fulfiller, o.Creation, o.Track))
	}
	for _, l := range s.LPs {
		lp = append(lp, fmt.Sprintf("%d/%s/%s/d%d/%s/%s/%s/%d/%s", l.ID, l.Addr, l.Ra, l.Denom, l.Max, l.MinFee, l.Limit, l.Age, l.Spent))
	}
	gr := append([]string(nil), s.Grants...)
	var names []string
	for i := range h.actors {
		names = append(names, "a"+strconv.Itoa(i))
	}
	for i := range h.chans {
		names = append(names, "e"+strconv.Itoa(i))
	}
	for i := range h.chans {
		names = append(names, "a"+strconv.Itoa(2000+i))
	}
	for _, n := range names {
		var vs []string
		for _, v := range s.Bal[n] {
			vs = append(vs, v.String())
		}
		bal = append(bal, n+":"+strings.Join(vs, "."))
	}
	for _, n := range s.Ns {
		ns = append(ns, strconv.FormatUint(n, 10))
	}
	return fmt.Sprintf("res=%s h=%d ra=%s pk=%s ix=%s ord=%s lp=%s gr=%s bal=%s rc=%s cm=%s ak=%s ns=%s cl=%s", res, s.H, strings.Join(ras, ","),
		dashJoin(pk, ";"), dashJoin(ix, ","), dashJoin(ord, ";"), dashJoin(lp, ";"), dashJoin(gr, ";"), strings.Join(bal, ","),
		dashJoin(s.Rc, ","), dashJoin(s.Cm, ","), dashJoin(s.Ak, ","), strings.Join(ns, ","), dashJoin(s.Closed, ","))
}
