package harness

// Shared keeper/ante-level IBC fixture for C09 (canonical light client) and C10 (genesis bridge).
//
// Fixture choice (A): the full production app (`Fix`), real rollapps / sequencers / state infos
// created through the real message servers, real 07-tendermint clients created through the IBC client
// keeper, real tendermint headers signed with the sequencers' ed25519 keys and verified by ibc-go,
// the production ante handler (ante.NewAnteHandler with the options app.go passes) run on real
// signed transactions, and the production transfer stack (`app.TransferStack`) called the way
// ibc-go's core RecvPacket handler calls it.  There is no counterparty chain: connection ends are
// written OPEN through the connection keeper and channel ends are moved INIT -> OPEN through the
// channel keeper (stand-in for the proof-carrying handshake messages; the proof verdict is an
// oracle, `ibc=0/1` on the op line).

import (
	"crypto/sha256"
	"encoding/binary"
	"fmt"
	"strings"
	"testing"
	"time"

	"cosmossdk.io/math"
	storetypes "cosmossdk.io/store/types"
	cmted25519 "github.com/cometbft/cometbft/crypto/ed25519"
	"github.com/cometbft/cometbft/crypto/tmhash"
	cmtproto "github.com/cometbft/cometbft/proto/tendermint/types"
	cmtversion "github.com/cometbft/cometbft/proto/tendermint/version"
	cmttypes "github.com/cometbft/cometbft/types"
	"github.com/cosmos/cosmos-sdk/client"
	codectypes "github.com/cosmos/cosmos-sdk/codec/types"
	"github.com/cosmos/cosmos-sdk/crypto/keys/ed25519"
	"github.com/cosmos/cosmos-sdk/crypto/keys/secp256k1"
	sdk "github.com/cosmos/cosmos-sdk/types"
	"github.com/cosmos/cosmos-sdk/types/tx/signing"
	authsigning "github.com/cosmos/cosmos-sdk/x/auth/signing"
	banktypes "github.com/cosmos/cosmos-sdk/x/bank/types"
	transfertypes "github.com/cosmos/ibc-go/v8/modules/apps/transfer/types"
	clienttypes "github.com/cosmos/ibc-go/v8/modules/core/02-client/types"
	connectiontypes "github.com/cosmos/ibc-go/v8/modules/core/03-connection/types"
	channeltypes "github.com/cosmos/ibc-go/v8/modules/core/04-channel/types"
	commitmenttypes "github.com/cosmos/ibc-go/v8/modules/core/23-commitment/types"
	ibcexported "github.com/cosmos/ibc-go/v8/modules/core/exported"
	ibctm "github.com/cosmos/ibc-go/v8/modules/light-clients/07-tendermint"
	commontypes "github.com/dymensionxyz/dymension/v3/x/common/types"
	protov2 "google.golang.org/protobuf/proto"

	"github.com/dymensionxyz/dymension/v3/app/ante"
	"github.com/dymensionxyz/dymension/v3/app/apptesting"
	lctypes "github.com/dymensionxyz/dymension/v3/x/lightclient/types"
	rollapptypes "github.com/dymensionxyz/dymension/v3/x/rollapp/types"
	seqtypes "github.com/dymensionxyz/dymension/v3/x/sequencer/types"
)

const ibcDenom = "adym"

// rollapp-side clock: block h of a rollapp carries time ibcRaTime(h) unless perturbed
func ibcRaTime(h uint64) time.Time {
	return BaseTime.Add(-2 * time.Hour).Add(time.Duration(h) * time.Second)
}

type ibcEnv struct {
	t       *testing.T
	f       *Fix
	owner   sdk.AccAddress
	relayer sdk.AccAddress
	relPriv *secp256k1.PrivKey
	anteH   sdk.AnteHandler
	// sequencer actors: index -> account address, dymint key
	seqAddr []sdk.AccAddress
	seqPriv []cmted25519.PrivKey
	seqPk   []*codectypes.Any
}

func newIbcEnv(t *testing.T, nSeq int) *ibcEnv {
	e := &ibcEnv{t: t, f: NewFix(t), owner: Actor(299)}
	for i := 0; i < nSeq; i++ {
		priv := ed25519.GenPrivKeyFromSecret([]byte(fmt.Sprintf("dymverif-ibc-seq-%d", i)))
		pkAny, err := codectypes.NewAnyWithValue(priv.PubKey())
		if err != nil {
			t.Fatal(err)
		}
		e.seqAddr = append(e.seqAddr, Actor(200+i))
		e.seqPriv = append(e.seqPriv, cmted25519.PrivKey(priv.Key))
		e.seqPk = append(e.seqPk, pkAny)
		e.f.Fund(Actor(200+i), sdk.NewCoin(ibcDenom, math.NewIntFromUint64(1_000_000_000)))
	}
	e.finishEnv()
	return e
}

// newIbcEnvOnCore builds the IBC environment on the fixture of an M-Core harness, with the dymint
// keys of its (address-sorted) actors.
func newIbcEnvOnCore(t *testing.T, h *coreH) *ibcEnv {
	e := &ibcEnv{t: t, f: h.f, owner: h.owner}
	for k, a := range h.actors {
		for i := 0; i < h.p.NActors; i++ {
			if Actor(100 + i).Equals(a) {
				priv := ed25519.GenPrivKeyFromSecret([]byte(fmt.Sprintf("dymverif-core-seq-%d", i)))
				e.seqAddr = append(e.seqAddr, a)
				e.seqPriv = append(e.seqPriv, cmted25519.PrivKey(priv.Key))
				e.seqPk = append(e.seqPk, h.pubkeys[k])
			}
		}
	}
	if len(e.seqAddr) != len(h.actors) {
		t.Fatal("actor keys")
	}
	e.finishEnv()
	return e
}

func (e *ibcEnv) finishEnv() {
	a := e.f.App
	e.relPriv = secp256k1.GenPrivKeyFromSecret([]byte("dymverif-ibc-relayer"))
	e.relayer = sdk.AccAddress(e.relPriv.PubKey().Address())
	e.f.Fund(e.relayer, sdk.NewCoin(ibcDenom, math.NewIntWithDecimal(1, 24)))
	e.f.Fund(e.owner, sdk.NewCoin(ibcDenom, math.NewIntWithDecimal(1, 24)))
	rp := a.RollappKeeper.GetParams(e.f.Ctx)
	rp.MinSequencerBondGlobal = sdk.NewCoin(ibcDenom, math.NewIntFromUint64(1))
	a.RollappKeeper.SetParams(e.f.Ctx, rp)
	// chain configuration the test genesis lacks: bank metadata of the native denom (IRO liquidity denom)
	if _, ok := a.BankKeeper.GetDenomMetaData(e.f.Ctx, ibcDenom); !ok {
		a.BankKeeper.SetDenomMetaData(e.f.Ctx, banktypes.Metadata{Base: ibcDenom, Display: "dym", Name: "dym", Symbol: "DYM",
			DenomUnits: []*banktypes.DenomUnit{{Denom: ibcDenom, Exponent: 0}, {Denom: "dym", Exponent: 18}}})
	}
	gp := a.GAMMKeeper.GetParams(e.f.Ctx)
	allowed := false
	for _, d := range gp.AllowedPoolCreationDenoms {
		allowed = allowed || d == ibcDenom
	}
	if !allowed {
		gp.AllowedPoolCreationDenoms = append(gp.AllowedPoolCreationDenoms, ibcDenom)
		a.GAMMKeeper.SetParams(e.f.Ctx, gp)
	}
	e.buildAnte()
	// C18 continue-after-import: the application behind the fixture may be replaced by an imported copy
	e.f.Rebind = append(e.f.Rebind, e.buildAnte)
	e.fixCtx()
}

// buildAnte: the production ante handler, built from the same options as app.go
func (e *ibcEnv) buildAnte() {
	a := e.f.App
	txc := a.TxConfig()
	ah, err := ante.NewAnteHandler(ante.HandlerOptions{
		AccountKeeper: &a.AccountKeeper, BankKeeper: a.BankKeeper, FeegrantKeeper: a.FeeGrantKeeper,
		SignModeHandler: txc.SignModeHandler(), IBCKeeper: a.IBCKeeper, FeeMarketKeeper: a.FeeMarketKeeper,
		EvmKeeper: a.EvmKeeper, TxFeesKeeper: a.TxFeesKeeper, RollappKeeper: *a.RollappKeeper,
		LightClientKeeper: &a.LightClientKeeper,
	})
	if err != nil {
		e.t.Fatal(err)
	}
	e.anteH = ah
}

// ---- rollapp side ------------------------------------------------------------------------------

func ibcRollappID(i int) string {
	names := []string{"raa", "rbb", "rcc", "rdd"}
	if i < 0 || i >= len(names) {
		return fmt.Sprintf("zz_%d-1", 9000+i)
	}
	return fmt.Sprintf("%s_%d-1", names[i], 1001+i)
}

func (e *ibcEnv) createRollapp(i int, gi *rollapptypes.GenesisInfo) error {
	msg := rollapptypes.MsgCreateRollapp{
		Creator: e.owner.String(), RollappId: ibcRollappID(i), InitialSequencer: "*",
		MinSequencerBond: sdk.NewCoin(ibcDenom, math.NewIntFromUint64(1)),
		Alias:            fmt.Sprintf("alias%c", 'a'+i), VmType: rollapptypes.Rollapp_WASM,
		GenesisInfo: gi,
		Metadata: &rollapptypes.RollappMetadata{Website: "https://dymension.xyz", Description: "d", LogoUrl: "https://dymension.xyz/logo.png",
			Telegram: "https://t.me/rolly", X: "https://x.dymension.xyz"},
	}
	apptesting.FundForAliasRegistration(e.f.App, e.f.Ctx, msg.Alias, msg.Creator)
	_, err := e.f.Deliver(&msg)
	return err
}

func ibcDefaultGenesisInfo(i int) *rollapptypes.GenesisInfo {
	return &rollapptypes.GenesisInfo{Bech32Prefix: fmt.Sprintf("pf%c", 'a'+i), GenesisChecksum: "1234567890abcdefg",
		InitialSupply: math.NewInt(1000), NativeDenom: rollapptypes.DenomMetadata{Display: "DEN", Base: "aden", Exponent: 18}}
}

func (e *ibcEnv) createSequencer(ai, ri int) error {
	msg := seqtypes.MsgCreateSequencer{Creator: e.seqAddr[ai].String(), DymintPubKey: e.seqPk[ai], RollappId: ibcRollappID(ri),
		Bond: sdk.NewCoin(ibcDenom, math.NewIntFromUint64(1000)),
		Metadata: seqtypes.SequencerMetadata{Rpcs: []string{"https://rpc.wpd.evm.rollapp.noisnemyd.xyz:443"},
			EvmRpcs: []string{"https://rpc.evm.rollapp.noisnemyd.xyz:443"}, RestApiUrls: []string{"https://api.wpd.evm.rollapp.noisnemyd.xyz:443"}}}
	_, err := e.f.Deliver(&msg)
	return err
}

func ibcRoot(tag uint64) []byte {
	b := make([]byte, 32)
	for i := range b {
		b[i] = byte(tag)
	}
	return b
}

// ---- tendermint side ---------------------------------------------------------------------------

func (e *ibcEnv) valset(ai int) *cmttypes.ValidatorSet { return e.valsetOf([]hdrVal{{ai, 1, true}}) }

func (e *ibcEnv) valHash(ai int) []byte { return e.valset(ai).Hash() }

// ibcClientParams: variant of the client parameters of a candidate client
func ibcClientState(chainID string, latest uint64, variant string) *ibctm.ClientState {
	exp := lctypes.DefaultExpectedCanonicalClientParams()
	cs := ibctm.NewClientState(chainID, exp.TrustLevel, exp.TrustingPeriod, exp.UnbondingPeriod, exp.MaxClockDrift,
		clienttypes.NewHeight(clienttypes.ParseChainID(chainID), latest), commitmenttypes.GetSDKSpecs(), []string{"upgrade", "upgradedIBCState"})
	switch variant {
	case "ok":
	case "trustlevel":
		cs.TrustLevel = ibctm.Fraction{Numerator: 2, Denominator: 3}
	case "trusting":
		cs.TrustingPeriod = exp.TrustingPeriod - time.Hour
	case "unbonding":
		cs.UnbondingPeriod = exp.UnbondingPeriod + time.Hour
	case "drift":
		cs.MaxClockDrift = 10 * time.Minute
	case "specs1": // only the first proof spec
		cs.ProofSpecs = commitmenttypes.GetSDKSpecs()[:1]
	case "nopath": // empty upgrade path
		cs.UpgradePath = nil
	case "specs1nopath":
		cs.ProofSpecs = commitmenttypes.GetSDKSpecs()[:1]
		cs.UpgradePath = nil
	case "path1":
		cs.UpgradePath = []string{"upgrade"}
	case "badpath":
		cs.UpgradePath = []string{"upgrade", "other"}
	case "specs3":
		sp := commitmenttypes.GetSDKSpecs()
		cs.ProofSpecs = append(sp, sp[0])
	}
	return cs
}

func (e *ibcEnv) createClient(cs *ibctm.ClientState, ts time.Time, root []byte, nextValHash []byte) (string, error) {
	var id string
	err := e.f.Try(func(ctx sdk.Context) error {
		cons := ibctm.NewConsensusState(ts, commitmenttypes.NewMerkleRoot(root), nextValHash)
		var err error
		id, err = e.f.App.IBCKeeper.ClientKeeper.CreateClient(ctx, cs, cons)
		return err
	})
	return id, err
}

type hdrVal struct {
	Actor int // sequencer actor index (any index has a deterministic key, registered on the hub or not)
	Power int64
	Signs bool
}

type hdrSpec struct {
	ChainID      string
	Height       uint64
	Trusted      uint64
	Time         time.Time
	Root         []byte
	Vals         []hdrVal // validator set of the header
	TrustedVals  []hdrVal // trusted validator set (must hash to the trusted consensus state's next validators)
	NextVal      int      // next validators = that actor's single-validator set
	NextGarbage  bool     // next validators hash = a hash of nothing known
	Proposer     int      // ValidatorSet.Proposer: actor index; < 0 = a key outside every set
	ProposerData int      // Header.ProposerAddress: actor index; -2 = same as Proposer
	AppVersion   uint64
}

func (e *ibcEnv) actorPriv(i int) cmted25519.PrivKey {
	if i >= 0 && i < len(e.seqPriv) {
		return e.seqPriv[i]
	}
	return cmted25519.GenPrivKeyFromSecret([]byte(fmt.Sprintf("dymverif-ibc-unknown-validator-%d", i)))
}

func (e *ibcEnv) proposerVal(i int) *cmttypes.Validator {
	return cmttypes.NewValidator(e.actorPriv(i).PubKey(), 1)
}

func (e *ibcEnv) valsetOf(vs []hdrVal) *cmttypes.ValidatorSet {
	var out []*cmttypes.Validator
	for _, v := range vs {
		out = append(out, cmttypes.NewValidator(e.actorPriv(v.Actor).PubKey(), v.Power))
	}
	return cmttypes.NewValidatorSet(out)
}

// header builds and signs a tendermint header the way ibc-go's testing package does
func (e *ibcEnv) header(s hdrSpec) *ibctm.Header {
	vals := e.valsetOf(s.Vals)
	nextHash := tmhash.Sum([]byte("garbage-next-vals"))
	if !s.NextGarbage {
		nextHash = e.valsetOf([]hdrVal{{s.NextVal, 1, true}}).Hash()
	}
	prop := e.proposerVal(s.Proposer)
	for _, v := range vals.Validators { // the proposer entry carries its power when it is a member
		if string(v.Address) == string(prop.Address) {
			prop = v.Copy()
		}
	}
	propData := prop.Address
	if s.ProposerData != -2 {
		propData = e.proposerVal(s.ProposerData).Address
	}
	rev := clienttypes.ParseChainID(s.ChainID)
	h := cmttypes.Header{
		Version: cmtversion.Consensus{Block: 11, App: s.AppVersion},
		ChainID: s.ChainID, Height: int64(s.Height), Time: s.Time,
		LastBlockID:        cmttypes.BlockID{Hash: make([]byte, tmhash.Size), PartSetHeader: cmttypes.PartSetHeader{Total: 10000, Hash: make([]byte, tmhash.Size)}},
		LastCommitHash:     tmhash.Sum([]byte("last_commit")),
		DataHash:           tmhash.Sum([]byte("data")),
		ValidatorsHash:     vals.Hash(),
		NextValidatorsHash: nextHash,
		ConsensusHash:      tmhash.Sum([]byte("consensus")),
		AppHash:            s.Root,
		LastResultsHash:    tmhash.Sum([]byte("results")),
		EvidenceHash:       tmhash.Sum([]byte("evidence")),
		ProposerAddress:    propData,
	}
	blockID := cmttypes.BlockID{Hash: h.Hash(), PartSetHeader: cmttypes.PartSetHeader{Total: 3, Hash: tmhash.Sum([]byte("part_set"))}}
	// commit: one signature slot per validator in validator-set order, absent for non-signers
	commit := &cmttypes.Commit{Height: int64(s.Height), Round: 1, BlockID: blockID}
	for idx, v := range vals.Validators {
		signs := false
		var priv cmted25519.PrivKey
		for _, sv := range s.Vals {
			p := e.actorPriv(sv.Actor)
			if string(p.PubKey().Address()) == string(v.Address) {
				signs, priv = sv.Signs, p
			}
		}
		if !signs {
			commit.Signatures = append(commit.Signatures, cmttypes.NewCommitSigAbsent())
			continue
		}
		vote := &cmttypes.Vote{Type: cmtproto.PrecommitType, Height: int64(s.Height), Round: 1, BlockID: blockID, Timestamp: s.Time,
			ValidatorAddress: v.Address, ValidatorIndex: int32(idx)}
		sig, err := priv.Sign(cmttypes.VoteSignBytes(s.ChainID, vote.ToProto()))
		if err != nil {
			e.t.Fatal(err)
		}
		commit.Signatures = append(commit.Signatures, cmttypes.CommitSig{BlockIDFlag: cmttypes.BlockIDFlagCommit, ValidatorAddress: v.Address, Timestamp: s.Time, Signature: sig})
	}
	vp, err := vals.ToProto()
	if err != nil {
		e.t.Fatal(err)
	}
	pp, err := prop.ToProto()
	if err != nil {
		e.t.Fatal(err)
	}
	vp.Proposer = pp
	tv, err := e.valsetOf(s.TrustedVals).ToProto()
	if err != nil {
		e.t.Fatal(err)
	}
	return &ibctm.Header{
		SignedHeader:      &cmtproto.SignedHeader{Header: h.ToProto(), Commit: commit.ToProto()},
		ValidatorSet:      vp,
		TrustedHeight:     clienttypes.NewHeight(rev, s.Trusted),
		TrustedValidators: tv,
	}
}

// ---- transactions through the production ante handler ------------------------------------------

// signedTx builds a transaction with the given messages signed by the relayer account.
func (e *ibcEnv) signedTx(msgs ...sdk.Msg) (sdk.Tx, error) {
	a := e.f.App
	txc := a.TxConfig()
	b := txc.NewTxBuilder()
	if err := b.SetMsgs(msgs...); err != nil {
		return nil, err
	}
	b.SetGasLimit(50_000_000)
	b.SetFeeAmount(sdk.NewCoins(sdk.NewCoin(ibcDenom, math.NewIntWithDecimal(1, 18))))
	acc := a.AccountKeeper.GetAccount(e.f.Ctx, e.relayer)
	if acc == nil {
		return nil, fmt.Errorf("relayer account missing")
	}
	mode := signing.SignMode_SIGN_MODE_DIRECT
	sig := signing.SignatureV2{PubKey: e.relPriv.PubKey(), Data: &signing.SingleSignatureData{SignMode: mode}, Sequence: acc.GetSequence()}
	if err := b.SetSignatures(sig); err != nil {
		return nil, err
	}
	sd := authsigning.SignerData{ChainID: apptesting.TestChainID, AccountNumber: acc.GetAccountNumber(), Sequence: acc.GetSequence(),
		PubKey: e.relPriv.PubKey(), Address: e.relayer.String()}
	sg, err := clientSign(e, mode, sd, b, txc)
	if err != nil {
		return nil, err
	}
	if err := b.SetSignatures(sg); err != nil {
		return nil, err
	}
	return b.GetTx(), nil
}

func clientSign(e *ibcEnv, mode signing.SignMode, sd authsigning.SignerData, b client.TxBuilder, txc client.TxConfig) (signing.SignatureV2, error) {
	bz, err := authsigning.GetSignBytesAdapter(e.f.Ctx, txc.SignModeHandler(), mode, sd, b.GetTx())
	if err != nil {
		return signing.SignatureV2{}, err
	}
	s, err := e.relPriv.Sign(bz)
	if err != nil {
		return signing.SignatureV2{}, err
	}
	return signing.SignatureV2{PubKey: e.relPriv.PubKey(), Data: &signing.SingleSignatureData{SignMode: mode, Signature: s}, Sequence: sd.Sequence}, nil
}

// runTx mirrors baseapp.runTx for one transaction: ante handler in a cache context whose writes
// persist when the ante handler succeeds, then the messages in a second cache context that is
// written only when every message succeeds.  Returns (anteErr, msgErr) and the context the ante
// handler produced (it carries the packet proof heights).
func (e *ibcEnv) runTx(msgs ...sdk.Msg) (anteErr, msgErr error) {
	anteErr, msgErr, _ = e.runTxAt(msgs...)
	return anteErr, msgErr
}

// runTxAt is runTx that also reports the index of the message that failed (-1: none / ante)
func (e *ibcEnv) runTxAt(msgs ...sdk.Msg) (anteErr, msgErr error, at int) {
	at = -1
	tx, err := e.signedTx(msgs...)
	if err != nil {
		return err, nil, at
	}
	// baseapp.validateBasicTxMsgs comes before the ante handler
	func() {
		defer func() {
			if r := recover(); r != nil {
				anteErr = &PanicError{Val: r}
			}
		}()
		for _, m := range msgs {
			if vb, ok := m.(sdk.HasValidateBasic); ok {
				if err := vb.ValidateBasic(); err != nil {
					anteErr = fmt.Errorf("validate basic: %w", err)
					return
				}
			}
		}
	}()
	if anteErr != nil {
		return anteErr, nil, at
	}
	base := e.f.Ctx.WithBlockGasMeter(storetypes.NewInfiniteGasMeter())
	actx, awrite := base.CacheContext()
	var nctx sdk.Context
	func() {
		defer func() {
			if r := recover(); r != nil {
				anteErr = &PanicError{Val: r}
			}
		}()
		nctx, anteErr = e.anteH(actx, tx, false)
	}()
	if anteErr != nil {
		return anteErr, nil, at
	}
	awrite()
	// messages: fresh cache on top of the (now written) state, keeping the values the ante put in the context
	mctx, mwrite := nctx.WithMultiStore(e.f.Ctx.MultiStore()).CacheContext()
	func() {
		defer func() {
			if r := recover(); r != nil {
				msgErr = &PanicError{Val: r}
			}
		}()
		for i, m := range msgs {
			at = i
			h := e.f.App.MsgServiceRouter().Handler(m)
			if h == nil {
				msgErr = fmt.Errorf("no handler for %T", m)
				return
			}
			g0 := mctx.GasMeter().GasConsumed()
			_, err := h(mctx, m)
			noteGas(mctx.GasMeter().GasConsumed() - g0) // C12: gas of the message, failed or not
			if err != nil {
				msgErr = err
				return
			}
		}
	}()
	if msgErr == nil {
		mwrite()
		at = -1
	}
	return nil, msgErr, at
}

// ---- connections / channels --------------------------------------------------------------------

// openConnection writes an OPEN connection end over the client (stand-in for the connection handshake)
func (e *ibcEnv) openConnection(clientID string) string {
	k := e.f.App.IBCKeeper.ConnectionKeeper
	id := k.GenerateConnectionIdentifier(e.f.Ctx)
	conn := connectiontypes.NewConnectionEnd(connectiontypes.OPEN, clientID,
		connectiontypes.NewCounterparty("07-tendermint-0", "connection-0", commitmenttypes.NewMerklePrefix([]byte("ibc"))),
		connectiontypes.GetCompatibleVersions(), 0)
	k.SetConnection(e.f.Ctx, id, conn)
	return id
}

// chanOpenInit delivers a real MsgChannelOpenInit (permissionless, no proof) and returns the channel id
func (e *ibcEnv) chanOpenInit(connID string) (string, error) {
	msg := channeltypes.NewMsgChannelOpenInit("transfer", "ics20-1", channeltypes.UNORDERED, []string{connID}, "transfer", e.relayer.String())
	res, err := e.f.Deliver(msg)
	if err != nil {
		return "", err
	}
	for _, r := range res.MsgResponses {
		var out channeltypes.MsgChannelOpenInitResponse
		if err := e.f.App.AppCodec().Unmarshal(r.Value, &out); err == nil && out.ChannelId != "" {
			return out.ChannelId, nil
		}
	}
	return "", fmt.Errorf("no channel id in response")
}

// setChannelOpen flips a channel end to OPEN (stand-in for an accepted MsgChannelOpenAck proof)
func (e *ibcEnv) setChannelOpen(chanID, cpChan string) {
	k := e.f.App.IBCKeeper.ChannelKeeper
	ch, ok := k.GetChannel(e.f.Ctx, "transfer", chanID)
	if !ok {
		return
	}
	ch.State = channeltypes.OPEN
	ch.Counterparty.ChannelId = cpChan
	k.SetChannel(e.f.Ctx, "transfer", chanID, ch)
}

// ---- packets ------------------------------------------------------------------------------------

// recvPacket hands a packet to the production transfer stack the way ibc-go's core RecvPacket
// handler does (cache context, written back unless the acknowledgement is an error ack), with the
// proof height put into the context by the real IBCProofHeightDecorator.  Proof verification by
// ibc core itself is not run (no counterparty chain).  Returns the acknowledgement (nil = async).
func (e *ibcEnv) recvPacket(pkt channeltypes.Packet, proofHeight clienttypes.Height) (ack ibcexported.Acknowledgement, errText string, err error) {
	msg := channeltypes.NewMsgRecvPacket(pkt, []byte("proof"), proofHeight, e.relayer.String())
	ctx := e.f.Ctx
	dec := commontypes.NewIBCProofHeightDecorator()
	ctx, err = dec.AnteHandle(ctx, ibcMsgsTx{msgs: []sdk.Msg{msg}}, false, func(c sdk.Context, _ sdk.Tx, _ bool) (sdk.Context, error) { return c, nil })
	if err != nil {
		return nil, "", err
	}
	cctx, write := ctx.CacheContext()
	cctx = cctx.WithEventManager(sdk.NewEventManager())
	defer func() {
		if r := recover(); r != nil {
			err = &PanicError{Val: r}
			ack = nil
		}
	}()
	ack = e.f.App.TransferStack.OnRecvPacket(cctx, pkt, e.relayer)
	if ack == nil || ack.Success() {
		write()
	}
	for _, ev := range cctx.EventManager().Events() {
		for _, at := range ev.Attributes {
			if strings.HasSuffix(at.Key, "message") && strings.Contains(ev.Type, "error") {
				errText = at.Value
			}
		}
	}
	return ack, errText, nil
}

type ibcMsgsTx struct{ msgs []sdk.Msg }

func (t ibcMsgsTx) GetMsgs() []sdk.Msg                    { return t.msgs }
func (t ibcMsgsTx) GetMsgsV2() ([]protov2.Message, error) { return nil, nil }

// genesisBridgeData builds the handshake data a correct rollapp with genesis info gi would send
func (e *ibcEnv) genesisBridgeData(gi rollapptypes.GenesisInfo) rollapptypes.GenesisBridgeData {
	var gb rollapptypes.GenesisBridgeData
	gb.GenesisInfo = rollapptypes.GenesisBridgeInfo{GenesisChecksum: gi.GenesisChecksum, Bech32Prefix: gi.Bech32Prefix,
		NativeDenom: gi.NativeDenom, InitialSupply: gi.InitialSupply, GenesisAccounts: gi.Accounts()}
	if gi.NativeDenom.IsSet() {
		gb.NativeDenom = banktypes.Metadata{
			DenomUnits: []*banktypes.DenomUnit{{Denom: gi.NativeDenom.Base}, {Denom: gi.NativeDenom.Display, Exponent: gi.NativeDenom.Exponent}},
			Base:       gi.NativeDenom.Base, Display: gi.NativeDenom.Display, Name: gi.NativeDenom.Base, Symbol: gi.NativeDenom.Display}
	}
	if gi.RequiresTransfer() {
		tr := transfertypes.NewFungibleTokenPacketData(gi.NativeDenom.Base, gi.GenesisTransferAmount().String(), "rollappsender", rollapptypes.HubRecipient, "")
		gb.GenesisTransfer = &tr
	}
	return gb
}

// fixCtx puts a real validator's consensus address into the block header as proposer (the EVM hook
// that creates the virtual frontier contract for a new denom needs a coinbase); call after Begin.
func (e *ibcEnv) fixCtx() {
	vals, err := e.f.App.StakingKeeper.GetAllValidators(e.f.Ctx)
	if err != nil || len(vals) == 0 {
		e.t.Fatal("no validator")
	}
	cons, err := vals[0].GetConsAddr()
	if err != nil {
		e.t.Fatal(err)
	}
	h := e.f.Ctx.BlockHeader()
	h.ProposerAddress = cons
	e.f.Ctx = e.f.Ctx.WithBlockHeader(h)
}

// ibcTraceRng derives the generator of trace `tr` from the run seed through SHA-256 (hlib's
// Fork() of consecutive seeds yields shifted copies of the same stream).
func ibcTraceRng(seed uint64, tr int) *Rng {
	h := sha256.Sum256([]byte(fmt.Sprintf("dymverif-ibc-trace-%d-%d", seed, tr)))
	return NewRng(binary.BigEndian.Uint64(h[:8]))
}
