package harness

import (
	"bytes"
	"crypto/sha256"
	"fmt"
	"strconv"
	"strings"

	commontypes "github.com/dymensionxyz/dymension/v3/x/common/types"
	datypes "github.com/dymensionxyz/dymension/v3/x/delayedack/types"
	eibctypes "github.com/dymensionxyz/dymension/v3/x/eibc/types"
	rollapptypes "github.com/dymensionxyz/dymension/v3/x/rollapp/types"
	seqtypes "github.com/dymensionxyz/dymension/v3/x/sequencer/types"
)

// C19, second extension: the rollapp-id grammar, x/rollapp store keys, '/'-separated scans.  The scan
// prefixes are the ones the keeper functions pass to KVStorePrefixIterator (their statement listings
// are pinned in Lemmas/GenEqKeysX.lean); membership is bytes.HasPrefix on the real keys.

var c19DemandIds = map[string]string{}

func c19WsEdge(b []byte) bool {
	w := func(c byte) bool { return c == 32 || (c >= 9 && c <= 13) || c >= 128 }
	for _, c := range b {
		if c >= 128 {
			return true
		}
	}
	return len(b) > 0 && (w(b[0]) || w(b[len(b)-1]))
}

func c19RollappName(id string) (string, bool) {
	c, err := rollapptypes.NewChainID(id)
	if err != nil {
		return "", false
	}
	return c.GetName(), true
}

func c19ExecX(r *Run, line string, f []string) (string, bool) {
	u := func(i int) uint64 { v, _ := strconv.ParseUint(f[i], 10, 64); return v }
	str := func(i int) string { return string(unhex(f[i])) }
	opst := func(i int) seqtypes.OperatingStatus {
		if f[i] == "1" {
			return seqtypes.Bonded
		}
		return seqtypes.Unbonded
	}
	pkey := func(o int) []byte {
		return commontypes.RollappPacketKey(c19Status[u(o)], str(o+1), u(o+2), c19Types[u(o+3)], str(o+4), u(o+5))
	}
	switch f[0] {
	case "rvalid":
		id := unhex(f[1])
		if c19WsEdge(id) {
			return "ws", true
		}
		name, ok := c19RollappName(string(id))
		if !ok {
			return "false", true
		}
		// monitors: a valid id carries none of the structural bytes of the key encodings, and its
		// name is what precedes the first '_'
		if bytes.ContainsAny(id, "/\x00\xff") {
			r.Violate("C19/rollapp_id/valid-id-contains-structural-byte", fmt.Sprintf("%q", id), line)
		}
		if !strings.HasPrefix(string(id), name+"_") || strings.Contains(name, "_") {
			r.Violate("C19/rollapp_id/name-is-not-the-part-before-the-first-underscore", fmt.Sprintf("%q name %q", id, name), line)
		}
		return "true " + Hex([]byte(name)), true
	case "rkeys":
		id, n := str(1), u(2)
		ks := [][]byte{rollapptypes.RollappKey(id), rollapptypes.LatestStateInfoIndexKey(id), rollapptypes.LatestFinalizedStateIndexKey(id),
			rollapptypes.StateInfoKey(rollapptypes.StateInfoIndex{RollappId: id, Index: n}), rollapptypes.BlockHeightToFinalizationQueueKey(n),
			rollapptypes.RollappByEIP155Key(n), rollapptypes.AppKey(rollapptypes.App{RollappId: id, Id: n}), rollapptypes.RollappAppKeyPrefix(id)}
		var hx []string
		for _, k := range ks {
			hx = append(hx, Hex(k))
		}
		return strings.Join(hx, " "), true
	case "xsname":
		// GetRollappByName(name): KVStorePrefixIterator(prefix store "Rollapp/value/", name+"_")
		in := bytes.HasPrefix(rollapptypes.RollappKey(str(2)), []byte(str(1)+"_"))
		if name, ok := c19RollappName(str(2)); ok && !c19WsEdge(unhex(f[2])) && !strings.Contains(str(1), "_") && in != (name == str(1)) {
			r.Violate("C19/prefix_scan/rollapp-by-name", fmt.Sprintf("scan for name %q returned=%v rollapp %q", str(1), in, str(2)), line)
		}
		return strconv.FormatBool(in), true
	case "xsstat":
		p := seqtypes.SequencersByRollappByStatusKey(str(1), opst(2))
		k := seqtypes.SequencerByRollappByStatusKey(str(4), str(5), opst(6))
		in := bytes.HasPrefix(k, p)
		if in != (f[1] == f[4] && f[2] == f[6]) {
			r.Violate("C19/prefix_scan/sequencers-by-rollapp-by-status", fmt.Sprintf("scan (%q,%s) returned=%v entry (%q,%s)", str(1), f[2], in, str(4), f[6]), line)
		}
		return strconv.FormatBool(in), true
	case "xsliv":
		p := rollapptypes.LivenessEventQueueIterHeightKey(int64(u(1)))
		k := rollapptypes.LivenessEventQueueKey(rollapptypes.LivenessEvent{HubHeight: int64(u(3)), RollappId: str(4)})
		in := bytes.HasPrefix(k, p)
		if in != (u(1) == u(3)) {
			r.Violate("C19/prefix_scan/liveness-events-by-height", fmt.Sprintf("scan for height %d returned=%v event of height %d", u(1), in, u(3)), line)
		}
		return strconv.FormatBool(in), true
	case "xslord":
		a := rollapptypes.LivenessEventQueueKey(rollapptypes.LivenessEvent{HubHeight: int64(u(1)), RollappId: str(2)})
		b := rollapptypes.LivenessEventQueueKey(rollapptypes.LivenessEvent{HubHeight: int64(u(3)), RollappId: str(4)})
		c := bytes.Compare(a, b)
		if (u(1) < u(3) && c >= 0) || (u(1) > u(3) && c <= 0) {
			r.Violate("C19/key_order/liveness-events-not-in-height-order", fmt.Sprintf("heights %d %d compare %d", u(1), u(3), c), line)
		}
		return strconv.Itoa(c), true
	case "xsdo":
		p := eibctypes.PendingDemandOrderKeyPrefix
		if c19Status[u(1)] == commontypes.Status_FINALIZED {
			p = eibctypes.FinalizedDemandOrderKeyPrefix
		}
		k, err := eibctypes.GetDemandOrderKey(c19Status[u(3)], str(4))
		if err != nil {
			return "err", true
		}
		in := bytes.HasPrefix(k, p)
		if in != (f[1] == f[3]) {
			r.Violate("C19/prefix_scan/demand-orders-by-status", fmt.Sprintf("status %s returned=%v order of status %s", f[1], in, f[3]), line)
		}
		return strconv.FormatBool(in), true
	case "xspk":
		k := pkey(3)
		in := bytes.HasPrefix(k, commontypes.RollappPacketByStatusPrefix(c19Status[u(1)]))
		da := bytes.HasPrefix(k, datypes.PendingPacketsByAddressKeyPrefix)
		if in != (f[1] == f[3]) {
			r.Violate("C19/prefix_scan/packets-by-status", fmt.Sprintf("status %s returned=%v packet of status %s", f[1], in, f[3]), line)
		}
		if da {
			r.Violate("C19/prefix_scan/packet-key-inside-pending-by-address-set", Hex(k), line)
		}
		return fmt.Sprintf("%v %v", in, da), true
	case "xspord":
		// xspord st r h t c s | h' t' c' s' : two packets of one status and rollapp
		a := pkey(1)
		b := commontypes.RollappPacketKey(c19Status[u(1)], str(2), u(8), c19Types[u(9)], str(10), u(11))
		c := bytes.Compare(a, b)
		if (u(3) < u(8) && c >= 0) || (u(3) > u(8) && c <= 0) {
			r.Violate("C19/key_order/packets-not-in-proof-height-order", fmt.Sprintf("heights %d %d compare %d", u(3), u(8), c), line)
		}
		return strconv.Itoa(c), true
	case "xssi":
		k := rollapptypes.StateInfoKey(rollapptypes.StateInfoIndex{RollappId: str(3), Index: u(4)})
		in := bytes.HasPrefix(k, append([]byte(str(1)), '/'))
		if !strings.Contains(str(1), "/") && !strings.Contains(str(3), "/") && in != (f[1] == f[3]) {
			r.Violate("C19/prefix_scan/state-infos-by-rollapp", fmt.Sprintf("%q vs %q", str(1), str(3)), line)
		}
		return strconv.FormatBool(in), true
	case "xssiord":
		a := rollapptypes.StateInfoKey(rollapptypes.StateInfoIndex{RollappId: str(1), Index: u(2)})
		b := rollapptypes.StateInfoKey(rollapptypes.StateInfoIndex{RollappId: str(1), Index: u(3)})
		c := bytes.Compare(a, b)
		if (u(2) < u(3)) != (c < 0) || (u(2) == u(3)) != (c == 0) {
			r.Violate("C19/key_order/state-infos-not-in-index-order", fmt.Sprintf("%d %d compare %d", u(2), u(3), c), line)
		}
		return strconv.Itoa(c), true
	case "doid":
		// doid <packet key> <sha256 of it, computed by the generator>: the real id builder
		k := str(1)
		id := eibctypes.BuildDemandIDFromPacketKey(k)
		if prev, ok := c19DemandIds[id]; ok && prev != k {
			r.Violate("C19/demand_order_id/collision", fmt.Sprintf("id %s names packet keys %x and %x", id, prev, k), line)
		}
		c19DemandIds[id] = k
		if len(id) != 64 {
			r.Violate("C19/demand_order_id/length", id, line)
		}
		return Hex([]byte(id)), true
	case "b64nc":
		text := str(1)
		dec, err := commontypes.DecodePacketKey(text)
		vb := (&datypes.MsgFinalizePacketByPacketKey{Sender: "dym1g8sf7w4cz5gtupa6y62h3q6a4gjv37pgefnpt5", PacketKey: text}).ValidateBasic() == nil
		if err != nil {
			return fmt.Sprintf("err vb=%v", vb), true
		}
		same := bytes.Equal(dec, unhex(f[2]))
		if same && text != commontypes.EncodePacketKey(dec) {
			r.Hit("b64-noncanonical-text-names-the-same-key")
			if vb {
				r.Hit("b64-noncanonical-text-accepted-by-MsgFinalizePacketByPacketKey.ValidateBasic")
			}
		}
		return fmt.Sprintf("ok %s %v vb=%v", Hex(dec), same, vb), true
	case "xsapp":
		k := rollapptypes.AppKey(rollapptypes.App{RollappId: str(3), Id: u(4)})
		in := bytes.HasPrefix(k, rollapptypes.RollappAppKeyPrefix(str(1)))
		if !strings.Contains(str(1), "/") && !strings.Contains(str(3), "/") && in != (f[1] == f[3]) {
			r.Violate("C19/prefix_scan/apps-by-rollapp", fmt.Sprintf("%q vs %q", str(1), str(3)), line)
		}
		return strconv.FormatBool(in), true
	}
	return "", false
}

// c19IdCandidate: valid rollapp ids and near misses of the grammar
func c19IdCandidate(g *Rng) string {
	id := c19RollappID(g)
	if g.Chance(50) {
		return id
	}
	b := []byte(id)
	switch g.Intn(10) {
	case 0:
		b[g.Intn(len(b))] = "/_-0A9 .\x00"[g.Intn(9)]
	case 1:
		b = append(b, "0123456789-_/"[g.Intn(13)])
	case 2:
		b = b[:g.Intn(len(b))]
	case 3:
		return strings.Replace(id, "_", "_0", 1)
	case 4:
		return strings.Replace(id, "-", "-0", 1)
	case 5:
		return strings.Split(id, "-")[0] + "-" + []string{"18446744073709551615", "18446744073709551616", "99999999999999999999", "0x10", "1e3"}[g.Intn(5)]
	case 6:
		return strings.Split(id, "_")[0] + "_" + "340282366920938463463374607431768211456-1"
	case 7:
		return strings.Repeat("a", 40+g.Intn(12)) + "_1-1"
	case 8:
		return "_" + id
	case 9:
		return strings.ToUpper(id[:1]) + id[1:]
	}
	return string(b)
}

// c19GenX emits one op of the second extension.
func c19GenX(r *Run, g *Rng, emit func(kind, line string)) {
	ra, rb := c19RollappID(g), c19RollappID(g)
	if g.Chance(40) {
		rb = ra
	}
	if g.Chance(20) {
		rb = ra + strconv.Itoa(g.Intn(10)) // same name, id extends the other
	}
	h, n := g.BoundaryU64(), g.BoundaryU64()
	if g.Chance(50) {
		n = h + uint64(g.Intn(3)) - 1
	}
	hx := func(s string) string { return Hex([]byte(s)) }
	ch := func() string { return hx(fmt.Sprintf("channel-%d", g.Intn(300))) }
	switch g.Intn(14) {
	case 12:
		k := commontypes.RollappPacketKey(c19Status[g.Intn(2)], ra, h, c19Types[g.Intn(4)], fmt.Sprintf("channel-%d", g.Intn(300)), n)
		if g.Chance(30) {
			k = c19Bytes(g)
		}
		sum := sha256.Sum256(k)
		emit("doid", fmt.Sprintf("doid %s %s", Hex(k), Hex(sum[:])))
	case 13:
		k := c19Bytes(g)
		if g.Chance(50) {
			k = commontypes.RollappPacketKey(c19Status[g.Intn(2)], ra, h, c19Types[g.Intn(4)], "channel-0", n)
		}
		t := []byte(commontypes.EncodePacketKey(k))
		switch g.Intn(5) {
		case 0: // unused trailing bits of the last sextet set
			for i := len(t) - 1; i >= 0; i-- {
				if t[i] != '=' {
					const al = "ABCDEFGHIJKLMNOPQRSTUVWXYZabcdefghijklmnopqrstuvwxyz0123456789+/"
					if i < len(t)-1 {
						t[i] = al[(strings.IndexByte(al, t[i])|1)%64]
					}
					break
				}
			}
		case 1:
			t = append(t, '\n')
		case 2:
			if len(t) > 2 {
				i := g.Intn(len(t))
				t = append(t[:i:i], append([]byte{'\r', '\n'}, t[i:]...)...)
			}
		case 3:
			t = bytes.TrimRight(t, "=")
		}
		emit("b64nc", fmt.Sprintf("b64nc %s %s", Hex(t), Hex(k)))
	case 0, 1:
		emit("rvalid", "rvalid "+hx(c19IdCandidate(g)))
	case 2:
		emit("rkeys", fmt.Sprintf("rkeys %s %d", hx(ra), n))
	case 3:
		name := strings.Split(ra, "_")[0]
		if g.Chance(30) {
			name = name[:1+g.Intn(len(name))]
		}
		emit("xsname", fmt.Sprintf("xsname %s %s", hx(name), hx(rb)))
	case 4:
		emit("xsstat", fmt.Sprintf("xsstat %s %d | %s %s %d", hx(ra), g.Intn(2), hx(rb), Hex(c19Bytes(g)), g.Intn(2)))
	case 5:
		emit("xsliv", fmt.Sprintf("xsliv %d | %d %s", h>>1, n>>1, hx(ra)))
	case 6:
		emit("xslord", fmt.Sprintf("xslord %d %s %d %s", h>>1, hx(ra), n>>1, hx(rb)))
	case 7:
		emit("xsdo", fmt.Sprintf("xsdo %d | %d %s", g.Intn(2), g.Intn(2), Hex(c19Bytes(g))))
	case 8:
		emit("xspk", fmt.Sprintf("xspk %d | %d %s %d %d %s %d", g.Intn(2), g.Intn(2), hx(ra), h, g.Intn(4), ch(), g.BoundaryU64()))
	case 9:
		emit("xspord", fmt.Sprintf("xspord %d %s %d %d %s %d | %d %d %s %d", g.Intn(2), hx(ra), h, g.Intn(4), ch(), g.BoundaryU64(), n, g.Intn(4), ch(), g.BoundaryU64()))
	case 10:
		emit("xssi", fmt.Sprintf("xssi %s | %s %d", hx(ra), hx(rb), n))
		emit("xssiord", fmt.Sprintf("xssiord %s %d %d", hx(ra), h, n))
	case 11:
		emit("xsapp", fmt.Sprintf("xsapp %s | %s %d", hx(ra), hx(rb), n))
	}
}
