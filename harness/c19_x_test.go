package harness

// C19, second extension: '/'-separated families, x/rollapp store keys, demand-order ids.

func c19ExecX(r *Run, line string, f []string) (string, bool) {
	return "", false
}

func c19GenX(r *Run, g *Rng, emit func(kind, line string)) {
	c19GenColl(r, g, emit)
}
