package harness

// C09 — client messages inside an x/group proposal that is only STORED at submission (Exec unspecified) and executed
// later, by a vote with Exec = TRY, through the message router alone (never through the ante handler).  The nested
// message filter must refuse the SUBMITTING transaction whatever the proposal's Exec field says; if it does not, the
// stored ibc MsgUpdateClient / MsgSubmitMisbehaviour reaches the canonical client past both the filter and the
// light-client decorator.  Everything here goes through the production ante handler on real signed transactions.

import (
	"fmt"
	"os"
	"time"

	sdk "github.com/cosmos/cosmos-sdk/types"
	"github.com/cosmos/cosmos-sdk/x/group"
)

// ensureGroup: a group whose only member is the relayer (weight 1) with a threshold-1 decision policy and no minimum
// execution period; returns the policy account (the signer of the proposal's messages)
func (h *c09H) ensureGroup() string {
	if h.groupPolicy != "" {
		return h.groupPolicy
	}
	rel := h.e.relayer.String()
	msg, err := group.NewMsgCreateGroupWithPolicy(rel, []group.MemberRequest{{Address: rel, Weight: "1"}}, "", "", false,
		group.NewThresholdDecisionPolicy("1", time.Hour, 0))
	if err != nil {
		h.t.Fatal(err)
	}
	res, err := h.e.f.Deliver(msg)
	if err != nil {
		h.t.Fatal(err)
	}
	for _, r := range res.MsgResponses {
		var out group.MsgCreateGroupWithPolicyResponse
		if err := h.e.f.App.AppCodec().Unmarshal(r.Value, &out); err == nil && out.GroupPolicyAddress != "" {
			h.groupPolicy = out.GroupPolicyAddress
		}
	}
	if h.groupPolicy == "" {
		h.t.Fatal("no group policy address")
	}
	return h.groupPolicy
}

// runGroup submits `inner` (signed for by the policy account) as a stored proposal and, if the submission gets through,
// votes YES with Exec = TRY so that the stored message executes
func (h *c09H) runGroup(inner sdk.Msg) (string, string) {
	policy := h.ensureGroup()
	prop, err := group.NewMsgSubmitProposal(policy, []string{h.e.relayer.String()}, []sdk.Msg{inner}, "", group.Exec_EXEC_UNSPECIFIED, "t", "s")
	if err != nil {
		h.t.Fatal(err)
	}
	ae, me := h.e.runTx(prop)
	if os.Getenv("C09_DEBUG") != "" {
		fmt.Fprintln(os.Stderr, "DEBUG group submit ante:", ae, "msg:", me)
	}
	if ae != nil {
		if c := c09LcClass(ae); c != "" {
			return "ante:" + c, "0"
		}
		return "ante:other", "0"
	}
	if me != nil {
		return "lc:group-submit", "0"
	}
	h.nProposals++
	vote := &group.MsgVote{ProposalId: h.nProposals, Voter: h.e.relayer.String(), Option: group.VOTE_OPTION_YES, Exec: group.Exec_EXEC_TRY}
	ae, me = h.e.runTx(vote)
	if os.Getenv("C09_DEBUG") != "" {
		fmt.Fprintln(os.Stderr, "DEBUG group vote ante:", ae, "msg:", me)
	}
	if ae != nil || me != nil {
		return "lc:group-vote", "0"
	}
	return "ok", "1" // the stored message ran through the message router (or failed there: the state says which)
}
