package harness

// TestCore — correspondence traces and model-independent monitors for the rollapp + sequencer core
// (properties C01 C02 C03 C06 C07 C08).  CORE_FOCUS=<Cxx> shifts the generator's weights.

import (
	"crypto/sha256"
	"fmt"
	"os"
	"path/filepath"
	"runtime"
	"sort"
	"strings"
	"testing"

	"cosmossdk.io/math"
)

type coreMon struct {
	h         *coreH
	r         *Run
	trace     []string
	prev      *coreSnap
	everNotic map[int]bool // actor has started a notice period
	removed   map[int]bool // actor was removed as proposer (kick / fork)
	reset     map[int]int64
	outcomes  []string
	spChanged bool // w-corem: an x/sequencer MsgUpdateParams was accepted earlier in this trace
}

func (m *coreMon) violate(sig, detail string) {
	m.r.Violate(sig, detail, append([]string(nil), m.trace...)...)
}

// check evaluates every monitor on (prev --op/res--> cur).
func (m *coreMon) check(op string, res string, cur *coreSnap) {
	prev := m.prev
	f := strings.Fields(op)
	kv := parseKV(f)
	p := m.h.p
	totTokens := math.ZeroInt()
	for _, q := range cur.Seqs {
		totTokens = totTokens.Add(q.Tokens)
	}
	// ---- C03 pending packets across forks (model-independent): a fork shows as a new revision
	if prev != nil {
		forkStart := map[int]uint64{}
		for ri, r := range cur.Ras {
			if ri < len(prev.Ras) && r.Exists && prev.Ras[ri].Exists && len(r.Revs) > len(prev.Ras[ri].Revs) {
				forkStart[ri] = r.Revs[len(r.Revs)-1][1]
			}
		}
		curSet := map[corePk]bool{}
		for _, pk := range cur.Pk {
			curSet[pk] = true
			if st, ok := forkStart[pk.Ra]; ok && pk.Ph >= st {
				m.violate("C03/packets/pending-packet-above-fork-height-remains", fmt.Sprintf("r%d forked, new revision starts at %d, but a pending %s packet with proof height %d (seq %d) is still stored", pk.Ra, st, pk.T, pk.Ph, pk.Seq))
			}
		}
		if f[0] != "packet" && f[0] != "reset" {
			for _, pk := range prev.Pk {
				st, forked := forkStart[pk.Ra]
				if !curSet[pk] && !(forked && pk.Ph >= st) {
					m.violate("C03/packets/packet-outside-fork-range-changed", fmt.Sprintf("pending %s packet r%d ph=%d seq=%d disappeared in `%s`", pk.T, pk.Ra, pk.Ph, pk.Seq, f[0]))
				}
			}
			if len(forkStart) > 0 {
				m.r.Hit("fork-with-pending-packets/" + b2s(len(prev.Pk) > 0))
			}
		}
	}
	// ---- C07 rotation: the begin-blocker serves EVERY elapsed notice (chooses the successor and removes
	// the queue entry); after a block has begun no queued notice time lies at or before the block time
	if f[0] == "begin" && res == "ok" {
		for _, e := range cur.Nq {
			if e[0] <= cur.T {
				m.violate("C07/rotation/elapsed-notice-left-in-queue", fmt.Sprintf("a%d's notice elapsed at %d, block time %d, entry still queued after BeginBlock", e[1], e[0], cur.T))
			}
		}
	}
	// ---- C06 custody
	if !totTokens.Equal(cur.Mod) {
		m.violate("C06/custody/module-balance-ne-sum-of-bonds", fmt.Sprintf("module %s, sum of tokens %s", cur.Mod, totTokens))
	}
	for ri, r := range cur.Ras {
		if !r.Exists {
			continue
		}
		// ---- C01 chain
		if uint64(len(r.States)) != r.Latest {
			m.violate("C01/chain/latest-index", fmt.Sprintf("r%d latest index %d but %d states readable", ri, r.Latest, len(r.States)))
		}
		for i, st := range r.States {
			if st.Num == 0 || st.NBds != st.Num || st.LastBdH != st.Start+st.Num-1 {
				m.violate("C01/chain/state-shape", fmt.Sprintf("r%d state %d: start %d num %d bds %d lastbd %d", ri, i+1, st.Start, st.Num, st.NBds, st.LastBdH))
			}
			if i > 0 && st.Start != r.States[i-1].Start+r.States[i-1].Num {
				m.violate("C01/chain/gap-or-overlap", fmt.Sprintf("r%d state %d starts at %d, previous ends at %d", ri, i+1, st.Start, r.States[i-1].Start+r.States[i-1].Num-1))
			}
			// ---- C02 prefix
			if st.Final != (uint64(i+1) <= r.LastFin) {
				m.violate("C02/prefix/finalized-not-a-prefix", fmt.Sprintf("r%d state %d final=%v latest finalized %d", ri, i+1, st.Final, r.LastFin))
			}
		}
		// by-height lookup
		for _, x := range r.Probes {
			want := uint64(0)
			for i, st := range r.States {
				if st.Start <= x && x <= st.Start+st.Num-1 {
					want = uint64(i + 1)
				}
			}
			if got := r.ByHeight[x]; got != want {
				m.violate("C01/lookup/by-height", fmt.Sprintf("r%d height %d -> index %d, container is %d", ri, x, got, want))
			}
		}
		// ---- C02 queue integrity: flattened queue of the rollapp = lastFin+1 .. latest
		var flat []string
		for _, q := range cur.Queue {
			parts := strings.SplitN(q, ":", 3)
			if parts[1] == fmt.Sprintf("r%d", ri) {
				flat = append(flat, strings.Split(parts[2], ",")...)
			}
		}
		var want []string
		for i := r.LastFin + 1; i <= r.Latest; i++ {
			want = append(want, fmt.Sprint(i))
		}
		if strings.Join(flat, ",") != strings.Join(want, ",") {
			m.violate("C02/queue/not-pending-suffix", fmt.Sprintf("r%d queue %v, pending indices %v", ri, flat, want))
		}
		// ---- C07 roles
		if r.Prop >= 0 {
			q, ok := cur.Seqs[r.Prop]
			if !ok || !q.Bonded || q.Ra != ri {
				m.violate("C07/roles/proposer-not-bonded-sequencer-of-rollapp", fmt.Sprintf("r%d proposer a%d", ri, r.Prop))
			}
		}
		if r.Succ >= 0 {
			q, ok := cur.Seqs[r.Succ]
			if !ok || !q.Bonded || q.Ra != ri {
				m.violate("C07/roles/successor-not-bonded-sequencer-of-rollapp", fmt.Sprintf("r%d successor a%d", ri, r.Succ))
			}
			if r.Succ == r.Prop {
				m.violate("C07/roles/proposer-equals-successor", fmt.Sprintf("r%d a%d", ri, r.Prop))
			}
		}
		// --- w-coreb: C07 observation branch (a Hit, NOT a violation: the property does not forbid it) ---
		// a real (non-sentinel) proposer whose bond is zero — reachable because PunishSequencer / the
		// liveness slash never unbond and the choice prefers any bonded opted-in sequencer to the sentinel
		// (Props/C07X zero_bond_proposer_possible / _by_liveness / _by_foreign_fraud)
		if r.Prop >= 0 {
			if q, ok := cur.Seqs[r.Prop]; ok && q.Tokens.IsZero() {
				m.r.Hit("C07/roles/proposer-with-zero-bond")
				if prev != nil && ri < len(prev.Ras) && prev.Ras[ri].Prop != r.Prop {
					m.r.Hit("C07/roles/proposer-with-zero-bond/chosen-with-zero-bond-by-" + f[0])
					if f[0] == "punish" || f[0] == "xferowner" || f[0] == "set_seq_params" { // w-corem: these never fill a proposer slot
						m.violate("C07/roles/proposer-chosen-by-op-that-changes-no-role", fmt.Sprintf("r%d a%d -> a%d by %s", ri, prev.Ras[ri].Prop, r.Prop, op))
					}
				} else if prev != nil {
					if pq, ok := prev.Seqs[r.Prop]; ok && !pq.Tokens.IsZero() {
						m.r.Hit("C07/roles/proposer-with-zero-bond/sitting-proposer-emptied-by-" + f[0])
						// --- w-corem: the op kinds of agent-corea.  `punish` (the standalone proposal) is a
						// fourth legitimate route (Props/C07X zero_bond_proposer_by_punish_proposal); a liveness
						// slash under x/sequencer parameters changed in mid-history is recorded separately
						// (multiplier raised to 1 / minimum raised above the bond: the parameters IN FORCE
						// count); an ownership transfer or a parameter update itself moves no bond at all
						switch f[0] {
						case "end":
							if m.spChanged {
								m.r.Hit("C07/roles/proposer-with-zero-bond/sitting-proposer-emptied-by-end/after-seq-params-update")
							}
						case "xferowner", "set_seq_params":
							m.violate("C07/roles/sitting-proposer-bond-emptied-by-op-that-moves-no-bond", fmt.Sprintf("r%d a%d %s -> 0 by %s", ri, r.Prop, pq.Tokens, op))
						}
						// --- w-corem: end
					}
				}
			}
		}
		// --- w-coreb: end ---
		// ---- C08 events
		n := 0
		for _, e := range cur.Lev {
			if int(e[1]) == ri {
				n++
				if e[0] != r.EvH {
					m.violate("C08/events/queue-differs-from-rollapp-field", fmt.Sprintf("r%d event %d field %d", ri, e[0], r.EvH))
				}
			}
		}
		if n > 1 {
			m.violate("C08/events/more-than-one", fmt.Sprintf("r%d has %d events", ri, n))
		}
		if f[0] == "end" && n == 1 && r.EvH <= cur.H {
			m.violate("C08/events/not-in-future", fmt.Sprintf("r%d event at %d, hub height %d", ri, r.EvH, cur.H))
		}
	}
	if prev == nil {
		m.prev = cur
		return
	}
	// ---- C18: genesis export / import
	if f[0] == "reimport" {
		if res != "ok" {
			m.violate("C18/import/exported-genesis-rejected", "InitChainer failed on the exported state: "+trunc200(m.h.lastImport))
		} else {
			if a, b := prev.renderFull("x"), cur.renderFull("x"); a != b {
				m.violate("C18/queries/core-observation-differs", diffFields(a, b))
			}
			if li := m.h.lastImport; li != "" {
				sig := "C18/reexport/genesis-differs"
				if strings.HasPrefix(li, "reexport ") {
					sig = "C18/reexport/" + strings.SplitN(strings.TrimPrefix(li, "reexport "), ".", 2)[0] + "-genesis-differs"
				} else if strings.HasPrefix(li, "invariant") {
					sig = "C18/invariants/broken-after-import"
				} else if strings.HasPrefix(li, "supply") {
					sig = "C18/bank/supply-differs"
				}
				m.violate(sig, trunc200(li))
			}
		}
		m.prev = cur
		return
	}
	// ---- rejected operation: nothing may change
	if res != "ok" && f[0] != "begin" && f[0] != "end" {
		if prev.renderFull("x") != cur.renderFull("x") {
			m.violate("C01/reject/state-changed-by-rejected-"+f[0], "observation differs after a rejected op")
		}
		for i := range cur.MBal {
			if i < len(prev.MBal) && !cur.MBal[i].Equal(prev.MBal[i]) {
				m.violate("C06/reject/blocked-account-balance-changed-by-rejected-"+f[0], fmt.Sprintf("m%d %s -> %s", i, prev.MBal[i], cur.MBal[i]))
			}
		}
	}
	for ri, r := range cur.Ras {
		if !r.Exists || ri >= len(prev.Ras) || !prev.Ras[ri].Exists {
			continue
		}
		pr := prev.Ras[ri]
		named := len(f) > 1 && f[1] == fmt.Sprintf("r%d", ri)
		// ---- C02 frozen
		for i := 0; i < len(pr.States) && uint64(i+1) <= pr.LastFin; i++ {
			if i >= len(r.States) {
				m.violate("C02/frozen/finalized-state-removed", fmt.Sprintf("r%d state %d", ri, i+1))
				continue
			}
			a, b := pr.States[i], r.States[i]
			if a.Start != b.Start || a.Num != b.Num || a.Creator != b.Creator || a.NBds != b.NBds || !b.Final || a.LastBdH != b.LastBdH {
				m.violate("C02/frozen/finalized-state-changed", fmt.Sprintf("r%d state %d: %+v -> %+v", ri, i+1, a, b))
			}
		}
		if r.LastFin < pr.LastFin {
			m.violate("C02/frozen/latest-finalized-decreased", fmt.Sprintf("r%d %d -> %d", ri, pr.LastFin, r.LastFin))
		}
		// ---- C02 not early / only at end of block
		for i := pr.LastFin; i < r.LastFin && int(i) < len(r.States); i++ {
			st := r.States[i]
			if f[0] != "end" {
				m.violate("C02/timing/finalized-outside-end-block", fmt.Sprintf("r%d state %d finalized by %s", ri, i+1, f[0]))
			}
			if p.Dispute > uint64(cur.H) || uint64(cur.H)-p.Dispute < st.CH { // (overflow-safe: H < CH + dispute)
				m.violate("C02/timing/finalized-early", fmt.Sprintf("r%d state %d created %d finalized at %d, dispute %d", ri, i+1, st.CH, cur.H, p.Dispute))
			}
		}
		// ---- C02 completeness at end of block
		if f[0] == "end" && res == "ok" {
			minFail := uint64(0)
			if kv["fail"] != "-" {
				for _, x := range strings.Split(kv["fail"], ",") {
					pp := strings.Split(x, ":")
					if pp[0] == fmt.Sprintf("r%d", ri) {
						if ix := atou(pp[1]); minFail == 0 || ix < minFail {
							minFail = ix
						}
					}
				}
			}
			for i, st := range r.States {
				ix := uint64(i + 1)
				due := uint64(cur.H) >= p.Dispute && st.CH <= uint64(cur.H)-p.Dispute // (overflow-safe: CH + dispute <= H)
				if due && !st.Final && (minFail == 0 || ix < minFail) {
					m.violate("C02/complete/elapsed-state-not-finalized", fmt.Sprintf("r%d state %d created %d hub %d dispute %d fail=%s", ri, ix, st.CH, cur.H, p.Dispute, kv["fail"]))
				}
			}
		}
		// ---- C01 accepted update
		if f[0] == "update" && named && res == "ok" {
			by := int(atoi(strings.TrimPrefix(kv["by"], "a")))
			if pr.Prop != by {
				m.violate("C01/accept/sender-not-proposer", fmt.Sprintf("r%d proposer a%d sender a%d", ri, pr.Prop, by))
			}
			if len(pr.Revs) > 0 && pr.Revs[len(pr.Revs)-1][0] != atou(kv["rev"]) {
				m.violate("C01/accept/wrong-revision", fmt.Sprintf("r%d latest revision %d, update carries %s", ri, pr.Revs[len(pr.Revs)-1][0], kv["rev"]))
			}
			if n := len(pr.States); n > 0 && pr.States[n-1].Start+pr.States[n-1].Num != atou(kv["start"]) {
				m.violate("C01/accept/wrong-start", fmt.Sprintf("r%d expected %d got %s", ri, pr.States[n-1].Start+pr.States[n-1].Num, kv["start"]))
			}
			if kv["seqerr"] != "-" || kv["rooterr"] != "-" || kv["bdlen"] != kv["num"] || kv["num"] == "0" {
				m.violate("C01/accept/malformed-descriptors", op)
			}
			// the version the batch ends on (`drs=`: the last descriptor's) must not be marked obsolete; the
			// set is read from the rollapp keeper's store, not from the message-level check
			if v := uint32(atou(kv["drs"])); m.h.f.App.RollappKeeper.IsDRSVersionObsolete(m.h.f.Ctx, v) {
				m.violate("C01/accept/obsolete-drs-version", fmt.Sprintf("r%d accepted an update ending on DRS version %d, which is marked obsolete", ri, v))
			}
			if uint64(len(r.States)) != uint64(len(pr.States))+1 && kv["last"] != "1" {
				m.violate("C01/accept/not-appended", fmt.Sprintf("r%d %d -> %d states", ri, len(pr.States), len(r.States)))
			}
			if kv["last"] == "1" && pr.Succ < 0 && len(r.Revs) != len(pr.Revs)+1 {
				// a last update with no successor hands over to the sentinel = a hard fork to the latest height
				m.violate("C01/revision/rotation-to-sentinel-without-revision-bump", fmt.Sprintf("r%d revisions %v -> %v", ri, pr.Revs, r.Revs))
			}
			if kv["last"] == "1" {
				q := prev.Seqs[by]
				if q.Notice < 0 || q.Notice > prev.T {
					m.violate("C07/rotation/last-accepted-before-notice-elapsed", fmt.Sprintf("a%d notice %d now %d", by, q.Notice, prev.T))
				}
			}
		}
		// ---- fork effects (C03, core part): an op that bumped the revision
		if len(r.Revs) > len(pr.Revs) {
			nh := r.Revs[len(r.Revs)-1][1] // new revision start = h'+1
			// "a fork that names a wrong revision is refused": the revision a height belongs to is the
			// NEWEST revision that starts at or below it (a later, deeper fork re-started those heights)
			if f[0] == "fraud" && named && len(pr.Revs) > 0 {
				fh, want := atou(kv["h"]), uint64(0)
				for i := len(pr.Revs) - 1; i >= 0; i-- {
					if pr.Revs[i][1] <= fh {
						want = pr.Revs[i][0]
						break
					}
				}
				if atou(kv["rev"]) != want {
					m.violate("C03/refused/fork-accepted-with-wrong-revision", fmt.Sprintf("r%d: fraud proposal for height %d naming revision %s was accepted, that height belongs to revision %d (revisions %v)", ri, fh, kv["rev"], want, pr.Revs))
				}
			}
			if r.Revs[len(r.Revs)-1][0] != pr.Revs[len(pr.Revs)-1][0]+1 || len(r.Revs) != len(pr.Revs)+1 {
				m.violate("C03/revision/not-bumped-by-one", fmt.Sprintf("r%d %v -> %v", ri, pr.Revs, r.Revs))
			}
			if n := len(r.States); n > 0 && r.States[n-1].Start+r.States[n-1].Num != nh {
				m.violate("C03/states/latest-height-ne-fork-height", fmt.Sprintf("r%d latest height %d, new revision starts at %d", ri, r.States[n-1].Start+r.States[n-1].Num-1, nh))
			}
			for _, pq := range cur.SeqH {
				if q, ok := cur.Seqs[int(pq[0])]; ok && q.Ra == ri && pq[1] >= nh {
					m.violate("C03/liability/sequencer-height-above-fork-height-remains", fmt.Sprintf("r%d pair (a%d,%d) but fork kept heights < %d", ri, pq[0], pq[1], nh))
				}
			}
			// everything at or below the fork height unchanged
			for i := 0; i+1 < len(r.States) && i < len(pr.States); i++ {
				a, b := pr.States[i], r.States[i]
				if a.Start != b.Start || a.Num != b.Num || a.Creator != b.Creator || a.Final != b.Final || a.CH != b.CH {
					m.violate("C03/frame/state-below-fork-changed", fmt.Sprintf("r%d state %d", ri, i+1))
				}
			}
			for _, pq := range prev.SeqH {
				if q, ok := prev.Seqs[int(pq[0])]; ok && q.Ra == ri && pq[1] < nh {
					found := false
					for _, cq := range cur.SeqH {
						if cq == pq {
							found = true
						}
					}
					if !found {
						m.violate("C03/frame/sequencer-height-below-fork-removed", fmt.Sprintf("r%d pair (a%d,%d)", ri, pq[0], pq[1]))
					}
				}
			}
			if r.Prop >= 0 && r.Prop == pr.Prop {
				m.violate("C07/once/removed-proposer-rechosen-in-same-op", fmt.Sprintf("r%d a%d removed by the fork of `%s` and proposer again", ri, r.Prop, f[0]))
			}
		} else if !(f[0] == "update" && named && res == "ok") {
			// no fork, no update: the chain of states may only change by finalization
			if len(r.States) != len(pr.States) {
				m.violate("C01/frame/states-changed-without-update-or-fork", fmt.Sprintf("r%d by %s", ri, f[0]))
			}
		}
		// ---- other rollapps untouched by an op naming a different rollapp
		if !named && (f[0] == "update" || f[0] == "fraud" || f[0] == "bridge" || f[0] == "create_rollapp") {
			if fmt.Sprintf("%+v", pr.States) != fmt.Sprintf("%+v", r.States) || fmt.Sprintf("%v", pr.Revs) != fmt.Sprintf("%v", r.Revs) || pr.Prop != r.Prop {
				m.violate("C03/frame/other-rollapp-changed", fmt.Sprintf("r%d changed by %s", ri, op))
			}
		}
		// ---- C07 proposer change classification
		if r.Prop != pr.Prop {
			if pr.Prop >= 0 {
				m.removed[pr.Prop] = true
				forked := len(r.Revs) > len(pr.Revs)
				lastBy := f[0] == "update" && named && res == "ok" && kv["last"] == "1" && kv["by"] == coreActorName(pr.Prop)
				if !forked && !lastBy {
					m.violate("C07/change/proposer-changed-outside-protocol", fmt.Sprintf("r%d a%d -> %s by %s", ri, pr.Prop, coreActorName(r.Prop), op))
				}
				if lastBy && !forked && r.Prop != pr.Succ {
					m.violate("C07/change/handover-not-to-successor", fmt.Sprintf("r%d successor %s new proposer %s", ri, coreActorName(pr.Succ), coreActorName(r.Prop)))
				}
				if f[0] == "kick" && res == "ok" {
					kicker := int(atoi(strings.TrimPrefix(f[1], "a")))
					kq, ok := prev.Seqs[kicker]
					if !ok || !kq.Bonded || !kq.OptedIn || kq.Ra != ri || prev.Seqs[pr.Prop].Dishonor < p.Kick {
						m.violate("C07/change/kick-without-grounds", op)
					}
				}
			}
			if r.Prop >= 0 {
				// a slot is filled: the chosen one must be a maximal bonded opted-in sequencer
				// (when a handover happens the successor was chosen at notice expiry instead)
				if pr.Prop < 0 || f[0] == "kick" {
					best := math.NewInt(-1)
					for _, q := range cur.Seqs {
						if q.Ra == ri && q.Bonded && q.OptedIn && q.Tokens.GT(best) {
							best = q.Tokens
						}
					}
					cq := cur.Seqs[r.Prop]
					if !cq.Bonded || !cq.OptedIn || cq.Tokens.LT(best) {
						m.violate("C07/fill/not-highest-bonded-opted-in", fmt.Sprintf("r%d chose a%d with %s, best %s", ri, r.Prop, cq.Tokens, best))
					}
				}
				if m.everNotic[r.Prop] || m.removed[r.Prop] {
					m.violate("C07/once/former-proposer-chosen-again", fmt.Sprintf("r%d a%d (notice served %v, removed %v) by %s", ri, r.Prop, m.everNotic[r.Prop], m.removed[r.Prop], f[0]))
				}
			}
		}
		// successor chosen at notice expiry (begin block): maximal bonded opted-in
		if f[0] == "begin" && r.Succ != pr.Succ && r.Succ >= 0 {
			best := math.NewInt(-1)
			for _, q := range cur.Seqs {
				if q.Ra == ri && q.Bonded && q.OptedIn && q.Tokens.GT(best) {
					best = q.Tokens
				}
			}
			cq := cur.Seqs[r.Succ]
			if !cq.Bonded || !cq.OptedIn || cq.Tokens.LT(best) {
				m.violate("C07/fill/successor-not-highest-bonded-opted-in", fmt.Sprintf("r%d chose a%d", ri, r.Succ))
			}
			if m.everNotic[r.Succ] || m.removed[r.Succ] {
				m.violate("C07/once/former-proposer-chosen-as-successor", fmt.Sprintf("r%d a%d", ri, r.Succ))
			}
		}
		// ---- C08 schedule: independent clock
		if _, ok := m.reset[ri]; !ok {
			m.reset[ri] = -1
		}
		if (f[0] == "update" && named && res == "ok") || r.Prop != pr.Prop || len(r.Revs) > len(pr.Revs) {
			m.reset[ri] = cur.H
		}
		if f[0] == "end" && res == "ok" && pr.Prop >= 0 {
			b := m.reset[ri]
			expect := b >= 0 && uint64(cur.H-b) >= p.LsBlocks && (uint64(cur.H-b)-p.LsBlocks)%p.LsInterval == 0
			pq, cq := prev.Seqs[pr.Prop], cur.Seqs[pr.Prop]
			slashed := cq.Dishonor > pq.Dishonor || cq.Tokens.LT(pq.Tokens)
			tm := math.LegacyNewDecFromBigIntWithPrec(math.NewInt(p.MulRaw).BigInt(), 18).MulInt(pq.Tokens).TruncateInt()
			amt := math.MinInt(pq.Tokens, math.MaxInt(math.NewIntFromUint64(p.Abs), tm))
			if expect && !slashed && (p.DL > 0 || amt.IsPositive()) {
				m.violate("C08/schedule/idle-proposer-not-slashed", fmt.Sprintf("r%d a%d idle since %d, hub %d, N=%d I=%d", ri, pr.Prop, b, cur.H, p.LsBlocks, p.LsInterval))
			}
			if !expect && slashed {
				m.violate("C08/schedule/slashed-off-schedule", fmt.Sprintf("r%d a%d last reset %d, hub %d, N=%d I=%d", ri, pr.Prop, b, cur.H, p.LsBlocks, p.LsInterval))
			}
			if expect && slashed {
				if !pq.Tokens.Sub(cq.Tokens).Equal(amt) || cq.Dishonor != pq.Dishonor+p.DL {
					m.violate("C08/amount/wrong-slash-amount-or-dishonor", fmt.Sprintf("r%d a%d lost %s expected %s; dishonor %d -> %d", ri, pr.Prop, pq.Tokens.Sub(cq.Tokens), amt, pq.Dishonor, cq.Dishonor))
				}
			}
		}
		if f[0] == "end" && pr.Prop < 0 {
			for i, cq := range cur.Seqs {
				if pq, ok := prev.Seqs[i]; ok && cq.Ra == ri && cq.Tokens.LT(pq.Tokens) {
					m.violate("C08/schedule/slashed-without-proposer", fmt.Sprintf("r%d a%d", ri, i))
				}
			}
		}
		if f[0] == "update" && named && res == "ok" && pr.Prop >= 0 {
			pq, cq := prev.Seqs[pr.Prop], cur.Seqs[pr.Prop]
			want := pq.Dishonor - min(p.DSU, pq.Dishonor)
			if cq.Dishonor != want {
				m.violate("C08/honor/update-did-not-reduce-dishonor", fmt.Sprintf("a%d %d -> %d expected %d", pr.Prop, pq.Dishonor, cq.Dishonor, want))
			}
		}
	}
	// --- w-coreb: C03 frame when the punished sequencer belongs to another rollapp (core_c03x_test.go) ---
	m.checkForeignPunish(op, f, kv, res, prev, cur)
	// --- w-coreb: end ---
	// ---- C07 / C20: the x/sequencer parameters change only by a MsgUpdateParams from the governance authority,
	// only to valid values, and the message changes nothing else
	if cur.SP != prev.SP {
		switch {
		case !(f[0] == "set_seq_params" && res == "ok"):
			m.violate("C07/params/seq-params-changed-outside-update-params", fmt.Sprintf("%s -> %s by %s (res %s)", prev.SP, cur.SP, op, res))
		case kv["auth"] != "gov":
			m.violate("C07/params/seq-params-changed-without-governance-authority", op)
		}
	}
	if f[0] == "set_seq_params" && res == "ok" {
		if kv["notice"] == "0" || kv["kick"] == "0" {
			m.violate("C07/params/invalid-seq-params-accepted", op)
		}
		if want := fmt.Sprintf("%s,%s,%s,%s,%s,%s", kv["notice"], kv["kick"], kv["mul"], kv["abs"], kv["dsu"], kv["dl"]); cur.SP != want {
			m.violate("C07/params/stored-seq-params-differ-from-message", fmt.Sprintf("stored %s, message %s", cur.SP, want))
		}
		a, b := *prev, *cur
		a.SP, b.SP = "", ""
		if a.renderFull("x") != b.renderFull("x") {
			m.violate("C07/params/update-params-changed-more-than-the-params", diffFields(a.renderFull("x"), b.renderFull("x")))
		}
		m.r.Hit("set_seq_params/accepted")
		m.spChanged = true // w-corem
	}
	// ---- C11 / C20: rollapp owners (recipients of the rollapp gauges' payouts at epoch end): changed only
	// by a MsgTransferOwnership signed by the current owner, never to an address the bank refuses
	for ri, r := range cur.Ras {
		if !r.Exists {
			continue
		}
		if r.OwnerBlocked {
			m.violate("C11/owner/rollapp-owned-by-blocked-address", fmt.Sprintf("r%d owner %s after %s", ri, r.Owner, op))
		}
		if ri >= len(prev.Ras) || !prev.Ras[ri].Exists {
			continue
		}
		pr := prev.Ras[ri]
		named := len(f) > 1 && f[1] == fmt.Sprintf("r%d", ri)
		if r.Owner != pr.Owner {
			switch {
			case !(f[0] == "xferowner" && named && res == "ok"):
				m.violate("C11/owner/owner-changed-outside-transfer", fmt.Sprintf("r%d %s -> %s by %s (res %s)", ri, pr.Owner, r.Owner, op, res))
			case kv["by"] != pr.Owner:
				m.violate("C11/owner/transfer-accepted-from-non-owner", fmt.Sprintf("r%d owner %s, signed by %s", ri, pr.Owner, kv["by"]))
			case kv["to"] != r.Owner:
				m.violate("C11/owner/transfer-to-another-address", fmt.Sprintf("r%d new owner %s, message names %s", ri, r.Owner, kv["to"]))
			}
		} else if f[0] == "xferowner" && named && res == "ok" {
			m.violate("C11/owner/accepted-transfer-changed-nothing", op)
		}
		if f[0] == "xferowner" && res == "ok" {
			a, b := pr, r
			a.Owner, b.Owner = "", ""
			if fmt.Sprintf("%+v", a) != fmt.Sprintf("%+v", b) {
				m.violate("C11/owner/transfer-changed-more-than-the-owner", fmt.Sprintf("r%d by %s", ri, op))
			}
			if named {
				m.r.Hit("xferowner/accepted/to-" + kv["to"][:1])
			}
		}
	}
	if f[0] == "xferowner" && res == "ok" {
		if fmt.Sprint(cur.Seqs) != fmt.Sprint(prev.Seqs) || !cur.Mod.Equal(prev.Mod) || fmt.Sprint(cur.Bal) != fmt.Sprint(prev.Bal) {
			m.violate("C11/owner/transfer-changed-more-than-the-owner", "sequencers or balances changed by "+op)
		}
	}
	// ---- C07 / C20: the standalone PunishSequencerProposal changes no role, forks nothing, touches no
	// record field other than the bond, and is accepted from the governance authority only
	if f[0] == "punish" && res == "ok" {
		if kv["auth"] != "gov" {
			m.violate("C07/punish/accepted-without-governance-authority", op)
		}
		for ri, r := range cur.Ras {
			if !r.Exists || ri >= len(prev.Ras) || !prev.Ras[ri].Exists {
				continue
			}
			pr := prev.Ras[ri]
			if r.Prop != pr.Prop || r.Succ != pr.Succ {
				m.violate("C07/punish/role-changed-by-punish-proposal", fmt.Sprintf("r%d proposer %s -> %s successor %s -> %s by %s", ri, coreActorName(pr.Prop), coreActorName(r.Prop), coreActorName(pr.Succ), coreActorName(r.Succ), op))
			}
			if len(r.Revs) != len(pr.Revs) || r.EvH != pr.EvH || r.CdStart != pr.CdStart {
				m.violate("C07/punish/fork-or-clock-reset-by-punish-proposal", fmt.Sprintf("r%d by %s", ri, op))
			}
		}
		for i, cq := range cur.Seqs {
			pq, ok := prev.Seqs[i]
			if !ok || cq.Ra != pq.Ra || cq.Bonded != pq.Bonded || cq.OptedIn != pq.OptedIn || cq.Notice != pq.Notice || cq.Dishonor != pq.Dishonor ||
				(coreActorName(i) != f[1] && !cq.Tokens.Equal(pq.Tokens)) {
				m.violate("C07/punish/record-changed-beyond-the-punished-bond", fmt.Sprintf("a%d %+v -> %+v by %s", i, pq, cq, op))
			}
		}
		if len(cur.Seqs) != len(prev.Seqs) || fmt.Sprint(cur.Nq) != fmt.Sprint(prev.Nq) {
			m.violate("C07/punish/record-changed-beyond-the-punished-bond", "sequencer set or notice queue changed by "+op)
		}
		tgt := int(atoi(strings.TrimPrefix(f[1], "a")))
		if pq, ok := prev.Seqs[tgt]; ok {
			role := "non-proposer"
			switch {
			case prev.Ras[pq.Ra].Prop == tgt:
				role = "proposer"
			case prev.Ras[pq.Ra].Succ == tgt:
				role = "successor"
			case !pq.Bonded:
				role = "unbonded"
			}
			m.r.Hit("punish/accepted/" + role)
			if pq.Tokens.IsZero() {
				m.r.Hit("punish/accepted/zero-bond")
			}
		}
	}
	if f[0] == "end" && res == "ok" {
		for _, r := range prev.Ras {
			if r.Exists && r.Prop >= 0 && prev.Seqs[r.Prop].Tokens.IsZero() {
				m.r.Hit("end/zero-bond-proposer")
				if cq, pq := cur.Seqs[r.Prop], prev.Seqs[r.Prop]; cq.Dishonor > pq.Dishonor {
					m.r.Hit("end/zero-bond-proposer-dishonored")
				}
			}
		}
	}
	// ---- C06 bond decrease classification
	for i, cq := range cur.Seqs {
		pq, ok := prev.Seqs[i]
		if !ok {
			continue
		}
		if cq.Notice >= 0 {
			m.everNotic[i] = true
		}
		if cq.Tokens.LT(pq.Tokens) {
			d := pq.Tokens.Sub(cq.Tokens)
			own := (f[0] == "bond_dec" || f[0] == "unbond") && f[1] == coreActorName(i) && res == "ok"
			switch {
			case own:
				if !cur.Bal[i].Sub(prev.Bal[i]).Equal(d) || !cur.Supply.Equal(prev.Supply) {
					m.violate("C06/withdraw/not-refunded-to-own-address", fmt.Sprintf("a%d bond -%s balance +%s", i, d, cur.Bal[i].Sub(prev.Bal[i])))
				}
				pr := prev.Ras[pq.Ra]
				blocked := pr.Prop == i || pr.Succ == i
				for _, sh := range prev.SeqH {
					if int(sh[0]) == i {
						blocked = true
					}
				}
				// independent of the liability index: any not yet finalized state posted by this sequencer
				for _, st := range pr.States {
					if st.Creator == i && !st.Final {
						blocked = true
					}
				}
				if blocked {
					m.violate("C06/withdraw/allowed-while-blocked", fmt.Sprintf("a%d proposer=%v successor=%v", i, pr.Prop == i, pr.Succ == i))
				}
				if cq.Bonded && cq.Tokens.LT(math.NewIntFromUint64(m.h.p.MinBond)) {
					m.violate("C06/withdraw/bonded-below-min-bond", fmt.Sprintf("a%d tokens %s min %d", i, cq.Tokens, m.h.p.MinBond))
				}
			case f[0] == "end":
				if !prev.Supply.Sub(cur.Supply).Equal(d) && len(cur.Seqs) > 0 {
					// several slashes in one block: compare totals below
				}
			case res == "ok" && ((f[0] == "fraud" && kv["punish"] == coreActorName(i)) || (f[0] == "punish" && f[1] == coreActorName(i))):
				// a governance punishment: inside a fraud proposal, or the standalone PunishSequencerProposal
				burned := prev.Supply.Sub(cur.Supply)
				paid := math.ZeroInt()
				if rw := kv["rewardee"]; strings.HasPrefix(rw, "m") {
					// a blocked module account (m0 = index 900 of the model): its own bank balance
					if mi := int(atoi(rw[1:])); mi >= 0 && mi < len(cur.MBal) && mi < len(prev.MBal) {
						paid = cur.MBal[mi].Sub(prev.MBal[mi])
					}
				} else if rw != "-" {
					ri := int(atoi(strings.TrimPrefix(rw, "a")))
					if ri >= 0 && ri < len(cur.Bal) {
						paid = cur.Bal[ri].Sub(prev.Bal[ri])
					}
				}
				if !burned.Add(paid).Equal(d) || paid.GT(d.QuoRaw(2)) {
					m.violate("C06/punish/not-burned-or-over-rewarded", fmt.Sprintf("a%d lost %s burned %s rewardee got %s", i, d, burned, paid))
				}
				if f[0] == "punish" && !cq.Tokens.IsZero() {
					m.violate("C06/punish/punish-proposal-left-a-bond", fmt.Sprintf("a%d bond %s -> %s", i, pq.Tokens, cq.Tokens))
				}
			default:
				m.violate("C06/decrease/bond-decreased-by-unrelated-op", fmt.Sprintf("a%d -%s by %s (res %s)", i, d, op, res))
			}
		}
		if pq.Bonded != cq.Bonded && cq.Bonded {
			m.violate("C07/status/unbonded-sequencer-bonded-again", fmt.Sprintf("a%d by %s", i, op))
		}
	}
	if f[0] == "fraud" && res == "ok" && strings.HasPrefix(kv["rewardee"], "m") {
		m.r.Hit("fraud/blocked-rewardee-accepted") // reward share zero (bond < 2) on the unchanged code
	}
	if f[0] == "end" {
		lost := math.ZeroInt()
		for i, cq := range cur.Seqs {
			if pq, ok := prev.Seqs[i]; ok && cq.Tokens.LT(pq.Tokens) {
				lost = lost.Add(pq.Tokens.Sub(cq.Tokens))
			}
		}
		if !prev.Supply.Sub(cur.Supply).Equal(lost) {
			m.violate("C06/slash/liveness-slash-not-burned", fmt.Sprintf("bonds -%s supply -%s", lost, prev.Supply.Sub(cur.Supply)))
		}
	}
	m.prev = cur
}

// ---- generator ---------------------------------------------------------------------------------

func coreGenParams(g *Rng, focus string) coreParams {
	p := coreParams{
		Dispute:    []uint64{1, 2, 3, 5, 8, 12}[g.Intn(6)],
		LsBlocks:   []uint64{1, 2, 3, 5, 8}[g.Intn(5)],
		LsInterval: []uint64{1, 2, 3, 4}[g.Intn(4)],
		MulRaw:     []int64{0, 1, 10000000000000000, 333333333333333333, 500000000000000000, 1000000000000000000}[g.Intn(6)],
		Abs:        []uint64{0, 1, 7, 50, 1000}[g.Intn(5)],
		DSU:        []uint64{0, 1, 2}[g.Intn(3)],
		DL:         []uint64{0, 1, 3}[g.Intn(3)],
		Kick:       []uint64{1, 2, 4}[g.Intn(3)],
		NoticeNs:   []int64{1000000000, 5000000000, 12000000000}[g.Intn(3)],
		NActors:    8, NRollapps: 2 + g.Intn(2), MinBond: []uint64{10, 100}[g.Intn(2)],
	}
	if g.Chance(7) { // periods beyond int64: valid (validation only demands >= the minimum), nothing ever finalizes
		p.Dispute = []uint64{1 << 63, 1<<63 + 7, 1<<64 - 2, 1<<64 - 1}[g.Intn(4)]
	}
	if (focus == "C08" || focus == "C11") && g.Chance(50) {
		p.LsBlocks, p.LsInterval = uint64(1+g.Intn(3)), uint64(1+g.Intn(2))
	}
	return p
}

type coreGen struct {
	pkSeq int
	g     *Rng
	h     *coreH
	focus string
	r     *Run
	stuck *coreStuck // --- w-coreb: stuck-finalization generator branch (core_stuck_test.go) ---
}

func (c *coreGen) pickActor() int { return c.g.Intn(c.h.p.NActors) }

// next produces the next op line from the current real state.
func (c *coreGen) next(s *coreSnap, inBlock *bool, step int) string {
	g, p := c.g, c.h.p
	if !*inBlock && c.focus == "C18" && step > 8 && g.Chance(30) {
		c.r.Hit("reimport-at-block-boundary")
		return "reimport"
	}
	if !*inBlock {
		*inBlock = true
		dt := []int64{1000000000, 6000000000, 500000000, 13000000000}[g.Intn(4)]
		return fmt.Sprintf("begin dt=%d", dt)
	}
	// --- w-coreb: stuck finalization: observe the last outcome; fork around the stuck state ---
	c.stuckObserve(s)
	if l := c.stuckOp(s); l != "" {
		return l
	}
	// --- end w-coreb ---
	endP := 12
	if c.focus == "C08" || c.focus == "C02" || c.focus == "C11" {
		endP = 22
	}
	if g.Chance(endP) {
		*inBlock = false
		fail := "-"
		if g.Chance(map[string]int{"C02": 40, "C11": 40}[c.focus] + 10) {
			var fs []string
			for ri, r := range s.Ras {
				if r.Exists && r.Latest > r.LastFin && g.Chance(60) {
					ix := r.LastFin + 1 + uint64(g.Intn(int(r.Latest-r.LastFin)))
					fs = append(fs, fmt.Sprintf("r%d:%d", ri, ix))
					c.r.Hit("end-with-injected-failure")
				}
			}
			if len(fs) > 0 {
				fail = strings.Join(fs, ",")
			}
		}
		fail = c.stuckEnd(s, fail) // --- w-coreb: stuck finalization: same (rollapp, index) for k blocks ---
		return "end fail=" + fail
	}
	var existing []int
	for ri, r := range s.Ras {
		if r.Exists {
			existing = append(existing, ri)
		}
	}
	if len(existing) < p.NRollapps && (len(existing) == 0 || g.Chance(10)) {
		return fmt.Sprintf("create_rollapp r%d minbond=%d", len(existing), p.MinBond)
	}
	ri := existing[g.Intn(len(existing))]
	ra := s.Ras[ri]
	if n := len(ra.States); ra.Tph == 0 && n > 0 && g.Chance(45) {
		st := ra.States[g.Intn(n)]
		return fmt.Sprintf("bridge r%d h=%d", ri, st.Start+uint64(g.Intn(int(st.Num))))
	}
	var members []int
	for i, q := range s.Seqs {
		if q.Ra == ri {
			members = append(members, i)
		}
	}
	sort.Ints(members)
	var allSeqs []int
	for i := range s.Seqs {
		allSeqs = append(allSeqs, i)
	}
	sort.Ints(allSeqs)
	member := func() int {
		if len(members) > 0 && g.Chance(90) {
			return members[g.Intn(len(members))]
		}
		if len(allSeqs) > 0 && g.Chance(70) {
			return allSeqs[g.Intn(len(allSeqs))]
		}
		return c.pickActor()
	}
	// state-driven shortcuts that make the deep paths reachable
	if ra.Prop >= 0 {
		pq := s.Seqs[ra.Prop]
		if pq.Notice >= 0 && pq.Notice <= s.T && g.Chance(50) {
			return c.genUpdate(s, ri)
		}
		if pq.Dishonor >= p.Kick && len(members) > 1 && g.Chance(35) {
			c.r.Hit("kick-when-kickable")
			return fmt.Sprintf("kick a%d", members[g.Intn(len(members))])
		}
		if ra.Tph > 0 && len(members) > 1 && pq.Notice < 0 && g.Chance(6) {
			c.r.Hit("unbond-by-proposer")
			return fmt.Sprintf("unbond a%d", ra.Prop)
		}
	} else if len(members) > 0 && g.Chance(40) {
		return fmt.Sprintf("optin a%d 1", members[g.Intn(len(members))])
	}
	if pkP := map[string]int{"C03": 12}[c.focus] + 3; ra.Latest > 0 && g.Chance(pkP) {
		// a pending delayed packet around (and beyond) the latest posted height
		lh := uint64(0)
		if n := len(ra.States); n > 0 {
			lh = ra.States[n-1].Start + ra.States[n-1].Num - 1
		}
		ph := lh + uint64(g.Intn(9))
		if ph > 4 {
			ph -= 4
		}
		if ph == 0 {
			ph = 1
		}
		c.pkSeq++
		if ph > lh {
			c.r.Hit("packet-above-latest-height")
		}
		return fmt.Sprintf("packet r%d ph=%d seq=%d t=%s", ri, ph, c.pkSeq, []string{"R", "A", "T"}[g.Intn(3)])
	}
	if g.Chance(3 + map[string]int{"C11": 6, "C18": 2}[c.focus]) {
		return c.genXfer(s, ri)
	}
	if g.Chance(2 + map[string]int{"C07": 3, "C08": 4, "C11": 2, "C18": 1}[c.focus]) {
		return c.genSeqParams()
	}
	if len(allSeqs) > 0 && g.Chance(3+map[string]int{"C06": 4, "C07": 4, "C08": 3, "C11": 2}[c.focus]) {
		return c.genPunish(s, ri, members, allSeqs)
	}
	w := g.Intn(100)
	switch {
	case w < 8 || (len(members) < 3 && w < 45):
		a := c.pickActor()
		if _, ok := s.Seqs[a]; ok && g.Chance(85) {
			for i := 0; i < p.NActors; i++ {
				if _, ok := s.Seqs[(a+i)%p.NActors]; !ok {
					a = (a + i) % p.NActors
					break
				}
			}
		}
		bond := p.MinBond * uint64(1+g.Intn(3))
		if g.Chance(35) {
			bond = p.MinBond // equal bonds: tie-break by address
		}
		denom := "ok"
		switch g.Intn(14) {
		case 0:
			bond = p.MinBond - 1
			c.r.Hit("create_seq-below-min-bond")
		case 1:
			denom = "bad"
			c.r.Hit("create_seq-wrong-denom")
		}
		if s.Bal[a].LT(math.NewIntFromUint64(bond)) && g.Chance(92) {
			return fmt.Sprintf("fund a%d amt=%d", a, bond*4)
		}
		return fmt.Sprintf("create_seq a%d r%d bond=%d denom=%s", a, ri, bond, denom)
	case w < 55:
		if ra.Prop < 0 && g.Chance(85) {
			return fmt.Sprintf("optin a%d 1", member())
		}
		return c.genUpdate(s, ri)
	case w < 61:
		return fmt.Sprintf("unbond a%d", member())
	case w < 69:
		a := member()
		amt := uint64(1)
		if q, ok := s.Seqs[a]; ok {
			t := q.Tokens.Uint64()
			amt = []uint64{1, 1, 2, t, t + 1, t - 1, t - p.MinBond, t - p.MinBond + 1, t - p.MinBond - 1, 0}[g.Intn(10)]
			if int64(amt) < 0 {
				amt = 1
			}
		}
		return fmt.Sprintf("bond_dec a%d amt=%d", a, amt)
	case w < 74:
		a := member()
		amt := uint64([]int{0, 1, 5, 50}[g.Intn(4)])
		if s.Bal[a].LT(math.NewIntFromUint64(amt)) && g.Chance(85) {
			return fmt.Sprintf("fund a%d amt=%d", a, amt+10)
		}
		denom := "ok"
		if g.Chance(8) {
			denom = "bad"
		}
		return fmt.Sprintf("bond_inc a%d amt=%d denom=%s", a, amt, denom)
	case w < 79:
		return fmt.Sprintf("optin a%d %d", member(), g.Intn(2))
	case w < 83:
		a := member()
		if ra.Prop >= 0 && g.Chance(20) {
			a = ra.Prop
			c.r.Hit("kick-by-proposer-itself")
		}
		return fmt.Sprintf("kick a%d", a)
	case w < 93:
		if ra.Tph == 0 && g.Chance(88) {
			return c.genUpdate(s, ri)
		}
		return c.genFraud(s, ri, members)
	case w < 96:
		auth := "gov"
		if g.Chance(15) {
			auth = fmt.Sprintf("a%d", c.pickActor())
		}
		v := []string{"7", "8", "7,8", "1", "-"}[g.Intn(5)]
		return fmt.Sprintf("obsolete v=%s auth=%s", v, auth)
	default:
		return fmt.Sprintf("fund a%d amt=%d", c.pickActor(), 10+g.Intn(500))
	}
}

func (c *coreGen) genUpdate(s *coreSnap, ri int) string {
	g := c.g
	ra := s.Ras[ri]
	by := ra.Prop
	start, rev := uint64(1), uint64(0)
	if n := len(ra.States); n > 0 {
		start = ra.States[n-1].Start + ra.States[n-1].Num
	} else if g.Chance(20) {
		start = uint64(1 + g.Intn(5))
	}
	if len(ra.Revs) > 0 {
		rev = ra.Revs[len(ra.Revs)-1][0]
	}
	num := uint64(1 + g.Intn(4))
	bdlen := num
	last := 0
	seqerr, rooterr, ts, drs := "-", "-", "all", 1+g.Intn(2)
	drs0 := ""
	if n := len(ra.States); (n == 0 || !ra.States[n-1].LastHasTs) && g.Chance(25) {
		ts = "none"
	}
	if by >= 0 {
		if q := s.Seqs[by]; q.Notice >= 0 && q.Notice <= s.T && g.Chance(75) {
			last = 1
			c.r.Hit("update-last-after-notice")
		}
	}
	if g.Chance(28) {
		switch g.Intn(12) {
		case 0:
			start++
			c.r.Hit("update-start+1")
		case 1:
			if start > 1 {
				start--
			}
			c.r.Hit("update-start-1")
		case 2:
			by = c.pickActor()
			c.r.Hit("update-wrong-sender")
		case 3:
			rev++
			c.r.Hit("update-future-revision")
		case 4:
			if rev > 0 {
				rev--
				c.r.Hit("update-stale-revision")
			}
		case 5:
			num, bdlen = 0, 0
			c.r.Hit("update-zero-blocks")
		case 6:
			bdlen = num + 1
			c.r.Hit("update-bd-count-mismatch")
		case 7:
			seqerr = fmt.Sprint(g.Intn(int(num)))
			c.r.Hit("update-non-sequential")
		case 8:
			ts = fmt.Sprint(g.Intn(int(num)))
			c.r.Hit("update-missing-timestamp")
		case 9:
			// a batch may span a version change: only the LAST descriptor's version decides
			switch v := g.Intn(3); {
			case v == 1 && num > 1:
				drs = 7 + g.Intn(2)
				drs0 = fmt.Sprintf(" drs0=%d", 1+g.Intn(2))
				c.r.Hit("update-mixed-drs-last-maybe-obsolete")
			case v == 2 && num > 1:
				drs0 = fmt.Sprintf(" drs0=%d", 7+g.Intn(2))
				c.r.Hit("update-mixed-drs-earlier-maybe-obsolete")
			default:
				drs = 7 + g.Intn(2)
				c.r.Hit("update-maybe-obsolete-drs")
			}
		case 10:
			last = 1 - last
			c.r.Hit("update-last-flag-flipped")
		case 11:
			rooterr = fmt.Sprint(g.Intn(int(num)))
			c.r.Hit("update-bad-root")
		}
	}
	if by < 0 {
		by = c.pickActor()
	}
	return fmt.Sprintf("update r%d by=a%d start=%d num=%d bdlen=%d rev=%d last=%d seqerr=%s ts=%s drs=%d rooterr=%s%s", ri, by, start, num, bdlen, rev, last, seqerr, ts, drs, rooterr, drs0)
}

// genSeqParams: x/sequencer MsgUpdateParams — a fresh valid parameter set (the pools of coreGenParams), or
// one invalid field (notice period 0, kick threshold 0, multiplier above 1), or a signer without authority
func (c *coreGen) genSeqParams() string {
	g := c.g
	notice := []int64{1000000000, 5000000000, 12000000000}[g.Intn(3)]
	kick := []uint64{1, 2, 4}[g.Intn(3)]
	mul := []string{"0", "1", "10000000000000000", "333333333333333333", "500000000000000000", "1000000000000000000"}[g.Intn(6)]
	abs := []uint64{0, 1, 7, 50, 1000}[g.Intn(5)]
	dsu := []uint64{0, 1, 2}[g.Intn(3)]
	dl := []uint64{0, 1, 3}[g.Intn(3)]
	auth := "gov"
	switch x := g.Intn(100); {
	case x < 8:
		auth = fmt.Sprintf("a%d", c.pickActor())
		c.r.Hit("set_seq_params/wrong-authority")
	case x < 12:
		notice = 0
		c.r.Hit("set_seq_params/zero-notice-period")
	case x < 16:
		kick = 0
		c.r.Hit("set_seq_params/zero-kick-threshold")
	case x < 20:
		mul = "1000000000000000001"
		c.r.Hit("set_seq_params/multiplier-above-one")
	default:
		c.r.Hit("set_seq_params/valid")
	}
	return fmt.Sprintf("set_seq_params notice=%d kick=%d mul=%s abs=%d dsu=%d dl=%d auth=%s", notice, kick, mul, abs, dsu, dl, auth)
}

// genXfer: MsgTransferOwnership — signed by the current owner / the first owner (an old owner retrying
// after a transfer) / anybody; to an ordinary actor / a blocked module account (also spelled in upper
// case) / the current owner itself / the first owner / nobody
func (c *coreGen) genXfer(s *coreSnap, ri int) string {
	g := c.g
	ra := s.Ras[ri]
	by := ra.Owner
	switch x := g.Intn(100); {
	case x < 70:
		c.r.Hit("xferowner/by-owner")
	case x < 85:
		by = "o0"
		if ra.Owner != "o0" {
			c.r.Hit("xferowner/by-old-owner")
		}
	default:
		by = fmt.Sprintf("a%d", c.pickActor())
		c.r.Hit("xferowner/by-anybody")
	}
	to, uc := fmt.Sprintf("a%d", c.pickActor()), 0
	switch x := g.Intn(100); {
	case x < 50:
		c.r.Hit("xferowner/to-actor")
	case x < 64:
		to = "m0"
		c.r.Hit("xferowner/to-blocked")
	case x < 76:
		to, uc = "m0", 1
		c.r.Hit("xferowner/to-blocked-upper-case")
	case x < 86:
		to = ra.Owner
		c.r.Hit("xferowner/to-same-owner")
	case x < 94:
		to = "o0"
		c.r.Hit("xferowner/to-first-owner")
	default:
		to = fmt.Sprintf("a%d", c.h.p.NActors+1+g.Intn(2))
		c.r.Hit("xferowner/to-nobody")
	}
	rr := fmt.Sprintf("r%d", ri)
	if g.Chance(4) {
		rr = fmt.Sprintf("r%d", c.h.p.NRollapps+1)
		c.r.Hit("xferowner/unknown-rollapp")
	}
	return fmt.Sprintf("xferowner %s by=%s to=%s uc=%d", rr, by, to, uc)
}

// genPunish: the standalone governance PunishSequencerProposal — against the proposer / another member
// of the rollapp / a sequencer of another rollapp / an unbonded sequencer / an address that is no
// sequencer; rewardee none / an ordinary actor (possibly the punished one) / the blocked module account m0
func (c *coreGen) genPunish(s *coreSnap, ri int, members, allSeqs []int) string {
	g := c.g
	ra := s.Ras[ri]
	tgt := -1
	switch x := g.Intn(100); {
	case x < 35 && ra.Prop >= 0:
		tgt = ra.Prop
		c.r.Hit("punish/target-proposer")
	case x < 60 && len(members) > 0:
		tgt = members[g.Intn(len(members))]
		c.r.Hit("punish/target-member")
	case x < 75:
		var others []int
		for _, i := range allSeqs {
			if s.Seqs[i].Ra != ri {
				others = append(others, i)
			}
		}
		if len(others) > 0 {
			tgt = others[g.Intn(len(others))]
			c.r.Hit("punish/target-other-rollapp")
		}
	case x < 88:
		var unb []int
		for _, i := range allSeqs {
			if !s.Seqs[i].Bonded {
				unb = append(unb, i)
			}
		}
		if len(unb) > 0 {
			tgt = unb[g.Intn(len(unb))]
			c.r.Hit("punish/target-unbonded")
		}
	default:
		for k := 0; k < c.h.p.NActors+2; k++ {
			if _, ok := s.Seqs[k]; !ok {
				tgt = k
				break
			}
		}
		c.r.Hit("punish/target-not-a-sequencer")
	}
	if tgt < 0 {
		tgt = allSeqs[g.Intn(len(allSeqs))]
	}
	rewardee := "-"
	switch x := g.Intn(100); {
	case x < 25:
		c.r.Hit("punish/rewardee-none")
	case x < 80:
		rewardee = fmt.Sprintf("a%d", c.pickActor())
		c.r.Hit("punish/rewardee-ordinary")
	default:
		rewardee = "m0"
		c.r.Hit("punish/rewardee-blocked")
	}
	auth := "gov"
	if g.Chance(8) {
		auth = fmt.Sprintf("a%d", c.pickActor())
		c.r.Hit("punish/wrong-authority")
	}
	return fmt.Sprintf("punish a%d rewardee=%s auth=%s", tgt, rewardee, auth)
}

func (c *coreGen) genFraud(s *coreSnap, ri int, members []int) string {
	g := c.g
	ra := s.Ras[ri]
	h, rev := uint64(1), uint64(0)
	if n := len(ra.States); n > 0 {
		// prefer a pending state (forks of finalized heights are refused)
		st := ra.States[g.Intn(n)]
		if int(ra.LastFin) < n && g.Chance(80) {
			st = ra.States[int(ra.LastFin)+g.Intn(n-int(ra.LastFin))]
		}
		switch g.Intn(7) {
		case 0:
			h = st.Start + 1
			c.r.Hit("fork-keeps-first-height")
		case 1:
			h = st.Start
			c.r.Hit("fork-on-first-height")
		case 2:
			h = st.Start + st.Num
			c.r.Hit("fork-on-last-height")
		case 3:
			h = ra.States[n-1].Start + ra.States[n-1].Num + uint64(1+g.Intn(3))
			c.r.Hit("fork-beyond-latest")
			// with pending packets above the latest height: request a height that covers some of them
			for _, pk := range s.Pk {
				if pk.Ra == ri && pk.Ph >= ra.States[n-1].Start+ra.States[n-1].Num && g.Chance(60) {
					h = pk.Ph + uint64(1+g.Intn(2))
					c.r.Hit("fork-beyond-latest-covering-a-pending-packet")
					break
				}
			}
		case 4, 5:
			h = st.Start + uint64(g.Intn(int(st.Num)+1))
			c.r.Hit("fork-inside-state")
		case 6:
			if g.Chance(50) {
				h = uint64(g.Intn(3))
				c.r.Hit("fork-at-or-below-genesis")
			} else if ra.LastFin > 0 {
				fs := ra.States[g.Intn(int(ra.LastFin))]
				h = fs.Start + uint64(g.Intn(int(fs.Num)))
				c.r.Hit("fork-at-finalized-height")
			}
		}
	}
	if h <= ra.Tph && g.Chance(80) {
		h = ra.Tph + 1 + uint64(g.Intn(3))
	}
	for _, rv := range ra.Revs {
		if rv[1] <= h {
			rev = rv[0]
		}
	}
	auth, punish, rewardee := "gov", "-", "-"
	if g.Chance(6) {
		auth = fmt.Sprintf("a%d", c.pickActor())
		c.r.Hit("fraud-wrong-authority")
	}
	if g.Chance(8) {
		rev += uint64(1 + g.Intn(2))
		c.r.Hit("fraud-wrong-revision")
	}
	if len(members) > 0 && g.Chance(40+map[string]int{"C06": 25}[c.focus]) {
		punish = fmt.Sprintf("a%d", members[g.Intn(len(members))])
		// one draw: 60 % an ordinary actor, 12 % m0 = the distribution module account (a recipient the
		// bank refuses), 28 % nobody
		if x := g.Intn(100); x < 60 {
			rewardee = fmt.Sprintf("a%d", c.pickActor())
		} else if x < 72 {
			rewardee = "m0"
			c.r.Hit("fraud/blocked-rewardee")
		}
	}
	// --- w-coreb: punish a sequencer of ANOTHER rollapp than the forked one (core_c03x_test.go) ---
	punish, rewardee = c.genFraudForeignPunish(s, ri, punish, rewardee)
	// --- w-coreb: end ---
	// --- w-coreb: C07 focus only — sometimes name the proposer of ANOTHER rollapp as the sequencer to punish
	// (SubmitRollappFraud does not check membership): it keeps proposing with a zero bond ---
	if c.focus == "C07" && g.Chance(12) {
		for rj, o := range s.Ras {
			if rj != ri && o.Exists && o.Prop >= 0 {
				punish = fmt.Sprintf("a%d", o.Prop)
				c.r.Hit("fraud/punish-proposer-of-another-rollapp")
				break
			}
		}
	}
	// --- w-coreb: end ---
	return fmt.Sprintf("fraud r%d h=%d rev=%d punish=%s rewardee=%s auth=%s", ri, h, rev, punish, rewardee, auth)
}

func coreRunTrace(t *testing.T, r *Run, lines []string) {
	p := parseCoreParams(lines[0])
	h := newCoreH(t, p)
	mon := &coreMon{h: h, r: r, everNotic: map[int]bool{}, removed: map[int]bool{}, reset: map[int]int64{}}
	mon.trace = []string{lines[0]}
	s := h.snapshot()
	r.Emit(lines[0], s.renderFull("ok"))
	mon.check(lines[0], "ok", s)
	for _, l := range lines[1:] {
		mon.trace = append(mon.trace, l)
		res := h.exec(l)
		s = h.snapshot()
		r.Emit(l, s.renderFull(res))
		mon.check(l, res, s)
	}
	r.Trace()
}

// coreCorpus: the directed traces of corpus/C06/*.ops (blocked rewardee), run first on every seed.
func coreCorpus() [][]string {
	var out [][]string
	// the harness directory is <root>/harness, or a private copy <root>/.cache/harness-<pid> when
	// another tree is checked: walk up from the working directory / this file until corpus/ shows
	root := ""
	var starts []string
	if wd, err := os.Getwd(); err == nil {
		starts = append(starts, wd)
	}
	if _, file, _, ok := runtime.Caller(0); ok {
		starts = append(starts, filepath.Dir(file))
	}
	for _, d := range starts {
		for i := 0; i < 4 && root == ""; i++ {
			d = filepath.Dir(d)
			if _, err := os.Stat(filepath.Join(d, "corpus", "C06")); err == nil {
				root = d
			}
		}
	}
	if root == "" {
		return nil
	}
	files, _ := filepath.Glob(filepath.Join(root, "corpus", "C06", "*.ops"))
	sort.Strings(files)
	for _, f := range files {
		b, err := os.ReadFile(f)
		if err != nil {
			continue
		}
		var lines []string
		for _, l := range strings.Split(string(b), "\n") {
			l = strings.TrimSpace(l)
			if l != "" && !strings.HasPrefix(l, "#") {
				lines = append(lines, l)
			}
		}
		if len(lines) > 0 && strings.HasPrefix(lines[0], "reset") {
			out = append(out, lines)
		}
	}
	return out
}

func TestCore(t *testing.T) { runCore(t, "Core") }

// corePost, when set, runs at the end of a generation run of runCore on the same Run (TestC18 uses
// it to add the other packages' histories).
var corePost func(r *Run)

func runCore(t *testing.T, id string) {
	focus := os.Getenv("CORE_FOCUS")
	r := NewRun(t, id)
	defer r.Close()
	defer func() {
		if corePost != nil {
			corePost(r)
		}
	}()
	if lines := ReplayLines(); lines != nil {
		for _, tr := range SplitTraces(lines) {
			coreRunTrace(t, r, tr)
		}
		return
	}
	// directed traces first: even the smallest run contains the named rare branches
	for _, tr := range coreCorpus() {
		coreRunTrace(t, r, tr)
		r.Hit("corpus/directed-trace")
		for _, l := range tr {
			if strings.HasPrefix(l, "fraud ") && strings.Contains(l, "rewardee=m") {
				r.Hit("fraud/blocked-rewardee")
			}
			if strings.HasPrefix(l, "punish ") {
				r.Hit("corpus/punish-proposal")
			}
		}
	}
	nTraces, nOps := r.N(60, 700), r.N(70, 130)
	if n := os.Getenv("CORE_TRACES"); n != "" {
		nTraces = int(atoi(n))
	}
	for tr := 0; tr < nTraces; tr++ {
		g := r.Rng.Fork()
		p := coreGenParams(g, focus)
		h := newCoreH(t, p)
		mon := &coreMon{h: h, r: r, everNotic: map[int]bool{}, removed: map[int]bool{}, reset: map[int]int64{}}
		gen := &coreGen{g: g, h: h, focus: focus, r: r}
		line := p.line()
		mon.trace = []string{line}
		s := h.snapshot()
		r.Emit(line, s.renderFull("ok"))
		mon.check(line, "ok", s)
		inBlock := false
		accepted := 0
		hash := sha256.New()
		for i := 0; i < nOps; i++ {
			op := gen.next(s, &inBlock, i)
			mon.trace = append(mon.trace, op)
			res := h.exec(op)
			s = h.snapshot()
			r.Emit(op, s.renderFull(res))
			mon.check(op, res, s)
			kind := strings.Fields(op)[0]
			r.Hit(kind + "/" + res)
			hash.Write([]byte(kind + "/" + res + ";"))
			if res == "ok" && kind != "begin" && kind != "end" && kind != "fund" {
				accepted++
			}
			if res == "blockfail" {
				mon.violate("C11/block/"+kind+"-failed", "Begin/EndBlocker returned an error or panicked")
			}
		}
		r.Class(fmt.Sprintf("%x", hash.Sum(nil)[:8]), accepted > 0)
		r.Trace()
	}
}
