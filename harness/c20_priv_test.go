package harness

// C20 — authority / owner guards: privileged messages through Fix.Deliver.
//
// op lines (one trace = `reset priv`, fixture `own` lines, then ops):
//   own <obj> a<i>                                   fixture object <obj> is owned by actor i
//   fix <what>                                       re-create a consumed fixture object (tick | subject: c20_ibc_test.go)
//   priv <module.Msg> <obj> <signer> <valid> <new>   deliver the message with `signer` in its signer
//                                                    field; <valid> = the same content is accepted
//                                                    when sent by the privileged signer (measured in
//                                                    a discarded branch of the state right before);
//                                                    <new> = a<i> for ownership transfers, else -
//   ext <goType> <signer>                            any registered message type with an Authority
//                                                    field, zero content, unprivileged signer
// observations: ok | rej ; everything else (state digests, who may do what) is checked by monitors.

import (
	"fmt"
	"reflect"
	"sort"
	"strconv"
	"strings"
	"time"

	"cosmossdk.io/math"
	codectypes "github.com/cosmos/cosmos-sdk/codec/types"
	"github.com/cosmos/cosmos-sdk/crypto/keys/ed25519"
	sdk "github.com/cosmos/cosmos-sdk/types"
	authtypes "github.com/cosmos/cosmos-sdk/x/auth/types"
	banktypes "github.com/cosmos/cosmos-sdk/x/bank/types"
	govv1 "github.com/cosmos/cosmos-sdk/x/gov/types/v1"
	paramproposal "github.com/cosmos/cosmos-sdk/x/params/types/proposal"
	gogoproto "github.com/cosmos/gogoproto/proto"

	stakingtypes "github.com/cosmos/cosmos-sdk/x/staking/types"
	denomtypes "github.com/dymensionxyz/dymension/v3/x/denommetadata/types"
	dymnstypes "github.com/dymensionxyz/dymension/v3/x/dymns/types"
	eibctypes "github.com/dymensionxyz/dymension/v3/x/eibc/types"
	irotypes "github.com/dymensionxyz/dymension/v3/x/iro/types"
	lockuptypes "github.com/dymensionxyz/dymension/v3/x/lockup/types"
	rollapptypes "github.com/dymensionxyz/dymension/v3/x/rollapp/types"
	seqtypes "github.com/dymensionxyz/dymension/v3/x/sequencer/types"
	sponstypes "github.com/dymensionxyz/dymension/v3/x/sponsorship/types"
	streamertypes "github.com/dymensionxyz/dymension/v3/x/streamer/types"
)

const (
	oRollapp  = 0 // rollapp r0 (launched, has a sequencer and state)
	oSeq      = 1 // sequencer of r0
	oLock     = 2
	oName     = 3
	oLP       = 4
	oBuy      = 5  // buy order on the name (owner = buyer)
	oPlanRA   = 6  // rollapp r1 (not launched) carrying the IRO plan
	oCtrl     = 7  // the controller role of the name (owner = current controller)
	oSeq2     = 8  // a second, non-proposer sequencer of r0
	oProposer = 9  // the proposer role of r0 (owner = the actor whose sequencer is the current proposer)
	oVote     = 10 // the sponsorship vote of a3 (addressed by the voter itself)
	// oPlanRA2 = 11: rollapp r2 carrying the settled IRO plan (c20_ibc_test.go)
	c20Actors = 5
)

type c20PK struct {
	key   string
	obj   int    // -1: no object (authority / governance-routed)
	class string // authority | gov | owner | self   — from the property text, NOT from the generated table
	build func(p *c20Priv, signer sdk.AccAddress, n int, newOwner int) (sdk.Msg, error)
	xfer  bool   // ownership transfer (takes a new owner)
	moves []int  // objects whose owner becomes the new owner on success (default: obj)
	after string // fixture to re-create after a successful privileged run
	rare  bool   // privileged runs disturb the fixture: do them seldom
}

type c20Priv struct {
	s       *c20State
	f       *Fix
	gov     sdk.AccAddress
	mods    []string // module account names (without gov), sorted
	owners  map[int]int
	nonce   int
	ra0     string
	ra1     string
	seqAddr sdk.AccAddress
	lockID  uint64
	name    string
	lpID    uint64
	buyID   string
	planID  string
	appID   uint64
	stream  uint64
	gauge   uint64
	voteOK  bool
	kinds   []*c20PK
	byKey   map[string]*c20PK
	ext     []string // type URLs of every routed governance-only message
	extT    []c20ExtTarget
	stats   map[string]int
	ready   bool
	ibc     *c20Ibc // r2 with canonical client / channel / settled plan, recoverable clients (c20_ibc_test.go)
}

func coinA(n int64) sdk.Coin { return sdk.NewCoin("adym", math.NewInt(n)) }

func pow10(n int64, exp int) math.Int {
	x := math.NewInt(n)
	for i := 0; i < exp; i++ {
		x = x.MulRaw(10)
	}
	return x
}

func (p *c20Priv) must(what string, err error) {
	if err != nil {
		p.s.t.Fatalf("C20 fixture: %s: %v", what, err)
	}
}

func (p *c20Priv) deliverMust(what string, m sdk.Msg) *sdk.Result {
	res, err := p.f.Deliver(m)
	p.must(what, err)
	return res
}

func newC20Priv(s *c20State) *c20Priv {
	f := NewFix(s.t)
	if s.pstats == nil {
		s.pstats, s.ctrlErr = map[string]int{}, map[string]string{}
	}
	p := &c20Priv{s: s, f: f, owners: map[int]int{}, byKey: map[string]*c20PK{}, stats: s.pstats}
	p.gov = authtypes.NewModuleAddress("gov")
	// the EVM (virtual frontier contracts of new denoms) asks for the block proposer
	if vals, err := f.App.StakingKeeper.GetAllValidators(f.Ctx); err == nil && len(vals) > 0 {
		if cons, err := vals[0].GetConsAddr(); err == nil {
			f.Ctx = f.Ctx.WithProposer(cons)
		}
	}
	for name := range f.App.AccountKeeper.GetModulePermissions() {
		if name != "gov" {
			p.mods = append(p.mods, name)
		}
	}
	sort.Strings(p.mods)
	for i := 0; i < c20Actors; i++ {
		f.Fund(Actor(i), sdk.NewCoin("adym", pow10(1, 30)), sdk.NewCoin("stake", pow10(1, 30)))
	}
	p.defineKinds()
	// every routed governance-only message type (c20_ext_test.go)
	if s.extHit == nil {
		s.extHit, s.extMiss = map[string]bool{}, map[string]string{}
	}
	p.extT = p.extTargets()
	for _, t := range p.extT {
		p.ext = append(p.ext, t.url)
	}
	sort.Strings(p.ext)
	return p
}

func (p *c20Priv) own(obj, actor int) string { return fmt.Sprintf("own %d a%d", obj, actor) }

// fixture: executed by the first `own`-less call of generate, or replayed through `fix`/`own` lines
func (p *c20Priv) setup() {
	f := p.f
	a := func(i int) string { return Actor(i).String() }
	// --- rollapps
	mk := func(id, alias string) {
		m := &rollapptypes.MsgCreateRollapp{
			Creator: a(0), RollappId: id, InitialSequencer: "*", MinSequencerBond: rollapptypes.DefaultMinSequencerBondGlobalCoin,
			Alias: alias, VmType: rollapptypes.Rollapp_EVM,
			GenesisInfo: &rollapptypes.GenesisInfo{Bech32Prefix: "rol", GenesisChecksum: "1234567890abcdefg", InitialSupply: math.NewInt(1000),
				NativeDenom: rollapptypes.DenomMetadata{Display: "DEN", Base: "aden", Exponent: 18}},
			Metadata: &rollapptypes.RollappMetadata{Website: "https://dymension.xyz", Description: "d", LogoUrl: "https://dymension.xyz/logo.png", Telegram: "https://t.me/rolly", X: "https://x.dymension.xyz"},
		}
		p.deliverMust("create rollapp "+id, m)
	}
	p.ra0, p.ra1 = "dymverifa_7777-1", "dymverifb_7778-1"
	mk(p.ra0, "verifa")
	// --- sequencer of r0 (creator a1) and one state update
	pk := ed25519.GenPrivKeyFromSecret([]byte("dymverif-c20-seq")).PubKey()
	pkAny, err := codectypes.NewAnyWithValue(pk)
	p.must("pubkey any", err)
	p.seqAddr = Actor(1)
	p.deliverMust("create sequencer", &seqtypes.MsgCreateSequencer{Creator: a(1), DymintPubKey: pkAny, Bond: rollapptypes.DefaultMinSequencerBondGlobalCoin, RollappId: p.ra0,
		Metadata: seqtypes.SequencerMetadata{Rpcs: []string{"https://rpc.wpd.evm.rollapp.noisnemyd.xyz:443"}, EvmRpcs: []string{"https://rpc.evm.rollapp.noisnemyd.xyz:443"}, RestApiUrls: []string{"https://api.rollapp.noisnemyd.xyz:443"}}})
	pk2 := ed25519.GenPrivKeyFromSecret([]byte("dymverif-c20-seq2")).PubKey()
	pk2Any, err := codectypes.NewAnyWithValue(pk2)
	p.must("pubkey any", err)
	p.deliverMust("create sequencer 2", &seqtypes.MsgCreateSequencer{Creator: a(4), DymintPubKey: pk2Any, Bond: rollapptypes.DefaultMinSequencerBondGlobalCoin.AddAmount(math.NewInt(1_000_000)), RollappId: p.ra0,
		Metadata: seqtypes.SequencerMetadata{Rpcs: []string{"https://rpc.wpd.evm.rollapp.noisnemyd.xyz:443"}, EvmRpcs: []string{"https://rpc.evm.rollapp.noisnemyd.xyz:443"}, RestApiUrls: []string{"https://api.rollapp.noisnemyd.xyz:443"}}})
	bds := rollapptypes.BlockDescriptors{}
	for h := uint64(1); h <= 10; h++ {
		bds.BD = append(bds.BD, rollapptypes.BlockDescriptor{Height: h, StateRoot: make([]byte, 32), Timestamp: f.Time, DrsVersion: 1})
	}
	p.deliverMust("update state", &rollapptypes.MsgUpdateState{Creator: a(1), RollappId: p.ra0, StartHeight: 1, NumBlocks: 10, BDs: bds})
	// the genesis bridge of r0 is considered done (hard forks need it)
	ra := f.App.RollappKeeper.MustGetRollapp(f.Ctx, p.ra0)
	ra.GenesisState.TransferProofHeight = 1
	f.App.RollappKeeper.SetRollapp(f.Ctx, ra)
	// --- an app of r0
	p.deliverMust("add app", &rollapptypes.MsgAddApp{Creator: a(0), Name: "app0", RollappId: p.ra0, Description: "d", Image: "https://dymension.xyz/i.png", Url: "https://dymension.xyz", Order: 1})
	apps := f.App.RollappKeeper.GetRollappApps(f.Ctx, p.ra0)
	if len(apps) == 0 {
		p.s.t.Fatal("C20 fixture: no app")
	}
	p.appID = apps[0].Id
	// --- lock of a2; a2..a4 may force-unlock their own locks
	lp := f.App.LockupKeeper.GetParams(f.Ctx)
	lp.ForceUnlockAllowedAddresses = []string{a(2), a(3), a(4)}
	f.App.LockupKeeper.SetParams(f.Ctx, lp)
	p.fixLock()
	// --- dym name of a3
	p.name = "dymverifname"
	price := f.App.DymNSKeeper.PriceParams(f.Ctx)
	p.deliverMust("register name", &dymnstypes.MsgRegisterName{Name: p.name, Duration: 1, Owner: a(3),
		ConfirmPayment: sdk.NewCoin(price.PriceDenom, price.GetFirstYearDymNamePrice(p.name))})
	// --- on-demand LP of a2
	p.fixLP()
	// --- buy order of a0 on the name
	p.fixBuy(0)
	// --- rollapp r1 (not launched) with an IRO plan, trading not yet enabled
	p.fixPlan()
	// --- rollapp r2: canonical light client, open channel, completed genesis bridge, settled plan (hours pass:
	// before anything that is scheduled relative to the block time)
	p.setupIBC()
	// --- a stream (governance creates it; the streamer module account pays)
	gs := f.App.IncentivesKeeper.GetGauges(f.Ctx)
	if len(gs) == 0 {
		p.s.t.Fatal("C20 fixture: no gauge")
	}
	p.gauge = gs[0].Id
	f.Fund(authtypes.NewModuleAddress(streamertypes.ModuleName), sdk.NewCoin("adym", pow10(1, 26)))
	p.fixStream()
	// --- the community pool has something to spend
	p.must("fund community pool", f.App.DistrKeeper.FundCommunityPool(f.Ctx, sdk.NewCoins(coinA(1_000_000)), Actor(0)))
	// --- a3 stakes and votes for the gauge (sponsorship)
	p.fixVote()
	// --- a denom with metadata (for the update proposal)
	c, err := p.legacy(p.gov, &denomtypes.CreateDenomMetadataProposal{Title: "t", Description: "d", TokenMetadata: []banktypes.Metadata{c20Meta("avrffix", "d")}})
	p.must("denom proposal", err)
	p.deliverMust("create denom metadata", c)
}

func (p *c20Priv) fixLock() {
	res := p.deliverMust("lock tokens", &lockuptypes.MsgLockTokens{Owner: Actor(p.ownerOr(oLock, 2)).String(), Duration: 14 * 24 * time.Hour, Coins: sdk.NewCoins(sdk.NewCoin("adym", pow10(1, 22)))})
	var r lockuptypes.MsgLockTokensResponse
	p.must("lock response", c20Resp(res, &r))
	p.lockID = r.ID
}

func (p *c20Priv) ownerOr(obj, dflt int) int {
	if o, ok := p.owners[obj]; ok {
		return o
	}
	return dflt
}

func (p *c20Priv) fixLP() {
	res := p.deliverMust("create LP", &eibctypes.MsgCreateOnDemandLP{Lp: &eibctypes.OnDemandLP{FundsAddr: Actor(p.ownerOr(oLP, 2)).String(), Rollapp: p.ra0, Denom: "adym",
		MaxPrice: math.NewInt(1000), MinFee: math.NewInt(1), SpendLimit: math.NewInt(100000), OrderMinAgeBlocks: 1}})
	var r eibctypes.MsgCreateOnDemandLPResponse
	p.must("lp response", c20Resp(res, &r))
	p.lpID = r.Id
	c20dbg("LP created id=%d", p.lpID)
}

func (p *c20Priv) fixBuy(buyer int) {
	price := p.f.App.DymNSKeeper.PriceParams(p.f.Ctx)
	res := p.deliverMust("place buy order", &dymnstypes.MsgPlaceBuyOrder{AssetId: p.name, AssetType: dymnstypes.TypeName, Buyer: Actor(buyer).String(),
		Offer: sdk.NewCoin(price.PriceDenom, price.MinOfferPrice)})
	var r dymnstypes.MsgPlaceBuyOrderResponse
	p.must("buy order response", c20Resp(res, &r))
	p.buyID = r.OrderId
}

func (p *c20Priv) fixPlan() {
	f := p.f
	if p.planID == "" {
		// genesis accounts must allocate the plan's tokens to the IRO module account
		amt := pow10(1_000_000, 18)
		m := &rollapptypes.MsgCreateRollapp{
			Creator: Actor(0).String(), RollappId: p.ra1, InitialSequencer: "*", MinSequencerBond: rollapptypes.DefaultMinSequencerBondGlobalCoin,
			Alias: "verifb", VmType: rollapptypes.Rollapp_EVM,
			GenesisInfo: &rollapptypes.GenesisInfo{Bech32Prefix: "rob", GenesisChecksum: "1234567890abcdefg", InitialSupply: amt,
				NativeDenom:     rollapptypes.DenomMetadata{Display: "DEN", Base: "aden", Exponent: 18},
				GenesisAccounts: &rollapptypes.GenesisAccounts{Accounts: []rollapptypes.GenesisAccount{{Address: f.App.IROKeeper.GetModuleAccountAddress(), Amount: amt}}}},
			Metadata: &rollapptypes.RollappMetadata{Website: "https://dymension.xyz", Description: "d", LogoUrl: "https://dymension.xyz/logo.png", Telegram: "https://t.me/rolly", X: "https://x.dymension.xyz"},
		}
		p.deliverMust("create rollapp r1", m)
		ip := f.App.IROKeeper.GetParams(f.Ctx)
		// fixture only: the keeper entry point (as the module's own tests do); MsgCreatePlan additionally
		// needs registered denom metadata for the liquidity denom
		ra, _ := f.App.RollappKeeper.GetRollapp(f.Ctx, p.ra1)
		id, err := f.App.IROKeeper.CreatePlan(f.Ctx, "adym", amt, ip.MinPlanDuration+time.Hour, time.Time{}, false, ra, irotypes.DefaultBondingCurve(),
			irotypes.DefaultIncentivePlanParams(), ip.MinLiquidityPart, ip.MinVestingDuration+time.Hour, ip.MinVestingStartTimeAfterSettlement)
		p.must("create plan", err)
		p.planID = id
	}
}

// fixVote: the voter (owner of oVote, a3 by default) delegates once and casts a vote
func (p *c20Priv) fixVote() {
	voter := Actor(p.ownerOr(oVote, 3))
	vals, err := p.f.App.StakingKeeper.GetAllValidators(p.f.Ctx)
	if err != nil || len(vals) == 0 {
		p.s.ctrlErr["fixture:vote"] = "no validator"
		return
	}
	if !p.voteOK {
		if _, err := p.f.Deliver(&stakingtypes.MsgDelegate{DelegatorAddress: voter.String(), ValidatorAddress: vals[0].OperatorAddress,
			Amount: sdk.NewCoin(sdk.DefaultBondDenom, pow10(1, 24))}); err != nil {
			p.s.ctrlErr["fixture:vote"] = "delegate: " + err.Error()
			return
		}
	}
	if _, err := p.f.Deliver(&sponstypes.MsgVote{Voter: voter.String(), Weights: []sponstypes.GaugeWeight{{GaugeId: p.gauge, Weight: pow10(100, 18)}}}); err != nil {
		p.s.ctrlErr["fixture:vote"] = "vote: " + err.Error()
		return
	}
	p.voteOK = true
}

// proposerActor: which actor's sequencer is the current proposer of r0 (99 = nobody)
func (p *c20Priv) proposerActor() int {
	addr := p.f.App.SequencerKeeper.GetProposer(p.f.Ctx, p.ra0).Address
	for i := 0; i < c20Actors; i++ {
		if Actor(i).String() == addr {
			return i
		}
	}
	return 99
}

func (p *c20Priv) fixStream() {
	p.nonce++
	c, err := p.legacy(p.gov, &streamertypes.CreateStreamProposal{Title: "t", Description: "d", DistributeToRecords: []streamertypes.DistrRecord{{GaugeId: p.gauge, Weight: math.NewInt(1)}},
		Coins: sdk.NewCoins(coinA(1000)), StartTime: p.f.Time.Add(time.Hour + time.Duration(p.nonce)*time.Second), DistrEpochIdentifier: "day", NumEpochsPaidOver: 10})
	p.must("stream proposal", err)
	p.deliverMust("create stream", c)
	ss := p.f.App.StreamerKeeper.GetStreams(p.f.Ctx)
	if len(ss) == 0 {
		p.s.t.Fatal("C20 fixture: no stream")
	}
	p.stream = ss[len(ss)-1].Id
}

func c20Resp(res *sdk.Result, into gogoproto.Message) error {
	if res == nil || len(res.MsgResponses) == 0 {
		// keeper-level Deliver returns the handler result: Data carries the response
		if res != nil && len(res.Data) > 0 {
			return gogoproto.Unmarshal(res.Data, into)
		}
		return fmt.Errorf("no response")
	}
	return gogoproto.Unmarshal(res.MsgResponses[0].Value, into)
}

// legacy governance content goes through x/gov's MsgExecLegacyContent (authority = signer)
func (p *c20Priv) legacy(signer sdk.AccAddress, content gogoproto.Message) (sdk.Msg, error) {
	any, err := codectypes.NewAnyWithValue(content)
	if err != nil {
		return nil, err
	}
	return &govv1.MsgExecLegacyContent{Content: any, Authority: signer.String()}, nil
}

func (p *c20Priv) defineKinds() {
	add := func(k *c20PK) {
		p.kinds = append(p.kinds, k)
		p.byKey[k.key] = k
	}
	type bf = func(p *c20Priv, s sdk.AccAddress, n int, no int) (sdk.Msg, error)
	auth := func(key string, b bf) { add(&c20PK{key: key, obj: -1, class: "authority", build: b}) }
	gov := func(key string, rare bool, b bf) { add(&c20PK{key: key, obj: -1, class: "gov", build: b, rare: rare}) }
	// ---- governance-only messages
	auth("sequencer.MsgUpdateParams", func(p *c20Priv, s sdk.AccAddress, n, _ int) (sdk.Msg, error) {
		pr := p.f.App.SequencerKeeper.GetParams(p.f.Ctx)
		pr.DishonorKickThreshold = pr.DishonorKickThreshold + 1
		return &seqtypes.MsgUpdateParams{Authority: s.String(), Params: pr}, nil
	})
	auth("sponsorship.MsgUpdateParams", func(p *c20Priv, s sdk.AccAddress, n, _ int) (sdk.Msg, error) {
		pr, err := p.f.App.SponsorshipKeeper.GetParams(p.f.Ctx)
		if err != nil {
			return nil, err
		}
		pr.MinVotingPower = pr.MinVotingPower.AddRaw(int64(n))
		return &sponstypes.MsgUpdateParams{Authority: s.String(), NewParams: pr}, nil
	})
	auth("dymns.MsgUpdateParams", func(p *c20Priv, s sdk.AccAddress, n, _ int) (sdk.Msg, error) {
		pr := p.f.App.DymNSKeeper.MiscParams(p.f.Ctx)
		pr.SellOrderDuration = 3*24*time.Hour + time.Duration(n)*time.Second
		return &dymnstypes.MsgUpdateParams{Authority: s.String(), NewMiscParams: &pr}, nil
	})
	auth("iro.MsgUpdateParams", func(p *c20Priv, s sdk.AccAddress, n, _ int) (sdk.Msg, error) {
		pr := p.f.App.IROKeeper.GetParams(p.f.Ctx)
		pr.MinPlanDuration = pr.MinPlanDuration + time.Second
		return &irotypes.MsgUpdateParams{Authority: s.String(), NewParams: pr}, nil
	})
	auth("rollapp.MsgMarkObsoleteRollapps", func(p *c20Priv, s sdk.AccAddress, n, _ int) (sdk.Msg, error) {
		return &rollapptypes.MsgMarkObsoleteRollapps{Authority: s.String(), DrsVersions: []uint32{uint32(1000 + n)}}, nil
	})
	auth("rollapp.MsgForceGenesisInfoChange", func(p *c20Priv, s sdk.AccAddress, n, _ int) (sdk.Msg, error) {
		return &rollapptypes.MsgForceGenesisInfoChange{Authority: s.String(), RollappId: p.ra0,
			NewGenesisInfo: rollapptypes.GenesisInfo{Bech32Prefix: "rol", GenesisChecksum: fmt.Sprintf("checksum%d", n), InitialSupply: math.NewInt(1000),
				NativeDenom: rollapptypes.DenomMetadata{Display: "DEN", Base: "aden", Exponent: 18}}}, nil
	})
	add(&c20PK{key: "rollapp.MsgRollappFraudProposal", obj: -1, class: "authority", rare: true, after: "recover", build: func(p *c20Priv, s sdk.AccAddress, n, _ int) (sdk.Msg, error) {
		return p.fraudMsg(s) // on r2, the rollapp with a canonical client (c20_ibc_test.go)
	}})
	// ---- governance-routed legacy contents
	gov("streamer.CreateStreamProposal", false, func(p *c20Priv, s sdk.AccAddress, n, _ int) (sdk.Msg, error) {
		return p.legacy(s, &streamertypes.CreateStreamProposal{Title: "t", Description: "d", DistributeToRecords: []streamertypes.DistrRecord{{GaugeId: p.gauge, Weight: math.NewInt(1)}},
			Coins: sdk.NewCoins(coinA(1000)), StartTime: p.f.Time.Add(time.Hour + time.Duration(n)*time.Second), DistrEpochIdentifier: "day", NumEpochsPaidOver: 10})
	})
	add(&c20PK{key: "streamer.TerminateStreamProposal", obj: -1, class: "gov", after: "stream", rare: true, build: func(p *c20Priv, s sdk.AccAddress, n, _ int) (sdk.Msg, error) {
		return p.legacy(s, &streamertypes.TerminateStreamProposal{Title: "t", Description: "d", StreamId: p.stream})
	}})
	gov("streamer.ReplaceStreamDistributionProposal", false, func(p *c20Priv, s sdk.AccAddress, n, _ int) (sdk.Msg, error) {
		return p.legacy(s, &streamertypes.ReplaceStreamDistributionProposal{Title: "t", Description: "d", StreamId: p.stream, Records: []streamertypes.DistrRecord{{GaugeId: p.gauge, Weight: math.NewInt(int64(2 + n%5))}}})
	})
	gov("streamer.UpdateStreamDistributionProposal", false, func(p *c20Priv, s sdk.AccAddress, n, _ int) (sdk.Msg, error) {
		return p.legacy(s, &streamertypes.UpdateStreamDistributionProposal{Title: "t", Description: "d", StreamId: p.stream, Records: []streamertypes.DistrRecord{{GaugeId: p.gauge, Weight: math.NewInt(int64(3 + n%5))}}})
	})
	gov("sequencer.PunishSequencerProposal", true, func(p *c20Priv, s sdk.AccAddress, n, _ int) (sdk.Msg, error) {
		return p.legacy(s, &seqtypes.PunishSequencerProposal{Title: "t", Description: "d", PunishSequencerAddress: p.seqAddr.String(), Rewardee: Actor(4).String()})
	})
	gov("dymns.MigrateChainIdsProposal", false, func(p *c20Priv, s sdk.AccAddress, n, _ int) (sdk.Msg, error) {
		return p.legacy(s, &dymnstypes.MigrateChainIdsProposal{Title: "t", Description: "d", Replacement: []dymnstypes.MigrateChainId{{PreviousChainId: fmt.Sprintf("oldchain-%d", n), NewChainId: fmt.Sprintf("newchain-%d", n)}}})
	})
	gov("dymns.UpdateAliasesProposal", false, func(p *c20Priv, s sdk.AccAddress, n, _ int) (sdk.Msg, error) {
		return p.legacy(s, &dymnstypes.UpdateAliasesProposal{Title: "t", Description: "d", Add: []dymnstypes.UpdateAlias{{ChainId: fmt.Sprintf("somechain-%d", n), Alias: fmt.Sprintf("al%d", n)}}})
	})
	gov("denommetadata.CreateDenomMetadataProposal", false, func(p *c20Priv, s sdk.AccAddress, n, _ int) (sdk.Msg, error) {
		base := fmt.Sprintf("avrf%d", n)
		return p.legacy(s, &denomtypes.CreateDenomMetadataProposal{Title: "t", Description: "d", TokenMetadata: []banktypes.Metadata{c20Meta(base, "d")}})
	})
	gov("denommetadata.UpdateDenomMetadataProposal", false, func(p *c20Priv, s sdk.AccAddress, n, _ int) (sdk.Msg, error) {
		return p.legacy(s, &denomtypes.UpdateDenomMetadataProposal{Title: "t", Description: "d", TokenMetadata: []banktypes.Metadata{c20Meta("avrffix", fmt.Sprintf("d%d", n))}})
	})
	// parameter updates of the modules that still use x/params: a legacy ParameterChangeProposal
	gov("govroute.paramproposal.RouterKey", false, func(p *c20Priv, s sdk.AccAddress, n, _ int) (sdk.Msg, error) {
		return p.legacy(s, paramproposal.NewParameterChangeProposal("t", "d", []paramproposal.ParamChange{
			{Subspace: rollapptypes.ModuleName, Key: string(rollapptypes.KeyDisputePeriodInBlocks), Value: fmt.Sprintf("\"%d\"", 100+n)}}))
	})
	// ---- owner-only: rollapp
	ro := func(key string, b bf) { add(&c20PK{key: key, obj: oRollapp, class: "owner", build: b}) }
	ro("rollapp.MsgUpdateRollappInformation", func(p *c20Priv, s sdk.AccAddress, n, _ int) (sdk.Msg, error) {
		return &rollapptypes.MsgUpdateRollappInformation{Owner: s.String(), RollappId: p.ra0,
			Metadata: &rollapptypes.RollappMetadata{Website: "https://dymension.xyz", Description: fmt.Sprintf("d%d", n), LogoUrl: "https://dymension.xyz/logo.png", Telegram: "https://t.me/rolly", X: "https://x.dymension.xyz"}}, nil
	})
	add(&c20PK{key: "rollapp.MsgTransferOwnership", obj: oRollapp, class: "owner", xfer: true, build: func(p *c20Priv, s sdk.AccAddress, n, no int) (sdk.Msg, error) {
		return &rollapptypes.MsgTransferOwnership{CurrentOwner: s.String(), NewOwner: Actor(no).String(), RollappId: p.ra0}, nil
	}})
	ro("rollapp.MsgAddApp", func(p *c20Priv, s sdk.AccAddress, n, _ int) (sdk.Msg, error) {
		return &rollapptypes.MsgAddApp{Creator: s.String(), Name: fmt.Sprintf("app%d", n), RollappId: p.ra0, Description: "d", Image: "https://dymension.xyz/i.png", Url: "https://dymension.xyz", Order: int32(2 + n)}, nil
	})
	ro("rollapp.MsgUpdateApp", func(p *c20Priv, s sdk.AccAddress, n, _ int) (sdk.Msg, error) {
		return &rollapptypes.MsgUpdateApp{Creator: s.String(), Id: p.appID, Name: fmt.Sprintf("appu%d", n), RollappId: p.ra0, Description: "d", Image: "https://dymension.xyz/i.png", Url: "https://dymension.xyz", Order: 1}, nil
	})
	add(&c20PK{key: "rollapp.MsgRemoveApp", obj: oRollapp, class: "owner", after: "app", rare: true, build: func(p *c20Priv, s sdk.AccAddress, n, _ int) (sdk.Msg, error) {
		return &rollapptypes.MsgRemoveApp{Creator: s.String(), Id: p.appID, RollappId: p.ra0}, nil
	}})
	// proposer-only: the next state update of r0 (the comparison sits in x/sequencer's BeforeUpdateState hook)
	add(&c20PK{key: "rollapp.MsgUpdateState", obj: oProposer, class: "owner", build: func(p *c20Priv, s sdk.AccAddress, n, _ int) (sdk.Msg, error) {
		si, ok := p.f.App.RollappKeeper.GetLatestStateInfo(p.f.Ctx, p.ra0)
		if !ok {
			return nil, fmt.Errorf("no state info")
		}
		ra := p.f.App.RollappKeeper.MustGetRollapp(p.f.Ctx, p.ra0)
		h := si.StartHeight + si.NumBlocks
		return &rollapptypes.MsgUpdateState{Creator: s.String(), RollappId: p.ra0, StartHeight: h, NumBlocks: 1, RollappRevision: ra.LatestRevision().Number,
			BDs: rollapptypes.BlockDescriptors{BD: []rollapptypes.BlockDescriptor{{Height: h, StateRoot: make([]byte, 32), Timestamp: p.f.Time, DrsVersion: 1}}}}, nil
	}})
	ro("dymns.MsgRegisterAlias", func(p *c20Priv, s sdk.AccAddress, n, _ int) (sdk.Msg, error) {
		alias := "vrf" + strings.Repeat("x", 8) + string(rune('a'+n%26)) + string(rune('a'+(n/26)%26))
		price := p.f.App.DymNSKeeper.PriceParams(p.f.Ctx)
		return &dymnstypes.MsgRegisterAlias{Alias: alias, RollappId: p.ra0, Owner: s.String(), ConfirmPayment: sdk.NewCoin(price.PriceDenom, price.GetAliasPrice(alias))}, nil
	})
	// ---- owner-only: IRO plan of r1
	add(&c20PK{key: "iro.MsgEnableTrading", obj: oPlanRA, class: "owner", rare: true, build: func(p *c20Priv, s sdk.AccAddress, n, _ int) (sdk.Msg, error) {
		return &irotypes.MsgEnableTrading{Owner: s.String(), PlanId: p.planID}, nil
	}})
	// the settled plan of r2; a successful claim takes everything vested so far: time passes afterwards
	add(&c20PK{key: "iro.MsgClaimVested", obj: oPlanRA2, class: "owner", after: "tick", build: func(p *c20Priv, s sdk.AccAddress, n, _ int) (sdk.Msg, error) {
		return &irotypes.MsgClaimVested{Claimer: s.String(), PlanId: p.ibc.planID2}, nil
	}})
	// ---- owner-only: sequencer (addressed by the signer itself)
	sq := func(key string, rare bool, b bf) {
		add(&c20PK{key: key, obj: oSeq, class: "self", build: b, rare: rare})
	}
	sq("sequencer.MsgUpdateSequencerInformation", false, func(p *c20Priv, s sdk.AccAddress, n, _ int) (sdk.Msg, error) {
		return &seqtypes.MsgUpdateSequencerInformation{Creator: s.String(), Metadata: seqtypes.SequencerMetadata{Moniker: fmt.Sprintf("m%d", n), Rpcs: []string{"https://rpc.wpd.evm.rollapp.noisnemyd.xyz:443"}, EvmRpcs: []string{"https://rpc.evm.rollapp.noisnemyd.xyz:443"}, RestApiUrls: []string{"https://api.rollapp.noisnemyd.xyz:443"}}}, nil
	})
	sq("sequencer.MsgUpdateRewardAddress", false, func(p *c20Priv, s sdk.AccAddress, n, _ int) (sdk.Msg, error) {
		return &seqtypes.MsgUpdateRewardAddress{Creator: s.String(), RewardAddr: Actor(n % c20Actors).String()}, nil
	})
	sq("sequencer.MsgUpdateWhitelistedRelayers", false, func(p *c20Priv, s sdk.AccAddress, n, _ int) (sdk.Msg, error) {
		return &seqtypes.MsgUpdateWhitelistedRelayers{Creator: s.String(), Relayers: []string{Actor(10 + n%7).String()}}, nil
	})
	sq("sequencer.MsgUpdateOptInStatus", true, func(p *c20Priv, s sdk.AccAddress, n, _ int) (sdk.Msg, error) {
		return &seqtypes.MsgUpdateOptInStatus{Creator: s.String(), OptedIn: n%2 == 0}, nil
	})
	sq("sequencer.MsgIncreaseBond", false, func(p *c20Priv, s sdk.AccAddress, n, _ int) (sdk.Msg, error) {
		c := rollapptypes.DefaultMinSequencerBondGlobalCoin
		return &seqtypes.MsgIncreaseBond{Creator: s.String(), AddAmount: sdk.NewCoin(c.Denom, math.NewInt(1000))}, nil
	})
	sq = func(key string, rare bool, b bf) {
		add(&c20PK{key: key, obj: oSeq2, class: "self", build: b, rare: rare})
	}
	sq("sequencer.MsgDecreaseBond", false, func(p *c20Priv, s sdk.AccAddress, n, _ int) (sdk.Msg, error) {
		c := rollapptypes.DefaultMinSequencerBondGlobalCoin
		return &seqtypes.MsgDecreaseBond{Creator: s.String(), DecreaseAmount: sdk.NewCoin(c.Denom, math.NewInt(10))}, nil
	})
	sq("sequencer.MsgUnbond", true, func(p *c20Priv, s sdk.AccAddress, n, _ int) (sdk.Msg, error) {
		return &seqtypes.MsgUnbond{Creator: s.String()}, nil
	})
	// ---- owner-only: lock
	lk := func(key string, rare bool, after string, b bf) {
		add(&c20PK{key: key, obj: oLock, class: "owner", build: b, rare: rare, after: after})
	}
	lk("lockup.MsgBeginUnlocking", false, "", func(p *c20Priv, s sdk.AccAddress, n, _ int) (sdk.Msg, error) {
		return &lockuptypes.MsgBeginUnlocking{Owner: s.String(), ID: p.lockID, Coins: sdk.NewCoins(coinA(1000))}, nil
	})
	lk("lockup.MsgExtendLockup", false, "", func(p *c20Priv, s sdk.AccAddress, n, _ int) (sdk.Msg, error) {
		return &lockuptypes.MsgExtendLockup{Owner: s.String(), ID: p.lockID, Duration: 14*24*time.Hour + time.Duration(n)*time.Minute}, nil
	})
	lk("lockup.MsgForceUnlock", false, "", func(p *c20Priv, s sdk.AccAddress, n, _ int) (sdk.Msg, error) {
		return &lockuptypes.MsgForceUnlock{Owner: s.String(), ID: p.lockID, Coins: sdk.NewCoins(coinA(1000))}, nil
	})
	// ---- owner-only: name
	nm := func(key string, b bf) { add(&c20PK{key: key, obj: oName, class: "owner", build: b}) }
	add(&c20PK{key: "dymns.MsgTransferDymNameOwnership", obj: oName, class: "owner", xfer: true, moves: []int{oName, oCtrl}, after: "buy", build: func(p *c20Priv, s sdk.AccAddress, n, no int) (sdk.Msg, error) {
		return &dymnstypes.MsgTransferDymNameOwnership{Name: p.name, Owner: s.String(), NewOwner: Actor(no).String()}, nil
	}})
	add(&c20PK{key: "dymns.MsgSetController", obj: oName, class: "owner", xfer: true, moves: []int{oCtrl}, build: func(p *c20Priv, s sdk.AccAddress, n, no int) (sdk.Msg, error) {
		return &dymnstypes.MsgSetController{Name: p.name, Owner: s.String(), Controller: Actor(no).String()}, nil
	}})
	nm = func(key string, b bf) { add(&c20PK{key: key, obj: oCtrl, class: "owner", build: b}) } // controller-signed
	nm("dymns.MsgUpdateResolveAddress", func(p *c20Priv, s sdk.AccAddress, n, _ int) (sdk.Msg, error) {
		return &dymnstypes.MsgUpdateResolveAddress{Name: p.name, Controller: s.String(), SubName: fmt.Sprintf("s%d", n%3), ResolveTo: Actor(n % c20Actors).String()}, nil
	})
	nm("dymns.MsgUpdateDetails", func(p *c20Priv, s sdk.AccAddress, n, _ int) (sdk.Msg, error) {
		return &dymnstypes.MsgUpdateDetails{Name: p.name, Controller: s.String(), Contact: fmt.Sprintf("c%d@dymverif.xyz", n)}, nil
	})
	nm = func(key string, b bf) { add(&c20PK{key: key, obj: oName, class: "owner", build: b}) }
	nm("dymns.MsgPlaceSellOrder", func(p *c20Priv, s sdk.AccAddress, n, _ int) (sdk.Msg, error) {
		price := p.f.App.DymNSKeeper.PriceParams(p.f.Ctx)
		return &dymnstypes.MsgPlaceSellOrder{AssetId: p.name, AssetType: dymnstypes.TypeName, Owner: s.String(), MinPrice: sdk.NewCoin(price.PriceDenom, price.MinOfferPrice)}, nil
	})
	nm("dymns.MsgCancelSellOrder", func(p *c20Priv, s sdk.AccAddress, n, _ int) (sdk.Msg, error) {
		return &dymnstypes.MsgCancelSellOrder{AssetId: p.name, AssetType: dymnstypes.TypeName, Owner: s.String()}, nil
	})
	// continuing (raising) an existing buy order: its buyer only
	add(&c20PK{key: "dymns.MsgPlaceBuyOrder", obj: oBuy, class: "owner", build: func(p *c20Priv, s sdk.AccAddress, n, _ int) (sdk.Msg, error) {
		bo := p.f.App.DymNSKeeper.GetBuyOrder(p.f.Ctx, p.buyID)
		if bo == nil {
			return nil, fmt.Errorf("no buy order")
		}
		return &dymnstypes.MsgPlaceBuyOrder{AssetId: p.name, AssetType: dymnstypes.TypeName, Buyer: s.String(), ContinueOrderId: p.buyID,
			Offer: bo.OfferPrice.AddAmount(math.NewInt(1))}, nil
	}})
	// the voter's own vote
	add(&c20PK{key: "sponsorship.MsgRevokeVote", obj: oVote, class: "self", after: "vote", rare: true, build: func(p *c20Priv, s sdk.AccAddress, n, _ int) (sdk.Msg, error) {
		return &sponstypes.MsgRevokeVote{Voter: s.String()}, nil
	}})
	add(&c20PK{key: "dymns.MsgCancelBuyOrder", obj: oBuy, class: "owner", after: "buy", rare: true, build: func(p *c20Priv, s sdk.AccAddress, n, _ int) (sdk.Msg, error) {
		return &dymnstypes.MsgCancelBuyOrder{OrderId: p.buyID, Buyer: s.String()}, nil
	}})
	// ---- owner-only: on-demand LP
	add(&c20PK{key: "eibc.MsgDeleteOnDemandLP", obj: oLP, class: "owner", after: "lp", rare: true, build: func(p *c20Priv, s sdk.AccAddress, n, _ int) (sdk.Msg, error) {
		// batch shapes: alone, after an id that does not exist (already deleted / never created), before one
		ids := [][]uint64{{p.lpID}, {p.lpID + 1000 + uint64(n), p.lpID}, {p.lpID, p.lpID + 1000 + uint64(n)}}[n%3]
		return &eibctypes.MsgDeleteOnDemandLP{Signer: s.String(), Ids: ids}, nil
	}})
}

func c20Meta(base, desc string) banktypes.Metadata {
	disp := strings.TrimPrefix(base, "a")
	if disp == base {
		disp = "x" + base
	}
	return banktypes.Metadata{Description: desc, Base: base, Display: disp, Name: disp, Symbol: strings.ToUpper(disp),
		DenomUnits: []*banktypes.DenomUnit{{Denom: base, Exponent: 0}, {Denom: disp, Exponent: 18}}}
}

// ---- signers ----------------------------------------------------------------------------

func (p *c20Priv) signerAddr(tok string) (sdk.AccAddress, bool) {
	switch {
	case tok == "gov":
		return p.gov, true
	case strings.HasPrefix(tok, "a"):
		i, err := strconv.Atoi(tok[1:])
		if err != nil || i < 0 {
			return nil, false
		}
		return Actor(i), true
	case strings.HasPrefix(tok, "m"):
		i, err := strconv.Atoi(tok[1:])
		if err != nil || i < 0 || i >= len(p.mods) {
			return nil, false
		}
		return authtypes.NewModuleAddress(p.mods[i]), true
	}
	return nil, false
}

// who is privileged for this kind right now (from the property text)
func (p *c20Priv) privileged(k *c20PK) string {
	switch k.class {
	case "authority", "gov":
		return "gov"
	default:
		return fmt.Sprintf("a%d", p.owners[k.obj])
	}
}

// sequencer messages address the signer's own sequencer: a signer that owns another sequencer
// than the kind's would be acting on its own object, not on a foreign one
func (p *c20Priv) ownsOtherSeq(k *c20PK, tok string) bool {
	if k.class != "self" || (k.obj != oSeq && k.obj != oSeq2) {
		return false
	}
	for _, o := range []int{oSeq, oSeq2} {
		if o != k.obj && tok == fmt.Sprintf("a%d", p.owners[o]) {
			return true
		}
	}
	return false
}

// deliver = Fix.Deliver, with a panic in ValidateBasic (outside Deliver's own recover) turned into
// a failed message, as baseapp.runTx does
func (p *c20Priv) deliver(m sdk.Msg) (res *sdk.Result, err error) {
	defer func() {
		if e := recover(); e != nil {
			res, err = nil, &PanicError{Val: e}
		}
	}()
	return p.f.Deliver(m)
}

// dry runs the message on a branch of the state that is thrown away
func (p *c20Priv) dry(m sdk.Msg) error {
	saved := p.f.Ctx
	c, _ := saved.CacheContext()
	p.f.Ctx = c
	_, err := p.deliver(m)
	p.f.Ctx = saved
	return err
}

func (p *c20Priv) measureValid(k *c20PK, n, newOwner int) bool {
	a, _ := p.signerAddr(p.privileged(k))
	m, err := k.build(p, a, n, newOwner)
	if err != nil {
		return false
	}
	err = p.dry(m)
	if err != nil {
		msg := err.Error()
		if len(msg) > 160 {
			msg = msg[:160]
		}
		p.s.ctrlErr[k.key] = msg
	}
	return err == nil
}

func (p *c20Priv) exec(line string, f []string) string {
	r := p.s.r
	switch f[0] {
	case "own":
		if len(f) != 3 {
			return "bad-op"
		}
		o, err1 := strconv.Atoi(f[1])
		a, err2 := strconv.Atoi(strings.TrimPrefix(f[2], "a"))
		if err1 != nil || err2 != nil {
			return "bad-op"
		}
		if !p.ready {
			p.ready = true
			p.setup()
		}
		p.owners[o] = a
		return "ok"
	case "fix":
		if len(f) == 3 && f[1] == "buy" {
			b, err := strconv.Atoi(strings.TrimPrefix(f[2], "a"))
			if err != nil || b < 0 || b == p.owners[oName] {
				return "bad-op"
			}
			p.fixBuy(b)
			p.owners[oBuy] = b
			return "ok"
		}
		if len(f) != 2 {
			return "bad-op"
		}
		switch f[1] {
		case "lock":
			p.fixLock()
		case "lp":
			p.fixLP()
		case "stream":
			p.fixStream()
		case "vote":
			p.fixVote()
		case "tick":
			p.tick(time.Minute)
		case "subject":
			p.fixSubject()
		case "app":
			p.nonce++
			p.deliverMust("add app", &rollapptypes.MsgAddApp{Creator: Actor(p.owners[oRollapp]).String(), Name: fmt.Sprintf("fixapp%d", p.nonce), RollappId: p.ra0, Description: "d", Image: "https://dymension.xyz/i.png", Url: "https://dymension.xyz", Order: int32(1000 + p.nonce)})
			apps := p.f.App.RollappKeeper.GetRollappApps(p.f.Ctx, p.ra0)
			p.appID = apps[len(apps)-1].Id
		default:
			return "bad-op"
		}
		return "ok"
	case "ext":
		if !p.ready {
			return "bad-op"
		}
		return p.execExt2(line, f)
	case "rows":
		// how many message types of the custom modules the application really routes
		p.s.seq = append(p.s.seq, "rows")
		return strconv.Itoa(len(p.customMsgKeys()))
	case "signer":
		if len(f) != 2 {
			return "bad-op"
		}
		for _, ku := range p.customMsgKeys() {
			if ku[0] == f[1] {
				p.s.seq = append(p.s.seq, "signer:"+f[1])
				p.s.r.Hit("priv/signer-field-probed")
				return p.probeSigner(ku[1])
			}
		}
		return "?"
	}
	// priv <key> <obj> <signer> <valid> <newOwner>
	if len(f) != 6 {
		return "bad-op"
	}
	k, ok := p.byKey[f[1]]
	if !ok {
		return "bad-op"
	}
	signer, ok := p.signerAddr(f[3])
	if !ok || p.ownsOtherSeq(k, f[3]) || f[2] != strconv.Itoa(k.obj) {
		return "bad-op"
	}
	newOwner := -1
	var moves [][2]int
	if f[5] != "-" {
		for _, pr := range strings.Split(f[5], ",") {
			oa := strings.Split(pr, ":")
			if len(oa) != 2 {
				return "bad-op"
			}
			o, err1 := strconv.Atoi(oa[0])
			v, err2 := strconv.Atoi(strings.TrimPrefix(oa[1], "a"))
			if err1 != nil || err2 != nil || v < 0 {
				return "bad-op"
			}
			newOwner = v
			moves = append(moves, [2]int{o, v})
		}
	}
	p.nonce++
	n := p.nonce
	valid := p.measureValid(k, n, newOwner)
	if (f[4] == "1") != valid {
		r.Hit("priv/valid-flag-differs-from-line")
	}
	m, err := k.build(p, signer, n, newOwner)
	if err != nil {
		return "bad-op"
	}
	isPriv := f[3] == p.privileged(k)
	before := p.f.StoreDigest()
	_, derr := p.deliver(m)
	after := p.f.StoreDigest()
	obs := "ok"
	if derr != nil {
		obs = "rej"
	}
	c20dbg("%s => %v [lp=%d changed=%v]", line, derr, p.lpID, before != after)
	role := "other-user"
	switch {
	case isPriv:
		role = "privileged"
	case f[3] == "gov":
		role = "authority"
	case strings.HasPrefix(f[3], "m"):
		role = "module-account"
	case k.class == "authority" || k.class == "gov":
		if _, isOwner := p.ownerRole(f[3]); isOwner {
			role = "owner-of-something"
		}
	}
	replay := append([]string{}, p.s.trace...)
	// ---- monitors
	if !isPriv && derr == nil {
		sig := "C20/owner/" + k.key + "/accepted-from-non-owner"
		if k.class == "authority" || k.class == "gov" {
			sig = "C20/authority/" + k.key + "/accepted-from-non-authority"
		}
		r.Violate(sig, fmt.Sprintf("%s signed by %s (%s) succeeded; privileged signer is %s", k.key, f[3], role, p.privileged(k)), replay...)
	}
	if derr != nil && before != after {
		r.Violate("C20/no-state-change/"+k.key+"/state-changed-by-failed-message", fmt.Sprintf("digest %s -> %s, error %v", before, after, derr), replay...)
	}
	if IsPanic(derr) {
		r.Hit("priv/panic/" + k.key)
	}
	if !isPriv && derr != nil {
		if valid {
			r.Hit("priv/unprivileged-rejected/content-valid-for-privileged")
			p.stats["neg:"+k.key]++
		} else {
			r.Hit("priv/unprivileged-rejected/content-also-invalid-for-privileged")
		}
	}
	if isPriv {
		if derr == nil {
			p.stats["pos:"+k.key]++
		}
		if valid != (derr == nil) {
			r.Hit("priv/privileged-run-differs-from-dry-run/" + k.key)
		}
	}
	r.Hit("priv/" + k.class + "/" + role + "/" + obs)
	if derr == nil { // also after a (flagged) success of an unprivileged signer: keep later verdicts accurate
		for _, mv := range moves {
			p.owners[mv[0]] = mv[1]
		}
	}
	p.s.seq = append(p.s.seq, k.key+":"+role+":"+obs)
	if derr == nil {
		p.s.nontr = true
	}
	return obs
}

func (p *c20Priv) ownerRole(tok string) (int, bool) {
	for o, a := range p.owners {
		if tok == fmt.Sprintf("a%d", a) {
			return o, true
		}
	}
	return 0, false
}

// ---- generator --------------------------------------------------------------------------

func (p *c20Priv) generate(run func(string) string, nOps int) {
	g := p.s.r.Rng
	for _, o := range [][2]int{{oRollapp, 0}, {oSeq, 1}, {oLock, 2}, {oName, 3}, {oLP, 2}, {oBuy, 0}, {oPlanRA, 0}, {oCtrl, 3}, {oSeq2, 4}, {oProposer, 1}, {oVote, 3}, {oPlanRA2, 0}} {
		run(p.own(o[0], o[1]))
	}
	// the proposer role follows the sequencer module's own notion of the current proposer
	syncProposer := func() {
		if pa := p.proposerActor(); pa != p.owners[oProposer] {
			p.s.r.Hit("priv/proposer-role-moved")
			run(p.own(oProposer, pa))
		}
	}
	syncProposer()
	unpriv := func(k *c20PK) string {
		for {
			var tok string
			switch x := g.Intn(10); {
			case x < 5:
				tok = fmt.Sprintf("a%d", g.Intn(c20Actors))
			case x < 8:
				tok = fmt.Sprintf("m%d", g.Intn(len(p.mods)))
			default:
				tok = "gov"
			}
			if tok != p.privileged(k) && !p.ownsOtherSeq(k, tok) {
				return tok
			}
		}
	}
	// the signer field of every routed custom-module message (ties the translator's descriptor decoding)
	if !p.s.signersDone {
		run("rows")
		p.s.signersDone = true
		for _, ku := range p.customMsgKeys() {
			run("signer " + ku[0])
		}
	}
	// every routed Authority-carrying message type, zero content, unprivileged signers
	allMods := !p.s.extAllDone || p.s.r.Thorough()
	p.s.extAllDone = true
	for _, url := range p.ext {
		run("ext " + url + " " + fmt.Sprintf("a%d", g.Intn(c20Actors)))
		if allMods { // every module account (first trace of a quick run, every trace of a thorough one)
			for j := range p.mods {
				run(fmt.Sprintf("ext %s m%d", url, j))
			}
		} else {
			run(fmt.Sprintf("ext %s m%d", url, g.Intn(len(p.mods))))
		}
	}
	for i := 0; i < nOps; i++ {
		if g.Chance(1) {
			p.genRecover(run) // the client frozen by the fixture (or still frozen by a fraud proposal)
		}
		k := p.kinds[g.Intn(len(p.kinds))]
		priv := g.Chance(45)
		if k.rare && priv && !g.Chance(25) {
			priv = false
		}
		signer := p.privileged(k)
		if !priv {
			signer = unpriv(k)
		}
		newOwner := -1
		no := "-"
		if k.xfer {
			mv := k.moves
			if mv == nil {
				mv = []int{k.obj}
			}
			for {
				newOwner = g.Intn(c20Actors)
				if newOwner != p.owners[mv[0]] {
					break
				}
			}
			var parts []string
			for _, o := range mv {
				parts = append(parts, fmt.Sprintf("%d:a%d", o, newOwner))
			}
			no = strings.Join(parts, ",")
		}
		valid := p.measureValid(k, p.nonce+1, newOwner)
		v := "0"
		if valid {
			v = "1"
		}
		obs := run(fmt.Sprintf("priv %s %d %s %s %s", k.key, k.obj, signer, v, no))
		syncProposer()
		if obs == "ok" && priv && k.after != "" {
			if k.after == "recover" {
				p.genRecover(run) // c20_ibc_test.go
			} else if k.after == "buy" {
				b := p.owners[oBuy]
				if b == p.owners[oName] { // the owner of a name cannot bid for it
					b = (b + 1) % c20Actors
				}
				run(fmt.Sprintf("fix buy a%d", b))
			} else {
				run("fix " + k.after)
			}
		}
	}
}

func (p *c20Priv) finish() {
	// non-vacuity: which kinds were exercised with valid content (last trace)
	var miss []string
	for _, k := range p.kinds {
		if p.stats["neg:"+k.key] == 0 {
			miss = append(miss, k.key)
		}
	}
	sort.Strings(miss)
	p.s.r.Set("priv-kinds", len(p.kinds))
	p.s.r.Set("priv-kinds-never-rejected-with-valid-content", miss)
	var nopos []string
	for _, k := range p.kinds {
		if p.stats["pos:"+k.key] == 0 {
			nopos = append(nopos, k.key)
		}
	}
	p.s.r.Set("priv-kinds-never-accepted-from-privileged", nopos)
	p.s.r.Set("priv-last-dry-run-error-per-kind", p.s.ctrlErr)
	p.s.r.Set("ext-authority-message-types", len(p.ext))
	p.finishExt()
}

// ---- signer fields: which Go field of a custom message names its signer, found by probing -------

func c20CustomKey(m any) (string, bool) {
	t := reflect.TypeOf(m)
	for t.Kind() == reflect.Ptr {
		t = t.Elem()
	}
	const pre = "github.com/dymensionxyz/dymension/v3/x/"
	if !strings.HasPrefix(t.PkgPath(), pre) {
		return "", false
	}
	mod := strings.Split(strings.TrimPrefix(t.PkgPath(), pre), "/")[0]
	return mod + "." + t.Name(), true
}

// signersOf asks the application codec (cosmos.msg.v1.signer / custom signers) and, when that
// knows nothing about the type, the message's own legacy GetSigners
func (p *c20Priv) signersOf(m sdk.Msg) (out [][]byte) {
	defer func() {
		if recover() != nil {
			out = nil
		}
	}()
	if gm, ok := m.(gogoproto.Message); ok {
		if s, _, err := p.f.App.AppCodec().GetMsgV1Signers(gm); err == nil {
			return s
		}
	}
	if lm, ok := m.(interface{ GetSigners() []sdk.AccAddress }); ok {
		for _, a := range lm.GetSigners() {
			out = append(out, a)
		}
	}
	return out
}

func (p *c20Priv) probeSigner(url string) string {
	reg := p.f.App.InterfaceRegistry()
	addr := Actor(7)
	fresh := func() (sdk.Msg, reflect.Value, bool) {
		pm, err := reg.Resolve(url)
		if err != nil {
			return nil, reflect.Value{}, false
		}
		sm, ok := pm.(sdk.Msg)
		return sm, reflect.ValueOf(pm).Elem(), ok
	}
	is := func(m sdk.Msg) bool {
		s := p.signersOf(m)
		return len(s) == 1 && string(s[0]) == string(addr)
	}
	_, v0, ok := fresh()
	if !ok {
		return "?"
	}
	t := v0.Type()
	for i := 0; i < t.NumField(); i++ {
		ft := t.Field(i)
		switch {
		case ft.Type.Kind() == reflect.String:
			m, v, _ := fresh()
			v.Field(i).SetString(addr.String())
			if is(m) {
				return ft.Name
			}
		case ft.Type.Kind() == reflect.Ptr && ft.Type.Elem().Kind() == reflect.Struct, ft.Type.Kind() == reflect.Struct:
			st := ft.Type
			if st.Kind() == reflect.Ptr {
				st = st.Elem()
			}
			for j := 0; j < st.NumField(); j++ {
				if st.Field(j).Type.Kind() != reflect.String || !st.Field(j).IsExported() {
					continue
				}
				m, v, _ := fresh()
				fv := v.Field(i)
				if fv.Kind() == reflect.Ptr {
					fv.Set(reflect.New(st))
					fv = fv.Elem()
				}
				fv.Field(j).SetString(addr.String())
				if is(m) {
					return ft.Name + "." + st.Field(j).Name
				}
			}
		}
	}
	return "?"
}

func (p *c20Priv) customMsgKeys() [][2]string {
	var out [][2]string
	reg := p.f.App.InterfaceRegistry()
	for _, url := range reg.ListImplementations(sdk.MsgInterfaceProtoName) {
		if p.f.App.MsgServiceRouter().HandlerByTypeURL(url) == nil {
			continue
		}
		m, err := reg.Resolve(url)
		if err != nil {
			continue
		}
		if k, ok := c20CustomKey(m); ok {
			out = append(out, [2]string{k, url})
		}
	}
	sort.Slice(out, func(i, j int) bool { return out[i][0] < out[j][0] })
	return out
}
