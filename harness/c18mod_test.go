package harness

// TestC18Mod — correspondence run for the genesis models of Model/Genesis.lean (driver `Genesis`).
// Stateless protocol: every op line is one small scenario.  The module state is written through the
// real keeper into a branch of one application's store (CacheContext), exported by the module's own
// ExportGenesis, imported by the module's own InitGenesis into a second, fresh branch, and read back
// through the keeper; the Lean driver computes the same from `export<M>` / `import<M>`.
//
//   iro <id,id,…>                      plans written in that order      -> export order, last id after import, by-rollapp lookups
//   eibckey <hex|->                    one demand order, tracking key   -> exported text, key after import
//   eibcdec <hex>                      genesis text of a tracking key   -> key after import | panic
//   da <status> <type>                 one packet (receiver a0, sender a1) -> index entries under a0 / a1 | panic
//   gauges <now> <id:start:perp:num:filled,…>   genesis list, imported at time now, exported, imported again
//   streams <now> <id:start:num:filled,…>       same for x/streamer (sorts by id)
//   locks <id:dur:unl,…>               genesis list                     -> export order after import
//   lcsig <s:c:h,…>                    SaveSigner in that order         -> exported signers, height map after import
//   spons <vp:g=w+g=w,…>               voter infos                      -> distribution after import
//   dymns <bid,…> <offer,…>            refunds                          -> supply growth, module balance growth
//   iroops <c:r|u:id:amt,…>            plan write paths (create for rollapp r / rewrite plan id), then export -> import
//   sops <now:c:id:start:num:filled|now:e|now:t:id|now:u:id:num:filled,…>   reference-store write paths of x/streamer

import (
	"fmt"
	"os"
	"sort"
	"strconv"
	"strings"
	"testing"
	"time"

	"cosmossdk.io/math"
	sdk "github.com/cosmos/cosmos-sdk/types"
	transfertypes "github.com/cosmos/ibc-go/v8/modules/apps/transfer/types"
	channeltypes "github.com/cosmos/ibc-go/v8/modules/core/04-channel/types"

	commontypes "github.com/dymensionxyz/dymension/v3/x/common/types"
	"github.com/dymensionxyz/dymension/v3/x/delayedack"
	datypes "github.com/dymensionxyz/dymension/v3/x/delayedack/types"
	"github.com/dymensionxyz/dymension/v3/x/dymns"
	dymnstypes "github.com/dymensionxyz/dymension/v3/x/dymns/types"
	"github.com/dymensionxyz/dymension/v3/x/eibc"
	eibctypes "github.com/dymensionxyz/dymension/v3/x/eibc/types"
	incentivestypes "github.com/dymensionxyz/dymension/v3/x/incentives/types"
	"github.com/dymensionxyz/dymension/v3/x/iro"
	irotypes "github.com/dymensionxyz/dymension/v3/x/iro/types"
	lctypes "github.com/dymensionxyz/dymension/v3/x/lightclient/types"
	lockuptypes "github.com/dymensionxyz/dymension/v3/x/lockup/types"
	sponsorshiptypes "github.com/dymensionxyz/dymension/v3/x/sponsorship/types"
	streamertypes "github.com/dymensionxyz/dymension/v3/x/streamer/types"
)

type c18m struct {
	f *Fix
	r *Run
}

func c18mGuard(fn func() string) (res string) {
	defer func() {
		if e := recover(); e != nil {
			res = "panic"
			if os.Getenv("VERIF_DEBUG") != "" {
				res = fmt.Sprint("panic: ", e)
			}
		}
	}()
	return fn()
}

func c18mU(s string) uint64 { v, _ := strconv.ParseUint(s, 10, 64); return v }
func c18mList(s string) []string {
	if s == "-" || s == "" {
		return nil
	}
	return strings.Split(s, ",")
}
func c18mJoinU(xs []uint64) string {
	var s []string
	for _, x := range xs {
		s = append(s, fmt.Sprint(x))
	}
	if len(s) == 0 {
		return "-"
	}
	return strings.Join(s, ",")
}

func (h *c18m) branch(now int64) sdk.Context {
	ctx, _ := h.f.Ctx.CacheContext()
	return ctx.WithBlockTime(BaseTime.Add(time.Duration(now) * time.Second))
}

func (h *c18m) exec(line string) string {
	t := strings.Fields(line)
	if len(t) == 0 {
		return "bad-op"
	}
	app := h.f.App
	return c18mGuard(func() string {
		switch t[0] {
		case "iro":
			c1, c2 := h.branch(0), h.branch(0)
			for _, s := range c18mList(t[1]) {
				id := c18mU(s)
				p := irotypes.Plan{Id: id, RollappId: fmt.Sprintf("r%d_1-1", id), TotalAllocation: sdk.NewCoin("adym", math.NewInt(1)),
					BondingCurve: irotypes.DefaultBondingCurve(), SoldAmt: math.ZeroInt(), ClaimedAmt: math.ZeroInt(),
					IncentivePlanParams: irotypes.DefaultIncentivePlanParams(), MaxAmountToSell: math.ZeroInt(), LiquidityPart: math.LegacyOneDec()}
				app.IROKeeper.SetPlan(c1, p)
			}
			g := iro.ExportGenesis(c1, *app.IROKeeper)
			var order []uint64
			for _, p := range g.Plans {
				order = append(order, p.Id)
			}
			g.Params = irotypes.DefaultParams()
			iro.InitGenesis(c2, *app.IROKeeper, *g)
			ok := 0
			for _, p := range g.Plans {
				if q, found := app.IROKeeper.GetPlanByRollapp(c2, p.RollappId); found && q.Id == p.Id {
					ok++
				}
			}
			return fmt.Sprintf("order=%s last=%d byrollapp=%d", c18mJoinU(order), app.IROKeeper.GetLastPlanId(c2), ok)
		case "iroops":
			// the plan write paths: CreatePlan's store part (refused when the rollapp has a plan; id from the
			// counter) and later SetPlans of a stored plan; then export -> import
			c1, c2 := h.branch(0), h.branch(0)
			mk := func(id uint64, ra string) irotypes.Plan {
				return irotypes.Plan{Id: id, RollappId: ra, TotalAllocation: sdk.NewCoin("adym", math.NewInt(1)),
					BondingCurve: irotypes.DefaultBondingCurve(), SoldAmt: math.ZeroInt(), ClaimedAmt: math.ZeroInt(),
					IncentivePlanParams: irotypes.DefaultIncentivePlanParams(), MaxAmountToSell: math.ZeroInt(), LiquidityPart: math.LegacyOneDec()}
			}
			for _, op := range c18mList(t[1]) {
				f := strings.Split(op, ":")
				switch f[0] {
				case "c":
					ra := fmt.Sprintf("r%s_1-1", f[1])
					if _, found := app.IROKeeper.GetPlanByRollapp(c1, ra); found {
						continue
					}
					app.IROKeeper.SetPlan(c1, mk(app.IROKeeper.GetNextPlanIdAndIncrement(c1), ra))
				case "u":
					if p, found := app.IROKeeper.GetPlan(c1, f[1]); found {
						p.SoldAmt = math.NewIntFromUint64(c18mU(f[2]))
						app.IROKeeper.SetPlan(c1, p)
					}
				}
			}
			g := iro.ExportGenesis(c1, *app.IROKeeper)
			g.Params = irotypes.DefaultParams()
			iro.InitGenesis(c2, *app.IROKeeper, *g)
			var ps []string
			for _, p := range app.IROKeeper.GetAllPlans(c2, false) {
				q, _ := app.IROKeeper.GetPlanByRollapp(c2, p.RollappId)
				ps = append(ps, fmt.Sprintf("%d:%s:%s:%d", p.Id, p.RollappId[1:2], p.SoldAmt, q.Id))
			}
			if len(ps) == 0 {
				ps = []string{"-"}
			}
			return fmt.Sprintf("plans=%s last=%d orig=%d", strings.Join(ps, ","), app.IROKeeper.GetLastPlanId(c2), app.IROKeeper.GetLastPlanId(c1))
		case "sops":
			// the reference-store write paths on the real streamer keeper
			c1 := h.branch(0)
			for _, op := range c18mList(t[1]) {
				f := strings.Split(op, ":")
				ctx := c1.WithBlockTime(BaseTime.Add(time.Duration(c18mU(f[0])) * time.Second))
				switch f[1] {
				case "c":
					if _, err := app.StreamerKeeper.GetStreamByID(ctx, c18mU(f[2])); err == nil {
						continue
					}
					st := streamertypes.Stream{Id: c18mU(f[2]), DistributeTo: streamertypes.DistrInfo{TotalWeight: math.ZeroInt()},
						Coins: sdk.NewCoins(sdk.NewCoin("adym", math.NewInt(10))), StartTime: BaseTime.Add(time.Duration(c18mU(f[3])) * time.Second),
						DistrEpochIdentifier: "day", NumEpochsPaidOver: c18mU(f[4]), FilledEpochs: c18mU(f[5]), EpochCoins: sdk.NewCoins()}
					if err := app.StreamerKeeper.SetStreamWithRefKey(ctx, &st); err != nil {
						return "createerr"
					}
				case "e":
					if err := app.StreamerKeeper.BeforeEpochStart(ctx, "c18-no-such-epoch"); err != nil {
						return "epocherr"
					}
				case "t":
					_ = app.StreamerKeeper.TerminateStream(ctx, c18mU(f[2]))
				case "u":
					if st, err := app.StreamerKeeper.GetStreamByID(ctx, c18mU(f[2])); err == nil {
						st.NumEpochsPaidOver, st.FilledEpochs = c18mU(f[3]), c18mU(f[4])
						if err := app.StreamerKeeper.SetStream(ctx, st); err != nil {
							return "seterr"
						}
					}
				}
			}
			ids := func(ss []streamertypes.Stream) string {
				var x []uint64
				for _, s := range ss {
					x = append(x, s.Id)
				}
				return c18mJoinU(x)
			}
			return fmt.Sprintf("U=%s A=%s F=%s", ids(app.StreamerKeeper.GetUpcomingStreams(c1)), ids(app.StreamerKeeper.GetActiveStreams(c1)),
				ids(app.StreamerKeeper.GetFinishedStreams(c1)))
		case "eibckey", "eibcdec":
			c1, c2 := h.branch(0), h.branch(0)
			key := ""
			if t[1] != "-" {
				key = string(UnHex(t[1]))
			}
			o := eibctypes.DemandOrder{Id: "o1", TrackingPacketKey: key, Price: sdk.NewCoins(sdk.NewCoin("adym", math.NewInt(5))),
				Fee: sdk.NewCoins(sdk.NewCoin("adym", math.NewInt(1))), Recipient: Actor(0).String(), RollappId: "ra_1-1"}
			var g *eibctypes.GenesisState
			enc := ""
			if t[0] == "eibckey" {
				if err := app.EIBCKeeper.SetDemandOrder(c1, &o); err != nil {
					return "seterr"
				}
				g = eibc.ExportGenesis(c1, app.EIBCKeeper)
				enc = "enc=" + HexD([]byte(g.DemandOrders[0].TrackingPacketKey)) + " "
			} else {
				g = &eibctypes.GenesisState{Params: eibctypes.DefaultParams(), DemandOrders: []eibctypes.DemandOrder{o}}
			}
			eibc.InitGenesis(c2, app.EIBCKeeper, *g)
			got, err := app.EIBCKeeper.GetDemandOrder(c2, commontypes.Status_PENDING, "o1")
			if err != nil {
				return enc + "missing"
			}
			return enc + "dec=" + HexD([]byte(got.TrackingPacketKey))
		case "da":
			c2 := h.branch(0)
			data := transfertypes.NewFungibleTokenPacketData("adym", "7", Actor(1).String(), Actor(0).String(), "")
			pkt := channeltypes.Packet{Sequence: 3, SourcePort: "transfer", SourceChannel: "channel-7", DestinationPort: "transfer",
				DestinationChannel: "channel-0", Data: data.GetBytes(), TimeoutTimestamp: 1}
			p := commontypes.RollappPacket{RollappId: "ra_1-1", Packet: &pkt, Status: commontypes.Status(c18mU(t[1])), ProofHeight: 5,
				Type: commontypes.RollappPacket_Type(int32(c18mU(t[2])) - func() int32 {
					if t[2] == "3" {
						return 4 // 3 on the line = UNDEFINED (-1)
					}
					return 0
				}())}
			delayedack.InitGenesis(c2, app.DelayedAckKeeper, datypes.GenesisState{Params: datypes.DefaultParams(), RollappPackets: []commontypes.RollappPacket{p}})
			n0, e0 := app.DelayedAckKeeper.GetPendingPacketsByAddress(c2, Actor(0).String())
			n1, e1 := app.DelayedAckKeeper.GetPendingPacketsByAddress(c2, Actor(1).String())
			if e0 != nil || e1 != nil {
				return "queryerr"
			}
			return fmt.Sprintf("recv=%d send=%d stored=%d", len(n0), len(n1), len(app.DelayedAckKeeper.GetAllRollappPackets(c2)))
		case "gauges":
			now := int64(c18mU(t[1]))
			c1, c2 := h.branch(now), h.branch(now)
			var gs []incentivestypes.Gauge
			last := uint64(0)
			for _, s := range c18mList(t[2]) {
				f := strings.Split(s, ":")
				g := incentivestypes.Gauge{Id: c18mU(f[0]), IsPerpetual: f[2] == "1",
					DistributeTo: &incentivestypes.Gauge_Asset{Asset: &lockuptypes.QueryCondition{LockQueryType: lockuptypes.ByDuration, Denom: "stake", Duration: time.Hour}},
					Coins:        sdk.NewCoins(sdk.NewCoin("adym", math.NewInt(10))), StartTime: BaseTime.Add(time.Duration(c18mU(f[1])) * time.Second),
					NumEpochsPaidOver: c18mU(f[3]), FilledEpochs: c18mU(f[4])}
				gs = append(gs, g)
				if g.Id > last {
					last = g.Id
				}
			}
			gen := incentivestypes.GenesisState{Params: incentivestypes.DefaultParams(), LockableDurations: []time.Duration{time.Hour}, Gauges: gs, LastGaugeId: last}
			app.IncentivesKeeper.InitGenesis(c1, gen)
			exp := app.IncentivesKeeper.ExportGenesis(c1)
			var order []uint64
			for _, g := range exp.Gauges {
				order = append(order, g.Id)
			}
			app.IncentivesKeeper.InitGenesis(c2, *exp)
			ids := func(gs []incentivestypes.Gauge) string {
				var x []uint64
				for _, g := range gs {
					x = append(x, g.Id)
				}
				return c18mJoinU(x)
			}
			return fmt.Sprintf("exp=%s U=%s A=%s F=%s last=%d", c18mJoinU(order), ids(app.IncentivesKeeper.GetUpcomingGauges(c2)),
				ids(app.IncentivesKeeper.GetActiveGauges(c2)), ids(app.IncentivesKeeper.GetFinishedGauges(c2)), app.IncentivesKeeper.GetLastGaugeID(c2))
		case "streams":
			now := int64(c18mU(t[1]))
			c1, c2 := h.branch(now), h.branch(now)
			var ss []streamertypes.Stream
			last := uint64(0)
			for _, s := range c18mList(t[2]) {
				f := strings.Split(s, ":")
				st := streamertypes.Stream{Id: c18mU(f[0]), DistributeTo: streamertypes.DistrInfo{TotalWeight: math.ZeroInt()},
					Coins: sdk.NewCoins(sdk.NewCoin("adym", math.NewInt(10))), StartTime: BaseTime.Add(time.Duration(c18mU(f[1])) * time.Second),
					DistrEpochIdentifier: "day", NumEpochsPaidOver: c18mU(f[2]), FilledEpochs: c18mU(f[3]), EpochCoins: sdk.NewCoins()}
				ss = append(ss, st)
				if st.Id > last {
					last = st.Id
				}
			}
			gen := streamertypes.GenesisState{Params: streamertypes.DefaultParams(), Streams: ss, LastStreamId: last}
			app.StreamerKeeper.InitGenesis(c1, gen)
			exp := app.StreamerKeeper.ExportGenesis(c1)
			var order []uint64
			for _, s := range exp.Streams {
				order = append(order, s.Id)
			}
			app.StreamerKeeper.InitGenesis(c2, *exp)
			ids := func(ss []streamertypes.Stream) string {
				var x []uint64
				for _, s := range ss {
					x = append(x, s.Id)
				}
				return c18mJoinU(x)
			}
			return fmt.Sprintf("exp=%s U=%s A=%s F=%s last=%d", c18mJoinU(order), ids(app.StreamerKeeper.GetUpcomingStreams(c2)),
				ids(app.StreamerKeeper.GetActiveStreams(c2)), ids(app.StreamerKeeper.GetFinishedStreams(c2)), app.StreamerKeeper.GetLastStreamID(c2))
		case "locks":
			c1 := h.branch(0)
			var ls []lockuptypes.PeriodLock
			last := uint64(0)
			for _, s := range c18mList(t[1]) {
				f := strings.Split(s, ":")
				l := lockuptypes.PeriodLock{ID: c18mU(f[0]), Owner: Actor(int(c18mU(f[0]) % 3)).String(), Duration: time.Duration(c18mU(f[1])) * time.Second,
					Coins: sdk.NewCoins(sdk.NewCoin("stake", math.NewInt(int64(10+c18mU(f[0])))))}
				if f[2] == "1" {
					l.EndTime = BaseTime.Add(time.Duration(c18mU(f[1])) * time.Second)
				}
				ls = append(ls, l)
				if l.ID > last {
					last = l.ID
				}
			}
			app.LockupKeeper.InitGenesis(c1, lockuptypes.GenesisState{LastLockId: last, Locks: ls})
			if digestOut != nil {
				// C12: the lockup store of the branch (accumulation store written by InitializeAllLocks)
				fmt.Fprintf(digestOut, "locks %s\n", h.f.StoreDigestAt(c1, lockuptypes.StoreKey))
			}
			exp := app.LockupKeeper.ExportGenesis(c1)
			var order []uint64
			for _, l := range exp.Locks {
				order = append(order, l.ID)
			}
			return fmt.Sprintf("exp=%s last=%d", c18mJoinU(order), exp.LastLockId)
		case "lcsig":
			c1, c2 := h.branch(0), h.branch(0)
			for _, s := range c18mList(t[1]) {
				f := strings.Split(s, ":")
				if err := app.LightClientKeeper.SaveSigner(c1, "s"+f[0], "c"+f[1], c18mU(f[2])); err != nil {
					return "saveerr"
				}
			}
			exp := app.LightClientKeeper.ExportGenesis(c1)
			var es, ms []string
			for _, s := range exp.HeaderSigners {
				es = append(es, fmt.Sprintf("%s:%s:%d", s.SequencerAddress[1:], s.ClientId[1:], s.Height))
			}
			app.LightClientKeeper.InitGenesis(c2, lctypes.GenesisState{HeaderSigners: exp.HeaderSigners})
			var os_ []string
			seen := map[string]bool{}
			for _, s := range exp.HeaderSigners {
				k := fmt.Sprintf("%s:%d", s.ClientId[1:], s.Height)
				if seen[k] {
					continue
				}
				seen[k] = true
				by, err := app.LightClientKeeper.GetSigner(c2, s.ClientId, s.Height)
				if err != nil {
					by = "s?"
				}
				ms = append(ms, k+">"+by[1:])
				by0, err := app.LightClientKeeper.GetSigner(c1, s.ClientId, s.Height)
				if err != nil {
					by0 = "s?"
				}
				os_ = append(os_, k+">"+by0[1:])
			}
			sort.Strings(ms)
			sort.Strings(os_)
			if len(es) == 0 {
				return "exp=- map=- orig=-"
			}
			if strings.Join(ms, ",") != strings.Join(os_, ",") {
				h.r.Hit("lcsig/height-map-changed-by-import")
			}
			return "exp=" + strings.Join(es, ",") + " map=" + strings.Join(ms, ",") + " orig=" + strings.Join(os_, ",")
		case "spons":
			c2 := h.branch(0)
			var infos []sponsorshiptypes.VoterInfo
			for i, s := range c18mList(t[1]) {
				f := strings.SplitN(s, ":", 2)
				vp, _ := math.NewIntFromString(f[0])
				var ws []sponsorshiptypes.GaugeWeight
				if len(f) > 1 && f[1] != "" {
					for _, w := range strings.Split(f[1], "+") {
						gw := strings.Split(w, "=")
						wt, _ := math.NewIntFromString(gw[1])
						ws = append(ws, sponsorshiptypes.GaugeWeight{GaugeId: c18mU(gw[0]), Weight: wt})
					}
				}
				infos = append(infos, sponsorshiptypes.VoterInfo{Voter: Actor(i).String(), Vote: sponsorshiptypes.Vote{VotingPower: vp, Weights: ws}})
			}
			if err := app.SponsorshipKeeper.ImportGenesis(c2, sponsorshiptypes.GenesisState{Params: sponsorshiptypes.DefaultParams(), VoterInfos: infos}); err != nil {
				return "err"
			}
			d, err := app.SponsorshipKeeper.GetDistribution(c2)
			if err != nil {
				return "nodist"
			}
			var gs []string
			for _, g := range d.Gauges {
				gs = append(gs, fmt.Sprintf("%d=%s", g.GaugeId, g.Power))
			}
			if len(gs) == 0 {
				gs = []string{"-"}
			}
			return fmt.Sprintf("vp=%s gauges=%s", d.VotingPower, strings.Join(gs, ","))
		case "dymns":
			c2 := h.branch(0)
			params := dymnstypes.DefaultParams()
			denom := params.Price.PriceDenom
			var bids []dymnstypes.SellOrderBid
			var bos []dymnstypes.BuyOrder
			for i, s := range c18mList(t[1]) {
				bids = append(bids, dymnstypes.SellOrderBid{Bidder: Actor(i).String(), Price: sdk.NewCoin(denom, math.NewIntFromUint64(c18mU(s)))})
			}
			for i, s := range c18mList(t[2]) {
				bos = append(bos, dymnstypes.BuyOrder{Id: fmt.Sprintf("10%d", i+1), AssetId: "name", AssetType: dymnstypes.TypeName, Buyer: Actor(i).String(),
					OfferPrice: sdk.NewCoin(denom, math.NewIntFromUint64(c18mU(s)))})
			}
			sup0 := app.BankKeeper.GetSupply(c2, denom).Amount
			mod := app.AccountKeeper.GetModuleAddress(dymnstypes.ModuleName)
			mb0 := app.BankKeeper.GetBalance(c2, mod, denom).Amount
			a0 := app.BankKeeper.GetBalance(c2, Actor(0), denom).Amount
			dymns.InitGenesis(c2, app.DymNSKeeper, dymnstypes.GenesisState{Params: params, SellOrderBids: bids, BuyOrders: bos})
			return fmt.Sprintf("supply+=%s module+=%s a0+=%s", app.BankKeeper.GetSupply(c2, denom).Amount.Sub(sup0),
				app.BankKeeper.GetBalance(c2, mod, denom).Amount.Sub(mb0), app.BankKeeper.GetBalance(c2, Actor(0), denom).Amount.Sub(a0))
		}
		return "bad-op"
	})
}

func TestC18Mod(t *testing.T) {
	r := NewRun(t, "C18Mod")
	r.AutoClass = true
	defer r.Close()
	h := &c18m{f: NewFix(t), r: r}
	lastFix = nil // stateless scenarios on store branches: nothing for the generic trace-end hook to export
	if lines := ReplayLines(); lines != nil {
		for _, l := range lines {
			r.Emit(l, h.exec(l))
		}
		return
	}
	g := r.Rng
	emit := func(kind, line string) {
		r.Emit(line, h.exec(line))
		r.Hit(kind)
	}
	distinctIDs := func(n, max int) []uint64 {
		seen := map[uint64]bool{}
		var out []uint64
		for len(out) < n {
			x := uint64(1 + g.Intn(max))
			if !seen[x] {
				seen[x] = true
				out = append(out, x)
			}
		}
		return out
	}
	n := r.N(700, 6000)
	for i := 0; i < n; i++ {
		switch g.Intn(13) {
		case 11:
			var xs []string
			for j := 0; j < 1+g.Intn(14); j++ {
				if g.Chance(70) {
					xs = append(xs, fmt.Sprintf("c:%d", g.Intn(10)))
				} else {
					xs = append(xs, fmt.Sprintf("u:%d:%d", 1+g.Intn(5), g.Intn(50)))
				}
			}
			emit("iroops", "iroops "+strings.Join(xs, ","))
		case 12:
			var xs []string
			now := 0
			for j := 0; j < 2+g.Intn(12); j++ {
				now += g.Intn(6)
				switch g.Intn(10) {
				case 0, 1, 2, 3:
					num := 1 + g.Intn(3)
					xs = append(xs, fmt.Sprintf("%d:c:%d:%d:%d:%d", now, 1+g.Intn(7), []int{0, 5, 5, 10, now, now + 1, now + 3}[g.Intn(7)], num, g.Intn(num+1)))
				case 4, 5, 6:
					xs = append(xs, fmt.Sprintf("%d:e", now))
				case 7, 8:
					xs = append(xs, fmt.Sprintf("%d:t:%d", now, 1+g.Intn(7)))
				default:
					num := 1 + g.Intn(3)
					xs = append(xs, fmt.Sprintf("%d:u:%d:%d:%d", now, 1+g.Intn(7), num, g.Intn(num+1)))
				}
			}
			emit("sops", "sops "+strings.Join(xs, ","))
		case 0:
			// plan ids around the decimal-digit boundaries, in a random order
			k := 1 + g.Intn(14)
			max := []int{9, 12, 25, 120, 1100}[g.Intn(5)]
			if k > max {
				k = max
			}
			emit("iro", "iro "+c18mJoinU(distinctIDs(k, max)))
		case 1:
			b := c19Bytes(g)
			if g.Chance(30) {
				b = append(b, make([]byte, 1+g.Intn(3))...)
			}
			emit("eibckey", "eibckey "+HexD(b))
		case 2:
			s := []byte(commontypes.EncodePacketKey(c19Bytes(g)))
			if g.Chance(50) && len(s) > 0 {
				switch g.Intn(4) {
				case 0:
					s[g.Intn(len(s))] = "=\n !-_"[g.Intn(6)]
				case 1:
					s = s[:g.Intn(len(s))]
				case 2:
					s = append(s, "=A\n"[g.Intn(3)])
				case 3:
					s = append(s, s...)
				}
				r.Hit("eibcdec-perturbed")
			}
			emit("eibcdec", "eibcdec "+HexD(s))
		case 3:
			emit("da", fmt.Sprintf("da %d %d", g.Intn(2), g.Intn(4)))
		case 4, 5:
			now := g.Intn(40)
			var xs []string
			for _, id := range distinctIDs(1+g.Intn(6), 9) {
				num := 1 + g.Intn(3)
				xs = append(xs, fmt.Sprintf("%d:%d:%d:%d:%d", id, []int{0, 5, 5, 10, now, now + 1, 30}[g.Intn(7)], g.Intn(2), num, g.Intn(num+1)))
			}
			emit("gauges", fmt.Sprintf("gauges %d %s", now, strings.Join(xs, ",")))
		case 6, 7:
			now := g.Intn(40)
			var xs []string
			for _, id := range distinctIDs(1+g.Intn(6), 9) {
				num := 1 + g.Intn(3)
				xs = append(xs, fmt.Sprintf("%d:%d:%d:%d", id, []int{0, 5, 5, 10, now, now + 1, 30}[g.Intn(7)], num, g.Intn(num+1)))
			}
			emit("streams", fmt.Sprintf("streams %d %s", now, strings.Join(xs, ",")))
		case 8:
			var xs []string
			for _, id := range distinctIDs(1+g.Intn(7), 12) {
				xs = append(xs, fmt.Sprintf("%d:%d:%d", id, []int{1, 60, 60, 3600}[g.Intn(4)], g.Intn(2)))
			}
			emit("locks", "locks "+strings.Join(xs, ","))
		case 9:
			var xs []string
			seen := map[string]bool{}
			for j := 0; j < 1+g.Intn(6); j++ {
				x := fmt.Sprintf("%d:%d:%d", g.Intn(3), g.Intn(2), []int{5, 6, 10, 300}[g.Intn(4)])
				if !seen[x] {
					seen[x] = true
					xs = append(xs, x)
				}
			}
			emit("lcsig", "lcsig "+strings.Join(xs, ","))
		default:
			if g.Bool() {
				var xs []string
				for j := 0; j < 1+g.Intn(4); j++ {
					vp := []string{"0", "1", "3", "1000", "1000000000000000002"}[g.Intn(5)]
					var ws []string
					left := 100
					for _, gid := range distinctIDs(g.Intn(4), 5) {
						if left == 0 {
							break
						}
						w := 1 + g.Intn(left)
						left -= w
						ws = append(ws, fmt.Sprintf("%d=%d000000000000000000", gid, w))
					}
					xs = append(xs, vp+":"+strings.Join(ws, "+"))
				}
				emit("spons", "spons "+strings.Join(xs, ","))
			} else {
				amt := func() string {
					var xs []string
					for j := 0; j < g.Intn(3); j++ {
						xs = append(xs, fmt.Sprint(1+g.Intn(1000)))
					}
					if len(xs) == 0 {
						return "-"
					}
					return strings.Join(xs, ",")
				}
				emit("dymns", "dymns "+amt()+" "+amt())
			}
		}
	}
}

// HexD / UnHex: hex with "-" for the empty string (line protocol convention)
func HexD(b []byte) string { return Hex(b) }

func UnHex(s string) []byte {
	if s == "-" {
		return nil
	}
	out := make([]byte, len(s)/2)
	for i := range out {
		v, _ := strconv.ParseUint(s[2*i:2*i+2], 16, 8)
		out[i] = byte(v)
	}
	return out
}
