package harness

// C10 on a REAL TWO-CHAIN fixture: directed traces of the same op language as c10_test.go, executed with
// the ibc-go testing Coordinator (the package /repo/ibctesting uses): a hub chain and a rollapp chain, both
// the production application with the production ante handler, committing real blocks.  Clients,
// connections and channels are opened through the real handshake messages with real proofs, packets are
// committed on the rollapp chain and relayed to the hub with a real MsgRecvPacket carrying a real proof
// that ibc core verifies against the rollapp's light client.
//
// A trace whose `reset` line carries the token `fixture=coord` runs here (the Lean driver ignores unknown
// tokens on that line); every other op line has the format of c10_test.go and yields an observation in
// exactly the format of c10Snap.render: the hub application is looked at through the same `Fix` / `ibcEnv`
// / `c10H` objects (snapshot, token mapping, monitors, genesis-info and packet-data builders are the ones of
// c10_test.go), only the transport differs:
//
//   create / setgi / send ...  the message is signed by the hub chain's sender account and delivered in a
//                         block of its own (c10H.deliverFn); a message whose signer is somebody else
//                         (governance, a non-owner) is handed to the message router directly
//   seq r                 MsgCreateSequencer in a hub block; the dymint key is the rollapp chain's validator key
//   canon r               the rollapp chain is started, clients are created on both chains and the connection
//                         handshake runs (4 real messages); the hub's client of the rollapp is then DESIGNATED
//                         canonical through the keeper (designation itself is property C09's subject)
//   chopen r via=ack      hub ChanOpenInit, rollapp ChanOpenTry, hub MsgChannelOpenAck as the top-level message of a
//                         transaction (refusal by the ante hook is an outcome, not a failure), rollapp ChanOpenConfirm
//   chopen r via=nested   the same with the MsgChannelOpenAck inside authz.MsgExec
//   chopen r via=try      rollapp ChanOpenInit, hub ChanOpenTry, rollapp ChanOpenAck, hub ChanOpenConfirm
//   recv cN ph=H ...      the packet data is committed on the rollapp chain (a real MsgTransfer of the rollapp's
//                         sender when the data is a well-formed ICS-20 transfer, the channel keeper's SendPacket
//                         otherwise: there is no genesis-bridge sender module on the rollapp side - what
//                         /repo/ibctesting/genesis_bridge_test.go does), the hub's client is updated, and the packet is
//                         relayed with MsgRecvPacket + proof.  `ph` is an input of the model (it becomes the
//                         transfer proof height): the rollapp chain is driven to the height at which the proof
//                         height is exactly `ph` (empty blocks); a line whose `ph` cannot be met fails loudly.
//   tick dt=              the coordinator's clock moves on by dt and the hub commits a block
//
// `now=` of the observation is the sum of the `tick` dts (the model's clock moves on `tick` only; the
// coordinator's block time moves on with every block, which matters for IRO plans and pre-launch times
// only - not used in these traces).
//
// Fixture artefacts (as in /repo/ibctesting): Rollapp.Revisions[0].Number is set to 2 after `create` (the
// testing package signs headers with app version 2, which the hub compares with the rollapp's revision).
// All keys are derived from constants; transactions carry a fixed memo.

import (
	"bytes"
	"crypto/sha256"
	"encoding/json"
	"fmt"
	"math/rand"
	"os"
	"strings"
	"testing"
	"time"

	"cosmossdk.io/math"
	abci "github.com/cometbft/cometbft/abci/types"
	cmtproto "github.com/cometbft/cometbft/proto/tendermint/types"
	cmttypes "github.com/cometbft/cometbft/types"
	codectypes "github.com/cosmos/cosmos-sdk/codec/types"
	"github.com/cosmos/cosmos-sdk/crypto/keys/ed25519"
	"github.com/cosmos/cosmos-sdk/crypto/keys/secp256k1"
	simtestutil "github.com/cosmos/cosmos-sdk/testutil/sims"
	sdk "github.com/cosmos/cosmos-sdk/types"
	authtypes "github.com/cosmos/cosmos-sdk/x/auth/types"
	"github.com/cosmos/cosmos-sdk/x/authz"
	banktestutil "github.com/cosmos/cosmos-sdk/x/bank/testutil"
	banktypes "github.com/cosmos/cosmos-sdk/x/bank/types"
	distrtypes "github.com/cosmos/cosmos-sdk/x/distribution/types"
	govtypes "github.com/cosmos/cosmos-sdk/x/gov/types"
	transfertypes "github.com/cosmos/ibc-go/v8/modules/apps/transfer/types"
	clienttypes "github.com/cosmos/ibc-go/v8/modules/core/02-client/types"
	channeltypes "github.com/cosmos/ibc-go/v8/modules/core/04-channel/types"
	host "github.com/cosmos/ibc-go/v8/modules/core/24-host"
	ibcexported "github.com/cosmos/ibc-go/v8/modules/core/exported"
	ibctesting "github.com/cosmos/ibc-go/v8/testing"
	ibcmock "github.com/cosmos/ibc-go/v8/testing/mock"

	"github.com/dymensionxyz/dymension/v3/app"
	"github.com/dymensionxyz/dymension/v3/app/apptesting"
	lctypes "github.com/dymensionxyz/dymension/v3/x/lightclient/types"
	seqtypes "github.com/dymensionxyz/dymension/v3/x/sequencer/types"
)

func c10IsCoordTrace(reset string) bool {
	for _, f := range strings.Fields(reset) {
		if f == "fixture=coord" {
			return true
		}
	}
	return false
}

type c10CoordH struct {
	t     *testing.T
	h     *c10H
	coord *ibctesting.Coordinator
	hub   *ibctesting.TestChain
	ra    map[int]*ibctesting.TestChain // rollapp chains (started by `canon`)
	base  map[int]*ibctesting.Path      // clients + connection between the hub and rollapp chain r
	paths map[string]*ibctesting.Path   // hub channel id -> path of that channel
	// digests of the hub's custom-module stores right before / after the block that carries the MsgRecvPacket
	dBefore, dAfter string
	nSeq            int
	lastTx          *abci.ExecTxResult // result of the last transaction `deliver` put into a hub block
}

const c10CoordGas = 60_000_000

func c10CoordDebug(format string, a ...any) {
	if os.Getenv("C10_DEBUG") != "" {
		fmt.Fprintf(os.Stderr, "DEBUG coord: "+format+"\n", a...)
	}
}

// c10CoordChain starts a chain of the coordinator: the production application, one validator, one funded
// sender account, keys derived from constants (ibctesting.NewTestChain draws random ones)
func c10CoordChain(t *testing.T, coord *ibctesting.Coordinator, chainID, valSecret, senderSecret string) *ibctesting.TestChain {
	valPriv := ibcmock.PV{PrivKey: ed25519.GenPrivKeyFromSecret([]byte(valSecret))}
	valPub, err := valPriv.GetPubKey()
	if err != nil {
		t.Fatal(err)
	}
	senderPriv := secp256k1.GenPrivKeyFromSecret([]byte(senderSecret))
	acc := authtypes.NewBaseAccount(senderPriv.PubKey().Address().Bytes(), senderPriv.PubKey(), 0, 0)
	bal := banktypes.Balance{Address: acc.GetAddress().String(), Coins: sdk.NewCoins(sdk.NewCoin(sdk.DefaultBondDenom, math.NewIntWithDecimal(1, 19)))}
	valSet := cmttypes.NewValidatorSet([]*cmttypes.Validator{cmttypes.NewValidator(valPub, 1)})
	signers := map[string]cmttypes.PrivValidator{valPub.Address().String(): valPriv}
	tapp := ibctesting.SetupWithGenesisValSet(t, valSet, []authtypes.GenesisAccount{acc}, chainID, sdk.DefaultPowerReduction, bal)
	chain := &ibctesting.TestChain{
		TB: t, Coordinator: coord, ChainID: chainID, App: tapp,
		CurrentHeader: cmtproto.Header{ChainID: chainID, Height: 1, Time: coord.CurrentTime.UTC()},
		QueryServer:   tapp.GetIBCKeeper(), TxConfig: tapp.GetTxConfig(), Codec: tapp.AppCodec(),
		Vals: valSet, NextVals: valSet, Signers: signers,
		SenderPrivKey: senderPriv, SenderAccount: acc,
		SenderAccounts: []ibctesting.SenderAccount{{SenderPrivKey: senderPriv, SenderAccount: acc}},
	}
	chain.SendMsgsOverride = func(msgs ...sdk.Msg) (*abci.ExecTxResult, error) { return c10CoordSend(chain, msgs...) }
	coord.Chains[chainID] = chain
	coord.CommitBlock(chain)
	return chain
}

// c10CoordSend = TestChain.SendMsgs (one transaction of the chain's sender account in a block of its own) with
// the account number / sequence read from the chain (a transaction refused by the ante handler does not
// consume a sequence number), a fixed memo, the block's proposer in the FinalizeBlock request, and the
// coordinator's clock moved on after a failed transaction too.
func c10CoordSend(chain *ibctesting.TestChain, msgs ...sdk.Msg) (*abci.ExecTxResult, error) {
	chain.Coordinator.UpdateTimeForChain(chain)
	a := chain.App.(*app.App)
	acc := a.AccountKeeper.GetAccount(chain.GetContext(), chain.SenderAccount.GetAddress())
	if acc == nil {
		return nil, fmt.Errorf("sender account missing")
	}
	tx, err := simtestutil.GenSignedMockTx(rand.New(rand.NewSource(1)), chain.TxConfig, msgs, sdk.Coins{sdk.NewInt64Coin(sdk.DefaultBondDenom, 0)},
		c10CoordGas, chain.ChainID, []uint64{acc.GetAccountNumber()}, []uint64{acc.GetSequence()}, chain.SenderPrivKey)
	if err != nil {
		return nil, err
	}
	bz, err := chain.TxConfig.TxEncoder()(tx)
	if err != nil {
		return nil, err
	}
	resp, err := chain.App.GetBaseApp().FinalizeBlock(&abci.RequestFinalizeBlock{
		Height: chain.App.LastBlockHeight() + 1, Time: chain.CurrentHeader.GetTime(), NextValidatorsHash: chain.NextVals.Hash(),
		ProposerAddress: chain.CurrentHeader.ProposerAddress, Txs: [][]byte{bz}})
	if err != nil {
		return nil, err
	}
	// --- TestChain.commitBlock (unexported), verbatim in substance
	if _, err := chain.App.Commit(); err != nil {
		return nil, err
	}
	chain.LastHeader = chain.CurrentTMClientHeader()
	chain.Vals = chain.NextVals
	chain.NextVals = ibctesting.ApplyValSetChanges(chain.TB, chain.Vals, resp.ValidatorUpdates)
	chain.Vals.IncrementProposerPriority(1)
	chain.CurrentHeader = cmtproto.Header{
		ChainID: chain.ChainID, Height: chain.App.LastBlockHeight() + 1, AppHash: chain.App.LastCommitID().Hash,
		Time: chain.CurrentHeader.Time, ValidatorsHash: chain.Vals.Hash(), NextValidatorsHash: chain.NextVals.Hash(),
		ProposerAddress: chain.Vals.Proposer.Address,
	}
	chain.Coordinator.IncrementTime()
	if len(resp.TxResults) != 1 {
		return nil, fmt.Errorf("%d tx results", len(resp.TxResults))
	}
	txr := resp.TxResults[0]
	if txr.Code != 0 {
		return txr, fmt.Errorf("%s/%d: %q", txr.Codespace, txr.Code, txr.Log)
	}
	return txr, nil
}

func c10CoordRaSecret(ri int) string { return fmt.Sprintf("dymverif-coord-rollapp-val-%d", ri) }

func newC10CoordH(t *testing.T) *c10CoordH {
	ibctesting.DefaultTestingAppInit = func() (ibctesting.TestingApp, map[string]json.RawMessage) {
		return apptesting.SetupTestingApp()
	}
	coord := &ibctesting.Coordinator{T: t, CurrentTime: BaseTime, Chains: map[string]*ibctesting.TestChain{}}
	hub := c10CoordChain(t, coord, apptesting.TestChainID, "dymverif-coord-hub-val", "dymverif-coord-hub-sender")
	c := &c10CoordH{t: t, coord: coord, hub: hub, ra: map[int]*ibctesting.TestChain{}, base: map[int]*ibctesting.Path{}, paths: map[string]*ibctesting.Path{}}
	// the view of the hub application c10_test.go works on; `now` = BaseTime + ticks (see the header comment)
	f := &Fix{T: t, App: hub.App.(*app.App), Ctx: hub.GetContext(), Height: hub.CurrentHeader.Height, Time: BaseTime}
	e := &ibcEnv{t: t, f: f, owner: hub.SenderAccount.GetAddress()}
	e.finishEnv()
	e.relayer = e.owner // the one account that signs on the hub chain
	h := &c10H{e: e, t: t, canonOf: map[int]string{}, connOf: map[int]string{}, complete: map[int]bool{}, seqNo: map[int]uint64{}, hasCanonChan: map[int]bool{}, nOpen: map[int]int{}, seqOf: map[int]int{}}
	h.gov = authtypes.NewModuleAddress(govtypes.ModuleName).String()
	if !f.App.BankKeeper.BlockedAddr(authtypes.NewModuleAddress(distrtypes.ModuleName)) {
		t.Fatal("distribution module account is expected to be blocked")
	}
	h.deliverFn, h.recvFn = c.deliver, c.recv
	c.h = h
	coord.CommitBlock(hub)
	c.refresh()
	return c
}

// refresh: the Fix's context follows the hub chain's current header (after every committed block)
func (c *c10CoordH) refresh() {
	f := c.h.e.f
	f.Ctx, f.Height = c.hub.GetContext(), c.hub.CurrentHeader.Height
}

func (c *c10CoordH) hubApp() *app.App { return c.hub.App.(*app.App) }

// deliver: a message of the hub sender goes into a transaction in a block of its own; anybody else's
// (governance, a non-owner: nobody here can sign for them) is handed to the message router directly
func (c *c10CoordH) deliver(msg sdk.Msg) (err error) {
	defer c.refresh()
	signers, _, serr := c.hubApp().AppCodec().GetMsgV1Signers(msg)
	if serr == nil && len(signers) == 1 && bytes.Equal(signers[0], c.hub.SenderAccount.GetAddress()) {
		c.lastTx, err = c.hub.SendMsgs(msg)
		if err != nil {
			c10CoordDebug("tx of %T failed: %v", msg, err)
			if strings.Contains(err.Error(), "panic") {
				return &PanicError{Val: err.Error()}
			}
		}
		return err
	}
	c.refresh()
	defer func() {
		if r := recover(); r != nil {
			err = &PanicError{Val: r}
		}
	}()
	_, err = c.h.e.f.Deliver(msg)
	return err
}

func (c *c10CoordH) must(what string, err error) {
	if err != nil {
		c.t.Fatalf("coordinator fixture: %s: %v", what, err)
	}
}

// raChain: the rollapp chain of rollapp r (chain id = rollapp id), started on first use
func (c *c10CoordH) raChain(ri int) *ibctesting.TestChain {
	if ch, ok := c.ra[ri]; ok {
		return ch
	}
	ch := c10CoordChain(c.t, c.coord, ibcRollappID(ri), c10CoordRaSecret(ri), fmt.Sprintf("dymverif-coord-rollapp-sender-%d", ri))
	c.ra[ri] = ch
	return ch
}

func (c *c10CoordH) canonicalClientConfig() *ibctesting.TendermintConfig {
	p := lctypes.DefaultExpectedCanonicalClientParams()
	return &ibctesting.TendermintConfig{TrustLevel: p.TrustLevel, TrustingPeriod: p.TrustingPeriod, UnbondingPeriod: p.UnbondingPeriod, MaxClockDrift: p.MaxClockDrift}
}

// chanPath: a path for one more transfer channel over the clients and the connection of `base`
func (c *c10CoordH) chanPath(base *ibctesting.Path) *ibctesting.Path {
	p := ibctesting.NewPath(base.EndpointA.Chain, base.EndpointB.Chain)
	for i, ep := range []*ibctesting.Endpoint{p.EndpointA, p.EndpointB} {
		src := []*ibctesting.Endpoint{base.EndpointA, base.EndpointB}[i]
		ep.ClientID, ep.ConnectionID, ep.ClientConfig, ep.ConnectionConfig = src.ClientID, src.ConnectionID, src.ClientConfig, src.ConnectionConfig
		ep.ChannelConfig.PortID, ep.ChannelConfig.Version, ep.ChannelConfig.Order = ibctesting.TransferPort, transfertypes.Version, channeltypes.UNORDERED
	}
	return p
}

// ackMsg: the hub's MsgChannelOpenAck built the way Endpoint.ChanOpenAck builds it (the hub's client was updated before)
func (c *c10CoordH) ackMsg(p *ibctesting.Path) *channeltypes.MsgChannelOpenAck {
	a, b := p.EndpointA, p.EndpointB
	proof, height := b.QueryProof(host.ChannelKey(b.ChannelConfig.PortID, b.ChannelID))
	return channeltypes.NewMsgChannelOpenAck(a.ChannelConfig.PortID, a.ChannelID, b.ChannelID, b.ChannelConfig.Version, proof, height, c.hub.SenderAccount.GetAddress().String())
}

func (c *c10CoordH) hubChanState(p *ibctesting.Path) channeltypes.State {
	ch, ok := c.hubApp().IBCKeeper.ChannelKeeper.GetChannel(c.hub.GetContext(), p.EndpointA.ChannelConfig.PortID, p.EndpointA.ChannelID)
	if !ok {
		return channeltypes.UNINITIALIZED
	}
	return ch.State
}

func (c *c10CoordH) exec(line string) (res string, rc *c10Recv) {
	defer c.refresh()
	c.refresh()
	f := strings.Fields(line)
	m := parseKV(f)
	h := c.h
	hubApp := c.hubApp()
	switch f[0] {
	case "create":
		res, rc = h.exec(line) // MsgCreateRollapp in a transaction of the owner (deliverFn)
		if res == "ok" {
			// /repo/ibctesting's hack: the testing package's headers carry app version 2, compared with the revision number
			c.refresh()
			ra := hubApp.RollappKeeper.MustGetRollapp(h.e.f.Ctx, ibcRollappID(ridx(f[1])))
			ra.Revisions[0].Number = 2
			hubApp.RollappKeeper.SetRollapp(h.e.f.Ctx, ra)
		}
		return res, rc
	case "setgi", "force", "premd", "recv":
		return h.exec(line)
	case "send":
		c.lastTx = nil
		res, rc = h.exec(line) // MsgTransfer in a transaction of the hub's sender
		if ch, ok := h.chanByTok(f[1]); ok && res == "ok" && c.lastTx != nil {
			c.relayOut(c.paths[ch.id], c.lastTx)
		}
		return res, rc
	case "tick":
		dt := time.Duration(atou(m["dt"])) * time.Second
		c.coord.IncrementTimeBy(dt)
		c.coord.CommitBlock(c.hub)
		h.e.f.Time = h.e.f.Time.Add(dt)
		return "ok", nil
	case "seq":
		ri := ridx(f[1])
		if ra, ok := hubApp.RollappKeeper.GetRollapp(h.e.f.Ctx, ibcRollappID(ri)); ok && ra.Launched {
			return "ok", nil
		}
		// the dymint key is the key of the rollapp chain's one validator: its headers are the sequencer's
		pkAny, err := codectypes.NewAnyWithValue(ed25519.GenPrivKeyFromSecret([]byte(c10CoordRaSecret(ri))).PubKey())
		c.must("dymint key", err)
		creator := h.e.owner // signs the transaction
		if c.nSeq > 0 {
			creator = Actor(200 + c.nSeq) // a second sequencer needs another account: delivered directly
			h.e.f.Fund(creator, sdk.NewCoin(ibcDenom, math.NewIntFromUint64(1_000_000_000)))
		}
		msg := seqtypes.MsgCreateSequencer{Creator: creator.String(), DymintPubKey: pkAny, RollappId: ibcRollappID(ri),
			Bond: sdk.NewCoin(ibcDenom, math.NewIntFromUint64(1000)),
			Metadata: seqtypes.SequencerMetadata{Rpcs: []string{"https://rpc.wpd.evm.rollapp.noisnemyd.xyz:443"},
				EvmRpcs: []string{"https://rpc.evm.rollapp.noisnemyd.xyz:443"}, RestApiUrls: []string{"https://api.wpd.evm.rollapp.noisnemyd.xyz:443"}}}
		err = c.deliver(&msg)
		if err == nil {
			c.nSeq++
		}
		return c10Res(err), nil
	case "canon":
		ri := ridx(f[1])
		id := ibcRollappID(ri)
		ra, ok := hubApp.RollappKeeper.GetRollapp(h.e.f.Ctx, id)
		if _, has := hubApp.LightClientKeeper.GetCanonicalClient(h.e.f.Ctx, id); !ok || !ra.Launched || has {
			return "err", nil
		}
		rc := c.raChain(ri)
		p := ibctesting.NewPath(c.hub, rc)
		p.EndpointA.ClientConfig, p.EndpointB.ClientConfig = c.canonicalClientConfig(), c.canonicalClientConfig()
		c.coord.SetupConnections(p) // MsgCreateClient x2, ConnOpenInit / Try / Ack / Confirm with real proofs
		hubApp.LightClientKeeper.SetCanonicalClient(c.hub.GetContext(), id, p.EndpointA.ClientID) // designation itself is C09's subject
		c.base[ri] = p
		h.canonOf[ri], h.connOf[ri] = p.EndpointA.ClientID, p.EndpointA.ConnectionID
		return "ok", nil
	case "chopen":
		ri := ridx(f[1])
		base, ok := c.base[ri]
		if !ok {
			return "err", nil
		}
		p := c.chanPath(base)
		a, b := p.EndpointA, p.EndpointB
		kind := byte('s')
		switch m["via"] {
		case "ack", "nested":
			c.must("hub ChanOpenInit", a.ChanOpenInit())
			c.must("rollapp ChanOpenTry", b.ChanOpenTry())
			c.must("hub UpdateClient", a.UpdateClient())
			ack := c.ackMsg(p)
			if m["via"] == "ack" {
				if _, err := c.hub.SendMsgs(ack); err != nil {
					c10CoordDebug("top-level MsgChannelOpenAck refused: %v", err)
					if st := c.hubChanState(p); st != channeltypes.INIT {
						c.t.Fatalf("coordinator fixture: refused MsgChannelOpenAck left %s in state %s", a.ChannelID, st)
					}
					return "err", nil // refused: the channel stays in INIT, its identifier is spent
				}
				if !h.hasCanonChan[ri] {
					kind = 'c'
					h.hasCanonChan[ri] = true
				}
			} else {
				exec := authz.NewMsgExec(c.hub.SenderAccount.GetAddress(), []sdk.Msg{ack}) // grantee = signer: no grant needed
				_, err := c.hub.SendMsgs(&exec)
				c.must("MsgChannelOpenAck nested in authz.MsgExec", err)
			}
			c.must("rollapp ChanOpenConfirm", b.ChanOpenConfirm())
		default:
			c.must("rollapp ChanOpenInit", b.ChanOpenInit())
			c.must("hub ChanOpenTry", a.ChanOpenTry())
			c.must("rollapp ChanOpenAck", b.ChanOpenAck())
			c.must("hub ChanOpenConfirm", a.ChanOpenConfirm())
		}
		if st := c.hubChanState(p); st != channeltypes.OPEN {
			c.t.Fatalf("coordinator fixture: %s is %s after the handshake", a.ChannelID, st)
		}
		if want := fmt.Sprintf("channel-%d", c.nHubChans()-1); a.ChannelID != want {
			c.t.Fatalf("coordinator fixture: hub channel %s, expected %s", a.ChannelID, want)
		}
		h.chans = append(h.chans, c10Chan{a.ChannelID, kind, ri})
		c.paths[a.ChannelID] = p
		return "ok", nil
	}
	return "bad-op", nil
}

// relayOut: a transfer the hub let out is received by the rollapp chain (MsgRecvPacket with a proof of the hub's
// commitment) and its acknowledgement is brought back to the hub (MsgAcknowledgement with a proof from the rollapp
// chain).  The outcome on the rollapp side is not part of the observation.
func (c *c10CoordH) relayOut(p *ibctesting.Path, tx *abci.ExecTxResult) {
	packet, err := ibctesting.ParsePacketFromEvents(tx.Events)
	c.must("packet of the hub's MsgTransfer", err)
	a, b := p.EndpointA, p.EndpointB
	c.must("rollapp UpdateClient", b.UpdateClient())
	res, err := b.RecvPacketWithResult(packet) // updates the hub's client afterwards
	c.must("MsgRecvPacket on the rollapp chain", err)
	ack, err := ibctesting.ParseAckFromEvents(res.Events)
	c.must("acknowledgement of the rollapp chain", err)
	c.must("MsgAcknowledgement on the hub", a.AcknowledgePacket(packet, ack))
	c10CoordDebug("outgoing packet %d on %s relayed, acknowledgement %s", packet.Sequence, a.ChannelID, ack)
}

func (c *c10CoordH) nHubChans() int {
	return len(c.hubApp().IBCKeeper.ChannelKeeper.GetAllChannels(c.hub.GetContext()))
}

// recv: c10H's `recv` built the packet data; here it is committed on the rollapp chain and relayed to the hub
func (c *c10CoordH) recv(pkt channeltypes.Packet, ph clienttypes.Height) (ack ibcexported.Acknowledgement, errText string, err error) {
	defer c.refresh()
	p, ok := c.paths[pkt.DestinationChannel]
	if !ok {
		return nil, "", fmt.Errorf("no path for %s", pkt.DestinationChannel)
	}
	a, b := p.EndpointA, p.EndpointB
	rc := b.Chain
	// height schedule: the commitment goes into block L+1, the client update commits L+2, the proof height is L+2
	target := int64(ph.RevisionHeight) - 2
	if cur := rc.App.LastBlockHeight(); cur > target {
		c.t.Fatalf("coordinator fixture: proof height ph=%d cannot be met, the rollapp chain is at height %d already (smallest possible ph: %d)", ph.RevisionHeight, cur, cur+2)
	}
	for rc.App.LastBlockHeight() < target {
		c.coord.CommitBlock(rc)
	}
	timeout := clienttypes.NewHeight(clienttypes.ParseChainID(c.hub.ChainID), 100000)
	var packet channeltypes.Packet
	var ft transfertypes.FungibleTokenPacketData
	raApp := rc.App.(*app.App)
	real := false
	if json.Unmarshal(pkt.Data, &ft) == nil && ft.Sender == "rollappsender" && ft.Memo == "" && sdk.ValidateDenom(ft.Denom) == nil {
		amt, okAmt := math.NewIntFromString(ft.Amount)
		_, rerr := sdk.AccAddressFromBech32(ft.Receiver)
		if okAmt && amt.IsPositive() && amt.String() == ft.Amount && rerr == nil && bytes.Equal(ft.GetBytes(), pkt.Data) {
			// a well-formed ICS-20 transfer: a real MsgTransfer of the rollapp chain's sender account
			real = true
			coin := sdk.NewCoin(ft.Denom, amt)
			c.must("fund rollapp sender", banktestutil.FundAccount(rc.GetContext(), raApp.BankKeeper, rc.SenderAccount.GetAddress(), sdk.NewCoins(coin)))
			msg := transfertypes.NewMsgTransfer(b.ChannelConfig.PortID, b.ChannelID, coin, rc.SenderAccount.GetAddress().String(), ft.Receiver, timeout, 0, "")
			res, serr := rc.SendMsgs(msg)
			c.must("MsgTransfer on the rollapp chain", serr)
			packet, serr = ibctesting.ParsePacketFromEvents(res.Events)
			c.must("packet of the rollapp's MsgTransfer", serr)
			c.must("hub UpdateClient", a.UpdateClient())
		}
	}
	if !real {
		// no sender module for this data on the rollapp side: the commitment is written through the channel keeper
		seq, serr := b.SendPacket(timeout, 0, pkt.Data) // commits the block and updates the hub's client
		c.must("SendPacket on the rollapp chain", serr)
		packet = channeltypes.NewPacket(pkt.Data, seq, b.ChannelConfig.PortID, b.ChannelID, a.ChannelConfig.PortID, a.ChannelID, timeout, 0)
	}
	proof, proofHeight := b.QueryProof(host.PacketCommitmentKey(packet.GetSourcePort(), packet.GetSourceChannel(), packet.GetSequence()))
	if proofHeight.RevisionHeight != ph.RevisionHeight {
		c.t.Fatalf("coordinator fixture: the proof was taken at height %d, the op line says ph=%d", proofHeight.RevisionHeight, ph.RevisionHeight)
	}
	// fixture self-check: the same proof with other packet data must be refused by ibc core (the proofs ARE verified)
	forged := packet
	forged.Data = append(append([]byte(nil), packet.Data...), ' ')
	if _, ferr := c.hub.SendMsgs(channeltypes.NewMsgRecvPacket(forged, proof, proofHeight, c.hub.SenderAccount.GetAddress().String())); ferr == nil ||
		!strings.Contains(ferr.Error(), "couldn't verify counterparty packet commitment") {
		c.t.Fatalf("coordinator fixture: MsgRecvPacket with forged packet data and the real proof: %v", ferr)
	}
	msg := channeltypes.NewMsgRecvPacket(packet, proof, proofHeight, c.hub.SenderAccount.GetAddress().String())
	c.refresh()
	c.dBefore = c.digest()
	res, serr := c.hub.SendMsgs(msg)
	c.refresh()
	c.dAfter = c.digest()
	if serr != nil {
		c10CoordDebug("MsgRecvPacket failed: %v", serr)
		return nil, "", serr
	}
	for _, ev := range res.Events {
		for _, at := range ev.Attributes {
			if strings.HasSuffix(at.Key, "message") && strings.Contains(ev.Type, "error") {
				errText = at.Value
			}
		}
	}
	ackBz, perr := ibctesting.ParseAckFromEvents(res.Events)
	if perr != nil {
		return nil, errText, nil // no acknowledgement written: asynchronous
	}
	var out channeltypes.Acknowledgement
	if uerr := transfertypes.ModuleCdc.UnmarshalJSON(ackBz, &out); uerr != nil {
		c.t.Fatalf("coordinator fixture: acknowledgement %q: %v", ackBz, uerr)
	}
	// the acknowledgement written on the hub equals the one in the events
	if stored, found := c.hubApp().IBCKeeper.ChannelKeeper.GetPacketAcknowledgement(c.hub.GetContext(), packet.GetDestPort(), packet.GetDestChannel(), packet.GetSequence()); !found || !bytes.Equal(stored, channeltypes.CommitAcknowledgement(ackBz)) {
		c.t.Fatalf("coordinator fixture: stored acknowledgement differs from the event's")
	}
	return out, errText, nil
}

// digest: what c10RunTrace digests around a `recv` (the stores of rollapp, bank, iro, denommetadata, transfer,
// delayedack), taken right before and right after the block that carries the MsgRecvPacket.  That block also
// runs the chain's own Begin/EndBlockers, which move coins of the chain's native denoms between module accounts
// (minting, fee distribution): of the bank store the digest therefore covers the denom metadata and the
// balances and supplies of every denom but the chain's native ones.
func (c *c10CoordH) digest() string {
	f := c.h.e.f
	hs := sha256.New()
	hs.Write([]byte(f.StoreDigest("rollapp", "iro", "denommetadata", "transfer", "delayedack")))
	native := func(d string) bool { return d == ibcDenom || d == sdk.DefaultBondDenom }
	bk := f.App.BankKeeper
	bk.IterateAllBalances(f.Ctx, func(a sdk.AccAddress, coin sdk.Coin) bool {
		if !native(coin.Denom) {
			fmt.Fprintf(hs, "bal %x %s;", a.Bytes(), coin)
		}
		return false
	})
	bk.IterateTotalSupply(f.Ctx, func(coin sdk.Coin) bool {
		if !native(coin.Denom) {
			fmt.Fprintf(hs, "sup %s;", coin)
		}
		return false
	})
	bk.IterateAllDenomMetaData(f.Ctx, func(md banktypes.Metadata) bool {
		fmt.Fprintf(hs, "md %s;", md.String())
		return false
	})
	return fmt.Sprintf("%x", hs.Sum(nil)[:8])
}

func c10CoordRunTrace(t *testing.T, r *Run, lines []string) {
	t0 := time.Now()
	c := newC10CoordH(t)
	h := c.h
	// C12's per-op digest of every store follows the hub application (keys, memos and block times are fixed: two
	// OS processes must produce byte-identical hub state through real blocks too); the generic export/import
	// hook of C18 swaps the application behind a fixture, which a coordinator chain cannot follow
	lastFix = h.e.f
	if c18Mode != "" {
		lastFix = nil
	}
	fixEpoch++
	mon := &c10Mon{h: h, r: r}
	hash := sha256.New()
	accepted := 0
	for _, op := range lines {
		mon.trace = append(mon.trace, op)
		f := strings.Fields(op)
		if f[0] == "reset" {
			h.nra = int(atou(parseKV(f)["nra"]))
			s := h.snapshot()
			r.Emit(op, s.render("ok"))
			mon.check(op, "ok", nil, s, "", "")
			continue
		}
		c.dBefore, c.dAfter = "", ""
		completeBefore := map[int]bool{}
		for k, v := range h.complete {
			completeBefore[k] = v
		}
		prev := mon.prev
		res, rc := c.exec(op)
		c.refresh()
		s := h.snapshot()
		r.Emit(op, s.render(res))
		mon.check(op, res, rc, s, c.dBefore, c.dAfter)
		if b := c.branch(f, res, rc, prev, s, completeBefore); b != "" {
			r.Hit("directed/coord/" + b)
		}
		r.Hit("coord/" + f[0] + "/" + strings.SplitN(res, ":", 2)[0])
		if strings.HasPrefix(res, "err:") {
			r.Hit("coord/ack/" + res)
		}
		hash.Write([]byte(f[0] + "/" + res + ";"))
		if res == "ok" && f[0] != "tick" {
			accepted++
		}
	}
	r.Class(fmt.Sprintf("coord-%x", hash.Sum(nil)[:8]), accepted > 0)
	r.Trace()
	c10CoordDebug("trace of %d ops took %v", len(lines), time.Since(t0))
}

// branch names what an op of a coordinator trace exercised, from the op, its outcome and the hub's state
// before / after it (never from what the trace was written to exercise)
func (c *c10CoordH) branch(f []string, res string, rc *c10Recv, prev, cur *c10Snap, completeBefore map[int]bool) string {
	m := parseKV(f)
	switch f[0] {
	case "chopen":
		ri := ridx(f[1])
		if prev == nil || ri >= len(prev.Ras) || ri >= len(cur.Ras) {
			return ""
		}
		before, after := prev.Ras[ri].Chan, cur.Ras[ri].Chan
		switch {
		case m["via"] == "ack" && res == "ok" && before == "-" && after != "-":
			return "handshake-ack" // canonical channel recorded
		case m["via"] == "ack" && res == "err" && before != "-" && after == before:
			return "handshake-ack-refused"
		case m["via"] == "nested" && res == "ok" && after == before:
			return "handshake-nested" // opened, nothing recorded
		case m["via"] == "try" && res == "ok" && after == before:
			return "handshake-try"
		}
	case "send":
		ch, ok := c.h.chanByTok(f[1])
		switch {
		case !ok:
		case ch.kind == 'c' && !completeBefore[ch.r] && res == "err":
			return "ics20-before-handshake-out"
		case ch.kind == 'c' && completeBefore[ch.r] && res == "ok":
			return "ics20-after-out"
		case ch.kind == 's' && res == "err":
			return "ics20-non-canonical-out"
		}
	case "recv":
		if rc == nil {
			return ""
		}
		errAck := !rc.success && !rc.isNil && strings.HasPrefix(res, "err:")
		switch {
		case rc.ch.kind == 's' && errAck:
			return "packet-non-canonical-in"
		case rc.ch.kind != 'c':
		case rc.kind == "ft" && !completeBefore[rc.ch.r] && errAck:
			return "ics20-before-handshake-in"
		case rc.kind == "ft" && completeBefore[rc.ch.r] && (rc.isNil || rc.success):
			return "ics20-after-in"
		case rc.kind == "gb" && !completeBefore[rc.ch.r] && rc.success && cur.Ras[rc.ch.r].Tph == atou(m["ph"]):
			return "genesis-bridge-real-proof"
		case rc.kind == "gb" && !completeBefore[rc.ch.r] && errAck:
			return "genesis-bridge-mismatch"
		case rc.kind == "gb" && completeBefore[rc.ch.r] && errAck:
			return "repeated-handshake"
		}
	}
	return ""
}

type c10CoordTrace struct {
	name  string
	lines []string
}

// c10CoordDirected: the directed traces on the two-chain fixture
func c10CoordDirected() []c10CoordTrace {
	const reset = "reset nra=2 fixture=coord"
	gi2 := "ck=1 pf=1 nb=1 nd=11 ne=18 sup=30 accs=1:10;2:20 sealed=0"
	hs := func(ch string, ph int) string {
		return fmt.Sprintf("recv %s ph=%d kind=gb %s md=1/1:0,11:18/1/1 mdshape=ok tr=1/30/1/0/1", ch, ph, gi2)
	}
	gi3 := "ck=2 pf=2 nb=2 nd=12 ne=18 sup=7 accs=3:7 sealed=0"
	hs3 := func(ch string, ph int) string {
		return fmt.Sprintf("recv %s ph=%d kind=gb %s md=2/2:0,12:18/1/1 mdshape=ok tr=2/7/1/0/1", ch, ph, gi3)
	}
	ft := func(ch string, ph int) string { return fmt.Sprintf("recv %s ph=%d kind=ft tr=1/5/1/1/1", ch, ph) }
	// a channel over the canonical client that the ante hook never saw (MsgChannelOpenAck nested in authz.MsgExec /
	// handshake started from the rollapp): it opens, no canonical channel is recorded, nothing flows on it in
	// either direction - before a canonical channel exists, before the handshake on that one, and after
	second := func(via string) []string {
		return []string{reset,
			"create r0 " + gi2,
			"seq r0",
			"canon r0",
			"chopen r0 via=" + via,
			"send c0",
			ft("c0", 40),
			hs("c0", 50),
			"chopen r0 via=ack",
			"send c1",
			ft("c1", 70),
			hs("c0", 80),
			"send c0",
			hs("c1", 90),
			"send c1",
			"send c0",
			ft("c0", 100),
			hs("c0", 110),
			ft("c1", 120),
			hs("c1", 130),
			"chopen r0 via=ack",
			"chopen r0 via=" + via,
			"send c3",
			ft("c3", 160),
		}
	}
	return []c10CoordTrace{
		{name: "ack",
			lines: []string{reset,
				"create r0 " + gi2,
				"seq r0",
				"canon r0",
				"chopen r0 via=ack",
				"send c0",
				ft("c0", 40),
				strings.Replace(hs("c0", 45), "kind=gb ck=1", "kind=gb ck=2", 1), // another genesis checksum: the bridge stays closed
				"tick dt=60",
				"send c0",
				hs("c0", 50),
				"send c0",
				ft("c0", 60),
				hs("c0", 70),
				"chopen r0 via=ack", // refused by the ante hook: channel-1 stays in INIT on the hub, the identifier is spent
				"chopen r0 via=try",
				"send c2",
				ft("c2", 100),
				"send c0",
				ft("c0", 110),
			}},
		{name: "nested", lines: second("nested")},
		{name: "try", lines: second("try")},
		{name: "two-rollapps", // two rollapp chains: the handshake packet of one rollapp on the canonical channel of the other opens nothing
			lines: []string{reset,
				"create r0 " + gi2,
				"create r1 " + gi3,
				"seq r0",
				"seq r1",
				"canon r0",
				"canon r1",
				"chopen r1 via=ack",
				"chopen r0 via=ack",
				hs("c0", 40), // r0's genesis info on r1's canonical channel
				hs3("c1", 40),
				"send c0",
				"send c1",
				hs("c1", 50),
				"send c1",
				"send c0",
				ft("c0", 50),
				hs3("c0", 60),
				"send c0",
				ft("c0", 70),
				ft("c1", 60),
			}},
	}
}

// TestC10CoordDump (debugging aid): prints the directed coordinator traces as a replay file
func TestC10CoordDump(t *testing.T) {
	if p := os.Getenv("C10_COORD_DUMP"); p != "" {
		var sb strings.Builder
		for _, d := range c10CoordDirected() {
			sb.WriteString(strings.Join(d.lines, "\n") + "\n")
		}
		if err := os.WriteFile(p, []byte(sb.String()), 0o644); err != nil {
			t.Fatal(err)
		}
	}
}

// TestC10CoordAnteWrite (standalone probe, outside the line protocol and outside ./check): on the two-chain
// fixture, a top-level MsgChannelOpenAck whose proof does not verify, for a channel the hub only has in INIT
// (MsgChannelOpenInit is permissionless, the rollapp never saw the channel).  The transaction fails in ibc core;
// what the ante hook wrote before is reported.  (Known finding C09/first_channel_only/unopened-channel-became-canonical.)
func TestC10CoordAnteWrite(t *testing.T) {
	if os.Getenv("C10_COORD_PROBE") == "" {
		t.Skip("set C10_COORD_PROBE=1")
	}
	c := newC10CoordH(t)
	c.h.nra = 1
	for _, op := range []string{"create r0 ck=1 pf=1 nb=1 nd=11 ne=18 sup=30 accs=1:10;2:20 sealed=0", "seq r0", "canon r0"} {
		if res, _ := c.exec(op); res != "ok" {
			t.Fatalf("%s: %s", op, res)
		}
	}
	p := c.chanPath(c.base[0])
	c.must("hub ChanOpenInit", p.EndpointA.ChanOpenInit())
	c.must("hub UpdateClient", p.EndpointA.UpdateClient())
	// the rollapp chain has no such channel: the proof (of absence) cannot verify a TRYOPEN channel end
	proof, height := p.EndpointB.QueryProof(host.ChannelKey(ibctesting.TransferPort, "channel-0"))
	ack := channeltypes.NewMsgChannelOpenAck(ibctesting.TransferPort, p.EndpointA.ChannelID, "channel-0", transfertypes.Version, proof, height, c.hub.SenderAccount.GetAddress().String())
	_, err := c.hub.SendMsgs(ack)
	c.refresh()
	ra := c.hubApp().RollappKeeper.MustGetRollapp(c.h.e.f.Ctx, ibcRollappID(0))
	t.Logf("tx error: %v", err)
	t.Logf("hub channel %s state %s, Rollapp.ChannelId = %q", p.EndpointA.ChannelID, c.hubChanState(p), ra.ChannelId)
	if err == nil {
		t.Fatal("the MsgChannelOpenAck with a proof that cannot verify was accepted")
	}
}
