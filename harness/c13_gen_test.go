package harness

import (
	"fmt"
	"math/big"
	"time"

	"cosmossdk.io/math"

	irotypes "github.com/dymensionxyz/dymension/v3/x/iro/types"
)

// C13 generator: state-aware traces (≈70 % valid ops, ≈30 % perturbed per the property's quantifier
// text) plus a stateless parameter sweep of the exact-spend (Newton) contract.

func c13Pick(g *Rng, xs ...string) string { return xs[g.Intn(len(xs))] }

// the curve functions panic on LegacyDec overflow (>315 bits); the generator only uses them as hints
func c13SafeTokens(curve irotypes.BondingCurve, sold, net math.Int) (t math.Int, ok bool) {
	defer func() {
		if e := recover(); e != nil {
			ok = false
		}
	}()
	t, err := curve.TokensForExactInAmount(sold, net)
	return t, err == nil
}

func c13SafeCost(curve irotypes.BondingCurve, x, x1 math.Int) (c math.Int) {
	defer func() {
		if e := recover(); e != nil {
			c = math.ZeroInt()
		}
	}()
	return curve.Cost(x, x1)
}

// random integer in [0, max]
func c13RandBelow(g *Rng, max math.Int) math.Int {
	if !max.IsPositive() {
		return math.ZeroInt()
	}
	b := new(big.Int)
	for i := 0; i < 5; i++ {
		b.Lsh(b, 64)
		b.Or(b, new(big.Int).SetUint64(g.U64()))
	}
	b.Mod(b, new(big.Int).Add(max.BigInt(), big.NewInt(1)))
	return math.NewIntFromBigInt(b)
}

// boundary-flavoured amount around x (x > 0)
func c13Around(g *Rng, x math.Int) math.Int {
	switch g.Intn(8) {
	case 0:
		return x
	case 1:
		return x.SubRaw(1)
	case 2:
		return x.QuoRaw(2)
	case 3:
		return x.QuoRaw(3)
	case 4:
		return x.QuoRaw(int64(2 + g.Intn(50)))
	default:
		return c13RandBelow(g, x)
	}
}

func c13Max(a, b math.Int) math.Int {
	if a.GT(b) {
		return a
	}
	return b
}

var c13Huge = math.NewIntWithDecimal(1, 45)

func c13RandN(g *Rng) string {
	switch g.Intn(10) {
	case 0, 1, 2:
		return "1000000000000000000"
	case 3:
		return "500000000000000000"
	case 4:
		return "1500000000000000000"
	case 5:
		return "2000000000000000000"
	case 6:
		return "1000000000000000"
	case 7:
		return "1999000000000000000"
	default:
		return fmt.Sprintf("%d000000000000000", 1+g.Intn(2000))
	}
}

func c13RandM(g *Rng) string {
	switch g.Intn(8) {
	case 0, 1, 2:
		return "5000000000000000" // 0.005
	case 3:
		return "1000000000000000000"
	case 4:
		return "1000000000000" // 1e-6
	case 5:
		return "1000000" // 1e-12
	case 6:
		return "100000000000000000000"
	default:
		return fmt.Sprintf("%d", 1+g.U64()%2000000000000000000)
	}
}

func c13RandC(g *Rng) string {
	switch g.Intn(6) {
	case 0, 1:
		return "1000000000000000000"
	case 2:
		return "100000000000000000"
	case 3:
		return "1000000000000"
	case 4:
		return "1000000000000000000000"
	default:
		return fmt.Sprintf("%d", 1+g.U64()%5000000000000000000)
	}
}

func c13Curve(g *Rng) (m, n, cc string) {
	if g.Chance(25) {
		return "0", "1000000000000000000", c13RandC(g)
	}
	return c13RandM(g), c13RandN(g), "0"
}

func c13RandL(g *Rng) int {
	switch g.Intn(20) {
	case 0, 1, 2, 3, 4, 5, 6:
		return 18
	case 7, 8, 9, 10, 11:
		return 6
	default:
		return 6 + g.Intn(13)
	}
}

func c13Generate(c *c13) {
	// Fork: hlib seeds splitmix64 with seed*golden, so the raw streams of seeds k and k+1 are the same
	// stream shifted by one draw (and re-synchronise); forking decorrelates the seeds.
	g := c.r.Rng.Fork()
	traces := c.r.N(250, 2600)
	sweeps := c.r.N(5000, 110000)
	per := sweeps / traces
	for i := 0; i < traces; i++ {
		if g.Chance(6) {
			c13MultiTrace(c, g)
		} else {
			c13Trace(c, g, i)
		}
		for j := 0; j < per; j++ {
			c13Sweep(c, g)
		}
	}
}

func c13Sweep(c *c13, g *Rng) {
	m, n, cc := c13Curve(g)
	L := c13RandL(g)
	var sold math.Int
	switch g.Intn(6) {
	case 0:
		sold = p10(18)
	case 1:
		sold = p10(18).AddRaw(1)
	case 2:
		sold = p10(21)
	case 3:
		sold = p10(24)
	default:
		sold = p10(18).Add(c13RandBelow(g, p10(18+g.Intn(9))))
	}
	var net math.Int
	switch g.Intn(8) {
	case 0:
		net = math.NewInt(1)
	case 1:
		net = math.NewInt(10)
	case 2:
		net = p10(L)
	case 3:
		net = p10(L + 3)
	case 4:
		net = p10(L - 3)
	default:
		net = c13RandBelow(g, p10(L+g.Intn(7))).AddRaw(1)
	}
	c.do(fmt.Sprintf("xs %s %s %s %d %s %s", m, n, cc, L, sold, net))
}

func c13Trace(c *c13, g *Rng, idx int) {
	L := c13RandL(g)
	feeBase := L == 18 && g.Chance(50)
	takerFee := "20000000000000000"
	if g.Chance(40) {
		takerFee = c13Pick(g, "1000000000000000", "500000000000000000", "1", "999999999999999999", "0", "100000000000000000", fmt.Sprintf("%d", g.U64()%1000000000000000000))
	}
	creationFee := p10(18)
	if g.Chance(25) {
		creationFee = []math.Int{p10(18).MulRaw(5), p10(18).AddRaw(1), p10(18).MulRaw(2), p10(18).MulRaw(6), p10(18).MulRaw(20)}[g.Intn(5)]
		if creationFee.GT(p10(18).MulRaw(5)) {
			c.r.Hit("cfg/creation-fee-above-5-tokens")
		}
	}
	minLiqPart := c13Pick(g, "400000000000000000", "400000000000000000", "1", "1000000000000000000", "500000000000000000")
	minVestDur := []int64{int64(7 * 24 * time.Hour), 0, int64(time.Hour)}[g.Intn(3)]
	minPlanDur := []int64{0, int64(time.Hour)}[g.Intn(2)]
	n := 3 + g.Intn(2)
	var genAlloc math.Int
	switch g.Intn(8) {
	case 0:
		genAlloc = p10(19).AddRaw(1)
	case 1:
		genAlloc = p10(18).MulRaw(11)
	case 2:
		genAlloc = p10(21)
	case 3:
		genAlloc = p10(27)
	case 4:
		genAlloc = p10(19).Add(c13RandBelow(g, p10(24)))
	default:
		genAlloc = p10(24)
	}
	if g.Chance(3) {
		genAlloc = p10(19) // not > 10 tokens: every create is rejected
		c.r.Hit("cfg/allocation-at-minimum")
	}
	c.do(fmt.Sprintf("reset %s %s %s %d %d %s %d %s %d", takerFee, creationFee, minLiqPart, minVestDur, minPlanDur, b01(feeBase), n, genAlloc, L))
	c.r.Hit(fmt.Sprintf("cfg/L=%d", L))
	if feeBase {
		c.r.Hit("cfg/fee-in-base-denom")
	}

	m, nn, cc := c13Curve(g)
	curve := irotypes.BondingCurve{M: c13Dec(m), N: c13Dec(nn), C: c13Dec(cc), RollappDenomDecimals: 18, LiquidityDenomDecimals: uint64(L)}
	// liquidity needed to buy everything, for funding
	full := c13SafeCost(curve, math.ZeroInt(), genAlloc)
	budget := c13Max(full.MulRaw(3), p10(L+2))
	liqPart := minLiqPart
	if g.Chance(60) {
		lp := c13Pick(g, "400000000000000000", "500000000000000000", "1000000000000000000", "999999999999999999", "700000000000000000", fmt.Sprintf("%d", g.U64()%1000000000000000001))
		if c13Int(lp).GTE(c13Int(minLiqPart)) {
			liqPart = lp
		}
	}
	vestDur := minVestDur
	if g.Chance(60) {
		vestDur += []int64{0, int64(time.Hour), int64(24 * time.Hour), 3, 1000000007, int64(30 * 24 * time.Hour)}[g.Intn(6)]
	}
	vestAfter := []int64{0, 0, int64(time.Hour), 1}[g.Intn(4)]
	planDur := minPlanDur + []int64{0, int64(time.Hour), int64(24 * time.Hour)}[g.Intn(3)]
	enabled := g.Chance(60)
	startNs := int64(0)
	if enabled {
		startNs = []int64{-int64(time.Hour), 0, int64(time.Minute), int64(time.Hour)}[g.Intn(4)]
	}
	createLine := func(alloc math.Int, m, nn, cc string, l int, lp string, vd int64) string {
		return fmt.Sprintf("create %s %s %s %s %d %s %d %d %s %d %d", alloc, m, nn, cc, l, b01(enabled), startNs, planDur, lp, vd, vestAfter)
	}

	// before the plan exists
	if g.Chance(15) {
		c.do(fmt.Sprintf("buy %d %s %s", g.Intn(n), p10(18), c13Huge))
		c.do(fmt.Sprintf("claim %d", g.Intn(n)))
		if g.Chance(30) {
			c.do(fmt.Sprintf("settle %s", genAlloc))
		}
	}
	if g.Chance(92) {
		c.do(fmt.Sprintf("fund 0 %s", budget))
	} else {
		c.r.Hit("create/owner-underfunded")
		c.do(fmt.Sprintf("fund 0 %s", c13Around(g, c13SafeCost(curve, math.ZeroInt(), creationFee))))
	}
	// perturbed creates first (all must be rejected and leave no trace)
	if g.Chance(30) {
		switch g.Intn(6) {
		case 0:
			c.do(createLine(genAlloc.AddRaw(1), m, nn, cc, L, liqPart, vestDur))
		case 1:
			c.do(createLine(genAlloc, m, "2001000000000000000", cc, L, liqPart, vestDur))
		case 2:
			c.do(createLine(genAlloc, m, "1000500000000000000", cc, L, liqPart, vestDur))
		case 3:
			c.do(createLine(genAlloc, "1", nn, "1", L, liqPart, vestDur))
		case 4:
			c.do(createLine(genAlloc, m, nn, cc, L+1-2*g.Intn(2), liqPart, vestDur))
		case 5:
			c.do(createLine(genAlloc, m, nn, cc, L, liqPart, minVestDur-1))
		}
	}
	obs := c.do(createLine(genAlloc, m, nn, cc, L, liqPart, vestDur))
	if obs[:2] != "ok" {
		// nothing else can happen; exercise the no-plan paths
		c.do(fmt.Sprintf("buy 1 %s %s", p10(18), c13Huge))
		c.do(fmt.Sprintf("enable 0"))
		c.do(fmt.Sprintf("claimv 0"))
		return
	}
	if g.Chance(10) {
		c.do(createLine(genAlloc, m, nn, cc, L, liqPart, vestDur)) // second plan for the same rollapp
	}
	if g.Chance(12) {
		c13Chown(c, g, n, "before-start")
	}
	for a := 1; a < n; a++ {
		if g.Chance(85) {
			c.do(fmt.Sprintf("fund %d %s", a, c13Around(g, budget).AddRaw(1)))
		}
	}

	steps := 25 + g.Intn(45)
	settled := false
	restartAt := -1
	if g.Chance(10) {
		restartAt = g.Intn(steps + 12) // before or after settlement
	}
	for s := 0; s < steps; s++ {
		if s == restartAt {
			c.r.Hit("restart/in-single-plan-trace")
			if settled {
				c.r.Hit("restart/after-settlement")
			}
			if c.do("restart")[:2] != "ok" {
				return
			}
		}
		p, ok := c.plan()
		if !ok {
			return
		}
		own := c.ownerIdx()
		a := g.Intn(n)
		if g.Chance(15) {
			a = own
		}
		if g.Chance(2) {
			if settled {
				c13Chown(c, g, n, "after-settlement")
			} else {
				c13Chown(c, g, n, "while-trading")
			}
			continue
		}
		addr := c.actors[a]
		remaining := p.MaxAmountToSell.Sub(p.SoldAmt)
		iroBal := c.f.Bal(addr, c.iroDenom)
		liqBal := c.f.Bal(addr, c.liq)
		started := p.TradingEnabled && !c.f.Time.Before(p.StartTime)
		w := g.Intn(100)
		if settled {
			// after settlement: claims, vesting, and trades that must fail
			switch {
			case w < 22:
				who := a
				if g.Chance(75) { // prefer somebody who still holds IRO tokens
					for i := 0; i < n; i++ {
						if c.f.Bal(c.actors[(a+i)%n], c.iroDenom).IsPositive() {
							who = (a + i) % n
							break
						}
					}
				}
				c.do(fmt.Sprintf("claim %d", who))
			case w < 45:
				who := own
				if g.Chance(15) {
					who = a
				}
				if who != own && who == 0 {
					c.r.Hit("owner/former-owner-claims-vested")
				}
				c.do(fmt.Sprintf("claimv %d", who))
			case w < 72:
				v := p.VestingPlan
				d := v.EndTime.Sub(v.StartTime).Nanoseconds()
				dt := []int64{1, int64(time.Second), d / 3, d / 7, d / 2, d/3 + 1, int64(time.Hour), d}[g.Intn(8)]
				if dt <= 0 {
					dt = 1
				}
				c.do(fmt.Sprintf("time %d", dt))
			case w < 80:
				c.do(fmt.Sprintf("buy %d %s %s", a, p10(18), c13Huge))
			case w < 86:
				c.do(fmt.Sprintf("sell %d %s 1", a, c13Max(iroBal, math.OneInt())))
			case w < 90:
				c.do(fmt.Sprintf("bes %d %s 1", a, p10(L)))
			case w < 94:
				if iroBal.IsPositive() {
					c.do(fmt.Sprintf("xfer %d %d %s", a, g.Intn(n), c13Around(g, iroBal).AddRaw(1)))
				}
			case w < 97:
				c.do(fmt.Sprintf("settle %s", c13Pick(g, "0", genAlloc.String())))
			default:
				c.do(fmt.Sprintf("enable %d", own))
			}
			continue
		}
		switch {
		case w < 22: // buy
			var amt math.Int
			switch g.Intn(10) {
			case 0:
				amt = remaining
			case 1:
				amt = remaining.AddRaw(1) // perturbed: over the sellable maximum
			case 2:
				amt = math.NewInt(1 + int64(g.Intn(1000)))
			case 3:
				amt = p10(18)
			case 4:
				amt = math.ZeroInt()
			default:
				amt = c13Around(g, c13Max(remaining.QuoRaw(int64(1+g.Intn(20))), math.OneInt())).AddRaw(1)
			}
			maxCost := c13Huge
			if g.Chance(25) && amt.IsPositive() && p.SoldAmt.Add(amt).LTE(p.MaxAmountToSell) {
				cost := c13SafeCost(curve, p.SoldAmt, p.SoldAmt.Add(amt))
				if tot, _, err := c.k().ApplyTakerFee(cost, c.takerFee, true); err == nil {
					maxCost = tot
					if g.Chance(40) {
						maxCost = tot.SubRaw(1)
					}
				}
			}
			if g.Chance(3) {
				maxCost = math.ZeroInt()
			}
			if a != own && !started {
				c.r.Hit("gating/non-owner-before-start")
				if a == 0 {
					c.r.Hit("owner/former-owner-before-start")
				}
			}
			if a == own && !started {
				c.r.Hit("gating/owner-before-start")
				if own != 0 {
					c.r.Hit("owner/new-owner-before-start")
				}
			}
			c.do(fmt.Sprintf("buy %d %s %s", a, amt, maxCost))
		case w < 38: // buy exact spend
			var spend math.Int
			switch g.Intn(10) {
			case 0:
				spend = math.NewInt(1 + int64(g.Intn(100)))
			case 1:
				spend = p10(L)
			case 2:
				spend = liqBal
			case 3:
				spend = liqBal.AddRaw(1)
			case 4:
				spend = p10(L + 2)
			default:
				spend = c13Around(g, c13Max(liqBal.QuoRaw(int64(2+g.Intn(30))), math.OneInt())).AddRaw(1)
			}
			minTok := math.OneInt()
			if g.Chance(20) && spend.IsPositive() {
				if net, _, err := c.k().ApplyTakerFee(spend, c.takerFee, false); err == nil {
					if t, ok := c13SafeTokens(curve, p.SoldAmt, net); ok && t.IsPositive() {
						minTok = t
						if g.Chance(40) {
							minTok = t.AddRaw(1)
						}
					}
				}
			}
			if g.Chance(3) {
				minTok = math.ZeroInt()
			}
			c.do(fmt.Sprintf("bes %d %s %s", a, spend, minTok))
		case w < 56: // sell
			var amt math.Int
			switch g.Intn(8) {
			case 0:
				amt = iroBal
			case 1:
				amt = iroBal.AddRaw(1)
			case 2:
				amt = math.OneInt()
			case 3:
				amt = p.SoldAmt.AddRaw(1) // more than was ever sold
			default:
				amt = c13Around(g, c13Max(iroBal, math.OneInt()))
			}
			minInc := math.OneInt()
			if g.Chance(25) && amt.IsPositive() && amt.LTE(p.SoldAmt) {
				cost := c13SafeCost(curve, p.SoldAmt.Sub(amt), p.SoldAmt)
				if net, _, err := c.k().ApplyTakerFee(cost, c.takerFee, false); err == nil {
					minInc = net
					if g.Chance(40) {
						minInc = net.AddRaw(1)
					}
				}
			}
			c.do(fmt.Sprintf("sell %d %s %s", a, amt, minInc))
		case w < 66: // round trip of one trader: buys in a split, then sells of the same total in another split
			c13RoundTrip(c, g, a, curve)
		case w < 74:
			c.do(fmt.Sprintf("time %d", []int64{1, int64(time.Second), int64(time.Minute), int64(time.Hour), int64(2 * time.Hour)}[g.Intn(5)]))
		case w < 80:
			who := own
			if g.Chance(30) {
				who = a
			}
			c.do(fmt.Sprintf("enable %d", who))
		case w < 85:
			if iroBal.IsPositive() {
				c.do(fmt.Sprintf("xfer %d %d %s", a, g.Intn(n), c13Around(g, iroBal).AddRaw(1)))
			} else {
				c.do(fmt.Sprintf("xfer %d %d 1", a, g.Intn(n)))
			}
		case w < 88:
			c.do(fmt.Sprintf("fund %d %s", a, c13Around(g, budget).AddRaw(1)))
		case w < 91:
			c.do(fmt.Sprintf("claim %d", a))
		case w < 93:
			c.do(fmt.Sprintf("claimv %d", []int{own, a}[g.Intn(2)]))
		default: // settle; more likely late in the trace
			if s*3 < steps && g.Chance(70) {
				c.do(fmt.Sprintf("time %d", int64(time.Minute)))
				continue
			}
			rf := genAlloc
			if g.Chance(20) {
				rf = c13Pick2(g, genAlloc.SubRaw(1), genAlloc.AddRaw(1), math.ZeroInt())
				c.r.Hit("settle/wrong-genesis-transfer")
			}
			o := c.do(fmt.Sprintf("settle %s", rf))
			if o[:2] == "ok" {
				settled = true
				steps += 12
			}
		}
	}
}

// c13Chown: the real MsgTransferOwnership of the current rollapp: mostly owner → somebody else, sometimes
// by a non-owner, to himself, or straight back
func c13Chown(c *c13, g *Rng, n int, when string) {
	own := c.ownerIdx()
	to := (own + 1 + g.Intn(n-1)) % n
	switch g.Intn(8) {
	case 0:
		c.do(fmt.Sprintf("chown %d %d", to, own)) // not the owner
	case 1:
		c.do(fmt.Sprintf("chown %d %d", own, own)) // same owner
	case 2:
		c.do(fmt.Sprintf("chown %d %d", own, to))
		c.do(fmt.Sprintf("chown %d %d", own, to)) // the former owner once more
		c.do(fmt.Sprintf("chown %d %d", to, own)) // and back
	default:
		if c.do(fmt.Sprintf("chown %d %d", own, to))[:2] == "ok" {
			c.r.Hit("owner/changed-" + when)
		}
	}
}

func c13Pick2(g *Rng, xs ...math.Int) math.Int { return xs[g.Intn(len(xs))] }

// c13RoundTrip: trader a buys in k pieces (either method) and immediately sells everything bought in m pieces
func c13RoundTrip(c *c13, g *Rng, a int, curve irotypes.BondingCurve) {
	p, ok := c.plan()
	if !ok {
		return
	}
	c.r.Hit("roundtrip/attempt")
	addr := c.actors[a]
	before := c.f.Bal(addr, c.iroDenom)
	k := 1 + g.Intn(3)
	for i := 0; i < k; i++ {
		p, _ = c.plan()
		remaining := p.MaxAmountToSell.Sub(p.SoldAmt)
		if !remaining.IsPositive() {
			break
		}
		if g.Chance(65) {
			amt := c13Around(g, c13Max(remaining.QuoRaw(int64(2+g.Intn(40))), math.OneInt())).AddRaw(1)
			c.do(fmt.Sprintf("buy %d %s %s", a, amt, c13Huge))
		} else {
			liqBal := c.f.Bal(addr, c.liq)
			spend := c13Around(g, c13Max(liqBal.QuoRaw(int64(3+g.Intn(30))), math.OneInt())).AddRaw(1)
			c.do(fmt.Sprintf("bes %d %s 1", a, spend))
		}
	}
	bought := c.f.Bal(addr, c.iroDenom).Sub(before)
	if !bought.IsPositive() {
		return
	}
	m := 1 + g.Intn(3)
	left := bought
	for j := 0; j < m && left.IsPositive(); j++ {
		amt := left
		if j < m-1 {
			amt = c13Around(g, left)
			if !amt.IsPositive() {
				amt = left
			}
		}
		o := c.do(fmt.Sprintf("sell %d %s 1", a, amt))
		if o[:2] != "ok" {
			return
		}
		left = left.Sub(amt)
	}
	if left.IsZero() {
		c.r.Hit("roundtrip/completed")
	}
}

// c13MultiTrace: several rollapps with a plan each (own curve), trades / settlement / claims interleaved
// over the plans, restarts in between, plans created after a restart.
func c13MultiTrace(c *c13, g *Rng) {
	c.r.Hit("multi/trace")
	L := c13RandL(g)
	feeBase := L == 18 && g.Chance(50)
	takerFee := c13Pick(g, "20000000000000000", "20000000000000000", "1000000000000000", "100000000000000000")
	genAlloc := []math.Int{p10(21), p10(24), p10(19).Add(c13RandBelow(g, p10(24)))}[g.Intn(3)]
	n := 3
	c.do(fmt.Sprintf("reset %s %s 400000000000000000 0 0 %s %d %s %d", takerFee, p10(18), b01(feeBase), n, genAlloc, L))
	type ms struct {
		curve   irotypes.BondingCurve
		budget  math.Int
		created bool
		settled bool
	}
	var sl []*ms
	addSlot := func() {
		if len(sl) > 0 {
			c.do("newra")
		}
		m, nn, cc := c13Curve(g)
		curve := irotypes.BondingCurve{M: c13Dec(m), N: c13Dec(nn), C: c13Dec(cc), RollappDenomDecimals: 18, LiquidityDenomDecimals: uint64(L)}
		full := c13SafeCost(curve, math.ZeroInt(), genAlloc)
		st := &ms{curve: curve, budget: c13Max(full.MulRaw(3), p10(L+2))}
		sl = append(sl, st)
		c.do(fmt.Sprintf("fund 0 %s", st.budget))
		enabled := g.Chance(80)
		o := c.do(fmt.Sprintf("create %s %s %s %s %d %s 0 %d %s %d %d", genAlloc, m, nn, cc, L, b01(enabled), int64(time.Hour), c13Pick(g, "400000000000000000", "500000000000000000", "1000000000000000000"), []int64{0, 3, int64(time.Hour)}[g.Intn(3)], []int64{0, 1}[g.Intn(2)]))
		st.created = o[:2] == "ok"
		for a := 1; a < n; a++ {
			c.do(fmt.Sprintf("fund %d %s", a, c13Around(g, st.budget).AddRaw(1)))
		}
	}
	k0 := 2 + g.Intn(3)
	for i := 0; i < k0; i++ {
		addSlot()
	}
	steps := 30 + g.Intn(40)
	for s := 0; s < steps; s++ {
		w := g.Intn(100)
		switch {
		case w < 6:
			c.r.Hit("restart/in-multi-plan-trace")
			if c.do("restart")[:2] != "ok" {
				return
			}
			if g.Chance(50) && len(sl) < 7 {
				c.r.Hit("multi/create-right-after-restart")
				addSlot()
			}
			continue
		case w < 10:
			if len(sl) < 7 {
				addSlot()
			}
			continue
		case w < 35:
			c.do(fmt.Sprintf("sel %d", g.Intn(len(sl))))
			continue
		case w < 40:
			c.do(fmt.Sprintf("time %d", []int64{1, int64(time.Second), int64(time.Hour)}[g.Intn(3)]))
			continue
		}
		st := sl[c.cur]
		p, ok := c.plan()
		if !ok {
			c.do(fmt.Sprintf("buy 1 %s %s", p10(18), c13Huge)) // no plan for this rollapp
			c.do(fmt.Sprintf("sel %d", g.Intn(len(sl))))
			continue
		}
		a := g.Intn(n)
		addr := c.actors[a]
		iroBal := c.f.Bal(addr, c.iroDenom)
		liqBal := c.f.Bal(addr, c.liq)
		remaining := p.MaxAmountToSell.Sub(p.SoldAmt)
		if st.settled {
			switch g.Intn(5) {
			case 0, 1:
				c.do(fmt.Sprintf("claim %d", a))
			case 2:
				c.do("claimv 0")
			case 3:
				c.do(fmt.Sprintf("buy %d %s %s", a, p10(18), c13Huge))
			default:
				if iroBal.IsPositive() {
					c.do(fmt.Sprintf("xfer %d %d %s", a, g.Intn(n), c13Around(g, iroBal).AddRaw(1)))
				}
			}
			continue
		}
		switch {
		case w < 60:
			amt := c13Around(g, c13Max(remaining.QuoRaw(int64(2+g.Intn(20))), math.OneInt())).AddRaw(1)
			c.do(fmt.Sprintf("buy %d %s %s", a, amt, c13Huge))
		case w < 70:
			spend := c13Around(g, c13Max(liqBal.QuoRaw(int64(3+g.Intn(30))), math.OneInt())).AddRaw(1)
			c.do(fmt.Sprintf("bes %d %s 1", a, spend))
		case w < 85:
			c.do(fmt.Sprintf("sell %d %s 1", a, c13Around(g, c13Max(iroBal, math.OneInt()))))
		case w < 90:
			c.do("enable 0")
		default:
			if o := c.do(fmt.Sprintf("settle %s", genAlloc)); o[:2] == "ok" {
				st.settled = true
				c.r.Hit("multi/settled-one-of-many")
			}
		}
	}
}
