package harness

import (
	"crypto/sha256"
	"encoding/json"
	"errors"
	"fmt"
	"os"
	"runtime/debug"
	"sort"
	"strings"
	"testing"
	"time"

	coreheader "cosmossdk.io/core/header"
	errorsmod "cosmossdk.io/errors"
	"cosmossdk.io/log"
	"cosmossdk.io/math"
	abci "github.com/cometbft/cometbft/abci/types"
	cmted25519 "github.com/cometbft/cometbft/crypto/ed25519"
	cmtproto "github.com/cometbft/cometbft/proto/tendermint/types"
	cmttypes "github.com/cometbft/cometbft/types"
	dbm "github.com/cosmos/cosmos-db"
	"github.com/cosmos/cosmos-sdk/baseapp"
	codectypes "github.com/cosmos/cosmos-sdk/codec/types"
	cryptocodec "github.com/cosmos/cosmos-sdk/crypto/codec"
	"github.com/cosmos/cosmos-sdk/crypto/keys/secp256k1"
	sdk "github.com/cosmos/cosmos-sdk/types"
	authtypes "github.com/cosmos/cosmos-sdk/x/auth/types"
	banktestutil "github.com/cosmos/cosmos-sdk/x/bank/testutil"
	banktypes "github.com/cosmos/cosmos-sdk/x/bank/types"
	"github.com/cosmos/cosmos-sdk/x/crisis"
	stakingtypes "github.com/cosmos/cosmos-sdk/x/staking/types"

	"github.com/dymensionxyz/dymension/v3/app"
	"github.com/dymensionxyz/dymension/v3/app/apptesting"
)

// Fix is the keeper-level fixture: the full production app (real keepers, hooks, bank, staking)
// initialised like app/apptesting.Setup, driven on an uncached context.  A block is
// BeginBlocker(h) ; messages ; EndBlocker(h) exactly in that order (ops `begin`/`end`).
type Fix struct {
	T      *testing.T
	App    *app.App
	Ctx    sdk.Context
	Height int64
	Time   time.Time
	// Rebind: closures a package harness registers to refresh whatever it derived from f.App (cached
	// keepers, query servers, ante handlers) when the application behind this fixture is replaced by
	// an imported copy (C18 continue-after-import, see c18_fork.go)
	Rebind []func()
	// Imported: the application behind this fixture is an imported copy (set by SwapTo)
	Imported bool
	// Co: fixtures that run the same ops next to this one (C15's shadow chain); a C18 fork of this
	// fixture exports / imports them as well, so that the package's comparison of the two stays
	// meaningful on the imported side
	Co []*Fix
}

// Restore puts the fixture back on the application and context of a saved copy of itself (package
// harnesses that start every trace from a branch of one prepared chain): a new chain as far as the
// traces are concerned.
func (f *Fix) Restore(saved Fix) {
	f.App, f.Ctx, f.Height, f.Time, f.Imported = saved.App, saved.Ctx, saved.Height, saved.Time, saved.Imported
	fixEpoch++
	for _, fn := range f.Rebind {
		fn()
	}
}

// SwapTo makes this fixture (and so every harness object holding the pointer) run on the application
// of f2 from now on; the registered Rebind closures run afterwards.
func (f *Fix) SwapTo(f2 *Fix) {
	f.App, f.Ctx, f.Height, f.Time, f.Imported = f2.App, f2.Ctx, f2.Height, f2.Time, true
	for _, fn := range f.Rebind {
		fn()
	}
}

// blockFailHook (C11) is told about every error or recovered panic of the application's
// BeginBlocker / EndBlocker, in every package harness; blocksRun counts the blocks.
var (
	blockFailHook func(kind string, err error)
	blocksRun     int
)

// lastFix is the most recently created fixture (used by the generic C18 hook in Run.Trace).
var lastFix *Fix

// fixEpoch counts the chains started so far: a new fixture, or a fixture put back to a saved start
// (Fix.Restore).  Traces of one epoch run on the same chain one after the other (C18
// continue-after-import compares a whole epoch and replays it from its start).
var fixEpoch int

var BaseTime = time.Date(2024, 1, 1, 0, 0, 0, 0, time.UTC)

// setupDeterministic is app/apptesting.Setup with fixed keys: the validator key and the genesis
// account are derived from constants, so that two OS processes start from byte-identical state
// (apptesting.Setup draws fresh random keys on every call).
func setupDeterministic(t *testing.T) *app.App {
	a, genesisState := apptesting.SetupTestingApp()
	valPriv := cmted25519.GenPrivKeyFromSecret([]byte("dymverif-validator"))
	validator := cmttypes.NewValidator(valPriv.PubKey(), 1)
	valSet := cmttypes.NewValidatorSet([]*cmttypes.Validator{validator})
	senderPriv := secp256k1.GenPrivKeyFromSecret([]byte("dymverif-genesis-account"))
	acc := authtypes.NewBaseAccount(senderPriv.PubKey().Address().Bytes(), senderPriv.PubKey(), 0, 0)
	balances := []banktypes.Balance{{Address: acc.GetAddress().String(),
		Coins: sdk.NewCoins(sdk.NewCoin(sdk.DefaultBondDenom, math.NewInt(1000000000000000000)))}}
	// --- genesisStateWithValSet (unexported in apptesting), verbatim in substance
	authGenesis := authtypes.NewGenesisState(authtypes.DefaultParams(), []authtypes.GenesisAccount{acc})
	genesisState[authtypes.ModuleName] = a.AppCodec().MustMarshalJSON(authGenesis)
	bondAmt := sdk.DefaultPowerReduction
	var validators []stakingtypes.Validator
	var delegations []stakingtypes.Delegation
	for _, val := range valSet.Validators {
		pk, err := cryptocodec.FromCmtPubKeyInterface(val.PubKey)
		if err != nil {
			t.Fatal(err)
		}
		pkAny, err := codectypes.NewAnyWithValue(pk)
		if err != nil {
			t.Fatal(err)
		}
		validators = append(validators, stakingtypes.Validator{
			OperatorAddress: sdk.ValAddress(val.Address).String(), ConsensusPubkey: pkAny, Status: stakingtypes.Bonded,
			Tokens: bondAmt, DelegatorShares: math.LegacyOneDec(), UnbondingTime: time.Unix(0, 0).UTC(),
			Commission:        stakingtypes.NewCommission(math.LegacyZeroDec(), math.LegacyZeroDec(), math.LegacyZeroDec()),
			MinSelfDelegation: math.ZeroInt()})
		delegations = append(delegations, stakingtypes.NewDelegation(acc.GetAddress().String(), sdk.ValAddress(val.Address).String(), math.LegacyOneDec()))
	}
	genesisState[stakingtypes.ModuleName] = a.AppCodec().MustMarshalJSON(stakingtypes.NewGenesisState(stakingtypes.DefaultParams(), validators, delegations))
	totalSupply := sdk.NewCoins()
	for _, b := range balances {
		totalSupply = totalSupply.Add(b.Coins...)
	}
	for range delegations {
		totalSupply = totalSupply.Add(sdk.NewCoin(sdk.DefaultBondDenom, bondAmt))
	}
	balances = append(balances, banktypes.Balance{Address: authtypes.NewModuleAddress(stakingtypes.BondedPoolName).String(),
		Coins: sdk.Coins{sdk.NewCoin(sdk.DefaultBondDenom, bondAmt)}})
	genesisState[banktypes.ModuleName] = a.AppCodec().MustMarshalJSON(banktypes.NewGenesisState(banktypes.DefaultGenesisState().Params, balances, totalSupply, []banktypes.Metadata{}, []banktypes.SendEnabled{}))
	stateBytes, err := json.MarshalIndent(genesisState, "", " ")
	if err != nil {
		t.Fatal(err)
	}
	if _, err := a.InitChain(&abci.RequestInitChain{ChainId: apptesting.TestChainID, Validators: []abci.ValidatorUpdate{},
		ConsensusParams: apptesting.DefaultConsensusParams, AppStateBytes: stateBytes, Time: BaseTime}); err != nil {
		t.Fatal(err)
	}
	return a
}

func NewFix(t *testing.T) *Fix {
	a := setupDeterministic(t)
	// InitChain state lives in the finalize-block state until the first block is committed
	if _, err := a.FinalizeBlock(&abci.RequestFinalizeBlock{Height: 1, Time: BaseTime}); err != nil {
		t.Fatal(err)
	}
	if _, err := a.Commit(); err != nil {
		t.Fatal(err)
	}
	f := &Fix{T: t, App: a, Height: 1, Time: BaseTime}
	f.setCtx()
	lastFix = f
	fixEpoch++
	return f
}

func (f *Fix) setCtx() {
	h := cmtproto.Header{Height: f.Height, ChainID: apptesting.TestChainID, Time: f.Time}
	f.Ctx = f.App.BaseApp.NewUncachedContext(false, h).WithHeaderInfo(coreheader.Info{Height: f.Height, Time: f.Time, ChainID: apptesting.TestChainID})
}

// Actor returns the i-th deterministic account address.
func Actor(i int) sdk.AccAddress {
	h := sha256.Sum256([]byte(fmt.Sprintf("dymverif-actor-%d", i)))
	return sdk.AccAddress(h[:20])
}

func (f *Fix) Fund(addr sdk.AccAddress, coins ...sdk.Coin) {
	if err := banktestutil.FundAccount(f.Ctx, f.App.BankKeeper, addr, sdk.NewCoins(coins...)); err != nil {
		f.T.Fatal(err)
	}
}

func (f *Fix) Bal(addr sdk.AccAddress, denom string) math.Int {
	return f.App.BankKeeper.GetBalance(f.Ctx, addr, denom).Amount
}

// Deliver runs one message the way baseapp.runMsgs does: ValidateBasic, handler inside a cache
// context, write only on success.  A panic is a failed message (state discarded).
func (f *Fix) Deliver(msg sdk.Msg) (res *sdk.Result, err error) {
	if vb, ok := msg.(sdk.HasValidateBasic); ok {
		if err := vb.ValidateBasic(); err != nil {
			return nil, err
		}
	}
	h := f.App.MsgServiceRouter().Handler(msg)
	if h == nil {
		return nil, fmt.Errorf("no handler for %T", msg)
	}
	cctx, write := f.Ctx.CacheContext()
	defer func() {
		if e := recover(); e != nil {
			err = &PanicError{Val: e, Stack: string(debug.Stack())}
			res = nil
		}
	}()
	g0 := cctx.GasMeter().GasConsumed()
	defer func() { noteGas(cctx.GasMeter().GasConsumed() - g0) }() // registered after the recover above: runs first
	res, err = h(cctx, msg)
	if err == nil {
		write()
	}
	return res, err
}

// opGas (C12): gas consumed by every message delivered since the last emitted op line, in delivery
// order, failed messages included (GasUsed of every tx result enters LastResultsHash).  Written on
// the per-op digest line, so it is compared across replicas and never enters an observation.
var opGas []uint64

func noteGas(g uint64) {
	if digestOut != nil {
		opGas = append(opGas, g)
	}
}

func takeGas() string {
	if len(opGas) == 0 {
		return "-"
	}
	xs := make([]string, len(opGas))
	for i, g := range opGas {
		xs[i] = fmt.Sprint(g)
	}
	opGas = opGas[:0]
	return strings.Join(xs, ",")
}

// Try runs fn inside a cache context, writing only on success; panics become PanicError.
func (f *Fix) Try(fn func(ctx sdk.Context) error) (err error) {
	cctx, write := f.Ctx.CacheContext()
	defer func() {
		if e := recover(); e != nil {
			err = &PanicError{Val: e, Stack: string(debug.Stack())}
		}
	}()
	err = fn(cctx)
	if err == nil {
		write()
	}
	return err
}

type PanicError struct {
	Val   any
	Stack string
}

func (p *PanicError) Error() string { return fmt.Sprintf("panic: %v", p.Val) }

func IsPanic(err error) bool {
	var p *PanicError
	return errors.As(err, &p)
}

// Begin starts block Height+1 at Time+dt and runs the application's BeginBlocker.
func (f *Fix) Begin(dt time.Duration) (err error) {
	f.Height++
	f.Time = f.Time.Add(dt)
	f.setCtx()
	defer func() {
		if e := recover(); e != nil {
			err = &PanicError{Val: e, Stack: string(debug.Stack())}
		}
		if err != nil && blockFailHook != nil {
			blockFailHook("begin-block", err) // returned error or recovered panic
		}
	}()
	blocksRun++
	_, err = f.App.BeginBlocker(f.Ctx)
	return err
}

// End runs the application's EndBlocker for the current block.
func (f *Fix) End() (err error) {
	defer func() {
		if e := recover(); e != nil {
			err = &PanicError{Val: e, Stack: string(debug.Stack())}
		}
		if err != nil && blockFailHook != nil {
			blockFailHook("end-block", err) // returned error or recovered panic
		}
		if digestOut != nil {
			// C12: full store digest after every block, compared across OS processes
			fmt.Fprintf(digestOut, "h=%d err=%v %s\n", f.Height, err != nil, f.StoreDigest())
		}
	}()
	_, err = f.App.EndBlocker(f.Ctx)
	return err
}

// digestOut, when VERIF_DIGEST is set, receives one line per executed block with the digest of
// every KV store (all keys and values).
var digestOut *os.File

func init() {
	if p := os.Getenv("VERIF_DIGEST"); p != "" {
		f, err := os.Create(p)
		if err == nil {
			digestOut = f
		}
	}
}

// ErrClass maps an error to a small class using the registered error it wraps; `table` lists the
// (error, class) pairs of the property in priority order.
func ErrClass(err error, table []ErrMap) string {
	if err == nil {
		return "ok"
	}
	if IsPanic(err) {
		return "panic"
	}
	for _, m := range table {
		if errors.Is(err, m.Err) {
			return m.Class
		}
	}
	return "other"
}

type ErrMap struct {
	Err   error
	Class string
}

var _ = errorsmod.Wrap

// SortedJoin renders a set of strings canonically.
func SortedJoin(xs []string, sep string) string {
	ys := append([]string(nil), xs...)
	sort.Strings(ys)
	if len(ys) == 0 {
		return "-"
	}
	return strings.Join(ys, sep)
}

// StoreDigest hashes the given module stores (all keys and values) — used to check that a rejected
// operation left the custom-module state untouched.
func (f *Fix) StoreDigest(storeNames ...string) string {
	return f.StoreDigestAt(f.Ctx, storeNames...)
}

// StoreDigestAt: the same over the stores as seen from ctx (a branch of f.Ctx, e.g.)
func (f *Fix) StoreDigestAt(ctx sdk.Context, storeNames ...string) string {
	h := sha256.New()
	km := f.App.GetKVStoreKeys()
	var names []string
	for n := range km {
		names = append(names, n)
	}
	sort.Strings(names)
	want := map[string]bool{}
	for _, n := range storeNames {
		want[n] = true
	}
	for _, n := range names {
		k := km[n]
		if len(want) > 0 && !want[n] {
			continue
		}
		st := ctx.MultiStore().GetKVStore(k)
		it := st.Iterator(nil, nil)
		h.Write([]byte(k.Name()))
		for ; it.Valid(); it.Next() {
			h.Write(it.Key())
			h.Write([]byte{0})
			h.Write(it.Value())
			h.Write([]byte{1})
		}
		it.Close()
	}
	return fmt.Sprintf("%x", h.Sum(nil)[:8])
}

// ImportedCopy exports the full application state of f (all modules' ExportGenesis on the live
// context) and initialises a fresh application from it through the production InitChainer.
// It returns the new fixture (same height and time), the two exports (original and re-export of
// the imported chain) and the error/panic of the import, if any.
func (f *Fix) ImportedCopy() (f2 *Fix, exp1, exp2 map[string]json.RawMessage, err error) {
	return f.ImportedCopyOpt(false)
}

// ImportedCopyOpt with withProposer puts a bonded validator of the exporting chain into the header
// of the InitChainer context (InitChain itself has none).  Only used to continue a comparison after
// the faithful import was rejected for exactly that reason.
func (f *Fix) ImportedCopyOpt(withProposer bool) (f2 *Fix, exp1, exp2 map[string]json.RawMessage, err error) {
	return f.importedCopy(withProposer, false)
}

// skipInvOpts: the node operator's --x-crisis-skip-assert-invariants
type skipInvOpts struct{}

func (skipInvOpts) Get(k string) interface{} {
	if k == crisis.FlagSkipGenesisInvariants {
		return true
	}
	return nil
}

// importedCopy with skipInv builds the fresh application with the crisis module's genesis assertion
// switched off (a state that breaks a registered invariant can be imported only that way).
func (f *Fix) importedCopy(withProposer, skipInv bool) (f2 *Fix, exp1, exp2 map[string]json.RawMessage, err error) {
	defer func() {
		if e := recover(); e != nil {
			err = &PanicError{Val: e, Stack: string(debug.Stack())}
		}
	}()
	exp1 = f.App.ExportState(f.Ctx)
	bz, merr := json.Marshal(exp1)
	if merr != nil {
		return nil, exp1, nil, merr
	}
	a2, _ := apptesting.SetupTestingApp()
	if skipInv {
		a2 = app.New(log.NewNopLogger(), dbm.NewMemDB(), nil, true, skipInvOpts{}, baseapp.SetChainID(apptesting.TestChainID))
	}
	// the imported chain starts at the height and time of the exporting CONTEXT (some package harnesses
	// advance f.Ctx directly without touching f.Height / f.Time: the copy used to start in their past,
	// so time-dependent queries — expiry of Dym-Names, gauge and stream classification — were compared
	// at two different times)
	ih, it := f.Height, f.Time
	if bh := f.Ctx.BlockHeight(); bh > 0 {
		ih = bh
	}
	if bt := f.Ctx.BlockTime(); !bt.IsZero() {
		it = bt
	}
	// a package harness that adopts the copy as its fixture (`restart` of C13 / C14, `reimport` of M-Core)
	// keeps the re-pointing closures it registered on the fixture it replaces: a later C18 fork swaps
	// the ADOPTED fixture (lastFix) and must still rebuild the harness's cached keepers
	f2 = &Fix{T: f.T, App: a2, Height: ih, Time: it, Rebind: f.Rebind}
	f2.setCtx()
	if withProposer {
		if vals, verr := f.App.StakingKeeper.GetAllValidators(f.Ctx); verr == nil && len(vals) > 0 {
			ca, _ := vals[0].GetConsAddr()
			h := f2.Ctx.BlockHeader()
			h.ProposerAddress = ca
			f2.Ctx = f2.Ctx.WithBlockHeader(h)
		}
	}
	if _, err = a2.InitChainer(f2.Ctx, &abci.RequestInitChain{ChainId: apptesting.TestChainID, AppStateBytes: bz, Time: it, InitialHeight: ih}); err != nil {
		return f2, exp1, nil, err
	}
	exp2 = a2.ExportState(f2.Ctx)
	if digestOut != nil {
		// C12: the stores of the freshly imported application (genesis import path of every module)
		fmt.Fprintf(digestOut, "import h=%d %s\n", ih, f2.StoreDigest())
	}
	return f2, exp1, exp2, nil
}

// Invariants runs every registered module invariant; it returns the panic message of the first
// broken one ("" when all hold).
func (f *Fix) Invariants() (msg string) {
	defer func() {
		if e := recover(); e != nil {
			msg = fmt.Sprint(e)
		}
	}()
	f.App.CrisisKeeper.AssertInvariants(f.Ctx)
	return ""
}
