package harness

import (
	"bytes"
	"context"
	"fmt"
	"strconv"

	"cosmossdk.io/collections"
	collcodec "cosmossdk.io/collections/codec"
	corestore "cosmossdk.io/core/store"
	dbm "github.com/cosmos/cosmos-db"

	datypes "github.com/dymensionxyz/dymension/v3/x/delayedack/types"
	eibckeeper "github.com/dymensionxyz/dymension/v3/x/eibc/keeper"
	lctypes "github.com/dymensionxyz/dymension/v3/x/lightclient/types"
	rollapptypes "github.com/dymensionxyz/dymension/v3/x/rollapp/types"
)

// C19, collections key codecs.  The keys are produced by the real codecs
// (collections.EncodeKeyWithPrefix over PairKeyCodec / TripleKeyCodec) under the real map prefixes of
// the hub's keepers; the range bounds are the bytes the real collections library hands to the store:
// a real collections.KeySet is opened over a recording in-memory store, the real range builder is
// passed to KeySet.Iterate, and the store records the (start, end) of the Iterator call.  The entry is
// really stored and the scan result is what the real iterator returns.

type c19RecStore struct {
	db         *dbm.MemDB
	start, end []byte
	calls      int
}

func (s *c19RecStore) Get(k []byte) ([]byte, error) { return s.db.Get(k) }
func (s *c19RecStore) Has(k []byte) (bool, error)   { return s.db.Has(k) }
func (s *c19RecStore) Set(k, v []byte) error        { return s.db.Set(k, v) }
func (s *c19RecStore) Delete(k []byte) error        { return s.db.Delete(k) }
func (s *c19RecStore) Iterator(a, b []byte) (corestore.Iterator, error) {
	s.start, s.end = append([]byte(nil), a...), b
	if b != nil {
		s.end = append([]byte{}, b...)
	}
	s.calls++
	return s.db.Iterator(a, b)
}
func (s *c19RecStore) ReverseIterator(a, b []byte) (corestore.Iterator, error) {
	return s.db.ReverseIterator(a, b)
}

type c19RecSvc struct{ s *c19RecStore }

func (v c19RecSvc) OpenKVStore(context.Context) corestore.KVStore { return v.s }

// the real map prefixes, in the order of the `pfx` token of the op lines
var c19CollPrefixes = [][]byte{
	rollapptypes.SeqToUnfinalizedHeightKeyPrefix.Bytes(),                                   // 0 Pair[string,uint64]
	collections.NewPrefix(rollapptypes.HeightRollappToFinalizationQueueKeyPrefix).Bytes(), // 1 Pair[uint64,string]
	eibckeeper.LPsByAddrPrefix.Bytes(),                                                     // 2 Pair[string,uint64]
	eibckeeper.LPsByRollAppDenomPrefix.Bytes(),                                             // 3 Triple[string,string,uint64]
	collections.NewPrefix(datypes.PendingPacketsByAddressKeyPrefix).Bytes(),               // 4 Pair[string,[]byte]
	lctypes.ClientHeightToSigner.Bytes(),                                                   // 5 Pair[string,uint64]
}

var (
	c19CodecSU  = collections.PairKeyCodec(collections.StringKey, collections.Uint64Key)
	c19CodecSB  = collections.PairKeyCodec(collections.StringKey, collcodec.NewBytesKey[[]byte]())
	c19CodecUS  = collections.PairKeyCodec(collections.Uint64Key, collections.StringKey)
	c19CodecSSU = collections.TripleKeyCodec[string, string, uint64](collections.StringKey, collections.StringKey, collections.Uint64Key)
)

func c19HexNil(b []byte) string {
	if b == nil {
		return "nil"
	}
	return Hex(b)
}

// c19CollScan stores `key` in a real KeySet with the given prefix and codec, iterates it with the real
// range and returns "<start> <end> <returned>"; "err" when the codec or the range refuses.
func c19CollScan[K any](r *Run, line string, pfx []byte, kc collcodec.KeyCodec[K], rng collections.Ranger[K], key K) (obs string, in bool, ok bool) {
	st := &c19RecStore{db: dbm.NewMemDB()}
	sb := collections.NewSchemaBuilder(c19RecSvc{st})
	ks := collections.NewKeySet(sb, collections.NewPrefix(pfx), "c19", kc)
	ctx := context.Background()
	if err := ks.Set(ctx, key); err != nil {
		return "err", false, false
	}
	want, err := collections.EncodeKeyWithPrefix(pfx, kc, key)
	if err != nil {
		return "err", false, false
	}
	it, err := ks.Iterate(ctx, rng)
	if err != nil {
		return "err", false, false
	}
	defer it.Close()
	n := 0
	for ; it.Valid(); it.Next() {
		got, err := it.Key()
		if err != nil {
			r.Violate("C19/collections/stored-key-does-not-decode", err.Error(), line)
			continue
		}
		back, _ := collections.EncodeKeyWithPrefix(pfx, kc, got)
		if !bytes.Equal(back, want) {
			r.Violate("C19/collections/roundtrip", fmt.Sprintf("stored %x, iterator decodes a key that encodes to %x", want, back), line)
		}
		n++
	}
	return fmt.Sprintf("%s %s %v", c19HexNil(st.start), c19HexNil(st.end), n == 1), n == 1, true
}

// c19CollKey: "<key hex> ok" when Decode(Encode(k)) through the real codec gives k back
func c19CollKey[K any](r *Run, line string, pfx []byte, kc collcodec.KeyCodec[K], key K) string {
	b, err := collections.EncodeKeyWithPrefix(pfx, kc, key)
	if err != nil {
		return "err"
	}
	read, back, err := kc.Decode(b[len(pfx):])
	if err != nil || read != len(b)-len(pfx) {
		r.Violate("C19/collections/roundtrip", fmt.Sprintf("key %x does not decode: read %d, %v", b, read, err), line)
		return Hex(b) + " err"
	}
	b2, err := collections.EncodeKeyWithPrefix(pfx, kc, back)
	if err != nil || !bytes.Equal(b, b2) {
		r.Violate("C19/collections/roundtrip", fmt.Sprintf("key %x decodes to a key that encodes to %x", b, b2), line)
		return Hex(b) + " bad"
	}
	return Hex(b) + " ok"
}

// c19ExecColl executes the collections ops; handled=false for any other op.
func c19ExecColl(r *Run, line string, f []string) (string, bool) {
	u := func(i int) uint64 { v, _ := strconv.ParseUint(f[i], 10, 64); return v }
	pfx := func(i int) []byte { return c19CollPrefixes[int(u(i))%len(c19CollPrefixes)] }
	str := func(i int) string { return string(unhex(f[i])) }
	switch f[0] {
	case "cknt":
		buf := make([]byte, len(str(1))+1)
		n, err := collections.StringKey.EncodeNonTerminal(buf, str(1))
		if err != nil {
			return "err", true
		}
		return Hex(buf[:n]), true
	case "ckbnt":
		b := unhex(f[1])
		buf := make([]byte, len(b)+1)
		kc := collcodec.NewBytesKey[[]byte]()
		n, err := kc.EncodeNonTerminal(buf, b)
		if err != nil {
			return "err", true
		}
		return Hex(buf[:n]), true
	case "cksu":
		k := c19CollKey(r, line, pfx(1), c19CodecSU, collections.Join(str(2), u(3)))
		return k, true
	case "cksb":
		b, err := collections.EncodeKeyWithPrefix(pfx(1), c19CodecSB, collections.Join(str(2), unhex(f[3])))
		if err != nil {
			return "err", true
		}
		return Hex(b), true
	case "ckus":
		return c19CollKey(r, line, pfx(1), c19CodecUS, collections.Join(u(2), str(3))), true
	case "ckt":
		return c19CollKey(r, line, pfx(1), c19CodecSSU, collections.Join3(str(2), str(3), u(4))), true
	case "ckord":
		// order of two finalization-queue keys = order of (height, rollapp id)
		a, _ := collections.EncodeKeyWithPrefix(pfx(1), c19CodecUS, collections.Join(u(2), str(3)))
		b, _ := collections.EncodeKeyWithPrefix(pfx(1), c19CodecUS, collections.Join(u(4), str(5)))
		c := bytes.Compare(a, b)
		if (u(2) < u(4) && c >= 0) || (u(2) > u(4) && c <= 0) {
			r.Violate("C19/collections/height-order", fmt.Sprintf("heights %d %d, keys compare %d", u(2), u(4), c), line)
		}
		return strconv.Itoa(c), true
	case "crs":
		// crs <pfx> <s> | <s'> <k2 hex>: NewPrefixedPairRange(s) against the entry (s', k2)
		obs, in, ok := c19CollScan(r, line, pfx(1), c19CodecSB, collections.Ranger[collections.Pair[string, []byte]](collections.NewPrefixedPairRange[string, []byte](str(2))), collections.Join(str(4), unhex(f[5])))
		if ok && in != (f[2] == f[4]) {
			r.Violate("C19/collections/prefixed-pair-scan-returns-other-string", fmt.Sprintf("scan for %q returned=%v entry of %q", str(2), in, str(4)), line)
		}
		return obs, true
	case "cra", "crb":
		// cra/crb <pfx> <s> <h> | <s'> <n>: ….StartExclusive(h) / ….EndExclusive(h)
		rng := collections.NewPrefixedPairRange[string, uint64](str(2))
		want := f[2] == f[5]
		if f[0] == "cra" {
			rng = rng.StartExclusive(u(3))
			want = want && u(6) > u(3)
		} else {
			rng = rng.EndExclusive(u(3))
			want = want && u(6) < u(3)
		}
		obs, in, ok := c19CollScan(r, line, pfx(1), c19CodecSU, collections.Ranger[collections.Pair[string, uint64]](rng), collections.Join(str(5), u(6)))
		if ok && in != want {
			r.Violate("C19/collections/pair-height-scan/"+f[0], fmt.Sprintf("scan %q h=%d returned=%v entry (%q,%d)", str(2), u(3), in, str(5), u(6)), line)
		}
		return obs, true
	case "cru":
		// cru <pfx> <h> | <n> <s>: NewPrefixUntilPairRange[uint64,string](h) against the entry (n, s)
		obs, in, ok := c19CollScan(r, line, pfx(1), c19CodecUS, collections.Ranger[collections.Pair[uint64, string]](collections.NewPrefixUntilPairRange[uint64, string](u(2))), collections.Join(u(4), str(5)))
		if ok && in != (u(4) <= u(2)) {
			r.Violate("C19/collections/until-height-scan", fmt.Sprintf("until %d returned=%v entry of height %d", u(2), in, u(4)), line)
		}
		return obs, true
	case "crt":
		// crt <pfx> <a> <b> | <a'> <b'> <n>: NewSuperPrefixedTripleRange(a, b) against (a', b', n)
		obs, in, ok := c19CollScan(r, line, pfx(1), c19CodecSSU, collections.NewSuperPrefixedTripleRange[string, string, uint64](str(2), str(3)), collections.Join3(str(5), str(6), u(7)))
		if ok && in != (f[2] == f[5] && f[3] == f[6]) {
			r.Violate("C19/collections/super-prefixed-triple-scan-returns-other-pair", fmt.Sprintf("scan (%q,%q) returned=%v entry (%q,%q)", str(2), str(3), in, str(5), str(6)), line)
		}
		return obs, true
	}
	return "", false
}

// c19CollStr draws a string component: bech32-looking addresses and rollapp ids / denoms that share
// prefixes and extend one another; sometimes bytes a delimiter-based encoding could mistake for
// structure (0x00 — refused by the codec —, 0x01, 0xff, '/').
func c19CollStr(g *Rng) []byte {
	base := [][]byte{[]byte("dym1qqq"), []byte("dym1qqqq"), []byte("dym1qqqa"), []byte("a_1-1"), []byte("a_1-12"), []byte("adym"), []byte("ibc/AB"), []byte("ibc/ABC"), {}, []byte("x")}[g.Intn(10)]
	b := append([]byte{}, base...)
	if g.Chance(25) {
		b = append(b, [][]byte{{0x01}, {0xff}, {'/'}, {0xff, 0xff}, {0x01, 0x00}, {0x00}, []byte("z")}[g.Intn(7)]...)
	}
	if g.Chance(5) {
		b = append([]byte{0x00}, b...)
	}
	return b
}

// c19GenColl emits one op of the collections group.
func c19GenColl(r *Run, g *Rng, emit func(kind, line string)) {
	s1 := c19CollStr(g)
	s2 := c19CollStr(g)
	if g.Chance(40) {
		s2 = s1
	}
	h, n := g.BoundaryU64(), g.BoundaryU64()
	if g.Chance(50) {
		n = h + uint64(g.Intn(3)) - 1
	}
	pSU := []int{0, 2, 5}[g.Intn(3)]
	switch g.Intn(12) {
	case 0:
		emit("cknt", "cknt "+Hex(c19CollStr(g)))
		b := c19Bytes(g)
		if g.Chance(10) {
			b = make([]byte, 250+g.Intn(10))
		}
		emit("ckbnt", "ckbnt "+Hex(b))
	case 1:
		emit("cksu", fmt.Sprintf("cksu %d %s %d", pSU, Hex(s1), n))
		emit("cksb", fmt.Sprintf("cksb 4 %s %s", Hex(s1), Hex(c19Bytes(g))))
	case 2:
		emit("ckus", fmt.Sprintf("ckus 1 %d %s", n, Hex(c19CollStr(g))))
		emit("ckt", fmt.Sprintf("ckt 3 %s %s %d", Hex(s1), Hex(c19CollStr(g)), n))
	case 3:
		emit("ckord", fmt.Sprintf("ckord 1 %d %s %d %s", h, Hex(s1), n, Hex(s2)))
	case 4, 5:
		p := []int{0, 2, 4}[g.Intn(3)]
		var k2b []byte
		if p == 4 {
			k2b = c19Bytes(g)
		} else {
			k2b = make([]byte, 8)
			for i := range k2b {
				k2b[i] = byte(n >> (8 * uint(7-i)))
			}
		}
		emit("crs", fmt.Sprintf("crs %d %s | %s %s", p, Hex(s1), Hex(s2), Hex(k2b)))
	case 6, 7:
		emit("cra", fmt.Sprintf("cra %d %s %d | %s %d", pSU, Hex(s1), h, Hex(s2), n))
	case 8:
		emit("crb", fmt.Sprintf("crb 5 %s %d | %s %d", Hex(s1), h, Hex(s2), n))
	case 9, 10:
		emit("cru", fmt.Sprintf("cru 1 %d | %d %s", h, n, Hex(c19CollStr(g))))
	case 11:
		b1, b2 := c19CollStr(g), c19CollStr(g)
		if g.Chance(50) {
			b2 = b1
		}
		emit("crt", fmt.Sprintf("crt 3 %s %s | %s %s %d", Hex(s1), Hex(b1), Hex(s2), Hex(b2), n))
	}
}
