package harness

// M-Packets harness, IBC part: hand-built IBC state (07-tendermint client, connection, transfer
// channel, channel capability) on the keeper fixture, and the stand-in for ibc-go core's packet
// message handlers (receipt / commitment bookkeeping + the application callback on the *real*
// transfer stack `app.TransferStack`: genesisbridge -> delayedack -> denommetadata -> pfm ->
// bridgingfee -> transfer).  Proofs are not verified (ibc-go core is in the trusted base); the proof
// height reaches the middleware the way the production ante decorator passes it
// (commontypes.CtxWithPacketProofHeight).

import (
	"fmt"
	"time"

	abci "github.com/cometbft/cometbft/abci/types"
	sdk "github.com/cosmos/cosmos-sdk/types"
	transfertypes "github.com/cosmos/ibc-go/v8/modules/apps/transfer/types"
	clienttypes "github.com/cosmos/ibc-go/v8/modules/core/02-client/types"
	connectiontypes "github.com/cosmos/ibc-go/v8/modules/core/03-connection/types"
	channeltypes "github.com/cosmos/ibc-go/v8/modules/core/04-channel/types"
	commitmenttypes "github.com/cosmos/ibc-go/v8/modules/core/23-commitment/types"
	host "github.com/cosmos/ibc-go/v8/modules/core/24-host"
	ibctm "github.com/cosmos/ibc-go/v8/modules/light-clients/07-tendermint"
	protov2 "google.golang.org/protobuf/proto"

	commontypes "github.com/dymensionxyz/dymension/v3/x/common/types"
)

const pkPort = "transfer"

// pkLastRecvEvents: the events the transfer stack emitted during the last ibcRecv callback (a
// packet-forward-middleware forward sends a new packet from inside OnRecvPacket: its send_packet
// event is the only place the forwarded packet's bytes can be read from)
var pkLastRecvEvents []abci.Event

// pkChan is one hub-side transfer channel.
type pkChan struct {
	Hub, Cp  string // channel ids on the hub / on the counterparty
	ClientID string
	Rollapp  int // index of the rollapp whose canonical client the channel's client is, -1 = plain chain
	Canon    bool
}

// mkClient creates a 07-tendermint client for chainID.
func (f *Fix) mkClient(chainID string) string {
	cs := ibctm.NewClientState(chainID, ibctm.DefaultTrustLevel, 14*24*time.Hour, 21*24*time.Hour, 10*time.Minute,
		clienttypes.NewHeight(1, 5), commitmenttypes.GetSDKSpecs(), []string{"upgrade", "upgradedIBCState"})
	cons := ibctm.NewConsensusState(f.Time, commitmenttypes.NewMerkleRoot(make([]byte, 32)), make([]byte, 32))
	cid, err := f.App.IBCKeeper.ClientKeeper.CreateClient(f.Ctx, cs, cons)
	if err != nil {
		f.T.Fatal(err)
	}
	return cid
}

// mkChannel opens (by direct keeper writes) connection-<n> and an OPEN unordered ics20 channel.
func (f *Fix) mkChannel(n int, clientID, hubChan, cpChan string) {
	k := f.App.IBCKeeper
	connID := fmt.Sprintf("connection-%d", n)
	conn := connectiontypes.NewConnectionEnd(connectiontypes.OPEN, clientID,
		connectiontypes.NewCounterparty("07-tendermint-9", "connection-9", commitmenttypes.NewMerklePrefix([]byte("ibc"))),
		connectiontypes.GetCompatibleVersions(), 0)
	k.ConnectionKeeper.SetConnection(f.Ctx, connID, conn)
	ch := channeltypes.NewChannel(channeltypes.OPEN, channeltypes.UNORDERED, channeltypes.NewCounterparty(pkPort, cpChan), []string{connID}, transfertypes.Version)
	k.ChannelKeeper.SetChannel(f.Ctx, pkPort, hubChan, ch)
	k.ChannelKeeper.SetNextSequenceSend(f.Ctx, pkPort, hubChan, 1)
	k.ChannelKeeper.SetNextSequenceRecv(f.Ctx, pkPort, hubChan, 1)
	k.ChannelKeeper.SetNextSequenceAck(f.Ctx, pkPort, hubChan, 1)
	capPath := host.ChannelCapabilityPath(pkPort, hubChan)
	cp, err := f.App.ScopedIBCKeeper.NewCapability(f.Ctx, capPath)
	if err != nil {
		f.T.Fatal(err)
	}
	if err := f.App.ScopedTransferKeeper.ClaimCapability(f.Ctx, cp, capPath); err != nil {
		f.T.Fatal(err)
	}
}

// ibcRecv stands for ibc-go core's MsgRecvPacket handler (keeper.RecvPacket + the callback +
// WriteAcknowledgement): a receipt protects against redelivery; the callback runs in a cache context
// that is written iff the ack is nil (async) or successful; a non-nil ack is written.
// Returns "replay" | "async" | "ackok" | "ackerr" | "panic".
// (MsgAcknowledgement / MsgTimeout: see ibcAckCls / ibcTimeoutCls in packets_util.go — the commitment
// must exist and is deleted, then the callback; a callback error fails (reverts) the whole message.)
func (f *Fix) ibcRecv(pkt channeltypes.Packet, proofHeight uint64, relayer sdk.AccAddress) (res string) {
	ck := f.App.IBCKeeper.ChannelKeeper
	pkLastRecvEvents = nil
	pkLastRecvErr = nil
	// core RecvPacket checks the channel state before anything else (OPEN / FLUSHING / FLUSHCOMPLETE)
	if !f.chanAccepts(pkt.DestinationPort, pkt.DestinationChannel) {
		return "chanClosed"
	}
	if _, found := ck.GetPacketReceipt(f.Ctx, pkt.DestinationPort, pkt.DestinationChannel, pkt.Sequence); found {
		return "replay"
	}
	err := f.Try(func(ctx sdk.Context) error {
		ck.SetPacketReceipt(ctx, pkt.DestinationPort, pkt.DestinationChannel, pkt.Sequence)
		ctx = f.proofCtx(ctx, commontypes.RollappPacket_ON_RECV, pkt, proofHeight)
		cctx, write := ctx.CacheContext()
		cctx = cctx.WithEventManager(sdk.NewEventManager())
		ack := f.App.TransferStack.OnRecvPacket(cctx, pkt, relayer)
		pkLastRecvEvents = nil
		if ack == nil || ack.Success() {
			write()
			pkLastRecvEvents = cctx.EventManager().ABCIEvents()
		}
		if ack == nil {
			res = "async"
			return nil
		}
		if ack.Success() {
			res = "ackok"
		} else {
			res = "ackerr"
		}
		chanCap, ok := f.App.ScopedIBCKeeper.GetCapability(ctx, host.ChannelCapabilityPath(pkt.DestinationPort, pkt.DestinationChannel))
		if !ok {
			return fmt.Errorf("no channel capability")
		}
		return ck.WriteAcknowledgement(ctx, chanCap, pkt, ack)
	})
	if err != nil {
		pkLastRecvErr = err
		if IsPanic(err) {
			return "panic"
		}
		return "err"
	}
	return res
}

// pkLastRecvErr: the error (or recovered panic, with its stack) of the last failed ibcRecv
var pkLastRecvErr error

// chanAccepts: the channel end is in a state in which core IBC accepts packets / acknowledgements
func (f *Fix) chanAccepts(port, channel string) bool {
	ch, ok := f.App.IBCKeeper.ChannelKeeper.GetChannel(f.Ctx, port, channel)
	return ok && (ch.State == channeltypes.OPEN || ch.State == channeltypes.FLUSHING || ch.State == channeltypes.FLUSHCOMPLETE)
}

// setChanState writes the channel end's state (CLOSED is what ChanCloseConfirm / ChanCloseInit do)
func (f *Fix) setChanState(port, channel string, st channeltypes.State) {
	ch, ok := f.App.IBCKeeper.ChannelKeeper.GetChannel(f.Ctx, port, channel)
	if !ok {
		f.T.Fatalf("no channel %s", channel)
	}
	ch.State = st
	f.App.IBCKeeper.ChannelKeeper.SetChannel(f.Ctx, port, channel, ch)
}

func (f *Fix) deleteCommitment(ctx sdk.Context, pkt channeltypes.Packet) {
	st := ctx.KVStore(f.App.GetKVStoreKeys()["ibc"])
	st.Delete(host.PacketCommitmentKey(pkt.SourcePort, pkt.SourceChannel, pkt.Sequence))
}

// pkTx is the minimal sdk.Tx the proof-height ante decorator needs.
type pkTx struct{ msgs []sdk.Msg }

func (t pkTx) GetMsgs() []sdk.Msg                    { return t.msgs }
func (t pkTx) GetMsgsV2() ([]protov2.Message, error) { return nil, nil }

// proofCtx derives the context in which the middleware sees the packet's proof height exactly the
// way production does: the real IBCProofHeightDecorator (app/ante chain) runs over the whole
// transaction.  A relayer batches messages freely, so the transaction also carries the other two
// kinds of IBC packet message for the SAME port / channel / sequence with other proof heights (a
// far-future one before, height 1 after the message that is executed): the proof height of one
// message must not leak into another.  Only the message of interest is executed afterwards.
func (f *Fix) proofCtx(ctx sdk.Context, typ commontypes.RollappPacket_Type, pkt channeltypes.Packet, proofHeight uint64) sdk.Context {
	mk := func(t commontypes.RollappPacket_Type, h uint64) sdk.Msg {
		ht := clienttypes.NewHeight(1, h)
		switch t {
		case commontypes.RollappPacket_ON_RECV:
			p := pkt
			if typ != commontypes.RollappPacket_ON_RECV {
				// hub port/channel of a sent packet is its source; the decoy receive arrives on that channel
				p.DestinationPort, p.DestinationChannel = pkt.SourcePort, pkt.SourceChannel
			}
			return &channeltypes.MsgRecvPacket{Packet: p, ProofHeight: ht, Signer: Actor(1).String()}
		case commontypes.RollappPacket_ON_ACK, commontypes.RollappPacket_ON_TIMEOUT:
			p := pkt
			if typ == commontypes.RollappPacket_ON_RECV {
				p.SourcePort, p.SourceChannel = pkt.DestinationPort, pkt.DestinationChannel
			}
			if t == commontypes.RollappPacket_ON_ACK {
				return &channeltypes.MsgAcknowledgement{Packet: p, ProofHeight: ht, Signer: Actor(1).String()}
			}
			return &channeltypes.MsgTimeout{Packet: p, ProofHeight: ht, Signer: Actor(1).String()}
		}
		return nil
	}
	var before, after []sdk.Msg
	for _, t := range []commontypes.RollappPacket_Type{commontypes.RollappPacket_ON_RECV, commontypes.RollappPacket_ON_ACK, commontypes.RollappPacket_ON_TIMEOUT} {
		if t != typ {
			before = append(before, mk(t, 1<<40))
			after = append(after, mk(t, 1))
		}
	}
	// ... and an earlier message of the SAME kind for the same packet with another proof height: the decorator
	// keeps one height per (kind, port, channel, sequence) and the last message of the transaction wins
	// (CtxWithPacketProofHeight overwrites); the message of interest is the last of its kind
	before = append(before, mk(typ, 1<<41))
	msgs := append(append(before, mk(typ, proofHeight)), after...)
	out, err := commontypes.NewIBCProofHeightDecorator().AnteHandle(ctx, pkTx{msgs}, false,
		func(c sdk.Context, _ sdk.Tx, _ bool) (sdk.Context, error) { return c, nil })
	if err != nil {
		f.T.Fatalf("proof height decorator: %v", err)
	}
	return out
}
