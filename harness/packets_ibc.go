package harness

// M-Packets harness, IBC part: hand-built IBC state (07-tendermint client, connection, transfer
// channel, channel capability) on the keeper fixture, and the stand-in for ibc-go core's packet
// message handlers (receipt / commitment bookkeeping + the application callback on the *real*
// transfer stack `app.TransferStack`: genesisbridge -> delayedack -> denommetadata -> pfm ->
// bridgingfee -> transfer).  Proofs are not verified (ibc-go core is in the trusted base); the proof
// height reaches the middleware the way the production ante decorator passes it
// (commontypes.CtxWithPacketProofHeight).

import (
	"fmt"
	"time"

	sdk "github.com/cosmos/cosmos-sdk/types"
	transfertypes "github.com/cosmos/ibc-go/v8/modules/apps/transfer/types"
	clienttypes "github.com/cosmos/ibc-go/v8/modules/core/02-client/types"
	connectiontypes "github.com/cosmos/ibc-go/v8/modules/core/03-connection/types"
	channeltypes "github.com/cosmos/ibc-go/v8/modules/core/04-channel/types"
	commitmenttypes "github.com/cosmos/ibc-go/v8/modules/core/23-commitment/types"
	host "github.com/cosmos/ibc-go/v8/modules/core/24-host"
	ibctm "github.com/cosmos/ibc-go/v8/modules/light-clients/07-tendermint"

	commontypes "github.com/dymensionxyz/dymension/v3/x/common/types"
)

const pkPort = "transfer"

// pkChan is one hub-side transfer channel.
type pkChan struct {
	Hub, Cp  string // channel ids on the hub / on the counterparty
	ClientID string
	Rollapp  int // index of the rollapp whose canonical client the channel's client is, -1 = plain chain
	Canon    bool
}

// mkClient creates a 07-tendermint client for chainID.
func (f *Fix) mkClient(chainID string) string {
	cs := ibctm.NewClientState(chainID, ibctm.DefaultTrustLevel, 14*24*time.Hour, 21*24*time.Hour, 10*time.Minute,
		clienttypes.NewHeight(1, 5), commitmenttypes.GetSDKSpecs(), []string{"upgrade", "upgradedIBCState"})
	cons := ibctm.NewConsensusState(f.Time, commitmenttypes.NewMerkleRoot(make([]byte, 32)), make([]byte, 32))
	cid, err := f.App.IBCKeeper.ClientKeeper.CreateClient(f.Ctx, cs, cons)
	if err != nil {
		f.T.Fatal(err)
	}
	return cid
}

// mkChannel opens (by direct keeper writes) connection-<n> and an OPEN unordered ics20 channel.
func (f *Fix) mkChannel(n int, clientID, hubChan, cpChan string) {
	k := f.App.IBCKeeper
	connID := fmt.Sprintf("connection-%d", n)
	conn := connectiontypes.NewConnectionEnd(connectiontypes.OPEN, clientID,
		connectiontypes.NewCounterparty("07-tendermint-9", "connection-9", commitmenttypes.NewMerklePrefix([]byte("ibc"))),
		connectiontypes.GetCompatibleVersions(), 0)
	k.ConnectionKeeper.SetConnection(f.Ctx, connID, conn)
	ch := channeltypes.NewChannel(channeltypes.OPEN, channeltypes.UNORDERED, channeltypes.NewCounterparty(pkPort, cpChan), []string{connID}, transfertypes.Version)
	k.ChannelKeeper.SetChannel(f.Ctx, pkPort, hubChan, ch)
	k.ChannelKeeper.SetNextSequenceSend(f.Ctx, pkPort, hubChan, 1)
	k.ChannelKeeper.SetNextSequenceRecv(f.Ctx, pkPort, hubChan, 1)
	k.ChannelKeeper.SetNextSequenceAck(f.Ctx, pkPort, hubChan, 1)
	capPath := host.ChannelCapabilityPath(pkPort, hubChan)
	cp, err := f.App.ScopedIBCKeeper.NewCapability(f.Ctx, capPath)
	if err != nil {
		f.T.Fatal(err)
	}
	if err := f.App.ScopedTransferKeeper.ClaimCapability(f.Ctx, cp, capPath); err != nil {
		f.T.Fatal(err)
	}
}

// ibcRecv stands for ibc-go core's MsgRecvPacket handler (keeper.RecvPacket + the callback +
// WriteAcknowledgement): a receipt protects against redelivery; the callback runs in a cache context
// that is written iff the ack is nil (async) or successful; a non-nil ack is written.
// Returns "replay" | "async" | "ackok" | "ackerr" | "panic".
// (MsgAcknowledgement / MsgTimeout: see ibcAckCls / ibcTimeoutCls in packets_util.go — the commitment
// must exist and is deleted, then the callback; a callback error fails (reverts) the whole message.)
func (f *Fix) ibcRecv(pkt channeltypes.Packet, proofHeight uint64, relayer sdk.AccAddress) (res string) {
	ck := f.App.IBCKeeper.ChannelKeeper
	// core RecvPacket checks the channel state before anything else (OPEN / FLUSHING / FLUSHCOMPLETE)
	if !f.chanAccepts(pkt.DestinationPort, pkt.DestinationChannel) {
		return "chanClosed"
	}
	if _, found := ck.GetPacketReceipt(f.Ctx, pkt.DestinationPort, pkt.DestinationChannel, pkt.Sequence); found {
		return "replay"
	}
	err := f.Try(func(ctx sdk.Context) error {
		ck.SetPacketReceipt(ctx, pkt.DestinationPort, pkt.DestinationChannel, pkt.Sequence)
		uid := commontypes.NewPacketUID(commontypes.RollappPacket_ON_RECV, pkt.DestinationPort, pkt.DestinationChannel, pkt.Sequence)
		ctx = commontypes.CtxWithPacketProofHeight(ctx, uid, clienttypes.NewHeight(1, proofHeight))
		cctx, write := ctx.CacheContext()
		ack := f.App.TransferStack.OnRecvPacket(cctx, pkt, relayer)
		if ack == nil || ack.Success() {
			write()
		}
		if ack == nil {
			res = "async"
			return nil
		}
		if ack.Success() {
			res = "ackok"
		} else {
			res = "ackerr"
		}
		chanCap, ok := f.App.ScopedIBCKeeper.GetCapability(ctx, host.ChannelCapabilityPath(pkt.DestinationPort, pkt.DestinationChannel))
		if !ok {
			return fmt.Errorf("no channel capability")
		}
		return ck.WriteAcknowledgement(ctx, chanCap, pkt, ack)
	})
	if err != nil {
		if IsPanic(err) {
			return "panic"
		}
		return "err"
	}
	return res
}

// chanAccepts: the channel end is in a state in which core IBC accepts packets / acknowledgements
func (f *Fix) chanAccepts(port, channel string) bool {
	ch, ok := f.App.IBCKeeper.ChannelKeeper.GetChannel(f.Ctx, port, channel)
	return ok && (ch.State == channeltypes.OPEN || ch.State == channeltypes.FLUSHING || ch.State == channeltypes.FLUSHCOMPLETE)
}

// setChanState writes the channel end's state (CLOSED is what ChanCloseConfirm / ChanCloseInit do)
func (f *Fix) setChanState(port, channel string, st channeltypes.State) {
	ch, ok := f.App.IBCKeeper.ChannelKeeper.GetChannel(f.Ctx, port, channel)
	if !ok {
		f.T.Fatalf("no channel %s", channel)
	}
	ch.State = st
	f.App.IBCKeeper.ChannelKeeper.SetChannel(f.Ctx, port, channel, ch)
}

func (f *Fix) deleteCommitment(ctx sdk.Context, pkt channeltypes.Packet) {
	st := ctx.KVStore(f.App.GetKVStoreKeys()["ibc"])
	st.Delete(host.PacketCommitmentKey(pkt.SourcePort, pkt.SourceChannel, pkt.Sequence))
}
