package harness

// C20 — governance-only messages of the THIRD-PARTY modules (SDK, ibc-go, ethermint) and of the custom
// modules, probed with content that the authority itself gets accepted:
//
//   ext <typeURL> <signer>     the message with valid content and `signer` (a<i> | m<j>) in its signer
//                              field; observation rej | ok
//   ext <typeURL> gov          the authority's own run, NOT discarded (generated for MsgRecoverClient);
//                              observation na: the model has no verdict on content, monitors only
//
// For every probe the same content is first delivered with the governance account as signer on a
// discarded branch of the state ("dry run").  When that succeeds the probe REACHES the authority
// comparison: the only difference between the accepted and the probed message is the signer.  Kinds
// whose dry run fails are listed in the evidence (`ext-kinds-not-reaching-guard`) with the error.
//
// The set of probed types: every routed message type with an `Authority` field, and every routed
// message type of a foreign module whose name says governance-only (UpdateParams, RecoverClient,
// IBCSoftwareUpgrade …) whatever its signer field is called (found by probing GetSigners).

import (
	"fmt"
	"reflect"
	"regexp"
	"sort"
	"strings"
	"time"

	upgradetypes "cosmossdk.io/x/upgrade/types"
	cmttypes "github.com/cometbft/cometbft/types"
	sdk "github.com/cosmos/cosmos-sdk/types"
	authtypes "github.com/cosmos/cosmos-sdk/x/auth/types"
	banktypes "github.com/cosmos/cosmos-sdk/x/bank/types"
	consensustypes "github.com/cosmos/cosmos-sdk/x/consensus/types"
	crisistypes "github.com/cosmos/cosmos-sdk/x/crisis/types"
	distrtypes "github.com/cosmos/cosmos-sdk/x/distribution/types"
	govv1 "github.com/cosmos/cosmos-sdk/x/gov/types/v1"
	govv1beta1 "github.com/cosmos/cosmos-sdk/x/gov/types/v1beta1"
	minttypes "github.com/cosmos/cosmos-sdk/x/mint/types"
	slashingtypes "github.com/cosmos/cosmos-sdk/x/slashing/types"
	stakingtypes "github.com/cosmos/cosmos-sdk/x/staking/types"
	ibctransfertypes "github.com/cosmos/ibc-go/v8/modules/apps/transfer/types"
	ibcclienttypes "github.com/cosmos/ibc-go/v8/modules/core/02-client/types"
	ibcconnectiontypes "github.com/cosmos/ibc-go/v8/modules/core/03-connection/types"
	ibcchanneltypes "github.com/cosmos/ibc-go/v8/modules/core/04-channel/types"
	commitmenttypes "github.com/cosmos/ibc-go/v8/modules/core/23-commitment/types"
	ibctm "github.com/cosmos/ibc-go/v8/modules/light-clients/07-tendermint"
	evmtypes "github.com/evmos/ethermint/x/evm/types"
	feemarkettypes "github.com/evmos/ethermint/x/feemarket/types"
)

type c20ExtTarget struct {
	url    string
	signer string // Go field path of the signer ("Authority", "Signer", …)
}

var c20GovOnlyName = regexp.MustCompile(`\.Msg(UpdateParams|UpdateClientParams|RecoverClient|IBCSoftwareUpgrade|SoftwareUpgrade|CancelUpgrade|CommunityPoolSpend|SetSendEnabled|ExecLegacyContent)$`)

// extTargets: which routed message types are governance-only by declaration
func (p *c20Priv) extTargets() []c20ExtTarget {
	var out []c20ExtTarget
	reg := p.f.App.InterfaceRegistry()
	for _, url := range reg.ListImplementations(sdk.MsgInterfaceProtoName) {
		if p.f.App.MsgServiceRouter().HandlerByTypeURL(url) == nil {
			continue
		}
		m, err := reg.Resolve(url)
		if err != nil {
			continue
		}
		if fld, ok := reflect.TypeOf(m).Elem().FieldByName("Authority"); ok && fld.Type.Kind() == reflect.String {
			out = append(out, c20ExtTarget{url, "Authority"})
			continue
		}
		if _, custom := c20CustomKey(m); custom || !c20GovOnlyName.MatchString(url) {
			continue
		}
		if sf := p.probeSigner(url); sf != "?" && !strings.Contains(sf, ".") {
			out = append(out, c20ExtTarget{url, sf})
			p.s.r.Hit("ext/gov-only-by-name-with-signer-field-" + sf)
		}
	}
	sort.Slice(out, func(i, j int) bool { return out[i].url < out[j].url })
	return out
}

// extBuild: the message `url` with `signer` in its signer field and content the authority gets accepted
func (p *c20Priv) extBuild(t c20ExtTarget, signer sdk.AccAddress, n int) (sdk.Msg, error) {
	f := p.f
	ctx := f.Ctx
	m, err := f.App.InterfaceRegistry().Resolve(t.url)
	if err != nil {
		return nil, err
	}
	if key, custom := c20CustomKey(m); custom {
		// the custom modules' governance messages: the content builders of the privileged kinds
		if k, ok := p.byKey[key]; ok {
			return k.build(p, signer, n, -1)
		}
	}
	switch x := m.(type) {
	case *authtypes.MsgUpdateParams:
		x.Params = f.App.AccountKeeper.GetParams(ctx)
	case *banktypes.MsgUpdateParams:
		x.Params = f.App.BankKeeper.GetParams(ctx)
	case *banktypes.MsgSetSendEnabled:
		x.SendEnabled = []*banktypes.SendEnabled{{Denom: "adym", Enabled: true}}
	case *consensustypes.MsgUpdateParams:
		cp, err := f.App.ConsensusParamsKeeper.ParamsStore.Get(ctx)
		if err != nil || cp.Block == nil || cp.Evidence == nil || cp.Validator == nil {
			cp = cmttypes.DefaultConsensusParams().ToProto()
		}
		x.Block, x.Evidence, x.Validator = cp.Block, cp.Evidence, cp.Validator
	case *crisistypes.MsgUpdateParams:
		x.ConstantFee = sdk.NewCoin("adym", pow10(1, 3))
	case *distrtypes.MsgUpdateParams:
		pr, err := f.App.DistrKeeper.Params.Get(ctx)
		if err != nil {
			return nil, err
		}
		x.Params = pr
	case *distrtypes.MsgCommunityPoolSpend:
		x.Recipient, x.Amount = Actor(1).String(), sdk.NewCoins(coinA(1))
	case *govv1.MsgUpdateParams:
		pr, err := f.App.GovKeeper.Params.Get(ctx)
		if err != nil {
			return nil, err
		}
		x.Params = pr
	case *govv1.MsgExecLegacyContent:
		x.Content = mustAny(govv1beta1.NewTextProposal("t", "d"))
	case *minttypes.MsgUpdateParams:
		pr, err := f.App.MintKeeper.Params.Get(ctx)
		if err != nil {
			return nil, err
		}
		x.Params = pr
	case *slashingtypes.MsgUpdateParams:
		pr, err := f.App.SlashingKeeper.GetParams(ctx)
		if err != nil {
			return nil, err
		}
		x.Params = pr
	case *stakingtypes.MsgUpdateParams:
		pr, err := f.App.StakingKeeper.GetParams(ctx)
		if err != nil {
			return nil, err
		}
		x.Params = pr
	case *upgradetypes.MsgSoftwareUpgrade:
		x.Plan = upgradetypes.Plan{Name: fmt.Sprintf("vrf%d", n), Height: ctx.BlockHeight() + 1000}
	case *upgradetypes.MsgCancelUpgrade:
	case *evmtypes.MsgUpdateParams:
		x.Params = f.App.EvmKeeper.GetParams(ctx)
	case *feemarkettypes.MsgUpdateParams:
		x.Params = f.App.FeeMarketKeeper.GetParams(ctx)
	case *ibcchanneltypes.MsgUpdateParams:
		x.Params = f.App.IBCKeeper.ChannelKeeper.GetParams(ctx)
	case *ibcclienttypes.MsgUpdateParams:
		x.Params = f.App.IBCKeeper.ClientKeeper.GetParams(ctx)
	case *ibcconnectiontypes.MsgUpdateParams:
		x.Params = f.App.IBCKeeper.ConnectionKeeper.GetParams(ctx)
	case *ibcclienttypes.MsgIBCSoftwareUpgrade:
		cs := ibctm.NewClientState("dymverifnext-2", ibctm.DefaultTrustLevel, 14*24*time.Hour, 21*24*time.Hour, 10*time.Second,
			ibcclienttypes.NewHeight(2, 100), commitmenttypes.GetSDKSpecs(), []string{"upgrade", "upgradedIBCState"})
		x.Plan = upgradetypes.Plan{Name: fmt.Sprintf("ibcvrf%d", n), Height: ctx.BlockHeight() + 2000}
		x.UpgradedClientState = mustAny(cs.ZeroCustomFields())
	case *ibcclienttypes.MsgRecoverClient:
		x.SubjectClientId, x.SubstituteClientId = p.recoverPair()
	case *ibctransfertypes.MsgUpdateParams:
		x.Params = f.App.TransferKeeper.GetParams(ctx)
	default:
		p.s.r.Hit("ext/no-content-builder")
	}
	fv := reflect.ValueOf(m).Elem().FieldByName(t.signer)
	if !fv.IsValid() || fv.Kind() != reflect.String {
		return nil, fmt.Errorf("no string field %s", t.signer)
	}
	fv.SetString(signer.String())
	sm, ok := m.(sdk.Msg)
	if !ok {
		return nil, fmt.Errorf("not an sdk.Msg")
	}
	return sm, nil
}

func (p *c20Priv) execExt2(line string, f []string) string {
	r := p.s.r
	if len(f) != 3 {
		return "bad-op"
	}
	signer, ok := p.signerAddr(f[2])
	if !ok {
		return "bad-op"
	}
	var t *c20ExtTarget
	for i := range p.extT {
		if p.extT[i].url == f[1] {
			t = &p.extT[i]
		}
	}
	if t == nil {
		return "bad-op"
	}
	if f[2] == "gov" {
		return p.execExtGov(t) // c20_ibc_test.go
	}
	p.nonce++
	n := p.nonce
	// does the authority get this content accepted (on a discarded branch)?
	reaches := false
	if gm, err := p.extBuild(*t, p.gov, n); err == nil {
		if derr := p.dry(gm); derr == nil {
			reaches = true
		} else {
			p.s.extMiss[t.url] = c20Printable(derr.Error(), 140)
		}
	} else {
		p.s.extMiss[t.url] = "build: " + c20Printable(err.Error(), 120)
	}
	if reaches {
		p.s.extHit[t.url] = true
		delete(p.s.extMiss, t.url)
	}
	sm, err := p.extBuild(*t, signer, n)
	if err != nil {
		return "bad-op"
	}
	before := p.f.StoreDigest()
	_, derr := p.deliver(sm)
	after := p.f.StoreDigest()
	replay := append([]string{}, p.s.trace...)
	role := "other-user"
	if strings.HasPrefix(f[2], "m") {
		role = "module-account"
	}
	if derr == nil {
		r.Violate("C20/authority/"+f[1]+"/accepted-from-non-authority", "governance-only message (signer field "+t.signer+") signed by "+f[2]+" ("+role+") succeeded", replay...)
		p.s.seq = append(p.s.seq, "ext:"+f[1]+":ok")
		return "ok"
	}
	if before != after {
		r.Violate("C20/no-state-change/"+f[1]+"/state-changed-by-failed-message", fmt.Sprintf("digest %s -> %s", before, after), replay...)
	}
	if reaches {
		r.Hit("ext/reached-the-guard/" + role + "/rejected")
	} else {
		r.Hit("ext/rejected-but-content-not-accepted-from-authority-either")
	}
	if IsPanic(derr) {
		r.Hit("ext/panic/" + f[1])
	}
	p.s.seq = append(p.s.seq, "ext:"+f[1]+":rej")
	return "rej"
}

func (p *c20Priv) finishExt() {
	var reach, miss []string
	for _, t := range p.extT {
		if p.s.extHit[t.url] {
			reach = append(reach, t.url)
		} else {
			miss = append(miss, t.url+" :: "+p.s.extMiss[t.url])
		}
	}
	sort.Strings(reach)
	sort.Strings(miss)
	p.s.r.Set("ext-kinds-reaching-guard", reach)
	p.s.r.Set("ext-kinds-not-reaching-guard", miss)
	var real []string
	for _, t := range p.extT {
		if n := p.stats["extpos:"+t.url]; n > 0 {
			real = append(real, fmt.Sprintf("%s x%d", t.url, n))
		}
	}
	p.s.r.Set("ext-kinds-accepted-from-authority-not-discarded", real)
}
