package harness

import (
	"fmt"
	"testing"
	"time"

	"cosmossdk.io/math"
	"encoding/json"
	sdk "github.com/cosmos/cosmos-sdk/types"
	transfertypes "github.com/cosmos/ibc-go/v8/modules/apps/transfer/types"
	clienttypes "github.com/cosmos/ibc-go/v8/modules/core/02-client/types"
	channeltypes "github.com/cosmos/ibc-go/v8/modules/core/04-channel/types"

	lctypes "github.com/dymensionxyz/dymension/v3/x/lightclient/types"
	rollapptypes "github.com/dymensionxyz/dymension/v3/x/rollapp/types"
)

func TestIbcSpike(t *testing.T) {
	t0 := time.Now()
	e := newIbcEnv(t, 4)
	fmt.Println("setup", time.Since(t0))
	must := func(what string, err error) {
		fmt.Println(what, "=>", err)
	}
	must("create rollapp", e.createRollapp(0, ibcDefaultGenesisInfo(0)))
	must("create rollapp1", e.createRollapp(1, ibcDefaultGenesisInfo(1)))
	must("create seq", e.createSequencer(0, 0))
	must("create seq1", e.createSequencer(1, 1))
	id := ibcRollappID(0)
	post := func(start, n uint64) {
		var bds rollapptypes.BlockDescriptors
		for h := start; h < start+n; h++ {
			bds.BD = append(bds.BD, rollapptypes.BlockDescriptor{Height: h, StateRoot: ibcRoot(h), Timestamp: ibcRaTime(h)})
		}
		_, err := e.f.Deliver(&rollapptypes.MsgUpdateState{Creator: e.seqAddr[0].String(), RollappId: id, StartHeight: start, NumBlocks: n, BDs: bds})
		must(fmt.Sprintf("update state %d+%d", start, n), err)
	}
	post(1, 5)
	post(6, 3)
	post(9, 1)
	post(10, 3)
	// F-D: consensus states at 8 (bogus root) and 10 (agreeing); signed by an unregistered key (actor 3)
	att := []hdrVal{{3, 1, true}}
	cid, err := e.createClient(ibcClientState(id, 8, "ok"), ibcRaTime(8), ibcRoot(99), e.valsetOf(att).Hash())
	must("create attacker client "+cid, err)
	hd := e.header(hdrSpec{ChainID: id, Height: 10, Trusted: 8, Time: ibcRaTime(10), Root: ibcRoot(10), Vals: att, TrustedVals: att, NextVal: 0, Proposer: 3, ProposerData: -2})
	m0, _ := clienttypes.NewMsgUpdateClient(cid, hd, e.relayer.String())
	a, m := e.runTx(m0)
	must("attacker update to 10: ante", a)
	must("attacker update to 10: msg", m)
	_, err = e.f.Deliver(&lctypes.MsgSetCanonicalClient{Signer: e.relayer.String(), ClientId: cid})
	must("F-D set canonical with disagreeing cons state at 8", err)
	// F-A: header at 12 with wrong root, validator set {seq0 power 10 signs, seq1 power 1 absent}, proposer = seq1 (bonded sequencer of rollapp 1)
	hd = e.header(hdrSpec{ChainID: id, Height: 12, Trusted: 10, Time: ibcRaTime(12), Root: ibcRoot(77), Vals: []hdrVal{{0, 10, true}, {1, 1, false}},
		TrustedVals: []hdrVal{{0, 1, true}}, NextVal: 0, Proposer: 1, ProposerData: -2})
	m0, _ = clienttypes.NewMsgUpdateClient(cid, hd, e.relayer.String())
	a, m = e.runTx(m0)
	must("F-A conflicting header, proposer = sequencer of another rollapp: ante", a)
	must("F-A conflicting header, proposer = sequencer of another rollapp: msg", m)
	cs, ok := e.f.App.IBCKeeper.ClientKeeper.GetClientConsensusState(e.f.Ctx, cid, clienttypes.NewHeight(1, 12))
	fmt.Println("cons state at 12:", ok, cs)
	// the same header with proposer = seq0 is refused by the hub
	hd = e.header(hdrSpec{ChainID: id, Height: 11, Trusted: 10, Time: ibcRaTime(11), Root: ibcRoot(77), Vals: []hdrVal{{0, 1, true}},
		TrustedVals: []hdrVal{{0, 1, true}}, NextVal: 0, Proposer: 0, ProposerData: -2})
	m0, _ = clienttypes.NewMsgUpdateClient(cid, hd, e.relayer.String())
	a, m = e.runTx(m0)
	must("conflicting header, proposer = seq0: ante", a)
	// ---- C10 spike
	canon, _ := e.f.App.LightClientKeeper.GetCanonicalClient(e.f.Ctx, id)
	conn := e.openConnection(canon)
	ch, err := e.chanOpenInit(conn)
	must("chan open init "+ch, err)
	ackMsg := channeltypes.NewMsgChannelOpenAck("transfer", ch, "channel-7", "ics20-1", []byte("proof"), clienttypes.NewHeight(1, 4), e.relayer.String())
	a, m = e.runTx(ackMsg)
	must("chan open ack ante", a)
	must("chan open ack msg", m)
	ra, _ := e.f.App.RollappKeeper.GetRollapp(e.f.Ctx, id)
	fmt.Println("rollapp channel id:", ra.ChannelId)
	e.setChannelOpen(ch, "channel-7")
	// outgoing transfer while closed
	tr := transfertypes.NewMsgTransfer("transfer", ch, sdk.NewCoin(ibcDenom, math.NewInt(5)), e.relayer.String(), "pfa1xyz", clienttypes.NewHeight(1, 1000), 0, "")
	_, err = e.f.Deliver(tr)
	must("transfer while closed", err)
	// handshake packet
	gb := e.genesisBridgeData(ra.GenesisInfo)
	bz, _ := json.Marshal(gb)
	pkt := channeltypes.NewPacket(bz, 1, "transfer", "channel-7", "transfer", ch, clienttypes.NewHeight(1, 1000), 0)
	ack, et, err := e.recvPacket(pkt, clienttypes.NewHeight(1, 4))
	fmt.Printf("recv handshake: ack=%s et=%s err=%v\n", string(ack.Acknowledgement()), et, err)
	ra, _ = e.f.App.RollappKeeper.GetRollapp(e.f.Ctx, id)
	fmt.Println("tph:", ra.GenesisState.TransferProofHeight)
	_, err = e.f.Deliver(tr)
	must("transfer while open", err)
	fmt.Println("total", time.Since(t0))
}
