package harness

import (
	"fmt"
	"testing"
	"time"

	"cosmossdk.io/math"
	"encoding/json"
	sdk "github.com/cosmos/cosmos-sdk/types"
	transfertypes "github.com/cosmos/ibc-go/v8/modules/apps/transfer/types"
	clienttypes "github.com/cosmos/ibc-go/v8/modules/core/02-client/types"
	channeltypes "github.com/cosmos/ibc-go/v8/modules/core/04-channel/types"

	lctypes "github.com/dymensionxyz/dymension/v3/x/lightclient/types"
	rollapptypes "github.com/dymensionxyz/dymension/v3/x/rollapp/types"
)

func TestIbcSpike(t *testing.T) {
	t0 := time.Now()
	e := newIbcEnv(t, 4)
	fmt.Println("setup", time.Since(t0))
	must := func(what string, err error) {
		fmt.Println(what, "=>", err)
	}
	must("create rollapp", e.createRollapp(0, ibcDefaultGenesisInfo(0)))
	must("create rollapp1", e.createRollapp(1, ibcDefaultGenesisInfo(1)))
	must("create seq", e.createSequencer(0, 0))
	must("create seq1", e.createSequencer(1, 1))
	id := ibcRollappID(0)
	// state update heights 1..5
	var bds rollapptypes.BlockDescriptors
	for h := uint64(1); h <= 5; h++ {
		bds.BD = append(bds.BD, rollapptypes.BlockDescriptor{Height: h, StateRoot: ibcRoot(h), Timestamp: ibcRaTime(h)})
	}
	_, err := e.f.Deliver(&rollapptypes.MsgUpdateState{Creator: e.seqAddr[0].String(), RollappId: id, StartHeight: 1, NumBlocks: 5, BDs: bds})
	must("update state", err)
	for _, v := range []string{"ok", "specs1nopath", "specs3", "trusting"} {
		cid, err := e.createClient(ibcClientState(id, 3, v), ibcRaTime(3), ibcRoot(3), e.valHash(0))
		must("create client "+v+" "+cid, err)
		if v != "ok" {
			_, err = e.f.Deliver(&lctypes.MsgSetCanonicalClient{Signer: e.relayer.String(), ClientId: cid})
			must("set canonical "+v, err)
		}
	}
	cid := "07-tendermint-0"
	_, err = e.f.Deliver(&lctypes.MsgSetCanonicalClient{Signer: e.relayer.String(), ClientId: cid})
	must("set canonical ok", err)
	// header at height 4 (state exists), honest
	mk := func(h uint64, root uint64, signer, prop int) *clienttypes.MsgUpdateClient {
		hd := e.header(hdrSpec{ChainID: id, Height: h, Trusted: 3, Time: ibcRaTime(h), Root: ibcRoot(root), Signer: signer, TrustedSigner: 0, NextVal: 0, Proposer: prop, ProposerData: -2})
		m, err := clienttypes.NewMsgUpdateClient(cid, hd, e.relayer.String())
		if err != nil {
			t.Fatal(err)
		}
		return m
	}
	a, m := e.runTx(mk(4, 4, 0, 0))
	must("update h4 honest ante", a)
	must("update h4 honest msg", m)
	a, m = e.runTx(mk(5, 99, 0, 0))
	must("update h5 wrong root ante", a)
	must("update h5 wrong root msg", m)
	a, m = e.runTx(mk(5, 99, 0, 1))
	must("update h5 wrong root, proposer field = seq of other rollapp: ante", a)
	must("update h5 wrong root, proposer field = seq of other rollapp: msg", m)
	// ---- C10 spike
	canon, _ := e.f.App.LightClientKeeper.GetCanonicalClient(e.f.Ctx, id)
	conn := e.openConnection(canon)
	ch, err := e.chanOpenInit(conn)
	must("chan open init "+ch, err)
	ackMsg := channeltypes.NewMsgChannelOpenAck("transfer", ch, "channel-7", "ics20-1", []byte("proof"), clienttypes.NewHeight(1, 4), e.relayer.String())
	a, m = e.runTx(ackMsg)
	must("chan open ack ante", a)
	must("chan open ack msg", m)
	ra, _ := e.f.App.RollappKeeper.GetRollapp(e.f.Ctx, id)
	fmt.Println("rollapp channel id:", ra.ChannelId)
	e.setChannelOpen(ch, "channel-7")
	// outgoing transfer while closed
	tr := transfertypes.NewMsgTransfer("transfer", ch, sdk.NewCoin(ibcDenom, math.NewInt(5)), e.relayer.String(), "pfa1xyz", clienttypes.NewHeight(1, 1000), 0, "")
	_, err = e.f.Deliver(tr)
	must("transfer while closed", err)
	// handshake packet
	gb := e.genesisBridgeData(ra.GenesisInfo)
	bz, _ := json.Marshal(gb)
	pkt := channeltypes.NewPacket(bz, 1, "transfer", "channel-7", "transfer", ch, clienttypes.NewHeight(1, 1000), 0)
	ack, et, err := e.recvPacket(pkt, clienttypes.NewHeight(1, 4))
	fmt.Printf("recv handshake: ack=%s et=%s err=%v\n", string(ack.Acknowledgement()), et, err)
	ra, _ = e.f.App.RollappKeeper.GetRollapp(e.f.Ctx, id)
	fmt.Println("tph:", ra.GenesisState.TransferProofHeight)
	_, err = e.f.Deliver(tr)
	must("transfer while open", err)
	fmt.Println("total", time.Since(t0))
}
