package harness

import (
	"bytes"
	"context"
	"errors"
	"fmt"
	"reflect"
	"sort"
	"strconv"
	"strings"
	"testing"
	"time"
	"unsafe"

	coreheader "cosmossdk.io/core/header"
	"cosmossdk.io/math"
	"github.com/cosmos/cosmos-sdk/crypto/keys/ed25519"
	sdk "github.com/cosmos/cosmos-sdk/types"
	authtypes "github.com/cosmos/cosmos-sdk/x/auth/types"
	govtypes "github.com/cosmos/cosmos-sdk/x/gov/types"
	stakingtypes "github.com/cosmos/cosmos-sdk/x/staking/types"
	epochstypes "github.com/osmosis-labs/osmosis/v15/x/epochs/types"

	"github.com/dymensionxyz/dymension/v3/app/apptesting"
	incentivestypes "github.com/dymensionxyz/dymension/v3/x/incentives/types"
	lockuptypes "github.com/dymensionxyz/dymension/v3/x/lockup/types"
	rollapptypes "github.com/dymensionxyz/dymension/v3/x/rollapp/types"
	sponskeeper "github.com/dymensionxyz/dymension/v3/x/sponsorship/keeper"
	sponstypes "github.com/dymensionxyz/dymension/v3/x/sponsorship/types"
)

// C16 — sponsorship weights track staked power; endorsement claims are bounded.
//
// One app per test; every trace runs on a cache branch of the base state (validators v0..v2 bonded,
// rollapps r0,r1 with their rollapp gauges and endorsements, funded actors a0..a3, epoch infos
// re-based at the base time so that `begin <seconds>` ends hour/day/week epochs by the real epochs
// BeginBlocker).  Staking is driven through the real message server (Fix.Deliver) and
// `StakingKeeper.Slash`; the op line written to ops.txt carries, after `::`, the staking-side facts
// the model is parametrised by (DESIGN 2.2: "staking: ops carry the staking-side voting power").

const (
	c16NActors = 4
	c16NVals   = 3
	c16Reward  = "urew"
)

// r0, r1 exist in the base state; r2 is created mid-trace by a real MsgCreateRollapp (`addrollapp r2`)
var c16RollappIDs = []string{"rollappa_1234-1", "rollappb_1235-1", "rollappc_1236-1"}

const c16NBase = 2

type c16Val struct {
	op   sdk.AccAddress
	val  sdk.ValAddress
	cons sdk.ConsAddress
}

type c16Unb struct {
	height int64
	amt    math.Int
}

type c16 struct {
	r    *Run
	f    *Fix
	base sdk.Context
	f0   Fix // the prepared fixture (C18 continue-after-import replaces the application behind h.f)
	bh   int64
	bt   time.Time
	bond string

	actors  []sdk.AccAddress
	vals    []c16Val
	creator sdk.AccAddress
	baseRa  []uint64 // rollapp gauges of the base rollapps r0, r1
	raGauge []uint64 // per trace: rollapp gauge of every DECLARED rollapp (hdr rollapp / addrollapp), by index
	baseG   []uint64 // perpetual asset gauges of the base state: ids below / between the rollapp gauges
	qs      sponskeeper.QueryServer

	// per trace
	lines   []string // replayable op lines of the current trace (without facts)
	kinds   []string // op-kind/outcome sequence
	changed bool
	minVP   math.Int
	minAl   math.Int
	assetG  []uint64       // asset gauges (perpetual first)
	nonPerp uint64         // a non perpetual asset gauge
	eG      []uint64       // endorsement gauges
	eGr     map[uint64]int // endorsement gauge -> rollapp index
	unb     map[[2]int][]c16Unb
	slashed bool
	curDel  int // delegator of the staking message being executed (-1 otherwise)

	// monitor state
	gDisc      map[uint64]string // gauge -> (distribution − Σ votes) as string
	vpDisc     string
	pDisc      map[int]string // actor -> (vote.vp − staking power)
	distrEnded bool
	sDisc      map[int]string  // rollapp -> (total shares − Σ votes' power on its gauge)
	lowKept    map[int]bool    // actor keeps a vote while staking power < min
	invBrk     map[string]bool // registered invariant currently broken
	recBad     bool
	negs       string
	weekNo     int64
	claimed    map[uint64]math.Int // per endorsement gauge: claimed in the current distribution epoch
	allot      map[uint64]math.Int // per endorsement gauge: allotment of the current distribution epoch
	claimBy    map[int]int         // actor -> number of claims in the current distribution epoch
	votedIn    map[int]bool        // actor voted in the current distribution epoch
	rep        map[uint64]bool     // gauge had a repeated claimer in this epoch
	minAt      map[int]math.Int    // actor -> MinVotingPower in force when its vote last changed
	lastVote   map[int]string      // actor -> rendering of its vote after the previous op
	overpaid   bool                // some endorsement gauge has paid more than an epoch's allotment (F7) in this trace
	solvBad    string              // current deficit of the x/incentives module account (per denom), "" = solvent
	hookLog    []c16HookCall       // staking hooks observed during the current op (recording wrapper)
	recording  bool
	finishedAt map[uint64]int64 // endorsement gauge -> distribution epoch at whose start it was found finished
	stale      bool             // a finished gauge paid its stale EpochRewards in a later epoch in this trace
}

func c16Int(s string) math.Int {
	i, ok := math.NewIntFromString(s)
	if !ok {
		return math.ZeroInt()
	}
	return i
}

func c16Idx(s string) int {
	if len(s) < 2 {
		return -1
	}
	i, err := strconv.Atoi(s[1:])
	if err != nil {
		return -1
	}
	return i
}

func newC16(t *testing.T, r *Run) *c16 {
	f := NewFix(t)
	h := &c16{r: r, f: f}
	var err error
	h.bond, err = f.App.StakingKeeper.BondDenom(f.Ctx)
	if err != nil {
		t.Fatal(err)
	}
	h.qs = sponskeeper.NewQueryServer(f.App.SponsorshipKeeper)
	f.Rebind = append(f.Rebind, func() { h.qs = sponskeeper.NewQueryServer(h.f.App.SponsorshipKeeper) })
	dym := math.NewIntWithDecimal(1, 18)
	for i := 0; i < c16NActors; i++ {
		a := Actor(i)
		h.actors = append(h.actors, a)
		f.Fund(a, sdk.NewCoin(h.bond, dym.MulRaw(1000)))
	}
	h.creator = Actor(50)
	f.Fund(h.creator, sdk.NewCoin(h.bond, dym.MulRaw(100000)), sdk.NewCoin(c16Reward, dym.MulRaw(1000000)))
	// validators from deterministic keys
	for j := 0; j < c16NVals; j++ {
		op := Actor(100 + j)
		f.Fund(op, sdk.NewCoin(h.bond, dym.MulRaw(1000)))
		pk := ed25519.GenPrivKeyFromSecret([]byte(fmt.Sprintf("dymverif-c16-val-%d", j))).PubKey()
		val := sdk.ValAddress(op)
		msg, err := stakingtypes.NewMsgCreateValidator(val.String(), pk, sdk.NewCoin(h.bond, dym.MulRaw(int64(5+j))),
			stakingtypes.NewDescription(fmt.Sprintf("v%d", j), "", "", "", ""),
			stakingtypes.NewCommissionRates(math.LegacyNewDecWithPrec(1, 1), math.LegacyOneDec(), math.LegacyNewDecWithPrec(1, 2)), math.OneInt())
		if err != nil {
			t.Fatal(err)
		}
		if _, err := f.Deliver(msg); err != nil {
			t.Fatalf("create validator: %v", err)
		}
		h.vals = append(h.vals, c16Val{op: op, val: val, cons: sdk.ConsAddress(pk.Address())})
	}
	// rollapps (RollappCreated hook: rollapp gauge + endorsement).  A perpetual asset gauge is created
	// BEFORE each rollapp so that non-rollapp gauges have ids below and between the rollapp gauges:
	// distribution updates are sorted by gauge id, so a mixed vote then has a non-rollapp entry in front
	// of a rollapp entry (UpdateTotalSharesWithDistribution must walk past it).
	for i, id := range c16RollappIDs[:c16NBase] {
		bg, err := f.App.IncentivesKeeper.CreateAssetGauge(f.Ctx, true, h.creator, sdk.Coins{},
			lockuptypes.QueryCondition{LockQueryType: lockuptypes.ByDuration, Denom: h.bond, Duration: time.Hour}, f.Time, 1)
		if err != nil {
			t.Fatalf("base asset gauge: %v", err)
		}
		h.baseG = append(h.baseG, bg)
		if _, err := f.Deliver(h.createRollappMsg(i)); err != nil {
			t.Fatalf("create rollapp: %v", err)
		}
		e, err := f.App.SponsorshipKeeper.GetEndorsement(f.Ctx, id)
		if err != nil {
			t.Fatalf("endorsement of %s: %v", id, err)
		}
		h.baseRa = append(h.baseRa, e.RollappGaugeId)
	}
	// re-base the epoch infos at the current block time
	for _, e := range f.App.EpochsKeeper.AllEpochInfos(f.Ctx) {
		f.App.EpochsKeeper.DeleteEpochInfo(f.Ctx, e.Identifier)
		if err := f.App.EpochsKeeper.AddEpochInfo(f.Ctx, epochstypes.NewGenesisEpochInfo(e.Identifier, e.Duration)); err != nil {
			t.Fatal(err)
		}
	}
	// two blocks: validators get bonded, epoch counting starts
	if err := f.End(); err != nil {
		t.Fatalf("end: %v", err)
	}
	for i := 0; i < 2; i++ {
		if err := f.Begin(6 * time.Second); err != nil {
			t.Fatalf("begin: %v", err)
		}
		if err := f.End(); err != nil {
			t.Fatalf("end: %v", err)
		}
	}
	for j, v := range h.vals {
		val, err := f.App.StakingKeeper.GetValidator(f.Ctx, v.val)
		if err != nil || !val.IsBonded() {
			t.Fatalf("validator v%d not bonded", j)
		}
	}
	h.base, h.bh, h.bt = f.Ctx, f.Height, f.Time
	h.installHookRecorder()
	h.f0 = *f
	return h
}

// c16RecHooks wraps the application's staking hooks (all of them still run, unchanged) and records, while
// h.recording is set, every AfterDelegationModified / BeforeDelegationRemoved x/staking fires for one of
// the actors, together with the voting power the sponsorship hook computes at that moment
// (TokensFromShares of the stored delegation).  Used for validator slashes with an earlier infraction
// height: SlashRedelegation -> Unbond fires hooks for the redelegations' destination validators.
type c16RecHooks struct {
	stakingtypes.StakingHooks
	h *c16
}

func (w c16RecHooks) actorIdx(del sdk.AccAddress) int {
	for i, a := range w.h.actors {
		if a.Equals(del) {
			return i
		}
	}
	return -1
}

func (w c16RecHooks) AfterDelegationModified(ctx context.Context, del sdk.AccAddress, val sdk.ValAddress) error {
	if a := w.actorIdx(del); w.h.recording && a >= 0 {
		vp := "x"
		sk := w.h.f.App.StakingKeeper
		if v, err := sk.GetValidator(ctx, val); err == nil {
			if d, err := sk.GetDelegation(ctx, del, val); err == nil {
				vp = v.TokensFromShares(d.Shares).TruncateInt().String()
			}
		}
		w.h.hookLog = append(w.h.hookLog, c16HookCall{a: a, v: w.h.valIdx(val), vp: vp})
	}
	return w.StakingHooks.AfterDelegationModified(ctx, del, val)
}

func (w c16RecHooks) BeforeDelegationRemoved(ctx context.Context, del sdk.AccAddress, val sdk.ValAddress) error {
	if a := w.actorIdx(del); w.h.recording && a >= 0 {
		w.h.hookLog = append(w.h.hookLog, c16HookCall{a: a, v: w.h.valIdx(val), remove: true, vp: "x"})
	}
	return w.StakingHooks.BeforeDelegationRemoved(ctx, del, val)
}

// installHookRecorder replaces the (unexported, set-once) hooks field of the app's staking keeper by the
// recording wrapper around the hooks the application installed.
func (h *c16) installHookRecorder() {
	fv := reflect.ValueOf(h.f.App.StakingKeeper).Elem().FieldByName("hooks")
	if !fv.IsValid() {
		h.f.T.Fatal("staking keeper has no hooks field")
	}
	p := (*stakingtypes.StakingHooks)(unsafe.Pointer(fv.UnsafeAddr()))
	if *p == nil {
		h.f.T.Fatal("staking hooks not set")
	}
	*p = c16RecHooks{StakingHooks: *p, h: h}
}

// createRollappMsg: the real MsgCreateRollapp of rollapp index i (funds the alias registration first)
func (h *c16) createRollappMsg(i int) *rollapptypes.MsgCreateRollapp {
	alias := []string{"verifa", "verifb", "verifc"}[i]
	apptesting.FundForAliasRegistration(h.f.App, h.f.Ctx, alias, apptesting.Alice)
	return &rollapptypes.MsgCreateRollapp{
		Creator: apptesting.Alice, RollappId: c16RollappIDs[i], InitialSequencer: "*",
		MinSequencerBond: rollapptypes.DefaultMinSequencerBondGlobalCoin,
		Alias:            alias, VmType: rollapptypes.Rollapp_EVM,
		GenesisInfo: &rollapptypes.GenesisInfo{
			Bech32Prefix: []string{"vfa", "vfb", "vfc"}[i], GenesisChecksum: "1234567890abcdefg", InitialSupply: math.NewInt(1000),
			NativeDenom: rollapptypes.DenomMetadata{Display: "DEN", Base: "aden", Exponent: 18},
		},
		Metadata: &rollapptypes.RollappMetadata{Website: "https://dymension.xyz", Description: "d", LogoUrl: "https://dymension.xyz/logo.png", Telegram: "https://t.me/rolly", X: "https://x.dymension.xyz"},
	}
}

// ---- block handling on the trace's branch context ------------------------------------------------

func (h *c16) begin(dt time.Duration) (err error) {
	f := h.f
	f.Height++
	f.Time = f.Time.Add(dt)
	hd := f.Ctx.BlockHeader()
	hd.Height, hd.Time = f.Height, f.Time
	f.Ctx = f.Ctx.WithBlockHeader(hd).WithHeaderInfo(coreheader.Info{Height: f.Height, Time: f.Time, ChainID: apptesting.TestChainID})
	defer func() {
		if e := recover(); e != nil {
			err = &PanicError{Val: e}
		}
	}()
	_, err = f.App.BeginBlocker(f.Ctx)
	return err
}

// ---- reading the real state ---------------------------------------------------------------------

func (h *c16) svp(ctx sdk.Context, a, v int) (math.Int, bool) {
	d, err := h.f.App.StakingKeeper.GetDelegation(ctx, h.actors[a], h.vals[v].val)
	if err != nil {
		return math.ZeroInt(), false
	}
	val, err := h.f.App.StakingKeeper.GetValidator(ctx, h.vals[v].val)
	if err != nil {
		return math.ZeroInt(), false
	}
	return val.TokensFromShares(d.Shares).TruncateInt(), true
}

// table of staking voting powers ("x" = no delegation)
func (h *c16) table(ctx sdk.Context) [c16NActors][c16NVals]string {
	var t [c16NActors][c16NVals]string
	for a := 0; a < c16NActors; a++ {
		for v := 0; v < c16NVals; v++ {
			if p, ok := h.svp(ctx, a, v); ok {
				t[a][v] = p.String()
			} else {
				t[a][v] = "x"
			}
		}
	}
	return t
}

func (h *c16) stakeTotal(ctx sdk.Context, a int) math.Int {
	s := math.ZeroInt()
	for v := 0; v < c16NVals; v++ {
		if p, ok := h.svp(ctx, a, v); ok {
			s = s.Add(p)
		}
	}
	return s
}

func (h *c16) vote(a int) (sponstypes.Vote, bool) {
	resp, err := h.qs.Vote(h.f.Ctx, &sponstypes.QueryVoteRequest{Voter: h.actors[a].String()})
	if err != nil {
		return sponstypes.Vote{}, false
	}
	return resp.Vote, true
}

func (h *c16) dist() sponstypes.Distribution {
	resp, err := h.qs.Distribution(h.f.Ctx, &sponstypes.QueryDistributionRequest{})
	if err != nil {
		h.f.T.Fatalf("distribution query: %v", err)
	}
	return resp.Distribution
}

func (h *c16) blacklisted(a int) bool {
	st := h.f.Ctx.KVStore(h.f.App.GetKVStoreKeys()[sponstypes.StoreKey])
	return st.Has(append(append([]byte{}, sponstypes.ClaimBlacklistPrefix()...), h.actors[a]...))
}

func (h *c16) valIdx(v sdk.ValAddress) int {
	for j := range h.vals {
		if bytes.Equal(h.vals[j].val, v) {
			return j
		}
	}
	return 99
}

func (h *c16) gaugeStatus(id uint64) string {
	k := h.f.App.IncentivesKeeper
	for _, g := range k.GetUpcomingGauges(h.f.Ctx) {
		if g.Id == id {
			return "u"
		}
	}
	for _, g := range k.GetActiveGauges(h.f.Ctx) {
		if g.Id == id {
			return "a"
		}
	}
	for _, g := range k.GetFinishedGauges(h.f.Ctx) {
		if g.Id == id {
			return "f"
		}
	}
	return "?"
}

func c16GPs[T any](xs []T, f func(T) (uint64, math.Int)) string {
	var p []string
	for _, x := range xs {
		g, v := f(x)
		p = append(p, fmt.Sprintf("%d:%s", g, v))
	}
	return "[" + strings.Join(p, ",") + "]"
}

func c16Join(xs []string, sep string) string {
	if len(xs) == 0 {
		return "-"
	}
	return strings.Join(xs, sep)
}

func (h *c16) incBal() math.Int {
	return h.f.Bal(h.f.App.AccountKeeper.GetModuleAddress(incentivestypes.ModuleName), c16Reward)
}

// state renders the canonical observation of the sponsorship / endorsement state
func (h *c16) state() string {
	ctx := h.f.Ctx
	k := h.f.App.SponsorshipKeeper
	d := h.dist()
	var sb strings.Builder
	sb.WriteString("D=" + d.VotingPower.String() + c16GPs(d.Gauges, func(g sponstypes.Gauge) (uint64, math.Int) { return g.GaugeId, g.Power }))
	var vs, ps, es, bs, gs []string
	for a := range h.actors {
		if v, ok := h.vote(a); ok {
			vs = append(vs, fmt.Sprintf("a%d:%s%s", a, v.VotingPower, c16GPs(v.Weights, func(w sponstypes.GaugeWeight) (uint64, math.Int) { return w.GaugeId, w.Weight })))
		}
		type vp struct {
			v int
			p math.Int
		}
		var l []vp
		_ = k.IterateDelegatorValidatorPower(ctx, h.actors[a], func(val sdk.ValAddress, p math.Int) (bool, error) {
			l = append(l, vp{h.valIdx(val), p})
			return false, nil
		})
		sort.Slice(l, func(i, j int) bool { return l[i].v < l[j].v })
		for _, x := range l {
			ps = append(ps, fmt.Sprintf("a%d/v%d:%s", a, x.v, x.p))
		}
		if h.blacklisted(a) {
			bs = append(bs, fmt.Sprintf("a%d", a))
		}
	}
	for i := range h.raGauge {
		e, err := k.GetEndorsement(ctx, c16RollappIDs[i])
		if err != nil {
			h.f.T.Fatalf("endorsement: %v", err)
		}
		es = append(es, fmt.Sprintf("r%d:%d:%s/%s", i, e.RollappGaugeId, e.TotalShares, e.EpochShares))
	}
	ids := append([]uint64(nil), h.eG...)
	sort.Slice(ids, func(i, j int) bool { return ids[i] < ids[j] })
	for _, id := range ids {
		g, err := h.f.App.IncentivesKeeper.GetGaugeByID(ctx, id)
		if err != nil {
			h.f.T.Fatalf("gauge: %v", err)
		}
		er := "-"
		for _, c := range g.GetEndorsement().EpochRewards {
			if c.Denom == c16Reward {
				er = c.Amount.String()
			}
		}
		gs = append(gs, fmt.Sprintf("%d:%s/%s/%s/%d/%s", id, g.Coins.AmountOf(c16Reward), g.DistributedCoins.AmountOf(c16Reward), er, g.FilledEpochs, h.gaugeStatus(id)))
	}
	sb.WriteString(" V=" + c16Join(vs, ";"))
	sb.WriteString(" P=" + c16Join(ps, ","))
	sb.WriteString(" E=" + c16Join(es, ","))
	sb.WriteString(" B=" + c16Join(bs, ","))
	sb.WriteString(" G=" + c16Join(gs, ","))
	sb.WriteString(" M=" + h.incBal().String())
	return sb.String()
}

// ---- error classes -------------------------------------------------------------------------------

func c16Class(err error) string {
	if err == nil {
		return "ok"
	}
	if IsPanic(err) {
		return "panic"
	}
	m := err.Error()
	for _, p := range [][2]string{
		{"less than min allocation weight", "min-alloc"},
		{"failed to get gauge by id", "no-gauge"},
		{"gauge is not perpetual", "not-perpetual"},
		{"is less than min voting power", "low-power"},
		{"failed to get vote", "no-vote"},
		{"user is not allowed to claim", "cannot-claim"},
		{"estimate claim: get gauge", "no-gauge"},
		{"gauge is not endorsement", "not-endorsement"},
		{"get endorsement", "no-endorsement"},
		{"user does not endorse", "no-power"},
		{"distribute rewards", "pay-failed"},
		{sponstypes.ErrInvalidDistribution.Error(), "bad-weights"},
	} {
		if strings.Contains(m, p[0]) {
			return p[1]
		}
	}
	return "other"
}

// ---- executor ------------------------------------------------------------------------------------

func (h *c16) coin(amt string) sdk.Coin { return sdk.Coin{Denom: h.bond, Amount: c16Int(amt)} }

func (h *c16) runHandler(ctx sdk.Context, msg sdk.Msg) (err error) {
	if vb, ok := msg.(sdk.HasValidateBasic); ok {
		if err := vb.ValidateBasic(); err != nil {
			return err
		}
	}
	defer func() {
		if e := recover(); e != nil {
			err = &PanicError{Val: e}
		}
	}()
	g0 := ctx.GasMeter().GasConsumed()
	defer func() { noteGas(ctx.GasMeter().GasConsumed() - g0) }() // C12: gas of the message, failed or not
	_, err = h.f.App.MsgServiceRouter().Handler(msg)(ctx, msg)
	return err
}

type c16Hook struct {
	v      int
	unbond bool
}

// stakingOp runs one staking message of actor a.  It first probes the message on a throw-away
// branch in which a's vote is deleted (there the sponsorship hooks are no-ops), which yields what
// x/staking itself does: success/failure, the delegation shares after the message, and from them
// the voting power each hook sees.  Then the message is delivered for real.
func (h *c16) stakingOp(a int, msg sdk.Msg, hooks []c16Hook) (facts string, cls string) {
	f := h.f
	if a < 0 || a >= c16NActors {
		return "F", "stk-fail"
	}
	pre := h.table(f.Ctx)
	valPre := map[int]stakingtypes.Validator{}
	for _, hk := range hooks {
		if hk.v < 0 || hk.v >= c16NVals {
			return "F", "stk-fail"
		}
		v, _ := f.App.StakingKeeper.GetValidator(f.Ctx, h.vals[hk.v].val)
		valPre[hk.v] = v
	}
	pctx, _ := f.Ctx.CacheContext()
	_ = f.App.SponsorshipKeeper.DeleteVote(pctx, h.actors[a])
	if perr := h.runHandler(pctx, msg); perr != nil {
		_, err := f.Deliver(msg)
		if err == nil {
			h.r.Violate("C16/harness/probe-disagrees", "staking message failed on the probe branch but succeeded for real: "+perr.Error(), h.lines...)
			return "F", "ok"
		}
		return "F", "stk-fail"
	}
	var fs []string
	for _, hk := range hooks {
		d, err := f.App.StakingKeeper.GetDelegation(pctx, h.actors[a], h.vals[hk.v].val)
		switch {
		case err != nil:
			fs = append(fs, fmt.Sprintf("H v%d x", hk.v))
		case hk.unbond:
			// Unbond: hook runs after SetDelegation and BEFORE RemoveValidatorTokensAndShares
			fs = append(fs, fmt.Sprintf("H v%d %s", hk.v, valPre[hk.v].TokensFromShares(d.Shares).TruncateInt()))
		default:
			p, _ := h.svp(pctx, a, hk.v)
			fs = append(fs, fmt.Sprintf("H v%d %s", hk.v, p))
		}
	}
	post := h.table(pctx)
	for x := 0; x < c16NActors; x++ {
		for v := 0; v < c16NVals; v++ {
			if pre[x][v] != post[x][v] {
				fs = append(fs, fmt.Sprintf("S a%d v%d %s", x, v, post[x][v]))
			}
		}
	}
	_, err := f.Deliver(msg)
	switch {
	case err == nil:
		cls = "ok"
		if got := h.table(f.Ctx); got != post {
			h.r.Violate("C16/harness/probe-disagrees", "staking table after the real message differs from the probe", h.lines...)
		}
	case strings.Contains(err.Error(), "sponsorship:"):
		cls = "hook-err"
	default:
		cls = "other"
	}
	return strings.Join(fs, " "), cls
}

// exec executes one op line (facts stripped) on the real code; returns the full line for ops.txt
// (facts appended) and the observation.
func (h *c16) exec(line string) (string, string) {
	f := h.f
	if i := strings.Index(line, " ::"); i >= 0 {
		line = line[:i]
	}
	t := strings.Fields(line)
	if len(t) == 0 {
		return line, "bad-op"
	}
	arg := func(i int) string {
		if i < len(t) {
			return t[i]
		}
		return ""
	}
	actor := func(i int) (int, sdk.AccAddress) {
		a := c16Idx(arg(i))
		if a < 0 || a >= c16NActors {
			return -1, Actor(77) // unknown actor: an unfunded account
		}
		return a, h.actors[a]
	}
	valOf := func(i int) (int, string) {
		v := c16Idx(arg(i))
		if v < 0 || v >= c16NVals {
			return -1, sdk.ValAddress(Actor(78)).String()
		}
		return v, h.vals[v].val.String()
	}
	kind := t[0]
	switch kind {
	case "reset":
		h.f.Restore(h.f0)
		h.f.Ctx, _ = h.base.CacheContext()
		h.f.Height, h.f.Time = h.bh, h.bt
		h.minAl, h.minVP = c16Int(arg(1)), c16Int(arg(2))
		if err := f.App.SponsorshipKeeper.SetParams(f.Ctx, sponstypes.Params{MinAllocationWeight: h.minAl, MinVotingPower: h.minVP}); err != nil {
			f.T.Fatal(err)
		}
		h.resetTrace()
		h.lines = []string{line}
		return line, "ok"
	case "hdr":
		h.lines = append(h.lines, line)
		switch arg(1) {
		case "gauge":
			perp := arg(4) == "1"
			id, err := f.App.IncentivesKeeper.CreateAssetGauge(f.Ctx, perp, h.creator, sdk.Coins{},
				lockuptypes.QueryCondition{LockQueryType: lockuptypes.ByDuration, Denom: h.bond, Duration: time.Hour}, f.Time, 1)
			if err != nil || fmt.Sprint(id) != arg(2) {
				f.T.Fatalf("hdr gauge: id %d err %v (line %q)", id, err, line)
			}
			if perp {
				h.assetG = append(h.assetG, id)
			} else {
				h.nonPerp = id
			}
		case "bgauge":
			ok := false
			for _, g := range h.baseG {
				if fmt.Sprint(g) == arg(2) {
					ok = true
				}
			}
			if !ok {
				f.T.Fatalf("hdr bgauge: %q", line)
			}
		case "rollapp":
			// a rollapp of the base state (created there by the real MsgCreateRollapp -> hook), declared in index order
			r := c16Idx(arg(2))
			if r < 0 || r >= len(h.baseRa) || r != len(h.raGauge) || fmt.Sprint(h.baseRa[r]) != arg(3) {
				f.T.Fatalf("hdr rollapp: %q", line)
			}
			h.raGauge = append(h.raGauge, h.baseRa[r])
		case "egauge":
			r := c16Idx(arg(3))
			if r < 0 || r >= len(h.raGauge) {
				f.T.Fatalf("hdr egauge: undeclared rollapp (line %q)", line)
			}
			n, _ := strconv.ParseUint(arg(6), 10, 64)
			coins := sdk.NewCoins(sdk.NewCoin(c16Reward, c16Int(arg(5))))
			id, err := f.App.IncentivesKeeper.CreateEndorsementGauge(f.Ctx, arg(4) == "1", h.creator, coins,
				incentivestypes.EndorsementGauge{RollappId: c16RollappIDs[r]}, f.Time, n)
			if err != nil || fmt.Sprint(id) != arg(2) {
				f.T.Fatalf("hdr egauge: id %d err %v (line %q)", id, err, line)
			}
			h.eG = append(h.eG, id)
			h.eGr[id] = r
		default:
			return line, "bad-op"
		}
		h.monitorSolvency("create-gauge")
		return line, "ok " + h.state()
	}
	h.lines = append(h.lines, line)
	h.curDel = -1
	hadVote := false
	if oc := c16OpClass(kind); oc == "staking-hook" {
		h.curDel = c16Idx(arg(1))
		if h.curDel >= 0 && h.curDel < c16NActors {
			_, hadVote = h.vote(h.curDel)
		}
	}
	full, cls, extra := line, "", ""
	switch kind {
	case "vote":
		a, addr := actor(1)
		var ws []sponstypes.GaugeWeight
		if arg(2) != "-" {
			for _, p := range strings.Split(arg(2), ",") {
				gw := strings.SplitN(p, ":", 2)
				if len(gw) != 2 {
					return line, "bad-op"
				}
				g, _ := strconv.ParseUint(gw[0], 10, 64)
				ws = append(ws, sponstypes.GaugeWeight{GaugeId: g, Weight: c16Int(gw[1])})
			}
		}
		_, err := f.Deliver(&sponstypes.MsgVote{Voter: addr.String(), Weights: ws})
		cls = c16Class(err)
		if err == nil && a >= 0 {
			h.votedIn[a] = true
		}
	case "revoke":
		_, addr := actor(1)
		_, err := f.Deliver(&sponstypes.MsgRevokeVote{Voter: addr.String()})
		cls = c16Class(err)
	case "claim":
		a, addr := actor(1)
		gid, _ := strconv.ParseUint(arg(2), 10, 64)
		b0, m0 := f.Bal(addr, c16Reward), h.incBal()
		_, err := f.Deliver(&sponstypes.MsgClaimRewards{Sender: addr.String(), GaugeId: gid})
		cls = c16Class(err)
		if err == nil {
			paid := f.Bal(addr, c16Reward).Sub(b0)
			extra = " paid=" + paid.String()
			if !m0.Sub(h.incBal()).Equal(paid) {
				h.r.Violate("C16/claim/module-debit-differs-from-credit", fmt.Sprintf("claimer +%s, module -%s", paid, m0.Sub(h.incBal())), h.lines...)
			}
			h.monitorClaim(a, gid, paid)
		}
	case "delegate":
		a, addr := actor(1)
		v, vs := valOf(2)
		var facts string
		facts, cls = h.stakingOp(a, &stakingtypes.MsgDelegate{DelegatorAddress: addr.String(), ValidatorAddress: vs, Amount: h.coin(arg(3))}, []c16Hook{{v, false}})
		full += " :: " + facts
	case "undelegate":
		a, addr := actor(1)
		v, vs := valOf(2)
		var facts string
		facts, cls = h.stakingOp(a, &stakingtypes.MsgUndelegate{DelegatorAddress: addr.String(), ValidatorAddress: vs, Amount: h.coin(arg(3))}, []c16Hook{{v, true}})
		if cls == "ok" {
			k := [2]int{a, v}
			h.unb[k] = append(h.unb[k], c16Unb{f.Height, c16Int(arg(3))})
		}
		full += " :: " + facts
	case "redelegate":
		a, addr := actor(1)
		v1, s1 := valOf(2)
		v2, s2 := valOf(3)
		var facts string
		facts, cls = h.stakingOp(a, &stakingtypes.MsgBeginRedelegate{DelegatorAddress: addr.String(), ValidatorSrcAddress: s1, ValidatorDstAddress: s2, Amount: h.coin(arg(4))}, []c16Hook{{v1, true}, {v2, false}})
		full += " :: " + facts
	case "cancel":
		a, addr := actor(1)
		v, vs := valOf(2)
		ch, _ := strconv.ParseInt(arg(4), 10, 64)
		var facts string
		facts, cls = h.stakingOp(a, &stakingtypes.MsgCancelUnbondingDelegation{DelegatorAddress: addr.String(), ValidatorAddress: vs, Amount: h.coin(arg(3)), CreationHeight: ch}, []c16Hook{{v, false}})
		full += " :: " + facts
	case "slash":
		v, _ := valOf(1)
		if v < 0 {
			return line, "bad-op"
		}
		factor, err := math.LegacyNewDecFromStr(arg(2))
		if err != nil {
			return line, "bad-op"
		}
		// optional third argument: the infraction lies that many blocks back — x/staking then also slashes
		// the unbonding delegations and redelegations that started at or after that height, and
		// SlashRedelegation -> Unbond fires AfterDelegationModified / BeforeDelegationRemoved for the
		// redelegation's delegator on the DESTINATION validator
		back, _ := strconv.ParseInt(arg(3), 10, 64)
		if back < 0 {
			return line, "bad-op"
		}
		pre := h.table(f.Ctx)
		wasSlashed := h.slashed
		h.hookLog, h.recording = nil, true
		err = f.Try(func(ctx sdk.Context) error {
			val, err := f.App.StakingKeeper.GetValidator(ctx, h.vals[v].val)
			if err != nil {
				return err
			}
			inf := ctx.BlockHeight() - back
			if inf < 0 {
				inf = 0
			}
			_, err = f.App.StakingKeeper.Slash(ctx, h.vals[v].cons, inf, val.ConsensusPower(f.App.StakingKeeper.PowerReduction(ctx)), factor)
			return err
		})
		h.recording = false
		if err != nil {
			// e.g. the validator is no longer bonded (x/staking panics): nothing happened
			cls = "stk-fail"
			full += " :: F"
			break
		}
		post := h.table(f.Ctx)
		var fs []string
		for _, hc := range h.hookLog {
			fs = append(fs, fmt.Sprintf("HA a%d v%d %s", hc.a, hc.v, hc.vp))
		}
		for x := 0; x < c16NActors; x++ {
			for w := 0; w < c16NVals; w++ {
				if pre[x][w] != post[x][w] {
					fs = append(fs, fmt.Sprintf("S a%d v%d %s", x, w, post[x][w]))
				}
			}
		}
		if back > 0 {
			h.r.Hit("slash-earlier-infraction-height")
		}
		if len(h.hookLog) > 0 {
			h.r.Hit("slash-redelegation-fires-hook")
			// monitor: for every (voter, validator) whose hook fired during the slash, the per-validator
			// record is the delegation's bonded power after the slash
			for _, hc := range h.hookLog {
				if _, ok := h.vote(hc.a); !ok {
					continue
				}
				h.r.Hit("slash-redelegation-hook-of-voter")
				rec, err := f.App.SponsorshipKeeper.GetDelegatorValidatorPower(f.Ctx, h.actors[hc.a], h.vals[hc.v].val)
				if err != nil {
					rec = math.ZeroInt()
				}
				if sp, _ := h.svp(f.Ctx, hc.a, hc.v); !sp.Equal(rec) {
					q := "slash-redelegation"
					if wasSlashed {
						q += "-after-slash"
					}
					h.r.Violate("C16/power_tracks_staking/hooked-record-ne-bonded/"+q,
						fmt.Sprintf("after `%s`: hook fired for a%d/v%d during the slash; per-validator record %s, bonded %s", line, hc.a, hc.v, rec, sp), h.lines...)
				}
			}
		}
		h.slashed = true
		cls = "ok"
		full += " :: " + strings.Join(fs, " ")
	case "addrollapp":
		// a rollapp created mid-trace: real MsgCreateRollapp -> x/streamer RollappCreated hook ->
		// CreateRollappGauge + SaveEndorsement
		i := c16Idx(arg(1))
		if i < 0 || i >= len(c16RollappIDs) {
			return line, "bad-op"
		}
		_, err := f.Deliver(h.createRollappMsg(i))
		switch {
		case err == nil:
			cls = "ok"
			e, gerr := f.App.SponsorshipKeeper.GetEndorsement(f.Ctx, c16RollappIDs[i])
			if gerr != nil || i != len(h.raGauge) {
				f.T.Fatalf("addrollapp r%d: endorsement %v, declared %d", i, gerr, len(h.raGauge))
			}
			if !e.TotalShares.IsZero() || !e.EpochShares.IsZero() {
				h.r.Violate("C16/endorsement_shares/new-endorsement-not-empty", fmt.Sprintf("r%d created with shares %s/%s", i, e.TotalShares, e.EpochShares), h.lines...)
			}
			h.raGauge = append(h.raGauge, e.RollappGaugeId)
			h.r.Hit("rollapp-created-mid-trace")
		case errors.Is(err, rollapptypes.ErrRollappExists):
			cls = "rollapp-exists"
			h.r.Hit("rollapp-create-existing")
		default:
			cls = c16Class(err)
		}
	case "setparams":
		// x/sponsorship MsgUpdateParams signed by the module's authority (gov)
		np := sponstypes.Params{MinAllocationWeight: c16Int(arg(1)), MinVotingPower: c16Int(arg(2))}
		_, err := f.Deliver(&sponstypes.MsgUpdateParams{Authority: authtypes.NewModuleAddress(govtypes.ModuleName).String(), NewParams: np})
		switch {
		case err == nil:
			cls = "ok"
			if np.MinVotingPower.GT(h.minVP) {
				h.r.Hit("params-min-voting-power-raised")
			} else if np.MinVotingPower.LT(h.minVP) {
				h.r.Hit("params-min-voting-power-lowered")
			}
			h.minAl, h.minVP = np.MinAllocationWeight, np.MinVotingPower
		case errors.Is(err, sponstypes.ErrInvalidParams):
			cls = "bad-params"
			h.r.Hit("params-invalid")
		default:
			cls = c16Class(err)
		}
	case "begin":
		secs, _ := strconv.ParseInt(arg(1), 10, 64)
		before := map[string]int64{}
		for _, e := range f.App.EpochsKeeper.AllEpochInfos(f.Ctx) {
			before[e.Identifier] = e.CurrentEpoch
		}
		if err := h.begin(time.Duration(secs) * time.Second); err != nil {
			h.r.Violate("C16/block/begin-blocker-failed", err.Error(), h.lines...)
		}
		var ended []string
		for _, e := range f.App.EpochsKeeper.AllEpochInfos(f.Ctx) { // store order = identifier order = firing order
			if e.CurrentEpoch > before[e.Identifier] {
				ended = append(ended, e.Identifier)
			}
		}
		cls = "ok"
		full += " :: " + strings.Join(ended, " ")
		h.monitorEpoch(ended)
	case "end":
		if err := f.End(); err != nil {
			h.r.Violate("C16/block/end-blocker-failed", err.Error(), h.lines...)
		}
		cls = "ok"
	case "fund":
		gid, _ := strconv.ParseUint(arg(1), 10, 64)
		amt := c16Int(arg(2))
		err := f.Try(func(ctx sdk.Context) error {
			g, err := f.App.IncentivesKeeper.GetGaugeByID(ctx, gid)
			if err != nil {
				return fmt.Errorf("estimate claim: get gauge: %w", err) // class no-gauge
			}
			return f.App.IncentivesKeeper.AddToGaugeRewards(ctx, h.creator, sdk.NewCoins(sdk.NewCoin(c16Reward, amt)), g)
		})
		cls = c16Class(err)
		if err != nil && cls == "other" {
			if _, ok := err.(incentivestypes.UnexpectedFinishedGaugeError); ok {
				cls = "finished-gauge"
			}
		}
	default:
		return line, "bad-op"
	}
	if cls == "ok" {
		h.changed = true
		if hadVote {
			if _, still := h.vote(h.curDel); !still {
				h.r.Hit("vote-pruned-by-staking-hook")
			} else {
				h.r.Hit("vote-updated-by-staking-hook")
			}
		}
	}
	if cls == "hook-err" {
		h.r.Hit("staking-message-rejected-by-sponsorship-hook")
	}
	if cls == "panic" {
		h.r.Hit("claim-panics-division-by-zero-epoch-shares")
	}
	if kind == "claim" && strings.HasPrefix(extra, " paid=") && extra != " paid=0" {
		h.r.Hit("claim-paid")
	}
	h.kinds = append(h.kinds, kind+"/"+cls)
	h.monitorState(kind, cls)
	h.monitorSolvency(c16OpClass(kind))
	return full, cls + extra + " " + h.state()
}

func (h *c16) resetTrace() {
	h.kinds, h.changed, h.slashed, h.recBad, h.curDel, h.negs = nil, false, false, false, -1, ""
	h.assetG, h.nonPerp, h.eG, h.eGr, h.raGauge = nil, 0, nil, map[uint64]int{}, nil
	h.minAt, h.lastVote, h.overpaid, h.solvBad, h.hookLog = map[int]math.Int{}, map[int]string{}, false, "", nil
	h.finishedAt, h.stale = map[uint64]int64{}, false
	h.unb = map[[2]int][]c16Unb{}
	h.gDisc, h.vpDisc, h.pDisc, h.lowKept, h.invBrk = map[uint64]string{}, "0", map[int]string{}, map[int]bool{}, map[string]bool{}
	h.sDisc = map[int]string{}
	h.weekNo = h.f.App.EpochsKeeper.GetEpochInfo(h.f.Ctx, h.f.App.IncentivesKeeper.GetParams(h.f.Ctx).DistrEpochIdentifier).CurrentEpoch
	h.claimed, h.allot, h.claimBy, h.votedIn, h.rep = map[uint64]math.Int{}, map[uint64]math.Int{}, map[int]int{}, map[int]bool{}, map[uint64]bool{}
}

// ---- monitors (model independent) ------------------------------------------------------------------

func c16OpClass(kind string) string {
	switch kind {
	case "delegate", "undelegate", "redelegate", "cancel":
		return "staking-hook"
	case "begin":
		return "epoch"
	}
	return kind
}

// monitorState evaluates the state clauses of the property after every op.  A discrepancy is
// attributed to the op after which it appears or changes.
func (h *c16) monitorState(kind, cls string) {
	f := h.f
	oc := c16OpClass(kind)
	d := h.dist()
	// clause: distribution = Σ over votes of power split by weights
	sumVP := math.ZeroInt()
	sum := map[uint64]math.Int{}
	ids := map[uint64]bool{}
	votes := map[int]sponstypes.Vote{}
	for a := range h.actors {
		v, ok := h.vote(a)
		if !ok {
			continue
		}
		votes[a] = v
		sumVP = sumVP.Add(v.VotingPower)
		for _, w := range v.Weights {
			ids[w.GaugeId] = true
			if _, ok := sum[w.GaugeId]; !ok {
				sum[w.GaugeId] = math.ZeroInt()
			}
			sum[w.GaugeId] = sum[w.GaugeId].Add(v.GetGaugePower(w.GaugeId))
		}
	}
	got := map[uint64]math.Int{}
	negs := ""
	for _, g := range d.Gauges {
		ids[g.GaugeId] = true
		if _, ok := got[g.GaugeId]; !ok {
			got[g.GaugeId] = math.ZeroInt()
		}
		got[g.GaugeId] = got[g.GaugeId].Add(g.Power)
		if g.Power.IsNegative() {
			negs += fmt.Sprintf(" %d:%s", g.GaugeId, g.Power)
		}
	}
	preDisc := len(h.gDisc) > 0 || h.vpDisc != "0"
	newDisc := false
	nd := map[uint64]string{}
	for id := range ids {
		a, b := got[id], sum[id]
		if a.IsNil() {
			a = math.ZeroInt()
		}
		if b.IsNil() {
			b = math.ZeroInt()
		}
		if x := a.Sub(b); !x.IsZero() {
			nd[id] = x.String()
		}
	}
	for id, x := range nd {
		if h.gDisc[id] != x {
			q := oc
			if h.gDisc[id] != "" && oc != "staking-hook" {
				// this gauge was already off; Merge's dropping of non-positive sums reshapes the
				// difference when a later vote/revoke touches the gauge
				q = "residue-of-earlier-discrepancy"
			} else {
				newDisc = true
			}
			h.r.Violate("C16/distribution_eq_sum_of_votes/gauge-power/"+q,
				fmt.Sprintf("after `%s`: distribution power of gauge %d minus the sum over votes = %s", kind, id, x), h.lines...)
		}
	}
	if negs != "" && negs != h.negs {
		q := oc
		if preDisc && !newDisc {
			q = "residue-of-earlier-discrepancy"
		}
		h.r.Violate("C16/distribution_eq_sum_of_votes/negative-gauge-power/"+q, fmt.Sprintf("after `%s`: negative gauge power stored in the distribution:%s", kind, negs), h.lines...)
	}
	h.negs = negs
	h.gDisc = nd
	if x := d.VotingPower.Sub(sumVP).String(); x != h.vpDisc {
		if x != "0" {
			newDisc = true
			h.r.Violate("C16/distribution_eq_sum_of_votes/total-voting-power/"+oc,
				fmt.Sprintf("after `%s`: distribution voting power minus the sum over votes = %s", kind, x), h.lines...)
		}
		h.vpDisc = x
	}
	// endorsement shares: TotalShares of a rollapp's endorsement = Σ over the votes of their power on the
	// rollapp gauge (what the claim divides by, once snapshotted into EpochShares)
	ns := map[int]string{}
	for i := range h.raGauge {
		e, err := f.App.SponsorshipKeeper.GetEndorsement(f.Ctx, c16RollappIDs[i])
		if err != nil {
			continue
		}
		want := math.ZeroInt()
		for _, v := range votes {
			want = want.Add(v.GetGaugePower(e.RollappGaugeId))
		}
		if x := e.TotalShares.Sub(want); !x.IsZero() {
			ns[i] = x.String()
			if h.sDisc[i] != ns[i] {
				h.r.Violate("C16/endorsement_shares/total-shares-ne-sum-of-votes/"+oc,
					fmt.Sprintf("after `%s`: endorsement of r%d has total shares %s, the votes' power on its rollapp gauge %d sums to %s", kind, i, e.TotalShares, e.RollappGaugeId, want), h.lines...)
			}
		}
		if h.distrEnded && !e.EpochShares.Equal(e.TotalShares) {
			h.r.Violate("C16/endorsement_shares/epoch-snapshot-ne-total-shares",
				fmt.Sprintf("after the distribution epoch ended: r%d epoch shares %s, total shares %s", i, e.EpochShares, e.TotalShares), h.lines...)
		}
	}
	h.sDisc = ns
	h.distrEnded = false
	// clause: each voter's recorded power = current bonded delegations; below the minimum -> vote gone
	np, nl := map[int]string{}, map[int]bool{}
	for a, v := range votes {
		st := h.stakeTotal(f.Ctx, a)
		rec := math.ZeroInt()
		bad := ""
		for j := 0; j < c16NVals; j++ {
			p, err := f.App.SponsorshipKeeper.GetDelegatorValidatorPower(f.Ctx, h.actors[a], h.vals[j].val)
			if err != nil {
				p = math.ZeroInt()
			}
			rec = rec.Add(p)
			if sp, _ := h.svp(f.Ctx, a, j); !sp.Equal(p) {
				bad += fmt.Sprintf(" v%d:%s(staking %s)", j, p, sp)
			}
		}
		if x := v.VotingPower.Sub(st); !x.IsZero() || bad != "" || !rec.Equal(v.VotingPower) {
			np[a] = x.String() + bad + "/" + rec.String()
			if h.pDisc[a] != np[a] {
				q := oc
				if oc == "staking-hook" {
					if a == h.curDel {
						q = "staking-hook-own-delegation"
					} else {
						q = "staking-hook-other-delegator"
					}
					if h.slashed {
						q += "-after-slash"
					}
				}
				h.r.Violate("C16/power_tracks_staking/voter-power/"+q,
					fmt.Sprintf("after `%s`: a%d vote power %s, bonded delegations %s, per-validator records sum %s%s", kind, a, v.VotingPower, st, rec, bad), h.lines...)
			}
		}
		// the minimum the property speaks of is the one in force when the vote last changed: MsgUpdateParams
		// stores the new parameters without revisiting the votes, so a vote cast under a lower minimum stays
		// (the voter's power did not fall) — counted, not reported
		vr := v.String()
		if h.lastVote[a] != vr {
			h.minAt[a] = h.minVP
		}
		minA, ok := h.minAt[a]
		if !ok {
			minA = h.minVP
		}
		if !st.LT(minA) && st.LT(h.minVP) {
			h.r.Hit("vote-below-raised-minimum-kept")
		}
		if v.VotingPower.LT(minA) {
			h.r.Violate("C16/min_power_recorded/recorded-power-below-minimum-at-last-change/"+oc,
				fmt.Sprintf("after `%s`: a%d recorded power %s < %s, the minimum in force when the vote last changed", kind, a, v.VotingPower, minA), h.lines...)
		}
		if st.LT(minA) {
			nl[a] = true
			if !h.lowKept[a] {
				q := oc
				if oc != "slash" && h.slashed {
					q += "-after-slash"
				}
				h.r.Violate("C16/below_min_prunes_vote/vote-kept/"+q,
					fmt.Sprintf("after `%s`: a%d has bonded power %s < minimum %s and still has a vote (recorded power %s)", kind, a, st, minA, v.VotingPower), h.lines...)
			}
		}
	}
	h.pDisc, h.lowKept = np, nl
	for a := range h.actors {
		if v, ok := votes[a]; ok {
			h.lastVote[a] = v.String()
		} else {
			delete(h.lastVote, a)
			delete(h.minAt, a)
		}
	}
	// total of the per-validator records = total of the distribution (part of sponsorship/general)
	recTotal := math.ZeroInt()
	for a := range h.actors {
		_ = f.App.SponsorshipKeeper.IterateDelegatorValidatorPower(f.Ctx, h.actors[a], func(_ sdk.ValAddress, p math.Int) (bool, error) {
			recTotal = recTotal.Add(p)
			return false, nil
		})
	}
	recOK := recTotal.Equal(d.VotingPower)
	if !recOK && !h.recBad {
		h.r.Violate("C16/distribution_eq_sum_of_votes/total-vs-validator-records/"+oc,
			fmt.Sprintf("after `%s`: Σ per-validator records %s, distribution voting power %s", kind, recTotal, d.VotingPower), h.lines...)
	}
	h.recBad = !recOK
	// zero-power entries (stored distribution or a vote's ToDistribution): they do not change the
	// distribution as a function gauge -> power, but the module's `distribution` invariant demands
	// > 0 and `general` compares entry lists; breaks explained by them alone are counted, not reported
	zeroEntry := false
	for _, g := range d.Gauges {
		if g.Power.IsZero() {
			zeroEntry = true
		}
	}
	for _, v := range votes {
		for _, g := range v.ToDistribution().Gauges {
			if g.Power.IsZero() {
				zeroEntry = true
			}
		}
	}
	semanticOK := len(nd) == 0 && h.vpDisc == "0" && recOK
	// the module's registered invariants (x/sponsorship/keeper/invariants.go) as extra oracles
	for _, inv := range []struct {
		name string
		fn   func(sdk.Context) error
	}{
		{"delegator-validator-power", sponskeeper.InvariantDelegatorValidatorPower(f.App.SponsorshipKeeper)},
		{"distribution", sponskeeper.InvariantDistribution(f.App.SponsorshipKeeper)},
		{"votes", sponskeeper.InvariantVotes(f.App.SponsorshipKeeper)},
		{"general", sponskeeper.InvariantGeneral(f.App.SponsorshipKeeper)},
	} {
		err := inv.fn(f.Ctx)
		broken := err != nil
		if broken && zeroEntry && ((inv.name == "general" && semanticOK) ||
			(inv.name == "distribution" && strings.Contains(err.Error(), "gauge power must be > 0, got 0"))) {
			h.r.Hit("invariant-" + inv.name + "-broken-by-zero-power-entry-only")
			broken = false
		}
		if broken && !h.invBrk[inv.name] {
			q := oc
			if preDisc && !newDisc {
				// the distribution was already off before this op (monitor fired then); this op only
				// makes the module's own invariant notice the residue
				q = "residue-of-earlier-discrepancy"
			}
			h.r.Violate("C16/invariant/"+inv.name+"/"+q, fmt.Sprintf("after `%s`: registered invariant sponsorship/%s broken: %s", kind, inv.name, strings.ReplaceAll(err.Error(), "\n", "; ")), h.lines...)
		}
		h.invBrk[inv.name] = broken
	}
	if oc == "staking-hook" && cls == "ok" {
		h.r.Hit("staking-hook-accepted")
	}
}

type c16HookCall struct {
	a, v   int
	remove bool
	vp     string // the voting power AfterDelegationModified computes ("x" for BeforeDelegationRemoved)
}

// monitorSolvency (C15/C16 boundary, model independent): the x/incentives module account holds, per denom,
// at least the undistributed remainder (Coins − DistributedCoins, floored at 0 gauge by gauge) of ALL its
// unfinished gauges.  DistributeEndorsementRewards has no `rewards ≤ Coins − DistributedCoins` guard, so an
// over-claim (finding F7) is paid out of the pooled account, i.e. out of the coins that back other gauges.
func (h *c16) monitorSolvency(oc string) {
	f := h.f
	need := sdk.NewCoins()
	for _, g := range f.App.IncentivesKeeper.GetNotFinishedGauges(f.Ctx) {
		for _, c := range g.Coins {
			if rem := c.Amount.Sub(g.DistributedCoins.AmountOf(c.Denom)); rem.IsPositive() {
				need = need.Add(sdk.NewCoin(c.Denom, rem))
			}
		}
	}
	have := f.App.BankKeeper.GetAllBalances(f.Ctx, f.App.AccountKeeper.GetModuleAddress(incentivestypes.ModuleName))
	var def []string
	for _, c := range need {
		if d := c.Amount.Sub(have.AmountOf(c.Denom)); d.IsPositive() {
			def = append(def, d.String()+c.Denom)
		}
	}
	bad := strings.Join(def, ",")
	if bad != "" && bad != h.solvBad {
		detail := fmt.Sprintf("after `%s`: x/incentives module account holds %s, its unfinished gauges still owe %s (deficit %s)", oc, have, need, bad)
		if h.overpaid {
			// consequence of the over-claim: same root cause as C16/claims_le_allotment/gauge-overpaid/single-claims
			h.r.Violate("C16/claims_le_allotment/module-balance-below-unfinished-gauges/after-overpaid-claim", detail, h.lines...)
		} else if h.stale {
			// consequence of C16/claims_le_allotment/gauge-overpaid/finished-gauge-stale-epoch-rewards
			h.r.Violate("C16/claims_le_allotment/module-balance-below-unfinished-gauges/after-finished-gauge-claim", detail, h.lines...)
		} else {
			h.r.Violate("C16/module_solvency/incentives-balance-below-unfinished-gauges/"+oc, detail, h.lines...)
		}
	}
	h.solvBad = bad
}

func (h *c16) distrEpoch() int64 {
	return h.f.App.EpochsKeeper.GetEpochInfo(h.f.Ctx, h.f.App.IncentivesKeeper.GetParams(h.f.Ctx).DistrEpochIdentifier).CurrentEpoch
}

// monitorEpoch: a new distribution epoch starts a new allotment period
func (h *c16) monitorEpoch(ended []string) {
	if n := h.distrEpoch(); n != h.weekNo {
		h.weekNo = n
		h.distrEnded = true
		h.claimed, h.allot, h.claimBy, h.votedIn, h.rep = map[uint64]math.Int{}, map[uint64]math.Int{}, map[int]int{}, map[int]bool{}, map[uint64]bool{}
		h.r.Hit("epoch-distribution-identifier")
		for _, g := range h.eG {
			if _, ok := h.finishedAt[g]; !ok && h.gaugeStatus(g) == "f" {
				h.finishedAt[g] = n // its last EpochRewards were computed at the end that finished it
			}
		}
	} else if len(ended) > 0 {
		h.r.Hit("epoch-other-identifier-only")
	}
}

// monitorClaim: clauses on endorsement claims, per distribution epoch of x/incentives
func (h *c16) monitorClaim(a int, gid uint64, paid math.Int) {
	if a < 0 {
		return
	}
	g, err := h.f.App.IncentivesKeeper.GetGaugeByID(h.f.Ctx, gid)
	if err != nil || g.GetEndorsement() == nil {
		return
	}
	staleNow := false
	if _, ok := h.allot[gid]; !ok {
		// EpochRewards only changes at the end of a distribution epoch: this is the epoch's allotment
		h.allot[gid] = g.GetEndorsement().EpochRewards.AmountOf(c16Reward)
		h.claimed[gid] = math.ZeroInt()
	}
	if fa, ok := h.finishedAt[gid]; ok && fa < h.weekNo {
		// the gauge was finished before the epoch end that opened this epoch: x/incentives did not update it
		// there (only active gauges are), it was given NO allotment for this epoch — its EpochRewards field
		// still shows the last epoch's value
		h.allot[gid] = math.ZeroInt()
		staleNow = true
	}
	h.claimBy[a]++
	if h.claimBy[a] > 1 {
		h.rep[gid] = true
		h.r.Violate("C16/claim_once_per_epoch/second-claim-accepted",
			fmt.Sprintf("a%d claimed %d times within distribution epoch %d (this time %s from gauge %d)", a, h.claimBy[a], h.weekNo, paid, gid), h.lines...)
	}
	if h.votedIn[a] {
		h.r.Violate("C16/no_claim_in_vote_epoch/claim-accepted-in-vote-epoch",
			fmt.Sprintf("a%d voted and claimed (%s from gauge %d) within distribution epoch %d", a, paid, gid, h.weekNo), h.lines...)
	}
	h.claimed[gid] = h.claimed[gid].Add(paid)
	if h.claimed[gid].GT(h.allot[gid]) {
		q := "single-claims"
		if h.rep[gid] {
			q = "repeated-claims"
		}
		if staleNow {
			q = "finished-gauge-stale-epoch-rewards"
			h.stale = true
			h.r.Hit("claim-from-finished-gauge-in-later-epoch")
		} else {
			h.overpaid = true
		}
		h.r.Violate("C16/claims_le_allotment/gauge-overpaid/"+q,
			fmt.Sprintf("gauge %d paid %s in distribution epoch %d, allotment %s", gid, h.claimed[gid], h.weekNo, h.allot[gid]), h.lines...)
	}
}

// ---- test ----------------------------------------------------------------------------------------

func TestC16(t *testing.T) {
	r := NewRun(t, "C16")
	defer r.Close()
	h := newC16(t, r)
	emit := func(line string) string {
		full, obs := h.exec(line)
		r.Emit(full, obs)
		return obs
	}
	endTrace := func() {
		if len(h.kinds) > 0 {
			r.Class(strings.Join(h.kinds, " "), h.changed)
			r.Trace()
		}
	}
	if rl := ReplayLines(); rl != nil {
		for _, l := range rl {
			if strings.HasPrefix(l, "reset") {
				endTrace()
			}
			emit(l)
		}
		endTrace()
		return
	}
	c16Corpus(h, emit, endTrace)
	// hlib's splitmix streams of nearby seeds are shifts of one another (state = (seed+k)·γ + c):
	// re-seed through the output function so that VERIF_SEED=1,2,3 give unrelated trace sets
	root := NewRng(r.Rng.U64() ^ 0xC16C16C16)
	n := r.N(400, 5000)
	for i := 0; i < n; i++ {
		c16GenTrace(h, root.Fork(), emit, 30+root.Intn(40))
		endTrace()
	}
}
