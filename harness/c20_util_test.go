package harness

// C20 — nesting part: message trees, real sdk.Msg construction, the real ante handler.

import (
	"errors"
	"fmt"
	"reflect"
	"sort"
	"strconv"
	"strings"
	"time"

	"cosmossdk.io/math"
	codectypes "github.com/cosmos/cosmos-sdk/codec/types"
	sdk "github.com/cosmos/cosmos-sdk/types"
	sdkerrors "github.com/cosmos/cosmos-sdk/types/errors"
	vestingtypes "github.com/cosmos/cosmos-sdk/x/auth/vesting/types"
	"github.com/cosmos/cosmos-sdk/x/authz"
	banktypes "github.com/cosmos/cosmos-sdk/x/bank/types"
	govv1 "github.com/cosmos/cosmos-sdk/x/gov/types/v1"
	govv1beta1 "github.com/cosmos/cosmos-sdk/x/gov/types/v1beta1"
	"github.com/cosmos/cosmos-sdk/x/group"
	stakingtypes "github.com/cosmos/cosmos-sdk/x/staking/types"
	ibcclienttypes "github.com/cosmos/ibc-go/v8/modules/core/02-client/types"
	ibctm "github.com/cosmos/ibc-go/v8/modules/light-clients/07-tendermint"
	"github.com/dymensionxyz/gerr-cosmos/gerrc"
	evmtypes "github.com/evmos/ethermint/x/evm/types"
)

// the hub's documented nesting limit (reject_msgs.go `maxDepth` at design time): depth indices
// 0..c20Limit-1 are allowed, anything at depth >= c20Limit must be rejected
const c20Limit = 6

type c20Node struct {
	ty   string // alias
	auth string // alias of the granted message type, "-" if none
	bad  bool
	kids []*c20Node
}

type c20Kind struct {
	alias    string
	proto    func(h *c20Ante) sdk.Msg // leaf prototype (nil for wrappers)
	wrapper  bool                     // executes inner messages
	grant    bool
	disabled int // -1: not disabled; otherwise the minimum depth from which the hub disables it
}

func goTypeName(m any) string {
	t := reflect.TypeOf(m)
	for t.Kind() == reflect.Ptr {
		t = t.Elem()
	}
	return t.PkgPath() + "." + t.Name()
}

type c20Ante struct {
	f       *Fix
	kinds   map[string]*c20Kind
	order   []string
	urlOf   map[string]string // alias -> type URL
	aliasOf map[string]string // type URL -> alias
	goName  map[string]string // alias -> Go type name
	// ethereum route (c20_routes_test.go): X is built as a valid signed message with consecutive nonces
	ethRoute  bool
	ethFunded bool
	ethNonce  uint64
}

func mustAny(m any) *codectypes.Any {
	pm, ok := m.(interface {
		Reset()
		String() string
		ProtoMessage()
	})
	if !ok {
		panic(fmt.Sprintf("not a proto message: %T", m))
	}
	a, err := codectypes.NewAnyWithValue(pm)
	if err != nil {
		panic(err)
	}
	return a
}

func newC20Ante(f *Fix) *c20Ante {
	h := &c20Ante{f: f, kinds: map[string]*c20Kind{}, urlOf: map[string]string{}, aliasOf: map[string]string{}, goName: map[string]string{}}
	a0, a1 := Actor(0).String(), Actor(1).String()
	coin := sdk.NewCoins(sdk.NewCoin("adym", math.NewInt(1)))
	add := func(k *c20Kind, sample sdk.Msg) {
		h.kinds[k.alias] = k
		h.order = append(h.order, k.alias)
		u := sdk.MsgTypeURL(sample)
		h.urlOf[k.alias] = u
		h.aliasOf[u] = k.alias
		h.goName[k.alias] = goTypeName(sample)
	}
	add(&c20Kind{alias: "E", wrapper: true, disabled: -1}, &authz.MsgExec{})
	add(&c20Kind{alias: "G", wrapper: true, disabled: -1}, &govv1.MsgSubmitProposal{})
	add(&c20Kind{alias: "P", wrapper: true, disabled: -1}, &group.MsgSubmitProposal{})
	add(&c20Kind{alias: "R", grant: true, disabled: -1}, &authz.MsgGrant{})
	add(&c20Kind{alias: "X", disabled: 0, proto: func(*c20Ante) sdk.Msg {
		// a raw EVM message (legacy tx data), as it would sit in an ordinary Cosmos transaction
		return &evmtypes.MsgEthereumTx{Data: mustAny(&evmtypes.LegacyTx{Nonce: 1, GasLimit: 21000, GasPrice: ptrInt(math.NewInt(1)), To: "0x0000000000000000000000000000000000000001", Amount: ptrInt(math.NewInt(1)), V: []byte{1}, R: []byte{1}, S: []byte{1}}),
			From: "0x0000000000000000000000000000000000000002"}
	}}, &evmtypes.MsgEthereumTx{})
	add(&c20Kind{alias: "U", disabled: 1, proto: func(*c20Ante) sdk.Msg {
		return &ibcclienttypes.MsgUpdateClient{ClientId: "07-tendermint-0", ClientMessage: mustAny(&ibctm.Header{}), Signer: a0}
	}}, &ibcclienttypes.MsgUpdateClient{})
	add(&c20Kind{alias: "M", disabled: 1, proto: func(*c20Ante) sdk.Msg { // deprecated, still routable
		return &ibcclienttypes.MsgSubmitMisbehaviour{ClientId: "07-tendermint-0", Misbehaviour: mustAny(&ibctm.Misbehaviour{}), Signer: a0} //nolint:staticcheck
	}}, &ibcclienttypes.MsgSubmitMisbehaviour{}) //nolint:staticcheck
	add(&c20Kind{alias: "V1", disabled: 0, proto: func(*c20Ante) sdk.Msg {
		return &vestingtypes.MsgCreateVestingAccount{FromAddress: a0, ToAddress: a1, Amount: coin, EndTime: 4102444800}
	}}, &vestingtypes.MsgCreateVestingAccount{})
	add(&c20Kind{alias: "V2", disabled: 0, proto: func(*c20Ante) sdk.Msg {
		return &vestingtypes.MsgCreatePeriodicVestingAccount{FromAddress: a0, ToAddress: a1, StartTime: 1, VestingPeriods: []vestingtypes.Period{{Length: 10, Amount: coin}}}
	}}, &vestingtypes.MsgCreatePeriodicVestingAccount{})
	add(&c20Kind{alias: "V3", disabled: 0, proto: func(*c20Ante) sdk.Msg {
		return &vestingtypes.MsgCreatePermanentLockedAccount{FromAddress: a0, ToAddress: a1, Amount: coin}
	}}, &vestingtypes.MsgCreatePermanentLockedAccount{})
	// benign leaves
	add(&c20Kind{alias: "S", disabled: -1, proto: func(*c20Ante) sdk.Msg {
		return &banktypes.MsgSend{FromAddress: a0, ToAddress: a1, Amount: coin}
	}}, &banktypes.MsgSend{})
	add(&c20Kind{alias: "D", disabled: -1, proto: func(*c20Ante) sdk.Msg {
		return &stakingtypes.MsgDelegate{DelegatorAddress: a0, ValidatorAddress: sdk.ValAddress(Actor(9)).String(), Amount: coin[0]}
	}}, &stakingtypes.MsgDelegate{})
	add(&c20Kind{alias: "L", disabled: -1, proto: func(*c20Ante) sdk.Msg { // legacy gov proposal: content, not messages
		m, err := govv1beta1.NewMsgSubmitProposal(govv1beta1.NewTextProposal("t", "d"), coin, Actor(0))
		if err != nil {
			panic(err)
		}
		return m
	}}, &govv1beta1.MsgSubmitProposal{})
	add(&c20Kind{alias: "C", disabled: -1, proto: func(*c20Ante) sdk.Msg { // gov v1 wrapper of a legacy content
		return &govv1.MsgExecLegacyContent{Content: mustAny(govv1beta1.NewTextProposal("t", "d")), Authority: a0}
	}}, &govv1.MsgExecLegacyContent{})
	add(&c20Kind{alias: "Q", disabled: -1, proto: func(*c20Ante) sdk.Msg { // group exec runs a stored proposal: no packed messages
		return &group.MsgExec{ProposalId: 1, Executor: a0}
	}}, &group.MsgExec{})
	return h
}

func ptrInt(i math.Int) *math.Int { return &i }

// headers: one `ty` line per alias
func (h *c20Ante) headerLines() []string {
	var out []string
	for _, a := range h.order {
		out = append(out, "ty "+a+" "+h.goName[a])
	}
	out = append(out, "ty Z ?unregistered") // a type URL that resolves to nothing
	return out
}

// ---- (de)serialisation of trees ---------------------------------------------------------

func (n *c20Node) tokens(out *[]string) {
	b := "0"
	if n.bad {
		b = "1"
	}
	*out = append(*out, n.ty, n.auth, b, strconv.Itoa(len(n.kids)))
	for _, k := range n.kids {
		k.tokens(out)
	}
}

func c20TxLine(roots []*c20Node) string {
	toks := []string{"tx", strconv.Itoa(len(roots))}
	for _, r := range roots {
		r.tokens(&toks)
	}
	return strings.Join(toks, " ")
}

func c20ParseNodes(toks []string, n int) ([]*c20Node, []string, error) {
	var out []*c20Node
	for i := 0; i < n; i++ {
		if len(toks) < 4 {
			return nil, nil, fmt.Errorf("short tree")
		}
		k, err := strconv.Atoi(toks[3])
		if err != nil || k < 0 {
			return nil, nil, fmt.Errorf("bad child count")
		}
		nd := &c20Node{ty: toks[0], auth: toks[1], bad: toks[2] == "1"}
		kids, rest, err := c20ParseNodes(toks[4:], k)
		if err != nil {
			return nil, nil, err
		}
		nd.kids = kids
		toks = rest
		out = append(out, nd)
	}
	return out, toks, nil
}

// ---- real messages ------------------------------------------------------------------------

// an Any that names a registered message but carries no unpacked value (what a hand-built message
// that never went through UnpackInterfaces looks like)
func (h *c20Ante) rawAny() *codectypes.Any {
	m := h.kinds["S"].proto(h)
	a := mustAny(m)
	return &codectypes.Any{TypeUrl: a.TypeUrl, Value: a.Value}
}

func (h *c20Ante) build(n *c20Node) (sdk.Msg, error) {
	k, ok := h.kinds[n.ty]
	if !ok {
		return nil, fmt.Errorf("unknown alias %s", n.ty)
	}
	var inner []sdk.Msg
	for _, c := range n.kids {
		m, err := h.build(c)
		if err != nil {
			return nil, err
		}
		inner = append(inner, m)
	}
	a0, a1 := Actor(0), Actor(1)
	switch n.ty {
	case "E":
		m := authz.NewMsgExec(a1, inner)
		if n.bad {
			m.Msgs = append(m.Msgs, h.rawAny())
		}
		return &m, nil
	case "G":
		m, err := govv1.NewMsgSubmitProposal(inner, sdk.NewCoins(sdk.NewCoin("adym", math.NewInt(1))), a0.String(), "", "title", "summary", false)
		if err != nil {
			return nil, err
		}
		if n.bad {
			m.Messages = append(m.Messages, h.rawAny())
		}
		return m, nil
	case "P":
		m := &group.MsgSubmitProposal{GroupPolicyAddress: a1.String(), Proposers: []string{a0.String()}, Title: "t", Summary: "s"}
		if err := m.SetMsgs(inner); err != nil {
			return nil, err
		}
		if n.bad {
			m.Messages = append(m.Messages, h.rawAny())
		}
		return m, nil
	case "R":
		url := "/dymverif.unregistered.MsgNothing"
		if n.auth != "Z" {
			u, ok := h.urlOf[n.auth]
			if !ok {
				return nil, fmt.Errorf("unknown auth alias %s", n.auth)
			}
			url = u
		}
		exp := time.Date(2100, 1, 1, 0, 0, 0, 0, time.UTC)
		m, err := authz.NewMsgGrant(a0, a1, authz.NewGenericAuthorization(url), &exp)
		if err != nil {
			return nil, err
		}
		if n.bad {
			m.Grant.Authorization = nil
		}
		return m, nil
	}
	if k.proto == nil {
		return nil, fmt.Errorf("alias %s has no prototype", n.ty)
	}
	if len(inner) > 0 {
		return nil, fmt.Errorf("leaf %s cannot carry messages", n.ty)
	}
	if n.ty == "X" && h.ethRoute {
		m, err := h.ethMsg(h.ethNonce)
		h.ethNonce++
		return m, err
	}
	return k.proto(h), nil
}

// run the application's REAL ante handler (app.AnteHandler(): NewAnteHandler → cosmos chain) on an
// unsigned transaction built by the application's TxConfig, inside a discarded cache context.
// Only the verdict of the reject decorator is observed: it is the only decorator that returns
// errors.Join(ErrUnauthorized, cause); an accepted tree goes on to the later decorators, whose
// (fee/signature) errors are classified as "passed".
func (h *c20Ante) runAnte(tx sdk.Tx) (obs string, later error) {
	cctx, _ := h.f.Ctx.CacheContext()
	var err error
	func() {
		defer func() {
			if e := recover(); e != nil {
				err = fmt.Errorf("panic: %v", e)
			}
		}()
		_, err = h.f.App.AnteHandler()(cctx, tx, false)
	}()
	if err == nil {
		return "ok", nil
	}
	je, ok := err.(interface{ Unwrap() []error })
	if !ok {
		return "ok", err
	}
	parts := je.Unwrap()
	if len(parts) != 2 || parts[0] != error(sdkerrors.ErrUnauthorized) {
		return "ok", err
	}
	cause := parts[1]
	msg := cause.Error()
	last := func() string {
		i := strings.LastIndex(msg, ": ")
		u := strings.TrimSpace(msg[i+2:])
		// gerrc wraps as "<text>: <registered error>"; find the type URL token
		for _, t := range strings.FieldsFunc(msg, func(r rune) bool { return r == ' ' || r == ':' }) {
			if strings.HasPrefix(t, "/") {
				u = t
			}
		}
		if a, ok := h.aliasOf[u]; ok {
			return a
		}
		if u == "/dymverif.unregistered.MsgNothing" {
			return "Z"
		}
		return "?" + u
	}
	switch {
	case strings.HasPrefix(msg, "found more nested msgs than permitted"):
		return "rej deep", nil
	case errors.Is(cause, sdkerrors.ErrInvalidType) && strings.Contains(msg, "MsgEthereumTx needs to be contained"):
		return "rej ethtx X", nil
	case errors.Is(cause, gerrc.ErrInvalidArgument) && strings.Contains(msg, "disabled grant: "):
		return "rej grant " + last(), nil
	case errors.Is(cause, gerrc.ErrInvalidArgument) && strings.Contains(msg, "disabled: "):
		return "rej disabled " + last(), nil
	default:
		return "rej unpack", nil
	}
}

func (h *c20Ante) makeTx(roots []*c20Node) (sdk.Tx, error) {
	var msgs []sdk.Msg
	for _, r := range roots {
		m, err := h.build(r)
		if err != nil {
			return nil, err
		}
		msgs = append(msgs, m)
	}
	txb := h.f.App.TxConfig().NewTxBuilder()
	if err := txb.SetMsgs(msgs...); err != nil {
		return nil, err
	}
	txb.SetGasLimit(10_000_000)
	txb.SetFeeAmount(sdk.NewCoins(sdk.NewCoin("adym", math.NewInt(1_000_000_000_000_000))))
	return txb.GetTx(), nil
}

// ---- the property's own expectation, straight from its text --------------------------------

type c20Expect struct {
	mustReject bool
	why        string
	topGrantU  bool // a top-level grant naming the light-client update (accepted by the code; see grant_depth_semantics)
	hasBad     bool
	benign     bool // nothing the property forbids and nothing malformed
}

func (h *c20Ante) expect(roots []*c20Node) c20Expect {
	e := c20Expect{benign: true}
	var walk func(n *c20Node, depth int)
	walk = func(n *c20Node, depth int) {
		k := h.kinds[n.ty]
		if depth >= c20Limit {
			e.mustReject, e.why, e.benign = true, "too-deep", false
		}
		if k.disabled >= 0 && depth >= k.disabled {
			e.mustReject, e.benign = true, false
			if e.why == "" {
				e.why = "disabled-" + n.ty
			}
		}
		if n.bad {
			e.hasBad, e.benign = true, false
		}
		if k.grant && n.auth != "-" && n.auth != "Z" {
			ak := h.kinds[n.auth]
			switch {
			case ak.disabled == 0:
				e.mustReject, e.benign = true, false
				if e.why == "" {
					e.why = "grant-of-" + n.auth
				}
			case ak.disabled > 0 && depth >= 1:
				// a nested grant of the light-client update
				e.mustReject, e.benign = true, false
				if e.why == "" {
					e.why = "nested-grant-of-" + n.auth
				}
			case ak.disabled > 0:
				e.topGrantU, e.benign = true, false
			}
		}
		if k.wrapper {
			for _, c := range n.kids {
				walk(c, depth+1)
			}
		}
	}
	for _, r := range roots {
		walk(r, 0)
	}
	return e
}

// ---- real message structure: walking packed messages with the SDK's own accessors -------------

// innerOf returns the messages a real message executes (nil for anything that is not one of the
// SDK's message-carrying wrappers); independent of the hub's reject decorator.
func c20InnerOf(m sdk.Msg) ([]sdk.Msg, bool) {
	// the packed messages that did unpack (an unreadable Any is skipped: the harness appends it last)
	cached := func(anys []*codectypes.Any) []sdk.Msg {
		var out []sdk.Msg
		for _, a := range anys {
			if mm, ok := a.GetCachedValue().(sdk.Msg); ok {
				out = append(out, mm)
			}
		}
		return out
	}
	switch w := m.(type) {
	case *authz.MsgExec:
		return cached(w.Msgs), true
	case *govv1.MsgSubmitProposal:
		return cached(w.Messages), true
	case *group.MsgSubmitProposal:
		return cached(w.Messages), true
	}
	return nil, false
}

// reachReal follows an index path through the REAL messages of the transaction
func (h *c20Ante) reachReal(tx sdk.Tx, path []int) string {
	msgs := tx.GetMsgs()
	var cur sdk.Msg
	for i, ix := range path {
		if i > 0 {
			in, ok := c20InnerOf(cur)
			if !ok {
				return "none"
			}
			msgs = in
		}
		if ix < 0 || ix >= len(msgs) {
			return "none"
		}
		cur = msgs[ix]
	}
	if cur == nil {
		return "none"
	}
	a, ok := h.aliasOf[sdk.MsgTypeURL(cur)]
	if !ok {
		a = "?"
	} else if k := h.kinds[a]; !k.wrapper && !k.grant && k.disabled < 0 {
		a = "other" // a type the ante tables do not mention
	}
	return fmt.Sprintf("at %s depth %d", a, len(path)-1)
}

// probeWrappers asks the application's interface registry which registered message types can carry
// packed sdk.Msgs: a message type qualifies when one of its Any-typed fields (directly or one
// struct level down), filled with a raw packed MsgSend, is unpacked by the type's own
// UnpackInterfaces into an sdk.Msg.
func (h *c20Ante) probeWrappers() (goNames []string, urls []string) {
	reg := h.f.App.InterfaceRegistry()
	anyT := reflect.TypeOf(&codectypes.Any{})
	anysT := reflect.TypeOf([]*codectypes.Any{})
	for _, url := range reg.ListImplementations(sdk.MsgInterfaceProtoName) {
		proto, err := reg.Resolve(url)
		if err != nil {
			continue
		}
		if _, ok := proto.(codectypes.UnpackInterfacesMessage); !ok {
			continue
		}
		t := reflect.TypeOf(proto).Elem()
		type slot struct{ idx []int }
		var slots []slot
		var scan func(t reflect.Type, prefix []int, depth int)
		scan = func(t reflect.Type, prefix []int, depth int) {
			for i := 0; i < t.NumField(); i++ {
				ft := t.Field(i).Type
				ix := append(append([]int{}, prefix...), i)
				switch {
				case ft == anyT || ft == anysT:
					slots = append(slots, slot{ix})
				case ft.Kind() == reflect.Struct && depth < 1:
					scan(ft, ix, depth+1)
				}
			}
		}
		scan(t, nil, 0)
		isWrapper := false
		for _, sl := range slots {
			fresh, err := reg.Resolve(url)
			if err != nil {
				continue
			}
			raw := h.rawAny()
			fv := reflect.ValueOf(fresh).Elem().FieldByIndex(sl.idx)
			if fv.Type() == anyT {
				fv.Set(reflect.ValueOf(raw))
			} else {
				fv.Set(reflect.ValueOf([]*codectypes.Any{raw}))
			}
			func() {
				defer func() { _ = recover() }()
				if err := codectypes.UnpackInterfaces(fresh, reg); err != nil {
					return
				}
				if _, ok := raw.GetCachedValue().(sdk.Msg); ok {
					isWrapper = true
				}
			}()
		}
		if isWrapper {
			goNames = append(goNames, goTypeName(proto))
			urls = append(urls, url)
		}
	}
	sort.Strings(goNames)
	return goNames, urls
}
