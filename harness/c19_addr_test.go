package harness

import (
	"fmt"
	"strings"

	"cosmossdk.io/math"
	sdk "github.com/cosmos/cosmos-sdk/types"
	"github.com/cosmos/cosmos-sdk/types/bech32"
	authtypes "github.com/cosmos/cosmos-sdk/x/auth/types"
	govtypes "github.com/cosmos/cosmos-sdk/x/gov/types"

	"github.com/dymensionxyz/dymension/v3/app/apptesting"
	dymnskeeper "github.com/dymensionxyz/dymension/v3/x/dymns/keeper"
	dymnstypes "github.com/dymensionxyz/dymension/v3/x/dymns/types"
	dymnsutils "github.com/dymensionxyz/dymension/v3/x/dymns/utils"
	rollapptypes "github.com/dymensionxyz/dymension/v3/x/rollapp/types"
)

// C19, third extension — the text level of Dym-Name addresses: validators, ParseDymNameAddress,
// ReverseResolvedDymNameAddress.String(), the chains/aliases table of the params (real
// ChainsParams.Validate / MsgUpdateParams) and the reverse-resolve -> resolve round trip on a real
// keeper.  Ops are independent: every keeper op runs in a cache context that is never written.

var c19AddrFix *Fix

func c19AddrFixture(r *Run) *Fix {
	if c19AddrFix == nil {
		c19AddrFix = NewFix(r.T)
		lastFix = nil // stateless ops on store branches: nothing for the generic trace-end hooks
	}
	return c19AddrFix
}

func c19NonASCII(b []byte) bool {
	for _, c := range b {
		if c >= 128 {
			return true
		}
	}
	return false
}

// table token: records separated by ';', each `<chain hex>:<alias hex>,<alias hex>` ("=" = no alias); "-" = empty
func c19TableTok(t []dymnstypes.AliasesOfChainId) string {
	if len(t) == 0 {
		return "-"
	}
	var recs []string
	for _, r := range t {
		as := "="
		if len(r.Aliases) > 0 {
			var xs []string
			for _, a := range r.Aliases {
				xs = append(xs, Hex([]byte(a)))
			}
			as = strings.Join(xs, ",")
		}
		recs = append(recs, Hex([]byte(r.ChainId))+":"+as)
	}
	return strings.Join(recs, ";")
}

func c19Table(tok string) []dymnstypes.AliasesOfChainId {
	if tok == "-" {
		return nil
	}
	var t []dymnstypes.AliasesOfChainId
	for _, rec := range strings.Split(tok, ";") {
		p := strings.SplitN(rec, ":", 2)
		r := dymnstypes.AliasesOfChainId{ChainId: string(unhex(p[0]))}
		if p[1] != "=" {
			for _, a := range strings.Split(p[1], ",") {
				r.Aliases = append(r.Aliases, string(unhex(a)))
			}
		}
		t = append(t, r)
	}
	return t
}

func c19ChainsClass(err error) string {
	if err == nil {
		return "ok"
	}
	m := err.Error()
	switch {
	case strings.Contains(m, "must be at least 3 characters"):
		return "short"
	case strings.Contains(m, "chain ID is not well-formed"):
		return "badchain"
	case strings.Contains(m, "unique among all"):
		return "dup"
	case strings.Contains(m, "alias is not well-formed"):
		return "badalias"
	}
	return "other"
}

// c19TableClash: model-independent reading of an ACCEPTED table: a text that is listed twice among
// all chain-ids and aliases names two chains (or one chain twice)
func c19TableClash(t []dymnstypes.AliasesOfChainId) (string, bool) {
	seen := map[string]int{}
	for i, r := range t {
		if j, ok := seen[r.ChainId]; ok {
			return fmt.Sprintf("%q (records %d and %d)", r.ChainId, j, i), true
		}
		seen[r.ChainId] = i
	}
	for i, r := range t {
		for _, a := range r.Aliases {
			if j, ok := seen[a]; ok {
				return fmt.Sprintf("%q (records %d and %d)", a, j, i), true
			}
			seen[a] = i
		}
	}
	return "", false
}

func c19ParseObs(w string) (string, [3]string, bool) {
	sub, name, h, err := dymnskeeper.ParseDymNameAddress(w)
	if err != nil {
		return "err", [3]string{}, false
	}
	return fmt.Sprintf("ok %s %s %s", Hex([]byte(sub)), Hex([]byte(name)), Hex([]byte(h))), [3]string{sub, name, h}, true
}

// c19AddrCtx: a branch of the fixture's store with the host chain-id of the op line
func c19AddrCtx(r *Run, host string) (sdk.Context, dymnskeeper.Keeper) {
	fx := c19AddrFixture(r)
	ctx, _ := fx.Ctx.CacheContext()
	return ctx.WithChainID(host), fx.App.DymNSKeeper
}

func c19SetChains(ctx sdk.Context, k dymnskeeper.Keeper, t []dymnstypes.AliasesOfChainId) error {
	_, err := dymnskeeper.NewMsgServerImpl(k).UpdateParams(ctx, &dymnstypes.MsgUpdateParams{
		Authority:       authtypes.NewModuleAddress(govtypes.ModuleName).String(),
		NewChainsParams: &dymnstypes.ChainsParams{AliasesOfChainIds: t},
	})
	return err
}

func c19InAliases(t []dymnstypes.AliasesOfChainId, x string) bool {
	for _, r := range t {
		for _, a := range r.Aliases {
			if a == x {
				return true
			}
		}
	}
	return false
}

// c19ExecAddr executes the ops of the third extension; handled=false for any other op.
func c19ExecAddr(r *Run, line string, f []string) (string, bool) {
	switch f[0] {
	case "dnvalid":
		s := unhex(f[1])
		if c19NonASCII(s) {
			return "nonascii", true
		}
		return fmt.Sprintf("%t %t %t %t", dymnsutils.IsValidDymName(string(s)), dymnsutils.IsValidAlias(string(s)),
			dymnsutils.IsValidChainIdFormat(string(s)), dymnsutils.IsValidHexAddress(string(s))), true
	case "dnparse":
		w := unhex(f[1])
		if c19NonASCII(w) {
			return "nonascii", true
		}
		obs, p, ok := c19ParseObs(string(w))
		if ok {
			r.Hit("dnparse-accepted")
			// what was accepted, written back the way reverse resolution writes it, names the same thing
			rr := dymnstypes.ReverseResolvedDymNameAddress{SubName: p[0], Name: p[1], ChainIdOrAlias: p[2]}
			if obs2, _, _ := c19ParseObs(rr.String()); obs2 != obs {
				r.Violate("C19/dymname_address/roundtrip-differs", fmt.Sprintf("%q parses to %s, written back %q parses to %s", w, obs, rr.String(), obs2), line)
			}
		}
		return obs + " s=true", true
	case "dnchains":
		t := c19Table(f[1])
		err := dymnstypes.ChainsParams{AliasesOfChainIds: t}.Validate()
		if err == nil {
			if what, clash := c19TableClash(t); clash {
				r.Violate("C19/dymname_address/alias-names-two-chains", "ChainsParams.Validate accepts a table that lists "+what+" twice", line)
			}
		}
		return c19ChainsClass(err), true
	case "dnxl":
		host, t, x := string(unhex(f[1])), c19Table(f[2]), string(unhex(f[3]))
		ctx, k := c19AddrCtx(r, host)
		if err := c19SetChains(ctx, k, t); err != nil {
			return "refused " + c19ChainsClass(err), true
		}
		resp, err := dymnskeeper.NewQueryServerImpl(k).TranslateAliasOrChainIdToChainId(ctx, &dymnstypes.QueryTranslateAliasOrChainIdToChainIdRequest{AliasOrChainId: x})
		if err != nil {
			return "bad-op", true
		}
		out := k.ReplaceChainIdWithAliasIfPossible(ctx, dymnstypes.ReverseResolvedDymNameAddresses{{Name: "a", ChainIdOrAlias: x}})
		return fmt.Sprintf("ok %s %s", Hex([]byte(resp.ChainId)), Hex([]byte(out[0].ChainIdOrAlias))), true
	case "dnrt":
		host, t, c, name := string(unhex(f[1])), c19Table(f[2]), string(unhex(f[3])), string(unhex(f[5]))
		sub := ""
		if f[4] != "=" {
			var ps []string
			for _, p := range strings.Split(f[4], ",") {
				ps = append(ps, string(unhex(p)))
			}
			sub = strings.Join(ps, ".")
		}
		ctx, k := c19AddrCtx(r, host)
		if err := c19SetChains(ctx, k, t); err != nil {
			return "refused " + c19ChainsClass(err), true
		}
		if what, clash := c19TableClash(t); clash {
			r.Violate("C19/dymname_address/alias-names-two-chains", "MsgUpdateParams accepts a table that lists "+what+" twice", line)
		}
		addr, err := bech32.ConvertAndEncode("ext", Actor(7))
		if err != nil {
			panic(err)
		}
		cfgChain := c
		if c == host {
			cfgChain = "" // the host chain-id is not persisted in a config
			addr = Actor(7).String() // and its configs carry host-chain addresses
		}
		owner := Actor(1).String()
		dn := dymnstypes.DymName{Name: name, Owner: owner, Controller: owner, ExpireAt: ctx.BlockTime().Unix() + 1000,
			Configs: []dymnstypes.DymNameConfig{{Type: dymnstypes.DymNameConfigType_DCT_NAME, ChainId: cfgChain, Path: sub, Value: addr}}}
		if err := k.SetDymName(ctx, dn); err != nil {
			return "bad-op", true // the generator only draws names / sub-names / chain-ids of the validators' languages
		}
		if err := k.AfterDymNameOwnerChanged(ctx, name); err != nil {
			panic(err)
		}
		if err := k.AfterDymNameConfigChanged(ctx, name); err != nil {
			panic(err)
		}
		handed, err := k.ReverseResolveDymNameAddress(ctx, addr, c)
		if err != nil {
			return "rr-error", true
		}
		if len(handed) != 1 {
			return fmt.Sprintf("rr-count-%d", len(handed)), true
		}
		text := handed[0].String()
		at, _, _ := c19ParseObs(text)
		dot, _, _ := c19ParseObs(strings.Replace(text, "@", ".", 1))
		resp, err := dymnskeeper.NewQueryServerImpl(k).TranslateAliasOrChainIdToChainId(ctx, &dymnstypes.QueryTranslateAliasOrChainIdToChainIdRequest{AliasOrChainId: handed[0].ChainIdOrAlias})
		if err != nil {
			panic(err)
		}
		resolved, rerr := k.ResolveByDymNameAddress(ctx, text)
		rt := rerr == nil && resolved == addr
		// monitors (independent of the Lean model).  Preconditions = what the deployment guarantees:
		// the hub's own chain-id has the name_number-number form, so it is not an alias text; and the
		// config's chain-id is not itself a text the params use as an alias (a name may configure a
		// chain literally called like an alias: resolution reads such a config literally, by design)
		if !dymnsutils.IsValidAlias(host) && !c19InAliases(t, c) {
			if !rt {
				r.Violate("C19/dymname_address/roundtrip-differs",
					fmt.Sprintf("reverse-resolve hands out %q for %s on %s; resolve gives %q (err %v)", text, addr, c, resolved, rerr), line)
			}
			if resp.ChainId != c {
				r.Violate("C19/dymname_address/alias-names-two-chains",
					fmt.Sprintf("'@%s' is handed out for chain %s but translates to chain %s", handed[0].ChainIdOrAlias, c, resp.ChainId), line)
			}
		} else if !rt {
			r.Hit("dnrt-roundtrip-differs-outside-deployment-preconditions")
		}
		if rt {
			r.Hit("dnrt-roundtrip-ok")
		}
		if handed[0].ChainIdOrAlias != c {
			r.Hit("dnrt-alias-handed-out")
		}
		return fmt.Sprintf("ok %s at=%s dot=%s chain=%s rt=%t", Hex([]byte(text)), at, dot, Hex([]byte(resp.ChainId)), rt), true
	case "rcreate":
		id, id2 := unhex(f[1]), unhex(f[2])
		if c19NonASCII(id) || c19NonASCII(id2) {
			return "nonascii", true
		}
		fx := c19AddrFixture(r)
		ctx, _ := fx.Ctx.CacheContext()
		create := func(id, alias, hrp string) error {
			apptesting.FundForAliasRegistration(fx.App, ctx, alias, apptesting.Alice)
			msg := &rollapptypes.MsgCreateRollapp{
				Creator: apptesting.Alice, RollappId: id, InitialSequencer: "*",
				MinSequencerBond: rollapptypes.DefaultMinSequencerBondGlobalCoin,
				Alias:            alias, VmType: rollapptypes.Rollapp_EVM,
				GenesisInfo: &rollapptypes.GenesisInfo{
					Bech32Prefix: hrp, GenesisChecksum: "1234567890abcdefg", InitialSupply: math.NewInt(1000),
					NativeDenom: rollapptypes.DenomMetadata{Display: "DEN", Base: "aden", Exponent: 18},
				},
				Metadata: &rollapptypes.RollappMetadata{Website: "https://dymension.xyz", Description: "d", LogoUrl: "https://dymension.xyz/logo.png", Telegram: "https://t.me/rolly", X: "https://x.dymension.xyz"},
			}
			if err := msg.ValidateBasic(); err != nil {
				return err
			}
			cctx, write := ctx.CacheContext()
			_, err := fx.App.MsgServiceRouter().Handler(msg)(cctx, msg)
			if err == nil {
				write()
			}
			return err
		}
		if err := create(string(id), "verifa", "vfa"); err != nil {
			return "refused", true
		}
		k := fx.App.RollappKeeper
		cid := rollapptypes.MustNewChainID(string(id))
		if _, ok := k.GetRollapp(ctx, string(id)); !ok {
			panic("created rollapp not found under the id as sent")
		}
		_, getTrim := k.GetRollapp(ctx, cid.GetChainID())
		_, byName := k.GetRollappByName(ctx, cid.GetName())
		second := create(string(id2), "verifb", "vfb") == nil
		// monitors: an id the hub registered is a chain id (no surrounding white space), is found under the
		// ChainID it validates to, and its name is taken
		if cid.GetChainID() != string(id) {
			r.Violate("C19/rollapp_id/registered-with-surrounding-white-space",
				fmt.Sprintf("MsgCreateRollapp registers %q (validated as %q): GetRollapp(%q) found=%t", id, cid.GetChainID(), cid.GetChainID(), getTrim), line)
		}
		if !byName {
			r.Violate("C19/prefix_scan/rollapp-by-name-misses-registered-rollapp",
				fmt.Sprintf("GetRollappByName(%q) does not return the registered rollapp %q", cid.GetName(), id), line)
		}
		if second {
			if c2, err := rollapptypes.NewChainID(string(id2)); err == nil && c2.GetName() == cid.GetName() {
				r.Violate("C19/rollapp_id/two-rollapps-one-name",
					fmt.Sprintf("%q and then %q are both registered: the name %q is taken twice", id, id2, cid.GetName()), line)
			}
			r.Hit("rcreate-second-accepted")
		}
		r.Hit("rcreate-accepted")
		return fmt.Sprintf("ok get-trimmed=%t by-name=%t second=%t", getTrim, byName, second), true
	}
	return "", false
}

// ---- generator ---------------------------------------------------------------------------------

var c19AddrChains = []string{"nim_1122-1", "nim", "cosmoshub-4", "osmosis-1", "injective-1", "abc", "abcd", "evmos_9001-2",
	"a-b_1-2", "dym", "osmo", "blumbus_111-1", "froopyland_100-1", "cosmos", "xyz-1", "xyz_1"}
var c19AddrAliases = []string{"nim", "dym", "cosmos", "osmo", "inj", "abc", "abcd", "a", "x1", "9", "evmos", "blumbus", "froopyland", "xyz"}
var c19AddrBadChains = []string{"ab", "a", "", "Abc", "abc_", "abc-", "abc_1_2", "a-b-c", "1abc", "abc.d", "abc_1-", strings.Repeat("a", 51), "ab c", "abc-1-2", "abc_x"}
var c19AddrBadAliases = []string{"", "A", "a_b", "a-b", strings.Repeat("a", 33), "a b", "a.b", "a@b"}
var c19AddrNames = []string{"alice", "bob", "a", "my-name", "my_name", "a1", "0", "x-y_z", "nim", "dym", strings.Repeat("n", 20), "a-b-c-d", "9lives"}
var c19AddrBadNames = []string{"", "-a", "a-", "_a", "a_", "a--b", "a-_b", "a__b", strings.Repeat("n", 21), "A", "a b", "a|b", "a/b", "é"}

func c19AddrPick(g *Rng, xs []string) string { return xs[g.Intn(len(xs))] }

func c19AddrName(g *Rng) string {
	if g.Chance(60) {
		return c19AddrPick(g, c19AddrNames)
	}
	const al = "abcdefghijklmnopqrstuvwxyz0123456789"
	n := 1 + g.Intn(20)
	b := make([]byte, n)
	for i := range b {
		b[i] = al[g.Intn(len(al))]
		if i > 0 && i < n-1 && b[i-1] != '-' && b[i-1] != '_' && g.Chance(15) {
			b[i] = "-_"[g.Intn(2)]
		}
	}
	return string(b)
}

// c19AddrGenTable draws a table (mostly valid) and then, with some probability, plants one clash
func c19AddrGenTable(r *Run, g *Rng, host string) []dymnstypes.AliasesOfChainId {
	var t []dymnstypes.AliasesOfChainId
	used := map[string]bool{}
	take := func(pool []string) (string, bool) {
		for k := 0; k < 8; k++ {
			s := c19AddrPick(g, pool)
			if !used[s] {
				used[s] = true
				return s, true
			}
		}
		return "", false
	}
	n := g.Intn(5)
	for i := 0; i < n; i++ {
		c, ok := take(c19AddrChains)
		if g.Chance(12) {
			c, ok = host, !used[host]
			used[host] = true
		}
		if !ok {
			continue
		}
		rec := dymnstypes.AliasesOfChainId{ChainId: c}
		for j, m := 0, g.Intn(4); j < m; j++ {
			if a, ok := take(c19AddrAliases); ok {
				rec.Aliases = append(rec.Aliases, a)
			}
		}
		t = append(t, rec)
	}
	if len(t) == 0 || !g.Chance(45) {
		r.Hit("table-clean")
		return t
	}
	kind := g.Intn(9)
	if len(t) < 2 && (kind <= 2 || kind == 4) {
		if c, ok := take(c19AddrChains); ok {
			rec := dymnstypes.AliasesOfChainId{ChainId: c}
			if a, ok := take(c19AddrAliases); ok {
				rec.Aliases = []string{a}
			}
			t = append(t, rec)
		}
	}
	i, j := g.Intn(len(t)), g.Intn(len(t))
	if i > j {
		i, j = j, i
	}
	if i == j && len(t) > 1 {
		if j+1 < len(t) {
			j++
		} else {
			i--
		}
	}
	switch kind {
	case 0: // an alias equal to a chain-id listed EARLIER
		if i < j {
			t[j].Aliases = append(t[j].Aliases, t[i].ChainId)
			r.Hit("table-alias-equals-earlier-chain-id")
		}
	case 1: // a chain-id equal to an alias listed earlier
		if i < j && len(t[i].Aliases) > 0 {
			t[j].ChainId = t[i].Aliases[g.Intn(len(t[i].Aliases))]
			r.Hit("table-chain-id-equals-earlier-alias")
		}
	case 2: // alias vs alias, two records
		if i != j && len(t[i].Aliases) > 0 {
			t[j].Aliases = append(t[j].Aliases, t[i].Aliases[0])
			r.Hit("table-alias-twice-two-records")
		}
	case 3: // alias vs alias, one record
		if len(t[i].Aliases) > 0 {
			t[i].Aliases = append(t[i].Aliases, t[i].Aliases[g.Intn(len(t[i].Aliases))])
			r.Hit("table-alias-twice-one-record")
		}
	case 4: // chain-id twice
		if i != j {
			t[j].ChainId = t[i].ChainId
			r.Hit("table-chain-id-twice")
		}
	case 5: // a record's alias equal to its own chain-id
		t[i].Aliases = append(t[i].Aliases, t[i].ChainId)
		r.Hit("table-alias-equals-own-chain-id")
	case 6: // an alias equal to the host chain-id
		t[i].Aliases = append(t[i].Aliases, host)
		r.Hit("table-alias-equals-host-chain-id")
	case 7:
		t[i].ChainId = c19AddrPick(g, c19AddrBadChains)
		r.Hit("table-bad-chain-id")
	case 8:
		t[i].Aliases = append(t[i].Aliases, c19AddrPick(g, c19AddrBadAliases))
		r.Hit("table-bad-alias")
	}
	return t
}

// c19AddrDirected: the clash in both orders (and the clean table) on the round trip, on every seed
func c19AddrDirected(emit func(kind, line string)) {
	hx := func(s string) string { return Hex([]byte(s)) }
	host := apptesting.TestChainID
	dym := dymnstypes.AliasesOfChainId{ChainId: "dymension_1100-1", Aliases: []string{"dym"}}
	nimA := dymnstypes.AliasesOfChainId{ChainId: "nim_1122-1", Aliases: []string{"nim"}}
	nimC := dymnstypes.AliasesOfChainId{ChainId: "nim"}
	for _, t := range [][]dymnstypes.AliasesOfChainId{
		{dym, nimA}, {dym, nimA, nimC}, {dym, nimC, nimA}, {nimC, nimA}, {nimA, nimC},
		{{ChainId: "nim", Aliases: []string{"nim"}}}, {nimA, {ChainId: "abc", Aliases: []string{"nim"}}}, {nimA, nimA},
		{{ChainId: host, Aliases: []string{"dym"}}, nimA},
	} {
		emit("dnchains", "dnchains "+c19TableTok(t))
		for _, c := range []string{"nim_1122-1", "nim", host} {
			emit("dnxl", fmt.Sprintf("dnxl %s %s %s", hx(host), c19TableTok(t), hx(c)))
			emit("dnrt", fmt.Sprintf("dnrt %s %s %s = %s", hx(host), c19TableTok(t), hx(c), hx("alice")))
			emit("dnrt", fmt.Sprintf("dnrt %s %s %s %s %s", hx(host), c19TableTok(t), hx(c), hx("sub")+","+hx("b"), hx("alice")))
		}
	}
	// rollapp ids with surrounding white space (NewChainID trims, the store keys do not)
	for _, p := range [][2]string{{"abc_1-1", "abc_2-1"}, {" abc_1-1", "abc_2-1"}, {" abc_1-1", "abc_1-1"}, {"abc_1-1 ", "abd_2-1"},
		{"\tabd_4-1\n", "abd_4-1"}, {"abc_1-1", " abc_2-1"}, {"abc_1-2", "abc_1-1"}, {" ", "abc_1-1"}} {
		emit("rcreate", fmt.Sprintf("rcreate %s %s", hx(p[0]), hx(p[1])))
	}
	// a host chain-id that is an alias text and is listed as alias of another chain (not the hub's form)
	emit("dnrt", fmt.Sprintf("dnrt %s %s %s = %s", hx("hubchain"), c19TableTok([]dymnstypes.AliasesOfChainId{{ChainId: "nim_1122-1", Aliases: []string{"hubchain"}}}), hx("nim_1122-1"), hx("alice")))
}

// c19GenAddr emits one op of the third extension.
func c19GenAddr(r *Run, g *Rng, emit func(kind, line string)) {
	hx := func(s string) string { return Hex([]byte(s)) }
	host := apptesting.TestChainID
	if g.Chance(15) {
		host = []string{"hubchain", "dym", "nim", "hub-1"}[g.Intn(4)] // a host chain-id that is also an alias text (not the hub's form)
	}
	if g.Chance(6) {
		ws := func(s string) string {
			switch g.Intn(6) {
			case 0:
				return " " + s
			case 1:
				return s + " "
			case 2:
				return "\t" + s + "\n"
			case 3:
				return s[:len(s)/2] + " " + s[len(s)/2:]
			}
			return s
		}
		a := c19IdCandidate(g)
		if g.Chance(70) {
			a = fmt.Sprintf("%s_%d-1", c19AddrPick(g, []string{"abc", "abd", "a", "rollapp"}), 1+g.Intn(4))
		}
		b := fmt.Sprintf("%s_%d-1", c19AddrPick(g, []string{"abc", "abd", "a", "rollapp"}), 1+g.Intn(4))
		if g.Chance(30) {
			b = strings.TrimSpace(a)
		}
		emit("rcreate", fmt.Sprintf("rcreate %s %s", hx(ws(a)), hx(ws(b))))
		return
	}
	switch g.Intn(10) {
	case 0, 1:
		pools := [][]string{c19AddrChains, c19AddrAliases, c19AddrBadChains, c19AddrBadAliases, c19AddrNames, c19AddrBadNames}
		s := c19AddrPick(g, pools[g.Intn(len(pools))])
		if g.Chance(25) {
			s = c19AddrName(g)
		}
		if g.Chance(10) {
			s = "0x" + strings.Repeat("0123456789abcdefABCDEF"[g.Intn(22):][:1], []int{40, 64, 39, 41}[g.Intn(4)])
		}
		emit("dnvalid", "dnvalid "+hx(s))
	case 2, 3, 4:
		// an address text: mostly well formed, then perturbed
		var parts []string
		for i, n := 0, g.Intn(3); i < n; i++ {
			parts = append(parts, c19AddrName(g))
		}
		name := c19AddrName(g)
		switch g.Intn(12) {
		case 0:
			name = "0x" + strings.Repeat("a1", []int{20, 32, 19}[g.Intn(3)])
		case 1:
			name, _ = bech32.ConvertAndEncode([]string{"dym", "nim", "cosmos"}[g.Intn(3)], Actor(g.Intn(5)))
		case 2:
			name = c19AddrPick(g, c19AddrBadNames)
		}
		h := c19AddrPick(g, c19AddrChains)
		switch g.Intn(6) {
		case 0:
			h = c19AddrPick(g, c19AddrAliases)
		case 1:
			h = c19AddrPick(g, c19AddrBadChains)
		}
		last := "@"
		if g.Chance(30) {
			last = "."
		}
		w := strings.Join(append(parts, name), ".") + last + h
		if g.Chance(45) {
			b := []byte(w)
			ins := func(s string) {
				i := g.Intn(len(b) + 1)
				b = append(b[:i:i], append([]byte(s), b[i:]...)...)
			}
			switch g.Intn(12) {
			case 0:
				ins(".")
			case 1:
				ins("@")
			case 2:
				ins(" ")
			case 3:
				b = append([]byte(" \t"), append(b, '\n', ' ')...)
			case 4:
				b = []byte(strings.ToUpper(string(b)))
			case 5:
				ins("|")
			case 6:
				if len(b) > 0 {
					b = b[:g.Intn(len(b))]
				}
			case 7:
				if len(b) > 0 {
					b = b[g.Intn(len(b)):]
				}
			case 8:
				b = []byte(strings.Replace(string(b), ".", "@", 1))
			case 9:
				b = []byte(strings.Replace(string(b), "@", ".", 1) + "@" + c19AddrPick(g, c19AddrAliases))
			case 10:
				ins("..")
			case 11:
				b = []byte([]string{"", ".", "@", "a", "a@", "@a", ".a@b", "a.@b", "a@.b", "a@b.", "a@b@c", "a.b@c.d", "a@b.c", " a@b", "a @b", "a@ b", "a|@b"}[g.Intn(17)])
			}
			w = string(b)
			r.Hit("dnparse-perturbed")
		}
		// the bech32 oracle of the model: what the real validator says of the name chunk
		low := strings.ToLower(strings.TrimSpace(w))
		ch := strings.FieldsFunc(low, func(c rune) bool { return c == '.' || c == '@' })
		bech := 0
		if len(ch) >= 2 && dymnsutils.IsValidBech32AccountAddress(ch[len(ch)-2], false) {
			bech = 1
		}
		emit("dnparse", fmt.Sprintf("dnparse %s %d", hx(w), bech))
	case 5, 6:
		emit("dnchains", "dnchains "+c19TableTok(c19AddrGenTable(r, g, host)))
	case 7:
		t := c19AddrGenTable(r, g, host)
		x := c19AddrPick(g, c19AddrChains)
		if g.Chance(50) && len(t) > 0 {
			rec := t[g.Intn(len(t))]
			x = rec.ChainId
			if len(rec.Aliases) > 0 && g.Chance(50) {
				x = rec.Aliases[g.Intn(len(rec.Aliases))]
			}
		}
		if g.Chance(10) {
			x = host
		}
		if x == "" {
			x = "abc"
		}
		emit("dnxl", fmt.Sprintf("dnxl %s %s %s", hx(host), c19TableTok(t), hx(x)))
	case 8, 9:
		t := c19AddrGenTable(r, g, host)
		c := c19AddrPick(g, c19AddrChains)
		if g.Chance(70) && len(t) > 0 {
			c = t[g.Intn(len(t))].ChainId
		}
		if g.Chance(10) {
			c = host
		}
		if !dymnsutils.IsValidChainIdFormat(c) {
			c = "cosmoshub-4"
		}
		if c19InAliases(t, c) {
			r.Hit("dnrt-config-chain-id-is-an-alias-text")
		}
		subs := "="
		if n := g.Intn(3); n > 0 {
			var ps []string
			for i := 0; i < n; i++ {
				p := c19AddrName(g)
				for !dymnsutils.IsValidDymName(p) {
					p = c19AddrPick(g, c19AddrNames)
				}
				ps = append(ps, hx(p))
			}
			subs = strings.Join(ps, ",")
		}
		name := c19AddrName(g)
		for !dymnsutils.IsValidDymName(name) {
			name = c19AddrPick(g, c19AddrNames)
		}
		emit("dnrt", fmt.Sprintf("dnrt %s %s %s %s %s", hx(host), c19TableTok(t), hx(c), subs, hx(name)))
	}
}
