package harness

// C17 — DymNS: one owner per name, consistent lookups, escrow fully backed.
//
// Line protocol (model: lean/DymVerif/Model/DymNS.lean, driver: Driver/C17.lean).  Accounts a<i>,
// names n<i>, aliases l<i>, chains c<i> (0 = host, 1..R = RollApps, 100/101 = external chains of the
// module params), sub-name paths p<i>, contacts k<i>, addresses <hrp>:<acct> are small numbers; the
// text each stands for is fixed by the encoders below (injective: assumption A-norm).
//
//   reset nA nN nL nR grace soDur minOffer inc ext ns,.. as,.. now tn ta
//   fund a amt | adv dt | trade tn ta | resv l|-
//   reg a n dur pay k | xfer a n b | ctrl a n b | ura a n c e p hrp:acct|- | det a n keep|k<i> clear
//   sell a n|l id min sell | csell a n|l id | comp a n|l id | buy a n|l id offer [dst]
//   offer a n|l id amt cont|- [dst] | cbo a oid | abo a oid min
//   rollapp a c hrp l | alias a c l pay | xferra a c b   (x/rollapp MsgTransferOwnership)
//   mig p>n,p>n   (MigrateChainIdsProposal through the real proposal handler)
//   ualias c:l,..|- c:l,..|-   (UpdateAliasesProposal: add, remove)
//   setp grace soDur minOffer inc   (MsgUpdateParams: price + misc params)
//   v  (full state view)   own a | res p n h | rev hrp:acct c | bon n | bol l | bob a   (queries)

import (
	"fmt"
	"sort"
	"strconv"
	"strings"
	"time"

	"cosmossdk.io/math"
	storetypes "cosmossdk.io/store/types"
	sdk "github.com/cosmos/cosmos-sdk/types"
	"github.com/cosmos/cosmos-sdk/types/bech32"
	sdkerrors "github.com/cosmos/cosmos-sdk/types/errors"
	authtypes "github.com/cosmos/cosmos-sdk/x/auth/types"
	govtypes "github.com/cosmos/cosmos-sdk/x/gov/types"
	govv1beta1 "github.com/cosmos/cosmos-sdk/x/gov/types/v1beta1"
	"github.com/dymensionxyz/gerr-cosmos/gerrc"

	"github.com/dymensionxyz/dymension/v3/app/apptesting"
	dymnsmodule "github.com/dymensionxyz/dymension/v3/x/dymns"
	dymnskeeper "github.com/dymensionxyz/dymension/v3/x/dymns/keeper"
	dymnstypes "github.com/dymensionxyz/dymension/v3/x/dymns/types"
	rollapptypes "github.com/dymensionxyz/dymension/v3/x/rollapp/types"
)

const c17Denom = "adym"

var c17Errs = []ErrMap{
	{sdkerrors.ErrInsufficientFunds, "funds"},
	{gerrc.ErrNotFound, "notfound"},
	{gerrc.ErrPermissionDenied, "denied"},
	{gerrc.ErrUnauthenticated, "unauth"},
	{gerrc.ErrFailedPrecondition, "precond"},
	{gerrc.ErrAlreadyExists, "exists"},
	{rollapptypes.ErrRollappExists, "exists"},
	{gerrc.ErrInvalidArgument, "invalid"},
	{govtypes.ErrInvalidProposalContent, "invalid"},
	{rollapptypes.ErrUnknownRollappID, "notfound"},
	{gerrc.ErrUnknown, "unknown"},
}

// c17HostLit: the model's id of a config chain-id that is the host chain-id written out literally
// (Model/DymNS.lean `hostLit`); such a record can only come out of a chain-id migration
const c17HostLit = 999

// ---- encoders: model ids -> real strings -------------------------------------------------------

func c17Letters(q, n int) string {
	b := make([]byte, n)
	for i := n - 1; i >= 0; i-- {
		b[i] = byte('a' + q%26)
		q /= 26
	}
	return string(b)
}

// name id n has a text of length n%7+1
func c17Name(n int) string { return c17Letters(n/7, n%7+1) }

// alias id l has a text of length l%5+2; 1000.. are the aliases of the module params
func c17Alias(l int) string {
	switch l {
	case 1000:
		return "dym"
	case 1001:
		return "cosmos"
	case 1002:
		return "inj"
	case 1003:
		return "jun"
	}
	return strings.Repeat("k", l%5+1) + c17Letters(l/5, 1)
}

func c17Chain(c int) string {
	switch {
	case c == 0:
		return apptesting.TestChainID
	case c == 100:
		return "cosmoshub-4"
	case c == 101:
		return "osmosis-1"
	case c == 102:
		return "injective-1"
	case c == 103:
		return "juno-1"
	}
	return fmt.Sprintf("rol%c_%d-1", 'a'+c, 1000+c)
}

func c17Hrp(h int) string {
	switch {
	case h == 0:
		return "dym"
	case h == 100:
		return "cosmos"
	}
	return fmt.Sprintf("rol%c", 'a'+h)
}

var c17Paths = []string{"", "sa", "sb.sc"}

func c17Contact(k int) string {
	if k == 0 {
		return ""
	}
	return fmt.Sprintf("contact-%d", k)
}

func c17Acct(a int) string { return Actor(a).String() }

func c17AddrText(hrp, acct int) string {
	s, err := bech32.ConvertAndEncode(c17Hrp(hrp), Actor(acct))
	if err != nil {
		panic(err)
	}
	return s
}

func c17Coin(amt string) sdk.Coin {
	i, ok := math.NewIntFromString(amt)
	if !ok {
		panic("bad amount " + amt)
	}
	return sdk.Coin{Denom: c17Denom, Amount: i}
}

// ---- harness state --------------------------------------------------------------------------

type c17h struct {
	r    *Run
	f    *Fix
	base sdk.Context
	f0   *Fix // the fixture as prepared (C18 continue-after-import replaces the application behind h.f)
	k    dymnskeeper.Keeper

	nA, nN, nL, nR int
	acctID         map[string]int
	nameID         map[string]int
	aliasID        map[string]int
	chainID        map[string]int
	hrpID          map[string]int
	resv           []int // aliases of external chain 101 in the params

	trace []string // reset line + state-changing op lines of the current trace
	kinds []string // op-kind/outcome sequence of the current trace
	nontr bool

	// the monitors' own shadow of the sell orders (c17_monitors_test.go: monitorOrders), kept from the
	// op lines: who placed the open order of an asset, and in which ownership period of that asset
	placed     map[string]c17placed // "n<i>" / "l<i>" -> placement
	epoch      map[string]int       // "n<i>" / "l<i>" -> number of ownership changes seen so far
	unexpected []string             // outcomes of directed-trace lines that differ from what the script expects (statistics)
	boEpoch    map[string]int       // buy-order id -> ownership period of its asset when the offer was made (statistics only)
}

func (h *c17h) ctx() sdk.Context { return h.f.Ctx }

func (h *c17h) modAddr() sdk.AccAddress { return authtypes.NewModuleAddress(dymnstypes.ModuleName) }

func (h *c17h) bal(a sdk.AccAddress) math.Int {
	return h.f.App.BankKeeper.GetBalance(h.ctx(), a, c17Denom).Amount
}

func (h *c17h) decodeAddr(text string) string {
	hrp, bz, err := bech32.DecodeAndConvert(text)
	if err != nil {
		return "?" + text
	}
	hi, ok := h.hrpID[hrp]
	ai, ok2 := h.acctID[sdk.AccAddress(bz).String()]
	if !ok || !ok2 {
		return "?" + text
	}
	return fmt.Sprintf("%d:%d", hi, ai)
}

func (h *c17h) params() dymnstypes.Params { return h.k.GetParams(h.ctx()) }

func (h *c17h) chainsParams() dymnstypes.ChainsParams {
	cp := dymnstypes.ChainsParams{AliasesOfChainIds: []dymnstypes.AliasesOfChainId{
		{ChainId: c17Chain(0), Aliases: []string{c17Alias(1000)}},
		{ChainId: c17Chain(100), Aliases: []string{c17Alias(1001)}},
	}}
	var ls []string
	for _, l := range h.resv {
		ls = append(ls, c17Alias(l))
	}
	cp.AliasesOfChainIds = append(cp.AliasesOfChainIds, dymnstypes.AliasesOfChainId{ChainId: c17Chain(101), Aliases: ls})
	return cp
}

func c17atoi(s string) int {
	v, err := strconv.Atoi(s)
	if err != nil {
		panic("bad int " + s)
	}
	return v
}

func bigs(s string) []math.Int {
	var out []math.Int
	for _, x := range strings.Split(s, ",") {
		i, ok := math.NewIntFromString(x)
		if !ok {
			panic("bad int list " + s)
		}
		out = append(out, i)
	}
	return out
}

// reset starts a fresh trace on a branch of the base state.
func (h *c17h) reset(f []string) string {
	if h.f0 != nil {
		h.f.Restore(*h.f0)
	}
	h.f.Ctx = h.base
	cctx, _ := h.base.CacheContext()
	h.f.Ctx = cctx.WithGasMeter(storetypes.NewInfiniteGasMeter())
	h.nA, h.nN, h.nL, h.nR = c17atoi(f[1]), c17atoi(f[2]), c17atoi(f[3]), c17atoi(f[4])
	h.acctID, h.nameID, h.aliasID, h.chainID, h.hrpID = map[string]int{}, map[string]int{}, map[string]int{}, map[string]int{}, map[string]int{}
	for i := 0; i < h.nA; i++ {
		h.acctID[c17Acct(i)] = i
	}
	for i := 0; i < h.nN; i++ {
		h.nameID[c17Name(i)] = i
	}
	for i := 0; i < h.nL; i++ {
		h.aliasID[c17Alias(i)] = i
	}
	for _, l := range []int{1000, 1001, 1002, 1003} {
		h.aliasID[c17Alias(l)] = l
	}
	for _, c := range []int{0, 100, 101, 102, 103} {
		h.chainID[c17Chain(c)] = c
	}
	h.hrpID[c17Hrp(0)], h.hrpID[c17Hrp(100)] = 0, 100
	for c := 1; c <= h.nR; c++ {
		h.chainID[c17Chain(c)] = c
		h.hrpID[c17Hrp(c)] = c
	}
	h.resv = nil
	now, _ := strconv.ParseInt(f[12], 10, 64)
	h.f.Ctx = h.f.Ctx.WithBlockTime(time.Unix(now, 0).UTC())
	p := dymnstypes.Params{
		Price: dymnstypes.PriceParams{
			NamePriceSteps: bigs(f[10]), AliasPriceSteps: bigs(f[11]), PriceExtends: bigs(f[9])[0],
			PriceDenom: c17Denom, MinOfferPrice: bigs(f[7])[0], MinBidIncrementPercent: uint32(c17atoi(f[8])),
		},
		Chains: h.chainsParams(),
		Misc: dymnstypes.MiscParams{
			EndEpochHookIdentifier: "hour",
			GracePeriodDuration:    time.Duration(c17atoi(f[5])) * time.Second,
			SellOrderDuration:      time.Duration(c17atoi(f[6])) * time.Second,
			EnableTradingName:      f[13] == "1", EnableTradingAlias: f[14] == "1",
		},
	}
	if err := h.k.SetParams(h.ctx(), p); err != nil {
		panic(err)
	}
	return "ok"
}

// ---- executor ---------------------------------------------------------------------------------

func (h *c17h) assetType(t string) dymnstypes.AssetType {
	if t == "l" {
		return dymnstypes.TypeAlias
	}
	return dymnstypes.TypeName
}

func (h *c17h) assetText(t, id string) string {
	if t == "l" {
		return c17Alias(c17atoi(id))
	}
	return c17Name(c17atoi(id))
}

// msgOf parses a message op line into the real message (nil for non-message ops).
func (h *c17h) msgOf(f []string) sdk.Msg {
	a := func(i int) string { return c17Acct(c17atoi(f[i])) }
	switch f[0] {
	case "reg":
		return &dymnstypes.MsgRegisterName{Name: c17Name(c17atoi(f[2])), Duration: int64(c17atoi(f[3])), Owner: a(1), ConfirmPayment: c17Coin(f[4]), Contact: c17Contact(c17atoi(f[5]))}
	case "xfer":
		return &dymnstypes.MsgTransferDymNameOwnership{Name: c17Name(c17atoi(f[2])), Owner: a(1), NewOwner: a(3)}
	case "ctrl":
		return &dymnstypes.MsgSetController{Name: c17Name(c17atoi(f[2])), Owner: a(1), Controller: a(3)}
	case "ura":
		chain := c17Chain(c17atoi(f[3]))
		if c17atoi(f[3]) == 0 && f[4] == "1" {
			chain = ""
		}
		val := ""
		if f[6] != "-" {
			hp := strings.Split(f[6], ":")
			val = c17AddrText(c17atoi(hp[0]), c17atoi(hp[1]))
		}
		return &dymnstypes.MsgUpdateResolveAddress{Name: c17Name(c17atoi(f[2])), Controller: a(1), ChainId: chain, SubName: c17Paths[c17atoi(f[5])], ResolveTo: val}
	case "det":
		contact := dymnstypes.DoNotModifyDesc
		if f[3] != "keep" {
			contact = c17Contact(c17atoi(f[3][1:]))
		}
		return &dymnstypes.MsgUpdateDetails{Name: c17Name(c17atoi(f[2])), Controller: a(1), Contact: contact, ClearConfigs: f[4] == "1"}
	case "sell":
		m := &dymnstypes.MsgPlaceSellOrder{AssetId: h.assetText(f[2], f[3]), AssetType: h.assetType(f[2]), Owner: a(1), MinPrice: c17Coin(f[4])}
		if f[5] != "0" {
			c := c17Coin(f[5])
			m.SellPrice = &c
		}
		return m
	case "csell":
		return &dymnstypes.MsgCancelSellOrder{AssetId: h.assetText(f[2], f[3]), AssetType: h.assetType(f[2]), Owner: a(1)}
	case "comp":
		return &dymnstypes.MsgCompleteSellOrder{AssetId: h.assetText(f[2], f[3]), AssetType: h.assetType(f[2]), Participant: a(1)}
	case "buy":
		m := &dymnstypes.MsgPurchaseOrder{AssetId: h.assetText(f[2], f[3]), AssetType: h.assetType(f[2]), Buyer: a(1), Offer: c17Coin(f[4])}
		if f[2] == "l" {
			m.Params = []string{c17Chain(c17atoi(f[5]))}
		}
		return m
	case "offer":
		m := &dymnstypes.MsgPlaceBuyOrder{AssetId: h.assetText(f[2], f[3]), AssetType: h.assetType(f[2]), Buyer: a(1), Offer: c17Coin(f[4])}
		if f[5] != "-" {
			m.ContinueOrderId = f[5]
		}
		if f[2] == "l" {
			m.Params = []string{c17Chain(c17atoi(f[6]))}
		}
		return m
	case "cbo":
		return &dymnstypes.MsgCancelBuyOrder{OrderId: f[2], Buyer: a(1)}
	case "abo":
		return &dymnstypes.MsgAcceptBuyOrder{OrderId: f[2], Owner: a(1), MinAccept: c17Coin(f[3])}
	case "rollapp":
		c := c17atoi(f[2])
		pfx := ""
		if c17atoi(f[3]) != 0 {
			pfx = c17Hrp(c17atoi(f[3]))
		}
		return &rollapptypes.MsgCreateRollapp{
			Creator: a(1), RollappId: c17Chain(c), InitialSequencer: "*", MinSequencerBond: rollapptypes.DefaultMinSequencerBondGlobalCoin,
			Alias: c17Alias(c17atoi(f[4])), VmType: rollapptypes.Rollapp_EVM,
			GenesisInfo: &rollapptypes.GenesisInfo{Bech32Prefix: pfx, GenesisChecksum: "1234567890abcdefg", InitialSupply: math.NewInt(1000),
				NativeDenom: rollapptypes.DenomMetadata{Display: "DEN", Base: "aden", Exponent: 18}},
			Metadata: &rollapptypes.RollappMetadata{Website: "https://dymension.xyz", Description: "d", LogoUrl: "https://dymension.xyz/logo.png", Telegram: "https://t.me/rolly", X: "https://x.dymension.xyz"},
		}
	case "xferra":
		return &rollapptypes.MsgTransferOwnership{CurrentOwner: a(1), RollappId: c17Chain(c17atoi(f[2])), NewOwner: a(3)}
	case "alias":
		return &dymnstypes.MsgRegisterAlias{Alias: c17Alias(c17atoi(f[3])), RollappId: c17Chain(c17atoi(f[2])), Owner: a(1), ConfirmPayment: c17Coin(f[4])}
	}
	return nil
}

// ---- snapshot of the real state (used by the view, the generator and the monitors) ---------------

type c17snap struct {
	now    int64
	names  map[int]dymnstypes.DymName
	nameSO map[int]dymnstypes.SellOrder
	alSO   map[int]dymnstypes.SellOrder
	bos    map[string]dymnstypes.BuyOrder
	bal    []math.Int
	mod    math.Int
	alias  map[int]int // alias -> chain
	rolls  map[int]rollapptypes.Rollapp
}

func (h *c17h) snap() *c17snap {
	s := &c17snap{now: h.ctx().BlockTime().Unix(), names: map[int]dymnstypes.DymName{}, nameSO: map[int]dymnstypes.SellOrder{}, alSO: map[int]dymnstypes.SellOrder{},
		bos: map[string]dymnstypes.BuyOrder{}, alias: map[int]int{}, rolls: map[int]rollapptypes.Rollapp{}}
	for i := 0; i < h.nN; i++ {
		if d := h.k.GetDymName(h.ctx(), c17Name(i)); d != nil {
			s.names[i] = *d
		}
		if so := h.k.GetSellOrder(h.ctx(), c17Name(i), dymnstypes.TypeName); so != nil {
			s.nameSO[i] = *so
		}
	}
	for i := 0; i < h.nL; i++ {
		if so := h.k.GetSellOrder(h.ctx(), c17Alias(i), dymnstypes.TypeAlias); so != nil {
			s.alSO[i] = *so
		}
		if r, ok := h.k.GetRollAppIdByAlias(h.ctx(), c17Alias(i)); ok {
			s.alias[i] = h.chainID[r]
		}
	}
	for _, bo := range h.k.GetAllBuyOrders(h.ctx()) {
		s.bos[bo.Id] = bo
	}
	for i := 0; i < h.nA; i++ {
		s.bal = append(s.bal, h.bal(Actor(i)))
	}
	s.mod = h.bal(h.modAddr())
	for c := 1; c <= h.nR; c++ {
		if r, ok := h.f.App.RollappKeeper.GetRollapp(h.ctx(), c17Chain(c)); ok {
			s.rolls[c] = r
		}
	}
	return s
}

func (h *c17h) ids(names []string, m map[string]int) string {
	var out []string
	for _, n := range names {
		if id, ok := m[n]; ok {
			out = append(out, strconv.Itoa(id))
		} else {
			out = append(out, "?"+n)
		}
	}
	sort.Slice(out, func(i, j int) bool {
		a, e1 := strconv.Atoi(out[i])
		b, e2 := strconv.Atoi(out[j])
		if e1 == nil && e2 == nil {
			return a < b
		}
		return out[i] < out[j]
	})
	if len(out) == 0 {
		return "-"
	}
	return strings.Join(out, ",")
}

func (h *c17h) acct(s string) string {
	if id, ok := h.acctID[s]; ok {
		return strconv.Itoa(id)
	}
	return "?" + s
}

func (h *c17h) cfgChain(c string) string {
	if c == "" {
		return "0"
	}
	if id, ok := h.chainID[c]; ok {
		return strconv.Itoa(id)
	}
	return "?" + c
}

// cfgStored: the model's id of a chain-id as a config stores it: "" is 0 (the host chain), the host
// chain-id written out literally is c17HostLit
func (h *c17h) cfgStored(c string) string {
	if c == c17Chain(0) {
		return strconv.Itoa(c17HostLit)
	}
	return h.cfgChain(c)
}

func (h *c17h) pathID(p string) string {
	for i, x := range c17Paths {
		if x == p {
			return strconv.Itoa(i)
		}
	}
	return "?" + p
}

func (h *c17h) contactID(c string) string {
	if c == "" {
		return "0"
	}
	return strings.TrimPrefix(c, "contact-")
}

func (h *c17h) soText(so dymnstypes.SellOrder, alias bool) string {
	sell := "0"
	if so.HasSetSellPrice() {
		sell = so.SellPrice.Amount.String()
	}
	bid := "-"
	if so.HighestBid != nil {
		bid = h.acct(so.HighestBid.Bidder) + "/" + so.HighestBid.Price.Amount.String()
		if alias {
			bid += "/" + h.cfgChain(so.HighestBid.Params[0])
		}
	}
	return fmt.Sprintf("%d,%s,%s,%s", so.ExpireAt, so.MinPrice.Amount, sell, bid)
}

// view renders the whole (probe-set) state canonically.
func (h *c17h) view() string {
	s := h.snap()
	ctx := h.ctx()
	var b strings.Builder
	p := h.params()
	fmt.Fprintf(&b, "t=%d tr=%v/%v m=%s b=", s.now, p.Misc.EnableTradingName, p.Misc.EnableTradingAlias, s.mod)
	for i, x := range s.bal {
		if i > 0 {
			b.WriteByte(',')
		}
		b.WriteString(x.String())
	}
	for i := 0; i < h.nN; i++ {
		d, ok := s.names[i]
		if !ok {
			continue
		}
		var cf []string
		for _, c := range d.Configs {
			cf = append(cf, fmt.Sprintf("%s.%s=%s", h.cfgStored(c.ChainId), h.pathID(c.Path), h.decodeAddr(c.Value)))
		}
		cfs := "-"
		if len(cf) > 0 {
			cfs = strings.Join(cf, "+")
		}
		fmt.Fprintf(&b, " n%d:%s,%s,%d,%s,%s", i, h.acct(d.Owner), h.acct(d.Controller), d.ExpireAt, h.contactID(d.Contact), cfs)
	}
	for i := 0; i < h.nA; i++ {
		l := h.k.GenericGetReverseLookupDymNamesRecord(ctx, dymnstypes.DymNamesOwnedByAccountRvlKey(Actor(i))).DymNames
		if len(l) > 0 {
			fmt.Fprintf(&b, " o%d:%s", i, h.ids(l, h.nameID))
		}
	}
	hrps := []int{0}
	for c := 1; c <= h.nR; c++ {
		hrps = append(hrps, c)
	}
	hrps = append(hrps, 100)
	for _, hp := range hrps {
		for i := 0; i < h.nA; i++ {
			l := h.k.GenericGetReverseLookupDymNamesRecord(ctx, dymnstypes.ConfiguredAddressToDymNamesIncludeRvlKey(c17AddrText(hp, i))).DymNames
			if len(l) > 0 {
				fmt.Fprintf(&b, " x%d:%d:%s", hp, i, h.ids(l, h.nameID))
			}
		}
	}
	for i := 0; i < h.nA; i++ {
		l := h.k.GenericGetReverseLookupDymNamesRecord(ctx, dymnstypes.FallbackAddressToDymNamesIncludeRvlKey(dymnstypes.FallbackAddress(Actor(i)))).DymNames
		if len(l) > 0 {
			fmt.Fprintf(&b, " f%d:%s", i, h.ids(l, h.nameID))
		}
	}
	for i := 0; i < h.nN; i++ {
		if so, ok := s.nameSO[i]; ok {
			fmt.Fprintf(&b, " sn%d:%s", i, h.soText(so, false))
		}
	}
	for i := 0; i < h.nL; i++ {
		if so, ok := s.alSO[i]; ok {
			fmt.Fprintf(&b, " sl%d:%s", i, h.soText(so, true))
		}
	}
	cnt := h.k.GetCountBuyOrders(ctx)
	fmt.Fprintf(&b, " bc=%d", cnt)
	for i := uint64(1); i <= cnt; i++ {
		for _, pfx := range []string{"10", "20"} {
			bo, ok := s.bos[pfx+strconv.FormatUint(i, 10)]
			if !ok {
				continue
			}
			asset, dst := "", "0"
			if bo.AssetType == dymnstypes.TypeAlias {
				asset = "l" + h.ids([]string{bo.AssetId}, h.aliasID)
				dst = h.cfgChain(bo.Params[0])
			} else {
				asset = "n" + h.ids([]string{bo.AssetId}, h.nameID)
			}
			cp := "0"
			if bo.HasCounterpartyOfferPrice() {
				cp = bo.CounterpartyOfferPrice.Amount.String()
			}
			fmt.Fprintf(&b, " b%s:%s,%s,%s,%s,%s", bo.Id, asset, dst, h.acct(bo.Buyer), bo.OfferPrice.Amount, cp)
		}
	}
	boIdx := func(tag string, i int, key []byte) {
		l := h.k.GenericGetReverseLookupBuyOrderIdsRecord(ctx, key).OrderIds
		if len(l) > 0 {
			sort.Strings(l)
			fmt.Fprintf(&b, " %s%d:%s", tag, i, strings.Join(l, ","))
		}
	}
	for i := 0; i < h.nA; i++ {
		boIdx("ib", i, dymnstypes.BuyerToOrderIdsRvlKey(Actor(i)))
	}
	for i := 0; i < h.nN; i++ {
		boIdx("in", i, dymnstypes.DymNameToBuyOrderIdsRvlKey(c17Name(i)))
	}
	for i := 0; i < h.nL; i++ {
		boIdx("il", i, dymnstypes.AliasToBuyOrderIdsRvlKey(c17Alias(i)))
	}
	for c := 1; c <= h.nR; c++ {
		r, ok := s.rolls[c]
		if !ok {
			continue
		}
		hp := "0"
		if r.GenesisInfo.Bech32Prefix != "" {
			hp = strconv.Itoa(h.hrpID[r.GenesisInfo.Bech32Prefix])
		}
		var al []string
		for _, x := range h.k.GetAliasesOfRollAppId(ctx, c17Chain(c)) {
			al = append(al, strconv.Itoa(h.aliasID[x]))
		}
		als := "-"
		if len(al) > 0 {
			als = strings.Join(al, ",")
		}
		fmt.Fprintf(&b, " r%d:%s,%s,%s", c, h.acct(r.Owner), hp, als)
	}
	for i := 0; i < h.nL; i++ {
		if c, ok := s.alias[i]; ok {
			fmt.Fprintf(&b, " l%d:%d", i, c)
		}
	}
	fmt.Fprintf(&b, " pp=%d,%d,%s,%d ca=", int64(p.Misc.GracePeriodDuration.Seconds()), int64(p.Misc.SellOrderDuration.Seconds()),
		p.Price.MinOfferPrice, p.Price.MinBidIncrementPercent)
	for i, r := range p.Chains.AliasesOfChainIds {
		if i > 0 {
			b.WriteByte(';')
		}
		var al []string
		for _, x := range r.Aliases {
			if id, ok := h.aliasID[x]; ok {
				al = append(al, strconv.Itoa(id))
			} else {
				al = append(al, "?"+x)
			}
		}
		als := "-"
		if len(al) > 0 {
			als = strings.Join(al, ",")
		}
		fmt.Fprintf(&b, "%s:%s", h.cfgChain(r.ChainId), als)
	}
	return b.String()
}

func (h *c17h) handleText(t string) string {
	if t[0] == 'l' {
		return c17Alias(c17atoi(t[1:]))
	}
	return c17Chain(c17atoi(t[1:]))
}

func (h *c17h) revCandidates(hrp, acct, wc int) ([]string, error) {
	out, err := h.k.ReverseResolveDymNameAddress(h.ctx(), c17AddrText(hrp, acct), c17Chain(wc))
	if err != nil {
		return nil, err
	}
	var toks []string
	for _, c := range out {
		hd := ""
		if id, ok := h.chainID[c.ChainIdOrAlias]; ok {
			hd = "c" + strconv.Itoa(id)
		} else if id, ok := h.aliasID[c.ChainIdOrAlias]; ok {
			hd = "l" + strconv.Itoa(id)
		} else {
			hd = "?" + c.ChainIdOrAlias
		}
		toks = append(toks, fmt.Sprintf("%s.%s@%s", h.pathID(c.SubName), h.ids([]string{c.Name}, h.nameID), hd))
	}
	sort.Strings(toks)
	return toks, nil
}

func (h *c17h) resolveTok(path, n int, handle string) string {
	text := c17Name(n) + "@" + h.handleText(handle)
	if path != 0 {
		text = c17Paths[path] + "." + text
	}
	out, err := h.k.ResolveByDymNameAddress(h.ctx(), text)
	if err != nil {
		return "-"
	}
	return h.decodeAddr(out)
}

// query executes a read-only op line.
func (h *c17h) query(f []string) string {
	ctx := h.ctx()
	boIDs := func(l []dymnstypes.BuyOrder) string {
		var ids []string
		for _, b := range l {
			ids = append(ids, b.Id)
		}
		sort.Strings(ids)
		if len(ids) == 0 {
			return "-"
		}
		return strings.Join(ids, ",")
	}
	switch f[0] {
	case "v":
		return h.view()
	case "own":
		l, err := h.k.GetDymNamesOwnedBy(ctx, c17Acct(c17atoi(f[1])))
		if err != nil {
			return "err"
		}
		var ns []string
		for _, d := range l {
			ns = append(ns, d.Name)
		}
		return h.ids(ns, h.nameID)
	case "res":
		return h.resolveTok(c17atoi(f[1]), c17atoi(f[2]), f[3])
	case "rev":
		hp := strings.Split(f[1], ":")
		toks, err := h.revCandidates(c17atoi(hp[0]), c17atoi(hp[1]), c17atoi(f[2]))
		if err != nil {
			return "err"
		}
		if len(toks) == 0 {
			return "-"
		}
		return strings.Join(toks, " ")
	case "bon":
		l, _ := h.k.GetBuyOrdersOfDymName(ctx, c17Name(c17atoi(f[1])))
		return boIDs(l)
	case "bol":
		l, _ := h.k.GetBuyOrdersOfAlias(ctx, c17Alias(c17atoi(f[1])))
		return boIDs(l)
	case "bob":
		l, _ := h.k.GetBuyOrdersByBuyer(ctx, c17Acct(c17atoi(f[1])))
		return boIDs(l)
	}
	return "bad-op"
}

func (h *c17h) errObs(err error) string {
	obs := ErrClass(err, c17Errs)
	if obs == "other" || obs == "panic" {
		obs += ":" + strings.ReplaceAll(strings.ReplaceAll(err.Error(), "\n", " "), "\r", " ")
		if len(obs) > 300 {
			obs = obs[:300]
		}
	}
	return obs
}

// c17Pairs parses "a>b,a>b" / "a:b,a:b" ("-" = none).
func c17Pairs(t, sep string) [][2]int {
	var out [][2]int
	if t == "-" {
		return out
	}
	for _, x := range strings.Split(t, ",") {
		ab := strings.Split(x, sep)
		out = append(out, [2]int{c17atoi(ab[0]), c17atoi(ab[1])})
	}
	return out
}

// govContent builds the real proposal content of a `mig` / `ualias` line.
func (h *c17h) govContent(f []string) govv1beta1.Content {
	if f[0] == "mig" {
		var rep []dymnstypes.MigrateChainId
		for _, p := range c17Pairs(f[1], ">") {
			rep = append(rep, dymnstypes.MigrateChainId{PreviousChainId: c17Chain(p[0]), NewChainId: c17Chain(p[1])})
		}
		return &dymnstypes.MigrateChainIdsProposal{Title: "migrate", Description: "migrate chain ids", Replacement: rep}
	}
	ua := func(t string) []dymnstypes.UpdateAlias {
		var l []dymnstypes.UpdateAlias
		for _, p := range c17Pairs(t, ":") {
			l = append(l, dymnstypes.UpdateAlias{ChainId: c17Chain(p[0]), Alias: c17Alias(p[1])})
		}
		return l
	}
	return &dymnstypes.UpdateAliasesProposal{Title: "aliases", Description: "update aliases", Add: ua(f[1]), Remove: ua(f[2])}
}

// exec executes one op line on the real code and returns its canonical observation.
func (h *c17h) exec(line string) string {
	f := strings.Fields(line)
	switch f[0] {
	case "reset":
		h.trace = []string{line}
		h.kinds = nil
		h.nontr = false
		h.placed, h.epoch, h.boEpoch = map[string]c17placed{}, map[string]int{}, map[string]int{}
		return h.reset(f)
	case "v", "own", "res", "rev", "bon", "bol", "bob":
		obs := h.query(f)
		h.monitorQuery(f, obs, line)
		return obs
	}
	h.trace = append(h.trace, line)
	pre := h.snap()
	preDigest := h.f.StoreDigest(dymnstypes.StoreKey)
	obs := "ok"
	switch f[0] {
	case "fund":
		h.f.Fund(Actor(c17atoi(f[1])), c17Coin(f[2]))
	case "adv":
		dt, _ := strconv.ParseInt(f[1], 10, 64)
		h.f.Ctx = h.f.Ctx.WithBlockTime(h.f.Ctx.BlockTime().Add(time.Duration(dt) * time.Second)).WithBlockHeight(h.f.Ctx.BlockHeight() + 1)
	case "trade", "resv":
		// governance parameter change through the real message
		msg := &dymnstypes.MsgUpdateParams{Authority: authtypes.NewModuleAddress(govtypes.ModuleName).String()}
		if f[0] == "trade" {
			mp := h.params().Misc
			mp.EnableTradingName, mp.EnableTradingAlias = f[1] == "1", f[2] == "1"
			msg.NewMiscParams = &mp
		} else {
			h.resv = nil
			if f[1] != "-" {
				for _, x := range strings.Split(f[1], ",") {
					h.resv = append(h.resv, c17atoi(x))
				}
			}
			cp := h.chainsParams()
			msg.NewChainsParams = &cp
		}
		if _, err := h.f.Deliver(msg); err != nil {
			h.r.T.Fatalf("param update failed: %v", err)
		}
	case "mig", "ualias":
		// the real proposal handler of x/dymns, inside a cache context written only on success (what
		// the gov module's MsgExecLegacyContent does with a passed proposal)
		content := h.govContent(f)
		handler := dymnsmodule.NewDymNsProposalHandler(h.k)
		err := h.f.Try(func(ctx sdk.Context) error { return handler(ctx, content) })
		obs = h.errObs(err)
	case "setp":
		pp, mp := h.params().Price, h.params().Misc
		pp.MinOfferPrice = bigs(f[3])[0]
		pp.MinBidIncrementPercent = uint32(c17atoi(f[4]))
		mp.GracePeriodDuration = time.Duration(c17atoi(f[1])) * time.Second
		mp.SellOrderDuration = time.Duration(c17atoi(f[2])) * time.Second
		_, err := h.f.Deliver(&dymnstypes.MsgUpdateParams{Authority: authtypes.NewModuleAddress(govtypes.ModuleName).String(), NewPriceParams: &pp, NewMiscParams: &mp})
		obs = h.errObs(err)
	default:
		msg := h.msgOf(f)
		if msg == nil {
			return "bad-op"
		}
		_, err := h.f.Deliver(msg)
		obs = ErrClass(err, c17Errs)
		if obs == "other" || obs == "panic" {
			obs += ":" + strings.ReplaceAll(strings.ReplaceAll(err.Error(), "\n", " "), "\r", " ")
			if len(obs) > 300 {
				obs = obs[:300]
			}
		}
	}
	h.kinds = append(h.kinds, f[0]+"/"+strings.SplitN(obs, ":", 2)[0])
	if obs == "ok" && f[0] != "fund" && f[0] != "adv" {
		h.nontr = true
	}
	h.monitorOp(f, obs, pre, preDigest)
	return obs
}
