package harness

// C20 — ante ROUTES: `app.AnteHandler()` = app/ante.NewAnteHandler picks the decorator chain by the
// tx's first extension option.  The trees of the nesting part are run again with every kind of
// extension option (none, the ethereum one, two unsupported ones, a non-critical one) in DeliverTx,
// CheckTx and ReCheckTx mode and compared with M-Ante's `runAnte` over the regenerated route table.
//
//   xo  <alias> <critical type URL|-> <non-critical type URL|->      header: a set of extension options
//   rtx <alias|-> <mode:d|c|r> <k> T1 … Tk                           -> the `tx` observations
//                                                                     | rej noteth | rej unknown-ext
//
// On the ethereum route the raw EVM message (alias X) is a properly signed legacy transfer of a
// funded account with the matching fee and gas limit, so that a transaction consisting of it alone
// passes the WHOLE chain (branch route/eth/whole-chain-ok): every rejection of a mixed transaction
// is then caused by the other message.

import (
	"crypto/sha256"
	"errors"
	"fmt"
	"math/big"
	"strings"

	"cosmossdk.io/math"
	storetypes "cosmossdk.io/store/types"
	codectypes "github.com/cosmos/cosmos-sdk/codec/types"
	cryptotypes "github.com/cosmos/cosmos-sdk/crypto/types"
	sdk "github.com/cosmos/cosmos-sdk/types"
	sdkerrors "github.com/cosmos/cosmos-sdk/types/errors"
	"github.com/cosmos/cosmos-sdk/types/tx/signing"
	authtx "github.com/cosmos/cosmos-sdk/x/auth/tx"
	"github.com/ethereum/go-ethereum/common"
	ethtypes "github.com/ethereum/go-ethereum/core/types"
	"github.com/evmos/ethermint/crypto/ethsecp256k1"
	ethermint "github.com/evmos/ethermint/types"
	evmtypes "github.com/evmos/ethermint/x/evm/types"
)

type c20Xo struct {
	alias string
	crit  string // type URL of the critical extension option ("" = none)
	nc    string // type URL of the non-critical one
	route string // what the property text expects: cosmos | eth | unknown
}

var c20Xos = []c20Xo{
	{alias: "eth", crit: "/ethermint.evm.v1.ExtensionOptionsEthereumTx", route: "eth"},
	{alias: "web3", crit: "/ethermint.types.v1.ExtensionOptionsWeb3Tx", route: "unknown"},
	{alias: "dyn", crit: "/ethermint.types.v1.ExtensionOptionDynamicFeeTx", route: "unknown"},
	{alias: "nc", nc: "/ethermint.types.v1.ExtensionOptionDynamicFeeTx", route: "cosmos"},
}

func c20XoLines() []string {
	var out []string
	dash := func(s string) string {
		if s == "" {
			return "-"
		}
		return s
	}
	for _, x := range c20Xos {
		out = append(out, fmt.Sprintf("xo %s %s %s", x.alias, dash(x.crit), dash(x.nc)))
	}
	return out
}

func c20XoAny(url string) *codectypes.Any {
	switch url {
	case "/ethermint.evm.v1.ExtensionOptionsEthereumTx":
		return mustAny(&evmtypes.ExtensionOptionsEthereumTx{})
	case "/ethermint.types.v1.ExtensionOptionsWeb3Tx":
		return mustAny(&ethermint.ExtensionOptionsWeb3Tx{TypedDataChainID: 1, FeePayer: Actor(0).String()})
	case "/ethermint.types.v1.ExtensionOptionDynamicFeeTx":
		return mustAny(&ethermint.ExtensionOptionDynamicFeeTx{MaxPriorityPrice: math.NewInt(1)})
	}
	return &codectypes.Any{TypeUrl: url}
}

// ---- a valid MsgEthereumTx ---------------------------------------------------------------------

type c20EthSigner struct{ k cryptotypes.PrivKey }

func (s c20EthSigner) Sign(_ string, msg []byte, _ signing.SignMode) ([]byte, cryptotypes.PubKey, error) {
	sig, err := s.k.Sign(msg)
	return sig, s.k.PubKey(), err
}

func (s c20EthSigner) SignByAddress(_ sdk.Address, msg []byte, m signing.SignMode) ([]byte, cryptotypes.PubKey, error) {
	return s.Sign("", msg, m)
}

const (
	c20EthGas      = 21000
	c20EthGasPrice = 100_000_000_000 // 100 gwei-like: above the fixture's base fee and min gas price
)

func c20EthKey() (*ethsecp256k1.PrivKey, common.Address) {
	h := sha256.Sum256([]byte("dymverif-c20-eth-sender"))
	k := &ethsecp256k1.PrivKey{Key: h[:]}
	return k, common.BytesToAddress(k.PubKey().Address().Bytes())
}

// ethMsg: a signed legacy transfer of 1 unit with account nonce `nonce`, `From` cleared as
// MsgEthereumTx.BuildTx does
func (h *c20Ante) ethMsg(nonce uint64) (*evmtypes.MsgEthereumTx, error) {
	k, from := c20EthKey()
	chainID := h.f.App.EvmKeeper.ChainID()
	if chainID == nil {
		return nil, fmt.Errorf("evm chain id not set")
	}
	to := common.HexToAddress("0x00000000000000000000000000000000000000a1")
	m := evmtypes.NewTx(chainID, nonce, &to, big.NewInt(1), c20EthGas, big.NewInt(c20EthGasPrice), nil, nil, nil, nil)
	m.From = from.Hex()
	if err := m.Sign(ethtypes.LatestSignerForChainID(chainID), c20EthSigner{k}); err != nil {
		return nil, err
	}
	m.From = ""
	return m, nil
}

func (h *c20Ante) evmDenom() string { return h.f.App.EvmKeeper.GetParams(h.f.Ctx).EvmDenom }

func (h *c20Ante) fundEth() {
	if h.ethFunded {
		return
	}
	h.ethFunded = true
	_, from := c20EthKey()
	h.f.Fund(sdk.AccAddress(from.Bytes()), sdk.NewCoin(h.evmDenom(), pow10(1, 30)))
}

// makeTxXo: like makeTx, with extension options; on the ethereum route X is the valid signed message
// and fee / gas limit are what EthValidateBasicDecorator demands of an eth-only transaction
func (h *c20Ante) makeTxXo(roots []*c20Node, xo *c20Xo) (sdk.Tx, error) {
	eth := xo != nil && xo.route == "eth"
	h.ethRoute = eth
	h.ethNonce = 0
	defer func() { h.ethRoute = false }()
	if eth {
		h.fundEth()
	}
	var msgs []sdk.Msg
	nEth := 0
	for _, r := range roots {
		m, err := h.build(r)
		if err != nil {
			return nil, err
		}
		if _, ok := m.(*evmtypes.MsgEthereumTx); ok {
			nEth++
		}
		msgs = append(msgs, m)
	}
	txb := h.f.App.TxConfig().NewTxBuilder()
	if err := txb.SetMsgs(msgs...); err != nil {
		return nil, err
	}
	if eth {
		txb.SetGasLimit(uint64(c20EthGas * c20max(nEth, 1)))
		txb.SetFeeAmount(sdk.NewCoins(sdk.NewCoin(h.evmDenom(), math.NewInt(c20EthGas*c20EthGasPrice).MulRaw(int64(c20max(nEth, 1))))))
	} else {
		txb.SetGasLimit(10_000_000)
		txb.SetFeeAmount(sdk.NewCoins(sdk.NewCoin("adym", math.NewInt(1_000_000_000_000_000))))
	}
	if xo != nil {
		xb, ok := txb.(authtx.ExtensionOptionsTxBuilder)
		if !ok {
			return nil, fmt.Errorf("tx builder cannot carry extension options")
		}
		if xo.crit != "" {
			xb.SetExtensionOptions(c20XoAny(xo.crit))
		}
		if xo.nc != "" {
			xb.SetNonCriticalExtensionOptions(c20XoAny(xo.nc))
		}
	}
	return txb.GetTx(), nil
}

// c20Printable keeps letters, digits and a little punctuation of the first n bytes (branch names
// must not carry raw address bytes)
func c20Printable(s string, n int) string {
	var b strings.Builder
	for _, c := range s {
		if b.Len() >= n {
			break
		}
		switch {
		case c >= 'a' && c <= 'z', c >= 'A' && c <= 'Z', c >= '0' && c <= '9', strings.ContainsRune(" ,.:()<>!=_-/", c):
			b.WriteRune(c)
		}
	}
	return b.String()
}

func c20max(a, b int) int {
	if a > b {
		return a
	}
	return b
}

// runAnteMode: the real ante handler in DeliverTx (d), CheckTx (c) or ReCheckTx (r) mode on a
// discarded branch; classification of the error by ROUTE-level causes first, then as runAnte
func (h *c20Ante) runAnteMode(tx sdk.Tx, mode string) (obs string, later error) {
	saved := h.f.Ctx
	// what baseapp provides at delivery: a block gas meter (the eth chain reads the block gas limit from it)
	h.f.Ctx = saved.WithBlockGasMeter(storetypes.NewGasMeter(50_000_000))
	switch mode {
	case "c":
		h.f.Ctx = h.f.Ctx.WithIsCheckTx(true)
	case "r":
		h.f.Ctx = h.f.Ctx.WithIsCheckTx(true).WithIsReCheckTx(true)
	}
	defer func() { h.f.Ctx = saved }()
	obs, later = h.runAnte(tx)
	if later != nil {
		msg := later.Error()
		switch {
		case errors.Is(later, sdkerrors.ErrUnknownExtensionOptions) && strings.Contains(msg, "rejecting tx with unsupported extension option"):
			return "rej unknown-ext", nil
		case errors.Is(later, sdkerrors.ErrUnknownRequest) && strings.Contains(msg, "invalid message type") && strings.Contains(msg, "MsgEthereumTx"):
			return "rej noteth", nil
		}
	}
	return obs, later
}

func (s *c20State) execRtx(line string, f []string) string {
	r, h := s.r, s.ante
	if len(f) < 4 {
		return "bad-op"
	}
	var xo *c20Xo
	if f[1] != "-" {
		for i := range c20Xos {
			if c20Xos[i].alias == f[1] {
				xo = &c20Xos[i]
			}
		}
		if xo == nil {
			return "bad-op"
		}
	}
	mode := f[2]
	if mode != "d" && mode != "c" && mode != "r" {
		return "bad-op"
	}
	var n int
	if _, err := fmt.Sscanf(f[3], "%d", &n); err != nil || n < 1 {
		return "bad-op"
	}
	roots, rest, err := c20ParseNodes(f[4:], n)
	if err != nil || len(rest) != 0 {
		return "bad-op"
	}
	tx, err := h.makeTxXo(roots, xo)
	if err != nil {
		return "bad-op"
	}
	obs, later := h.runAnteMode(tx, mode)
	route := "cosmos"
	if xo != nil {
		route = xo.route
	}
	tag := "route/" + route + "/" + mode
	if later != nil {
		r.Hit(tag + "/passed-type-gating-then-later-error")
		c20dbg("rtx later error: %v", later)
		r.Hit("route/" + route + "/later-error/" + c20Printable(later.Error(), 56))
	} else if obs == "ok" {
		r.Hit(tag + "/whole-chain-ok")
		r.Hit("route/" + route + "/whole-chain-ok")
	}
	replay := append(append([]string{}, s.hdr...), line)
	rejected := obs != "ok"
	// ---- monitors (property text): what must never get through, by route
	via := f[1]
	if via == "-" {
		via = "plain"
	}
	via += "-" + map[string]string{"d": "deliver", "c": "check", "r": "recheck"}[mode]
	forbidden := h.forbiddenOn(roots, route)
	if len(forbidden) > 0 {
		r.Hit(tag + "/carries-forbidden")
		if !rejected {
			for _, ty := range forbidden {
				r.Violate("C20/disabled/"+ty+"/accepted-via-"+via, "a transaction carrying "+ty+" passed the message-type gating of the "+route+" route", replay...)
			}
		}
	}
	if route == "unknown" && !rejected {
		r.Violate("C20/route/unsupported-extension-option/accepted-via-"+via, "a transaction with an unsupported extension option reached an ante chain", replay...)
	}
	if route == "eth" && !rejected {
		for _, rt := range roots {
			if rt.ty != "X" {
				r.Violate("C20/route/non-evm-message/accepted-via-"+via, "a message that is not a MsgEthereumTx ("+rt.ty+") passed the ethereum route", replay...)
				break
			}
		}
	}
	if len(forbidden) == 0 && route != "unknown" {
		if rejected {
			r.Hit(tag + "/nothing-forbidden/rejected")
		} else {
			r.Hit(tag + "/nothing-forbidden/accepted")
		}
	}
	r.Hit("route/obs/" + route + "/" + strings.Join(strings.Fields(obs)[:c20min(2, len(strings.Fields(obs)))], "-"))
	r.Class("rtx/"+c20Hash(line), true)
	s.seq = append(s.seq, "rtx:"+obs)
	s.nontr = true
	return obs
}

// forbiddenOn: the Go type names of what the property forbids in this tree on this route — a
// disabled type at or below its threshold depth, a grant naming one, anything at all below the
// nesting limit; on the ethereum route the raw EVM message itself is the one legitimate content
// (top level only)
func (h *c20Ante) forbiddenOn(roots []*c20Node, route string) []string {
	seen := map[string]bool{}
	var out []string
	add := func(a string) {
		n := h.goName[a]
		n = n[strings.LastIndex(n, ".")+1:]
		if !seen[n] {
			seen[n] = true
			out = append(out, n)
		}
	}
	var walk func(n *c20Node, depth int)
	walk = func(n *c20Node, depth int) {
		k := h.kinds[n.ty]
		if k.disabled >= 0 && depth >= k.disabled && !(route == "eth" && n.ty == "X" && depth == 0) {
			add(n.ty)
		}
		if k.grant && n.auth != "-" && n.auth != "Z" {
			if ak := h.kinds[n.auth]; ak.disabled == 0 || (ak.disabled > 0 && depth >= 1) {
				add(n.auth)
			}
		}
		if k.wrapper {
			for _, c := range n.kids {
				walk(c, depth+1)
			}
		}
	}
	for _, r := range roots {
		walk(r, 0)
	}
	return out
}

// ---- generator ---------------------------------------------------------------------------------

func c20RouteTraces(s *c20State, run func(string) string, start func()) {
	r := s.r
	leafs := []*c20Node{leaf("X"), leaf("U"), leaf("M"), leaf("V1"), leaf("V2"), leaf("V3"), leaf("S"),
		grantOf("U"), grantOf("M"), grantOf("V1"), grantOf("X"), grantOf("S")}
	aliases := []string{"-"}
	for _, x := range c20Xos {
		aliases = append(aliases, x.alias)
	}
	for _, xa := range aliases {
		for _, mode := range []string{"d", "c", "r"} {
			start()
			emit := func(roots []*c20Node) {
				run("rtx " + xa + " " + mode + strings.TrimPrefix(c20TxLine(roots), "tx"))
			}
			// every leaf unwrapped and under every wrapper chain of length 1 and 2
			for d := 0; d <= 2; d++ {
				c20Chains(d, leafs, emit)
			}
			// next to a valid raw EVM message, before and after it; two EVM messages; a benign pair
			for _, l := range leafs {
				cp1, cp2 := *l, *l
				emit([]*c20Node{leaf("X"), &cp1})
				emit([]*c20Node{&cp2, leaf("X")})
			}
			emit([]*c20Node{leaf("X"), wrap("E", leaf("V1"))})
			emit([]*c20Node{leaf("X"), wrap("G", wrap("E", leaf("U")))})
			emit([]*c20Node{leaf("S"), leaf("D")})
			// seeded random trees
			for i := 0; i < r.N(120, 1500); i++ {
				emit(c20RandomTx(r.Rng))
			}
		}
	}
}
