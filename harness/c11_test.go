package harness

// TestC11 — block processing never fails, whatever users have put on chain.
// Every package harness runs its blocks through Fix.Begin / Fix.End (the application's real
// BeginBlocker / EndBlocker with every module and the epochs hooks); fixture.go reports each error
// or recovered panic of either to the Run as a `C11/<begin|end>-block/<class>` violation.  TestC11
// runs the M-Core generator itself (focus C11: many blocks, injected per-item finalization failures,
// notice periods elapsing, liveness events firing; the Lean driver replays the same ops, `blockfail`
// is part of the compared result) and then every other package's generator as a child process,
// adopting their C11 violations.

import (
	"os"
	"strings"
	"testing"
)

var c11Pkgs = []c12Pkg{
	{"TestC11Faults", nil},
	{"TestC13", []string{"VERIF_SCALE=0.15"}},
	{"TestC14", []string{"VERIF_SCALE=0.15"}},
	{"TestC15", []string{"VERIF_SCALE=0.25"}},
	{"TestC16", []string{"VERIF_SCALE=0.1"}},
	{"TestC17", []string{"VERIF_SCALE=0.1"}},
	{"TestPackets", []string{"VERIF_SCALE=0.6"}},
	{"TestC20", []string{"VERIF_SCALE=0.2"}},
	{"TestC09", []string{"VERIF_SCALE=0.5"}},
	{"TestC10", []string{"VERIF_SCALE=0.5"}},
}

func TestC11(t *testing.T) {
	os.Setenv("CORE_FOCUS", "C11")
	if lines := ReplayLines(); len(lines) > 0 && strings.HasPrefix(lines[0], "pkg ") {
		r := NewRun(t, "C11")
		defer r.Close()
		metaChild(r, "C11", nil, c11Pkgs, strings.Fields(lines[0])[1], lines[1:], 0)
		return
	}
	if os.Getenv("VERIF_REPLAY") == "" {
		corePost = func(r *Run) {
			for i, pk := range c11Pkgs {
				metaChild(r, "C11", nil, c11Pkgs, pk.Test, nil, r.Seed*37+uint64(i))
			}
		}
		defer func() { corePost = nil }()
	}
	runCore(t, "C11")
}
