package harness

import (
	"fmt"
	"os"
)

func c20dbg(format string, a ...any) {
	if os.Getenv("VERIF_DEBUG") != "" {
		fmt.Fprintf(os.Stderr, format+"\n", a...)
	}
}
