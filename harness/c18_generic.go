package harness

// Generic part of C18 for every package harness: at the end of a trace the application the trace ran
// on is exported (all modules), a fresh application is initialised from the export through the
// production InitChainer, and the two are compared: import must succeed, the custom modules' second
// export must equal the first, every registered invariant that held before must hold after, the
// supply of every denom must be equal, and the keeper-level query dumps below (indexes that are not
// part of any genesis state) must agree.

import (
	"fmt"
	"os"
	"path/filepath"
	"sort"
	"strings"

	sdk "github.com/cosmos/cosmos-sdk/types"

	commontypes "github.com/dymensionxyz/dymension/v3/x/common/types"
	datypes "github.com/dymensionxyz/dymension/v3/x/delayedack/types"
)

// c18Dump renders module state that is reachable through queries but lives in indexes outside the
// genesis state (so a re-export cannot show a difference).
func c18Dump(f *Fix) map[string]string {
	out := map[string]string{}
	ctx, _ := f.Ctx.CacheContext() // queries may write caches; never into the chain
	app := f.App
	// delayedack: pending packets by beneficiary address, for every address that occurs in a packet
	func() {
		defer func() {
			if e := recover(); e != nil {
				out["delayedack.pendingByAddress"] = fmt.Sprint("panic: ", e)
			}
		}()
		pkts := app.DelayedAckKeeper.ListRollappPackets(ctx, datypes.ByStatus(commontypes.Status_PENDING, commontypes.Status_FINALIZED))
		addrs := map[string]bool{}
		for _, p := range pkts {
			if d, err := p.GetTransferPacketData(); err == nil {
				addrs[d.Sender] = true
				addrs[d.Receiver] = true
			}
		}
		var as []string
		for a := range addrs {
			as = append(as, a)
		}
		sort.Strings(as)
		var sb strings.Builder
		for _, a := range as {
			ps, err := app.DelayedAckKeeper.GetPendingPacketsByAddress(ctx, a)
			if err != nil {
				fmt.Fprintf(&sb, "%s=ERR;", a)
				continue
			}
			var ks []string
			for _, p := range ps {
				ks = append(ks, fmt.Sprintf("%x", p.RollappPacketKey()))
			}
			sort.Strings(ks)
			fmt.Fprintf(&sb, "%s=%s;", a, strings.Join(ks, ","))
		}
		out["delayedack.pendingByAddress"] = sb.String()
	}()
	// eibc: on-demand liquidity providers
	func() {
		defer func() {
			if e := recover(); e != nil {
				out["eibc.lps"] = fmt.Sprint("panic: ", e)
			}
		}()
		lps, err := app.EIBCKeeper.LPs.GetAll(ctx)
		if err != nil {
			out["eibc.lps"] = "ERR"
			return
		}
		var xs []string
		for _, lp := range lps {
			xs = append(xs, fmt.Sprintf("%d:%s", lp.Id, lp.String()))
		}
		sort.Strings(xs)
		out["eibc.lps"] = strings.Join(xs, ";")
	}()
	// sponsorship: endorsements
	func() {
		defer func() {
			if e := recover(); e != nil {
				out["sponsorship.endorsements"] = fmt.Sprint("panic: ", e)
			}
		}()
		es, err := app.SponsorshipKeeper.GetAllEndorsements(ctx)
		if err != nil {
			out["sponsorship.endorsements"] = "ERR"
			return
		}
		var xs []string
		for _, e := range es {
			xs = append(xs, e.String())
		}
		sort.Strings(xs)
		out["sponsorship.endorsements"] = strings.Join(xs, ";")
		d, err := app.SponsorshipKeeper.GetDistribution(ctx)
		if err == nil {
			out["sponsorship.distribution"] = d.String()
		}
	}()
	// iro: the plan id counter
	func() {
		defer func() { _ = recover() }()
		out["iro.lastPlanId"] = fmt.Sprint(app.IROKeeper.GetLastPlanId(ctx))
	}()
	return out
}

func c18ImportClass(err error) string {
	m := err.Error()
	switch {
	case strings.Contains(m, "does not pass validation for deployment"):
		return "vfbc-already-imported"
	case strings.Contains(m, "failed to obtain coinbase address"):
		return "vfbc-deploy-needs-proposer"
	}
	return "other"
}

func c18Generic(r *Run, f *Fix, trace []string) {
	if f.App == nil {
		return
	}
	f2, exp1, exp2, err := f.ImportedCopy()
	if err != nil && c18ImportClass(err) == "vfbc-deploy-needs-proposer" {
		r.Violate("C18/import/exported-genesis-rejected/vfbc-deploy-needs-proposer", trunc200("InitChainer failed on the exported state: "+err.Error()), trace...)
		r.Hit("c18/import-failed/vfbc-deploy-needs-proposer")
		// continue the comparison with a proposer in the InitChainer header
		f2, exp1, exp2, err = f.ImportedCopyOpt(true)
	}
	if err != nil {
		cl := c18ImportClass(err)
		r.Violate("C18/import/exported-genesis-rejected/"+cl, trunc200("InitChainer failed on the exported state: "+err.Error()), trace...)
		r.Hit("c18/import-failed/" + cl)
		return
	}
	r.Hit("c18/imported")
	var mods []string
	for m := range exp1 {
		mods = append(mods, m)
	}
	sort.Strings(mods)
	for _, m := range mods {
		if !c18Modules[m] {
			continue
		}
		if d := firstJSONDiff(exp1[m], exp2[m]); d != "" {
			if dir := os.Getenv("VERIF_C18_DUMP"); dir != "" {
				_ = os.WriteFile(filepath.Join(dir, m+".1.json"), exp1[m], 0o644)
				_ = os.WriteFile(filepath.Join(dir, m+".2.json"), exp2[m], 0o644)
			}
			r.Violate("C18/reexport/"+m+"-genesis-differs/"+diffSig(d), trunc200("second export differs at "+m+d), trace...)
		}
	}
	if m1, m2 := f.Invariants(), f2.Invariants(); m1 == "" && m2 != "" {
		r.Violate("C18/invariants/broken-after-import", trunc200(m2), trace...)
	}
	s1, s2 := f.App.BankKeeper.GetSupply, f2.App.BankKeeper.GetSupply
	f.App.BankKeeper.IterateTotalSupply(f.Ctx, func(c sdk.Coin) bool {
		if !s1(f.Ctx, c.Denom).Amount.Equal(s2(f2.Ctx, c.Denom).Amount) {
			r.Violate("C18/bank/supply-differs", fmt.Sprintf("denom %s: %s vs %s", c.Denom, s1(f.Ctx, c.Denom).Amount, s2(f2.Ctx, c.Denom).Amount), trace...)
		}
		return false
	})
	d1, d2 := c18Dump(f), c18Dump(f2)
	var ks []string
	for k := range d1 {
		ks = append(ks, k)
	}
	sort.Strings(ks)
	for _, k := range ks {
		if d1[k] != d2[k] {
			r.Violate("C18/queries/"+k+"-differs", trunc200(fmt.Sprintf("original `%s` imported `%s`", d1[k], d2[k])), trace...)
		}
	}
}
