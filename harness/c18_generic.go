package harness

// Generic part of C18 for every package harness: at the end of a trace the application the trace ran
// on is exported (all modules), a fresh application is initialised from the export through the
// production InitChainer, and the two are compared: import must succeed, the custom modules' second
// export must equal the first, every registered invariant that held before must hold after, the
// supply of every denom must be equal, and the keeper-level query dumps below (indexes that are not
// part of any genesis state) must agree.

import (
	"encoding/json"
	"fmt"
	"math/big"
	"os"
	"path/filepath"
	"regexp"
	"sort"
	"strings"

	"cosmossdk.io/math"
	sdk "github.com/cosmos/cosmos-sdk/types"

	authtypes "github.com/cosmos/cosmos-sdk/x/auth/types"
	commontypes "github.com/dymensionxyz/dymension/v3/x/common/types"
	datypes "github.com/dymensionxyz/dymension/v3/x/delayedack/types"
	dymnstypes "github.com/dymensionxyz/dymension/v3/x/dymns/types"
)

// c18Dump renders module state that is reachable through queries but lives in indexes outside the
// genesis state (so a re-export cannot show a difference).
// c18ExtraDumps: further per-module query dumps (same contract as c18Dump: canonical text, sorted,
// no addresses of Go objects), registered from other files' init().
var c18ExtraDumps []func(f *Fix, ctx sdk.Context, out map[string]string)

func c18Dump(f *Fix) map[string]string {
	out := map[string]string{}
	ctx, _ := f.Ctx.CacheContext() // queries may write caches; never into the chain
	app := f.App
	// delayedack: pending packets by beneficiary address, for every address that occurs in a packet
	func() {
		defer func() {
			if e := recover(); e != nil {
				out["delayedack.pendingByAddress"] = fmt.Sprint("panic: ", e)
			}
		}()
		pkts := app.DelayedAckKeeper.ListRollappPackets(ctx, datypes.ByStatus(commontypes.Status_PENDING, commontypes.Status_FINALIZED))
		addrs := map[string]bool{}
		for _, p := range pkts {
			if d, err := p.GetTransferPacketData(); err == nil {
				addrs[d.Sender] = true
				addrs[d.Receiver] = true
			}
		}
		var as []string
		for a := range addrs {
			as = append(as, a)
		}
		sort.Strings(as)
		var sb strings.Builder
		for _, a := range as {
			ps, err := app.DelayedAckKeeper.GetPendingPacketsByAddress(ctx, a)
			if err != nil {
				fmt.Fprintf(&sb, "%s=ERR;", a)
				continue
			}
			var ks []string
			for _, p := range ps {
				ks = append(ks, fmt.Sprintf("%x", p.RollappPacketKey()))
			}
			sort.Strings(ks)
			fmt.Fprintf(&sb, "%s=%s;", a, strings.Join(ks, ","))
		}
		out["delayedack.pendingByAddress"] = sb.String()
	}()
	// eibc: on-demand liquidity providers
	func() {
		defer func() {
			if e := recover(); e != nil {
				out["eibc.lps"] = fmt.Sprint("panic: ", e)
			}
		}()
		lps, err := app.EIBCKeeper.LPs.GetAll(ctx)
		if err != nil {
			out["eibc.lps"] = "ERR"
			return
		}
		var xs []string
		for _, lp := range lps {
			xs = append(xs, fmt.Sprintf("%d:%s", lp.Id, lp.String()))
		}
		sort.Strings(xs)
		out["eibc.lps"] = strings.Join(xs, ";")
	}()
	// sponsorship: endorsements
	func() {
		defer func() {
			if e := recover(); e != nil {
				out["sponsorship.endorsements"] = fmt.Sprint("panic: ", e)
			}
		}()
		es, err := app.SponsorshipKeeper.GetAllEndorsements(ctx)
		if err != nil {
			out["sponsorship.endorsements"] = "ERR"
			return
		}
		var xs []string
		for _, e := range es {
			xs = append(xs, e.String())
		}
		sort.Strings(xs)
		out["sponsorship.endorsements"] = strings.Join(xs, ";")
		d, err := app.SponsorshipKeeper.GetDistribution(ctx)
		if err == nil {
			// the distribution as a function gauge -> power (what M-Spons and the C18 theorem speak about) and,
			// separately, the ids of the stored ZERO-power entries: Distribution.Merge prunes non-positive
			// entries inside its merge loop only, the tails are appended as they are, so which zero entries
			// (a weight whose share of the voting power truncates to zero) survive depends on the merge order
			var zero []string
			fn := d
			fn.Gauges = nil
			for _, g := range d.Gauges {
				if g.Power.IsZero() {
					zero = append(zero, fmt.Sprint(g.GaugeId))
				} else {
					fn.Gauges = append(fn.Gauges, g)
				}
			}
			out["sponsorship.distribution"] = fn.String()
			out["sponsorship.distributionZeroPowerEntries"] = strings.Join(zero, ",")
		}
	}()
	for _, fn := range c18ExtraDumps {
		fn(f, ctx, out)
	}
	// iro: the plan id counter
	func() {
		defer func() { _ = recover() }()
		out["iro.lastPlanId"] = fmt.Sprint(app.IROKeeper.GetLastPlanId(ctx))
	}()
	return out
}

func c18ImportClass(err error) string {
	m := err.Error()
	switch {
	case strings.Contains(m, "does not pass validation for deployment"):
		return "vfbc-already-imported"
	case strings.Contains(m, "failed to obtain coinbase address"):
		return "vfbc-deploy-needs-proposer"
	}
	if mm := reInvBroken.FindStringSubmatch(m); mm != nil {
		return "invariant-" + mm[1] + "-" + mm[2]
	}
	return "other"
}

// c18InvClass: the message of a broken registered invariant without the id of the zero-power entry the
// sponsorship `distribution` invariant happens to meet first (which zero-power entries exist on either
// chain is compared, and reported, as the dump key sponsorship.distributionZeroPowerEntries)
func c18InvClass(m string) string {
	return trunc200(reZeroPowerID.ReplaceAllString(m, "gauge power must be > 0, got 0: id: N"))
}

var reZeroPowerID = regexp.MustCompile(`gauge power must be > 0, got 0: id: [0-9]+`)

var reInvBroken = regexp.MustCompile(`invariant broken: ([a-z]+): ([a-z\- ]+) invariant`)

// c18DymnsRefunds reads the refunds the dymns InitGenesis performs (documented behaviour of
// x/dymns/genesis.go: open bids and buy orders are not carried over, their escrow is refunded by
// minting): per (address, denom) and per denom.
func c18DymnsRefunds(dymns json.RawMessage) (perAcc map[string]map[string]*big.Int, perDenom map[string]*big.Int, n int) {
	perAcc, perDenom = map[string]map[string]*big.Int{}, map[string]*big.Int{}
	var g struct {
		SellOrderBids []struct {
			Bidder string `json:"bidder"`
			Price  struct{ Denom, Amount string }
		} `json:"sell_order_bids"`
		BuyOrders []struct {
			Buyer      string                         `json:"buyer"`
			OfferPrice struct{ Denom, Amount string } `json:"offer_price"`
		} `json:"buy_orders"`
	}
	_ = json.Unmarshal(dymns, &g)
	add := func(a, d, amt string) {
		v, ok := new(big.Int).SetString(amt, 10)
		if !ok || a == "" {
			return
		}
		n++
		if perAcc[a] == nil {
			perAcc[a] = map[string]*big.Int{}
		}
		if perAcc[a][d] == nil {
			perAcc[a][d] = new(big.Int)
		}
		perAcc[a][d].Add(perAcc[a][d], v)
		if perDenom[d] == nil {
			perDenom[d] = new(big.Int)
		}
		perDenom[d].Add(perDenom[d], v)
	}
	for _, b := range g.SellOrderBids {
		add(b.Bidder, b.Price.Denom, b.Price.Amount)
	}
	for _, b := range g.BuyOrders {
		add(b.Buyer, b.OfferPrice.Denom, b.OfferPrice.Amount)
	}
	return
}

// c18AdjustForDymnsRefunds rewrites the first export into what the import is documented to produce:
// dymns without bids and buy orders, bank balances and supply increased by the refunds.
func c18AdjustForDymnsRefunds(exp map[string]json.RawMessage) map[string]json.RawMessage {
	perAcc, perDenom, n := c18DymnsRefunds(exp["dymns"])
	if n == 0 {
		return exp
	}
	out := map[string]json.RawMessage{}
	for k, v := range exp {
		out[k] = v
	}
	var d map[string]any
	_ = json.Unmarshal(exp["dymns"], &d)
	d["sell_order_bids"] = []any{}
	d["buy_orders"] = []any{}
	out["dymns"], _ = json.Marshal(d)
	var b map[string]any
	_ = json.Unmarshal(exp["bank"], &b)
	addCoins := func(coins []any, add map[string]*big.Int) []any {
		seen := map[string]bool{}
		for _, c := range coins {
			cm := c.(map[string]any)
			dn := cm["denom"].(string)
			if a, ok := add[dn]; ok {
				v, _ := new(big.Int).SetString(cm["amount"].(string), 10)
				cm["amount"] = v.Add(v, a).String()
				seen[dn] = true
			}
		}
		for dn, a := range add {
			if !seen[dn] {
				coins = append(coins, map[string]any{"denom": dn, "amount": a.String()})
			}
		}
		sort.Slice(coins, func(i, j int) bool {
			return coins[i].(map[string]any)["denom"].(string) < coins[j].(map[string]any)["denom"].(string)
		})
		return coins
	}
	bals, _ := b["balances"].([]any)
	have := map[string]bool{}
	for _, x := range bals {
		xm := x.(map[string]any)
		a := xm["address"].(string)
		if add, ok := perAcc[a]; ok {
			cs, _ := xm["coins"].([]any)
			xm["coins"] = addCoins(cs, add)
			have[a] = true
		}
	}
	for a, add := range perAcc {
		if !have[a] {
			bals = append(bals, map[string]any{"address": a, "coins": addCoins(nil, add)})
		}
	}
	sort.Slice(bals, func(i, j int) bool {
		return bals[i].(map[string]any)["address"].(string) < bals[j].(map[string]any)["address"].(string)
	})
	b["balances"] = bals
	sup, _ := b["supply"].([]any)
	b["supply"] = addCoins(sup, perDenom)
	out["bank"], _ = json.Marshal(b)
	return out
}

// sortBankBalances: the bank genesis lists balances in store order of the address bytes; compare by
// address instead.
func c18CanonBank(raw json.RawMessage) json.RawMessage {
	var b map[string]any
	if json.Unmarshal(raw, &b) != nil {
		return raw
	}
	if bals, ok := b["balances"].([]any); ok {
		sort.Slice(bals, func(i, j int) bool {
			return bals[i].(map[string]any)["address"].(string) < bals[j].(map[string]any)["address"].(string)
		})
	}
	out, _ := json.Marshal(b)
	return out
}

// c18Result: what one export -> import comparison found.
type c18Result struct {
	F2   *Fix     // the imported chain (nil when the export was skipped or the import failed)
	Sigs []string // signatures of everything the comparison reported
	Exp1 map[string]json.RawMessage
}

func c18Generic(r *Run, f *Fix, trace []string) { c18Compare(r, f, trace) }

// c18Compare: export f, import into a fresh application, compare (see the file comment); every
// difference is reported through r.Violate with `trace` as replay and listed in the result.
func c18Compare(r *Run, f *Fix, trace []string) (res c18Result) {
	violate := func(sig, detail string) {
		res.Sigs = append(res.Sigs, sig)
		r.Violate(sig, detail, trace...)
	}
	if f.App == nil {
		return
	}
	inv0 := f.Invariants()
	if inv0 != "" && c18Mode != "fork" {
		// a state that already breaks a registered invariant is some other property's violation; the
		// crisis module refuses such a genesis by design
		r.Hit("c18/skipped/invariant-broken-before-export")
		return
	}
	if inv0 != "" {
		// continue-after-import: such a state is imported the way an operator would have to, with the
		// crisis module's genesis assertion switched off; the same invariant must be the first broken one after
		r.Hit("c18/imported-with-genesis-invariant-assertion-off")
	}
	f2, exp1, exp2, err := f.importedCopy(false, inv0 != "")
	if err != nil && c18ImportClass(err) == "vfbc-deploy-needs-proposer" {
		violate("C18/import/exported-genesis-rejected/vfbc-deploy-needs-proposer", trunc200("InitChainer failed on the exported state: "+err.Error()))
		r.Hit("c18/import-failed/vfbc-deploy-needs-proposer")
		// continue the comparison with a proposer in the InitChainer header
		f2, exp1, exp2, err = f.importedCopy(true, inv0 != "")
	}
	res.Exp1 = exp1
	if d := c18DymnsEscrowGap(f, exp1["dymns"]); d != "" {
		violate("C18/dymns/exported-refunds-differ-from-escrow", d)
	}
	if err != nil {
		cl := c18ImportClass(err)
		violate("C18/import/exported-genesis-rejected/"+cl, trunc200("InitChainer failed on the exported state: "+err.Error()))
		r.Hit("c18/import-failed/" + cl)
		return
	}
	res.F2 = f2
	r.Hit("c18/imported")
	_, refundPerDenom, nRefunds := c18DymnsRefunds(exp1["dymns"])
	want := exp1
	if nRefunds > 0 {
		violate("C18/dymns/open-bids-and-buy-orders-dropped-and-refunded-by-minting", fmt.Sprintf("%d open bids / buy orders are not carried over; their escrow stays in the module account and the refund is minted", nRefunds))
		r.Hit("c18/dymns-refunds")
		want = c18AdjustForDymnsRefunds(exp1)
	} else if nSO := c18OpenSellOrders(f); nSO > 0 && c18Mode == "fork" {
		// the same listed finding without a refund: sell orders nobody bid on are not in the genesis state
		// either (only looked at when the chain continues after the import: the trace-end comparison never did)
		violate("C18/dymns/open-bids-and-buy-orders-dropped-and-refunded-by-minting", fmt.Sprintf("%d open sell orders without a bid are not carried over", nSO))
		r.Hit("c18/dymns-sell-orders-dropped")
	}
	if c18Mode == "fork" && c18DymnsExpiredBeyondGrace(f) > 0 {
		// documented in x/dymns/genesis.go (not a finding): Dym-Names that expired longer ago than the
		// grace period are left out of the genesis; raw listings of the store differ afterwards
		res.Sigs = append(res.Sigs, "C18/dymns/names-expired-beyond-grace-left-out-by-design")
		r.Hit("c18/dymns-names-expired-beyond-grace-left-out")
	}
	var mods []string
	for m := range exp1 {
		mods = append(mods, m)
	}
	sort.Strings(mods)
	for _, m := range mods {
		if !c18Modules[m] {
			continue
		}
		a, b := want[m], exp2[m]
		if m == "bank" {
			a, b = c18CanonBank(a), c18CanonBank(b)
		}
		if d := firstJSONDiff(a, b); d != "" {
			if dir := os.Getenv("VERIF_C18_DUMP"); dir != "" {
				_ = os.WriteFile(filepath.Join(dir, m+".1.json"), a, 0o644)
				_ = os.WriteFile(filepath.Join(dir, m+".2.json"), b, 0o644)
			}
			violate("C18/reexport/"+m+"-genesis-differs/"+diffSig(d), trunc200("second export differs at "+m+d))
		}
	}
	if m2 := f2.Invariants(); m2 != "" && c18InvClass(m2) != c18InvClass(inv0) {
		violate("C18/invariants/broken-after-import", trunc200(m2))
	}
	s1, s2 := f.App.BankKeeper.GetSupply, f2.App.BankKeeper.GetSupply
	f.App.BankKeeper.IterateTotalSupply(f.Ctx, func(c sdk.Coin) bool {
		w := s1(f.Ctx, c.Denom).Amount
		if x, ok := refundPerDenom[c.Denom]; ok {
			w = w.Add(math.NewIntFromBigInt(x))
		}
		if g := s2(f2.Ctx, c.Denom).Amount; !w.Equal(g) {
			violate("C18/bank/supply-differs", fmt.Sprintf("denom %s: %s (refund-adjusted) vs %s", c.Denom, w, g))
		}
		return false
	})
	d1, d2 := c18Dump(f), c18Dump(f2)
	var ks []string
	for k := range d1 {
		ks = append(ks, k)
	}
	sort.Strings(ks)
	for _, k := range ks {
		if d1[k] != d2[k] {
			kind := "differs"
			if d2[k] == "" {
				kind = "missing-after-import"
			}
			violate("C18/queries/"+k+"-"+kind, trunc200(fmt.Sprintf("original `%s` imported `%s`", d1[k], d2[k])))
		}
	}
	return
}

func c18OpenSellOrders(f *Fix) (n int) {
	defer func() { _ = recover() }()
	ctx, _ := f.Ctx.CacheContext()
	return len(f.App.DymNSKeeper.GetAllSellOrders(ctx))
}

// c18DymnsEscrowGap: completeness of the exported dymns genesis, judged on the EXPORTING chain and
// independently of what the import then does: the refunds InitGenesis will perform are read from the
// exported bids and buy orders (c18DymnsRefunds), so a bid missing from the export would go unnoticed
// by the comparison.  The module's escrow invariant says its account holds exactly the highest bids of
// the open Sell-Orders plus the offers of the open Buy-Orders; hence, per denom,
// module balance = sum of the exported bids and offers.  (Not evaluated on a chain that is itself an
// imported copy: there the refunds were minted and the old escrow stays in the account — the listed
// finding.)
func c18DymnsEscrowGap(f *Fix, dymns json.RawMessage) (detail string) {
	if f.Imported || len(dymns) == 0 {
		return ""
	}
	defer func() {
		if e := recover(); e != nil {
			detail = ""
		}
	}()
	_, perDenom, _ := c18DymnsRefunds(dymns)
	ctx, _ := f.Ctx.CacheContext()
	bal := f.App.BankKeeper.GetAllBalances(ctx, authtypes.NewModuleAddress(dymnstypes.ModuleName))
	denoms := map[string]bool{}
	for d := range perDenom {
		denoms[d] = true
	}
	for _, c := range bal {
		denoms[c.Denom] = true
	}
	var ds []string
	for d := range denoms {
		ds = append(ds, d)
	}
	sort.Strings(ds)
	for _, d := range ds {
		want := new(big.Int)
		if x := perDenom[d]; x != nil {
			want = x
		}
		if have := bal.AmountOf(d).BigInt(); have.Cmp(want) != 0 {
			return fmt.Sprintf("denom %s: the dymns module account holds %s, the exported bids and buy orders add up to %s", d, have, want)
		}
	}
	return ""
}

func c18DymnsExpiredBeyondGrace(f *Fix) (n int) {
	defer func() { _ = recover() }()
	ctx, _ := f.Ctx.CacheContext()
	k := f.App.DymNSKeeper
	cut := ctx.BlockTime().Add(-1 * k.GetParams(ctx).Misc.GracePeriodDuration).Unix()
	for _, d := range k.GetAllDymNames(ctx) {
		if d.ExpireAt < cut {
			n++
		}
	}
	return n
}
