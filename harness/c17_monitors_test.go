package harness

// C17 monitors: evaluated on the implementation only (never on the Lean model).

import (
	"encoding/hex"
	"fmt"
	"math/big"
	"sort"
	"strconv"
	"strings"

	storetypes "cosmossdk.io/store/types"
	sdk "github.com/cosmos/cosmos-sdk/types"

	dymnstypes "github.com/dymensionxyz/dymension/v3/x/dymns/types"
)

func (h *c17h) violate(sig, detail string, extra ...string) {
	replay := append(append([]string(nil), h.trace...), extra...)
	h.r.Violate(sig, detail, replay...)
}

type c17entry struct {
	maker string
	amt   *big.Int
	dst   string
}

func (s *c17snap) expired(d dymnstypes.DymName) bool { return d.ExpireAt < s.now }

// escrow entries of a snapshot: open bids and open offers, by key
func (h *c17h) entries(s *c17snap) map[string]c17entry {
	m := map[string]c17entry{}
	for i, so := range s.nameSO {
		if so.HighestBid != nil {
			m["sn"+strconv.Itoa(i)] = c17entry{so.HighestBid.Bidder, so.HighestBid.Price.Amount.BigInt(), ""}
		}
	}
	for i, so := range s.alSO {
		if so.HighestBid != nil {
			m["sl"+strconv.Itoa(i)] = c17entry{so.HighestBid.Bidder, so.HighestBid.Price.Amount.BigInt(), so.HighestBid.Params[0]}
		}
	}
	for id, bo := range s.bos {
		dst := ""
		if len(bo.Params) > 0 {
			dst = bo.Params[0]
		}
		m["b"+id] = c17entry{bo.Buyer, bo.OfferPrice.Amount.BigInt(), dst}
	}
	return m
}

func sameEntry(a, b c17entry) bool { return a.maker == b.maker && a.amt.Cmp(b.amt) == 0 }

// monitorOp runs after every state-changing op line.
func (h *c17h) monitorOp(f []string, obs string, pre *c17snap, preDigest string) {
	post := h.snap()
	ok := obs == "ok"
	isMsg := h.msgOf(f) != nil
	isGov := f[0] == "mig" || f[0] == "ualias" || f[0] == "setp"

	// rejected message: nothing may change (A-atomic is what baseapp gives; the handlers' own partial
	// writes are discarded by the cache context — checked here on the dymns store and all balances)
	if (isMsg || isGov) && !ok {
		if d := h.f.StoreDigest(dymnstypes.StoreKey); d != preDigest {
			h.violate("C17/atomic/rejected-op-changed-dymns-store", strings.Join(f, " ")+" => "+obs)
		}
		for i := range pre.bal {
			if !pre.bal[i].Equal(post.bal[i]) {
				h.violate("C17/atomic/rejected-op-changed-balance", strings.Join(f, " ")+" => "+obs)
			}
		}
		if !pre.mod.Equal(post.mod) {
			h.violate("C17/atomic/rejected-op-changed-balance", strings.Join(f, " ")+" => "+obs)
		}
	}
	if strings.HasPrefix(obs, "panic") {
		h.violate("C17/handler-panic/"+f[0], obs)
	}

	h.monitorEscrow(post)
	h.monitorIndexes()
	h.monitorAliases()
	h.monitorOrders(f, obs, pre, post)
	if ok && isMsg {
		h.monitorAuth(f, pre, post)
		h.monitorLedger(f, pre, post)
		h.branches(f, pre, post)
	} else if isMsg {
		h.branchesRejected(f, obs, pre)
	}
	if isGov {
		h.monitorGov(f, obs, pre, post)
	}
	h.monitorReverseComplete(post)
	h.monitorForwardComplete(post)
}

// monitorGov: the governance paths change no balance, no order, no owner; a chain-id migration
// changes nothing of a record but the chain-ids of its address records (never from or to the empty
// chain-id) and leaves expired names alone.  (That the reverse indexes are still the image of the
// records afterwards — although the migration skips the Before/After config hooks — is what
// monitorIndexes checks on the whole store after every op.)
func (h *c17h) monitorGov(f []string, obs string, pre, post *c17snap) {
	line := strings.Join(f, " ")
	h.r.Hit("gov-" + f[0] + "-" + strings.SplitN(obs, ":", 2)[0])
	for i := range pre.bal {
		if !pre.bal[i].Equal(post.bal[i]) {
			h.violate("C17/escrow_inv/governance-op-changed-a-balance", line)
		}
	}
	if !pre.mod.Equal(post.mod) || len(pre.nameSO) != len(post.nameSO) || len(pre.alSO) != len(post.alSO) || len(pre.bos) != len(post.bos) {
		h.violate("C17/escrow_inv/governance-op-changed-the-escrow", line)
	}
	if len(pre.names) != len(post.names) {
		h.violate("C17/owner_auth/governance-op-created-or-deleted-a-record", line)
	}
	for i, d := range pre.names {
		q, ok := post.names[i]
		if !ok {
			continue
		}
		same := q.Owner == d.Owner && q.Controller == d.Controller && q.ExpireAt == d.ExpireAt && q.Contact == d.Contact && len(q.Configs) == len(d.Configs)
		changed := false
		if same {
			for k := range d.Configs {
				a, b := d.Configs[k], q.Configs[k]
				if a.Path != b.Path || a.Value != b.Value || a.Type != b.Type || (a.ChainId == "") != (b.ChainId == "") {
					same = false
				}
				changed = changed || a.ChainId != b.ChainId
			}
		}
		if !same || (changed && f[0] != "mig") {
			h.violate("C17/owner_auth/governance-op-changed-more-than-chain-ids", fmt.Sprintf("%s: n%d", line, i))
		}
		if changed {
			h.r.Hit("migration-rewrites-a-record")
			if pre.expired(d) {
				h.violate("C17/owner_auth/migration-rewrote-an-expired-name", fmt.Sprintf("%s: n%d", line, i))
			}
			for _, c := range q.Configs {
				if c.ChainId == c17Chain(0) {
					h.r.Hit("migration-stores-literal-host-chain-id")
				}
			}
		} else if obs == "ok" && f[0] == "mig" && !pre.expired(d) {
			for _, c := range d.Configs {
				for _, p := range c17Pairs(f[1], ">") {
					if c.ChainId == c17Chain(p[0]) {
						h.r.Hit("migration-skips-record-that-would-fail-validation")
					}
				}
			}
		}
	}
}

// every stored address record of a live name is what forward resolution of path.name@chain-id gives
func (h *c17h) monitorForwardComplete(post *c17snap) {
	for i, d := range post.names {
		if post.expired(d) {
			continue
		}
		for _, c := range d.Configs {
			if c.Value == "" {
				continue
			}
			chain := c.ChainId
			if chain == "" {
				chain = c17Chain(0)
			}
			text := c17Name(i) + "@" + chain
			if c.Path != "" {
				text = c.Path + "." + text
			}
			out, err := h.k.ResolveByDymNameAddress(h.ctx(), text)
			if err == nil && out == c.Value {
				continue
			}
			kind := "forward-misses-stored-record"
			if c.ChainId == c17Chain(0) {
				kind = "forward-misses-record-under-literal-host-chain-id"
			}
			tok := "c" + h.cfgChain(c.ChainId)
			h.violate("C17/resolve_agree/"+kind,
				fmt.Sprintf("n%d config %q|%q -> %s; %s resolves to %q (err %v)", i, c.ChainId, c.Path, c.Value, text, out, err),
				fmt.Sprintf("res %s %d %s", h.pathID(c.Path), i, tok))
		}
	}
}

// escrow_inv: module balance = Σ highest bids of all sell orders + Σ offers of all buy orders
func (h *c17h) monitorEscrow(post *c17snap) {
	sum := big.NewInt(0)
	for _, so := range h.k.GetAllSellOrders(h.ctx()) {
		if so.HighestBid != nil {
			sum.Add(sum, so.HighestBid.Price.Amount.BigInt())
		}
	}
	for _, bo := range h.k.GetAllBuyOrders(h.ctx()) {
		sum.Add(sum, bo.OfferPrice.Amount.BigInt())
	}
	if sum.Cmp(post.mod.BigInt()) != 0 {
		kind := "module-balance-below-escrow"
		if post.mod.BigInt().Cmp(sum) > 0 {
			kind = "module-balance-above-escrow"
		}
		h.violate("C17/escrow_inv/"+kind, fmt.Sprintf("module balance %s, open bids + offers %s", post.mod, sum))
	}
	all := h.f.App.BankKeeper.GetAllBalances(h.ctx(), h.modAddr())
	if len(all) > 1 || (len(all) == 1 && all[0].Denom != c17Denom) {
		h.violate("C17/escrow_inv/foreign-denom-in-module-account", all.String())
	}
}

func (h *c17h) dymnsStore() storetypes.KVStore {
	return h.ctx().KVStore(h.f.App.GetKVStoreKeys()[dymnstypes.StoreKey])
}

func setAdd(m map[string]map[string]bool, k, v string) {
	if m[k] == nil {
		m[k] = map[string]bool{}
	}
	m[k][v] = true
}

// compare an index read from the store (whole prefix) with its expected content
func (h *c17h) cmpIndex(which string, prefix []byte, exp map[string]map[string]bool, decode func([]byte) []string) {
	it := storetypes.KVStorePrefixIterator(h.dymnsStore(), prefix)
	defer it.Close()
	got := map[string]map[string]bool{}
	for ; it.Valid(); it.Next() {
		k := hex.EncodeToString(it.Key()[len(prefix):])
		l := decode(it.Value())
		if len(l) == 0 {
			h.violate("C17/indexes_consistent/"+which+"-empty-record", k)
		}
		for _, n := range l {
			if got[k][n] {
				h.violate("C17/indexes_consistent/"+which+"-duplicate-entry", k+" -> "+n)
			}
			setAdd(got, k, n)
		}
	}
	for k, ns := range got {
		for n := range ns {
			if !exp[k][n] {
				kb, _ := hex.DecodeString(k)
				h.violate("C17/indexes_consistent/"+which+"-stale-entry", fmt.Sprintf("key %q lists %s, the records do not", string(kb), n))
			}
		}
	}
	for k, ns := range exp {
		for n := range ns {
			if !got[k][n] {
				kb, _ := hex.DecodeString(k)
				h.violate("C17/indexes_consistent/"+which+"-missing-entry", fmt.Sprintf("key %q should list %s", string(kb), n))
			}
		}
	}
}

// indexes_consistent: the three Dym-Name reverse indexes and the three buy-order indexes are exactly
// the image of the records (all records, whole store — not only the probe set)
func (h *c17h) monitorIndexes() {
	ctx := h.ctx()
	cdc := h.f.App.AppCodec()
	own, cfg, fb := map[string]map[string]bool{}, map[string]map[string]bool{}, map[string]map[string]bool{}
	hx := func(b []byte) string { return hex.EncodeToString(b) }
	for _, d := range h.k.GetAllDymNames(ctx) {
		ob := sdk.MustAccAddressFromBech32(d.Owner)
		setAdd(own, hx(ob), d.Name)
		hasDefault := false
		for _, c := range d.Configs {
			if c.Type != dymnstypes.DymNameConfigType_DCT_NAME {
				continue
			}
			isDef := c.ChainId == "" && c.Path == ""
			val := c.Value
			if isDef {
				if hasDefault {
					h.violate("C17/owner_unique/duplicate-default-config", d.Name)
				}
				hasDefault = true
				if val == "" {
					val = d.Owner
				}
			}
			if val == "" {
				continue
			}
			setAdd(cfg, hx([]byte(strings.TrimSpace(val))), d.Name)
			if isDef {
				setAdd(fb, hx(sdk.MustAccAddressFromBech32(val)), d.Name)
			}
		}
		if !hasDefault {
			setAdd(cfg, hx([]byte(d.Owner)), d.Name)
			setAdd(fb, hx(ob), d.Name)
		}
	}
	names := func(bz []byte) []string {
		var r dymnstypes.ReverseLookupDymNames
		cdc.MustUnmarshal(bz, &r)
		return r.DymNames
	}
	h.cmpIndex("owned-by", dymnstypes.KeyPrefixRvlDymNamesOwnedByAccount, own, names)
	h.cmpIndex("configured-address", dymnstypes.KeyPrefixRvlConfiguredAddressToDymNamesInclude, cfg, names)
	h.cmpIndex("fallback-address", dymnstypes.KeyPrefixRvlFallbackAddressToDymNamesInclude, fb, names)

	byBuyer, byName, byAlias := map[string]map[string]bool{}, map[string]map[string]bool{}, map[string]map[string]bool{}
	for _, bo := range h.k.GetAllBuyOrders(ctx) {
		setAdd(byBuyer, hx(sdk.MustAccAddressFromBech32(bo.Buyer)), bo.Id)
		if bo.AssetType == dymnstypes.TypeAlias {
			setAdd(byAlias, hx([]byte(bo.AssetId)), bo.Id)
		} else {
			setAdd(byName, hx([]byte(bo.AssetId)), bo.Id)
		}
	}
	ids := func(bz []byte) []string {
		var r dymnstypes.ReverseLookupBuyOrderIds
		cdc.MustUnmarshal(bz, &r)
		return r.OrderIds
	}
	h.cmpIndex("orders-by-buyer", dymnstypes.KeyPrefixRvlBuyerToBuyOrderIds, byBuyer, ids)
	h.cmpIndex("orders-by-name", dymnstypes.KeyPrefixRvlDymNameToBuyOrderIds, byName, ids)
	h.cmpIndex("orders-by-alias", dymnstypes.KeyPrefixRvlAliasToBuyOrderIds, byAlias, ids)
}

// alias_bijection: alias -> RollApp and RollApp -> aliases are inverse of each other
func (h *c17h) monitorAliases() {
	ctx := h.ctx()
	fwd := map[string]string{}
	for _, r := range h.k.GetAllRollAppsWithAliases(ctx) {
		if len(r.Aliases) == 0 {
			h.violate("C17/alias_bijection/empty-alias-list-stored", r.ChainId)
		}
		for _, a := range r.Aliases {
			if other, dup := fwd[a]; dup {
				h.violate("C17/alias_bijection/alias-listed-twice", fmt.Sprintf("%s under %s and %s", a, other, r.ChainId))
			}
			fwd[a] = r.ChainId
		}
	}
	it := storetypes.KVStorePrefixIterator(h.dymnsStore(), dymnstypes.KeyPrefixRvlAliasToRollAppId)
	defer it.Close()
	n := 0
	for ; it.Valid(); it.Next() {
		a := string(it.Key()[len(dymnstypes.KeyPrefixRvlAliasToRollAppId):])
		n++
		if fwd[a] != string(it.Value()) {
			h.violate("C17/alias_bijection/alias-to-rollapp-disagrees-with-rollapp-to-aliases", fmt.Sprintf("%s -> %s, listed under %q", a, string(it.Value()), fwd[a]))
		}
	}
	if n != len(fwd) {
		h.violate("C17/alias_bijection/alias-listed-without-reverse-record", fmt.Sprintf("%d listed, %d reverse records", len(fwd), n))
	}
}

// ---- sell orders belong to the ownership period they were placed in --------------------------------

// c17placed: one entry of the monitors' shadow of the open sell orders.  It is written from the op
// lines only (an accepted `sell a n|l id …` line: a placed it), never from the order records.
type c17placed struct {
	by    string // account that sent the accepted `sell` line
	epoch int    // ownership period of the asset at that moment
}

// ownerOf: the account that owns the asset in a snapshot ("" when nobody does): the owner of the
// Dym-Name record / the owner of the RollApp the alias maps to.
func (h *c17h) ownerOf(s *c17snap, key string) string {
	i := c17atoi(key[1:])
	if key[0] == 'n' {
		if d, ok := s.names[i]; ok {
			return d.Owner
		}
		return ""
	}
	if c, ok := s.alias[i]; ok {
		return s.rolls[c].Owner
	}
	return ""
}

// holder: what an ownership period is counted by (for an alias also the RollApp it belongs to)
func (h *c17h) holder(s *c17snap, key string) string {
	o := h.ownerOf(s, key)
	if key[0] == 'l' && o != "" {
		return o + "@" + strconv.Itoa(s.alias[c17atoi(key[1:])])
	}
	return o
}

func (h *c17h) assetKeys() []string {
	var ks []string
	for i := 0; i < h.nN; i++ {
		ks = append(ks, "n"+strconv.Itoa(i))
	}
	for i := 0; i < h.nL; i++ {
		ks = append(ks, "l"+strconv.Itoa(i))
	}
	return ks
}

// monitorOrders — evaluated on the real keeper state after every op, against the shadow h.placed /
// h.epoch kept from the op lines:
//
//	refund_full  "a pruned bid is refunded in full to its maker": when a Dym-Name passes to another
//	             owner otherwise than through its own Sell-Order (take-over by registration, accepted
//	             offer, transfer), the Sell-Order it had is gone afterwards, and a take-over pays the
//	             order's highest bidder exactly the bid
//	sale_exact   "the asset goes to exactly the winning bidder of the OWNER's sale": an order that
//	             completes was placed by the account that owns the asset now, in the current
//	             ownership period (no order outlives an ownership change)
//	owner_auth   "only the owner can change an unexpired name": after every op, every stored
//	             Sell-Order is on an asset whose current owner is the account that placed it
func (h *c17h) monitorOrders(f []string, obs string, pre, post *c17snap) {
	line := strings.Join(f, " ")
	op := f[0]
	ok := obs == "ok"
	boKey := func(bo dymnstypes.BuyOrder) string {
		if bo.AssetType == dymnstypes.TypeAlias {
			return "l" + strconv.Itoa(h.aliasID[bo.AssetId])
		}
		return "n" + strconv.Itoa(h.nameID[bo.AssetId])
	}
	if ok && (op == "abo" || op == "cbo") {
		if bo, was := pre.bos[f[2]]; was && h.boEpoch[bo.Id] != h.epoch[boKey(bo)] {
			if _, still := post.bos[bo.Id]; !still {
				h.r.Hit(map[string]string{"abo": "offer-accepted-by-a-later-owner-", "cbo": "offer-cancelled-after-ownership-change-"}[op] + boKey(bo)[:1])
			}
		}
	}
	defer func() {
		for id, bo := range post.bos {
			if _, was := pre.bos[id]; !was {
				h.boEpoch[id] = h.epoch[boKey(bo)]
			}
		}
	}()
	for _, key := range h.assetKeys() {
		i := c17atoi(key[1:])
		preSO, had := pre.nameSO[i]
		_, has := post.nameSO[i]
		if key[0] == 'l' {
			preSO, had = pre.alSO[i]
			_, has = post.alSO[i]
		}
		changed := h.holder(pre, key) != h.holder(post, key)
		onThis := len(f) > 3 && f[2] == key[:1] && f[3] == key[1:]
		through := ok && (op == "comp" || op == "buy") && onThis
		if had && !has && through {
			// the order finished by this op (sale, or forced refund): it must be the current owner's
			pl, tracked := h.placed[key]
			if owner := h.ownerOf(pre, key); !tracked || pl.by != owner || pl.epoch != h.epoch[key] {
				by := "nobody (no accepted sell line since the asset changed hands)"
				if tracked {
					by = "a" + h.acct(pl.by) + " in ownership period " + strconv.Itoa(pl.epoch)
				}
				h.violate("C17/sale_exact/completed-order-not-placed-by-current-owner",
					fmt.Sprintf("%s: the order on %s was placed by %s; owner before the op a%s, ownership period %d", line, key, by, h.acct(owner), h.epoch[key]))
			}
		}
		if changed && had && has && ok && op == "xferra" && key[0] == 'l' {
			// the RollApp changed hands through x/rollapp's MsgTransferOwnership: its aliases and their
			// open sell orders go with it (x/dymns runs no hook); from here on the order is the new
			// owner's — he is the account IsRollAppCreator accepts and the one a completion pays
			h.r.Hit("alias-sell-order-inherited-with-the-rollapp")
			if preSO.HighestBid != nil {
				h.r.Hit("alias-sell-order-with-bid-inherited-with-the-rollapp")
			}
			h.epoch[key]++
			h.placed[key] = c17placed{h.ownerOf(post, key), h.epoch[key]}
			continue
		}
		if changed && had && !through {
			// the asset changed hands otherwise than through its order: the order is pruned
			if has {
				h.violate("C17/refund_full/sell-order-outlives-ownership-change",
					fmt.Sprintf("%s: %s passed from a%s to a%s, its sell order is still stored", line, key, h.acct(h.ownerOf(pre, key)), h.acct(h.ownerOf(post, key))))
			}
			if b := preSO.HighestBid; b != nil && op == "reg" && key[0] == 'n' {
				if id, known := h.acctID[b.Bidder]; known {
					want := new(big.Int).Set(b.Price.Amount.BigInt())
					if b.Bidder == c17Acct(c17atoi(f[1])) {
						fee, _ := new(big.Int).SetString(f[4], 10)
						want.Sub(want, fee)
					}
					got := new(big.Int).Sub(post.bal[id].BigInt(), pre.bal[id].BigInt())
					if got.Cmp(want) != 0 {
						h.violate("C17/refund_full/pruned-bid-not-refunded-at-take-over",
							fmt.Sprintf("%s: the order on %s held a bid of %s by a%d; a%d's balance changed by %s, expected %s", line, key, b.Price.Amount, id, id, got, want))
					}
				}
			}
		}
		if changed {
			h.epoch[key]++
		}
		switch {
		case !has:
			delete(h.placed, key)
		case !had && ok && op == "sell" && onThis:
			h.placed[key] = c17placed{c17Acct(c17atoi(f[1])), h.epoch[key]}
		}
		if has {
			pl, tracked := h.placed[key]
			owner := h.ownerOf(post, key)
			switch {
			case owner == "":
				h.violate("C17/owner_auth/sell-order-on-asset-without-owner", line+": "+key)
			case !tracked || pl.by != owner || pl.epoch != h.epoch[key]:
				by := "nobody"
				if tracked {
					by = "a" + h.acct(pl.by) + " in ownership period " + strconv.Itoa(pl.epoch)
				}
				h.violate("C17/owner_auth/sell-order-not-placed-by-current-owner",
					fmt.Sprintf("%s: %s is owned by a%s (ownership period %d), its stored sell order was placed by %s", line, key, h.acct(owner), h.epoch[key], by))
			}
		}
	}
}

func cfgKey(d dymnstypes.DymName) string {
	var s []string
	for _, c := range d.Configs {
		s = append(s, c.ChainId+"|"+c.Path+"|"+c.Value)
	}
	return strings.Join(s, ";")
}

// owner_unique_authorised + the asset half of sale_exact
func (h *c17h) monitorAuth(f []string, pre, post *c17snap) {
	signer := c17Acct(c17atoi(f[1]))
	grace := int64(h.params().Misc.GracePeriodDuration.Seconds())
	op := f[0]
	line := strings.Join(f, " ")
	for i, d := range pre.names {
		q, still := post.names[i]
		if still && q.Owner == d.Owner && q.Controller == d.Controller && q.ExpireAt == d.ExpireAt && q.Contact == d.Contact && cfgKey(q) == cfgKey(d) {
			continue
		}
		if !still {
			h.violate("C17/owner_auth/record-deleted", line)
			continue
		}
		ownerChanged := q.Owner != d.Owner
		if pre.expired(d) {
			if ownerChanged && pre.now < d.ExpireAt+grace {
				h.violate("C17/owner_auth/taken-over-inside-grace-period", fmt.Sprintf("%s: expired %d, grace until %d, now %d", line, d.ExpireAt, d.ExpireAt+grace, pre.now))
			}
			if signer != d.Owner && op != "reg" {
				h.violate("C17/owner_auth/expired-name-changed-by-"+op, line)
			}
			if ownerChanged && (q.Controller != q.Owner || len(q.Configs) != 0) {
				h.violate("C17/sale_exact/takeover-keeps-previous-configuration", line)
			}
			continue
		}
		// unexpired name
		sale := false
		if ownerChanged {
			switch op {
			case "buy", "comp":
				so, has := pre.nameSO[i]
				winner := ""
				if has && so.HighestBid != nil {
					winner = so.HighestBid.Bidder
				}
				if op == "buy" {
					winner = signer
				}
				sale = has && q.Owner == winner
			case "abo":
				bo, has := pre.bos[f[2]]
				sale = has && signer == d.Owner && q.Owner == bo.Buyer
			case "xfer":
				sale = signer == d.Owner && q.Owner == c17Acct(c17atoi(f[3]))
			}
			if !sale {
				h.violate("C17/owner_auth/owner-changed-without-authorisation", fmt.Sprintf("%s: %s -> %s", line, h.acct(d.Owner), h.acct(q.Owner)))
			}
			if q.Controller != q.Owner || len(q.Configs) != 0 || q.Contact != "" {
				h.violate("C17/sale_exact/previous-configuration-not-cleared", line)
			}
			if q.ExpireAt != d.ExpireAt {
				h.violate("C17/sale_exact/expiry-changed-by-sale", line)
			}
			continue
		}
		if q.Controller != d.Controller && signer != d.Owner {
			h.violate("C17/owner_auth/controller-changed-by-non-owner", line)
		}
		if q.ExpireAt != d.ExpireAt && signer != d.Owner {
			h.violate("C17/owner_auth/expiry-changed-by-non-owner", line)
		}
		if cfgKey(q) != cfgKey(d) && signer != d.Controller {
			h.violate("C17/owner_auth/address-records-changed-by-non-controller", line)
		}
		if q.Contact != d.Contact && signer != d.Controller && signer != d.Owner {
			h.violate("C17/owner_auth/contact-changed-by-stranger", line)
		}
	}
	// a sell order may only exist on a name / alias of its seller: creation needs the owner
	for i := range post.nameSO {
		if _, had := pre.nameSO[i]; !had {
			if d, ok := pre.names[i]; !ok || d.Owner != signer || op != "sell" {
				h.violate("C17/owner_auth/sell-order-created-by-non-owner", line)
			}
		}
	}
}

// refund_full + the money half of sale_exact: every balance change of every actor is explained by
// a refund in full, a deposit, the proceeds of a sale or the stated fee
func (h *c17h) monitorLedger(f []string, pre, post *c17snap) {
	exp := make([]*big.Int, h.nA)
	role := make([]string, h.nA)
	for i := range exp {
		exp[i] = big.NewInt(0)
	}
	add := func(acct string, amt *big.Int, sign int, r string) {
		id, ok := h.acctID[acct]
		if !ok {
			return
		}
		if sign > 0 {
			exp[id].Add(exp[id], amt)
		} else {
			exp[id].Sub(exp[id], amt)
		}
		if role[id] == "" || r == "refund" || (r == "seller" && role[id] != "refund") {
			role[id] = r
		}
	}
	op := f[0]
	signer := c17Acct(c17atoi(f[1]))
	pe, qe := h.entries(pre), h.entries(post)
	nameOwner := func(s *c17snap, i int) string { return s.names[i].Owner }
	aliasOwner := func(s *c17snap, l int) string {
		if c, ok := s.alias[l]; ok {
			return s.rolls[c].Owner
		}
		return ""
	}
	keys := map[string]bool{}
	for k := range pe {
		keys[k] = true
	}
	for k := range qe {
		keys[k] = true
	}
	// a purchase that completes the order at once never shows its bid in a post state
	instant := ""
	if op == "buy" {
		key := "s" + f[2] + f[3]
		i := c17atoi(f[3])
		_, had := pre.nameSO[i]
		_, has := post.nameSO[i]
		if f[2] == "l" {
			_, had = pre.alSO[i]
			_, has = post.alSO[i]
		}
		if had && !has {
			instant = key
			offer, _ := new(big.Int).SetString(f[4], 10)
			seller := nameOwner(pre, i)
			if f[2] == "l" {
				seller = aliasOwner(pre, i)
			}
			add(signer, offer, -1, "deposit")
			add(seller, offer, +1, "seller")
			if p, ok := pe[key]; ok {
				add(p.maker, p.amt, +1, "refund")
			}
		}
	}
	var ks []string
	for k := range keys {
		ks = append(ks, k)
	}
	sort.Strings(ks)
	for _, k := range ks {
		if k == instant {
			continue
		}
		p, okp := pe[k]
		q, okq := qe[k]
		if okp && okq && sameEntry(p, q) {
			continue
		}
		if okp {
			seller := ""
			switch {
			case strings.HasPrefix(k, "sn") && (op == "comp" || op == "buy"):
				i := c17atoi(k[2:])
				if nameOwner(post, i) == p.maker && nameOwner(pre, i) != p.maker {
					seller = nameOwner(pre, i)
				}
			case strings.HasPrefix(k, "sl") && (op == "comp" || op == "buy"):
				l := c17atoi(k[2:])
				if c, ok := post.alias[l]; ok && c17Chain(c) == p.dst && post.alias[l] != pre.alias[l] {
					seller = aliasOwner(pre, l)
				}
			case strings.HasPrefix(k, "b") && op == "abo" && k == "b"+f[2] && !okq:
				bo := pre.bos[f[2]]
				if bo.AssetType == dymnstypes.TypeAlias {
					seller = aliasOwner(pre, h.aliasID[bo.AssetId])
				} else {
					seller = nameOwner(pre, h.nameID[bo.AssetId])
				}
			}
			if seller != "" {
				add(seller, p.amt, +1, "seller")
			} else {
				add(p.maker, p.amt, +1, "refund")
			}
		}
		if okq {
			add(q.maker, q.amt, -1, "deposit")
		}
	}
	switch op {
	case "reg", "alias":
		fee, _ := new(big.Int).SetString(f[4], 10)
		add(signer, fee, -1, "fee")
	case "rollapp":
		add(signer, h.params().Price.GetAliasPrice(c17Alias(c17atoi(f[4]))).BigInt(), -1, "fee")
	}
	for i := 0; i < h.nA; i++ {
		got := new(big.Int).Sub(post.bal[i].BigInt(), pre.bal[i].BigInt())
		if got.Cmp(exp[i]) == 0 {
			continue
		}
		sig := "C17/escrow_inv/unexplained-balance-change"
		switch role[i] {
		case "refund":
			sig = "C17/refund_full/maker-not-refunded-exactly"
		case "seller":
			sig = "C17/sale_exact/seller-not-paid-exactly"
		case "deposit":
			sig = "C17/escrow_inv/deposit-differs-from-escrowed-amount"
		case "fee":
			sig = "C17/escrow_inv/fee-differs-from-confirmed-payment"
		}
		h.violate(sig, fmt.Sprintf("%s: a%d balance changed by %s, expected %s", strings.Join(f, " "), i, got, exp[i]))
	}
}

// every stored address record of a live name is found by reverse resolution on its chain
func (h *c17h) monitorReverseComplete(post *c17snap) {
	for i, d := range post.names {
		if post.expired(d) {
			continue
		}
		for _, c := range d.Configs {
			id := strings.Split(h.decodeAddr(c.Value), ":")
			if len(id) != 2 || strings.HasPrefix(id[0], "?") {
				continue
			}
			wc := c17atoi(h.cfgChain(c.ChainId))
			toks, err := h.revCandidates(c17atoi(id[0]), c17atoi(id[1]), wc)
			want := fmt.Sprintf("%s.%d@", h.pathID(c.Path), i)
			found := false
			for _, t := range toks {
				if strings.HasPrefix(t, want) {
					found = true
				}
			}
			if err != nil || !found {
				h.violate("C17/resolve_agree/address-record-missing-from-reverse-resolution",
					fmt.Sprintf("n%d config %s|%s -> %s; reverse gives %v (err %v)", i, c.ChainId, c.Path, c.Value, toks, err),
					fmt.Sprintf("rev %s:%s %d", id[0], id[1], wc))
			}
		}
	}
}

// ownFormat: the address text carries the bech32 prefix of the working chain
func (h *c17h) ownFormat(addr string, wc int) bool {
	hrp := c17atoi(strings.Split(addr, ":")[0])
	if wc == 0 {
		return hrp == 0
	}
	if r, ok := h.f.App.RollappKeeper.GetRollapp(h.ctx(), c17Chain(wc)); ok && r.GenesisInfo.Bech32Prefix != "" {
		return c17Hrp(hrp) == r.GenesisInfo.Bech32Prefix
	}
	return false
}

// monitorQuery: every candidate of a reverse resolution must resolve forward to the queried address
func (h *c17h) monitorQuery(f []string, obs, line string) {
	if f[0] != "rev" || obs == "-" || obs == "err" {
		return
	}
	for _, tok := range strings.Fields(obs) {
		// tok = <path>.<name>@<handle>
		at := strings.Index(tok, "@")
		dot := strings.Index(tok, ".")
		if at < 0 || dot < 0 || strings.Contains(tok, "?") {
			h.violate("C17/resolve_agree/reverse-candidate-unparsable", tok, line)
			continue
		}
		path, n, handle := c17atoi(tok[:dot]), c17atoi(tok[dot+1:at]), tok[at+1:]
		got := h.resolveTok(path, n, handle)
		if got == f[1] {
			h.r.Hit("rev-candidate-resolves-back")
			continue
		}
		kind := "forward-gives-another-address"
		if got == "-" {
			kind = "forward-gives-nothing"
		} else if strings.Split(got, ":")[1] == strings.Split(f[1], ":")[1] && !h.ownFormat(f[1], c17atoi(f[2])) {
			// the queried text is not an address in the working chain's own format (other bech32
			// prefix): the fallback lookup goes by account bytes, the candidate names the same account
			h.r.Hit("rev-foreign-prefix-same-account")
			continue
		}
		// narrow the signature to the cause, so that a known finding cannot hide a different defect
		wc := c17atoi(f[2])
		if d := h.k.GetDymName(h.ctx(), c17Name(n)); d != nil && wc == 0 {
			for _, c := range d.Configs {
				if c.ChainId == c17Chain(0) && h.pathID(c.Path) == strconv.Itoa(path) && h.decodeAddr(c.Value) == f[1] {
					kind = "from-record-under-literal-host-chain-id"
				}
			}
		}
		if d := h.k.GetDymName(h.ctx(), c17Name(n)); d != nil && wc != 0 && path == 0 {
			explicit := false
			for _, c := range d.Configs {
				if c.ChainId == c17Chain(wc) && c.Path == "" && h.decodeAddr(c.Value) == got {
					explicit = true
				}
			}
			r, isRA := h.f.App.RollappKeeper.GetRollapp(h.ctx(), c17Chain(wc))
			switch {
			case explicit:
				kind = "fallback-ignores-explicit-record-for-the-rollapp"
			case got == "-" && isRA && r.GenesisInfo.Bech32Prefix == "":
				kind = "fallback-on-rollapp-without-bech32-prefix"
			}
		}
		h.violate("C17/resolve_agree/reverse-candidate-"+kind,
			fmt.Sprintf("reverse(%s on c%s) lists %s, which resolves to %s", f[1], f[2], tok, got),
			line, fmt.Sprintf("res %d %d %s", path, n, handle))
	}
}

// ---- named branches ----------------------------------------------------------------------------

func (h *c17h) branches(f []string, pre, post *c17snap) {
	hit := h.r.Hit
	grace := int64(h.params().Misc.GracePeriodDuration.Seconds())
	switch f[0] {
	case "reg":
		i := c17atoi(f[2])
		d, had := pre.names[i]
		switch {
		case !had:
			hit("register-new")
		case d.Owner == c17Acct(c17atoi(f[1])) && pre.expired(d):
			hit("renew-expired-by-owner")
			if pre.now < d.ExpireAt+grace {
				hit("renew-inside-grace")
			}
		case d.Owner == c17Acct(c17atoi(f[1])):
			hit("extend-unexpired")
		default:
			hit("take-over-after-grace")
			if pre.now == d.ExpireAt+grace {
				hit("take-over-exactly-at-grace-end")
			}
		}
		if so, ok := pre.nameSO[i]; ok && had {
			if _, still := post.nameSO[i]; !still {
				hit("prune-removes-sell-order")
				if so.HighestBid != nil {
					hit("prune-refunds-bid")
				}
			}
			// the histories of the directed traces / follow-up scripts (c17_directed_test.go)
			kind := "extend"
			switch {
			case d.Owner != c17Acct(c17atoi(f[1])):
				kind = "take-over"
			case pre.expired(d):
				kind = "renew"
			}
			if so.HighestBid != nil {
				hit(kind + "-with-uncompleted-bid-pending")
			} else {
				hit(kind + "-with-bidless-sell-order-pending")
			}
		}
		if had && d.Owner != c17Acct(c17atoi(f[1])) {
			for _, bo := range pre.bos {
				if bo.AssetType == dymnstypes.TypeName && bo.AssetId == c17Name(i) {
					hit("take-over-with-open-offer")
					if bo.Buyer == c17Acct(c17atoi(f[1])) {
						hit("take-over-by-the-maker-of-an-open-offer")
					}
				}
			}
		}
	case "xfer":
		hit("transfer")
		if len(pre.names[c17atoi(f[2])].Configs) > 0 {
			hit("transfer-clears-configs")
		}
	case "buy":
		key := c17atoi(f[3])
		pso, had := pre.nameSO[key]
		_, has := post.nameSO[key]
		if f[2] == "l" {
			pso, had = pre.alSO[key]
			_, has = post.alSO[key]
		}
		if had && pso.HighestBid != nil {
			hit("purchase-outbids-refund")
			if pso.HighestBid.Bidder == c17Acct(c17atoi(f[1])) {
				hit("purchase-raises-own-bid")
			}
		}
		if had && !has {
			hit("purchase-completes-at-sell-price-" + f[2])
		} else {
			hit("purchase-bid-" + f[2])
		}
	case "comp":
		key := c17atoi(f[3])
		if f[2] == "n" {
			d := pre.names[key]
			switch {
			case post.names[key].Owner != d.Owner:
				hit("complete-after-expiry-transfers-name")
			case pre.expired(d):
				hit("complete-refunds-name-expired")
			default:
				hit("complete-refunds-trading-disabled")
			}
		} else {
			if post.alias[key] != pre.alias[key] {
				hit("complete-after-expiry-moves-alias")
			} else {
				hit("complete-refunds-alias-trading-disabled-or-reserved")
			}
		}
	case "offer":
		if f[5] == "-" {
			hit("offer-new-" + f[2])
		} else {
			hit("offer-raise-deposits-difference-" + f[2])
		}
	case "cbo":
		hit("offer-cancel-refund")
		if bo, ok := pre.bos[f[2]]; ok && bo.AssetType == dymnstypes.TypeName {
			if d, ok := pre.names[h.nameID[bo.AssetId]]; !ok || pre.expired(d) {
				hit("offer-cancel-on-expired-name")
			}
		}
	case "abo":
		if _, still := post.bos[f[2]]; still {
			hit("offer-counter")
		} else {
			hit("offer-accept-" + map[bool]string{true: "l", false: "n"}[strings.HasPrefix(f[2], "20")])
		}
	case "ura":
		if f[6] == "-" {
			hit("resolve-delete")
		} else {
			hit("resolve-set-chain-" + map[bool]string{true: "host", false: "other"}[f[3] == "0"])
		}
	case "det":
		if f[4] == "1" {
			hit("details-clear-configs")
		}
	case "sell", "csell", "ctrl", "rollapp", "alias":
		hit(f[0] + "-" + strings.Join(f[2:3], ""))
	}
}

func (h *c17h) branchesRejected(f []string, obs string, pre *c17snap) {
	hit := h.r.Hit
	grace := int64(h.params().Misc.GracePeriodDuration.Seconds())
	switch f[0] {
	case "reg":
		if d, ok := pre.names[c17atoi(f[2])]; ok && d.Owner != c17Acct(c17atoi(f[1])) {
			switch {
			case obs == "unauth":
				hit("take-over-unexpired-rejected")
			case obs == "precond":
				hit("take-over-inside-grace-rejected")
				if pre.now == d.ExpireAt+grace-1 {
					hit("take-over-one-second-before-grace-end-rejected")
				}
			}
		}
	case "xfer":
		if obs == "precond" {
			hit("transfer-with-open-sell-order-rejected")
		}
	case "sell", "buy", "offer", "abo":
		if obs == "precond" || (f[0] == "abo" && obs == "denied") {
			p := h.params().Misc
			if !p.EnableTradingName || !p.EnableTradingAlias {
				hit("trading-disabled-rejected")
			}
		}
		if f[0] == "buy" && obs == "funds" {
			hit("purchase-insufficient-funds-after-refund-rolled-back")
		}
	case "csell":
		if obs == "precond" {
			hit("cancel-sell-order-with-bid-rejected")
		}
	}
	if obs != "ok" {
		hit("rejected-" + obs)
	}
}
