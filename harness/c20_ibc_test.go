package harness

// C20 — the IBC side of the privileged-message fixture.
//
// Three governance-only / owner-only kinds need IBC state to have content the privileged signer gets
// accepted:
//   rollapp.MsgRollappFraudProposal   a canonical light client of the rollapp with a consensus state at
//                                     or below the last valid height, a completed genesis bridge
//                                     (TransferProofHeight <= last valid height) and a pending state info
//   ibc MsgRecoverClient              a subject client that is not active and an active substitute with
//                                     matching parameters and a greater latest height
//   iro.MsgClaimVested                a SETTLED plan (completed genesis bridge of the plan's rollapp)
//                                     whose vesting has started
//
// The state is built on the SAME application as the rest of the C20 fixture with the helpers of the
// C09 / C10 fixture (ibc_util.go): a third rollapp r2 (owner a0) with an IRO plan, a sequencer that is
// not one of the probed actors, a state update (heights 1..10), a real 07-tendermint client made
// canonical, a transfer channel opened the way c10's `link` does it (MsgChannelOpenInit, the ack
// through the production ante handler whose hook records the canonical channel, channel end flipped
// to OPEN), and the genesis-bridge packet handed to the production transfer stack: that sets
// TransferProofHeight and settles the plan.
//
//   fix tick          one minute passes (a successful vested claim takes everything vested so far)

import (
	"encoding/json"
	"fmt"
	"time"

	"cosmossdk.io/math"
	cmted25519 "github.com/cometbft/cometbft/crypto/ed25519"
	codectypes "github.com/cosmos/cosmos-sdk/codec/types"
	"github.com/cosmos/cosmos-sdk/crypto/keys/ed25519"
	"github.com/cosmos/cosmos-sdk/crypto/keys/secp256k1"
	sdk "github.com/cosmos/cosmos-sdk/types"
	banktypes "github.com/cosmos/cosmos-sdk/x/bank/types"
	clienttypes "github.com/cosmos/ibc-go/v8/modules/core/02-client/types"
	channeltypes "github.com/cosmos/ibc-go/v8/modules/core/04-channel/types"
	ibcexported "github.com/cosmos/ibc-go/v8/modules/core/exported"
	ibctm "github.com/cosmos/ibc-go/v8/modules/light-clients/07-tendermint"

	irotypes "github.com/dymensionxyz/dymension/v3/x/iro/types"
	rollapptypes "github.com/dymensionxyz/dymension/v3/x/rollapp/types"
	seqtypes "github.com/dymensionxyz/dymension/v3/x/sequencer/types"
)

const (
	oPlanRA2       = 11 // rollapp r2 carrying the SETTLED IRO plan (owner = its creator)
	c20FraudHeight = 8  // fraud proposals on r2 name this height (state info 1..10, client at 5)
	c20ProofHeight = 5  // proof height of the genesis-bridge packet = TransferProofHeight of r2
)

type c20Ibc struct {
	e       *ibcEnv
	ra2     string
	planID2 string
	canon   string // canonical client of r2
	channel string
	subject string // a client of a foreign chain, frozen through the client keeper
	subst   string // its active substitute (same parameters, greater height)
	subst2  string // an active substitute for r2's canonical client (frozen by a fraud proposal)
}

func (p *c20Priv) tick(dt time.Duration) {
	f := p.f
	f.Time = f.Time.Add(dt)
	f.Ctx = f.Ctx.WithBlockTime(f.Time)
}

func (p *c20Priv) setupIBC() {
	f, t := p.f, p.s.t
	x := &c20Ibc{ra2: "dymverifc_7779-1"}
	p.ibc = x
	// ---- the pieces of the IBC environment that are used here (finishEnv would also lower the global bond)
	e := &ibcEnv{t: t, f: f, owner: Actor(0)}
	priv := ed25519.GenPrivKeyFromSecret([]byte("dymverif-c20-ibc-seq-0"))
	pkAny, err := codectypes.NewAnyWithValue(priv.PubKey())
	p.must("pubkey any", err)
	e.seqAddr, e.seqPriv, e.seqPk = []sdk.AccAddress{Actor(20)}, []cmted25519.PrivKey{cmted25519.PrivKey(priv.Key)}, []*codectypes.Any{pkAny}
	e.relPriv = secp256k1.GenPrivKeyFromSecret([]byte("dymverif-ibc-relayer"))
	e.relayer = sdk.AccAddress(e.relPriv.PubKey().Address())
	f.Fund(e.relayer, sdk.NewCoin(ibcDenom, math.NewIntWithDecimal(1, 24)))
	f.Fund(Actor(20), sdk.NewCoin("adym", pow10(1, 30)))
	e.buildAnte()
	x.e = e
	// chain configuration the test genesis lacks (settling a plan creates a pool with the liquidity denom)
	a := f.App
	if _, ok := a.BankKeeper.GetDenomMetaData(f.Ctx, ibcDenom); !ok {
		a.BankKeeper.SetDenomMetaData(f.Ctx, banktypes.Metadata{Base: ibcDenom, Display: "dym", Name: "dym", Symbol: "DYM",
			DenomUnits: []*banktypes.DenomUnit{{Denom: ibcDenom, Exponent: 0}, {Denom: "dym", Exponent: 18}}})
	}
	gp := a.GAMMKeeper.GetParams(f.Ctx)
	allowed := false
	for _, d := range gp.AllowedPoolCreationDenoms {
		allowed = allowed || d == ibcDenom
	}
	if !allowed {
		gp.AllowedPoolCreationDenoms = append(gp.AllowedPoolCreationDenoms, ibcDenom)
		a.GAMMKeeper.SetParams(f.Ctx, gp)
	}
	// ---- rollapp r2 (owner a0) with a plan whose trading starts now
	amt := pow10(1_000_000, 18)
	p.deliverMust("create rollapp r2", &rollapptypes.MsgCreateRollapp{
		Creator: Actor(0).String(), RollappId: x.ra2, InitialSequencer: "*", MinSequencerBond: rollapptypes.DefaultMinSequencerBondGlobalCoin,
		Alias: "verifc", VmType: rollapptypes.Rollapp_EVM,
		GenesisInfo: &rollapptypes.GenesisInfo{Bech32Prefix: "roc", GenesisChecksum: "1234567890abcdefg", InitialSupply: amt,
			NativeDenom:     rollapptypes.DenomMetadata{Display: "DEN", Base: "aden", Exponent: 18},
			GenesisAccounts: &rollapptypes.GenesisAccounts{Accounts: []rollapptypes.GenesisAccount{{Address: a.IROKeeper.GetModuleAccountAddress(), Amount: amt}}}},
		Metadata: &rollapptypes.RollappMetadata{Website: "https://dymension.xyz", Description: "d", LogoUrl: "https://dymension.xyz/logo.png", Telegram: "https://t.me/rolly", X: "https://x.dymension.xyz"},
	})
	ip := a.IROKeeper.GetParams(f.Ctx)
	ra := a.RollappKeeper.MustGetRollapp(f.Ctx, x.ra2)
	// fixture only: the keeper entry point, as for the plan of r1 (fixPlan)
	x.planID2, err = a.IROKeeper.CreatePlan(f.Ctx, "adym", amt, ip.MinPlanDuration+time.Hour, time.Time{}, true, ra, irotypes.DefaultBondingCurve(),
		irotypes.DefaultIncentivePlanParams(), ip.MinLiquidityPart, ip.MinVestingDuration+time.Hour, ip.MinVestingStartTimeAfterSettlement)
	p.must("create plan of r2", err)
	// ---- the plan's duration passes; a sequencer (not one of the probed actors) launches r2 and posts heights 1..10
	p.tick(2 * time.Hour)
	p.deliverMust("create sequencer of r2", &seqtypes.MsgCreateSequencer{Creator: Actor(20).String(), DymintPubKey: pkAny, Bond: rollapptypes.DefaultMinSequencerBondGlobalCoin, RollappId: x.ra2,
		Metadata: seqtypes.SequencerMetadata{Rpcs: []string{"https://rpc.wpd.evm.rollapp.noisnemyd.xyz:443"}, EvmRpcs: []string{"https://rpc.evm.rollapp.noisnemyd.xyz:443"}, RestApiUrls: []string{"https://api.rollapp.noisnemyd.xyz:443"}}})
	bds := rollapptypes.BlockDescriptors{}
	for h := uint64(1); h <= 10; h++ {
		bds.BD = append(bds.BD, rollapptypes.BlockDescriptor{Height: h, StateRoot: ibcRoot(h), Timestamp: ibcRaTime(h), DrsVersion: 1})
	}
	p.deliverMust("update state of r2", &rollapptypes.MsgUpdateState{Creator: Actor(20).String(), RollappId: x.ra2, StartHeight: 1, NumBlocks: 10, BDs: bds})
	// ---- canonical client (consensus state at height 5, consistent with the state info), channel, genesis bridge
	x.canon, err = e.createClient(ibcClientState(x.ra2, c20ProofHeight, "ok"), ibcRaTime(c20ProofHeight), ibcRoot(c20ProofHeight), e.valHash(0))
	p.must("create client of r2", err)
	a.LightClientKeeper.SetCanonicalClient(f.Ctx, x.ra2, x.canon)
	conn := e.openConnection(x.canon)
	x.channel, err = e.chanOpenInit(conn)
	p.must("channel open init", err)
	cp := "channel-77"
	ack := channeltypes.NewMsgChannelOpenAck("transfer", x.channel, cp, "ics20-1", []byte("proof"), clienttypes.NewHeight(1, c20ProofHeight), e.relayer.String())
	if ae, _ := e.runTx(ack); ae != nil { // the proof-carrying message itself cannot succeed without a counterparty
		p.must("channel open ack through the ante handler", ae)
	}
	e.setChannelOpen(x.channel, cp)
	ra = a.RollappKeeper.MustGetRollapp(f.Ctx, x.ra2)
	if ra.ChannelId != x.channel {
		t.Fatalf("C20 fixture: canonical channel of r2 is %q, want %q", ra.ChannelId, x.channel)
	}
	data, err := json.Marshal(e.genesisBridgeData(ra.GenesisInfo))
	p.must("genesis bridge data", err)
	pkt := channeltypes.NewPacket(data, 1, "transfer", cp, "transfer", x.channel, clienttypes.NewHeight(1, 100000), 0)
	gack, et, err := e.recvPacket(pkt, clienttypes.NewHeight(1, c20ProofHeight))
	p.must("genesis bridge packet", err)
	if gack == nil || !gack.Success() {
		t.Fatalf("C20 fixture: genesis bridge of r2 refused: %s", et)
	}
	ra = a.RollappKeeper.MustGetRollapp(f.Ctx, x.ra2)
	plan, _ := a.IROKeeper.GetPlan(f.Ctx, x.planID2)
	if ra.GenesisState.TransferProofHeight != c20ProofHeight || !plan.IsSettled() {
		t.Fatalf("C20 fixture: r2 proof height %d settled %v", ra.GenesisState.TransferProofHeight, plan.IsSettled())
	}
	// vesting of the owner's share has started
	p.tick(time.Minute)
	// ---- an active substitute for the canonical client (the client a fraud proposal freezes)
	x.subst2, err = e.createClient(ibcClientState(x.ra2, 40, "ok"), ibcRaTime(40), ibcRoot(40), e.valHash(0))
	p.must("create substitute client of r2", err)
	// ---- a frozen client of a foreign chain and its active substitute
	x.subst, err = e.createClient(ibcClientState(c20ForeignChain, 20, "ok"), ibcRaTime(20), ibcRoot(20), e.valHash(0))
	p.must("create substitute client", err)
	p.fixSubject()
}

const c20ForeignChain = "dymveriffar_7780-1"

// fixSubject: a new client of the foreign chain, frozen through the client keeper (a recovered client
// has the substitute's height and cannot be recovered from the same substitute again)
func (p *c20Priv) fixSubject() {
	x, a, f, t := p.ibc, p.f.App, p.f, p.s.t
	var err error
	x.subject, err = x.e.createClient(ibcClientState(c20ForeignChain, 10, "ok"), ibcRaTime(10), ibcRoot(10), x.e.valHash(0))
	p.must("create subject client", err)
	cs, ok := a.IBCKeeper.ClientKeeper.GetClientState(f.Ctx, x.subject)
	tm, isTm := cs.(*ibctm.ClientState)
	if !ok || !isTm {
		t.Fatal("C20 fixture: subject client state")
	}
	tm.FrozenHeight = ibctm.FrozenHeight
	a.IBCKeeper.ClientKeeper.SetClientState(f.Ctx, x.subject, tm)
	if st := a.IBCKeeper.ClientKeeper.GetClientStatus(f.Ctx, tm, x.subject); st != ibcexported.Frozen {
		t.Fatalf("C20 fixture: subject client is %s", st)
	}
}

// recoverPair: which (subject, substitute) a MsgRecoverClient names right now: the canonical client of
// r2 while a fraud proposal has it frozen, else the client frozen by the fixture
func (p *c20Priv) recoverPair() (string, string) {
	x := p.ibc
	k := p.f.App.IBCKeeper.ClientKeeper
	if cs, ok := k.GetClientState(p.f.Ctx, x.canon); ok && k.GetClientStatus(p.f.Ctx, cs, x.canon) != ibcexported.Active {
		p.s.r.Hit("ext/recover-client/subject-frozen-by-fraud-proposal")
		return x.canon, x.subst2
	}
	p.s.r.Hit("ext/recover-client/subject-frozen-by-fixture")
	return x.subject, x.subst
}

func (p *c20Priv) fraudMsg(s sdk.AccAddress) (sdk.Msg, error) {
	ra, ok := p.f.App.RollappKeeper.GetRollapp(p.f.Ctx, p.ibc.ra2)
	if !ok {
		return nil, fmt.Errorf("no rollapp r2")
	}
	return &rollapptypes.MsgRollappFraudProposal{Authority: s.String(), RollappId: p.ibc.ra2, FraudHeight: c20FraudHeight,
		FraudRevision: ra.GetRevisionForHeight(c20FraudHeight).Number}, nil
}

const c20RecoverURL = "/ibc.core.client.v1.MsgRecoverClient"

// genRecover: MsgRecoverClient on whatever client is frozen right now: from two unprivileged signers,
// then from the authority for real; a recovered fixture client is replaced by a new frozen one
func (p *c20Priv) genRecover(run func(string) string) {
	g := p.s.r.Rng
	subj, _ := p.recoverPair()
	run(fmt.Sprintf("ext %s a%d", c20RecoverURL, g.Intn(c20Actors)))
	run(fmt.Sprintf("ext %s m%d", c20RecoverURL, g.Intn(len(p.mods))))
	before := p.stats["extpos:"+c20RecoverURL]
	run("ext " + c20RecoverURL + " gov")
	if p.stats["extpos:"+c20RecoverURL] > before && subj == p.ibc.subject {
		run("fix subject")
	}
}

// execExtGov: `ext <url> gov` — the governance account's own message, delivered for real.  The model
// has no verdict on content (observation `na`); monitors: the dry run on a discarded branch predicts
// the outcome, a rejected message changes nothing.
func (p *c20Priv) execExtGov(t *c20ExtTarget) string {
	r := p.s.r
	p.nonce++
	gm, err := p.extBuild(*t, p.gov, p.nonce)
	if err != nil {
		return "bad-op"
	}
	valid := p.dry(gm) == nil
	before := p.f.StoreDigest()
	_, derr := p.deliver(gm)
	after := p.f.StoreDigest()
	replay := append([]string{}, p.s.trace...)
	if derr != nil && before != after {
		r.Violate("C20/no-state-change/"+t.url+"/state-changed-by-failed-message", fmt.Sprintf("authority-signed; digest %s -> %s, error %v", before, after, derr), replay...)
	}
	if valid != (derr == nil) {
		r.Hit("ext/authority-run-differs-from-dry-run/" + t.url)
	}
	obs := "rej"
	if derr == nil {
		obs = "ok"
		p.stats["extpos:"+t.url]++
		p.s.extHit[t.url] = true
		p.s.nontr = true
		if before == after {
			r.Hit("ext/authority/accepted-without-state-change")
		}
	}
	r.Hit("ext/authority/" + obs)
	p.s.seq = append(p.s.seq, "ext:"+t.url+":gov:"+obs)
	return "na"
}
