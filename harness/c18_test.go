package harness

// TestC18 — exporting and re-importing genesis preserves the chain.
// States are produced by the package harnesses' own generators (M-Core histories here); at the end
// of a trace (at a block boundary) the full application state is exported, a fresh application is
// initialised from it with the production InitChainer, and the two chains are compared: second
// export, every module invariant, balances/supply and the package's own canonical observation
// (queries), and then both chains are continued with the same ops.

import (
	"encoding/json"
	"fmt"
	"os"
	"path/filepath"
	"regexp"
	"sort"
	"strconv"
	"strings"
	"testing"
)

// firstJSONDiff returns a short path to the first difference between two JSON documents.
func firstJSONDiff(a, b json.RawMessage) string {
	var x, y any
	_ = json.Unmarshal(a, &x)
	_ = json.Unmarshal(b, &y)
	return jsonDiff("", x, y)
}

func jsonDiff(path string, x, y any) string {
	switch xv := x.(type) {
	case map[string]any:
		yv, ok := y.(map[string]any)
		if !ok {
			return path + ": type differs"
		}
		keys := map[string]bool{}
		for k := range xv {
			keys[k] = true
		}
		for k := range yv {
			keys[k] = true
		}
		var ks []string
		for k := range keys {
			ks = append(ks, k)
		}
		sort.Strings(ks)
		for _, k := range ks {
			if d := jsonDiff(path+"."+k, xv[k], yv[k]); d != "" {
				return d
			}
		}
		return ""
	case []any:
		yv, ok := y.([]any)
		if !ok {
			if y == nil && len(xv) == 0 {
				return ""
			}
			return path + ": type differs"
		}
		if len(xv) != len(yv) {
			return fmt.Sprintf("%s: length %d vs %d", path, len(xv), len(yv))
		}
		if len(xv) > 1 {
			// same elements in another order?
			sx, sy := make([]string, len(xv)), make([]string, len(yv))
			same := true
			for i := range xv {
				bx, _ := json.Marshal(xv[i])
				by, _ := json.Marshal(yv[i])
				sx[i], sy[i] = string(bx), string(by)
				same = same && sx[i] == sy[i]
			}
			if !same {
				sort.Strings(sx)
				sort.Strings(sy)
				perm := true
				for i := range sx {
					perm = perm && sx[i] == sy[i]
				}
				if perm {
					return path + ": order differs"
				}
			}
		}
		for i := range xv {
			if d := jsonDiff(fmt.Sprintf("%s[%d]", path, i), xv[i], yv[i]); d != "" {
				return d
			}
		}
		return ""
	case nil:
		if yv, ok := y.([]any); ok && len(yv) == 0 {
			return ""
		}
		if y != nil {
			return path + ": null vs value"
		}
		return ""
	default:
		if fmt.Sprint(x) != fmt.Sprint(y) {
			return fmt.Sprintf("%s: %v vs %v", path, trunc(fmt.Sprint(x)), trunc(fmt.Sprint(y)))
		}
		return ""
	}
}

var reIdx = regexp.MustCompile(`\[[0-9]+\]`)

// diffSig turns a jsonDiff result ("<path>: <what>") into a stable signature part: indices stripped,
// values dropped.
func diffSig(d string) string {
	path, what, _ := strings.Cut(d, ": ")
	path = reIdx.ReplaceAllString(path, "[]")
	switch {
	case strings.HasPrefix(what, "order differs"):
		what = "order"
	case strings.HasPrefix(what, "length"):
		what = "length"
	case strings.HasPrefix(what, "type differs"), strings.HasPrefix(what, "null vs value"):
		what = "shape"
	default:
		what = "value"
	}
	return strings.TrimPrefix(path, ".") + "/" + what
}

func trunc(s string) string {
	if len(s) > 60 {
		return s[:60] + "…"
	}
	return s
}

// TestC18 runs the M-Core generator with `reimport` ops at block boundaries: each one exports the
// whole application state, initialises a fresh application from it and continues there.  The
// monitors of TestCore compare the observation before and after (queries), the second export, all
// invariants and the supply; the Lean driver applies `importCore ∘ exportCore` at the same points.
func TestC18(t *testing.T) {
	os.Setenv("CORE_FOCUS", "C18")
	if lines := ReplayLines(); len(lines) > 0 && strings.HasPrefix(lines[0], "pkg ") {
		// replay of a violation found on another package's history
		r := NewRun(t, "C18")
		defer r.Close()
		// (with `c18-fork` marker lines: of a continue-after-import violation, see c18_continue_test.go)
		c18Apply(r, c18Package(r, strings.Fields(lines[0])[1], c18WithMarkers(lines)[1:], 0))
		return
	}
	if os.Getenv("VERIF_REPLAY") == "" && os.Getenv("C18_NO_PKGS") == "" { // C18_NO_PKGS: C12 runs this harness as one of its packages
		corePost = c18RunPackages
		defer func() { corePost = nil }()
	}
	runCore(t, "C18")
}

// the other packages' generators: each trace they produce ends in the generic export / import
// comparison (c18Generic, switched on by VERIF_C18 in the child process)
var c18Pkgs = []c12Pkg{
	{"TestC13", []string{"VERIF_SCALE=0.06"}},
	{"TestC14", []string{"VERIF_SCALE=0.05"}},
	{"TestC15", []string{"VERIF_SCALE=0.1"}},
	{"TestC16", []string{"VERIF_SCALE=0.04"}},
	{"TestC17", []string{"VERIF_SCALE=0.04"}},
	{"TestPackets", []string{"VERIF_SCALE=0.3"}},
	{"TestC20", []string{"VERIF_SCALE=0.1"}},
	{"TestC09", []string{"VERIF_SCALE=0.1"}},
	{"TestC10", []string{"VERIF_SCALE=0.1"}},
}

// metaChild runs one package harness as a sub-process and adopts its violations of property `pid`
// (signature prefix pid + "/"; replay = "pkg <Test>" + the child's own replay lines).
func metaChild(r *Run, pid string, env []string, pkgs []c12Pkg, test string, replay []string, seed uint64) {
	lp := strings.ToLower(pid)
	out := filepath.Join(r.OutDir, lp+"-"+test)
	os.RemoveAll(out)
	extra := append([]string(nil), env...)
	for _, pk := range pkgs {
		if pk.Test == test && replay == nil {
			for _, e := range pk.Env {
				if (r.Thorough() || os.Getenv("VERIF_SEARCH") != "") && strings.HasPrefix(e, "VERIF_SCALE=") {
					f, _ := strconv.ParseFloat(strings.TrimPrefix(e, "VERIF_SCALE="), 64)
					k := 6.0
					if !r.Thorough() { // search branch of a quick check: wider than the quick run, still minutes not hours
						k = 3
					}
					e = fmt.Sprintf("VERIF_SCALE=%g", f*k)
				}
				extra = append(extra, e)
			}
		}
	}
	rp := ""
	if replay != nil {
		rp = filepath.Join(r.OutDir, lp+"-"+test+".replay")
		_ = os.WriteFile(rp, []byte(strings.Join(replay, "\n")+"\n"), 0o644)
	}
	line := fmt.Sprintf("pkg %s seed=%d", test, seed)
	if err := c12Child(r.T, test, out, seed, rp, 16, extra); err != nil {
		r.Violate(pid+"/child/package-run-failed", trunc200(test+": "+err.Error()), line)
		r.Emit(line, "failed")
		return
	}
	var st struct {
		Ops, Traces int
		Branches    map[string]int
		Violations  []Violation
	}
	b, _ := os.ReadFile(filepath.Join(out, "stats.json"))
	_ = json.Unmarshal(b, &st)
	n := 0
	for _, v := range st.Violations {
		if strings.HasPrefix(v.Signature, pid+"/") {
			n++
			r.Violate(v.Signature, test+": "+v.Detail, append([]string{"pkg " + test}, v.Replay...)...)
		}
	}
	r.Emit(line, "ok")
	r.Hit(fmt.Sprintf("%schild/%s/ran", lp, test))
	info := map[string]int{"ops": st.Ops, "traces": st.Traces, "violations": n}
	for k, v := range st.Branches {
		if strings.HasPrefix(k, lp+"/") {
			info[k] = v
		}
	}
	r.Set(lp+"-"+test, info)
	os.RemoveAll(out)
}

func diffFields(a, b string) string {
	x, y := splitObs(a), splitObs(b)
	for i := range x {
		if i >= len(y) || x[i] != y[i] {
			yy := ""
			if i < len(y) {
				yy = y[i]
			}
			return fmt.Sprintf("original `%s` imported `%s`", trunc200(x[i]), trunc200(yy))
		}
	}
	return "lengths differ"
}

func splitObs(s string) []string {
	var out []string
	cur := ""
	for _, p := range []byte(s) {
		cur += string(p)
		if len(cur) >= 3 && cur[len(cur)-3:] == " | " {
			out = append(out, cur[:len(cur)-3])
			cur = ""
		}
	}
	return append(out, cur)
}

func trunc200(s string) string {
	if len(s) > 200 {
		return s[:200] + "…"
	}
	return s
}
