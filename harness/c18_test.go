package harness

// TestC18 — exporting and re-importing genesis preserves the chain.
// States are produced by the package harnesses' own generators (M-Core histories here); at the end
// of a trace (at a block boundary) the full application state is exported, a fresh application is
// initialised from it with the production InitChainer, and the two chains are compared: second
// export, every module invariant, balances/supply and the package's own canonical observation
// (queries), and then both chains are continued with the same ops.

import (
	"encoding/json"
	"fmt"
	"os"
	"sort"
	"testing"
)

// firstJSONDiff returns a short path to the first difference between two JSON documents.
func firstJSONDiff(a, b json.RawMessage) string {
	var x, y any
	_ = json.Unmarshal(a, &x)
	_ = json.Unmarshal(b, &y)
	return jsonDiff("", x, y)
}

func jsonDiff(path string, x, y any) string {
	switch xv := x.(type) {
	case map[string]any:
		yv, ok := y.(map[string]any)
		if !ok {
			return path + ": type differs"
		}
		keys := map[string]bool{}
		for k := range xv {
			keys[k] = true
		}
		for k := range yv {
			keys[k] = true
		}
		var ks []string
		for k := range keys {
			ks = append(ks, k)
		}
		sort.Strings(ks)
		for _, k := range ks {
			if d := jsonDiff(path+"."+k, xv[k], yv[k]); d != "" {
				return d
			}
		}
		return ""
	case []any:
		yv, ok := y.([]any)
		if !ok {
			if y == nil && len(xv) == 0 {
				return ""
			}
			return path + ": type differs"
		}
		if len(xv) != len(yv) {
			return fmt.Sprintf("%s: length %d vs %d", path, len(xv), len(yv))
		}
		for i := range xv {
			if d := jsonDiff(fmt.Sprintf("%s[%d]", path, i), xv[i], yv[i]); d != "" {
				return d
			}
		}
		return ""
	case nil:
		if yv, ok := y.([]any); ok && len(yv) == 0 {
			return ""
		}
		if y != nil {
			return path + ": null vs value"
		}
		return ""
	default:
		if fmt.Sprint(x) != fmt.Sprint(y) {
			return fmt.Sprintf("%s: %v vs %v", path, trunc(fmt.Sprint(x)), trunc(fmt.Sprint(y)))
		}
		return ""
	}
}

func trunc(s string) string {
	if len(s) > 60 {
		return s[:60] + "…"
	}
	return s
}

// TestC18 runs the M-Core generator with `reimport` ops at block boundaries: each one exports the
// whole application state, initialises a fresh application from it and continues there.  The
// monitors of TestCore compare the observation before and after (queries), the second export, all
// invariants and the supply; the Lean driver applies `importCore ∘ exportCore` at the same points.
func TestC18(t *testing.T) {
	os.Setenv("CORE_FOCUS", "C18")
	runCore(t, "C18")
}

func diffFields(a, b string) string {
	x, y := splitObs(a), splitObs(b)
	for i := range x {
		if i >= len(y) || x[i] != y[i] {
			yy := ""
			if i < len(y) {
				yy = y[i]
			}
			return fmt.Sprintf("original `%s` imported `%s`", trunc200(x[i]), trunc200(yy))
		}
	}
	return "lengths differ"
}

func splitObs(s string) []string {
	var out []string
	cur := ""
	for _, p := range []byte(s) {
		cur += string(p)
		if len(cur) >= 3 && cur[len(cur)-3:] == " | " {
			out = append(out, cur[:len(cur)-3])
			cur = ""
		}
	}
	return append(out, cur)
}

func trunc200(s string) string {
	if len(s) > 200 {
		return s[:200] + "…"
	}
	return s
}
