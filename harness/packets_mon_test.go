package harness

// Model-independent monitors of C04 / C05: evaluated on the implementation's own state (keeper
// queries, bank balances) before / after every op.  Nothing here uses the Lean model.

import (
	"encoding/base64"
	"fmt"
	"strconv"
	"strings"
	"testing"

	"cosmossdk.io/math"

	transfertypes "github.com/cosmos/ibc-go/v8/modules/apps/transfer/types"
	channeltypes "github.com/cosmos/ibc-go/v8/modules/core/04-channel/types"

	commontypes "github.com/dymensionxyz/dymension/v3/x/common/types"
)

type pkMon struct {
	h        *pkH
	r        *Run
	trace    []string
	prev     *pkSnap
	released map[string]int // packet uid -> number of releases observed
	escrowShort bool        // the total-escrow counter is below the escrowed balances (reported once per episode)
}

func newPkMon(h *pkH, r *Run) *pkMon { return &pkMon{h: h, r: r, released: map[string]int{}} }

var pkShrunk = map[string]bool{} // signatures already minimised in this process
var pkShrinkBudget = 500         // replays the shrinker may still run

func (m *pkMon) violate(sig, detail string) {
	tr := append([]string(nil), m.trace...)
	if m.r.ops != nil && !pkShrunk[sig] && ReplayLines() == nil {
		pkShrunk[sig] = true
		tr = pkShrink(m.h.t, sig, tr)
	}
	m.r.Violate(sig, detail, tr...)
}

// pkFires replays `lines` on a fresh fixture and tells whether the monitor signature fires
func pkFires(t *testing.T, sig string, lines []string) bool {
	pkShrinkBudget--
	scratch := &Run{T: t, hits: map[string]int{}, classes: map[string]bool{}, nontriv: map[string]bool{}, extra: map[string]any{}}
	h := newPkH(t, parsePkParams(lines[0]))
	mon := newPkMon(h, scratch)
	mon.check(lines[0], "ok", h.snapshot())
	for _, l := range lines[1:] {
		res := h.exec(l)
		mon.check(l, res, h.snapshot())
	}
	for _, v := range scratch.viol {
		if v.Signature == sig {
			return true
		}
	}
	return false
}

// pkShrink: delta-debugging style minimisation of a violating trace (chunks of decreasing size, the
// reset line stays)
func pkShrink(t *testing.T, sig string, lines []string) []string {
	cur := lines
	for size := (len(cur) - 1) / 2; size >= 1; size /= 2 {
		for start := len(cur) - size; start >= 1 && pkShrinkBudget > 0; start -= size {
			if start+size > len(cur) {
				continue
			}
			cand := append(append([]string(nil), cur[:start]...), cur[start+size:]...)
			if len(cand) > 1 && pkFires(t, sig, cand) {
				cur = cand
			}
		}
	}
	for i := len(cur) - 1; i >= 1 && pkShrinkBudget > 0; i-- { // one more single-line pass
		cand := append(append([]string(nil), cur[:i]...), cur[i+1:]...)
		if len(cand) > 1 && pkFires(t, sig, cand) {
			cur = cand
		}
	}
	return cur
}

func (s *pkSnap) packetByPend(k string) *pkPacket {
	for i := range s.Packets {
		if s.Packets[i].PendKey == k {
			return &s.Packets[i]
		}
	}
	return nil
}

func (s *pkSnap) packetByKey(k string) *pkPacket {
	for i := range s.Packets {
		if s.Packets[i].Key == k {
			return &s.Packets[i]
		}
	}
	return nil
}

func (s *pkSnap) orderByPend(k string, pending bool) *pkOrder {
	for i := range s.Orders {
		if s.Orders[i].PendKey == k && s.Orders[i].Pending == pending {
			return &s.Orders[i]
		}
	}
	return nil
}

func (s *pkSnap) finalizable(p *pkPacket) bool {
	return p.Ra >= 0 && s.FinH[p.Ra] >= 0 && p.PH <= uint64(s.FinH[p.Ra])
}

// uid of a packet for "at most once": received (R) or sent (S) + hub channel + sequence
func pkUID(typ string, ch int, seq uint64) string {
	k := "S"
	if typ == "R" {
		k = "R"
	}
	return fmt.Sprintf("%s.c%d.%d", k, ch, seq)
}

func balEq(a, b *pkSnap) (string, bool) {
	for n, vs := range a.Bal {
		for i, v := range vs {
			if !v.Equal(b.Bal[n][i]) {
				return fmt.Sprintf("%s d%d %s -> %s", n, i, v, b.Bal[n][i]), false
			}
		}
	}
	return "", true
}

// balance deltas cur - prev as a map "acct/denom" -> delta (non-zero only)
func balDelta(prev, cur *pkSnap) map[string]math.Int {
	out := map[string]math.Int{}
	for n, vs := range cur.Bal {
		for i, v := range vs {
			if d := v.Sub(prev.Bal[n][i]); !d.IsZero() {
				out[fmt.Sprintf("%s/d%d", n, i)] = d
			}
		}
	}
	return out
}

func deltaStr(d map[string]math.Int) string {
	var xs []string
	for k, v := range d {
		xs = append(xs, k+"="+v.String())
	}
	return SortedJoin(xs, ",")
}

// expectDelta checks that the balance changes of an op are exactly `want`
func (m *pkMon) expectDelta(sig string, prev, cur *pkSnap, want map[string]math.Int) {
	got := balDelta(prev, cur)
	for k, v := range want {
		// accounts outside the tracked set (unknown addresses) are not observed
		if _, tracked := cur.Bal[k[:strings.Index(k, "/")]]; v.IsZero() || !tracked {
			delete(want, k)
		}
	}
	ok := len(got) == len(want)
	for k, v := range want {
		if g, has := got[k]; !has || !g.Equal(v) {
			ok = false
		}
	}
	if !ok {
		m.violate(sig, fmt.Sprintf("balance changes %s, expected %s", deltaStr(got), deltaStr(want)))
	}
}

func addDelta(d map[string]math.Int, acct string, denom int, v math.Int) {
	k := fmt.Sprintf("%s/d%d", acct, denom)
	if old, ok := d[k]; ok {
		d[k] = old.Add(v)
	} else {
		d[k] = v
	}
}

func (m *pkMon) bridgingFee(amt math.Int) math.Int {
	return rawDec(m.h.p.BF).MulInt(amt).TruncateInt()
}

func stateOf(line string) string {
	if i := strings.Index(line, " "); i > 0 {
		return line[i+1:]
	}
	return line
}

func (m *pkMon) check(op, res string, cur *pkSnap) {
	prev := m.prev
	m.prev = cur
	m.invariants(cur)
	if prev == nil {
		return
	}
	f := strings.Fields(op)
	kv := parseKV(f)
	kind := f[0]
	prop := "C05"
	switch kind {
	case "recv", "ack", "timeout", "timeoutclose", "fin", "finkey", "send", "sendblk", "fork", "epoch", "block", "state", "finstate":
		prop = "C04"
	}
	// a rejected message changes nothing
	switch res {
	case "ok", "async", "ackok", "ackerr":
	default:
		if stateOf(prev.render(m.h, "x")) != stateOf(cur.render(m.h, "x")) {
			m.violate(prop+"/rejected/state-changed-by-rejected-"+kind, "op "+op+" returned "+res+" but the observable state changed")
		}
	}
	if res == "hookfail" || res == "blockfail" || res == "panic" {
		sig := prop + "/hook/" + kind + "-failed"
		if res == "panic" && m.h.lastErr != nil && strings.Contains(m.h.lastErr.Error(), "negative coin amount") && m.escrowShort {
			// ibc-go's unescrowToken subtracts from the per-denom total-escrow counter with Coin.Sub: it panics
			// when the counter is below the amount although the escrow account holds the coins
			sig = "C04/escrow/unescrow-panics-total-escrow-counter-underflow"
		}
		m.violate(sig, fmt.Sprintf("%s: %v", res, m.h.lastErr))
	}
	m.checkTotalEscrow(op)

	// ---- C04: a pending packet stays stored and pending (same key, same contents up to the beneficiary
	// rewrite of a fulfilment) through every op except its own accepted finalization and a fork in range
	for i := range prev.Packets {
		q := &prev.Packets[i]
		if !q.Pending {
			continue
		}
		n := cur.packetByKey(q.Key)
		if n != nil && n.Pending && n.Amount.Equal(q.Amount) && n.Denom == q.Denom && n.Unescrow == q.Unescrow && n.AckErr == q.AckErr &&
			n.Type == q.Type && n.Chan == q.Chan && n.Seq == q.Seq && n.PH == q.PH && n.Ra == q.Ra && n.ErrText == q.ErrText {
			continue
		}
		if (kind == "fin" || kind == "finkey") && res == "ok" {
			if f := cur.packetByPend(q.PendKey); f != nil && !f.Pending {
				continue // finalized by this message (checked below)
			}
		}
		if kind == "fork" && res == "ok" && q.Ra == idxTok(f[1]) && q.PH > atou(kv["h"]) && q.PH < ^uint64(0) {
			continue
		}
		what := "gone"
		if n != nil {
			what = "changed"
		}
		m.violate("C04/pending_retrievable/pending-packet-vanished", fmt.Sprintf("pending %s %s after `%s` -> %s", q.Name, what, op, res))
	}

	// ---- C04: status flips and immediate releases ------------------------------------------
	for i := range cur.Packets {
		p := &cur.Packets[i]
		if p.Pending {
			continue
		}
		if q := prev.packetByPend(p.PendKey); q != nil && q.Pending {
			// PENDING -> FINALIZED in this op
			if !prev.finalizable(q) {
				m.violate("C04/release_only_final/packet-finalized-above-finalized-height",
					fmt.Sprintf("%s finalized by `%s` while the rollapp's latest finalized height is %d", q.Name, op, prev.FinH[q.Ra]))
			}
			if kind != "fin" && kind != "finkey" {
				m.violate("C04/release_only_final/packet-finalized-by-"+kind, q.Name+" changed status outside a finalize message")
			}
			uid := pkUID(q.Type, q.Chan, q.Seq)
			m.released[uid]++
			if m.released[uid] > 1 {
				m.violate("C04/release_at_most_once/second-release-of-packet", uid+" released again by `"+op+"`")
			}
			m.checkRelease(prev, cur, q, p, op)
		}
	}
	if kind == "recv" || kind == "ack" || kind == "timeout" {
		ci := idxTok(f[1])
		seq, ph := atou(kv["seq"]), atou(kv["ph"])
		ri := m.h.chans[ci].Rollapp
		canon := m.h.chans[ci].Canon
		typ := map[string]string{"recv": "R", "ack": "A", "timeout": "T"}[kind]
		var created *pkPacket
		for i := range cur.Packets {
			p := &cur.Packets[i]
			if p.Pending && p.Chan == ci && p.Seq == seq && p.Type == typ && prev.packetByKey(p.Key) == nil {
				created = p
			}
		}
		// a packet-forward (memo fw:c<k>) that succeeds returns a nil acknowledgement: the funds were received
		// and sent on at once, nothing is stored
		forwarded := kind == "recv" && res == "async" && strings.HasPrefix(kv["memo"], "fw:")
		if forwarded {
			m.r.Hit("mon/recv-forwarded")
		}
		immediate := (kind == "recv" && res == "ackok") || forwarded || (kind != "recv" && res == "ok" && created == nil)
		if immediate {
			uid := pkUID(typ, ci, seq)
			m.released[uid]++
			if m.released[uid] > 1 {
				m.violate("C04/release_at_most_once/second-release-of-packet", uid+" released again by `"+op+"`")
			}
			if ri >= 0 && canon && (prev.FinH[ri] < 0 || ph > uint64(prev.FinH[ri])) {
				m.violate("C04/release_only_final/immediate-release-above-finalized-height",
					fmt.Sprintf("`%s` took effect at once, latest finalized height %d", op, prev.FinH[ri]))
			}
		}
		if created != nil {
			m.r.Hit("mon/packet-delayed")
			if ri < 0 {
				m.violate("C04/non_rollapp_never_delayed/packet-stored-for-plain-chain", created.Name)
			}
			if d, ok := balEq(prev, cur); !ok {
				m.violate("C04/release_only_final/balance-moved-while-pending", "`"+op+"` only recorded a pending packet but "+d)
			}
			if kind == "recv" {
				for _, a := range cur.Ak {
					if strings.HasPrefix(a, fmt.Sprintf("c%d.%d.", ci, seq)) {
						m.violate("C04/release_only_final/ack-written-while-pending", a)
					}
				}
			}
		}
		if kind == "recv" && res == "async" && created == nil && !forwarded {
			m.violate("C04/pending_retrievable/async-receive-without-pending-packet", op)
		}
		if kind == "recv" && forwarded && created != nil {
			m.violate("C04/release_only_final/forwarded-receive-also-stored-as-pending", created.Name)
		}
		if ri < 0 && res == "async" && !forwarded {
			m.violate("C04/non_rollapp_never_delayed/async-on-plain-channel", op)
		}
		if ri >= 0 && !canon && res != "ackerr" && res != "replay" && res != "badChannel" && res != "chanClosed" {
			m.violate("C04/release_only_final/packet-accepted-on-non-canonical-rollapp-channel", op+" -> "+res)
		}
	}
	// finalize requests: permissionless, by fields and by key
	if kind == "fin" || kind == "finkey" {
		var target *pkPacket
		if kind == "fin" {
			src := kv["src"]
			k := string(commontypes.RollappPacketKey(commontypes.Status_PENDING, m.h.rid(f[2]), atou(kv["ph"]), ptypeTok(kv["t"]), src, atou(kv["seq"])))
			target = prev.packetByKey(k)
		} else if b, err := base64.StdEncoding.DecodeString(kv["k"]); err == nil {
			target = prev.packetByKey(string(b))
		}
		if target != nil && target.Pending && prev.finalizable(target) {
			if res != "ok" {
				sig := "C04/release_permissionless/finalizable-packet-rejected"
				if kind == "finkey" {
					sig = "C04/finalize_by_key_roundtrip/valid-key-of-finalizable-packet-rejected"
				}
				m.violate(sig, fmt.Sprintf("`%s` -> %s (%v)", op, res, m.h.lastErr))
			} else {
				m.r.Hit("mon/finalize-by-" + map[string]string{"fin": "fields", "finkey": "key"}[kind] + "-sender-" + senderClass(m.h, f[1]))
			}
		}
		if res == "ok" && (target == nil || !target.Pending) {
			m.violate("C04/release_at_most_once/finalize-accepted-for-non-pending-packet", op)
		}
	}

	// ---- C03 over packets: the delayedack hard-fork hook --------------------------------------
	if kind == "fork" && res == "ok" {
		m.checkFork(prev, cur, idxTok(f[1]), atou(kv["h"]), op)
	}

	// ---- C05 --------------------------------------------------------------------------------
	if (kind == "fulfill" || kind == "fauth" || kind == "ondemand") && res == "ok" {
		m.checkFulfil(prev, cur, kind, f, kv, op)
	}
	if kind == "updfee" && res == "ok" {
		pk := string(m.h.keyOfName(kv["o"]))
		o := prev.orderByPend(pk, true)
		if o == nil {
			m.violate("C05/only_recipient_updates_fee/update-of-unknown-order-accepted", op)
		} else {
			if o.Recipient != f[1] {
				m.violate("C05/only_recipient_updates_fee/updated-by-other-account", op+" recipient "+o.Recipient)
			}
			if o.Fulfiller != "-" {
				m.violate("C05/fulfil_at_most_once/fee-updated-after-fulfilment", op)
			}
			if p := prev.packetByPend(pk); p == nil || !p.Pending || prev.finalizable(p) {
				m.violate("C05/fulfil_only_outstanding/fee-updated-while-finalizable", op)
			}
			if d, ok := balEq(prev, cur); !ok {
				m.violate("C05/payment_exact/fee-update-moved-balances", d)
			}
		}
	}
}

// checkTotalEscrow: ibc-go keeps, per denom, the total amount held in ALL transfer escrow accounts
// (TotalEscrowForDenom); unescrowing subtracts from it with Coin.Sub, which panics below zero.  The counter
// must never be below what the escrow accounts of the harness' channels hold.
func (m *pkMon) checkTotalEscrow(op string) {
	app, ctx := m.h.f.App, m.h.f.Ctx
	short := false
	for di, d := range m.h.denoms {
		sum := math.ZeroInt()
		for _, c := range m.h.chans {
			sum = sum.Add(app.BankKeeper.GetBalance(ctx, transfertypes.GetEscrowAddress(pkPort, c.Hub), d).Amount)
		}
		if tot := app.TransferKeeper.GetTotalEscrowForDenom(ctx, d).Amount; tot.LT(sum) {
			short = true
			if !m.escrowShort {
				m.violate("C04/escrow/total-escrow-counter-below-escrowed-balance",
					fmt.Sprintf("after `%s`: TotalEscrowForDenom(d%d) = %s, the channel escrow accounts hold %s", op, di, tot, sum))
			}
		}
	}
	m.escrowShort = short
}

// checkFork: what OnHardFork(rollapp ri, lastValid lv) must have done to packets, receipts,
// commitments and orders (C03's clauses about packets)
func (m *pkMon) checkFork(prev, cur *pkSnap, ri int, lv uint64, op string) {
	inRange := func(p *pkPacket) bool { return p.Pending && p.Ra == ri && p.PH > lv && p.PH < ^uint64(0) }
	has := func(xs []string, x string) bool {
		for _, y := range xs {
			if y == x {
				return true
			}
		}
		return false
	}
	for i := range cur.Packets {
		if p := &cur.Packets[i]; inRange(p) {
			m.violate("C03/packets/pending-packet-above-fork-height-remains", fmt.Sprintf("%s after `%s`", p.Name, op))
		}
	}
	ck := m.h.f.App.IBCKeeper.ChannelKeeper
	for i := range prev.Packets {
		q := &prev.Packets[i]
		if q.Pending && q.Ra == ri && q.PH == ^uint64(0) {
			m.r.Hit("mon/fork-max-height-packet-out-of-range")
		}
		if !inRange(q) {
			// untouched
			n := cur.packetByKey(q.Key)
			if n == nil || n.Target != q.Target || n.Orig != q.Orig || !n.Amount.Equal(q.Amount) || n.Failed != q.Failed || n.Denom != q.Denom {
				m.violate("C03/packets/packet-outside-fork-range-changed", fmt.Sprintf("%s after `%s`", q.Name, op))
			}
			if po, pn := prev.orderByPend(q.PendKey, q.Pending), cur.orderByPend(q.PendKey, q.Pending); (po == nil) != (pn == nil) ||
				(po != nil && (!po.Price.Equal(pn.Price) || !po.Fee.Equal(pn.Fee) || po.Fulfiller != pn.Fulfiller || po.Recipient != pn.Recipient)) {
				m.violate("C03/packets/order-outside-fork-range-changed", fmt.Sprintf("order of %s after `%s`", q.Name, op))
			}
			continue
		}
		m.r.Hit("mon/fork-reverted-" + q.Type)
		if q.Orig != "-" {
			m.r.Hit("mon/fork-reverted-fulfilled-packet")
		}
		id := fmt.Sprintf("c%d.%d", q.Chan, q.Seq)
		if q.Type == "R" {
			if has(cur.Rc, id) {
				m.violate("C03/packets/receipt-remains-for-reverted-packet", q.Name)
			}
		} else {
			if !has(cur.Cm, id) {
				m.violate("C03/packets/commitment-not-restored", q.Name)
			} else if orig, ok := m.h.sentPkts[[2]uint64{uint64(q.Chan), q.Seq}]; ok {
				got := ck.GetPacketCommitment(m.h.f.Ctx, pkPort, m.h.chans[q.Chan].Hub, q.Seq)
				if string(got) != string(channeltypes.CommitPacket(m.h.f.App.AppCodec(), orig)) {
					sig := "C03/packets/restored-commitment-differs-from-original-packet"
					// the specific shape of the recorded finding: the packet was re-encoded by a fulfilment (sorted JSON)
					// while the bytes the hub had sent were not in that canonical form (denommetadata memo middleware)
					var d transfertypes.FungibleTokenPacketData
					if q.Orig != "-" && transfertypes.ModuleCdc.UnmarshalJSON(orig.Data, &d) == nil && string(d.GetBytes()) != string(orig.Data) {
						sig += "/fulfilled-packet-sent-as-non-canonical-json"
					}
					m.violate(sig, q.Name+" (fulfilled by "+q.Target+", original sender "+q.Orig+")")
				}
			}
		}
		if cur.orderByPend(q.PendKey, true) != nil || cur.orderByPend(q.PendKey, false) != nil {
			m.violate("C03/packets/order-of-reverted-packet-remains", q.Name)
		}
	}
	for i := range cur.Orders {
		if o := &cur.Orders[i]; cur.packetByPend(o.PendKey) == nil {
			m.violate("C03/packets/order-without-packet-after-fork", o.ID)
		}
	}
}

func senderClass(h *pkH, tok string) string {
	i := idxTok(tok)
	switch {
	case i < h.p.NActors:
		return "funded"
	case i == h.p.NActors:
		return "without-account"
	}
	return "unknown-address"
}

// checkRelease: the bank effect of finalizing packet q (state before) / p (after)
func (m *pkMon) checkRelease(prev, cur *pkSnap, q, p *pkPacket, op string) {
	want := map[string]math.Int{}
	benef := q.Target // beneficiary while pending
	esc := "e" + strconv.Itoa(q.Chan)
	ackOK := false
	for _, a := range cur.Ak {
		if a == fmt.Sprintf("c%d.%d.1", q.Chan, q.Seq) {
			ackOK = true
		}
	}
	ackWriteFailed := false
	switch q.Type {
	case "R":
		hasAck := false
		for _, a := range cur.Ak {
			if strings.HasPrefix(a, fmt.Sprintf("c%d.%d.", q.Chan, q.Seq)) {
				hasAck = true
			}
		}
		if !hasAck {
			if p.ErrText == "0" {
				// no acknowledgement and nothing recorded about it
				m.violate("C04/release_only_final/ack-missing-after-finalization", q.Name)
			} else {
				// WriteAcknowledgement failed (channel end closed / ack already stored): the code records the
				// error in the packet and finalizes it all the same — the funds may have been released
				ackWriteFailed = true
				m.r.Hit("mon/finalized-recv-ack-write-failed")
				if p.ErrText != "ackClosed" && p.ErrText != "ackExists" {
					m.violate("C04/release_exact/unrecognised-error-text-on-failed-ack-write", q.Name+" Error class "+p.ErrText)
				}
			}
		}
		if ackOK || ackWriteFailed {
			addDelta(want, benef, q.Denom, q.Amount.Sub(m.bridgingFee(q.Amount)))
			if q.Unescrow {
				addDelta(want, esc, q.Denom, q.Amount.Neg())
			}
		} else {
			m.r.Hit("mon/finalized-recv-with-error-ack")
		}
	case "A", "T":
		refund := q.Type == "T" || q.AckErr
		if in, fwd := m.h.fwdOf[[2]uint64{uint64(q.Chan), q.Seq}]; fwd {
			// the hub sent this packet as a packet-forward of the packet received on channel in[0]: the
			// packet-forward middleware settles it towards the ORIGIN chain (escrow -> inbound channel's
			// escrow, or burn / mint for vouchers) and acknowledges the inbound packet
			m.r.Hit("mon/finalized-forwarded-packet")
			if refund && !p.Failed {
				resc := "e" + strconv.Itoa(int(in[0]))
				if q.Unescrow {
					addDelta(want, esc, q.Denom, q.Amount.Neg())
					if q.Denom != 1+int(in[0]) {
						addDelta(want, resc, q.Denom, q.Amount)
					}
				} else {
					addDelta(want, resc, q.Denom, q.Amount)
				}
				if q.Orig != "-" {
					// C05: "when the packet later finalizes the whole packet amount goes to the fulfiller"
					if d := cur.Bal[benef][q.Denom].Sub(prev.Bal[benef][q.Denom]); !d.Equal(q.Amount) {
						m.violate("C05/finalize_pays_fulfiller/fulfiller-not-paid-on-finalization/forwarded-packet",
							fmt.Sprintf("%s: the order of this forwarded packet was fulfilled by %s (paid to the packet-forward intermediate address %s); its finalization credited the fulfiller %s instead of %s: the refund went towards the origin chain (channel c%d)",
								q.Name, benef, q.Orig, d, q.Amount, in[0]))
					}
				}
			}
			if !p.Failed {
				want0 := fmt.Sprintf("c%d.%d.%s", in[0], in[1], b2s(!refund))
				found := false
				for _, a := range cur.Ak {
					found = found || a == want0
				}
				if !found {
					m.violate("C04/release_exact/forwarded-packet-finalized-without-acknowledging-the-inbound-packet", q.Name+" expected ack "+want0)
				}
			}
		} else if refund && !p.Failed {
			addDelta(want, benef, q.Denom, q.Amount)
			if q.Unescrow {
				addDelta(want, esc, q.Denom, q.Amount.Neg())
			}
			if q.Orig != "-" {
				m.r.Hit("mon/finalize-paid-fulfiller")
			}
		}
		if p.Failed {
			m.r.Hit("mon/finalized-refund-failed")
		}
	}
	if ackWriteFailed && len(balDelta(prev, cur)) == 0 {
		m.r.Hit("mon/finalized-recv-ack-write-failed-and-transfer-failed") // nothing released, nothing acknowledged
	} else {
		if ackWriteFailed {
			m.r.Hit("mon/funds-released-without-acknowledgement")
		}
		m.expectDelta("C04/release_exact/unexpected-balance-change-on-finalization", prev, cur, want)
	}
	if q.Orig != "-" {
		m.r.Hit("mon/finalized-after-fulfilment")
		// the original recipient gets nothing further
		if q.Orig != benef {
			for i := range cur.Bal[q.Orig] {
				if !cur.Bal[q.Orig][i].Equal(prev.Bal[q.Orig][i]) {
					m.violate("C05/finalize_pays_fulfiller/original-recipient-credited-on-finalization", q.Name+" orig "+q.Orig)
				}
			}
		}
	}
}

func (m *pkMon) checkFulfil(prev, cur *pkSnap, kind string, f []string, kv map[string]string, op string) {
	pk := string(m.h.keyOfName(kv["o"]))
	o := prev.orderByPend(pk, true)
	p := prev.packetByPend(pk)
	if o == nil || p == nil {
		m.violate("C05/fulfil_only_outstanding/fulfilled-unknown-or-inactive-order", op)
		return
	}
	if o.Fulfiller != "-" {
		m.violate("C05/fulfil_at_most_once/second-fulfilment-accepted", op+" (already fulfilled by "+o.Fulfiller+")")
	}
	if !p.Pending {
		m.violate("C05/fulfil_only_outstanding/fulfilled-after-packet-finalized", op)
	}
	if prev.finalizable(p) {
		m.violate("C05/fulfil_only_outstanding/fulfilled-while-finalizable", op)
	}
	n := cur.orderByPend(pk, true)
	if n == nil || n.Fulfiller == "-" {
		m.violate("C05/fulfil_at_most_once/order-not-marked-fulfilled", op)
		return
	}
	if kind != "ondemand" {
		if fee, ok := math.NewIntFromString(kv["fee"]); !ok || !fee.Equal(o.Fee) {
			m.violate("C05/fulfil_fee_exact/accepted-with-other-fee", fmt.Sprintf("%s, order fee %s", op, o.Fee))
		}
	}
	np := cur.packetByPend(pk)
	want := map[string]math.Int{}
	switch kind {
	case "fulfill":
		addDelta(want, f[1], o.Denom, o.Price.Neg())
		addDelta(want, o.Recipient, o.Denom, o.Price)
		if np == nil || np.Target != f[1] || np.Orig != o.Recipient {
			m.violate("C05/finalize_pays_fulfiller/packet-not-redirected-to-fulfiller", op)
		}
	case "fauth":
		lp := kv["lp"]
		share := rawDecS(kv["share"])
		opFee := math.LegacyNewDecFromInt(o.Fee).MulTruncate(share).TruncateInt()
		addDelta(want, lp, o.Denom, o.Price.Neg())
		addDelta(want, o.Recipient, o.Denom, o.Price)
		addDelta(want, lp, o.Denom, opFee.Neg())
		addDelta(want, kv["op"], o.Denom, opFee)
		if np == nil || np.Target != lp || np.Orig != o.Recipient {
			m.violate("C05/finalize_pays_fulfiller/packet-not-redirected-to-lp", op)
		}
		m.checkGrant(prev, cur, o, p, kv, op)
	case "ondemand":
		// exactly one LP record was charged
		var used *pkLP
		for i := range prev.LPs {
			l := &prev.LPs[i]
			for j := range cur.LPs {
				if cur.LPs[j].ID == l.ID && !cur.LPs[j].Spent.Equal(l.Spent) {
					if used != nil {
						m.violate("C05/lp_limits/several-lps-charged", op)
					}
					used = l
					if !cur.LPs[j].Spent.Equal(l.Spent.Add(o.Price)) {
						m.violate("C05/lp_limits/spent-not-increased-by-price", fmt.Sprintf("%s: %s -> %s price %s", op, l.Spent, cur.LPs[j].Spent, o.Price))
					}
				}
			}
		}
		if used == nil {
			m.violate("C05/lp_limits/fulfilled-without-charging-an-lp", op)
			return
		}
		m.r.Hit("mon/ondemand-fulfilled")
		addDelta(want, used.Addr, o.Denom, o.Price.Neg())
		addDelta(want, o.Recipient, o.Denom, o.Price)
		if np == nil || np.Target != used.Addr {
			m.violate("C05/finalize_pays_fulfiller/packet-not-redirected-to-lp", op)
		}
		switch {
		case o.Price.GT(used.Max):
			m.violate("C05/lp_limits/price-above-max-price", fmt.Sprintf("%s: price %s max %s", op, o.Price, used.Max))
		case o.Price.GT(used.Limit.Sub(used.Spent)):
			m.violate("C05/lp_limits/spend-limit-exceeded", fmt.Sprintf("%s: price %s limit %s spent %s", op, o.Price, used.Limit, used.Spent))
		case o.Fee.LT(used.MinFee):
			m.violate("C05/lp_limits/fee-below-min-fee", fmt.Sprintf("%s: fee %s min %s", op, o.Fee, used.MinFee))
		case uint64(prev.H)-o.Creation < used.Age:
			m.violate("C05/lp_limits/order-younger-than-min-age", fmt.Sprintf("%s: age %d min %d", op, uint64(prev.H)-o.Creation, used.Age))
		case used.Denom != o.Denom:
			m.violate("C05/lp_limits/denom-not-listed", op)
		case used.RollappID != o.RollappID:
			m.violate("C05/lp_limits/rollapp-not-listed", op)
		}
	}
	m.expectDelta("C05/payment_exact/unexpected-balance-change-on-fulfilment", prev, cur, want)
}

// checkGrant: an authorised fulfilment through a grant respects the grant against the REAL order / packet
func (m *pkMon) checkGrant(prev, cur *pkSnap, o *pkOrder, p *pkPacket, kv map[string]string, op string) {
	lp, g := idxTok(kv["lp"]), idxTok(kv["g"])
	if lp == g {
		return // the LP acts for itself: no grant involved
	}
	var gr *pkGrant
	for i := range prev.GrantsS {
		if prev.GrantsS[i].Lp == lp && prev.GrantsS[i].Op == g {
			gr = &prev.GrantsS[i]
		}
	}
	if gr == nil {
		m.violate("C05/grant_limits/fulfilled-without-grant", op)
		return
	}
	ra := m.h.rname(o.RollappID)
	var c *pkCrit
	for i := range gr.Crit {
		if gr.Crit[i].Ra == ra {
			c = &gr.Crit[i]
			break
		}
	}
	if c == nil {
		m.violate("C05/grant_limits/rollapp-not-listed", op)
		return
	}
	m.r.Hit("mon/grant-spent")
	if len(c.Denoms) > 0 {
		ok := false
		for _, d := range c.Denoms {
			ok = ok || d == o.Denom
		}
		if !ok {
			m.violate("C05/grant_limits/denom-not-listed", op)
		}
	}
	if mx, ok := c.Max[o.Denom]; ok && o.Price.GT(mx) {
		m.violate("C05/grant_limits/price-above-max-price", fmt.Sprintf("%s: price %s max %s", op, o.Price, mx))
	}
	if !c.Share.Equal(rawDecS(kv["share"])) {
		m.violate("C05/grant_limits/operator-share-differs-from-grant", op)
	}
	if c.SV {
		if l := m.h.lastH[p.Ra]; p.PH > l {
			m.violate("C05/grant_limits/not-settlement-validated", fmt.Sprintf("%s: proof height %d latest %d", op, p.PH, l))
		}
	}
	if len(c.Limit) > 0 {
		lim, ok := c.Limit[o.Denom]
		if !ok || lim.LT(o.Price) {
			m.violate("C05/grant_limits/spend-limit-exceeded", fmt.Sprintf("%s: price %s limit %v", op, o.Price, c.Limit))
		} else {
			// the limit left afterwards
			left := lim.Sub(o.Price)
			var after *pkCrit
			for i := range cur.GrantsS {
				if cur.GrantsS[i].Lp == lp && cur.GrantsS[i].Op == g {
					for j := range cur.GrantsS[i].Crit {
						if cur.GrantsS[i].Crit[j].Ra == ra {
							after = &cur.GrantsS[i].Crit[j]
						}
					}
				}
			}
			total := math.ZeroInt()
			for d, v := range c.Limit {
				if d != o.Denom {
					total = total.Add(v)
				}
			}
			if after == nil {
				if !left.IsZero() || !total.IsZero() {
					m.violate("C05/grant_limits/criteria-removed-with-limit-left", op)
				}
			} else if al, ok := after.Limit[o.Denom]; (ok && !al.Equal(left)) || (!ok && !left.IsZero()) {
				m.violate("C05/grant_limits/spend-limit-not-decremented-by-price", fmt.Sprintf("%s: %s -> %v", op, lim, after.Limit))
			}
		}
	}
	// minimum fee as a share of the REAL transfer amount
	minFee := c.MinFeePct.MulInt(p.Amount).TruncateInt()
	if o.Fee.LT(minFee) {
		m.violate("C05/grant_min_fee_on_real_amount/fee-below-min-share-of-real-amount",
			fmt.Sprintf("%s: order fee %s, packet amount %s, grant min fee share %s => min fee %s (message stated amount %s)", op, o.Fee, p.Amount, c.MinFeePct, minFee, kv["amt"]))
	}
}

// invariants evaluated on every state
func (m *pkMon) invariants(s *pkSnap) {
	app, ctx := m.h.f.App, m.h.f.Ctx
	seen := map[string]bool{}
	for i := range s.Packets {
		p := &s.Packets[i]
		if p.Ra < 0 || p.Chan == 2 {
			m.violate("C04/non_rollapp_never_delayed/packet-stored-for-plain-chain", p.Name)
		}
		if !p.Pending {
			if !s.finalizable(p) {
				m.violate("C04/release_only_final/finalized-packet-above-finalized-height", p.Name)
			}
			continue
		}
		// by key
		if q, err := app.DelayedAckKeeper.GetRollappPacket(ctx, p.Key); err != nil || q.Status != commontypes.Status_PENDING {
			m.violate("C04/pending_retrievable/pending-packet-not-found-by-key", p.Name)
		}
		// by beneficiary address
		if !seen[p.TargetAddr] {
			seen[p.TargetAddr] = true
			ps, err := app.DelayedAckKeeper.GetPendingPacketsByAddress(ctx, p.TargetAddr)
			if err != nil {
				m.violate("C04/pending_retrievable/by-address-query-fails-for-beneficiary-of-pending-packet",
					fmt.Sprintf("pending packets of %s (beneficiary of pending %s): %v", p.Target, p.Name, err))
			} else {
				got := map[string]bool{}
				for _, q := range ps {
					q := q
					got[string(q.RollappPacketKey())] = true
					if q.Status != commontypes.Status_PENDING {
						m.violate("C04/pending_retrievable/index-lists-non-pending-packet", m.h.pktName(&q))
					}
				}
				for j := range s.Packets {
					if x := &s.Packets[j]; x.Pending && x.TargetAddr == p.TargetAddr && !got[x.Key] {
						m.violate("C04/pending_retrievable/pending-packet-missing-from-beneficiary-index", x.Name)
					}
				}
				for k := range got {
					if x := s.packetByKey(k); x == nil || x.TargetAddr != p.TargetAddr {
						m.violate("C04/pending_retrievable/index-lists-packet-of-other-beneficiary", p.Target)
					}
				}
			}
		}
	}
	// the by-address query itself must work for every account
	for i := range m.h.actors {
		if ok, has := s.IndexOK[i]; has && !ok {
			m.r.Hit("mon/by-address-query-fails-on-dangling-index-entry") // the violation is reported where a pending packet is affected
		}
	}
	// orders
	cnt := map[string]int{}
	for i := range s.Orders {
		o := &s.Orders[i]
		cnt[o.PendKey]++
		p := s.packetByPend(o.PendKey)
		if p == nil {
			m.violate("C05/order_packet_bijection/order-without-packet", o.ID)
			continue
		}
		if p.Pending != o.Pending {
			m.violate("C05/order_packet_bijection/order-status-differs-from-packet-status", o.Name)
		}
		if _, fwd := m.h.fwdOf[[2]uint64{uint64(p.Chan), p.Seq}]; fwd && p.Type != "R" {
			// a packet the packet-forward middleware sent is settled towards the origin chain: an order for it
			// could only lose the fulfiller's funds (fix_pfm_forwarded_order)
			m.violate("C05/finalize_pays_fulfiller/order-created-for-forwarded-packet", o.Name)
		}
		if o.TrackingKey != p.Key {
			m.violate("C05/order_packet_bijection/tracking-key-is-not-the-packet-key", o.Name)
		}
		if o.RollappID != pkRollappIDs[p.Ra] || o.Type != p.Type || o.Denom != p.Denom {
			m.violate("C05/order_packet_bijection/order-fields-differ-from-packet", o.Name)
		}
		bf := math.ZeroInt()
		if p.Type == "R" {
			bf = m.bridgingFee(p.Amount)
		}
		if !o.Price.IsPositive() || !o.Price.Add(o.Fee).Add(bf).Equal(p.Amount) {
			m.violate("C05/price_identity/price-fee-bridging-fee-do-not-add-up",
				fmt.Sprintf("%s: price %s + fee %s + bridging fee %s != amount %s", o.Name, o.Price, o.Fee, bf, p.Amount))
		}
		if o.Fulfiller != "-" && p.Pending && p.Orig == "-" {
			m.violate("C05/finalize_pays_fulfiller/fulfilled-order-packet-not-redirected", o.Name)
		}
	}
	for k, n := range cnt {
		if n > 1 {
			m.violate("C05/order_packet_bijection/several-orders-for-one-packet", s.packetByPend(k).Name)
		}
	}
	for i := range s.LPs {
		if l := &s.LPs[i]; l.Spent.GT(l.Limit) {
			m.violate("C05/lp_limits/spent-above-spend-limit", fmt.Sprintf("lp %d: spent %s limit %s", l.ID, l.Spent, l.Limit))
		}
	}
}
