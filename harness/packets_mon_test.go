package harness

// model-independent monitors of C04 / C05 (evaluated on the implementation after every op)

type pkMon struct {
	h     *pkH
	r     *Run
	trace []string
	prev  *pkSnap
}

func newPkMon(h *pkH, r *Run) *pkMon { return &pkMon{h: h, r: r} }

func (m *pkMon) violate(sig, detail string) {
	m.r.Violate(sig, detail, append([]string(nil), m.trace...)...)
}

func (m *pkMon) check(op, res string, cur *pkSnap) {
	m.prev = cur
}
