package harness

import (
	"bytes"
	"fmt"
	"strconv"
	"time"

	storetypes "cosmossdk.io/store/types"

	lockuptypes "github.com/dymensionxyz/dymension/v3/x/lockup/types"
)

// C19, third pass — the lockup scans the hub calls and the first passes left unproved:
// LockIterator, LockIteratorAfterTime, AccountLockIteratorAfterTime(Denom),
// AccountLockIteratorLongerDuration(Denom), AccountLockIteratorDurationDenom.  The bounds are composed
// from the real (go:linkname) builders and storetypes.PrefixEndBytes exactly as iterator.go does; the
// entry is ANY of the reference keys the real lockRefKeys / durationLockRefKeys give a one-denom lock,
// so that the same op also asks whether a scan of one family / unlocking status returns a key of another.
//
//	lkscan2 <kind> <u> <A> <dn> <d> <T…7> | <u'> <fi> <B> <dn'> <d'> <t…7> <id>

var c19Lk2Kinds = []string{"all", "after", "accafter", "acclonger", "accdenafter", "accdenlonger", "accdendur"}

func c19ExecLock(r *Run, line string, f []string) (string, bool) {
	if f[0] != "lkscan2" {
		return "", false
	}
	if len(f) != 27 || f[13] != "|" {
		return "bad-op", true
	}
	kind := f[1]
	u := f[2] == "1"
	A, dn := unhex(f[3]), unhex(f[4])
	d, _ := strconv.ParseInt(f[5], 10, 64)
	T, ok1 := c19Time(f, 6)
	u2 := f[14] == "1"
	fi, _ := strconv.Atoi(f[15])
	B, dn2 := unhex(f[16]), unhex(f[17])
	d2, _ := strconv.ParseInt(f[18], 10, 64)
	t, ok2 := c19Time(f, 19)
	id, _ := strconv.ParseUint(f[26], 10, 64)
	if !ok1 || !ok2 {
		return "invalid-date", true
	}
	ks, err := c19StoredRefs(c19Lock(B, d2, t, [][]byte{dn2}, id), u2)
	if err != nil || fi >= len(ks) {
		return "err", true
	}
	k := ks[fi]
	up := lockupUnlockingPrefix
	tk, dk := lockupGetTimeKey(T), lockupGetDurationKey(time.Duration(d))
	var start, end []byte
	var fam int
	scanU := u
	sameA, sameDn := bytes.Equal(A, B), bytes.Equal(dn, dn2)
	c0 := func(x int64) int64 {
		if x < 0 {
			return 0
		}
		return x
	}
	var cond bool
	usesOwner, usesDenom := false, false
	switch kind {
	case "all":
		pfx := lockupCombineKeys(up(u), lockuptypes.KeyPrefixLockDuration)
		start, end, fam, cond = pfx, storetypes.PrefixEndBytes(pfx), 0, true
	case "after":
		pfx := lockupCombineKeys(up(true), lockuptypes.KeyPrefixLockTimestamp)
		start, end, fam, cond, scanU = storetypes.PrefixEndBytes(lockupCombineKeys(pfx, tk)), storetypes.PrefixEndBytes(pfx), 4, t.After(T), true
	case "accafter":
		pfx := lockupCombineKeys(up(true), lockuptypes.KeyPrefixAccountLockTimestamp, A)
		start, end, fam, cond, scanU = storetypes.PrefixEndBytes(lockupCombineKeys(pfx, tk)), storetypes.PrefixEndBytes(pfx), 5, sameA && t.After(T), true
		usesOwner = true
	case "acclonger":
		pfx := lockupCombineKeys(up(u), lockuptypes.KeyPrefixAccountLockDuration, A)
		start, end, fam, cond = lockupCombineKeys(pfx, dk), storetypes.PrefixEndBytes(pfx), 1, sameA && c0(d) <= c0(d2)
		usesOwner = true
	case "accdenafter":
		pfx := lockupCombineKeys(up(true), lockuptypes.KeyPrefixAccountDenomLockTimestamp, A, dn)
		start, end, fam, cond, scanU = storetypes.PrefixEndBytes(lockupCombineKeys(pfx, tk)), storetypes.PrefixEndBytes(pfx), 7, sameA && sameDn && t.After(T), true
		usesOwner, usesDenom = true, true
	case "accdenlonger":
		pfx := lockupCombineKeys(up(u), lockuptypes.KeyPrefixAccountDenomLockDuration, A, dn)
		start, end, fam, cond = lockupCombineKeys(pfx, dk), storetypes.PrefixEndBytes(pfx), 3, sameA && sameDn && c0(d) <= c0(d2)
		usesOwner, usesDenom = true, true
	case "accdendur":
		pfx := lockupCombineKeys(lockupCombineKeys(up(u), lockuptypes.KeyPrefixAccountDenomLockDuration, A, dn), dk)
		start, end, fam, cond = pfx, storetypes.PrefixEndBytes(pfx), 3, sameA && sameDn && c0(d) == c0(d2)
		usesOwner, usesDenom = true, true
	default:
		return "bad-op", true
	}
	in := c19In(start, end, k)
	want := fi == fam && u2 == scanU && cond
	hyp := T.Year() <= 9999 && t.Year() <= 9999 && T.Year() >= 0 && t.Year() >= 0
	if usesOwner {
		hyp = hyp && len(A) == len(B)
	}
	if usesDenom {
		hyp = hyp && len(dn) > 0 && !bytes.Contains(dn, []byte{0xff}) && !bytes.Contains(dn2, []byte{0xff})
	}
	switch {
	case fi != fam:
		r.Hit("lkscan2-entry-of-another-family")
	case u2 != scanU:
		r.Hit("lkscan2-entry-of-the-other-unlocking-status")
	}
	if in != want {
		if hyp {
			r.Violate("C19/lockup_scan/"+kind+"/membership", fmt.Sprintf("scan returned %v, expected %v (entry family index %d, unlocking %v)", in, want, fi, u2), line)
		} else {
			r.Hit("lockup-scan-outside-hypothesis-differs/" + kind)
		}
	}
	return strconv.FormatBool(in), true
}

// c19GenLock emits one lkscan2 op.
func c19GenLock(r *Run, g *Rng, emit func(kind, line string)) {
	kind := c19Lk2Kinds[g.Intn(len(c19Lk2Kinds))]
	fam := map[string]int{"all": 0, "after": 4, "accafter": 5, "acclonger": 1, "accdenafter": 7, "accdenlonger": 3, "accdendur": 3}[kind]
	timed := kind == "after" || kind == "accafter" || kind == "accdenafter"
	dnp := func() []byte { return []byte(c19Denoms[g.Intn(len(c19Denoms))]) }
	dur := func() int64 { return c19Durs[g.Intn(len(c19Durs))] }
	a, b := c19Owner(g), c19Owner(g)
	if g.Chance(55) {
		b = a
	}
	if g.Chance(10) && len(a) < 32 { // b extends a
		b = append(append([]byte{}, a...), make([]byte, 32-len(a))...)
	}
	dn, dn2 := dnp(), dnp()
	if g.Chance(55) {
		dn2 = dn
	}
	d, d2 := dur(), dur()
	if g.Chance(35) {
		d2 = d
	}
	T := c19GenTime(g, false)
	t := c19Near(g, T)
	if g.Chance(30) || t.Year() < 0 || t.Year() > 9999 {
		t = c19GenTime(g, false)
	}
	u := g.Intn(2)
	u2 := u
	if timed {
		u2 = 1
	}
	fi := fam
	switch {
	case g.Chance(12): // a key of another family of the same lock
		fi = g.Intn(8)
		if fi >= 4 {
			u2 = 1
		}
	case g.Chance(8): // the other unlocking status
		u2 = 1 - u2
		if u2 == 0 && fi >= 4 {
			fi -= 4
		}
	}
	emit("lkscan2-"+kind, fmt.Sprintf("lkscan2 %s %d %s %s %d %s | %d %d %s %s %d %s %d", kind, u, Hex(a), Hex(dn), d, c19TimeFields(T),
		u2, fi, Hex(b), Hex(dn2), d2, c19TimeFields(t), c19Num(g)))
}
