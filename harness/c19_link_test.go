package harness

import (
	"time"
	_ "unsafe" // go:linkname

	lockuptypes "github.com/dymensionxyz/dymension/v3/x/lockup/types"
	_ "github.com/dymensionxyz/dymension/v3/x/lockup/keeper"
)

// the lockup key builders are unexported functions of x/lockup/keeper; the harness reaches the real
// compiled functions by symbol name (nothing is re-implemented)

//go:linkname lockupCombineKeys github.com/dymensionxyz/dymension/v3/x/lockup/keeper.combineKeys
func lockupCombineKeys(keys ...[]byte) []byte

//go:linkname lockupGetTimeKey github.com/dymensionxyz/dymension/v3/x/lockup/keeper.getTimeKey
func lockupGetTimeKey(timestamp time.Time) []byte

//go:linkname lockupGetDurationKey github.com/dymensionxyz/dymension/v3/x/lockup/keeper.getDurationKey
func lockupGetDurationKey(duration time.Duration) []byte

//go:linkname lockupLockRefKeys github.com/dymensionxyz/dymension/v3/x/lockup/keeper.lockRefKeys
func lockupLockRefKeys(lock lockuptypes.PeriodLock) ([][]byte, error)

//go:linkname lockupDurationLockRefKeys github.com/dymensionxyz/dymension/v3/x/lockup/keeper.durationLockRefKeys
func lockupDurationLockRefKeys(lock lockuptypes.PeriodLock) ([][]byte, error)

//go:linkname lockupUnlockingPrefix github.com/dymensionxyz/dymension/v3/x/lockup/keeper.unlockingPrefix
func lockupUnlockingPrefix(isUnlocking bool) []byte
