package harness

import (
	"fmt"
	"strings"

	"cosmossdk.io/math"
)

// C16 generator: state-aware (reads the real state through the harness), ≈70 % valid ops and ≈30 %
// perturbed ones taken from the property's quantifier text (weights at 1e-18 % granularity, amounts
// that are not multiples of the weight denominators, several voters / validators / gauges).

var c16DYM = math.NewIntWithDecimal(1, 18)
var c16MaxW = math.NewIntWithDecimal(100, 18)

// header emits reset + hdr lines; gauge ids continue the chain's gauge counter
func c16Header(h *c16, emit func(string) string, minAlloc, minVP string, e0, e1 string, n1 int, third bool) {
	emit(fmt.Sprintf("reset %s %s", minAlloc, minVP))
	next := h.f.App.IncentivesKeeper.GetLastGaugeID(h.f.Ctx) + 1
	// the base state's gauges in id order (the model hands out ids itself: lastGauge + 1)
	for i, g := range h.baseG {
		emit(fmt.Sprintf("hdr bgauge %d", g))
		emit(fmt.Sprintf("hdr rollapp r%d %d", i, h.baseRa[i]))
	}
	emit(fmt.Sprintf("hdr gauge %d asset 1", next))
	emit(fmt.Sprintf("hdr gauge %d asset 1", next+1))
	emit(fmt.Sprintf("hdr gauge %d asset 0", next+2))
	emit(fmt.Sprintf("hdr egauge %d r0 1 %s 1", next+3, e0))
	emit(fmt.Sprintf("hdr egauge %d r1 0 %s %d", next+4, e1, n1))
	if third {
		emit(fmt.Sprintf("hdr egauge %d r0 0 %s 2", next+5, e1))
	}
}

func c16Amt(rng *Rng) math.Int {
	switch rng.Intn(12) {
	case 0:
		return math.NewInt(int64(1 + rng.Intn(9)))
	case 1:
		return c16DYM
	case 2:
		return c16DYM.AddRaw(1)
	case 3:
		return c16DYM.SubRaw(1)
	case 4:
		return c16DYM.MulRaw(int64(1 + rng.Intn(20))).AddRaw(int64(rng.Intn(1000)))
	case 5:
		return c16DYM.QuoRaw(2).AddRaw(int64(rng.Intn(3)))
	case 6:
		return math.NewInt(int64(rng.Intn(1 << 30)))
	case 7:
		return c16DYM.MulRaw(int64(1 + rng.Intn(5)))
	case 8:
		return math.NewIntFromUint64(rng.U64() % 4_000000000_000000000).MulRaw(7).AddRaw(1)
	default:
		return math.NewIntFromUint64(rng.U64()%8_000000000_000000000 + 1_000000000_000000000)
	}
}

func c16Weight(rng *Rng, lo, hi math.Int) math.Int {
	if hi.LT(lo) {
		return hi
	}
	span := hi.Sub(lo).AddRaw(1)
	var w math.Int
	switch rng.Intn(8) {
	case 0:
		w = c16DYM.MulRaw(int64(1 + rng.Intn(100))) // whole per cent
	case 1:
		w = math.NewIntWithDecimal(50, 18)
	case 2:
		w, _ = math.NewIntFromString("33333333333333333333")
	case 3:
		w = lo
	case 4:
		w = hi
	case 5:
		w = c16DYM.MulRaw(int64(1 + rng.Intn(60))).AddRaw(int64(1 + rng.Intn(999)))
	default:
		// uniform in [lo,hi] at 1e-18 % granularity
		x := math.NewIntFromUint64(rng.U64()).Mul(math.NewIntFromUint64(rng.U64()))
		w = lo.Add(x.Mod(span))
	}
	if w.LT(lo) {
		w = lo
	}
	if w.GT(hi) {
		w = hi
	}
	return w
}

func (h *c16) votable() []uint64 {
	gs := append([]uint64(nil), h.assetG...)
	gs = append(gs, h.baseG...)
	gs = append(gs, h.raGauge...)
	for _, g := range h.eG {
		if g == h.eG[0] { // perpetual endorsement gauge: votable too (not a rollapp gauge)
			gs = append(gs, g)
		}
	}
	return gs
}

func c16ValidWeights(h *c16, rng *Rng) string {
	gs := h.votable()
	// rollapp gauges more often: they carry the endorsements
	k := 1 + rng.Intn(4)
	perm := map[uint64]bool{}
	var ids []uint64
	for len(ids) < k {
		var g uint64
		if rng.Chance(55) {
			g = h.raGauge[rng.Intn(len(h.raGauge))]
		} else {
			g = gs[rng.Intn(len(gs))]
		}
		if !perm[g] {
			perm[g] = true
			ids = append(ids, g)
		}
	}
	lo := h.minAl
	if lo.LT(math.OneInt()) {
		lo = math.OneInt()
	}
	rem := c16MaxW
	var parts []string
	for i, g := range ids {
		left := int64(len(ids) - i - 1)
		hi := rem.Sub(lo.MulRaw(left))
		if hi.LT(lo) {
			break
		}
		w := c16Weight(rng, lo, hi)
		if i == len(ids)-1 && rng.Chance(40) {
			w = hi // use the full 100 %
		}
		rem = rem.Sub(w)
		parts = append(parts, fmt.Sprintf("%d:%s", g, w))
	}
	if len(parts) == 0 {
		return "-"
	}
	return strings.Join(parts, ",")
}

func c16BadWeights(h *c16, rng *Rng) (string, string) {
	g0, g1 := h.raGauge[0], h.assetG[0]
	switch rng.Intn(9) {
	case 0:
		return fmt.Sprintf("%d:%s,%d:1", g0, c16MaxW, g1), "vote-total-weight-101pct"
	case 1:
		return fmt.Sprintf("%d:%s,%d:%s", g0, c16DYM.MulRaw(10), g0, c16DYM.MulRaw(20)), "vote-duplicate-gauge"
	case 2:
		return fmt.Sprintf("%d:0", g0), "vote-zero-weight"
	case 3:
		return fmt.Sprintf("%d:-%s", g0, c16DYM), "vote-negative-weight"
	case 4:
		return fmt.Sprintf("%d:%s", g0, c16MaxW.AddRaw(1)), "vote-weight-above-max"
	case 5:
		if h.minAl.GT(math.OneInt()) {
			return fmt.Sprintf("%d:%s", g0, h.minAl.SubRaw(1)), "vote-weight-below-min-allocation"
		}
		return fmt.Sprintf("%d:1", g0), "vote-weight-one-unit"
	case 6:
		return fmt.Sprintf("%d:%s", 99999, c16DYM.MulRaw(10)), "vote-unknown-gauge"
	case 7:
		return fmt.Sprintf("%d:%s,%d:%s", g1, c16DYM.MulRaw(10), h.nonPerp, c16DYM.MulRaw(10)), "vote-non-perpetual-gauge"
	default:
		return "-", "vote-empty-weights"
	}
}

func c16GenTrace(h *c16, rng *Rng, emit func(string) string, nOps int) {
	r := h.r
	dym := c16DYM
	var ma, mv string
	switch rng.Intn(20) {
	case 0, 1, 2:
		ma, mv = "1", "1"
		r.Hit("params-min-1-1")
	case 3, 4, 5:
		ma, mv = dym.QuoRaw(100).AddRaw(7).String(), dym.MulRaw(3).AddRaw(1).String()
	case 6, 7:
		ma, mv = "0", dym.String()
	case 8, 9:
		ma, mv = dym.String(), "1"
	default:
		ma, mv = dym.String(), dym.String() // module defaults
		r.Hit("params-default")
	}
	e0 := dym.MulRaw(int64(1 + rng.Intn(50))).AddRaw(int64(rng.Intn(7))).String()
	e1 := dym.MulRaw(int64(1 + rng.Intn(50))).AddRaw(int64(rng.Intn(7))).String()
	if rng.Chance(10) {
		e1 = fmt.Sprint(1 + rng.Intn(5)) // tiny gauge: zero-amount epoch rewards after QuoInt
	}
	c16Header(h, emit, ma, mv, e0, e1, 2+rng.Intn(3), rng.Chance(30))

	act := func() int { return rng.Intn(c16NActors) }
	val := func() int { return rng.Intn(c16NVals) }
	voters := func() []int {
		var vs []int
		for a := range h.actors {
			if _, ok := h.vote(a); ok {
				vs = append(vs, a)
			}
		}
		return vs
	}
	delegs := func(a int) []int {
		var vs []int
		for v := 0; v < c16NVals; v++ {
			if _, ok := h.svp(h.f.Ctx, a, v); ok {
				vs = append(vs, v)
			}
		}
		return vs
	}
	sinceBlock := 0
	emit("begin 6")
	for i := 0; i < nOps; i++ {
		if sinceBlock >= 1+rng.Intn(4) {
			emit("end")
			dt := 6
			switch rng.Intn(20) {
			case 0, 1, 2, 3:
				dt = 3601
			case 4, 5:
				dt = 86401
			case 6, 7, 8:
				dt = 604801
			case 9:
				dt = 1209700
			}
			emit(fmt.Sprintf("begin %d", dt))
			sinceBlock = 0
		}
		sinceBlock++
		perturb := rng.Chance(30)
		if rng.Chance(7) {
			// world building and parameter ops in the middle of the trace
			switch w := rng.Intn(10); {
			case w < 3: // a rollapp is created (real MsgCreateRollapp -> RollappCreated hook)
				if len(h.raGauge) < len(c16RollappIDs) && !perturb {
					emit(fmt.Sprintf("addrollapp r%d", len(h.raGauge)))
				} else {
					emit(fmt.Sprintf("addrollapp r%d", rng.Intn(len(h.raGauge))))
				}
			case w < 5: // a gauge is created: endorsement gauge (of the new rollapp if there is one) or asset gauge
				next := h.f.App.IncentivesKeeper.GetLastGaugeID(h.f.Ctx) + 1
				if rng.Bool() {
					ri := len(h.raGauge) - 1
					if rng.Chance(30) {
						ri = rng.Intn(len(h.raGauge))
					}
					perp := rng.Intn(2)
					emit(fmt.Sprintf("hdr egauge %d r%d %d %s %d", next, ri, perp, c16Amt(rng), 1+rng.Intn(3)))
					r.Hit("gauge-created-mid-trace-endorsement")
				} else {
					emit(fmt.Sprintf("hdr gauge %d asset 1", next))
					r.Hit("gauge-created-mid-trace-asset")
				}
			default: // MsgUpdateParams
				ma2, mv2 := h.minAl, h.minVP
				switch rng.Intn(6) {
				case 0:
					mv2 = h.minVP.Add(c16Amt(rng)) // raise: votes cast under the lower minimum stay
				case 1:
					mv2 = h.minVP.QuoRaw(2)
				case 2:
					mv2 = math.OneInt()
				case 3:
					ma2 = []math.Int{math.ZeroInt(), math.OneInt(), dym, c16MaxW}[rng.Intn(4)]
				case 4:
					// just above the power of some voter
					if vs := voters(); len(vs) > 0 {
						v, _ := h.vote(vs[rng.Intn(len(vs))])
						mv2 = v.VotingPower.AddRaw(int64(rng.Intn(3)) - 1)
						if mv2.IsNegative() {
							mv2 = math.ZeroInt()
						}
					}
				default:
					mv2 = dym.MulRaw(int64(rng.Intn(12)))
				}
				if mv2.LT(math.OneInt()) {
					// MinVotingPower = 0 is accepted by Params.Validate but lets a delegator without stake store a
					// vote with power 0, which the module's own `votes` invariant (Vote.Validate: > 0) rejects;
					// the runs keep MinVotingPower >= 1 (registry assumption)
					mv2 = math.OneInt()
				}
				if perturb {
					switch rng.Intn(3) {
					case 0:
						mv2 = math.NewInt(-1)
					case 1:
						ma2 = c16MaxW.AddRaw(1)
					default:
						ma2 = math.NewInt(-5)
					}
				}
				emit(fmt.Sprintf("setparams %s %s", ma2, mv2))
			}
			continue
		}
		switch k := rng.Intn(100); {
		case k < 20: // delegate
			a, v := act(), val()
			amt := c16Amt(rng)
			if vt, ok := h.vote(a); ok && rng.Chance(40) {
				// raise by an amount whose weighted split is not integral
				_ = vt
				amt = math.NewInt(int64(1 + rng.Intn(5)))
				r.Hit("delegate-tiny-raise-by-voter")
			}
			if perturb {
				switch rng.Intn(3) {
				case 0:
					amt = math.ZeroInt()
					r.Hit("delegate-zero")
				case 1:
					amt = dym.MulRaw(1_000_000)
					r.Hit("delegate-above-balance")
				default:
					emit(fmt.Sprintf("delegate a%d v7 %s", a, amt))
					r.Hit("delegate-unknown-validator")
					continue
				}
			}
			emit(fmt.Sprintf("delegate a%d v%d %s", a, v, amt))
		case k < 33: // undelegate
			a := act()
			ds := delegs(a)
			if len(ds) == 0 {
				if perturb {
					emit(fmt.Sprintf("undelegate a%d v%d %s", a, val(), c16Amt(rng)))
					r.Hit("undelegate-without-delegation")
				}
				continue
			}
			v := ds[rng.Intn(len(ds))]
			cur, _ := h.svp(h.f.Ctx, a, v)
			var amt math.Int
			switch rng.Intn(6) {
			case 0:
				amt = cur
				r.Hit("undelegate-all")
			case 1:
				amt = math.NewInt(int64(1 + rng.Intn(5)))
			case 2:
				amt = cur.QuoRaw(2).AddRaw(1)
			case 3:
				amt = cur.SubRaw(int64(rng.Intn(3)))
			default:
				amt = c16Amt(rng)
				if amt.GT(cur) {
					amt = cur.QuoRaw(3).AddRaw(1)
				}
			}
			if perturb && rng.Bool() {
				amt = cur.AddRaw(int64(1 + rng.Intn(3)))
				r.Hit("undelegate-above-delegation")
			}
			if !amt.IsPositive() {
				amt = math.OneInt()
			}
			emit(fmt.Sprintf("undelegate a%d v%d %s", a, v, amt))
		case k < 40: // redelegate
			a := act()
			ds := delegs(a)
			if len(ds) == 0 {
				continue
			}
			v := ds[rng.Intn(len(ds))]
			w := (v + 1 + rng.Intn(c16NVals-1)) % c16NVals
			if perturb && rng.Chance(30) {
				w = v
				r.Hit("redelegate-to-self")
			}
			cur, _ := h.svp(h.f.Ctx, a, v)
			amt := cur
			if rng.Chance(60) {
				amt = cur.QuoRaw(int64(2 + rng.Intn(3))).AddRaw(int64(rng.Intn(3)))
			} else {
				r.Hit("redelegate-all")
			}
			if !amt.IsPositive() {
				amt = math.OneInt()
			}
			emit(fmt.Sprintf("redelegate a%d v%d v%d %s", a, v, w, amt))
		case k < 44: // cancel unbonding
			var keys [][2]int
			for a := 0; a < c16NActors; a++ {
				for v := 0; v < c16NVals; v++ {
					if len(h.unb[[2]int{a, v}]) > 0 {
						keys = append(keys, [2]int{a, v})
					}
				}
			}
			if len(keys) == 0 {
				continue
			}
			kk := keys[rng.Intn(len(keys))]
			es := h.unb[kk]
			e := es[rng.Intn(len(es))]
			amt := e.amt
			if rng.Bool() {
				amt = e.amt.QuoRaw(2).AddRaw(1)
			}
			ht := e.height
			if perturb {
				if rng.Bool() {
					ht++
					r.Hit("cancel-wrong-height")
				} else {
					amt = e.amt.AddRaw(1)
					r.Hit("cancel-above-entry")
				}
			}
			emit(fmt.Sprintf("cancel a%d v%d %s %d", kk[0], kk[1], amt, ht))
		case k < 60: // vote
			a := act()
			if perturb {
				ws, br := c16BadWeights(h, rng)
				r.Hit(br)
				emit(fmt.Sprintf("vote a%d %s", a, ws))
				continue
			}
			if h.stakeTotal(h.f.Ctx, a).LT(h.minVP) && rng.Chance(85) {
				// make the vote possible first
				emit(fmt.Sprintf("delegate a%d v%d %s", a, val(), h.minVP.Add(dym.MulRaw(int64(rng.Intn(9)))).AddRaw(int64(rng.Intn(100)))))
			}
			emit(fmt.Sprintf("vote a%d %s", a, c16ValidWeights(h, rng)))
		case k < 65: // revoke
			vs := voters()
			if perturb {
				emit(fmt.Sprintf("revoke a%d", act()))
				continue
			}
			if len(vs) == 0 {
				continue
			}
			emit(fmt.Sprintf("revoke a%d", vs[rng.Intn(len(vs))]))
		case k < 82: // claim
			vs := voters()
			if len(vs) == 0 || len(h.eG) == 0 {
				if perturb {
					emit(fmt.Sprintf("claim a%d %d", act(), h.eG[0]))
					r.Hit("claim-without-vote")
				}
				continue
			}
			a := vs[rng.Intn(len(vs))]
			g := h.eG[rng.Intn(len(h.eG))]
			if !perturb {
				// a voter who may claim, on a gauge of a rollapp it endorses
				var cand [][2]int
				for _, x := range vs {
					if h.blacklisted(x) && !rng.Chance(10) {
						continue
					}
					v, _ := h.vote(x)
					for gi, eg := range h.eG {
						if !v.GetGaugePower(h.raGauge[h.eGr[eg]]).IsZero() {
							cand = append(cand, [2]int{x, gi})
						}
					}
				}
				if len(cand) == 0 {
					continue
				}
				c := cand[rng.Intn(len(cand))]
				a, g = c[0], h.eG[c[1]]
			}
			if perturb {
				switch rng.Intn(4) {
				case 0:
					g = h.assetG[0]
					r.Hit("claim-asset-gauge")
				case 1:
					g = h.raGauge[0]
					r.Hit("claim-rollapp-gauge")
				case 2:
					g = 99999
					r.Hit("claim-unknown-gauge")
				default:
					a = act()
				}
			}
			if h.blacklisted(a) {
				r.Hit("claim-while-blacklisted")
			}
			emit(fmt.Sprintf("claim a%d %d", a, g))
		case k < 86: // slash
			f := []string{"0.05", "0.000000000000000001", "0.333333333333333333", "0.5", "0.01", "1"}[rng.Intn(6)]
			if f == "1" && !rng.Chance(20) {
				f = "0.1"
			}
			r.Hit("slash")
			if rng.Chance(55) {
				// infraction some blocks back: unbonding delegations / redelegations started since are slashed
				// too (the trace's blocks are few, so "back" mostly reaches the start of the trace)
				emit(fmt.Sprintf("slash v%d %s %d", val(), f, 1+rng.Intn(40)))
			} else {
				emit(fmt.Sprintf("slash v%d %s", val(), f))
			}
		case k < 90: // fund an endorsement gauge
			g := h.eG[rng.Intn(len(h.eG))]
			if perturb && rng.Bool() {
				g = 99999
			}
			emit(fmt.Sprintf("fund %d %s", g, c16Amt(rng)))
		default: // a voter changes stake so that it ends just below / at the minimum
			vs := voters()
			if len(vs) == 0 {
				continue
			}
			a := vs[rng.Intn(len(vs))]
			ds := delegs(a)
			if len(ds) == 0 {
				continue
			}
			v := ds[rng.Intn(len(ds))]
			tot := h.stakeTotal(h.f.Ctx, a)
			cur, _ := h.svp(h.f.Ctx, a, v)
			need := tot.Sub(h.minVP) // undelegating need+1 falls below the minimum
			amt := need.AddRaw(int64(rng.Intn(3)) - 1 + 1)
			if amt.GT(cur) || !amt.IsPositive() {
				continue
			}
			r.Hit("undelegate-to-min-boundary")
			emit(fmt.Sprintf("undelegate a%d v%d %s", a, v, amt))
		}
	}
	emit("end")
}

// c16Corpus: the shortest histories for each defect, found or suspected, repaired or not (they are
// hypotheses: every verdict comes from the monitors evaluating the real code; on a repaired tree the
// corresponding monitors simply stay silent).
func c16Corpus(h *c16, emit func(string) string, endTrace func()) {
	dym := c16DYM
	def := dym.String()
	next := func() uint64 { return h.f.App.IncentivesKeeper.GetLastGaugeID(h.base) + 1 }
	g0 := next() // asset gauges g0, g0+1; endorsement gauges g0+3 (r0, perpetual), g0+4 (r1)
	ra0 := h.baseRa[0]
	hundred := dym.MulRaw(100).String()
	half := math.NewIntWithDecimal(50, 18).String()

	// (1) staking hook merges applyWeights(diff): 10^18+1 at 50/50, then 1 more
	c16Header(h, emit, def, def, hundred, hundred, 2, false)
	emit("begin 6")
	emit(fmt.Sprintf("delegate a0 v0 %s", dym.AddRaw(1)))
	emit(fmt.Sprintf("vote a0 %d:%s,%d:%s", g0, half, g0+1, half))
	emit("delegate a0 v0 1")
	emit("end")
	endTrace()

	// (1b) the Lean witness `f9ops` itself: 5 -> 6 at 50 % (MinVotingPower 1): stored 2, vote implies 3
	c16Header(h, emit, "1", "1", hundred, hundred, 2, false)
	emit("begin 6")
	emit("delegate a0 v0 5")
	emit(fmt.Sprintf("vote a0 %d:%s", g0, half))
	emit("delegate a0 v0 1")
	emit("end")
	endTrace()

	// (2) validator slash: bonded power changes, no hook
	c16Header(h, emit, def, def, hundred, hundred, 2, false)
	emit("begin 6")
	emit(fmt.Sprintf("delegate a0 v0 %s", dym.MulRaw(2)))
	emit(fmt.Sprintf("vote a0 %d:%s", g0, half))
	emit("slash v0 0.5")
	emit("end")
	endTrace()

	// (2b) slash below the minimum: the vote stays
	c16Header(h, emit, def, def, hundred, hundred, 2, false)
	emit("begin 6")
	emit(fmt.Sprintf("delegate a0 v0 %s", dym.AddRaw(5)))
	emit(fmt.Sprintf("vote a0 %d:%s", g0, half))
	emit("slash v0 0.5")
	emit("end")
	endTrace()

	// (3) claim uses the current power against the epoch snapshot
	c16Header(h, emit, def, def, hundred, hundred, 2, false)
	emit("begin 6")
	emit(fmt.Sprintf("delegate a0 v0 %s", dym.MulRaw(10)))
	emit(fmt.Sprintf("delegate a1 v0 %s", dym.MulRaw(10)))
	emit(fmt.Sprintf("vote a0 %d:%s", ra0, c16MaxW))
	emit(fmt.Sprintf("vote a1 %d:%s", ra0, c16MaxW))
	emit("end")
	emit("begin 604801")
	emit(fmt.Sprintf("delegate a0 v0 %s", dym.MulRaw(20)))
	emit(fmt.Sprintf("claim a0 %d", g0+3))
	emit(fmt.Sprintf("claim a1 %d", g0+3))
	emit("end")
	endTrace()

	// (4) blacklist is cleared by the end of ANY epoch identifier: claim, hour passes, claim again
	c16Header(h, emit, def, def, hundred, hundred, 2, false)
	emit("begin 6")
	emit(fmt.Sprintf("delegate a0 v0 %s", dym.MulRaw(10)))
	emit(fmt.Sprintf("delegate a1 v0 %s", dym.MulRaw(10)))
	emit(fmt.Sprintf("vote a0 %d:%s", ra0, c16MaxW))
	emit(fmt.Sprintf("vote a1 %d:%s", ra0, c16MaxW))
	emit("end")
	emit("begin 604801")
	emit(fmt.Sprintf("claim a0 %d", g0+3))
	emit("end")
	emit("begin 6")
	emit(fmt.Sprintf("claim a0 %d", g0+3))
	emit(fmt.Sprintf("claim a1 %d", g0+3))
	emit("end")
	endTrace()

	// (5) vote, an hour epoch ends, claim in the same distribution epoch
	c16Header(h, emit, def, def, hundred, hundred, 2, false)
	emit("begin 6")
	emit(fmt.Sprintf("delegate a1 v0 %s", dym.MulRaw(10)))
	emit(fmt.Sprintf("vote a1 %d:%s", ra0, c16MaxW))
	emit("end")
	emit("begin 604801")
	emit("end")
	emit("begin 6")
	emit(fmt.Sprintf("delegate a0 v1 %s", dym.MulRaw(10)))
	emit(fmt.Sprintf("vote a0 %d:%s", ra0, c16MaxW))
	emit("end")
	emit("begin 6")
	emit(fmt.Sprintf("claim a0 %d", g0+3))
	emit("end")
	endTrace()

	// (7) Merge keeps the tails unfiltered: after the hook lost one unit, pruning the vote stores −1
	c16Header(h, emit, def, "1", hundred, hundred, 2, false)
	emit("begin 6")
	emit("delegate a0 v0 1")
	emit(fmt.Sprintf("vote a0 %d:%s", g0, half))
	emit("delegate a0 v0 1")
	emit("undelegate a0 v0 2")
	emit("end")
	endTrace()

	// (8) mixed votes: an asset gauge with a LOWER id than the rollapp gauge in the same vote, two voters
	// on the same rollapp, a re-vote, a hook and a revoke; then claims after the distribution epoch
	c16Header(h, emit, def, def, hundred, hundred, 2, false)
	emit("begin 6")
	emit(fmt.Sprintf("delegate a0 v0 %s", dym.MulRaw(10).AddRaw(7)))
	emit(fmt.Sprintf("delegate a1 v1 %s", dym.MulRaw(10).AddRaw(3)))
	emit(fmt.Sprintf("delegate a2 v1 %s", dym.MulRaw(5)))
	emit(fmt.Sprintf("vote a0 %d:%s,%d:%s", h.baseG[0], half, ra0, half))
	emit(fmt.Sprintf("vote a1 %d:%s,%d:%s", ra0, half, h.baseG[0], half))
	emit(fmt.Sprintf("vote a2 %d:%s,%d:%s,%d:%s", h.baseG[0], "30000000000000000001", h.baseG[1], "19999999999999999999", h.baseRa[1], half))
	emit(fmt.Sprintf("delegate a0 v0 %s", dym.AddRaw(1)))
	emit("revoke a2")
	emit("end")
	emit("begin 604801")
	emit(fmt.Sprintf("claim a0 %d", g0+3))
	emit(fmt.Sprintf("claim a1 %d", g0+3))
	emit("end")
	endTrace()

	// (9) world building mid-trace: a third rollapp is created by a real MsgCreateRollapp, gets an
	// endorsement gauge, is voted for; after the distribution epoch its endorsers claim
	c16Header(h, emit, def, def, hundred, hundred, 2, false)
	emit("begin 6")
	emit(fmt.Sprintf("delegate a0 v0 %s", dym.MulRaw(10).AddRaw(7)))
	emit(fmt.Sprintf("delegate a1 v1 %s", dym.MulRaw(30)))
	emit(fmt.Sprintf("vote a0 %d:%s", ra0, half))
	emit("addrollapp r2")
	emit("addrollapp r2")
	emit("addrollapp r0")
	emit(fmt.Sprintf("hdr egauge %d r2 1 %s 1", g0+6, hundred))
	emit(fmt.Sprintf("hdr gauge %d asset 1", g0+7))
	emit(fmt.Sprintf("vote a0 %d:%s,%d:%s", ra0, half, g0+5, "33333333333333333333"))
	emit(fmt.Sprintf("vote a1 %d:%s,%d:%s", g0+5, half, g0+7, half))
	emit("end")
	emit("begin 604801")
	emit(fmt.Sprintf("claim a0 %d", g0+6))
	emit(fmt.Sprintf("claim a1 %d", g0+6))
	emit("end")
	endTrace()

	// (10) MsgUpdateParams raises MinVotingPower above a stored vote: the vote stays (SetParams does not
	// revisit votes); the voter's next hook compares with the new minimum and prunes; invalid params
	c16Header(h, emit, def, def, hundred, hundred, 2, false)
	emit("begin 6")
	emit(fmt.Sprintf("delegate a0 v0 %s", dym.MulRaw(5)))
	emit(fmt.Sprintf("delegate a1 v0 %s", dym.MulRaw(9)))
	emit(fmt.Sprintf("vote a0 %d:%s", ra0, half))
	emit(fmt.Sprintf("vote a1 %d:%s", ra0, half))
	emit(fmt.Sprintf("setparams %s %s", def, dym.MulRaw(8)))
	emit(fmt.Sprintf("setparams %s -1", def))
	emit(fmt.Sprintf("setparams %s 1", c16MaxW.AddRaw(1)))
	emit(fmt.Sprintf("vote a0 %d:%s", ra0, c16MaxW))
	emit("delegate a0 v0 1")
	emit(fmt.Sprintf("setparams 1 %s", dym))
	emit(fmt.Sprintf("vote a0 %d:7", ra0))
	emit("end")
	endTrace()

	// (11) slash with an earlier infraction height while a redelegation from the slashed validator exists:
	// SlashRedelegation -> Unbond fires the voter's hook on the destination validator
	c16Header(h, emit, def, def, hundred, hundred, 2, false)
	emit("begin 6")
	emit(fmt.Sprintf("delegate a0 v0 %s", dym.MulRaw(10).AddRaw(3)))
	emit(fmt.Sprintf("delegate a1 v0 %s", dym.MulRaw(4)))
	emit(fmt.Sprintf("vote a0 %d:%s,%d:%s", ra0, half, g0, "33333333333333333333"))
	emit(fmt.Sprintf("vote a1 %d:%s", ra0, half))
	emit("end")
	emit("begin 6")
	emit(fmt.Sprintf("redelegate a0 v0 v1 %s", dym.MulRaw(6).AddRaw(1)))
	emit(fmt.Sprintf("redelegate a1 v0 v2 %s", dym.MulRaw(4)))
	emit(fmt.Sprintf("undelegate a0 v0 %s", dym))
	emit("end")
	emit("begin 6")
	emit("slash v0 0.333333333333333333 5")
	emit("slash v0 1 5")
	emit("end")
	endTrace()

	// (12) a FINISHED endorsement gauge keeps its last EpochRewards (only active gauges are updated at the
	// epoch end) and Claim does not look at the gauge's state: the sole endorser takes the whole 1-epoch
	// gauge, and takes the same amount again in the next distribution epoch — out of the other gauge's coins
	c16Header(h, emit, def, def, hundred, hundred, 1, false)
	emit("begin 6")
	emit(fmt.Sprintf("delegate a1 v0 %s", dym.MulRaw(10)))
	emit(fmt.Sprintf("vote a1 %d:%s", h.baseRa[1], c16MaxW))
	emit("end")
	emit("begin 604801")
	emit(fmt.Sprintf("claim a1 %d", g0+4))
	emit("end")
	emit("begin 604801")
	emit(fmt.Sprintf("claim a1 %d", g0+4))
	emit("end")
	endTrace()

	// (6) not a property clause, a model branch: EpochShares = 0 with non-zero power => big.Int.Quo
	// by zero panics inside the claim (a failed transaction)
	c16Header(h, emit, "1", "1", hundred, hundred, 2, false)
	emit("begin 6")
	emit("delegate a0 v0 1")
	emit(fmt.Sprintf("vote a0 %d:%s", ra0, half))
	emit("end")
	emit("begin 604801")
	emit(fmt.Sprintf("delegate a0 v0 %s", dym))
	emit(fmt.Sprintf("claim a0 %d", g0+3))
	emit("end")
	endTrace()
}
