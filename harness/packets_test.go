package harness

// TestPackets — correspondence run + monitors for C04 (delayed packets released only after finality,
// exactly once) and C05 (eIBC orders).  PACKETS_FOCUS=C04|C05 shifts the generator's weights.

import (
	"crypto/sha256"
	"fmt"
	"os"
	"path/filepath"
	"runtime"
	"sort"
	"strconv"
	"strings"
	"testing"

	"cosmossdk.io/math"

	commontypes "github.com/dymensionxyz/dymension/v3/x/common/types"
)

// ---- generator -------------------------------------------------------------------------------

type pkGen struct {
	g       *Rng
	h       *pkH
	r       *Run
	focus   string
	nextRcv []uint64
	grants  map[[2]int]string // (lp, op) -> crit spec of the last grant op
}

func (c *pkGen) actor() string {
	switch x := c.g.Intn(100); {
	case x < 90:
		return "a" + strconv.Itoa(c.g.Intn(c.h.p.NActors))
	case x < 96:
		return "a" + strconv.Itoa(c.h.p.NActors) // address without an account
	default:
		return "a77" // unknown address
	}
}

func (c *pkGen) funded() string { return "a" + strconv.Itoa(c.g.Intn(c.h.p.NActors)) }

func (c *pkGen) chanIdx() int {
	switch x := c.g.Intn(100); {
	case x < 45:
		return 0
	case x < 70:
		return 1
	case x < 90:
		return 2
	default:
		return 3
	}
}

func (c *pkGen) raOfChan(ci int) int {
	if ci < len(c.h.chans) {
		return c.h.chans[ci].Rollapp
	}
	return -1
}

// proof heights around the rollapp's finalized / latest heights
func (c *pkGen) proofHeight(s *pkSnap, ri int) uint64 {
	fin, latest := uint64(0), uint64(0)
	if ri >= 0 {
		if s.FinH[ri] >= 0 {
			fin = uint64(s.FinH[ri])
		}
		latest = c.h.lastH[ri]
	}
	switch x := c.g.Intn(100); {
	case x < 8:
		c.r.Hit("ph/at-finalized")
		return fin
	case x < 14:
		if fin > 0 {
			c.r.Hit("ph/below-finalized")
			return fin - 1
		}
		return fin
	case x < 34:
		c.r.Hit("ph/finalized+1")
		return fin + 1
	case x < 60:
		c.r.Hit("ph/in-pending-state")
		if latest > fin {
			return fin + 1 + uint64(c.g.Intn(int(latest-fin)))
		}
		return fin + 1
	case x < 80:
		c.r.Hit("ph/beyond-latest")
		return latest + 1 + uint64(c.g.Intn(6))
	case x < 83:
		c.r.Hit("ph/zero")
		return 0
	case x < 86:
		c.r.Hit("ph/huge")
		return c.g.BoundaryU64(latest)
	default:
		return latest + uint64(c.g.Intn(3))
	}
}

var pkAmounts = []int64{1, 2, 3, 9, 10, 11, 99, 100, 101, 500, 999, 1000, 1001, 1999, 2000, 12345, 100000}

func (c *pkGen) amount() int64 {
	if c.g.Chance(20) {
		return int64(1 + c.g.Intn(3000))
	}
	return pkAmounts[c.g.Intn(len(pkAmounts))]
}

func (c *pkGen) genRecv(s *pkSnap) string {
	ci := c.chanIdx()
	ri := c.raOfChan(ci)
	var seq uint64
	switch x := c.g.Intn(100); {
	case x < 78:
		seq = c.nextRcv[ci]
		c.nextRcv[ci]++
	case x < 88:
		seq = c.g.BoundaryU64(c.nextRcv[ci])
		c.r.Hit("recv/boundary-seq")
	default:
		if c.nextRcv[ci] > 1 {
			seq = 1 + uint64(c.g.Intn(int(c.nextRcv[ci]-1)))
		}
		c.r.Hit("recv/redelivery")
	}
	amt := c.amount()
	if c.g.Chance(3) {
		amt = 0
		c.r.Hit("recv/zero-amount")
	}
	den := "f"
	switch x := c.g.Intn(100); {
	case x < 55:
	case x < 90:
		d := 0
		if c.g.Chance(25) {
			d = 1 + c.g.Intn(4)
		}
		esc := s.Bal["e"+strconv.Itoa(ci)][d]
		if esc.IsPositive() || c.g.Chance(12) {
			den = "b" + strconv.Itoa(d)
			if esc.IsPositive() && esc.LT(math.NewInt(amt)) && c.g.Chance(70) {
				amt = 1 + int64(c.g.Intn(int(esc.Int64())))
			}
			if esc.IsPositive() && c.g.Chance(10) {
				amt = esc.Int64() // drains the escrow: a later release of another packet will fail
				c.r.Hit("recv/drains-escrow")
			}
			c.r.Hit("recv/hub-denom-coming-back")
		}
	default:
	}
	to := c.actor()
	switch x := c.g.Intn(100); {
	case x < 4:
		to = "blk"
		c.r.Hit("recv/blocked-receiver")
	case x < 7:
		to = "bad"
		c.r.Hit("recv/undecodable-receiver")
	case x < 14 && strings.HasPrefix(to, "a"):
		to = "A" + to[1:] // the receiver's bech32 address spelled in upper case
		c.r.Hit("recv/upper-case-receiver")
	}
	memo := "-"
	switch x := c.g.Intn(100); {
	case x < 25:
	case x < 75:
		fees := []int64{0, 1, amt / 100, amt / 10, amt - 2, amt - 1, amt, amt + 1}
		fee := fees[c.g.Intn(len(fees))]
		if fee < 0 {
			fee = 0
		}
		memo = "e:" + strconv.FormatInt(fee, 10)
		c.r.Hit("recv/eibc-memo")
	case x < 83:
		memo = "ne"
	case x < 89:
		memo = "nj"
		c.r.Hit("recv/non-json-memo")
	case x < 94:
		memo = "eb"
		c.r.Hit("recv/bad-eibc-fee")
	default:
		memo = "e:-1"
		c.r.Hit("recv/negative-eibc-fee")
	}
	ph := c.proofHeight(s, ri)
	// packet-forward middleware: the received funds are sent on over another hub channel (mostly from the
	// plain chain towards a rollapp; from a rollapp only a finalized height gets through delayedack)
	if fw := map[string]int{"C04": 7, "C05": 9}[c.focus] + 5; c.g.Chance(fw) {
		if c.g.Chance(65) {
			ci, ri = 2, -1
			seq = c.nextRcv[ci]
			c.nextRcv[ci]++
			ph = c.proofHeight(s, ri)
		} else if ri >= 0 && s.FinH[ri] >= 0 && c.g.Chance(70) {
			ph = uint64(s.FinH[ri])
			c.r.Hit("recv/forward-from-rollapp-at-finalized-height")
		}
		k := []int{0, 0, 0, 1, 1, 2, 3, 9}[c.g.Intn(8)]
		if k == ci {
			c.r.Hit("recv/forward-back-over-the-same-channel")
		}
		if strings.HasPrefix(den, "b") && den != "b"+strconv.Itoa(1+ci) && den != "b"+strconv.Itoa(1+k) {
			// a hub-side token coming back and forwarded in escrow: if that forward is refunded, packet-forward
			// v8.1.0 lowers ibc-go's total-escrow counter although the coins only move to the inbound channel's
			// escrow; a later unescrow then panics (known finding C04/escrow/..., directed trace
			// corpus/C04/pfm-refund-lowers-total-escrow.ops).  The model has no such counter: not generated.
			den = "f"
		}
		memo = "fw:c" + strconv.Itoa(k)
		c.r.Hit("recv/forward-memo")
	}
	return fmt.Sprintf("recv c%d seq=%d ph=%d den=%s amt=%d to=%s memo=%s", ci, seq, ph, den, amt, to, memo)
}

func (c *pkGen) genSend(s *pkSnap) string {
	ci := c.chanIdx()
	a := c.funded()
	den := "d0"
	if c.g.Chance(35) {
		den = "d" + strconv.Itoa(1+c.g.Intn(4))
	}
	amt := c.amount()
	if c.g.Chance(4) {
		amt = 0
	}
	if c.g.Chance(7) {
		c.r.Hit("send/receiver-is-a-blocked-hub-address")
		return fmt.Sprintf("sendblk %s c%d den=%s amt=%d", a, ci, den, amt)
	}
	return fmt.Sprintf("send %s c%d den=%s amt=%d", a, ci, den, amt)
}

func (c *pkGen) genAck(s *pkSnap, timeout bool) string {
	ci, seq := c.chanIdx(), uint64(1+c.g.Intn(3))
	if len(s.Cm) > 0 && c.g.Chance(90) {
		x := s.Cm[c.g.Intn(len(s.Cm))]
		p := strings.Split(x[1:], ".")
		ci, _ = strconv.Atoi(p[0])
		seq = atou(p[1])
	} else {
		c.r.Hit("ack/no-commitment")
	}
	ph := c.proofHeight(s, c.raOfChan(ci))
	if timeout {
		return fmt.Sprintf("timeout c%d seq=%d ph=%d", ci, seq, ph)
	}
	res := "err"
	if c.g.Chance(35) {
		res = "ok"
	}
	return fmt.Sprintf("ack c%d seq=%d ph=%d res=%s", ci, seq, ph, res)
}

func (c *pkGen) pickPacket(s *pkSnap, pending bool) *pkPacket {
	var cands []*pkPacket
	for i := range s.Packets {
		if s.Packets[i].Pending == pending {
			cands = append(cands, &s.Packets[i])
		}
	}
	if len(cands) == 0 {
		return nil
	}
	return cands[c.g.Intn(len(cands))]
}

func (c *pkGen) srcOf(p *pkPacket) string {
	if p.Type == "R" {
		return c.h.chans[p.Chan].Cp
	}
	return c.h.chans[p.Chan].Hub
}

func (c *pkGen) genFin(s *pkSnap, byKey bool) string {
	sender := c.actor()
	p := c.pickPacket(s, true)
	// prefer a finalizable one half of the time
	if c.g.Chance(50) {
		for i := range s.Packets {
			q := &s.Packets[i]
			if q.Pending && q.Ra >= 0 && s.FinH[q.Ra] >= 0 && q.PH <= uint64(s.FinH[q.Ra]) {
				p = q
				break
			}
		}
	}
	if p == nil || c.g.Chance(12) {
		if q := c.pickPacket(s, false); q != nil && c.g.Chance(70) {
			c.r.Hit("fin/repeated-on-finalized-packet")
			if byKey {
				if c.g.Chance(50) {
					return fmt.Sprintf("finkey %s k=%s", sender, commontypes.EncodePacketKey([]byte(q.Key))) // the FINALIZED key
				}
				return fmt.Sprintf("finkey %s k=%s", sender, commontypes.EncodePacketKey([]byte(q.PendKey)))
			}
			return fmt.Sprintf("fin %s r%d ph=%d t=%s src=%s seq=%d", sender, q.Ra, q.PH, q.Type, c.srcOf(q), q.Seq)
		}
		c.r.Hit("fin/unknown-packet")
		if byKey {
			ks := []string{"-", "AAEv", "!!!notbase64", "AAEvcmFhXzEwMDEtMS8=", commontypes.EncodePacketKey(c.h.keyOfName("r0.7.R.c0.424242"))}
			return fmt.Sprintf("finkey %s k=%s", sender, ks[c.g.Intn(len(ks))])
		}
		return fmt.Sprintf("fin %s r%d ph=%d t=R src=channel-0 seq=%d", sender, c.g.Intn(3), c.g.Intn(30), c.g.Intn(20))
	}
	if s.FinH[p.Ra] < 0 || p.PH > uint64(s.FinH[p.Ra]) {
		c.r.Hit("fin/premature")
	} else {
		c.r.Hit("fin/valid")
	}
	if byKey {
		k := commontypes.EncodePacketKey([]byte(p.Key))
		if c.g.Chance(8) && len(k) > 4 {
			c.r.Hit("finkey/mutated-key")
			b := []byte(k)
			b[c.g.Intn(len(b))] = "ABCxyz019+/="[c.g.Intn(12)]
			k = string(b)
		}
		return fmt.Sprintf("finkey %s k=%s", sender, k)
	}
	ra, ph, t, src, seq := "r"+strconv.Itoa(p.Ra), p.PH, p.Type, c.srcOf(p), p.Seq
	switch x := c.g.Intn(100); {
	case x < 4:
		ph++
		c.r.Hit("fin/wrong-height")
	case x < 7:
		t = []string{"R", "A", "T", "U"}[c.g.Intn(4)]
		c.r.Hit("fin/wrong-type")
	case x < 10:
		src = []string{"channel-0", "channel-1", "channel-5", "-"}[c.g.Intn(4)]
		c.r.Hit("fin/wrong-channel")
	case x < 13:
		ra = []string{"r0", "r1", "rx", "-"}[c.g.Intn(4)]
		c.r.Hit("fin/wrong-rollapp")
	case x < 15:
		seq++
	}
	return fmt.Sprintf("fin %s %s ph=%d t=%s src=%s seq=%d", sender, ra, ph, t, src, seq)
}

func (c *pkGen) pickOrder(s *pkSnap, wantOpen bool) *pkOrder {
	var cands []*pkOrder
	for i := range s.Orders {
		o := &s.Orders[i]
		open := o.Pending && o.Fulfiller == "-"
		if open == wantOpen {
			cands = append(cands, o)
		}
	}
	if len(cands) == 0 {
		return nil
	}
	return cands[c.g.Intn(len(cands))]
}

func (c *pkGen) orderName(s *pkSnap) (*pkOrder, string) {
	o := c.pickOrder(s, true)
	if o == nil || c.g.Chance(12) {
		if q := c.pickOrder(s, false); q != nil && c.g.Chance(75) {
			c.r.Hit("order/fulfilled-or-finalized-order")
			return q, q.Name
		}
		c.r.Hit("order/unknown-order")
		return nil, fmt.Sprintf("r%d.%d.R.c0.%d", c.g.Intn(2), c.g.Intn(20), c.g.Intn(20))
	}
	return o, o.Name
}

func (c *pkGen) feeFor(o *pkOrder) string {
	if o == nil {
		return strconv.Itoa(c.g.Intn(20))
	}
	switch x := c.g.Intn(100); {
	case x < 86:
		return o.Fee.String()
	case x < 92:
		c.r.Hit("fulfil/fee+1")
		return o.Fee.AddRaw(1).String()
	case x < 97:
		c.r.Hit("fulfil/fee-1")
		return o.Fee.SubRaw(1).String() // may be -1: invalid
	default:
		return "0"
	}
}

func (c *pkGen) packetOf(s *pkSnap, o *pkOrder) *pkPacket {
	for i := range s.Packets {
		if s.Packets[i].PendKey == o.PendKey {
			return &s.Packets[i]
		}
	}
	return nil
}

func (c *pkGen) genUpdFee(s *pkSnap) string {
	o, name := c.orderName(s)
	sender := c.actor()
	fee := int64(c.g.Intn(50))
	if o != nil {
		if c.g.Chance(85) {
			sender = o.Recipient
		} else {
			c.r.Hit("updfee/not-recipient")
		}
		if p := c.packetOf(s, o); p != nil {
			amt := p.Amount.Int64()
			fees := []int64{0, 1, amt / 50, amt / 3, amt - 3, amt - 2, amt - 1, amt, amt + 1}
			fee = fees[c.g.Intn(len(fees))]
		}
	}
	return fmt.Sprintf("updfee %s o=%s fee=%d", sender, name, fee)
}

func (c *pkGen) genLpCreate(s *pkSnap) string {
	a := c.funded()
	if c.g.Chance(6) {
		a = "a" + strconv.Itoa(c.h.p.NActors)
		c.r.Hit("lp/owner-without-account")
	}
	ra := []string{"r0", "r0", "r1", "rx"}[c.g.Intn(4)]
	den := "d" + strconv.Itoa(c.g.Intn(3))
	if c.g.Chance(65) {
		// the usual pairs: the rollapp's own voucher
		if ra == "r1" {
			den = "d2"
		} else {
			ra, den = "r0", "d1"
		}
	}
	maxp := []int64{1, 50, 500, 990, 1000, 5000, 1000000, 1000000}[c.g.Intn(8)]
	minfee := []int64{0, 0, 0, 1, 5, 10, 100}[c.g.Intn(7)]
	limit := []int64{1, 100, 989, 1000, 2500, 1000000, 1000000}[c.g.Intn(7)]
	age := []int64{0, 0, 0, 1, 2, 5}[c.g.Intn(6)]
	ok := 1
	switch x := c.g.Intn(100); {
	case x < 3:
		maxp = 0
	case x < 5:
		minfee = -1
	case x < 7:
		limit = 0
	case x < 9:
		ok = 0
	}
	return fmt.Sprintf("lpcreate %s ra=%s den=%s maxp=%d minfee=%d limit=%d age=%d ok=%d", a, ra, den, maxp, minfee, limit, age, ok)
}

func (c *pkGen) genLpDel(s *pkSnap) string {
	a := c.funded()
	var ids []string
	n := 1 + c.g.Intn(2)
	for i := 0; i < n; i++ {
		if len(s.LPs) > 0 && c.g.Chance(80) {
			l := s.LPs[c.g.Intn(len(s.LPs))]
			ids = append(ids, strconv.FormatUint(l.ID, 10))
			if i == 0 && c.g.Chance(75) {
				a = l.Addr
			}
		} else {
			ids = append(ids, strconv.Itoa(c.g.Intn(12)))
		}
	}
	return fmt.Sprintf("lpdel %s ids=%s", a, strings.Join(ids, ","))
}

func (c *pkGen) genOnDemand(s *pkSnap) string {
	_, name := c.orderName(s)
	rng := int64(c.g.Intn(1000))
	perm := "-"
	o, err := c.h.f.App.EIBCKeeper.GetOutstandingOrder(c.h.f.Ctx, c.h.orderID(name))
	if err == nil {
		lps, err := c.h.f.App.EIBCKeeper.LPs.GetOrderCompatibleLPs(c.h.f.Ctx, *o)
		if err == nil && len(lps) > 0 {
			var xs []string
			for _, i := range shufflePerm(rng, len(lps)) {
				xs = append(xs, strconv.Itoa(i))
			}
			perm = strings.Join(xs, ",")
			if len(lps) > 1 {
				c.r.Hit("ondemand/several-compatible-lps")
			}
		}
	}
	return fmt.Sprintf("ondemand %s o=%s rng=%d perm=%s", c.actor(), name, rng, perm)
}

func (c *pkGen) rawShare() string {
	return []string{"0", "100000000000000000", "500000000000000000", "333333333333333333", "1000000000000000000"}[c.g.Intn(5)]
}

func (c *pkGen) genGrant(s *pkSnap) string {
	lp, op := c.g.Intn(c.h.p.NActors), c.g.Intn(c.h.p.NActors)
	if lp == op && c.g.Chance(90) {
		op = (lp + 1) % c.h.p.NActors
	}
	var crits []string
	ras := []string{"r0", "r1"}
	if c.g.Chance(30) {
		ras = ras[:1]
	}
	if c.g.Chance(5) {
		ras = []string{"r0", "r0"}
	}
	for _, ra := range ras {
		ds := []string{"*", "d1", "d1+d2", "d0+d1", "d2", "d0"}[c.g.Intn(6)]
		minfee := []string{"0", "1000000000000000", "10000000000000000", "100000000000000000", "1000000000000000000"}[c.g.Intn(5)]
		if c.g.Chance(3) {
			minfee = "1100000000000000000"
		}
		maxp := []string{"-", "-", "d1*990", "d1*500+d2*500", "d0*1000+d1*100000", "d2*5"}[c.g.Intn(6)]
		lim := []string{"-", "d1*989", "d1*3000", "d1*5000+d2*5000+d0*5000", "d2*100", "d0*2000"}[c.g.Intn(6)]
		sv := "0"
		if c.g.Chance(25) {
			sv = "1"
		}
		// a multi-denom spend limit whose part in an open order's denom is EXACTLY that order's price: fulfilling it
		// exhausts that denom (sdk.Coins drops the zero entry) while another denom is left; a later order in the
		// exhausted denom must be refused
		if o := c.pickOrder(s, true); o != nil && c.h.rname(o.RollappID) == ra && c.g.Chance(35) {
			ds, minfee, maxp, sv = "*", "0", "-", "0"
			lim = fmt.Sprintf("d%d*%s+d%d*5000", o.Denom, o.Price, (o.Denom+1)%4)
			c.r.Hit("grant/multi-denom-limit-exact-in-one-denom")
		}
		crits = append(crits, fmt.Sprintf("%s/%s/%s/%s/%s/%s/%s", ra, ds, minfee, maxp, lim, c.rawShare(), sv))
	}
	spec := strings.Join(crits, ";")
	c.grants[[2]int{lp, op}] = spec
	return fmt.Sprintf("grant lp=a%d op=a%d crit=%s", lp, op, spec)
}

func (c *pkGen) genFauth(s *pkSnap) string {
	o, name := c.orderName(s)
	lp, op := c.g.Intn(c.h.p.NActors), c.g.Intn(c.h.p.NActors)
	share, sv := c.rawShare(), "0"
	want := "r0"
	if o != nil {
		want = c.h.rname(o.RollappID)
	}
	// prefer a grant that has criteria for the order's rollapp
	var keys [][2]int
	for k := range c.grants {
		keys = append(keys, k)
	}
	for i := range keys { // deterministic order
		for j := i + 1; j < len(keys); j++ {
			if keys[j][0] < keys[i][0] || (keys[j][0] == keys[i][0] && keys[j][1] < keys[i][1]) {
				keys[i], keys[j] = keys[j], keys[i]
			}
		}
	}
	var good [][2]int
	for _, k := range keys {
		if strings.HasPrefix(c.grants[k], want+"/") || strings.Contains(c.grants[k], ";"+want+"/") {
			good = append(good, k)
		}
	}
	if len(good) > 0 && c.g.Chance(90) {
		keys = good
	}
	if len(keys) > 0 && c.g.Chance(90) {
		k := keys[c.g.Intn(len(keys))]
		lp, op = k[0], k[1]
		cs := strings.Split(c.grants[k], ";")
		cr := strings.Split(cs[0], "/")
		for _, x := range cs {
			if p := strings.Split(x, "/"); p[0] == want {
				cr = p
			}
		}
		share, sv = cr[5], cr[6]
	} else {
		c.r.Hit("fauth/no-grant")
	}
	grantee := op
	if c.g.Chance(6) {
		grantee = lp // the LP itself
		c.r.Hit("fauth/lp-executes-itself")
	}
	opaddr := "a" + strconv.Itoa(op)
	if c.g.Chance(8) {
		opaddr = c.actor()
	}
	ra, price, amt, fee := "r0", "d1*100", int64(1000), "0"
	if o != nil {
		ra = c.h.rname(o.RollappID)
		price = fmt.Sprintf("d%d*%s", o.Denom, o.Price)
		fee = o.Fee.String()
		if p := c.packetOf(s, o); p != nil {
			amt = p.Amount.Int64()
		}
		switch x := c.g.Intn(100); {
		case x < 18:
			// the operator understates the transfer amount (the grant's min-fee share is taken from it)
			amt = []int64{1, amt / 100, amt / 10}[c.g.Intn(3)]
			if amt < 1 {
				amt = 1
			}
			c.r.Hit("fauth/understated-amount")
		case x < 21:
			amt = amt * 10
		case x < 24:
			price = fmt.Sprintf("d%d*%s", o.Denom, o.Price.AddRaw(1))
			c.r.Hit("fauth/wrong-price")
		case x < 26:
			price = fmt.Sprintf("d%d*%s", (o.Denom+1)%3, o.Price)
		case x < 29:
			fee = c.feeFor(o)
		case x < 31:
			ra = []string{"r0", "r1", "rx"}[c.g.Intn(3)]
		case x < 33:
			share = c.rawShare()
		case x < 35:
			sv = []string{"0", "1"}[c.g.Intn(2)]
		}
	}
	return fmt.Sprintf("fauth g=a%d lp=a%d op=%s o=%s ra=%s price=%s amt=%d fee=%s share=%s sv=%s", grantee, lp, opaddr, name, ra, price, amt, fee, share, sv)
}

func (c *pkGen) next(s *pkSnap) string {
	w := map[string]int{"recv": 22, "send": 8, "ack": 6, "timeout": 4, "fin": 10, "finkey": 5, "fulfill": 9, "updfee": 4,
		"lpcreate": 4, "lpdel": 1, "ondemand": 6, "grant": 3, "fauth": 6, "state": 6, "finstate": 6, "fork": 2, "epoch": 2, "block": 7, "chanclose": 1, "chanopen": 1, "timeoutclose": 1}
	if c.focus == "C04" {
		w["fin"], w["finkey"], w["recv"], w["ack"], w["timeout"] = 16, 8, 26, 8, 6
		w["chanclose"], w["chanopen"] = 3, 3
	}
	if c.focus == "C03" {
		w["fork"], w["ack"], w["timeout"], w["fulfill"], w["state"], w["send"] = 9, 9, 7, 12, 8, 10
	}
	if c.focus == "C05" {
		w["fulfill"], w["fauth"], w["ondemand"], w["updfee"], w["lpcreate"], w["grant"] = 12, 10, 9, 6, 6, 4
	}
	order := []string{"recv", "send", "ack", "timeout", "fin", "finkey", "fulfill", "updfee", "lpcreate", "lpdel", "ondemand", "grant", "fauth",
		"state", "finstate", "fork", "epoch", "block", "chanclose", "chanopen", "timeoutclose"}
	tot := 0
	for _, k := range order {
		tot += w[k]
	}
	x := c.g.Intn(tot)
	kind := ""
	for _, k := range order {
		if x < w[k] {
			kind = k
			break
		}
		x -= w[k]
	}
	if (kind == "fulfill" || kind == "updfee" || kind == "ondemand" || kind == "fauth") && c.pickOrder(s, true) == nil && c.g.Chance(75) {
		kind = "recv"
	}
	if (kind == "fin" || kind == "finkey") && c.pickPacket(s, true) == nil && c.g.Chance(60) {
		kind = "recv"
	}
	if kind == "recv" && len(s.Closed) > 0 && c.g.Chance(20) {
		kind = "chanopen" // a closed channel rejects everything: do not stay there for long
	}
	if kind == "finstate" {
		ok := false
		for ri := 0; ri < 2; ri++ {
			ok = ok || c.h.nFin[ri] < c.h.nStates[ri]
		}
		if !ok && c.g.Chance(85) {
			kind = "state"
		}
	}
	switch kind {
	case "recv":
		return c.genRecv(s)
	case "send":
		return c.genSend(s)
	case "ack":
		return c.genAck(s, false)
	case "timeout":
		return c.genAck(s, true)
	case "fin":
		return c.genFin(s, false)
	case "finkey":
		return c.genFin(s, true)
	case "fulfill":
		o, name := c.orderName(s)
		return fmt.Sprintf("fulfill %s o=%s fee=%s", c.actor(), name, c.feeFor(o))
	case "updfee":
		return c.genUpdFee(s)
	case "lpcreate":
		return c.genLpCreate(s)
	case "lpdel":
		return c.genLpDel(s)
	case "ondemand":
		return c.genOnDemand(s)
	case "grant":
		return c.genGrant(s)
	case "fauth":
		return c.genFauth(s)
	case "state":
		ri := c.g.Intn(2)
		if c.g.Chance(4) {
			return "state r2 n=3"
		}
		return fmt.Sprintf("state r%d n=%d", ri, []int{1, 1, 2, 3, 5, 10, 0}[c.g.Intn(7)])
	case "finstate":
		ri := c.g.Intn(2)
		if c.h.nFin[ri] >= c.h.nStates[ri] && c.g.Chance(80) {
			ri = 1 - ri
		}
		return fmt.Sprintf("finstate r%d", ri)
	case "fork":
		ri := c.g.Intn(2)
		fin := uint64(0)
		if s.FinH[ri] >= 0 {
			fin = uint64(s.FinH[ri])
		}
		hs := []uint64{fin, fin + 1, fin + 2, c.h.lastH[ri], 0}
		if c.h.lastH[ri] > fin+1 {
			for k := 0; k < 4; k++ { // valid fork heights: finalized <= h < latest
				hs = append(hs, fin+uint64(c.g.Intn(int(c.h.lastH[ri]-fin))))
			}
		}
		if c.h.lastH[ri] > 0 {
			hs = append(hs, c.h.lastH[ri]-1)
		}
		if fin > 0 {
			hs = append(hs, fin-1)
		}
		return fmt.Sprintf("fork r%d h=%d", ri, hs[c.g.Intn(len(hs))])
	case "epoch":
		return "epoch"
	case "chanclose":
		// prefer a channel with a finalizable pending received packet: its acknowledgement cannot be written
		for i := range s.Packets {
			if q := &s.Packets[i]; q.Pending && q.Type == "R" && s.finalizable(q) && c.g.Chance(70) {
				c.r.Hit("chanclose/with-finalizable-recv-packet")
				return fmt.Sprintf("chanclose c%d", q.Chan)
			}
		}
		return fmt.Sprintf("chanclose c%d", c.chanIdx())
	case "timeoutclose":
		l := strings.Fields(c.genAck(s, true))
		return fmt.Sprintf("timeoutclose %s %s", l[1], l[2])
	case "chanopen":
		if len(s.Closed) > 0 && c.g.Chance(85) {
			return "chanopen " + s.Closed[c.g.Intn(len(s.Closed))]
		}
		return fmt.Sprintf("chanopen c%d", c.chanIdx())
	}
	return "block"
}

func pkGenParams(g *Rng) pkParams {
	bfs := []int64{1000000000000000, 0, 1500000000000000, 10000000000000000, 333333333333333333, 999999999999999999}
	tfs := []int64{1500000000000000, 0, 1000000000000000, 50000000000000000, 250000000000000000}
	return pkParams{NActors: 4 + g.Intn(2), Fund: 100000, BF: bfs[g.Intn(len(bfs))], TF: tfs[g.Intn(len(tfs))], EF: tfs[g.Intn(len(tfs))]}
}

// ---- runner ----------------------------------------------------------------------------------

func pkRunTrace(t *testing.T, r *Run, lines []string) {
	p := parsePkParams(lines[0])
	h := newPkH(t, p)
	mon := newPkMon(h, r)
	mon.trace = []string{lines[0]}
	s := h.snapshot()
	r.Emit(lines[0], s.render(h, "ok"))
	mon.check(lines[0], "ok", s)
	for _, l := range lines[1:] {
		mon.trace = append(mon.trace, l)
		res := h.exec(l)
		s = h.snapshot()
		r.Emit(l, s.render(h, res))
		mon.check(l, res, s)
	}
	r.Trace()
}

// pkCorpus: the op lines of corpus/C04/*.ops and corpus/C05/*.ops (relative to the harness directory)
func pkCorpus() [][]string {
	var out [][]string
	root := ".."
	if v := os.Getenv("VERIF_ROOT"); v != "" { // set by ./check: the harness may run from a private copy
		root = v
	}
	if _, err := os.Stat(filepath.Join(root, "corpus")); err != nil {
		if _, file, _, ok := runtime.Caller(0); ok { // not started from the harness directory
			root = filepath.Dir(filepath.Dir(file))
		}
	}
	for _, d := range []string{filepath.Join(root, "corpus", "C04"), filepath.Join(root, "corpus", "C05")} {
		files, _ := filepath.Glob(filepath.Join(d, "*.ops"))
		sort.Strings(files)
		for _, f := range files {
			b, err := os.ReadFile(f)
			if err != nil {
				continue
			}
			var lines []string
			for _, l := range strings.Split(string(b), "\n") {
				l = strings.TrimSpace(l)
				if l != "" && !strings.HasPrefix(l, "#") {
					lines = append(lines, l)
				}
			}
			if len(lines) > 0 && strings.HasPrefix(lines[0], "reset") {
				out = append(out, lines)
			}
		}
	}
	return out
}

func TestPackets(t *testing.T) {
	focus := os.Getenv("PACKETS_FOCUS")
	r := NewRun(t, "Packets")
	defer r.Close()
	if lines := ReplayLines(); lines != nil {
		// a replay file may hold several traces (C12 / C18 replay whole generated histories): each
		// starts at its `reset` line on a fresh fixture
		for _, tr := range SplitTraces(lines) {
			pkRunTrace(t, r, tr)
		}
		return
	}
	// corpus traces first: even the smallest run contains the named rare branches
	for _, f := range pkCorpus() {
		pkRunTrace(t, r, f)
	}
	nTraces, nOps := r.N(50, 600), r.N(110, 150)
	for tr := 0; tr < nTraces; tr++ {
		g := r.Rng.Fork()
		p := pkGenParams(g)
		h := newPkH(t, p)
		mon := newPkMon(h, r)
		gen := &pkGen{g: g, h: h, r: r, focus: focus, nextRcv: []uint64{1, 1, 1, 1}, grants: map[[2]int]string{}}
		line := p.line()
		mon.trace = []string{line}
		s := h.snapshot()
		r.Emit(line, s.render(h, "ok"))
		mon.check(line, "ok", s)
		accepted := 0
		hash := sha256.New()
		for i := 0; i < nOps; i++ {
			op := gen.next(s)
			mon.trace = append(mon.trace, op)
			res := h.exec(op)
			s = h.snapshot()
			r.Emit(op, s.render(h, res))
			mon.check(op, res, s)
			kind := strings.Fields(op)[0]
			r.Hit(kind + "/" + res)
			hash.Write([]byte(kind + "/" + res + ";"))
			if (res == "ok" || res == "async" || res == "ackok") && kind != "block" && kind != "state" && kind != "finstate" {
				accepted++
			}
		}
		r.Class(fmt.Sprintf("%x", hash.Sum(nil)[:8]), accepted > 0)
		r.Trace()
	}
}

var _ = math.NewInt
