// Package harness is the correspondence harness: it drives the real hub code (from /repo, via the
// replace directive) with seeded inputs, writes one op per line (ops.txt) and the implementation's
// canonical observation for that op (impl.obs), evaluates model-independent property monitors and
// records statistics for the evidence file.
package harness

import (
	"bufio"
	"encoding/json"
	"fmt"
	"os"
	"path/filepath"
	"regexp"
	"sort"
	"strconv"
	"strings"
	"testing"
)

// ---- PRNG (splitmix64): every random choice of a run derives from VERIF_SEED ------------------

type Rng struct{ s uint64 }

// NewRng derives the initial state by hashing the seed (splitmix64 finaliser): the streams of
// neighbouring seeds are unrelated (seed*golden would make seed k+1 the stream of seed k shifted by one).
func NewRng(seed uint64) *Rng {
	z := seed + 0x632BE59BD9B4E019
	z = (z ^ (z >> 30)) * 0xBF58476D1CE4E5B9
	z = (z ^ (z >> 27)) * 0x94D049BB133111EB
	return &Rng{s: z ^ (z >> 31)}
}

func (r *Rng) U64() uint64 {
	r.s += 0x9E3779B97F4A7C15
	z := r.s
	z = (z ^ (z >> 30)) * 0xBF58476D1CE4E5B9
	z = (z ^ (z >> 27)) * 0x94D049BB133111EB
	return z ^ (z >> 31)
}
func (r *Rng) Intn(n int) int {
	if n <= 0 {
		return 0
	}
	return int(r.U64() % uint64(n))
}
func (r *Rng) Bool() bool          { return r.U64()&1 == 1 }
func (r *Rng) Chance(pct int) bool { return r.Intn(100) < pct }
func (r *Rng) Fork() *Rng          { return NewRng(r.U64()) }

// BoundaryU64 draws from the uint64 boundary pool plus state-derived values.
func (r *Rng) BoundaryU64(extra ...uint64) uint64 {
	pool := []uint64{0, 1, 2, 255, 256, 257, 511, 512, 65535, 65536, 65537, 1 << 24, 1<<32 - 1, 1 << 32, 1<<32 + 1,
		1<<63 - 1, 1 << 63, 1<<63 + 1, 1<<64 - 2, 1<<64 - 1}
	for _, x := range extra {
		pool = append(pool, x, x+1, x-1)
	}
	switch r.Intn(12) {
	case 10, 11:
		// byte-pattern values: every byte is one that a key encoding could mistake for structure
		// ('/' separators 0x2f, NUL terminators, 0xff upper bounds, '-' and ':' of textual ids)
		var v uint64
		n := 1 + r.Intn(8)
		for i := 0; i < n; i++ {
			b := []uint64{0x2f, 0x00, 0xff, 0x01, 0x2d, 0x3a, 0x2f, uint64(r.Intn(256))}[r.Intn(8)]
			v = v<<8 | b
		}
		return v
	case 0, 1, 2, 3:
		return pool[r.Intn(len(pool))]
	case 4, 5:
		return uint64(r.Intn(256)) << (8 * uint(r.Intn(8))) // multiples of 256^k: trailing zero bytes
	case 6:
		return r.U64()
	case 7:
		return r.U64() >> uint(r.Intn(64))
	default:
		return uint64(r.Intn(1000))
	}
}

// ---- run bookkeeping ------------------------------------------------------------------------

type Violation struct {
	Signature string   `json:"signature"` // stable id of *what* fails (matched against known_findings.json)
	Detail    string   `json:"detail"`
	Replay    []string `json:"replay"` // op lines reproducing it on the implementation
}

type Run struct {
	T         *testing.T
	ID        string
	Seed      uint64
	Tier      string
	OutDir    string
	Rng       *Rng
	ops       *bufio.Writer
	obs       *bufio.Writer
	fops      *os.File
	fobs      *os.File
	nOps      int
	hits      map[string]int
	classes   map[string]bool
	nontriv   map[string]bool
	viol      []Violation
	samples   []string
	extra     map[string]any
	traces    int
	curTrace  []string
	pendFails [][2]string
	// AutoClass: stateless protocols — each distinct op line is a case; non-trivial iff not an error
	AutoClass bool
}

func envOr(k, d string) string {
	if v := os.Getenv(k); v != "" {
		return v
	}
	return d
}

func NewRun(t *testing.T, id string) *Run {
	seed, _ := strconv.ParseUint(envOr("VERIF_SEED", "1"), 10, 64)
	out := envOr("VERIF_OUT", filepath.Join(os.TempDir(), "dymh-"+id))
	if err := os.MkdirAll(out, 0o755); err != nil {
		t.Fatal(err)
	}
	r := &Run{T: t, ID: id, Seed: seed, Tier: envOr("VERIF_TIER", "quick"), OutDir: out, Rng: NewRng(seed),
		hits: map[string]int{}, classes: map[string]bool{}, nontriv: map[string]bool{}, extra: map[string]any{}}
	var err error
	if r.fops, err = os.Create(filepath.Join(out, "ops.txt")); err != nil {
		t.Fatal(err)
	}
	if r.fobs, err = os.Create(filepath.Join(out, "impl.obs")); err != nil {
		t.Fatal(err)
	}
	r.ops, r.obs = bufio.NewWriterSize(r.fops, 1<<20), bufio.NewWriterSize(r.fobs, 1<<20)
	// C11: any error / panic of the application's begin or end blocker, in whatever package harness,
	// is reported with the trace up to and including the op that ran the block
	blockFailHook = func(kind string, err error) {
		r.pendFails = append(r.pendFails, [2]string{"C11/" + kind + "/" + failClass(err), err.Error()})
		r.Hit("c11/" + kind + "-failed")
	}
	return r
}

func (r *Run) Thorough() bool { return r.Tier == "thorough" }

// N picks the quick or the thorough budget.  VERIF_SCALE (a float, used by the meta-harnesses C12 /
// C18 when they run another package's generator as a sub-process) scales budgets of 20 and more.
func (r *Run) N(quick, thorough int) int {
	n := quick
	if r.Thorough() {
		n = thorough
	}
	if sc := os.Getenv("VERIF_SCALE"); sc != "" && n >= 20 {
		if f, err := strconv.ParseFloat(sc, 64); err == nil && f > 0 {
			n = int(float64(n) * f)
			if n < 2 {
				n = 2
			}
		}
	}
	return n
}

// Emit writes one op line and the implementation's observation for it.
func (r *Run) Emit(op, obs string) {
	if strings.ContainsAny(op, "\n\r") || strings.ContainsAny(obs, "\n\r") {
		r.T.Fatalf("newline in protocol line: %q / %q", op, obs)
	}
	r.ops.WriteString(op)
	r.ops.WriteByte('\n')
	r.obs.WriteString(obs)
	r.obs.WriteByte('\n')
	r.nOps++
	r.curTrace = append(r.curTrace, op)
	for _, pf := range r.pendFails {
		d := pf[1]
		if len(d) > 300 {
			d = d[:300]
		}
		r.Violate(pf[0], d, r.curTrace...)
	}
	r.pendFails = nil
	if digestOut != nil && lastFix != nil && lastFix.App != nil {
		// C12: digest of every KV store after every op of every package harness
		fmt.Fprintf(digestOut, "op=%d gas=%s %s\n", r.nOps, takeGas(), lastFix.StoreDigest())
	} else if digestOut != nil && len(opGas) > 0 {
		fmt.Fprintf(digestOut, "op=%d gas=%s\n", r.nOps, takeGas())
	}
	if c18Mode != "" {
		// C18 continue-after-import: epoch bookkeeping; a fork where the replay file carries a marker after this op
		c18AfterEmit(r)
	}
	if r.AutoClass {
		r.Class(op, obs != "err" && obs != "bad-op")
	}
	if len(r.samples) < 3 || (r.nOps%997 == 0 && len(r.samples) < 8) {
		r.samples = append(r.samples, op+"  =>  "+obs)
	}
}

func (r *Run) Hit(branch string) { r.hits[branch]++ }

// Class records the canonical class of a case; nontrivial marks classes that count as non-trivial.
func (r *Run) Class(key string, nontrivial bool) {
	r.classes[key] = true
	if nontrivial {
		r.nontriv[key] = true
	}
}

// Trace marks the end of one trace.  With VERIF_C18 set, the application the trace ran on (the most
// recent fixture) additionally goes through the generic genesis export / import comparison.
func (r *Run) Trace() {
	r.traces++
	if c18Mode != "" && lastFix != nil {
		c18TraceEnd(r, lastFix, r.curTrace)
	}
	r.curTrace = nil
}
func (r *Run) Set(k string, v any) { r.extra[k] = v }
func (r *Run) Violations() int     { return len(r.viol) }
func (r *Run) Violate(sig, detail string, replay ...string) {
	if c18Straddles(r, sig) {
		return
	}
	replay = c18ForkReplay(r, sig, replay)
	for _, v := range r.viol {
		if v.Signature == sig && len(v.Replay) <= len(replay) {
			return // keep the shortest replay per signature
		}
	}
	r.viol = append(r.viol, Violation{sig, detail, replay})
}

var reDigits = regexp.MustCompile(`[0-9]+`)
var reNonWord = regexp.MustCompile(`[^a-z]+`)

// failClass: a stable short class of an error text (digits and addresses dropped, first words kept)
func failClass(err error) string {
	m := strings.ToLower(err.Error())
	if IsPanic(err) {
		m = "panic " + m
	}
	m = reDigits.ReplaceAllString(m, "")
	m = strings.Trim(reNonWord.ReplaceAllString(m, "-"), "-")
	if len(m) > 70 {
		m = m[:70]
	}
	return m
}

func (r *Run) Close() {
	r.ops.Flush()
	r.obs.Flush()
	r.fops.Close()
	r.fobs.Close()
	if blocksRun > 0 {
		r.hits["c11/blocks-run"] = blocksRun
	}
	hk := make([]string, 0, len(r.hits))
	for k := range r.hits {
		hk = append(hk, k)
	}
	sort.Strings(hk)
	// keep the shortest replay per signature
	best := map[string]Violation{}
	for _, v := range r.viol {
		if b, ok := best[v.Signature]; !ok || len(v.Replay) < len(b.Replay) {
			best[v.Signature] = v
		}
	}
	vs := []Violation{}
	for _, v := range best {
		vs = append(vs, v)
	}
	sort.Slice(vs, func(i, j int) bool { return vs[i].Signature < vs[j].Signature })
	st := map[string]any{
		"property": r.ID, "seed": r.Seed, "tier": r.Tier,
		"ops": r.nOps, "traces": r.traces, "classes": len(r.classes), "distinct_nontrivial": len(r.nontriv),
		"branches": r.hits, "violations": vs, "samples": r.samples, "extra": r.extra,
	}
	b, _ := json.MarshalIndent(st, "", " ")
	if err := os.WriteFile(filepath.Join(r.OutDir, "stats.json"), b, 0o644); err != nil {
		r.T.Fatal(err)
	}
}

func Hex(b []byte) string {
	if len(b) == 0 {
		return "-"
	}
	return fmt.Sprintf("%x", b)
}

// ReplayLines returns the op lines of the replay file named by VERIF_REPLAY, or nil.
func ReplayLines() []string {
	p := os.Getenv("VERIF_REPLAY")
	if p == "" {
		return nil
	}
	b, err := os.ReadFile(p)
	if err != nil {
		return nil
	}
	var out []string
	for _, l := range strings.Split(string(b), "\n") {
		l = strings.TrimSpace(l)
		if l == "" || strings.HasPrefix(l, "#") {
			continue
		}
		if l == c18ForkMarker {
			// not an op of any package: after the op before it the chain is exported, imported into a
			// fresh application and the rest of the trace runs there (c18_fork.go)
			c18ForkAt[len(out)] = true
			continue
		}
		out = append(out, l)
	}
	return out
}

// SplitTraces cuts replay lines into traces: a trace starts at each line beginning with "reset".
func SplitTraces(lines []string) [][]string {
	var out [][]string
	for _, l := range lines {
		if strings.HasPrefix(l, "reset") || len(out) == 0 {
			out = append(out, nil)
		}
		out[len(out)-1] = append(out[len(out)-1], l)
	}
	return out
}
